---- MODULE Mux_sketch ----
(* Design sketch (round 0), validated with TLC:                                   *)
(*   Ids={1}, W=2, B=1, MaxData=2: 177 969 distinct states, 10 s, no violation    *)
(*   when ZeroReads=FALSE or FixZeroInc=TRUE; with ZeroReads=TRUE and             *)
(*   FixZeroInc=FALSE NoViolation fails after 15 steps (zero window increment).   *)
(*   Ids={1,3}, W=1, MaxData=1, wire<3: >2*10^8 distinct states (18 min, still    *)
(*   running, no violation) -> needs an API-operation budget for a quick tier.    *)
EXTENDS Integers, Sequences, FiniteSets, TLC

CONSTANTS W,         \* stream receive window
          B,         \* accept backlog
          MaxData,   \* bytes each side may write per stream
          ZeroReads, \* TRUE: application may issue zero-length reads
          FixZeroInc \* TRUE: model a Read that enqueues no increment when count = 0

E == {0, 1}
Ids == {1}                        \* endpoint 0 opens odd ids, endpoint 1 even ids
Out(e) == {s \in Ids : (s % 2 = 0) = (e = 1)}
Peer(e) == 1 - e

VARIABLES st, win, rbuf, pinc, pcw, pcl, wire, backlog, opened, maxIn, perr, written, readOut, eof
vars == <<st, win, rbuf, pinc, pcw, pcl, wire, backlog, opened, maxIn, perr, written, readOut, eof>>

Fresh == [reg |-> FALSE, est |-> FALSE, cw |-> FALSE, cl |-> FALSE, rcw |-> FALSE, rcl |-> FALSE, api |-> FALSE]

Init ==
  /\ st = [e \in E |-> [s \in Ids |-> Fresh]]
  /\ win = [e \in E |-> [s \in Ids |-> 0]]
  /\ rbuf = [e \in E |-> [s \in Ids |-> 0]]
  /\ pinc = [e \in E |-> [s \in Ids |-> -1]]     \* -1: no entry in the windowIncrements map
  /\ pcw = [e \in E |-> {}]
  /\ pcl = [e \in E |-> {}]
  /\ wire = [e \in E |-> <<>>]
  /\ backlog = [e \in E |-> <<>>]
  /\ opened = [e \in E |-> {}]
  /\ maxIn = [e \in E |-> 0]
  /\ perr = [e \in E |-> FALSE]
  /\ written = [e \in E |-> [s \in Ids |-> 0]]
  /\ readOut = [e \in E |-> [s \in Ids |-> 0]]
  /\ eof = [e \in E |-> [s \in Ids |-> FALSE]]

Alive == ~perr[0] /\ ~perr[1]
Room(e) == Len(wire[e]) < 4       \* write-buffer pool / carrier back-pressure
Send(e, m) == wire' = [wire EXCEPT ![e] = Append(@, m)]
Msg(k, s, a) == [k |-> k, s |-> s, a |-> a]

\* ---------- application-side actions ----------
Open(e, s) ==
  /\ Alive /\ s \in Out(e) /\ s \notin opened[e] /\ (\A t \in Out(e) \ opened[e] : s <= t) /\ Room(e)
  /\ opened' = [opened EXCEPT ![e] = @ \cup {s}]
  /\ st' = [st EXCEPT ![e][s].reg = TRUE]
  /\ Send(e, Msg("open", s, W))
  /\ UNCHANGED <<win, rbuf, pinc, pcw, pcl, backlog, maxIn, perr, written, readOut, eof>>

\* enqueueClose: cancels the pending increment and close-write of the stream
DoClose(e, s) ==
  /\ pinc' = [pinc EXCEPT ![e][s] = -1]
  /\ pcw' = [pcw EXCEPT ![e] = @ \ {s}]
  /\ pcl' = [pcl EXCEPT ![e] = @ \cup {s}]

CancelOpen(e, s) ==   \* context cancelled / rejection seen while OpenStream waits
  /\ Alive /\ s \in opened[e] /\ st[e][s].reg /\ ~st[e][s].api /\ ~st[e][s].cl
  /\ st' = [st EXCEPT ![e][s].cw = TRUE, ![e][s].cl = TRUE, ![e][s].reg = FALSE]
  /\ DoClose(e, s)
  /\ UNCHANGED <<win, rbuf, wire, backlog, opened, maxIn, perr, written, readOut, eof>>

OpenReturns(e, s) ==  \* OpenStream observes establishment and hands the stream to the application
  /\ Alive /\ s \in opened[e] /\ st[e][s].reg /\ st[e][s].est /\ ~st[e][s].api /\ ~st[e][s].cl
  /\ st' = [st EXCEPT ![e][s].api = TRUE]
  /\ UNCHANGED <<win, rbuf, pinc, pcw, pcl, wire, backlog, opened, maxIn, perr, written, readOut, eof>>

Accept(e) ==
  /\ Alive /\ backlog[e] # <<>> /\ Room(e)
  /\ LET s == Head(backlog[e]) IN
     /\ backlog' = [backlog EXCEPT ![e] = Tail(@)]
     /\ \/ /\ st[e][s].rcl          \* stale inbound stream: stream.Close()
           /\ st' = [st EXCEPT ![e][s].cw = TRUE, ![e][s].cl = TRUE, ![e][s].reg = FALSE]
           /\ DoClose(e, s)
           /\ UNCHANGED wire
        \/ /\ st' = [st EXCEPT ![e][s].est = TRUE, ![e][s].api = TRUE]   \* the select may also pick the write buffer
           /\ Send(e, Msg("accept", s, W))
           /\ UNCHANGED <<pinc, pcw, pcl>>
  /\ UNCHANGED <<win, rbuf, opened, maxIn, perr, written, readOut, eof>>

Write(e, s) ==
  /\ Alive /\ st[e][s].api /\ ~st[e][s].cl /\ ~st[e][s].cw /\ ~st[e][s].rcl
  /\ win[e][s] > 0 /\ written[e][s] < MaxData /\ Room(e)
  /\ \E n \in 1..win[e][s] :
       /\ written[e][s] + n <= MaxData
       /\ win' = [win EXCEPT ![e][s] = @ - n]
       /\ written' = [written EXCEPT ![e][s] = @ + n]
       /\ Send(e, Msg("data", s, n))
  /\ UNCHANGED <<st, rbuf, pinc, pcw, pcl, backlog, opened, maxIn, perr, readOut, eof>>

Read(e, s, k) ==
  /\ Alive /\ st[e][s].api /\ ~st[e][s].cl /\ ~eof[e][s]
  /\ IF rbuf[e][s] > 0 THEN
        LET c == IF k < rbuf[e][s] THEN k ELSE rbuf[e][s] IN
        /\ rbuf' = [rbuf EXCEPT ![e][s] = @ - c]
        /\ readOut' = [readOut EXCEPT ![e][s] = @ + c]
        /\ pinc' = IF c = 0 /\ FixZeroInc THEN pinc
                   ELSE [pinc EXCEPT ![e][s] = (IF @ = -1 THEN 0 ELSE @) + c]
        /\ UNCHANGED eof
     ELSE /\ (st[e][s].rcw \/ st[e][s].rcl)
          /\ eof' = [eof EXCEPT ![e][s] = TRUE]
          /\ UNCHANGED <<rbuf, readOut, pinc>>
  /\ UNCHANGED <<st, win, pcw, pcl, wire, backlog, opened, maxIn, perr, written>>

CloseWrite(e, s) ==
  /\ Alive /\ st[e][s].api /\ ~st[e][s].cw /\ ~st[e][s].cl
  /\ st' = [st EXCEPT ![e][s].cw = TRUE]
  /\ pcw' = [pcw EXCEPT ![e] = @ \cup {s}]
  /\ UNCHANGED <<win, rbuf, pinc, pcl, wire, backlog, opened, maxIn, perr, written, readOut, eof>>

Close(e, s) ==
  /\ Alive /\ st[e][s].api /\ ~st[e][s].cl
  /\ st' = [st EXCEPT ![e][s].cw = TRUE, ![e][s].cl = TRUE, ![e][s].reg = FALSE]
  /\ DoClose(e, s)
  /\ UNCHANGED <<win, rbuf, wire, backlog, opened, maxIn, perr, written, readOut, eof>>

\* the state-accumulation goroutine obtains a write buffer and drains everything pending
RECURSIVE SetSeq(_)
SetSeq(S) == IF S = {} THEN <<>> ELSE LET x == CHOOSE y \in S : TRUE IN <<x>> \o SetSeq(S \ {x})
MapSeq(q, f(_)) == [i \in 1..Len(q) |-> f(q[i])]
Flush(e) ==
  /\ Alive /\ Room(e)
  /\ LET incs == {s \in Ids : pinc[e][s] # -1} IN
     /\ incs # {} \/ pcw[e] # {} \/ pcl[e] # {}
     /\ wire' = [wire EXCEPT ![e] = @ \o MapSeq(SetSeq(incs), LAMBDA s : Msg("inc", s, pinc[e][s]))
                                      \o MapSeq(SetSeq(pcw[e]), LAMBDA s : Msg("cw", s, 0))
                                      \o MapSeq(SetSeq(pcl[e]), LAMBDA s : Msg("close", s, 0))]
  /\ pinc' = [pinc EXCEPT ![e] = [s \in Ids |-> -1]]
  /\ pcw' = [pcw EXCEPT ![e] = {}]
  /\ pcl' = [pcl EXCEPT ![e] = {}]
  /\ UNCHANGED <<st, win, rbuf, backlog, opened, maxIn, perr, written, readOut, eof>>

\* ---------- reader goroutine: the validation rules of Multiplexer.read ----------
Violation(e) == /\ perr' = [perr EXCEPT ![e] = TRUE]
                /\ UNCHANGED <<st, win, rbuf, pinc, pcw, pcl, backlog, opened, maxIn, written, readOut, eof>>
Discard(e) == UNCHANGED <<st, win, rbuf, pinc, pcw, pcl, backlog, opened, maxIn, perr, written, readOut, eof>>

Recv(e) ==
  /\ Alive /\ wire[Peer(e)] # <<>>
  /\ LET m == Head(wire[Peer(e)])
         s == m.s
         outb == s \in Out(e)
         S == st[e][s]
         rangeBad == IF outb THEN s \notin opened[e] ELSE s > maxIn[e]
     IN
     /\ wire' = [wire EXCEPT ![Peer(e)] = Tail(@)]
     /\ CASE m.k = "open" ->
               IF outb \/ s <= maxIn[e] THEN Violation(e)
               ELSE IF Len(backlog[e]) = B THEN       \* backlog full: reject with a close
                    /\ maxIn' = [maxIn EXCEPT ![e] = s]
                    /\ DoClose(e, s)
                    /\ UNCHANGED <<st, win, rbuf, backlog, opened, perr, written, readOut, eof>>
               ELSE /\ maxIn' = [maxIn EXCEPT ![e] = s]
                    /\ st' = [st EXCEPT ![e][s].reg = TRUE]
                    /\ win' = [win EXCEPT ![e][s] = m.a]
                    /\ backlog' = [backlog EXCEPT ![e] = Append(@, s)]
                    /\ UNCHANGED <<rbuf, pinc, pcw, pcl, opened, perr, written, readOut, eof>>
          [] m.k = "accept" ->
               IF ~outb \/ rangeBad THEN Violation(e)
               ELSE IF ~S.reg THEN Discard(e)
               ELSE IF S.est \/ S.rcl THEN Violation(e)
               ELSE /\ st' = [st EXCEPT ![e][s].est = TRUE]
                    /\ win' = [win EXCEPT ![e][s] = m.a]
                    /\ UNCHANGED <<rbuf, pinc, pcw, pcl, backlog, opened, maxIn, perr, written, readOut, eof>>
          [] m.k = "data" ->
               IF m.a = 0 \/ rangeBad THEN Violation(e)
               ELSE IF ~S.reg THEN Discard(e)
               ELSE IF ~S.est \/ S.rcw \/ S.rcl \/ rbuf[e][s] + m.a > W THEN Violation(e)
               ELSE /\ rbuf' = [rbuf EXCEPT ![e][s] = @ + m.a]
                    /\ UNCHANGED <<st, win, pinc, pcw, pcl, backlog, opened, maxIn, perr, written, readOut, eof>>
          [] m.k = "inc" ->
               IF m.a = 0 \/ rangeBad THEN Violation(e)
               ELSE IF ~S.reg THEN Discard(e)
               ELSE IF (outb /\ ~S.est) \/ S.rcl THEN Violation(e)
               ELSE /\ win' = [win EXCEPT ![e][s] = @ + m.a]
                    /\ UNCHANGED <<st, rbuf, pinc, pcw, pcl, backlog, opened, maxIn, perr, written, readOut, eof>>
          [] m.k = "cw" ->
               IF rangeBad THEN Violation(e)
               ELSE IF ~S.reg THEN Discard(e)
               ELSE IF (outb /\ ~S.est) \/ S.rcl \/ S.rcw THEN Violation(e)
               ELSE /\ st' = [st EXCEPT ![e][s].rcw = TRUE]
                    /\ UNCHANGED <<win, rbuf, pinc, pcw, pcl, backlog, opened, maxIn, perr, written, readOut, eof>>
          [] m.k = "close" ->
               IF rangeBad THEN Violation(e)
               ELSE IF ~S.reg THEN Discard(e)
               ELSE IF S.rcl THEN Violation(e)
               ELSE /\ st' = [st EXCEPT ![e][s].rcl = TRUE]
                    /\ UNCHANGED <<win, rbuf, pinc, pcw, pcl, backlog, opened, maxIn, perr, written, readOut, eof>>

Next ==
  \E e \in E :
    \/ Recv(e) \/ Flush(e) \/ Accept(e)
    \/ \E s \in Ids : Open(e, s) \/ CancelOpen(e, s) \/ OpenReturns(e, s) \/ Write(e, s) \/ CloseWrite(e, s) \/ Close(e, s)
                      \/ \E k \in (IF ZeroReads THEN 0..W ELSE 1..W) : Read(e, s, k)

Spec == Init /\ [][Next]_vars

NoViolation == ~perr[0] /\ ~perr[1]                                                   \* C24
InOrder == \A e \in E, s \in Ids : readOut[e][s] <= written[Peer(e)][s]               \* C23 (counts)
EOFComplete == \A e \in E, s \in Ids : eof[e][s] => (st[Peer(e)][s].cw \/ st[Peer(e)][s].cl) /\ readOut[e][s] = written[Peer(e)][s]
WindowRespected == \A e \in E, s \in Ids : rbuf[e][s] <= W
====
