---- MODULE SyncCoreTrace_sketch ----
EXTENDS SyncCore_sketch, Json
VARIABLE l
Trace == ndJsonDeserialize("trace.ndjson")
Rng(q) == {q[i] : i \in DOMAIN q}
Plan(o) == [anc |-> o.anc, alpha |-> Rng(o.alpha), beta |-> Rng(o.beta),
            conf |-> {[root |-> k.root, ac |-> Rng(k.ac), bc |-> Rng(k.bc)] : k \in Rng(o.conf)}]
Load(i) == /\ anc' = Trace[i].anc /\ alpha' = Trace[i].alpha /\ beta' = Trace[i].beta /\ mode' = Trace[i].mode
           /\ out' = Plan(Trace[i].out)
TInit == /\ l = 1 /\ anc = Trace[1].anc /\ alpha = Trace[1].alpha /\ beta = Trace[1].beta /\ mode = Trace[1].mode
         /\ out = Plan(Trace[1].out)
TNext == l < Len(Trace) /\ l' = l + 1 /\ Load(l + 1)
InDomain == anc \in SyncTrees /\ alpha \in AllTrees /\ beta \in AllTrees /\ mode \in Modes
\* conformance (drift metric, not a verdict): same sets, ancestor changes as a set
Model == Rec(<<>>, anc, alpha, beta, mode)
Conforms == /\ out.alpha = Model.alpha /\ out.beta = Model.beta /\ out.conf = Model.conf
            /\ Rng(out.anc) = Rng(Model.anc)
Accepted == TLCGet("stats").diameter = Len(Trace)
====
