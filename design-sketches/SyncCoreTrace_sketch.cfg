CONSTANT Shape = "d1"
INIT TInit
NEXT TNext
INVARIANT InDomain C01 C02 C03 C06 C05ideal C04 Conforms
POSTCONDITION Accepted
CHECK_DEADLOCK FALSE
