---- MODULE Lifecycle_sketch ----
(* Design sketch (round 0) of pkg/synchronization/controller.go: run loop, lifecycle lock,      *)
(* cancel/done, flush request channel (capacity 1), persisted pause flag, terminate, reset,      *)
(* manager restart.  One session.  Endpoint operations are single steps.  The whole state is     *)
(* one record `s` so that actions are written as EXCEPT updates.                                 *)
EXTENDS Naturals, Sequences, FiniteSets, TLC

CONSTANTS Cmds,            \* set of command instances, each [id, kind]
          MaxCycles,       \* bound on synchronization cycles
          AnswerFlushEarly \* TRUE: mutation - answer the flush request when the cycle starts

VARIABLE s
Ids == {c.id : c \in Cmds}
KindOf(i) == (CHOOSE c \in Cmds : c.id = i).kind

Init == s = [
  alive |-> TRUE, disabled |-> FALSE, cancelSet |-> TRUE, cancelled |-> FALSE, paused |-> FALSE,
  loopGen |-> 1, doneClosed |-> {}, synGen |-> 0, synOpen |-> FALSE, synClosed |-> {},
  flushQ |-> <<>>, flushHeld |-> 0, resp |-> [i \in Ids |-> "none"],
  lpc |-> "connect", skipPoll |-> TRUE, cycles |-> 0, retries |-> 0,
  sessionFile |-> TRUE, pausedDisk |-> FALSE, archive |-> "empty",
  lock |-> 0, cpc |-> [i \in Ids |-> "idle"], cref |-> [i \in Ids |-> [syn |-> 0, gen |-> 0]],
  result |-> [i \in Ids |-> "none"],
  quiet |-> FALSE,      \* from the return of pause/terminate (or the load of a paused session) until a resume/reset/restart begins
  badOp |-> FALSE,      \* an endpoint operation happened while quiet
  fresh |-> [i \in Ids |-> FALSE],     \* the cycle in progress started after flush i was called
  freshDone |-> [i \in Ids |-> FALSE]  \* a complete cycle that started after the call has finished
]

LoopRunning(t) == t.lpc \notin {"none", "exited"}
InFlight(t, i) == t.cpc[i] \notin {"idle", "done"}
Op(t) == [t EXCEPT !.badOp = t.badOp \/ t.quiet]      \* an endpoint operation is performed

\* ------------------------------------------------------------------ run loop
Exit(t) == [t EXCEPT !.lpc = "exited", !.doneClosed = @ \cup {t.loopGen}]
SyncReturn(t, halted) ==   \* synchronize returned with an error: close(synchronizing), forget the held request
  [t EXCEPT !.synOpen = FALSE, !.synClosed = @ \cup {t.synGen}, !.flushHeld = 0,
            !.lpc = IF halted THEN "haltwait" ELSE IF t.cancelled THEN "exit" ELSE "connect"]
CycleStart(t) ==           \* first endpoint operation of a cycle: every flush already called sees a fresh cycle from here
  LET u == Op(t) IN
  [u EXCEPT !.fresh = [i \in Ids |-> InFlight(t, i)],
            !.resp = IF AnswerFlushEarly /\ t.flushHeld # 0 THEN [@ EXCEPT ![t.flushHeld] = "ok"] ELSE @]

LoopSteps(t) ==
  CASE t.lpc = "connect" ->
         IF t.cancelled THEN {Exit(t)}
         ELSE IF t.synGen >= MaxCycles THEN {}     \* model bound on reconnections: wait for cancellation only (flush callers are refused: synOpen is FALSE)
         ELSE {[t EXCEPT !.synGen = @ + 1, !.synOpen = TRUE, !.lpc = "top", !.skipPoll = TRUE, !.flushHeld = 0]}
    [] t.lpc = "top" ->
         IF t.skipPoll THEN {[t EXCEPT !.skipPoll = FALSE, !.lpc = "scan"]}
         ELSE {[Op(t) EXCEPT !.lpc = "poll"]}
    [] t.lpc = "poll" ->      \* select: endpoint event | flush request | cancellation
         (IF t.cancelled THEN {SyncReturn(t, FALSE)} ELSE {})
         \cup (IF t.flushQ # <<>> THEN {[t EXCEPT !.flushHeld = Head(t.flushQ), !.flushQ = Tail(@), !.lpc = "scan"]} ELSE {})
         \cup {[t EXCEPT !.lpc = "scan"]}
    [] t.lpc = "scan" ->
         LET u == CycleStart(t) IN
         IF t.cancelled THEN {[u EXCEPT !.lpc = "scanfail"]}     \* "cancelled during scanning" is checked first
         ELSE (IF t.retries < 1 THEN {[u EXCEPT !.lpc = "top", !.skipPoll = TRUE, !.retries = @ + 1]} ELSE {})  \* try again (bounded)
              \cup {[u EXCEPT !.lpc = "reconcile", !.retries = 0]}
    [] t.lpc = "scanfail" -> {SyncReturn(t, FALSE)}
    [] t.lpc = "reconcile" -> {SyncReturn(t, TRUE), [t EXCEPT !.lpc = "stage"]}   \* safety halt | continue
    [] t.lpc = "stage" -> {[Op(t) EXCEPT !.lpc = "transition"], [Op(t) EXCEPT !.lpc = "fail"]}
    [] t.lpc = "fail" -> {SyncReturn(t, FALSE)}
    [] t.lpc = "transition" -> {[Op(t) EXCEPT !.lpc = "save"]}
    [] t.lpc = "save" ->
         LET u == [t EXCEPT !.archive = IF @ = "gone" THEN "gone" ELSE "data"] IN
         {[u EXCEPT !.lpc = "fail"], [u EXCEPT !.lpc = "finish"]}
    [] t.lpc = "finish" ->
         LET u == [t EXCEPT !.cycles = @ + 1,
                            !.freshDone = [i \in Ids |-> @[i] \/ t.fresh[i]],
                            !.resp = IF t.flushHeld # 0 THEN [@ EXCEPT ![t.flushHeld] = "ok"] ELSE @,
                            !.flushHeld = 0,
                            !.lpc = IF t.cycles + 1 >= MaxCycles THEN "parked" ELSE "top"]
         IN {[u EXCEPT !.skipPoll = TRUE], [u EXCEPT !.skipPoll = FALSE]}   \* missing files: cycle again at once
    [] t.lpc = "parked" ->   \* model bound on cycles: an endless poll; a queued flush request makes the bounded loop give up
         IF t.cancelled \/ t.flushQ # <<>> THEN {SyncReturn(t, FALSE)} ELSE {}
    [] t.lpc = "haltwait" -> IF t.cancelled THEN {Exit(t)} ELSE {}
    [] t.lpc = "exit" -> {Exit(t)}
    [] OTHER -> {}

Loop == s' \in LoopSteps(s)

\* ------------------------------------------------------------------ commands
Set(t, i, pc) == [t EXCEPT !.cpc[i] = pc]
Finish(t, i, r) == [t EXCEPT !.cpc[i] = "done", !.result[i] = r]
Unlock(t) == [t EXCEPT !.lock = 0]
StartLoop(t) == [t EXCEPT !.cancelSet = TRUE, !.cancelled = FALSE, !.loopGen = @ + 1, !.flushQ = <<>>,
                          !.lpc = "connect", !.skipPoll = TRUE, !.flushHeld = 0]
Restarting(t) == \E j \in Ids : KindOf(j) \in {"resume", "reset", "restart"} /\ InFlight(t, j)

CmdSteps(t, i) ==
  LET k == KindOf(i) pc == t.cpc[i] IN
  CASE pc = "idle" ->
         IF ~t.alive THEN {}
         ELSE LET u == Set(t, i, IF k = "restart" THEN "r_halt" ELSE "lock")
                  v == [u EXCEPT !.fresh[i] = FALSE, !.freshDone[i] = FALSE]
              IN {IF k \in {"resume", "reset", "restart"} THEN [v EXCEPT !.quiet = FALSE] ELSE v}
    [] pc = "lock" -> IF t.lock = 0 THEN {Set([t EXCEPT !.lock = i], i, "locked")} ELSE {}
    [] pc = "locked" ->
         IF t.disabled THEN {Unlock(Finish(t, i, "err"))}
         ELSE (CASE k \in {"pause", "terminate"} ->
                     IF t.cancelSet THEN {Set([t EXCEPT !.cancelled = TRUE], i, "waitdone")} ELSE {Set(t, i, "halted")}
                [] k = "reset" ->
                     IF t.cancelSet THEN {Set([t EXCEPT !.cancelled = TRUE], i, "waitdone")} ELSE {Set(t, i, "reset_archive")}
                [] k = "resume" ->
                     IF t.cancelSet /\ t.synOpen THEN {Unlock(Finish(t, i, "ok"))}     \* already connected
                     ELSE IF t.cancelSet THEN {Set([t EXCEPT !.cancelled = TRUE], i, "waitdone")}
                     ELSE {Set(t, i, "resume_go")}
                [] k \in {"flushw", "flushn"} ->
                     IF ~t.cancelSet \/ ~t.synOpen THEN {Unlock(Finish(t, i, "err"))}  \* paused / unable to synchronize
                     ELSE {Unlock(Set([t EXCEPT !.cref[i] = [syn |-> t.synGen, gen |-> t.loopGen]], i, "send"))}
                [] OTHER -> {})
    [] pc = "waitdone" ->
         IF t.loopGen \notin t.doneClosed THEN {}
         ELSE {Set([t EXCEPT !.cancelSet = FALSE], i,
                   CASE k \in {"pause", "terminate"} -> "halted" [] k = "reset" -> "reset_pause" [] k = "resume" -> "resume_go")}
    [] pc = "halted" ->
         IF k = "pause" THEN
            {Unlock(Finish([t EXCEPT !.paused = TRUE, !.pausedDisk = IF t.sessionFile THEN TRUE ELSE @,
                                    !.quiet = ~Restarting(t)], i, "ok"))}
         ELSE {Unlock(Finish([t EXCEPT !.disabled = TRUE, !.sessionFile = FALSE, !.archive = "gone", !.alive = FALSE,
                                       !.quiet = TRUE], i, "ok"))}
    [] pc = "reset_pause" -> {Set([t EXCEPT !.paused = TRUE, !.pausedDisk = TRUE], i, "reset_archive_r")}
    [] pc = "reset_archive" -> {Unlock(Finish([t EXCEPT !.archive = "empty"], i, "ok"))}
    [] pc = "reset_archive_r" -> {Set([t EXCEPT !.archive = "empty"], i, "resume_go")}
    [] pc = "resume_go" -> {Unlock(Finish(StartLoop([t EXCEPT !.paused = FALSE, !.pausedDisk = FALSE]), i, "ok"))}
    [] pc = "send" ->
         LET dead == t.cref[i].syn \in t.synClosed \/ t.cref[i].gen \in t.doneClosed
             room == t.cref[i].gen = t.loopGen /\ Len(t.flushQ) < 1
         IN IF k = "flushn" THEN
               {Finish(IF room THEN [t EXCEPT !.flushQ = Append(@, i)] ELSE t, i, IF ~room /\ dead THEN "err" ELSE "ok")}
            ELSE (IF room THEN {Set([t EXCEPT !.flushQ = Append(@, i)], i, "await")} ELSE {})
                 \cup (IF dead THEN {Finish(t, i, "err")} ELSE {})
    [] pc = "await" ->
         (IF t.resp[i] = "ok" THEN {Finish(t, i, "ok")} ELSE {})
         \cup (IF t.cref[i].syn \in t.synClosed \/ t.cref[i].gen \in t.doneClosed THEN {Finish(t, i, "err")} ELSE {})
    \* manager restart: Shutdown (halt the controller, mark it disabled), then NewManager loads the session from disk
    [] pc = "r_halt" ->
         IF t.lock # 0 THEN {}
         ELSE IF t.cancelSet /\ ~t.disabled THEN {Set([t EXCEPT !.cancelled = TRUE, !.lock = i], i, "r_wait")}
         ELSE {Set([t EXCEPT !.lock = i], i, "r_load")}
    [] pc = "r_wait" -> IF t.loopGen \in t.doneClosed THEN {Set([t EXCEPT !.cancelSet = FALSE], i, "r_load")} ELSE {}
    [] pc = "r_load" ->
         LET u == [t EXCEPT !.lock = 0, !.disabled = FALSE, !.alive = t.sessionFile, !.paused = t.pausedDisk,
                            !.quiet = t.sessionFile /\ t.pausedDisk]
             v == IF t.sessionFile /\ ~t.pausedDisk THEN StartLoop(u) ELSE [u EXCEPT !.cancelSet = FALSE]
         IN {Finish(v, i, "ok")}
    [] OTHER -> {}

Command(i) == s' \in CmdSteps(s, i)
Next == Loop \/ \E i \in Ids : Command(i)
Spec == Init /\ [][Next]_s /\ WF_s(Loop) /\ \A i \in Ids : WF_s(Command(i))

\* ------------------------------------------------------------------ properties
\* after pause/terminate returned (or a paused session was loaded), no endpoint operation until a resume/reset/restart begins
PausedQuiet == ~s.badOp
\* a waiting flush that returned ok saw a complete cycle that started after the call
FlushFresh == \A i \in Ids : KindOf(i) = "flushw" /\ s.result[i] = "ok" => s.freshDone[i]
\* terminated sessions leave nothing behind and never run again
TerminatedGone == \A i \in Ids : KindOf(i) = "terminate" /\ s.result[i] = "ok" => ~s.sessionFile /\ s.archive = "gone" /\ ~LoopRunning(s)
\* the pause flag on disk agrees with the controller whenever no lifecycle command is in flight
PauseFlagFaithful == (s.lock = 0 /\ s.alive /\ s.sessionFile /\ \A i \in Ids : s.cpc[i] \in {"idle", "done", "send", "await"})
                       => (s.paused = s.pausedDisk /\ (s.paused => ~LoopRunning(s)))
\* every command returns
AllReturn == \A i \in Ids : (s.cpc[i] \notin {"idle", "done"}) ~> (s.cpc[i] = "done")
====
