---- MODULE Lifecycle_sketch_MC ----
EXTENDS Lifecycle_sketch
C(i, k) == [id |-> i, kind |-> k]
CmdsA == {C(1, "pause"), C(2, "flushw"), C(3, "resume")}
CmdsB == {C(1, "flushw"), C(2, "flushn"), C(3, "terminate")}
CmdsC == {C(1, "pause"), C(2, "restart"), C(3, "flushw")}
CmdsD == {C(1, "reset"), C(2, "flushw"), C(3, "pause")}
CmdsE == {C(1, "flushw"), C(2, "flushw"), C(3, "resume"), C(4, "pause")}
====
