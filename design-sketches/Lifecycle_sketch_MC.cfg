CONSTANTS Cmds <- CmdsA
MaxCycles = 2
AnswerFlushEarly = FALSE
SPECIFICATION Spec
INVARIANT PausedQuiet FlushFresh TerminatedGone PauseFlagFaithful
PROPERTY AllReturn
CHECK_DEADLOCK FALSE
