CONSTANT Shape = "d2"
INIT Init
NEXT Next
INVARIANT C01 C02 C03 C06 C05ideal C04
CHECK_DEADLOCK FALSE
