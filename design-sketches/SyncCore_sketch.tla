---- MODULE SyncCore_sketch ----
EXTENDS Naturals, FiniteSets, Sequences, TLC

CONSTANT Shape   \* "d1" | "d2"

Names == {"a", "b"}
Nil == [k |-> "nil"]
F(d, x) == [k |-> "file", d |-> d, x |-> x]
L(t) == [k |-> "link", t |-> t]
U == [k |-> "untracked"]
P == [k |-> "problem", p |-> "boom"]
D(c) == [k |-> "dir", c |-> c]

SyncLeaves == {F(1, FALSE), F(2, FALSE), F(1, TRUE), L(1)}
AllLeaves == SyncLeaves \cup {U, P}
PartialFns(S, T) == UNION {[X -> T] : X \in SUBSET S}

RECURSIVE TreesOf(_, _, _)
TreesOf(leaves, names, d) ==
  IF d = 0 THEN leaves
  ELSE leaves \cup {D(c) : c \in PartialFns(names, TreesOf(leaves, names, d - 1))}

Child(e, n) == IF e.k = "dir" /\ n \in DOMAIN e.c THEN e.c[n] ELSE Nil
ChildNames(e) == IF e.k = "dir" THEN DOMAIN e.c ELSE {}

ShallowEq(x, y) ==
  /\ x.k = y.k
  /\ (x.k = "file" => x.d = y.d /\ x.x = y.x)
  /\ (x.k = "link" => x.t = y.t)
  /\ (x.k = "problem" => x.p = y.p)

IsSyncKind(e) == e.k \in {"dir", "file", "link"}

RECURSIVE Sync(_)
Sync(e) ==
  IF ~IsSyncKind(e) THEN Nil
  ELSE IF e.k # "dir" THEN e
  ELSE LET keep == {n \in DOMAIN e.c : Sync(e.c[n]) # Nil}
       IN D([n \in keep |-> Sync(e.c[n])])

RECURSIVE At(_, _)
At(e, path) == IF path = <<>> THEN e ELSE At(Child(e, Head(path)), Tail(path))

\* all paths to non-nil nodes within e (relative)
RECURSIVE Nodes(_)
Nodes(e) == IF e = Nil THEN {}
            ELSE {<<>>} \cup UNION {{<<n>> \o q : q \in Nodes(e.c[n])} : n \in ChildNames(e)}

RECURSIVE Diff(_, _, _)
Diff(path, base, target) ==
  IF ~ShallowEq(target, base) THEN {[path |-> path, old |-> base, new |-> target]}
  ELSE UNION {Diff(Append(path, n), Child(base, n), Child(target, n)) : n \in ChildNames(base) \cup ChildNames(target)}

NonDel(cs) == {c \in cs : c.new # Nil}
Chg(p, o, n) == [path |-> p, old |-> o, new |-> n]
Slim(e) == IF e.k = "dir" THEN D(<<>>) ELSE e

Empty == [anc |-> <<>>, alpha |-> {}, beta |-> {}, conf |-> {}]
Merge(r1, r2) == [anc |-> r1.anc \o r2.anc, alpha |-> r1.alpha \cup r2.alpha, beta |-> r1.beta \cup r2.beta, conf |-> r1.conf \cup r2.conf]
Conf(p, ac, bc) == [Empty EXCEPT !.conf = {[root |-> p, ac |-> ac, bc |-> bc]}]
ToA(c) == [Empty EXCEPT !.alpha = {c}]
ToB(c) == [Empty EXCEPT !.beta = {c}]

Bidir(path, anc, alpha, beta, mode) ==
  LET a == Sync(alpha)
      b == Sync(beta)
      aD == Diff(path, anc, a)
      bD == Diff(path, anc, b)
      bU == Diff(path, b, beta)
      aU == Diff(path, a, alpha)
      aN == NonDel(aD)
      bN == NonDel(bD)
      ToBeta(old, new, ac) == IF bU # {} THEN Conf(path, ac, bU) ELSE ToB(Chg(path, old, new))
      ToAlpha(old, new, bc) == IF aU # {} THEN Conf(path, aU, bc) ELSE ToA(Chg(path, old, new))
  IN IF bD = {} THEN ToBeta(anc, a, aD)
     ELSE IF aD = {} THEN ToAlpha(anc, b, bD)
     ELSE IF aN = {} /\ bN = {} THEN (IF a = Nil THEN ToBeta(b, Nil, aD) ELSE ToAlpha(a, Nil, bD))
     ELSE IF bN = {} THEN ToBeta(b, a, aN)
     ELSE IF aN = {} THEN ToAlpha(a, b, bN)
     ELSE IF mode = "tws" THEN Conf(path, aN, bN)
     ELSE ToBeta(b, a, aN)

OneWaySafe(path, anc, alpha, beta) ==
  LET b == Sync(beta)
      bN == NonDel(Diff(path, anc, b))
      bU == Diff(path, b, beta)
      synth == {Chg(path, anc, alpha)}
      untrack == (alpha.k \in {"nil", "untracked"}) /\ (anc = Nil \/ anc.k # "dir" \/ beta = Nil \/ beta.k # "dir")
  IN IF bN = {} THEN (IF bU # {} THEN Conf(path, synth, bU) ELSE ToB(Chg(path, beta, Sync(alpha))))
     ELSE IF untrack THEN (IF anc # Nil THEN [Empty EXCEPT !.anc = <<Chg(path, Nil, Nil)>>] ELSE Empty)
     ELSE Conf(path, synth, bN)

OneWayReplica(path, anc, alpha, beta) ==
  LET bU == Diff(path, Sync(beta), beta)
  IN IF bU # {} THEN Conf(path, {Chg(path, anc, alpha)}, bU) ELSE ToB(Chg(path, beta, Sync(alpha)))

RECURSIVE Rec(_, _, _, _, _)
Rec(path, anc, alpha, beta, mode) ==
  IF alpha.k = "problem" \/ beta.k = "problem" THEN Empty
  ELSE IF alpha.k \in {"nil", "untracked"} /\ beta.k \in {"nil", "untracked"}
    THEN IF anc # Nil THEN [Empty EXCEPT !.anc = <<Chg(path, Nil, Nil)>>] ELSE Empty
  ELSE IF ShallowEq(alpha, beta) THEN
    LET fix == ~ShallowEq(anc, alpha)
        ac == IF fix THEN Nil ELSE anc
        names == ChildNames(ac) \cup ChildNames(alpha) \cup ChildNames(beta)
        RECURSIVE Fold(_)
        Fold(S) == IF S = {} THEN Empty
                   ELSE LET n == CHOOSE x \in S : TRUE
                        IN Merge(Rec(Append(path, n), Child(ac, n), Child(alpha, n), Child(beta, n), mode), Fold(S \ {n}))
        sub == Fold(names)
    IN IF fix THEN [sub EXCEPT !.anc = <<Chg(path, Nil, Slim(alpha))>> \o @] ELSE sub
  ELSE IF mode \in {"tws", "twr"} THEN Bidir(path, anc, alpha, beta, mode)
  ELSE IF mode = "ows" THEN OneWaySafe(path, anc, alpha, beta)
  ELSE OneWayReplica(path, anc, alpha, beta)

\* ---- Apply ----
RECURSIVE SetAt(_, _, _)
SetAt(e, path, new) ==   \* assumes parents resolve; returns "ERR" record otherwise
  IF path = <<>> THEN new
  ELSE IF e.k # "dir" THEN [k |-> "ERR"]
  ELSE LET n == Head(path) IN
       IF Len(path) = 1 THEN
          IF new = Nil THEN D([m \in DOMAIN e.c \ {n} |-> e.c[m]])
          ELSE D([m \in DOMAIN e.c \cup {n} |-> IF m = n THEN new ELSE e.c[m]])
       ELSE IF n \notin DOMAIN e.c THEN [k |-> "ERR"]
       ELSE LET sub == SetAt(e.c[n], Tail(path), new) IN
            IF sub.k = "ERR" THEN sub ELSE D([m \in DOMAIN e.c |-> IF m = n THEN sub ELSE e.c[m]])
RECURSIVE ApplySeq(_, _)
ApplySeq(base, cs) == IF cs = <<>> THEN base
                      ELSE LET r == SetAt(base, Head(cs).path, Head(cs).new) IN
                           IF r.k = "ERR" THEN r ELSE ApplySeq(r, Tail(cs))
RECURSIVE SetToSeq(_)
SetToSeq(S) == IF S = {} THEN <<>> ELSE LET x == CHOOSE y \in S : TRUE IN <<x>> \o SetToSeq(S \ {x})

RECURSIVE Valid(_)
Valid(e) == e = Nil \/ e.k \in {"file", "link"} \/ (e.k = "dir" /\ \A n \in DOMAIN e.c : e.c[n] # Nil /\ Valid(e.c[n]))

IsPrefix(p, q) == Len(p) <= Len(q) /\ SubSeq(q, 1, Len(p)) = p

VARIABLES anc, alpha, beta, mode, out

SyncTrees == IF Shape = "d1" THEN TreesOf(SyncLeaves, Names, 1) \cup {Nil}
             ELSE {D(c) : c \in PartialFns(Names, TreesOf({F(1,FALSE), F(2,FALSE)}, {"c"}, 1))} \cup {Nil, F(1,FALSE)}
AllTrees == IF Shape = "d1" THEN TreesOf(AllLeaves, Names, 1) \cup {Nil}
            ELSE {D(c) : c \in PartialFns(Names, TreesOf({F(1,FALSE), F(2,FALSE), U, P}, {"c"}, 1))} \cup {Nil, F(1,FALSE), U, P}

Modes == {"tws", "twr", "ows", "owr"}
Init == /\ anc \in SyncTrees /\ alpha \in AllTrees /\ beta \in AllTrees /\ mode \in Modes
        /\ out = Rec(<<>>, anc, alpha, beta, mode)
Next == UNCHANGED <<anc, alpha, beta, mode, out>>

\* ---------------- properties ----------------
NoLossOn(cs) == \A c \in cs : \A q \in Nodes(c.old) : ShallowEq(At(c.old, q), At(anc, c.path \o q))
OldIsCurrent(cs, X) == \A c \in cs : c.old = At(X, c.path) /\ Sync(At(X, c.path)) = At(X, c.path)

C01 == mode = "tws" => NoLossOn(out.alpha) /\ NoLossOn(out.beta)
C02 == /\ (mode \in {"ows", "owr"} => out.alpha = {})
       /\ (mode = "ows" => NoLossOn(out.beta))
       /\ (mode = "twr" => NoLossOn(out.alpha))
C03 == OldIsCurrent(out.alpha, alpha) /\ OldIsCurrent(out.beta, beta)
Touched == [s \in {"a","b","k"} |-> IF s = "a" THEN {c.path : c \in out.alpha} ELSE IF s = "b" THEN {c.path : c \in out.beta} ELSE {k.root : k \in out.conf}]
C06 == /\ Cardinality(out.alpha) = Cardinality(Touched["a"]) /\ Cardinality(out.beta) = Cardinality(Touched["b"]) /\ Cardinality(out.conf) = Cardinality(Touched["k"])
       /\ \A s1, s2 \in {"a","b","k"} : \A p \in Touched[s1], q \in Touched[s2] : (s1 # s2 \/ p # q) => ~IsPrefix(p, q)
       /\ \A k \in out.conf : k.ac # {} /\ k.bc # {} /\ (\A c \in k.ac \cup k.bc : IsPrefix(k.root, c.path)) /\ ~ShallowEq(At(alpha, k.root), At(beta, k.root))

\* C01, last clause: in two-way-safe mode, a disagreement where both sides created or modified
\* content is reported as a conflict rooted there (and, by C06, nothing else touches that path)
Prefixes(p) == {SubSeq(p, 1, i) : i \in 0..(Len(p) - 1)}
Reached(p) == \A q \in Prefixes(p) : ShallowEq(At(alpha, q), At(beta, q)) /\ At(alpha, q).k = "dir"
DisagreementRoots == {p \in Nodes(alpha) \cup Nodes(beta) :
                        /\ Reached(p) /\ ~ShallowEq(At(alpha, p), At(beta, p))
                        /\ At(alpha, p).k # "problem" /\ At(beta, p).k # "problem"
                        /\ ~(At(alpha, p).k \in {"nil", "untracked"} /\ At(beta, p).k \in {"nil", "untracked"})}
\* the ancestor seen at p by the recursion: wiped below a parent that was "both modified same"
AncAt(p) == LET RECURSIVE Walk(_, _, _)
                Walk(a, done, rest) ==
                  IF rest = <<>> THEN a
                  ELSE LET a2 == IF ShallowEq(a, At(alpha, done)) THEN a ELSE Nil
                       IN Walk(Child(a2, Head(rest)), Append(done, Head(rest)), Tail(rest))
            IN Walk(anc, <<>>, p)
C01conf == mode = "tws" =>
   \A p \in DisagreementRoots :
      (NonDel(Diff(p, AncAt(p), Sync(At(alpha, p)))) # {} /\ NonDel(Diff(p, AncAt(p), Sync(At(beta, p)))) # {})
         => \E k \in out.conf : k.root = p

\* C04 fixpoint
Anc2 == ApplySeq(anc, out.anc \o SetToSeq(out.alpha) \o SetToSeq(out.beta))
Alpha2 == ApplySeq(alpha, SetToSeq(out.alpha))
Beta2 == ApplySeq(beta, SetToSeq(out.beta))
Out2 == Rec(<<>>, Anc2, Alpha2, Beta2, mode)
C05ideal == Anc2.k # "ERR" /\ Valid(Anc2)
C04 == Anc2.k # "ERR" => (Out2.anc = <<>> /\ Out2.alpha = {} /\ Out2.beta = {})
====
