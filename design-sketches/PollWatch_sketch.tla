---- MODULE PollWatch_sketch ----
EXTENDS Naturals, TLC
CONSTANTS MaxEdits,      \* budget of external edits/reverts
          MaxTrans,      \* budget of controller transitions
          ResetInTransition, \* TRUE: Transition clears accelerate after changing the disk (as coded)
          StrobeInTransition, \* TRUE: Transition strobes the poll signal after changing the disk (as coded)
          BaselineFirst      \* TRUE: the poller's first (baseline) scan completed before the controller's first scan

Vals == {0, 1, 2}
VARIABLES content, clock,          \* disk: current content value, number of writes so far
          lock,                    \* "free" | "poller" | "ctrl"
          accel, snap,             \* endpoint: accelerate flag, last snapshot [v, t]
          ppc, ptmp, pprev, pfirst,\* poller: pc, scan capture, previous snapshot value, first iteration
          cpc, ctmp, cview, ret, changedT, tEnd, scanStart, \* controller
          sig,                     \* coalesced poll signal pending
          edits, trans, lastWrite  \* budgets, value before the last transition write (for reverts)
vars == <<content, clock, lock, accel, snap, ppc, ptmp, pprev, pfirst, cpc, ctmp, cview, ret, changedT, tEnd, scanStart, sig, edits, trans, lastWrite>>

None == [v |-> 9, t |-> 0]
Init == /\ content = 0 /\ clock = 0 /\ lock = "free"
        /\ accel = BaselineFirst /\ snap = (IF BaselineFirst THEN [v |-> 0, t |-> 0] ELSE None)
        /\ ppc = "tick" /\ ptmp = None /\ pprev = (IF BaselineFirst THEN 0 ELSE 9) /\ pfirst = ~BaselineFirst
        /\ cpc = "poll" /\ ctmp = None /\ cview = 0 /\ ret = [v |-> 0, t |-> 0] /\ changedT = FALSE /\ tEnd = 0 /\ scanStart = 0
        /\ sig = TRUE   \* the controller skips polling on its first cycle
        /\ edits = 0 /\ trans = 0 /\ lastWrite = 0

Capture == [v |-> content, t |-> clock]

\* ---------------- poller goroutine (watchPoll) ----------------
PTick == ppc = "tick" /\ ppc' = "lock" /\ UNCHANGED <<content, clock, lock, accel, snap, ptmp, pprev, pfirst, cpc, ctmp, cview, ret, changedT, tEnd, scanStart, sig, edits, trans, lastWrite>>
PLock == /\ ppc = "lock" /\ lock = "free" /\ lock' = "poller" /\ accel' = FALSE /\ ppc' = "scanB"
         /\ UNCHANGED <<content, clock, snap, ptmp, pprev, pfirst, cpc, ctmp, cview, ret, changedT, tEnd, scanStart, sig, edits, trans, lastWrite>>
PScanB == /\ ppc = "scanB" /\ ptmp' = Capture /\ ppc' = "scanE"
          /\ UNCHANGED <<content, clock, lock, accel, snap, pprev, pfirst, cpc, ctmp, cview, ret, changedT, tEnd, scanStart, sig, edits, trans, lastWrite>>
PScanE == /\ ppc = "scanE"
          /\ \E s \in {ptmp, Capture} :     \* the walk may have seen the disk anywhere between begin and end
               /\ snap' = s /\ ptmp' = s
          /\ accel' = TRUE /\ lock' = "free" /\ ppc' = "cmp"
          /\ UNCHANGED <<content, clock, pprev, pfirst, cpc, ctmp, cview, ret, changedT, tEnd, scanStart, sig, edits, trans, lastWrite>>
PCmp == /\ ppc = "cmp"
        /\ sig' = IF ptmp.v # pprev /\ ~pfirst THEN TRUE ELSE sig
        /\ pprev' = ptmp.v /\ pfirst' = FALSE /\ ppc' = "tick"
        /\ UNCHANGED <<content, clock, lock, accel, snap, ptmp, cpc, ctmp, cview, ret, changedT, tEnd, scanStart, edits, trans, lastWrite>>
Poller == PTick \/ PLock \/ PScanB \/ PScanE \/ PCmp

\* ---------------- controller: Poll -> Scan -> (Transition) ----------------
CPoll == /\ cpc = "poll" /\ sig /\ sig' = FALSE /\ cpc' = "slock" /\ scanStart' = tEnd
         /\ UNCHANGED <<content, clock, lock, accel, snap, ppc, ptmp, pprev, pfirst, ctmp, cview, ret, changedT, tEnd, edits, trans, lastWrite>>
CScanLock == /\ cpc = "slock" /\ lock = "free"
             /\ IF accel THEN /\ ret' = snap /\ cview' = snap.v /\ cpc' = "decide" /\ UNCHANGED <<lock, ctmp>>
                ELSE /\ lock' = "ctrl" /\ cpc' = "sB" /\ UNCHANGED <<ret, cview, ctmp>>
             /\ UNCHANGED <<content, clock, accel, snap, ppc, ptmp, pprev, pfirst, changedT, tEnd, scanStart, sig, edits, trans, lastWrite>>
CScanB == /\ cpc = "sB" /\ ctmp' = Capture /\ cpc' = "sE"
          /\ UNCHANGED <<content, clock, lock, accel, snap, ppc, ptmp, pprev, pfirst, cview, ret, changedT, tEnd, scanStart, sig, edits, trans, lastWrite>>
CScanE == /\ cpc = "sE"
          /\ \E s \in {ctmp, Capture} : snap' = s /\ ret' = s /\ cview' = s.v
          /\ lock' = "free" /\ cpc' = "decide"
          /\ UNCHANGED <<content, clock, accel, ppc, ptmp, pprev, pfirst, ctmp, changedT, tEnd, scanStart, sig, edits, trans, lastWrite>>
CDecide == /\ cpc = "decide"
           /\ \/ cpc' = "poll" /\ UNCHANGED trans
              \/ trans < MaxTrans /\ trans' = trans + 1 /\ cpc' = "tlock"
           /\ UNCHANGED <<content, clock, lock, accel, snap, ppc, ptmp, pprev, pfirst, ctmp, cview, ret, changedT, tEnd, scanStart, sig, edits, lastWrite>>
TLock == /\ cpc = "tlock" /\ lock = "free" /\ cpc' = "twrite" /\ changedT' = FALSE   \* lock; checks; unlock
         /\ UNCHANGED <<content, clock, lock, accel, snap, ppc, ptmp, pprev, pfirst, ctmp, cview, ret, tEnd, scanStart, sig, edits, trans, lastWrite>>
TWrite == /\ cpc = "twrite"
          /\ \E v \in Vals \ {content} : content' = v /\ cview' = v
          /\ lastWrite' = content /\ clock' = clock + 1 /\ changedT' = TRUE /\ cpc' = "trelock"
          /\ UNCHANGED <<lock, accel, snap, ppc, ptmp, pprev, pfirst, ctmp, ret, tEnd, scanStart, sig, edits, trans>>
TRelock == /\ cpc = "trelock" /\ lock = "free"
           /\ accel' = IF accel /\ changedT /\ ResetInTransition THEN FALSE ELSE accel
           /\ sig' = IF changedT /\ StrobeInTransition THEN TRUE ELSE sig
           /\ tEnd' = clock /\ cpc' = "poll"
           /\ UNCHANGED <<content, clock, lock, snap, ppc, ptmp, pprev, pfirst, ctmp, cview, ret, changedT, scanStart, edits, trans, lastWrite>>
Controller == CPoll \/ CScanLock \/ CScanB \/ CScanE \/ CDecide \/ TLock \/ TWrite \/ TRelock

\* ---------------- environment ----------------
Edit == /\ edits < MaxEdits /\ edits' = edits + 1
        /\ \E v \in Vals \ {content} : content' = v
        /\ clock' = clock + 1
        /\ UNCHANGED <<lock, accel, snap, ppc, ptmp, pprev, pfirst, cpc, ctmp, cview, ret, changedT, tEnd, scanStart, sig, trans, lastWrite>>
Revert == /\ edits < MaxEdits /\ edits' = edits + 1 /\ content # lastWrite
          /\ content' = lastWrite /\ clock' = clock + 1
          /\ UNCHANGED <<lock, accel, snap, ppc, ptmp, pprev, pfirst, cpc, ctmp, cview, ret, changedT, tEnd, scanStart, sig, trans, lastWrite>>

Next == Poller \/ Controller \/ Edit \/ Revert
Spec == Init /\ [][Next]_vars /\ WF_vars(Poller) /\ WF_vars(Controller) /\ SF_vars(CScanLock) /\ SF_vars(TLock) /\ SF_vars(TRelock) /\ SF_vars(PLock)

\* A scan that started after a disk-changing transition returned never serves a snapshot captured before that transition's write
NoStale == cpc = "decide" => ret.t >= scanStart
\* with finite budgets the controller's view eventually matches the disk for good
Converges == <>[](cview = content)
====
