CONSTANTS MaxEdits = 2
MaxTrans = 2
ResetInTransition = TRUE
StrobeInTransition = TRUE
BaselineFirst = TRUE
SPECIFICATION Spec
INVARIANT NoStale
PROPERTY Converges
