CONSTANTS W = 2
B = 1
MaxData = 2
ZeroReads = TRUE
FixZeroInc = TRUE
SPECIFICATION Spec
INVARIANT NoViolation InOrder EOFComplete WindowRespected
CHECK_DEADLOCK FALSE
