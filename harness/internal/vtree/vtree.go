// Package vtree converts mutagen entries, changes and conflicts to and from the
// JSON encoding of spec/common/Entries.tla, and enumerates the bounded tree
// shapes used by the specifications.
package vtree

import (
	"encoding/hex"
	"fmt"
	"sort"
	"strings"

	"github.com/mutagen-io/mutagen/pkg/synchronization/core"
)

// Enc encodes an entry.
func Enc(e *core.Entry) map[string]any {
	if e == nil {
		return map[string]any{"k": "nil"}
	}
	switch e.Kind {
	case core.EntryKind_Directory, core.EntryKind_PhantomDirectory:
		c := map[string]any{}
		for n, ch := range e.Contents {
			c[n] = Enc(ch)
		}
		k := "dir"
		if e.Kind == core.EntryKind_PhantomDirectory {
			k = "phantom"
		}
		return map[string]any{"k": k, "c": c}
	case core.EntryKind_File:
		return map[string]any{"k": "file", "d": hex.EncodeToString(e.Digest), "x": e.Executable}
	case core.EntryKind_SymbolicLink:
		return map[string]any{"k": "link", "t": e.Target}
	case core.EntryKind_Untracked:
		return map[string]any{"k": "untracked"}
	case core.EntryKind_Problematic:
		return map[string]any{"k": "problem", "p": e.Problem}
	}
	return map[string]any{"k": fmt.Sprintf("kind%d", e.Kind)}
}

// Dec decodes an entry from its generic JSON form.
func Dec(v any) *core.Entry {
	m, ok := v.(map[string]any)
	if !ok {
		panic(fmt.Sprintf("vtree.Dec: not an object: %T", v))
	}
	switch m["k"] {
	case "nil":
		return nil
	case "dir", "phantom":
		e := &core.Entry{Kind: core.EntryKind_Directory}
		if m["k"] == "phantom" {
			e.Kind = core.EntryKind_PhantomDirectory
		}
		if c, ok := m["c"].(map[string]any); ok && len(c) > 0 {
			e.Contents = make(map[string]*core.Entry, len(c))
			for n, ch := range c {
				e.Contents[n] = Dec(ch)
			}
		}
		return e
	case "file":
		d, err := hex.DecodeString(m["d"].(string))
		if err != nil {
			panic(err)
		}
		x, _ := m["x"].(bool)
		return &core.Entry{Kind: core.EntryKind_File, Digest: d, Executable: x}
	case "link":
		return &core.Entry{Kind: core.EntryKind_SymbolicLink, Target: m["t"].(string)}
	case "untracked":
		return &core.Entry{Kind: core.EntryKind_Untracked}
	case "problem":
		return &core.Entry{Kind: core.EntryKind_Problematic, Problem: m["p"].(string)}
	}
	panic(fmt.Sprintf("vtree.Dec: unknown kind %v", m["k"]))
}

// Path splits a mutagen root-relative path into components.
func Path(p string) []string {
	if p == "" {
		return []string{}
	}
	return strings.Split(p, "/")
}

// EncChange encodes a change.
func EncChange(c *core.Change) map[string]any {
	return map[string]any{"path": Path(c.Path), "old": Enc(c.Old), "new": Enc(c.New)}
}

// EncChanges encodes a list of changes (order preserved).
func EncChanges(cs []*core.Change) []any {
	out := make([]any, 0, len(cs))
	for _, c := range cs {
		out = append(out, EncChange(c))
	}
	return out
}

// DecChanges decodes a list of changes.
func DecChanges(v any) []*core.Change {
	arr, _ := v.([]any)
	var out []*core.Change
	for _, x := range arr {
		m := x.(map[string]any)
		var comps []string
		for _, s := range m["path"].([]any) {
			comps = append(comps, s.(string))
		}
		out = append(out, &core.Change{Path: strings.Join(comps, "/"), Old: Dec(m["old"]), New: Dec(m["new"])})
	}
	return out
}

// EncConflicts encodes conflicts.
func EncConflicts(ks []*core.Conflict) []any {
	out := make([]any, 0, len(ks))
	for _, k := range ks {
		out = append(out, map[string]any{"root": Path(k.Root), "ac": EncChanges(k.AlphaChanges), "bc": EncChanges(k.BetaChanges)})
	}
	return out
}

// Leaf constructors shared with the specification's shapes.
func File(d byte, x bool) *core.Entry {
	return &core.Entry{Kind: core.EntryKind_File, Digest: []byte{d}, Executable: x}
}
func Link(t string) *core.Entry { return &core.Entry{Kind: core.EntryKind_SymbolicLink, Target: t} }
func Untracked() *core.Entry   { return &core.Entry{Kind: core.EntryKind_Untracked} }
func Problem(p string) *core.Entry {
	return &core.Entry{Kind: core.EntryKind_Problematic, Problem: p}
}
func Dir(c map[string]*core.Entry) *core.Entry {
	if len(c) == 0 {
		c = nil
	}
	return &core.Entry{Kind: core.EntryKind_Directory, Contents: c}
}

// PartialDirs returns every directory whose contents are a partial function
// from names to members of sub.
func PartialDirs(names []string, sub []*core.Entry) []*core.Entry {
	var out []*core.Entry
	var rec func(i int, cur map[string]*core.Entry)
	rec = func(i int, cur map[string]*core.Entry) {
		if i == len(names) {
			c := make(map[string]*core.Entry, len(cur))
			for k, v := range cur {
				c[k] = v
			}
			out = append(out, Dir(c))
			return
		}
		rec(i+1, cur)
		for _, s := range sub {
			cur[names[i]] = s
			rec(i+1, cur)
			delete(cur, names[i])
		}
	}
	rec(0, map[string]*core.Entry{})
	return out
}

// TreesOf mirrors Entries!TreesOf: leaves plus directories over names nested up to depth d.
func TreesOf(leaves []*core.Entry, names []string, d int) []*core.Entry {
	if d == 0 {
		return append([]*core.Entry{}, leaves...)
	}
	sub := TreesOf(leaves, names, d-1)
	out := append([]*core.Entry{}, leaves...)
	return append(out, PartialDirs(names, sub)...)
}

// SortedNames returns the content names of e in sorted order.
func SortedNames(e *core.Entry) []string {
	var ns []string
	for n := range e.GetContents() {
		ns = append(ns, n)
	}
	sort.Strings(ns)
	return ns
}
