// Package vlib is the shared plumbing of the conformance drivers: command line,
// NDJSON trace writer, statistics, seeded randomness. It contains no property
// predicate: verdicts are computed by TLC from the TLA+ trace modules only.
package vlib

import (
	"bufio"
	"crypto/sha1"
	"encoding/hex"
	"encoding/json"
	"flag"
	"fmt"
	"math/rand"
	"os"
	"path/filepath"
	"sync"
)

// Ctx is handed to a driver's run/replay function.
type Ctx struct {
	Prop       string
	Tier       string
	Seed       int64
	OutDir     string
	Behaviours string // path of NDJSON behaviours exported by TLC ("" if none)
	ReplayFile string // replay mode: path of the replay JSON
	Args       []string
	Rand       *rand.Rand
	Scratch    string

	mu        sync.Mutex
	w         *bufio.Writer
	f         *os.File
	records   int
	evals     int
	traces    int
	nontriv   map[string]struct{}
	samples   []any
	extra     map[string]any
	exhaust   bool
	seq       int
}

// Thorough reports whether the thorough tier was requested.
func (c *Ctx) Thorough() bool { return c.Tier == "thorough" }

// Emit appends one record to the trace. The record must consist of observed
// values only.
func (c *Ctx) Emit(rec map[string]any) {
	c.mu.Lock()
	defer c.mu.Unlock()
	c.seq++
	b, err := json.Marshal(rec)
	if err != nil {
		panic(err)
	}
	c.w.Write(b)
	c.w.WriteByte('\n')
	c.records++
}

// Eval counts one executed case.
func (c *Ctx) Eval() { c.mu.Lock(); c.evals++; c.mu.Unlock() }

// TraceDone counts one complete trace (behaviour) recorded from the implementation.
func (c *Ctx) TraceDone() { c.mu.Lock(); c.traces++; c.mu.Unlock() }

// NonTrivial registers a case that is non-trivial by the property's rule under a
// key that identifies it; distinct keys are counted.
func (c *Ctx) NonTrivial(key any) {
	var k string
	switch v := key.(type) {
	case string:
		k = v
	default:
		b, _ := json.Marshal(v)
		k = string(b)
	}
	if len(k) > 40 {
		h := sha1.Sum([]byte(k))
		k = hex.EncodeToString(h[:10])
	}
	c.mu.Lock()
	c.nontriv[k] = struct{}{}
	c.mu.Unlock()
}

// Sample keeps up to four representative cases for the evidence file.
func (c *Ctx) Sample(v any) {
	c.mu.Lock()
	defer c.mu.Unlock()
	if len(c.samples) < 3 {
		c.samples = append(c.samples, v)
	} else if len(c.samples) == 3 {
		c.samples = append(c.samples, v)
	} else {
		c.samples[3] = v // last seen
	}
}

// SetExtra records a driver-specific statistic.
func (c *Ctx) SetExtra(k string, v any) { c.mu.Lock(); c.extra[k] = v; c.mu.Unlock() }

// AddExtra increments a driver-specific counter.
func (c *Ctx) AddExtra(k string, n int) {
	c.mu.Lock()
	cur, _ := c.extra[k].(int)
	c.extra[k] = cur + n
	c.mu.Unlock()
}

// SetExhaustive declares that the run enumerated a finite space completely.
func (c *Ctx) SetExhaustive(b bool) { c.exhaust = b }

// TempDir returns a fresh scratch directory.
func (c *Ctx) TempDir(prefix string) string {
	d, err := os.MkdirTemp(c.Scratch, prefix)
	if err != nil {
		panic(err)
	}
	return d
}

// LoadReplay decodes the replay file's "begin" record into v (the record that
// started the failing case) and returns the whole replay document.
func (c *Ctx) LoadReplay() map[string]any {
	b, err := os.ReadFile(c.ReplayFile)
	if err != nil {
		Fatal("read replay: %v", err)
	}
	var doc map[string]any
	dec := json.NewDecoder(bytesReader(b))
	dec.UseNumber()
	if err := dec.Decode(&doc); err != nil {
		Fatal("decode replay: %v", err)
	}
	return doc
}

// ReadBehaviours decodes the NDJSON behaviours exported by TLC.
func (c *Ctx) ReadBehaviours() []map[string]any {
	if c.Behaviours == "" {
		return nil
	}
	f, err := os.Open(c.Behaviours)
	if err != nil {
		Fatal("open behaviours: %v", err)
	}
	defer f.Close()
	var out []map[string]any
	sc := bufio.NewScanner(f)
	sc.Buffer(make([]byte, 1<<20), 1<<28)
	for sc.Scan() {
		line := sc.Bytes()
		if len(line) == 0 {
			continue
		}
		var m map[string]any
		dec := json.NewDecoder(bytesReader(line))
		dec.UseNumber()
		if err := dec.Decode(&m); err != nil {
			// behaviours may be arrays: wrap
			var arr []any
			dec2 := json.NewDecoder(bytesReader(line))
			dec2.UseNumber()
			if err2 := dec2.Decode(&arr); err2 != nil {
				Fatal("decode behaviour: %v", err)
			}
			m = map[string]any{"steps": arr}
		}
		out = append(out, m)
	}
	return out
}

// Fatal reports an infrastructure failure (exit 2 in the orchestrator).
func Fatal(format string, a ...any) {
	fmt.Fprintf(os.Stderr, "driver fatal: "+format+"\n", a...)
	os.Exit(3)
}

// Main parses the command line and calls run or replay.
//
//	<driver> run    --prop C01 --tier quick --seed 1 --out DIR [--behaviours FILE] [extra args]
//	<driver> replay --prop C01 --file replay.json --out DIR
func Main(run func(*Ctx) error, replay func(*Ctx) error) {
	if len(os.Args) < 2 {
		Fatal("usage: run|replay ...")
	}
	mode := os.Args[1]
	fs := flag.NewFlagSet(mode, flag.ExitOnError)
	c := &Ctx{nontriv: map[string]struct{}{}, extra: map[string]any{}}
	fs.StringVar(&c.Prop, "prop", "", "property id")
	fs.StringVar(&c.Tier, "tier", "quick", "tier")
	fs.Int64Var(&c.Seed, "seed", 1, "seed")
	fs.StringVar(&c.OutDir, "out", "", "output directory")
	fs.StringVar(&c.Behaviours, "behaviours", "", "behaviours exported by TLC")
	fs.StringVar(&c.ReplayFile, "file", "", "replay file")
	fs.Parse(os.Args[2:])
	c.Args = fs.Args()
	if c.OutDir == "" {
		Fatal("--out required")
	}
	c.Rand = rand.New(rand.NewSource(c.Seed))
	c.Scratch = os.Getenv("VERIF_SCRATCH")
	if c.Scratch == "" {
		c.Scratch = filepath.Join(c.OutDir, "work")
	}
	os.MkdirAll(c.Scratch, 0o755)
	f, err := os.Create(filepath.Join(c.OutDir, "trace.ndjson"))
	if err != nil {
		Fatal("%v", err)
	}
	c.f = f
	c.w = bufio.NewWriterSize(f, 1<<20)
	switch mode {
	case "run":
		err = run(c)
	case "replay":
		c.Tier = "replay"
		err = replay(c)
	default:
		Fatal("unknown mode %q", mode)
	}
	c.w.Flush()
	c.f.Close()
	if err != nil {
		Fatal("%v", err)
	}
	traces := c.traces
	if traces == 0 {
		traces = c.evals
	}
	stats := map[string]any{
		"evaluations":         c.evals,
		"records":             c.records,
		"traces":              traces,
		"distinct_nontrivial": len(c.nontriv),
		"samples":             c.samples,
		"exhaustive":          c.exhaust,
	}
	for k, v := range c.extra {
		stats[k] = v
	}
	b, _ := json.MarshalIndent(stats, "", " ")
	if err := os.WriteFile(filepath.Join(c.OutDir, "stats.json"), b, 0o644); err != nil {
		Fatal("%v", err)
	}
}
