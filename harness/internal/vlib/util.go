package vlib

import (
	"bytes"
	"encoding/json"
	"io"
)

func bytesReader(b []byte) io.Reader { return bytes.NewReader(b) }

// ToMap round-trips v through JSON into a generic map (numbers as json.Number).
func ToMap(v any) map[string]any {
	b, err := json.Marshal(v)
	if err != nil {
		panic(err)
	}
	var m map[string]any
	dec := json.NewDecoder(bytes.NewReader(b))
	dec.UseNumber()
	if err := dec.Decode(&m); err != nil {
		panic(err)
	}
	return m
}

// Decode re-decodes a generic JSON value into a typed one.
func Decode(src any, dst any) {
	b, err := json.Marshal(src)
	if err != nil {
		panic(err)
	}
	if err := json.Unmarshal(b, dst); err != nil {
		panic(err)
	}
}
