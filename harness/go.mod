module verif/harness

go 1.25.0

require (
	github.com/bmatcuk/doublestar/v4 v4.10.0
	github.com/mutagen-io/extstat v0.0.0-20210224131814-32fa3f057fa8
	github.com/mutagen-io/mutagen v0.0.0
	github.com/zeebo/xxh3 v1.1.0
	golang.org/x/sys v0.43.0
	golang.org/x/text v0.36.0
	google.golang.org/protobuf v1.36.11
)

require (
	github.com/Microsoft/go-winio v0.6.2 // indirect
	github.com/dustin/go-humanize v1.0.1 // indirect
	github.com/eknkc/basex v1.0.1 // indirect
	github.com/fatih/color v1.19.0 // indirect
	github.com/fsnotify/fsevents v0.2.0 // indirect
	github.com/google/go-cmp v0.7.0 // indirect
	github.com/google/uuid v1.6.0 // indirect
	github.com/hectane/go-acl v0.0.0-20230122075934-ca0b05cb1adb // indirect
	github.com/inconshreveable/mousetrap v1.1.0 // indirect
	github.com/klauspost/compress v1.18.5 // indirect
	github.com/klauspost/cpuid/v2 v2.2.10 // indirect
	github.com/mattn/go-colorable v0.1.14 // indirect
	github.com/mattn/go-isatty v0.0.21 // indirect
	github.com/mutagen-io/gopass v0.0.0-20230214181532-d4b7cdfe054c // indirect
	github.com/spf13/cobra v1.10.2 // indirect
	github.com/spf13/pflag v1.0.10 // indirect
	go.yaml.in/yaml/v4 v4.0.0-rc.4 // indirect
	golang.org/x/net v0.53.0 // indirect
	golang.org/x/term v0.42.0 // indirect
	google.golang.org/genproto/googleapis/rpc v0.0.0-20260120221211-b8f7ae30c516 // indirect
	google.golang.org/grpc v1.80.0 // indirect
	google.golang.org/grpc/cmd/protoc-gen-go-grpc v1.6.1 // indirect
)

replace github.com/mutagen-io/mutagen => /repo
