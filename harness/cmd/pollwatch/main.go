// Driver of the pollwatch family (C42): the real local endpoint
// (local.NewEndpoint, watch mode force-poll, 1 s polling interval, accelerated
// scans) on a real scratch root per case.
//
// Gated cases realise the gate-level schedules TLC generates from
// PollWatch_Sched (plus a few named ones): the verifGate hook parks the polling
// goroutine before the scan lock and the Transition call inside its unlocked
// window, so that the director can run each stretch of the schedule exactly in
// the prescribed order. Random cases let everything run freely (controller
// cycle, external editor, poller) with seeded random pauses. Every case ends
// with a settle phase in which the controller polls and scans until what it
// was told equals the disk or a Poll has to be abandoned.
//
// Only observations are recorded: arguments passed, values returned, the
// snapshot the poller produced (handed to the hook under the scan lock), and
// the root as seen by an independent walker. No verdict is computed here; the
// comparisons below only steer the run (when to stop settling).
package main

import (
	"context"
	"crypto/sha1"
	"encoding/hex"
	"fmt"
	"math/rand"
	"os"
	"path/filepath"
	"sort"
	"strconv"
	"strings"
	"sync"
	"time"

	"github.com/mutagen-io/mutagen/pkg/synchronization"
	"github.com/mutagen-io/mutagen/pkg/synchronization/core"
	"github.com/mutagen-io/mutagen/pkg/synchronization/endpoint/local"

	"verif/harness/internal/vlib"
)

const (
	callTimeout   = 40 * time.Second       // calls that must return
	gateTimeout   = 40 * time.Second       // a goroutine that must reach a gate
	gatedPollWait = 4500 * time.Millisecond // Poll in a gated schedule (poller parked): a pending signal arrives in ~20 ms
	settleSlack   = 3500 * time.Millisecond // after two complete polling iterations without a signal
	settleMax     = 45 * time.Second        // a Poll is abandoned after this long in any case
	tempPrefix    = ".mutagen-temporary-"   // names the scan (and therefore the walker) ignores
	ignoredSuffix = ".log"                  // the endpoint is configured with the ignore "*.log"

	gPollBeforeLock = "poll-before-lock"
	gPollAfterScan  = "poll-after-scan"
	gTransUnlocked  = "transition-after-unlock"
	gTransRelock    = "transition-before-relock"
)

type step struct {
	A string `json:"a"`
	V string `json:"v"`
}

type caseSpec struct {
	Kind  string `json:"kind"` // "gated" | "random"
	Name  string `json:"name"`
	Steps []step `json:"steps"`
	Seed  int64  `json:"seed"`
	Ops   int    `json:"ops"`
	Init  string `json:"init"` // state of x before the endpoint is created: "" (absent), "b", "c"
}

// ---------------------------------------------------------------------------
// fingerprints: one canonical string per tree, from a snapshot entry or from disk

func fpEntry(e *core.Entry) string {
	if e == nil {
		return "nil"
	}
	switch e.Kind {
	case core.EntryKind_Directory:
		names := make([]string, 0, len(e.Contents))
		for n := range e.Contents {
			names = append(names, n)
		}
		sort.Strings(names)
		parts := make([]string, 0, len(names))
		for _, n := range names {
			// content the scan ignored is listed as untracked: not part of the tree (the walker skips it too)
			if k := e.Contents[n].GetKind(); k == core.EntryKind_Untracked {
				continue
			}
			parts = append(parts, n+"="+fpEntry(e.Contents[n]))
		}
		return "d{" + strings.Join(parts, ",") + "}"
	case core.EntryKind_File:
		return "f:" + hex.EncodeToString(e.Digest)[:12]
	case core.EntryKind_SymbolicLink:
		return "l:" + e.Target
	default:
		return "k" + strconv.Itoa(int(e.Kind))
	}
}

// fpDisk is the independent walker.
func fpDisk(path string) string {
	fi, err := os.Lstat(path)
	if err != nil {
		return "nil"
	}
	switch {
	case fi.IsDir():
		des, err := os.ReadDir(path)
		if err != nil {
			return "d?"
		}
		names := []string{}
		for _, de := range des {
			if strings.HasPrefix(de.Name(), tempPrefix) || strings.HasSuffix(de.Name(), ignoredSuffix) {
				continue
			}
			names = append(names, de.Name())
		}
		sort.Strings(names)
		parts := []string{}
		for _, n := range names {
			parts = append(parts, n+"="+fpDisk(filepath.Join(path, n)))
		}
		return "d{" + strings.Join(parts, ",") + "}"
	case fi.Mode().IsRegular():
		b, err := os.ReadFile(path)
		if err != nil {
			return "f?"
		}
		h := sha1.Sum(b)
		return "f:" + hex.EncodeToString(h[:])[:12]
	case fi.Mode()&os.ModeSymlink != 0:
		t, _ := os.Readlink(path)
		return "l:" + t
	}
	return "other"
}

func errText(err error) string {
	if err == nil {
		return ""
	}
	s := err.Error()
	out := make([]byte, 0, len(s))
	for i := 0; i < len(s); i++ {
		ch := s[i]
		if ch < 0x20 || ch > 0x7e || ch == '"' || ch == '\\' {
			ch = '.'
		}
		out = append(out, ch)
	}
	if len(out) == 0 {
		return "error"
	}
	return string(out)
}

// contents of the two files x can be (different sizes, so that the scan cache
// can never mistake one for the other); each has a permanent twin in the root
// from which Stage can source it (stageFromRoot)
func fileContent(v string) []byte {
	switch v {
	case "c":
		return []byte(strings.Repeat("content-c ", 40))
	case "d":
		return []byte(strings.Repeat("content-d!", 77))
	case "z": // never present in the root: cannot be staged
		return []byte(strings.Repeat("content-z?", 13))
	case "u1": // what a user writes
		return []byte(strings.Repeat("user-edit-1 ", 21))
	case "u9":
		return []byte(strings.Repeat("user-file-9 ", 5))
	case "s": // same size as c, different content
		return []byte(strings.Repeat("CONTENT-C ", 40))
	}
	return nil
}

func digestOf(v string) []byte {
	h := sha1.Sum(fileContent(v))
	return h[:]
}

// ---------------------------------------------------------------------------
// one world = one endpoint on one root

var worlds sync.Map // root -> *world

type world struct {
	c    *vlib.Ctx
	cs   caseSpec
	cid  int
	dir  string
	root string
	tmp  string
	sid  string
	ep   synchronization.Endpoint
	t0   time.Time

	mu       sync.Mutex
	cond     *sync.Cond
	recs     []map[string]any
	gateN    int
	arrivals map[string]int
	hold     map[string]bool
	parked   map[string]chan struct{}
	open     bool
	diskFP   string
	passed   int // polling iterations begun since the last change of the disk
	done     int // ... and completed
	mclock   int64

	lastScan   *core.Snapshot
	lastScanFP string
	viewValid  bool
	owesScan   bool // a Poll returned signalled and the controller has not scanned since
	aborted    bool
	ended      bool
	tdone      chan struct{}
	tActive    bool
	tRec       map[string]any
	pIters     int

	nSig, nChanged, nEdits, nStaleEval int
}

func (w *world) now() int { return int(time.Since(w.t0).Milliseconds()) }

// emitLocked appends a record; w.mu must be held.
func (w *world) emitLocked(rec map[string]any) {
	if w.ended {
		return
	}
	rec["cid"] = w.cid
	if _, ok := rec["t"]; !ok {
		rec["t"] = w.now()
	}
	w.recs = append(w.recs, rec)
}

func (w *world) emit(rec map[string]any) {
	w.mu.Lock()
	w.emitLocked(rec)
	w.mu.Unlock()
}

// noteDiskLocked updates the walker's view after something may have changed the disk.
func (w *world) noteDiskLocked() string {
	fp := fpDisk(w.root)
	if fp != w.diskFP {
		w.diskFP = fp
		w.passed, w.done = 0, 0
	}
	return fp
}

// gate is called by the endpoint's goroutines through the verifGate hook.
func (w *world) gate(point string, snap *core.Snapshot) {
	w.mu.Lock()
	w.arrivals[point]++
	poll := point == gPollBeforeLock || point == gPollAfterScan
	if point == gPollBeforeLock {
		if w.passed > w.done {
			w.done++
		}
		w.gateN++
		w.emitLocked(map[string]any{"ev": "Gate", "point": point, "phase": "arrive", "n": w.gateN, "snap": "", "disk": ""})
	}
	if !poll {
		w.gateN++
		rec := map[string]any{"ev": "Gate", "point": point, "phase": "arrive", "n": w.gateN, "snap": "", "disk": ""}
		if point == gTransRelock {
			rec["disk"] = w.noteDiskLocked()
		}
		w.emitLocked(rec)
	}
	var ch chan struct{}
	if w.hold[point] && !w.open {
		ch = make(chan struct{})
		w.parked[point] = ch
	}
	w.cond.Broadcast()
	w.mu.Unlock()
	if ch != nil {
		<-ch
	}
	if poll {
		w.mu.Lock()
		w.gateN++
		rec := map[string]any{"ev": "Gate", "point": point, "phase": "pass", "n": w.gateN, "snap": "", "disk": ""}
		if point == gPollBeforeLock {
			w.passed++
		} else {
			rec["snap"] = fpEntry(snap.GetContent())
		}
		w.emitLocked(rec)
		w.cond.Broadcast()
		w.mu.Unlock()
	}
}

func (w *world) setHold(point string, h bool) {
	w.mu.Lock()
	w.hold[point] = h
	w.mu.Unlock()
}

// release lets a goroutine parked at point continue.
func (w *world) release(point string) {
	w.mu.Lock()
	if ch := w.parked[point]; ch != nil {
		close(ch)
		delete(w.parked, point)
	}
	w.mu.Unlock()
}

func (w *world) openAll() {
	w.mu.Lock()
	w.open = true
	for p, ch := range w.parked {
		close(ch)
		delete(w.parked, p)
	}
	w.mu.Unlock()
}

// waitFor blocks until cond() holds (evaluated under w.mu) or the timeout expires.
func (w *world) waitFor(timeout time.Duration, cond func() bool) bool {
	deadline := time.Now().Add(timeout)
	stop := make(chan struct{})
	defer close(stop)
	go func() { // wake the waiter up regularly so that it notices the deadline
		tk := time.NewTicker(50 * time.Millisecond)
		defer tk.Stop()
		for {
			select {
			case <-stop:
				return
			case <-tk.C:
				w.mu.Lock()
				w.cond.Broadcast()
				w.mu.Unlock()
			}
		}
	}()
	w.mu.Lock()
	defer w.mu.Unlock()
	for !cond() {
		if time.Now().After(deadline) {
			return false
		}
		w.cond.Wait()
	}
	return true
}

func (w *world) abort(why string) {
	if !w.aborted {
		w.aborted = true
		w.emit(map[string]any{"ev": "Abort", "why": why})
	}
}

func (w *world) guard(f func()) bool {
	done := make(chan struct{})
	go func() { defer close(done); f() }()
	select {
	case <-done:
		return true
	case <-time.After(callTimeout):
		return false
	}
}

var (
	dataOnce    sync.Once
	caseCounter int
	caseMu      sync.Mutex
)

func newWorld(c *vlib.Ctx, cs caseSpec, parkPoller bool) (*world, error) {
	dataOnce.Do(func() {
		d := filepath.Join(c.Scratch, "mutagen-data")
		os.MkdirAll(d, 0o700)
		os.Setenv("MUTAGEN_DATA_DIRECTORY", d)
		local.VerifSetGate(func(root, point string, snap *core.Snapshot) {
			if v, ok := worlds.Load(root); ok {
				v.(*world).gate(point, snap)
			}
		})
	})
	caseMu.Lock()
	caseCounter++
	cid := caseCounter
	caseMu.Unlock()
	w := &world{c: c, cs: cs, cid: cid, arrivals: map[string]int{}, hold: map[string]bool{}, parked: map[string]chan struct{}{}}
	w.cond = sync.NewCond(&w.mu)
	w.dir = c.TempDir("pw")
	w.root = filepath.Join(w.dir, "root")
	w.tmp = filepath.Join(w.dir, "tmp")
	if err := os.Mkdir(w.root, 0o755); err != nil {
		return nil, err
	}
	os.Mkdir(w.tmp, 0o755)
	for _, v := range []string{"c", "d"} {
		p := filepath.Join(w.root, "twin-"+v)
		if err := os.WriteFile(p, fileContent(v), 0o644); err != nil {
			return nil, err
		}
		t := time.Unix(1500000000, 0)
		os.Chtimes(p, t, t)
	}
	switch cs.Init {
	case "b":
		os.Mkdir(filepath.Join(w.root, "x"), 0o755)
		for k, v := range map[string]string{"k1": "c", "k2": "d"} {
			p := filepath.Join(w.root, "x", k)
			os.WriteFile(p, fileContent(v), 0o644)
			t := time.Unix(1500000100, 0)
			os.Chtimes(p, t, t)
		}
	case "c":
		p := filepath.Join(w.root, "x")
		os.WriteFile(p, fileContent("c"), 0o644)
		t := time.Unix(1500000100, 0)
		os.Chtimes(p, t, t)
	}
	w.sid = fmt.Sprintf("sync_pollwatch%08d", cid)
	w.t0 = time.Now()
	w.diskFP = fpDisk(w.root)
	w.hold[gPollBeforeLock] = parkPoller
	worlds.Store(w.root, w)
	cfg := &synchronization.Configuration{
		WatchMode:            synchronization.WatchMode_WatchModeForcePoll,
		WatchPollingInterval: 1,
		ScanMode:             synchronization.ScanMode_ScanModeAccelerated,
		Ignores:              []string{"*" + ignoredSuffix},
	}
	w.emit(map[string]any{"ev": "Begin", "begin": true, "in": vlib.ToMap(cs), "kind": cs.Kind, "disk": w.diskFP, "interval": 1000})
	ep, err := local.NewEndpoint(nil, w.root, w.sid, synchronization.Version_Version1, cfg, false)
	if err != nil {
		return nil, err
	}
	w.ep = ep
	return w, nil
}

func (w *world) close() {
	w.openAll()
	if w.ep != nil {
		ep := w.ep
		w.guard(func() { ep.Shutdown() })
	}
	worlds.Delete(w.root)
	data := os.Getenv("MUTAGEN_DATA_DIRECTORY")
	os.RemoveAll(filepath.Join(data, "staging", w.sid+"-beta"))
	os.Remove(filepath.Join(data, "caches", w.sid+"_beta"))
	os.RemoveAll(w.dir)
}

// ---------------------------------------------------------------------------
// external edits (each one atomic filesystem operation = one record)

func (w *world) xState() string {
	fi, err := os.Lstat(filepath.Join(w.root, "x"))
	if err != nil {
		return "a"
	}
	if fi.IsDir() {
		return "b"
	}
	switch fi.Size() {
	case int64(len(fileContent("c"))):
		return "c"
	case int64(len(fileContent("d"))):
		return "d"
	}
	return "f"
}

// fsop performs one atomic filesystem operation the way an external process
// would (kind mkdir | rm | put, path relative to the root) and records the
// root as the walker sees it afterwards.
func (w *world) fsop(kind, rel, content string) {
	w.mu.Lock()
	defer w.mu.Unlock()
	p := filepath.Join(w.root, filepath.FromSlash(rel))
	var err error
	switch kind {
	case "mkdir":
		err = os.Mkdir(p, 0o755)
	case "rm":
		err = os.Remove(p)
	case "put":
		w.mclock++
		tmp := filepath.Join(w.tmp, fmt.Sprintf("new%d", w.mclock))
		if err = os.WriteFile(tmp, fileContent(content), 0o644); err == nil {
			t := time.Unix(1600000000+w.mclock*3, 0)
			os.Chtimes(tmp, t, t)
			if err = os.Rename(tmp, p); err != nil {
				os.Remove(tmp)
			}
		}
	}
	before := w.diskFP
	fp := w.noteDiskLocked()
	if fp != before {
		w.nEdits++
	}
	w.emitLocked(map[string]any{"ev": "Edit", "op": kind + " " + rel + " " + content, "err": errText(err), "disk": fp})
}

func (w *world) atomicOp(op string) {
	switch op {
	case "temp+":
		w.fsop("put", tempPrefix+"scratch", "u9")
	case "temp-":
		w.fsop("rm", tempPrefix+"scratch", "")
	}
}

// clearX removes x, one atomic operation at a time.
func (w *world) clearX() {
	switch w.xState() {
	case "a":
	case "b":
		des, _ := os.ReadDir(filepath.Join(w.root, "x"))
		for _, de := range des {
			w.fsop("rm", "x/"+de.Name(), "")
		}
		w.fsop("rm", "x", "")
	default:
		w.fsop("rm", "x", "")
	}
}

// editTo brings x to the state named v (a absent, b directory {k1, k2}, c / d
// file) or applies the named edit inside it, by atomic operations.
func (w *world) editTo(v string) {
	switch v {
	case "modk1":
		w.fsop("put", "x/k1", "u1")
		return
	case "addk9":
		w.fsop("put", "x/k9", "u9")
		return
	case "rmk2":
		w.fsop("rm", "x/k2", "")
		return
	case "mod":
		w.fsop("put", "x", "u1")
		return
	case "same":
		w.fsop("put", "x", "s")
		return
	}
	cur := w.xState()
	isFile := func(s string) bool { return s == "c" || s == "d" || s == "f" }
	if cur == v && v != "b" {
		return
	}
	if !(isFile(cur) && isFile(v)) {
		w.clearX()
	}
	switch v {
	case "b":
		w.fsop("mkdir", "x", "")
		w.fsop("put", "x/k1", "c")
		w.fsop("put", "x/k2", "d")
	case "c", "d":
		w.fsop("put", "x", v)
	}
}

// ---------------------------------------------------------------------------
// controller calls

func (w *world) scan(full bool) bool {
	t0 := w.now()
	var snap *core.Snapshot
	var err error
	var again bool
	ok := w.guard(func() { snap, err, again = w.ep.Scan(context.Background(), nil, full) })
	rec := map[string]any{"ev": "Scan", "full": full, "snap": "", "err": errText(err), "again": again, "hang": !ok, "t0": t0}
	w.mu.Lock()
	if ok && err == nil && snap != nil {
		rec["snap"] = fpEntry(snap.Content)
		w.lastScan, w.lastScanFP, w.viewValid = snap, fpEntry(snap.Content), true
		w.owesScan = false
	}
	rec["t1"] = w.now()
	w.emitLocked(rec)
	w.mu.Unlock()
	if !ok {
		w.abort("Scan did not return")
	}
	return ok
}

// poll calls Poll and abandons it when giveUp() (evaluated under w.mu) says so.
func (w *world) poll(giveUp func(waited time.Duration) bool) bool {
	t0 := w.now()
	w.emit(map[string]any{"ev": "PollCall", "t": t0})
	ctx, cancel := context.WithCancel(context.Background())
	defer cancel()
	done := make(chan struct{})
	go func() { w.ep.Poll(ctx); close(done) }()
	start := time.Now()
	sig := false
	tk := time.NewTicker(25 * time.Millisecond)
	defer tk.Stop()
loop:
	for {
		select {
		case <-done:
			sig = true
			break loop
		case <-tk.C:
			w.mu.Lock()
			g := giveUp(time.Since(start))
			w.mu.Unlock()
			if g {
				select {
				case <-done:
					sig = true
				default:
					cancel()
					<-done
				}
				break loop
			}
		}
	}
	w.mu.Lock()
	if sig {
		w.nSig++
		w.owesScan = true
	}
	w.emitLocked(map[string]any{"ev": "PollReturn", "sig": sig, "t0": t0, "t1": w.now(), "passed": w.passed, "completed": w.done})
	w.mu.Unlock()
	return sig
}

func fileEntry(v string) *core.Entry {
	return &core.Entry{Kind: core.EntryKind_File, Digest: digestOf(v)}
}

func entryFor(v string) *core.Entry {
	switch v {
	case "b":
		return &core.Entry{Kind: core.EntryKind_Directory, Contents: map[string]*core.Entry{"k1": fileEntry("c"), "k2": fileEntry("d")}}
	case "bz": // a directory one of whose files cannot be staged
		return &core.Entry{Kind: core.EntryKind_Directory, Contents: map[string]*core.Entry{"k1": fileEntry("c"), "k3": fileEntry("z")}}
	case "c", "d":
		return fileEntry(v)
	}
	return nil
}

// transitionBegin plans x: (what the last snapshot says) -> v and starts the
// call. partial: arrange for the transition to go wrong part-way if the plan
// allows it: content the scan ignores is planted in a directory that is going
// to be removed; a directory that is going to be created gets a file that
// cannot be staged.
func (w *world) transitionBegin(v string, partial bool) bool {
	if w.lastScan == nil {
		w.abort("transition without snapshot")
		return false
	}
	var old *core.Entry
	if c := w.lastScan.Content; c != nil && c.Contents != nil {
		old = synchronizable(c.Contents["x"])
	}
	nw := entryFor(v)
	if partial {
		if old != nil && old.Kind == core.EntryKind_Directory && len(old.Contents) > 0 {
			w.fsop("put", "x/junk"+ignoredSuffix, "u9")
		} else if v == "b" {
			nw = entryFor("bz")
		}
	}
	if fpEntry(old) == fpEntry(nw) {
		return false // nothing to plan
	}
	staged := false
	stageErr := ""
	var paths []string
	var digests [][]byte
	if nw != nil && nw.Kind == core.EntryKind_File {
		paths, digests = []string{"x"}, [][]byte{nw.Digest}
	} else if nw != nil {
		names := []string{}
		for n := range nw.Contents {
			names = append(names, n)
		}
		sort.Strings(names)
		for _, n := range names {
			paths = append(paths, "x/"+n)
			digests = append(digests, nw.Contents[n].Digest)
		}
	}
	unsourced := 0
	if len(paths) > 0 {
		var left []string
		var err error
		ok := w.guard(func() { left, _, _, err = w.ep.Stage(paths, digests) })
		if !ok {
			w.abort("Stage did not return")
			return false
		}
		staged = true
		stageErr = errText(err)
		unsourced = len(left)
	}
	t0 := w.now()
	w.emit(map[string]any{"ev": "TransitionCall", "old": fpEntry(old), "new": fpEntry(nw), "partial": partial, "staged": staged, "stageErr": stageErr, "unsourced": unsourced, "t": t0})
	w.tRec = map[string]any{"ev": "Transition", "old": fpEntry(old), "new": fpEntry(nw), "t0": t0}
	w.tdone = make(chan struct{})
	w.tActive = true
	chg := &core.Change{Path: "x", Old: old, New: nw}
	rec := w.tRec
	done := w.tdone
	go func() {
		results, problems, missing, err := w.ep.Transition(context.Background(), []*core.Change{chg})
		rec["res"] = "none"
		if len(results) == 1 {
			rec["res"] = fpEntry(results[0])
		}
		rec["problems"] = len(problems)
		pp := []any{}
		for _, p := range problems {
			pp = append(pp, splitPath(p.Path))
		}
		rec["ppaths"] = pp
		rec["missing"] = missing
		rec["err"] = errText(err)
		close(done)
	}()
	return true
}

// synchronizable copies an entry without the untracked content below it (what
// reconciliation hands to Transition).
func synchronizable(e *core.Entry) *core.Entry {
	if e == nil || e.Kind == core.EntryKind_Untracked {
		return nil
	}
	out := &core.Entry{Kind: e.Kind, Executable: e.Executable, Digest: e.Digest, Target: e.Target, Problem: e.Problem}
	for n, c := range e.Contents {
		if sc := synchronizable(c); sc != nil {
			if out.Contents == nil {
				out.Contents = map[string]*core.Entry{}
			}
			out.Contents[n] = sc
		}
	}
	return out
}

func splitPath(p string) []any {
	out := []any{}
	for _, f := range strings.Split(p, "/") {
		if f != "" {
			out = append(out, f)
		}
	}
	return out
}

// transitionEnd waits for the call to return and records it.
func (w *world) transitionEnd() bool {
	select {
	case <-w.tdone:
	case <-time.After(callTimeout):
		w.abort("Transition did not return")
		return false
	}
	w.tActive = false
	w.mu.Lock()
	w.tRec["disk"] = w.noteDiskLocked()
	w.tRec["t1"] = w.now()
	if w.tRec["res"] != w.tRec["old"] { // steering only: the controller knows it changed the disk
		w.viewValid = false
		w.nChanged++
	}
	w.emitLocked(w.tRec)
	w.mu.Unlock()
	return true
}

func (w *world) count(point string) int {
	w.mu.Lock()
	defer w.mu.Unlock()
	return w.arrivals[point]
}

func (w *world) arrived(point string, n int) bool {
	return w.waitFor(gateTimeout, func() bool { return w.arrivals[point] >= n })
}

// transitionTo is reached either by the gate or by the call returning early (an error before the window)
func (w *world) waitGateOrReturn(point string, n int) (atGate bool, ok bool) {
	returned := false
	ok = w.waitFor(gateTimeout, func() bool {
		select {
		case <-w.tdone:
			returned = true
			return true
		default:
		}
		return w.arrivals[point] >= n
	})
	return ok && !returned, ok
}

// ---------------------------------------------------------------------------
// the settle phase

func (w *world) settle() {
	w.openAll()
	for i := 0; i < 6 && !w.aborted; i++ {
		w.mu.Lock()
		fresh := w.viewValid && w.lastScanFP == fpDisk(w.root)
		owes := w.owesScan || w.lastScan == nil
		w.mu.Unlock()
		if owes { // the controller scans after every notification (and on its first cycle)
			if !w.scan(false) {
				break
			}
			continue
		}
		if fresh {
			break
		}
		var since time.Time
		sig := w.poll(func(waited time.Duration) bool {
			if waited > settleMax {
				return true
			}
			if w.done >= 2 {
				if since.IsZero() {
					since = time.Now()
				}
				return time.Since(since) > settleSlack
			}
			since = time.Time{}
			return false
		})
		if !sig {
			break
		}
		if !w.scan(false) {
			break
		}
	}
	w.mu.Lock()
	w.emitLocked(map[string]any{"ev": "End", "disk": w.noteDiskLocked(), "view": w.lastScanFP})
	w.ended = true
	w.mu.Unlock()
}

// ---------------------------------------------------------------------------
// gated cases

func (w *world) pollerIteration() bool {
	if !w.arrived(gPollBeforeLock, w.pIters+1) {
		w.abort("poller did not reach the gate")
		return false
	}
	w.release(gPollBeforeLock)
	w.pIters++
	if !w.arrived(gPollBeforeLock, w.pIters+1) {
		w.abort("polling iteration did not complete")
		return false
	}
	return true
}

func (w *world) finishTransition(from int) bool {
	// from: 0 = parked after unlock, 1 = parked before relock
	if from == 0 {
		n := w.count(gTransRelock)
		w.release(gTransUnlocked)
		if at, ok := w.waitGateOrReturn(gTransRelock, n+1); !ok {
			w.abort("Transition did not reach the relock gate")
			return false
		} else if !at {
			return w.transitionEnd()
		}
	}
	w.release(gTransRelock)
	return w.transitionEnd()
}

func runGated(c *vlib.Ctx, cs caseSpec) *world {
	w, err := newWorld(c, cs, true)
	if err != nil {
		vlib.Fatal("new world: %v", err)
	}
	w.setHold(gTransUnlocked, true)
	w.setHold(gTransRelock, true)
	tstage := -1 // -1 none, 0 parked after unlock, 1 parked before relock
	for _, st := range cs.Steps {
		if w.aborted {
			break
		}
		switch st.A {
		case "P":
			w.pollerIteration()
		case "S":
			w.scan(false)
		case "SF":
			w.scan(true)
		case "W":
			w.poll(func(waited time.Duration) bool { return waited > gatedPollWait })
		case "Tl", "Tlp":
			n := w.count(gTransUnlocked)
			if w.transitionBegin(st.V, st.A == "Tlp") {
				if at, ok := w.waitGateOrReturn(gTransUnlocked, n+1); !ok {
					w.abort("Transition did not reach the window")
				} else if at {
					tstage = 0
				} else {
					w.transitionEnd()
				}
			}
		case "Tw":
			if tstage == 0 {
				n := w.count(gTransRelock)
				w.release(gTransUnlocked)
				if at, ok := w.waitGateOrReturn(gTransRelock, n+1); !ok {
					w.abort("Transition did not reach the relock gate")
				} else if at {
					tstage = 1
				} else {
					tstage = -1
					w.transitionEnd()
				}
			}
		case "Tr":
			if tstage == 1 {
				w.finishTransition(1)
				tstage = -1
			}
		case "E":
			w.editTo(st.V)
		case "T+":
			w.atomicOp("temp+")
		case "T-":
			w.atomicOp("temp-")
		}
	}
	if tstage >= 0 && !w.aborted {
		w.finishTransition(tstage)
	}
	if !w.aborted {
		w.settle()
	}
	return w
}

// ---------------------------------------------------------------------------
// random cases

func runRandom(c *vlib.Ctx, cs caseSpec) *world {
	w, err := newWorld(c, cs, false)
	if err != nil {
		vlib.Fatal("new world: %v", err)
	}
	rc := rand.New(rand.NewSource(cs.Seed))
	re := rand.New(rand.NewSource(cs.Seed ^ 0x5eed))
	stop := make(chan struct{})
	edDone := make(chan struct{})
	go func() {
		defer close(edDone)
		temp := false
		for {
			select {
			case <-stop:
				return
			case <-time.After(time.Duration(80+re.Intn(1500)) * time.Millisecond):
			}
			k := re.Intn(10)
			if k == 0 {
				if temp {
					w.atomicOp("temp-")
				} else {
					w.atomicOp("temp+")
				}
				temp = !temp
				continue
			}
			switch w.xState() {
			case "a":
				switch re.Intn(3) {
				case 0:
					w.fsop("mkdir", "x", "")
				case 1:
					w.fsop("put", "x", "c")
				default:
					w.fsop("put", "x", "d")
				}
			case "b":
				switch re.Intn(9) {
				case 0:
					w.fsop("put", "x/k1", []string{"c", "u1"}[re.Intn(2)])
				case 1:
					w.fsop("put", "x/k2", "d")
				case 2:
					w.fsop("put", "x/k9", "u9")
				case 3:
					w.fsop("rm", "x/k1", "")
				case 4:
					w.fsop("rm", "x/k2", "")
				case 5:
					w.fsop("rm", "x/k9", "")
				case 6:
					w.fsop("rm", "x/junk"+ignoredSuffix, "")
				default:
					w.fsop("rm", "x", "")
				}
			default:
				if re.Intn(2) == 0 {
					w.fsop("rm", "x", "")
				} else {
					w.fsop("put", "x", []string{"c", "d", "u1"}[re.Intn(3)])
				}
			}
		}
	}()
	vals := []string{"a", "b", "c", "d"}
	w.scan(false)
	for i := 0; i < cs.Ops && !w.aborted; i++ {
		if rc.Intn(2) == 0 {
			if w.transitionBegin(vals[rc.Intn(len(vals))], rc.Intn(3) == 0) {
				if !w.transitionEnd() {
					break
				}
			}
		}
		if rc.Intn(8) == 0 {
			time.Sleep(time.Duration(rc.Intn(1200)) * time.Millisecond)
		}
		limit := time.Duration(150+rc.Intn(2300)) * time.Millisecond
		w.poll(func(waited time.Duration) bool { return waited > limit })
		w.scan(rc.Intn(5) == 0)
	}
	close(stop)
	<-edDone
	if !w.aborted {
		w.settle()
	}
	return w
}

// ---------------------------------------------------------------------------

var flushMu sync.Mutex

func runCase(c *vlib.Ctx, cs caseSpec) {
	var w *world
	if cs.Kind == "gated" {
		w = runGated(c, cs)
	} else {
		w = runRandom(c, cs)
	}
	w.close()
	flushMu.Lock()
	for _, r := range w.recs {
		c.Emit(r)
	}
	c.Eval()
	c.TraceDone()
	if !w.aborted && w.nSig > 0 && (w.nChanged > 0 || w.nEdits > 0) {
		c.NonTrivial(cs.Kind + ":" + cs.Name)
	}
	if w.aborted {
		c.AddExtra("aborted_cases", 1)
	}
	c.AddExtra("poll_returns_signalled", w.nSig)
	c.AddExtra("disk_changing_transitions", w.nChanged)
	c.AddExtra("external_edits", w.nEdits)
	flushMu.Unlock()
}

func sched(s string) []step {
	out := []step{}
	for _, f := range strings.Fields(s) {
		a, v := f, ""
		if i := strings.Index(f, ":"); i >= 0 {
			a, v = f[:i], f[i+1:]
		}
		out = append(out, step{A: a, V: v})
	}
	return out
}

// named schedules that are always run (they are also members of the TLC-generated set)
var named = []struct{ name, s, init string }{
	{"revert-after-rescan-b", "P S Tl:b Tw Tr W S E:a", ""},         // finding 9
	{"revert-after-rescan-c", "P S Tl:c Tw Tr W S E:a", ""},         // finding 9, file
	{"edit-before-baseline", "S E:b P", ""},                         // finding 10
	{"edit-before-baseline-c", "S E:c P", ""},                       // finding 10, file
	{"rescan-after-transition", "P S Tl:b Tw Tr W S", ""},           // stale snapshot if accelerate is not reset
	{"poller-in-window", "P S Tl:c P Tw Tr W S", ""},                // ... or reset before the window
	{"revert-inside-window", "P S Tl:b Tw E:a Tr", ""},              // needs the strobe in Transition
	// acceleration already off when the Transition starts (full rescan right after a changing transition, no poll in
	// between) and the poller's scan lands inside the unlocked window, switching it on again: it must be off afterwards
	{"poller-in-window-unaccelerated", "P S Tl:c Tw Tr S Tl:b P Tw Tr S", ""},
	{"poller-in-window-unaccelerated-late", "P S Tl:c Tw Tr S Tl:b Tw P Tr S", ""},
	{"poller-in-window-unaccelerated-rm", "P S Tl:c Tw Tr S Tl:a P Tw Tr S", ""},
	{"revert-before-rescan", "P S Tl:c Tw Tr E:a W S", ""},          // the strobe covers it
	{"temporary-file", "P S T+ P T- P E:b P W S", ""},               // temporaries are not modifications
	{"delete-and-recreate", "P S E:c P W S Tl:a Tw Tr W S E:c", ""}, // reversal of a deletion
	// transitions that go wrong part-way: the disk changes although the plan was not carried out
	{"partial-removal-ignored-content", "P S Tlp:a Tw Tr W S", "b"},     // *.log inside: children removed, directory stays
	{"partial-removal-then-file", "P S Tlp:c Tw Tr W S", "b"},           // ... and the replacing file cannot be created
	{"partial-removal-poller-in-window", "P S Tlp:a P Tw Tr W S", "b"},  // poller scans inside the window
	{"partial-removal-child-edited", "P S E:modk1 Tl:a Tw Tr W S", "b"}, // child modified after the scan stays
	{"partial-removal-child-added", "P S E:addk9 Tl:a Tw Tr W S", "b"},  // unknown child stays
	{"partial-creation-missing-file", "P S Tlp:b Tw Tr W S", ""},        // one of two staged files is missing
	{"partial-creation-over-file", "P S Tlp:b Tw Tr W S E:a", "c"},      // file removed, directory created in part
	{"partial-removal-built-by-edits", "P S E:b P W S Tlp:a Tw Tr W S", ""},
}

// ---------------------------------------------------------------------------
// C08 scenarios: Scan -> external edit -> exactly n polling scans -> Transition

type c08Spec struct {
	Name  string `json:"name"`
	Init  string `json:"init"`  // x before the endpoint is created: "c" file, "b" directory {k1, k2}
	Edit  string `json:"edit"`  // mod | same (file x), modk1 | addk9 (child of directory x)
	Plan  string `json:"plan"`  // what the controller's plan makes of x: a (delete), b, c, d
	Polls int    `json:"polls"` // polling scans that complete between the edit and the Transition call
	Full  bool   `json:"full"`  // the controller's scan is a full one
}

func c08Scenarios() []c08Spec {
	out := []c08Spec{}
	add := func(init, edit, plan string, polls int, full bool) {
		n := fmt.Sprintf("%s-%s-to-%s-polls%d", init, edit, plan, polls)
		if full {
			n += "-full"
		}
		out = append(out, c08Spec{Name: n, Init: init, Edit: edit, Plan: plan, Polls: polls, Full: full})
	}
	for polls := 0; polls <= 2; polls++ {
		for _, full := range []bool{false, true} {
			if full && polls != 1 {
				continue
			}
			for _, edit := range []string{"mod", "same"} {
				for _, plan := range []string{"a", "d", "b"} {
					add("c", edit, plan, polls, full)
				}
			}
			for _, edit := range []string{"modk1", "addk9"} {
				for _, plan := range []string{"a", "c"} {
					add("b", edit, plan, polls, full)
				}
			}
		}
	}
	return out
}

func runC08(c *vlib.Ctx, sp c08Spec) {
	w, err := newWorld(c, caseSpec{Kind: "gated", Name: sp.Name, Steps: []step{}, Init: sp.Init}, true)
	if err != nil {
		vlib.Fatal("new world: %v", err)
	}
	path := []any{"x"}
	switch sp.Edit {
	case "modk1":
		path = []any{"x", "k1"}
	case "addk9":
		path = []any{"x", "k9"}
	}
	abs := w.root
	for _, p := range path {
		abs = filepath.Join(abs, p.(string))
	}
	edited, after := "nil", "nil"
	planned := false
	if w.pollerIteration() && w.scan(sp.Full) {
		w.editTo(sp.Edit)
		edited = fpDisk(abs)
		ok := true
		for i := 0; i < sp.Polls && ok; i++ {
			ok = w.pollerIteration()
		}
		if ok && w.transitionBegin(sp.Plan, false) {
			planned = w.transitionEnd()
		}
		after = fpDisk(abs)
	}
	w.mu.Lock()
	polls, seenEdit := 0, false
	rec := map[string]any{"ev": "EditAfterScan", "in": vlib.ToMap(sp), "path": path, "edited": edited, "after": after,
		"problems": []any{}, "planned": planned && !w.aborted, "old": "", "new": "", "res": "", "err": "", "disk": fpDisk(w.root)}
	for _, r := range w.recs {
		switch {
		case r["ev"] == "Edit":
			seenEdit = true
		case r["ev"] == "Gate" && r["point"] == gPollAfterScan && seenEdit && rec["new"] == "":
			polls++
		case r["ev"] == "TransitionCall":
			rec["new"] = r["new"]
		case r["ev"] == "Transition":
			rec["old"], rec["res"], rec["err"] = r["old"], r["res"], r["err"]
			if pp, ok := r["ppaths"].([]any); ok {
				rec["problems"] = pp
			}
		}
	}
	rec["polls"] = polls
	w.mu.Unlock()
	w.close()
	flushMu.Lock()
	c.Emit(rec)
	c.Eval()
	if rec["planned"] == true && polls == sp.Polls {
		c.NonTrivial("c08:" + sp.Name)
	}
	flushMu.Unlock()
}

func runC08All(c *vlib.Ctx) error {
	sps := c08Scenarios()
	c.SetExhaustive(true)
	ch := make(chan c08Spec)
	var wg sync.WaitGroup
	for i := 0; i < argInt(c, "par", 32); i++ {
		wg.Add(1)
		go func() {
			defer wg.Done()
			for sp := range ch {
				runC08(c, sp)
			}
		}()
	}
	for i, sp := range sps {
		if i < 3 {
			c.Sample(vlib.ToMap(sp))
		}
		ch <- sp
	}
	close(ch)
	wg.Wait()
	return nil
}

func argInt(c *vlib.Ctx, key string, def int) int {
	for _, a := range c.Args {
		if strings.HasPrefix(a, key+"=") {
			if n, err := strconv.Atoi(a[len(key)+1:]); err == nil {
				return n
			}
		}
	}
	return def
}

func run(c *vlib.Ctx) error {
	if c.Prop == "C08" || argInt(c, "c08", 0) == 1 {
		return runC08All(c)
	}
	nGated := argInt(c, "gated", 30)
	nRandom := argInt(c, "random", 12)
	ops := argInt(c, "ops", 6)
	par := argInt(c, "par", 16)
	cases := []caseSpec{}
	for _, n := range named {
		cases = append(cases, caseSpec{Kind: "gated", Name: n.name, Steps: sched(n.s), Init: n.init})
	}
	// schedules generated by TLC
	beh := c.ReadBehaviours()
	keys := []string{}
	byKey := map[string][]step{}
	for _, b := range beh {
		var st []step
		vlib.Decode(b["steps"], &st)
		if len(st) == 0 {
			continue
		}
		k := ""
		for _, s := range st {
			k += s.A
			if s.V != "" {
				k += ":" + s.V
			}
			k += " "
		}
		k = strings.TrimSpace(k)
		if _, dup := byKey[k]; !dup {
			byKey[k] = st
			keys = append(keys, k)
		}
	}
	sort.Strings(keys)
	c.SetExtra("tlc_schedules_available", len(keys))
	c.Rand.Shuffle(len(keys), func(i, j int) { keys[i], keys[j] = keys[j], keys[i] })
	if nGated > len(keys) {
		nGated = len(keys)
	}
	for _, k := range keys[:nGated] {
		cases = append(cases, caseSpec{Kind: "gated", Name: "tlc: " + k, Steps: byKey[k]})
	}
	c.SetExhaustive(nGated == len(keys) && len(keys) > 0)
	for i := 0; i < nRandom; i++ {
		cases = append(cases, caseSpec{Kind: "random", Name: fmt.Sprintf("r%d", i), Steps: []step{}, Seed: int64(c.Rand.Int31()), Ops: ops})
	}
	// long cases first, then the rest, over a pool of workers
	sort.SliceStable(cases, func(i, j int) bool { return cases[i].Kind == "random" && cases[j].Kind != "random" })
	ch := make(chan caseSpec)
	var wg sync.WaitGroup
	for i := 0; i < par; i++ {
		wg.Add(1)
		go func() {
			defer wg.Done()
			for cs := range ch {
				runCase(c, cs)
			}
		}()
	}
	for i, cs := range cases {
		if i < 3 || i == len(cases)-1 {
			c.Sample(vlib.ToMap(cs))
		}
		ch <- cs
	}
	close(ch)
	wg.Wait()
	return nil
}

func replay(c *vlib.Ctx) error {
	doc := c.LoadReplay()
	begin, _ := doc["begin"].(map[string]any)
	if c.Prop == "C08" || begin["ev"] == "EditAfterScan" {
		var sp c08Spec
		vlib.Decode(begin["in"], &sp)
		runC08(c, sp)
		return nil
	}
	var cs caseSpec
	vlib.Decode(begin["in"], &cs)
	if cs.Steps == nil {
		cs.Steps = []step{}
	}
	runCase(c, cs)
	return nil
}

func main() { vlib.Main(run, replay) }
