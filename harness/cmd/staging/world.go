// The endpoint-call executor shared by C10, C41 (and the endpoint half of C02):
// a case is one real local endpoint (local.NewEndpoint, no-watch mode, scratch
// MUTAGEN_DATA_DIRECTORY) on a real root directory, driven through a script of
// Scan / Stage / Recv / Trans calls and external edits. Every record holds the
// arguments passed, the values returned and the disk / staging store as seen
// by the independent walker before and after the call. No verdict is computed
// here.
package main

import (
	"context"
	"encoding/hex"
	"encoding/json"
	"errors"
	"fmt"
	"io"
	"math/rand"
	"os"
	"path/filepath"
	"sort"
	"strings"
	"time"

	"golang.org/x/sys/unix"

	"github.com/mutagen-io/mutagen/pkg/filesystem"
	"github.com/mutagen-io/mutagen/pkg/synchronization"
	"github.com/mutagen-io/mutagen/pkg/synchronization/core"
	"github.com/mutagen-io/mutagen/pkg/synchronization/endpoint/local"
	"github.com/mutagen-io/mutagen/pkg/synchronization/rsync"

	"verif/harness/internal/vlib"
	"verif/harness/internal/vtree"
)

const callTimeout = 20 * time.Second

// Unlimited is what the specification uses for "no entry limit configured".
const Unlimited = 1000000

type reqSpec struct {
	Path []string `json:"path"`
	C    string   `json:"c"`
}

type chgSpec struct {
	Path   []string          `json:"path"`
	Old    string            `json:"old"`              // abstract content of the expected file, "" = none
	New    string            `json:"new"`              // abstract content of the planned file, "" = none
	OldDir map[string]string `json:"olddir,omitempty"` // expected directory (name -> content), if any
	NewDir map[string]string `json:"newdir,omitempty"` // planned directory (name -> content), if any
	OldX   bool              `json:"oldx,omitempty"`
	NewX   bool              `json:"newx,omitempty"`
}

// faultSpec is an I/O fault arranged around a Stage or Recv call. From the
// model: Step/How (flush1 | final | close | rename, short | error); from the
// driver's own generators: FSize (RLIMIT_FSIZE in bytes while the call runs:
// the write that crosses it is cut short and the next one fails with EFBIG) or
// Rename (the rename of the temporary staging file into the store fails).
type faultSpec struct {
	Step   string `json:"step,omitempty"`
	How    string `json:"how,omitempty"`
	FSize  int    `json:"fsize,omitempty"`
	Rename bool   `json:"rename,omitempty"`
}

// resolve maps a model fault onto what can genuinely be provoked.
func (f *faultSpec) resolve() (kind string, limit int) {
	if f == nil {
		return "none", 0
	}
	switch {
	case f.FSize > 0:
		return "fsize", f.FSize
	case f.Rename || f.Step == "rename":
		return "rename", 0
	case f.Step == "final" || f.Step == "flush1":
		return "fsize", 4000 // below every non-empty model content: the final flush crosses it
	}
	return "none", 0 // "close" faults cannot be provoked on a local file
}

func faultRecord(f *faultSpec) map[string]any {
	kind, limit := f.resolve()
	return map[string]any{"kind": kind, "limit": limit}
}

// withFault runs call with the fault in force.
func (w *world) withFault(f *faultSpec, call func()) {
	kind, limit := f.resolve()
	switch kind {
	case "fsize":
		var old unix.Rlimit
		if err := unix.Getrlimit(unix.RLIMIT_FSIZE, &old); err != nil {
			vlib.Fatal("getrlimit: %v", err)
		}
		lim := unix.Rlimit{Cur: uint64(limit), Max: old.Max}
		if err := unix.Setrlimit(unix.RLIMIT_FSIZE, &lim); err != nil {
			vlib.Fatal("setrlimit: %v", err)
		}
		defer unix.Setrlimit(unix.RLIMIT_FSIZE, &old)
		call()
	case "rename":
		staging := w.staging
		filesystem.VerifSetFault(func(op, name string) error {
			if (op == "renameat" || op == "renameat2") && strings.HasPrefix(name, staging) &&
				strings.HasPrefix(filepath.Base(name), "storage") {
				return unix.EIO
			}
			return nil
		})
		defer filesystem.VerifSetFault(nil)
		call()
	default:
		call()
	}
}

type opSpec struct {
	Fault *faultSpec `json:"fault,omitempty"`
	Op    string     `json:"op"`
	Req   []reqSpec  `json:"req,omitempty"`
	Kinds []string   `json:"kinds,omitempty"`
	Chg   []chgSpec  `json:"chg,omitempty"`
	Path  []string   `json:"path,omitempty"`
	C     string     `json:"c,omitempty"`
	How   string     `json:"how,omitempty"`   // Restart: "shutdown" | "drop"
	Plant string     `json:"plant,omitempty"` // Restart: "keep" | "file" | "empty"
}

type caseSpec struct {
	Init  map[string]string `json:"init"` // path -> abstract content
	Max   int               `json:"max"`  // Unlimited = no limit configured
	Alpha bool              `json:"alpha"`
	Mode  string            `json:"mode"` // tws twr ows owr
	Ops   []opSpec          `json:"ops"`
	Salt  int64             `json:"salt"` // content salt
	Src   string            `json:"src"`  // "model" | "rand" | "proto" | "limit"
	// MaxFile is the maximum staging file size: "" unlimited, "u:<n>" n model
	// units, "eq:<c>" / "m1:<c>" / "half:<c>" the size of content c, one byte less,
	// half of it, "tiny" (less than one block), "blk" (on a block boundary),
	// "inblk" (inside a block).
	MaxFile   string `json:"maxfile,omitempty"`
	StageMode string `json:"stagemode,omitempty"` // "" (mutagen data directory) | "neighboring" | "internal"
	FileMode  uint32 `json:"filemode,omitempty"`  // default file mode, 0 = version default
	DirMode   uint32 `json:"dirmode,omitempty"`   // default directory mode, 0 = version default
	Unit      int    `json:"unit,omitempty"`      // > 0: contents are sized in model units of this many bytes
}

// contentUnit is the model unit size of the case being run (0: free sizes).
var contentUnit int

func modelUnits(name string) int {
	switch name {
	case "c1":
		return 2
	case "c2":
		return 3
	case "empty":
		return 0
	}
	return 1
}

// resolveMaxFile turns the symbolic limit of a case into bytes.
func resolveMaxFile(cs *caseSpec) int {
	n := resolveMaxFileRaw(cs)
	if n < 1 {
		n = 1 // the configuration treats 0 as "not configured"; the smallest real limit is one byte
	}
	return n
}

func resolveMaxFileRaw(cs *caseSpec) int {
	size := func(c string) int { return len(contentBytes(cs.Salt, c)) }
	switch {
	case cs.MaxFile == "":
		return Unlimited
	case cs.MaxFile == "tiny":
		return 500
	case cs.MaxFile == "blk":
		return 2048
	case cs.MaxFile == "inblk":
		return 2500
	case strings.HasPrefix(cs.MaxFile, "u:"):
		var n int
		fmt.Sscanf(cs.MaxFile[2:], "%d", &n)
		if n >= Unlimited/1000 {
			return Unlimited
		}
		return n * cs.Unit
	case strings.HasPrefix(cs.MaxFile, "eq:"):
		return size(cs.MaxFile[3:])
	case strings.HasPrefix(cs.MaxFile, "m1:"):
		if n := size(cs.MaxFile[3:]); n > 0 {
			return n - 1
		}
		return 0
	case strings.HasPrefix(cs.MaxFile, "half:"):
		return size(cs.MaxFile[5:]) / 2
	}
	panic("bad maxfile " + cs.MaxFile)
}

var modeOf = map[string]core.SynchronizationMode{
	"tws": core.SynchronizationMode_SynchronizationModeTwoWaySafe,
	"twr": core.SynchronizationMode_SynchronizationModeTwoWayResolved,
	"ows": core.SynchronizationMode_SynchronizationModeOneWaySafe,
	"owr": core.SynchronizationMode_SynchronizationModeOneWayReplica,
}

// contentBytes maps an abstract content name to concrete bytes. All contents of
// a case share a leading region so that rsync deltas contain block operations.
func contentBytes(salt int64, name string) []byte {
	if name == "empty" {
		return []byte{}
	}
	if name == "big" { // larger than two write buffers of the store (64 KiB each)
		out := make([]byte, 150000)
		rand.New(rand.NewSource(salt*31 + 5)).Read(out)
		return out
	}
	if contentUnit > 0 { // model-sized: units * contentUnit bytes, first unit shared
		n := modelUnits(name) * contentUnit
		out := make([]byte, n)
		rand.New(rand.NewSource(salt*7919 + 17)).Read(out[:contentUnit])
		var h int64
		for _, ch := range name {
			h = h*131 + int64(ch)
		}
		rand.New(rand.NewSource(salt*104729 + h)).Read(out[contentUnit:])
		return out
	}
	common := make([]byte, 6000)
	rand.New(rand.NewSource(salt*7919 + 17)).Read(common)
	var h int64
	for _, ch := range name {
		h = h*131 + int64(ch)
	}
	r := rand.New(rand.NewSource(salt*104729 + h))
	tail := make([]byte, 700+r.Intn(2500))
	r.Read(tail)
	if name == "small" {
		return tail[:100]
	}
	return append(append([]byte{}, common...), tail...)
}

func digestOf(salt int64, name string) []byte {
	b, _ := hex.DecodeString(sha1Bytes(contentBytes(salt, name)))
	return b
}

func ascii(s string) string {
	for i := 0; i < len(s); i++ {
		if s[i] < 0x20 || s[i] > 0x7e || s[i] == '"' || s[i] == '\\' {
			return "hex:" + hex.EncodeToString([]byte(s))
		}
	}
	return s
}

func errText(err error) string {
	if err == nil {
		return ""
	}
	t := ascii(err.Error())
	if t == "" {
		t = "error"
	}
	return t
}

// world is one endpoint on one root.
type world struct {
	c        *vlib.Ctx
	dir      string
	root     string
	staging  string
	sid      string
	ep       synchronization.Endpoint
	salt     int64
	clock    int64
	paths    []string // universe of paths of the case (for the store walker)
	receiver rsync.Receiver
	pending  []string           // paths the receiver expects
	sigs     []*rsync.Signature // their base signatures
	pendReq  map[string][]byte  // path -> planned content (bytes) for pending paths
	hung     bool
	cfg      *synchronization.Configuration
	alpha    bool
	skip     string // top-level name inside the root that is the (internal) staging directory
}

var dataDirSet bool

func ensureDataDir(c *vlib.Ctx) string {
	d := filepath.Join(c.Scratch, "mutagen-data")
	if !dataDirSet {
		os.MkdirAll(d, 0o700)
		os.Setenv("MUTAGEN_DATA_DIRECTORY", d)
		dataDirSet = true
	}
	return d
}

var caseCounter int

// worldOpts are the endpoint configuration values a case may vary beyond the basics.
type worldOpts struct {
	maxFile   int // Unlimited = not configured
	stageMode string
	fileMode  uint32
	dirMode   uint32
}

func newWorld(c *vlib.Ctx, alpha bool, mode string, max int, symlinks core.SymbolicLinkMode, salt int64) (*world, error) {
	return newWorldOpts(c, alpha, mode, max, symlinks, salt, worldOpts{maxFile: Unlimited})
}

func newWorldOpts(c *vlib.Ctx, alpha bool, mode string, max int, symlinks core.SymbolicLinkMode, salt int64, o worldOpts) (*world, error) {
	data := ensureDataDir(c)
	caseCounter++
	w := &world{c: c, salt: salt, clock: 0}
	w.dir = c.TempDir("w")
	w.root = filepath.Join(w.dir, "root")
	if err := os.Mkdir(w.root, 0o755); err != nil {
		return nil, err
	}
	w.sid = fmt.Sprintf("sync_verif%08d", caseCounter)
	name := "beta"
	if alpha {
		name = "alpha"
	}
	w.staging = filepath.Join(data, "staging", w.sid+"-"+name)
	cfg := &synchronization.Configuration{
		SynchronizationMode:  modeOf[mode],
		WatchMode:            synchronization.WatchMode_WatchModeNoWatch,
		SymbolicLinkMode:     symlinks,
		DefaultFileMode:      o.fileMode,
		DefaultDirectoryMode: o.dirMode,
	}
	// the staging root as the walker will look for it (observed layout, not asked from mutagen)
	hidden := ".mutagen-temporary-staging-" + w.sid + "-" + name
	switch o.stageMode {
	case "neighboring":
		cfg.StageMode = synchronization.StageMode_StageModeNeighboring
		w.staging = filepath.Join(w.dir, hidden)
	case "internal":
		cfg.StageMode = synchronization.StageMode_StageModeInternal
		w.staging = filepath.Join(w.root, hidden)
		w.skip = hidden
	}
	if o.maxFile != Unlimited {
		cfg.MaximumStagingFileSize = uint64(o.maxFile)
		if o.maxFile == 0 {
			cfg.MaximumStagingFileSize = 1 // 0 means "not configured"; the smallest real limit is one byte
		}
	}
	if max != Unlimited {
		cfg.MaximumEntryCount = uint64(max)
	}
	w.cfg, w.alpha = cfg, alpha
	ep, err := local.NewEndpoint(nil, w.root, w.sid, synchronization.Version_Version1, cfg, alpha)
	if err != nil {
		return nil, err
	}
	w.ep = ep
	return w, nil
}

// restart replaces the endpoint object by a new one for the same session (same
// session identifier, root, data directory, configuration), as after a crash,
// a daemon restart or a lost connection. how: "shutdown" (orderly) or "drop"
// (the old object is simply abandoned). plant: "keep" the leftover staging root,
// replace it by a "file", or leave an "empty" directory.
func (w *world) restart(how, plant string) error {
	if how == "shutdown" {
		old := w.ep
		w.guard(func() { old.Shutdown() })
	}
	w.receiver, w.pending, w.sigs, w.pendReq = nil, nil, nil, nil
	switch plant {
	case "file":
		os.RemoveAll(w.staging)
		if err := os.WriteFile(w.staging, []byte("not a directory"), 0o600); err != nil {
			return err
		}
	case "empty":
		os.RemoveAll(w.staging)
		if err := os.Mkdir(w.staging, 0o700); err != nil {
			return err
		}
	}
	ep, err := local.NewEndpoint(nil, w.root, w.sid, synchronization.Version_Version1, w.cfg, w.alpha)
	if err != nil {
		return err
	}
	w.ep = ep
	return nil
}

// stagingRootKind is what the walker finds at the staging root path.
func (w *world) stagingRootKind() string {
	info, err := os.Lstat(w.staging)
	switch {
	case err != nil:
		return "none"
	case info.Mode()&os.ModeSymlink != 0:
		return "link"
	case info.IsDir():
		return "dir"
	case info.Mode().IsRegular():
		return "file"
	}
	return "other"
}

// stagingPrefixLink reports whether a two-character entry of a real staging root
// directory is a symbolic link (lstat only).
func (w *world) stagingPrefixLink() bool {
	if w.stagingRootKind() != "dir" {
		return false
	}
	entries, _ := os.ReadDir(w.staging)
	for _, e := range entries {
		if len(e.Name()) == 2 && e.Type()&os.ModeSymlink != 0 {
			return true
		}
	}
	return false
}

func (w *world) close() {
	if w.ep != nil && !w.hung {
		done := make(chan struct{})
		go func() { w.ep.Shutdown(); close(done) }()
		select {
		case <-done:
		case <-time.After(callTimeout):
		}
	}
	os.RemoveAll(w.dir)
	os.RemoveAll(w.staging)
	os.Remove(filepath.Join(filepath.Dir(filepath.Dir(w.staging)), "caches", w.sid+"_alpha"))
	os.Remove(filepath.Join(filepath.Dir(filepath.Dir(w.staging)), "caches", w.sid+"_beta"))
}

// guard runs f under the call watchdog.
func (w *world) guard(f func()) bool {
	done := make(chan struct{})
	go func() { defer close(done); f() }()
	select {
	case <-done:
		return true
	case <-time.After(callTimeout):
		w.hung = true
		return false
	}
}

// extWrite writes a file the way an external process would, with a strictly
// increasing fake modification time so that the change is visible to a scan by
// construction (size or mtime differs).
func (w *world) extWrite(rel string, data []byte) error {
	p := filepath.Join(w.root, filepath.FromSlash(rel))
	os.MkdirAll(filepath.Dir(p), 0o755)
	tmp := p + ".ext-tmp"
	if err := os.WriteFile(tmp, data, 0o644); err != nil {
		return err
	}
	if err := os.Rename(tmp, p); err != nil {
		os.Remove(tmp)
		return err
	}
	w.clock++
	t := time.Unix(1600000000+w.clock*3, 0)
	return os.Chtimes(p, t, t)
}

func (w *world) addPath(p string) {
	for _, q := range w.paths {
		if q == p {
			return
		}
	}
	w.paths = append(w.paths, p)
}

func (w *world) disk() map[string]any { return walkTreeSkip(w.root, w.skip) }
func (w *world) store() []any         { return walkStore(w.staging, w.paths) }

func joinPath(p []string) string { return strings.Join(p, "/") }

func encPaths(ps []string) []any {
	out := []any{}
	for _, p := range ps {
		out = append(out, splitPath(p))
	}
	return out
}

// ---------------------------------------------------------------------------
// the individual calls

func (w *world) doScan(rec map[string]any) *core.Snapshot {
	rec["disk0"] = w.disk()
	var snap *core.Snapshot
	var err error
	var retry bool
	ok := w.guard(func() { snap, err, retry = w.ep.Scan(context.Background(), nil, true) })
	rec["hang"] = !ok
	rec["err"] = errText(err)
	rec["retry"] = retry
	if ok && err == nil && snap != nil {
		rec["snap"] = vtree.Enc(snap.Content)
		rec["cnt"] = int(snap.Content.Count())
	} else {
		rec["snap"] = vtree.Enc(nil)
		rec["cnt"] = -1
	}
	return snap
}

func (w *world) doStage(rec map[string]any, paths []string, digests [][]byte, planned map[string][]byte) {
	w.doStageFault(rec, paths, digests, planned, nil)
}

func (w *world) doStageFault(rec map[string]any, paths []string, digests [][]byte, planned map[string][]byte, fault *faultSpec) {
	rec["fault"] = faultRecord(fault)
	for _, p := range paths {
		w.addPath(p)
	}
	reqEnc := []any{}
	for i, p := range paths {
		reqEnc = append(reqEnc, map[string]any{"path": splitPath(p), "d": hex.EncodeToString(digests[i]), "sz": len(planned[p])})
	}
	rec["req"] = reqEnc
	rec["sroot"] = w.stagingRootKind()
	rec["disk0"] = w.disk()
	rec["store0"] = w.store()
	// the real Stage filters its argument in place: hand it copies
	pc := append([]string{}, paths...)
	dc := make([][]byte, len(digests))
	for i := range digests {
		dc[i] = append([]byte{}, digests[i]...)
	}
	var ret []string
	var sigs []*rsync.Signature
	var recv rsync.Receiver
	var err error
	var ok bool
	w.withFault(fault, func() { ok = w.guard(func() { ret, sigs, recv, err = w.ep.Stage(pc, dc) }) })
	rec["hang"] = !ok
	rec["err"] = errText(err)
	ret = append([]string{}, ret...)
	rec["ret"] = encPaths(ret)
	sb := []any{}
	for _, s := range sigs {
		sb = append(sb, len(s.GetHashes()))
	}
	rec["sigs"] = sb
	rec["hasrecv"] = recv != nil
	rec["disk1"] = w.disk()
	rec["store1"] = w.store()
	if ok && err == nil {
		w.receiver, w.pending, w.sigs = recv, ret, sigs
		w.pendReq = planned
	}
}

// scriptDecoder is the harness side of rsync.DecodeToReceiver: it emits, per
// pending file, the transmissions the behaviour prescribes.
type scriptDecoder struct {
	queue []*rsync.Transmission
	abort bool // when the queue runs dry: fail instead of blocking
	sent  int
}

var errAbort = errors.New("transfer aborted by the harness")

func (d *scriptDecoder) Decode(t *rsync.Transmission) error {
	if len(d.queue) == 0 {
		return errAbort
	}
	q := d.queue[0]
	d.queue = d.queue[1:]
	if q == nil {
		return errAbort
	}
	t.ExpectedSize = q.ExpectedSize
	t.Operation = q.Operation
	t.Done = q.Done
	t.Error = q.Error
	d.sent++
	return nil
}

func (d *scriptDecoder) Finalize() error { return nil }

func cloneOp(o *rsync.Operation) *rsync.Operation {
	return &rsync.Operation{Data: append([]byte{}, o.Data...), Start: o.Start, Count: o.Count}
}

// transmissionsFor builds the message sequence for one file.
func transmissionsFor(kind string, target []byte, sig *rsync.Signature) []*rsync.Transmission {
	engine := rsync.NewEngine()
	var ops []*rsync.Operation
	for _, o := range engine.DeltifyBytes(target, sig, 0) {
		ops = append(ops, cloneOp(o))
	}
	done := &rsync.Transmission{Done: true}
	var out []*rsync.Transmission
	push := func(o *rsync.Operation) {
		t := &rsync.Transmission{Operation: o}
		if len(out) == 0 {
			t.ExpectedSize = uint64(len(target))
		}
		out = append(out, t)
	}
	switch kind {
	case "exact":
		for _, o := range ops {
			push(o)
		}
		out = append(out, done)
	case "split": // the exact content in many small operations: 700-byte data, single blocks
		for _, o := range ops {
			if len(o.Data) > 0 {
				for off := 0; off < len(o.Data); off += 700 {
					end := off + 700
					if end > len(o.Data) {
						end = len(o.Data)
					}
					push(&rsync.Operation{Data: append([]byte{}, o.Data[off:end]...)})
				}
			} else {
				for b := uint64(0); b < o.Count; b++ {
					push(&rsync.Operation{Start: o.Start + b, Count: 1})
				}
			}
		}
		out = append(out, done)
	case "corrupt": // flipped bytes
		flipped := false
		for _, o := range ops {
			if !flipped && len(o.Data) > 0 {
				o.Data[len(o.Data)/2] ^= 0x5a
				flipped = true
			}
			push(o)
		}
		if !flipped {
			push(&rsync.Operation{Data: []byte("corruption appended by the harness")})
		}
		out = append(out, done)
	case "truncated": // early done
		n := len(ops) / 2
		for _, o := range ops[:n] {
			push(o)
		}
		if len(ops) > 0 && n == 0 && len(ops[0].Data) > 1 {
			push(&rsync.Operation{Data: ops[0].Data[:len(ops[0].Data)/2]})
		}
		out = append(out, done)
	case "absent": // the source could not open the file
		out = append(out, &rsync.Transmission{Done: true, Error: "unable to open file: gone"})
	case "abort": // the stream dies in the middle of this file
		if len(ops) > 0 {
			push(ops[0])
		}
		out = append(out, nil)
	case "abort0": // the stream dies before this file
		out = append(out, nil)
	default:
		panic("unknown transfer kind " + kind)
	}
	return out
}

func (w *world) doRecv(rec map[string]any, kinds []string) { w.doRecvFault(rec, kinds, nil) }

func (w *world) doRecvFault(rec map[string]any, kinds []string, fault *faultSpec) {
	rec["fault"] = faultRecord(fault)
	rec["store0"] = w.store()
	rec["disk0"] = w.disk()
	plan := []any{}
	if w.receiver == nil {
		rec["pending"] = false
		rec["plan"] = plan
		rec["err"] = ""
		rec["hang"] = false
		rec["store1"] = rec["store0"]
		rec["disk1"] = rec["disk0"]
		return
	}
	rec["pending"] = true
	dec := &scriptDecoder{}
	for i, p := range w.pending {
		kind := "exact"
		if i < len(kinds) {
			kind = kinds[i]
		}
		target := w.pendReq[p]
		dec.queue = append(dec.queue, transmissionsFor(kind, target, w.sigs[i])...)
		plan = append(plan, map[string]any{"path": splitPath(p), "kind": kind, "d": sha1Bytes(target), "sz": len(target)})
		if kind == "abort" || kind == "abort0" {
			break
		}
	}
	rec["plan"] = plan
	var err error
	recv := w.receiver
	n := uint64(len(w.pending))
	var ok bool
	w.withFault(fault, func() { ok = w.guard(func() { err = rsync.DecodeToReceiver(dec, n, recv) }) })
	w.receiver, w.pending, w.sigs, w.pendReq = nil, nil, nil, nil
	rec["hang"] = !ok
	rec["err"] = errText(err)
	rec["store1"] = w.store()
	rec["disk1"] = w.disk()
}

func fileEntry(d []byte, x bool) *core.Entry {
	return &core.Entry{Kind: core.EntryKind_File, Digest: d, Executable: x}
}

func (w *world) entryFor(content string, dir map[string]string, x bool, base string) *core.Entry {
	if dir != nil {
		e := &core.Entry{Kind: core.EntryKind_Directory}
		if len(dir) > 0 {
			e.Contents = map[string]*core.Entry{}
		}
		for n, c := range dir {
			e.Contents[n] = fileEntry(digestOf(w.salt, c), false)
			w.addPath(base + "/" + n)
		}
		return e
	}
	if content == "" {
		return nil
	}
	return fileEntry(digestOf(w.salt, content), x)
}

func (w *world) doTrans(rec map[string]any, chg []chgSpec) {
	var changes []*core.Change
	for _, c := range chg {
		p := joinPath(c.Path)
		w.addPath(p)
		changes = append(changes, &core.Change{
			Path: p,
			Old:  w.entryFor(c.Old, c.OldDir, c.OldX, p),
			New:  w.entryFor(c.New, c.NewDir, c.NewX, p),
		})
	}
	w.runTransition(rec, changes)
}

func (w *world) runTransition(rec map[string]any, changes []*core.Change) {
	rec["chg"] = vtree.EncChanges(changes)
	rec["disk0"] = w.disk()
	rec["store0"] = w.store()
	var results []*core.Entry
	var problems []*core.Problem
	var missing bool
	var err error
	ok := w.guard(func() { results, problems, missing, err = w.ep.Transition(context.Background(), changes) })
	rec["hang"] = !ok
	rec["err"] = errText(err)
	res := []any{}
	for _, r := range results {
		res = append(res, vtree.Enc(r))
	}
	rec["results"] = res
	pr := []any{}
	for _, p := range problems {
		pr = append(pr, map[string]any{"path": splitPath(p.Path), "err": ascii(p.Error)})
	}
	rec["problems"] = pr
	rec["missing"] = missing
	rec["disk1"] = w.disk()
	rec["store1"] = w.store()
}

// ---------------------------------------------------------------------------
// running one scripted case

func specToMap(cs *caseSpec) map[string]any {
	b, _ := json.Marshal(cs)
	var m map[string]any
	json.Unmarshal(b, &m)
	return m
}

func runCase(c *vlib.Ctx, cid string, cs *caseSpec) {
	contentUnit = cs.Unit
	defer func() { contentUnit = 0 }()
	maxFile := resolveMaxFile(cs)
	w, err := newWorldOpts(c, cs.Alpha, cs.Mode, cs.Max, core.SymbolicLinkMode_SymbolicLinkModePortable, cs.Salt,
		worldOpts{maxFile: maxFile, stageMode: cs.StageMode, fileMode: cs.FileMode, dirMode: cs.DirMode})
	if err != nil {
		vlib.Fatal("cannot create endpoint: %v", err)
	}
	defer w.close()
	var initPaths []string
	for p := range cs.Init {
		initPaths = append(initPaths, p)
	}
	sort.Strings(initPaths)
	for _, p := range initPaths {
		w.addPath(p)
		if err := w.extWrite(p, contentBytes(cs.Salt, cs.Init[p])); err != nil {
			vlib.Fatal("init write: %v", err)
		}
	}
	ro := cs.Alpha && (cs.Mode == "ows" || cs.Mode == "owr")
	c.Emit(map[string]any{"ev": "New", "cid": cid, "begin": true, "in": specToMap(cs),
		"max": cs.Max, "maxfile": maxFile, "stagemode": cs.StageMode, "filemode": int(cs.FileMode), "dirmode": int(cs.DirMode),
		"alpha": cs.Alpha, "mode": cs.Mode, "ro": ro, "disk1": w.disk()})
	interesting := false
	for i, op := range cs.Ops {
		rec := map[string]any{"ev": op.Op, "cid": cid, "i": i}
		switch op.Op {
		case "Scan":
			w.doScan(rec)
		case "Stage":
			var paths []string
			var digests [][]byte
			planned := map[string][]byte{}
			for _, r := range op.Req {
				p := joinPath(r.Path)
				paths = append(paths, p)
				digests = append(digests, digestOf(cs.Salt, r.C))
				planned[p] = contentBytes(cs.Salt, r.C)
			}
			w.doStageFault(rec, paths, digests, planned, op.Fault)
			if rec["err"] == "" && len(paths) > 0 {
				interesting = true
			}
		case "Recv":
			w.doRecvFault(rec, op.Kinds, op.Fault)
		case "Trans":
			w.doTrans(rec, op.Chg)
			if rec["err"] == "" {
				interesting = true
			}
		case "Restart":
			how, plant := op.How, op.Plant
			if how == "" {
				how = "shutdown"
			}
			if plant == "" {
				plant = "keep"
			}
			rec["how"], rec["plant"] = how, plant
			if err := w.restart(how, plant); err != nil {
				vlib.Fatal("restart: %v", err)
			}
			rec["sroot"] = w.stagingRootKind()
			rec["disk1"] = w.disk()
			rec["store1"] = w.store()
		case "ExtWrite":
			p := joinPath(op.Path)
			w.addPath(p)
			rec["ev"] = "Ext"
			rec["what"] = "write"
			rec["path"] = op.Path
			rec["d"] = sha1Bytes(contentBytes(cs.Salt, op.C))
			if err := w.extWrite(p, contentBytes(cs.Salt, op.C)); err != nil {
				rec["failed"] = true
			}
			rec["disk1"] = w.disk()
		case "ExtRemove":
			rec["ev"] = "Ext"
			rec["what"] = "remove"
			rec["path"] = op.Path
			rec["d"] = ""
			os.RemoveAll(filepath.Join(w.root, filepath.FromSlash(joinPath(op.Path))))
			rec["disk1"] = w.disk()
		default:
			vlib.Fatal("unknown op %q", op.Op)
		}
		c.Emit(rec)
		if w.hung {
			break
		}
	}
	c.Eval()
	c.TraceDone()
	if interesting {
		c.NonTrivial(cid + fmt.Sprint(specToMap(cs)))
	}
}

var _ = io.EOF
