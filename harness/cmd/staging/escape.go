// C17: operations whose path goes through an in-root symbolic link pointing at
// a canary directory outside the root. Each case builds a real root and a
// canary holding mirrors of the root's levels (same names, same contents, same
// mtimes), watches the canary with inotify and the independent walker, and
// runs the real endpoint operations (Scan = core.Scan, Stage + receiver,
// Supply = rsync.Transmit, Transition = core.Transition). Matrix scenarios
// come from PathWalk.tla via --behaviours; random roots are seeded.
package main

import (
	"context"
	"encoding/hex"
	"fmt"
	"math/rand"
	"os"
	"path/filepath"
	"sort"
	"strings"
	"time"

	"github.com/mutagen-io/mutagen/pkg/synchronization/core"
	"github.com/mutagen-io/mutagen/pkg/synchronization/rsync"

	"verif/harness/internal/vlib"
	"verif/harness/internal/vtree"
)

type scenario struct {
	Op     string `json:"op"`
	Pos    int    `json:"pos"`
	Kind   string `json:"kind"`
	Moment string `json:"moment"`
	Form   string `json:"form"`
	Rand   int64  `json:"rand,omitempty"`  // != 0: a random-root case with this seed
	SMode  string `json:"smode,omitempty"` // staging-root scenarios: mutagen | neighboring | internal
	Pre    string `json:"pre,omitempty"`   // what already sits at the staging root path
}

func (s *scenario) toMap() map[string]any {
	if s.SMode != "" {
		return map[string]any{"op": s.Op, "smode": s.SMode, "pre": s.Pre}
	}
	m := map[string]any{"op": s.Op, "pos": s.Pos, "kind": s.Kind, "moment": s.Moment, "form": s.Form}
	if s.Rand != 0 {
		m["rand"] = s.Rand
	}
	return m
}

var fixedTime = time.Unix(1500000000, 0)

func writeFixed(p string, data []byte) {
	os.MkdirAll(filepath.Dir(p), 0o755)
	if err := os.WriteFile(p, data, 0o644); err != nil {
		vlib.Fatal("setup write %s: %v", p, err)
	}
	os.Chtimes(p, fixedTime, fixedTime)
}

// recordingEncoder is the harness end of rsync.NewEncodingReceiver: it notes
// what Supply / rsync.Transmit sent.
type recordingEncoder struct {
	files [][]any
	cur   []any
}

func (e *recordingEncoder) Encode(t *rsync.Transmission) error {
	nd, nb := 0, 0
	if t.Operation != nil {
		nd = len(t.Operation.Data)
		nb = int(t.Operation.Count)
	}
	e.cur = append(e.cur, map[string]any{"done": t.Done, "err": ascii(t.Error), "ndata": nd, "nblocks": nb})
	if t.Done {
		e.files = append(e.files, e.cur)
		e.cur = nil
	}
	return nil
}
func (e *recordingEncoder) Finalize() error { return nil }

// escapeWorld is a root + canary pair.
type escapeWorld struct {
	w      *world
	base   string
	canary string
}

func linkTarget(form, linkPath, target string) string {
	if form == "abs" {
		return target
	}
	rel, err := filepath.Rel(filepath.Dir(linkPath), target)
	if err != nil {
		return target
	}
	return rel
}

// replaceByLink removes whatever is at p and puts a symbolic link there.
func replaceByLink(p, target string) {
	os.RemoveAll(p)
	if err := os.Symlink(target, p); err != nil {
		vlib.Fatal("symlink %s: %v", p, err)
	}
}

func (ew *escapeWorld) supply(paths []string) (string, []any) {
	enc := &recordingEncoder{}
	recv := rsync.NewEncodingReceiver(enc)
	sigs := make([]*rsync.Signature, len(paths))
	for i := range sigs {
		sigs[i] = &rsync.Signature{}
	}
	var err error
	ew.w.guard(func() { err = ew.w.ep.Supply(paths, sigs, recv) })
	out := []any{}
	for _, f := range enc.files {
		out = append(out, f)
	}
	for len(out) < len(paths) {
		out = append(out, []any{})
	}
	return errText(err), out
}

func stagedPaths(store []any) map[string]bool {
	m := map[string]bool{}
	for _, s := range store {
		sm := s.(map[string]any)
		if p, ok := sm["p"].([]string); ok {
			m[strings.Join(p, "/")] = true
		}
	}
	return m
}

// stageAndReceive stages the paths with new contents and feeds exact deltas;
// between is called after Stage returned and before the reception starts.
func (ew *escapeWorld) stageAndReceive(paths []string, contents [][]byte, between func()) map[string]any {
	w := ew.w
	digests := make([][]byte, len(paths))
	planned := map[string][]byte{}
	for i, p := range paths {
		d, _ := hex.DecodeString(sha1Bytes(contents[i]))
		digests[i] = d
		planned[p] = contents[i]
	}
	srec := map[string]any{}
	w.doStage(srec, paths, digests, planned)
	ret := append([]string{}, w.pending...)
	if between != nil {
		between()
	}
	rrec := map[string]any{}
	w.doRecv(rrec, nil)
	staged := stagedPaths(w.store())
	st := []any{}
	for _, p := range ret {
		st = append(st, staged[p])
	}
	return map[string]any{"req": encPaths(paths), "err": srec["err"], "ret": encPaths(ret), "sigs": srec["sigs"],
		"staged": st, "recverr": rrec["err"]}
}

// runStagingScenario: something already sits at the staging root path (a link to a
// directory outside or inside the root, to a file, to nothing; a regular file; a
// leftover directory, possibly with prefix entries that are links) when the store
// is first used. Stage, reception, Transition and Shutdown follow as far as the
// scenario's operation says.
func runStagingScenario(c *vlib.Ctx, sc *scenario) {
	sm := map[string]string{"mutagen": "", "neighboring": "neighboring", "internal": "internal"}[sc.SMode]
	w, err := newWorldOpts(c, false, "tws", Unlimited, core.SymbolicLinkMode_SymbolicLinkModePortable, 11,
		worldOpts{maxFile: Unlimited, stageMode: sm})
	if err != nil {
		vlib.Fatal("cannot create endpoint: %v", err)
	}
	defer w.close()
	canary := filepath.Join(w.dir, "canary")
	A, X := contentBytes(11, "c1"), contentBytes(11, "c2")
	writeFixed(filepath.Join(w.root, "a"), A)
	writeFixed(filepath.Join(w.root, "in", "keep"), []byte("inside"))
	writeFixed(filepath.Join(canary, "S", "keep"), []byte("outside staging look-alike"))
	writeFixed(filepath.Join(canary, "P", "keep"), []byte("outside prefix look-alike"))
	writeFixed(filepath.Join(canary, "X"), []byte("a plain file in the canary"))
	for _, p := range []string{"a", "n", "in/keep"} {
		w.addPath(p)
	}
	xd, _ := hex.DecodeString(sha1Bytes(X))
	link := func(target, at string) {
		if err := os.Symlink(target, at); err != nil {
			vlib.Fatal("plant %s: %v", at, err)
		}
	}
	switch sc.Pre {
	case "absent":
	case "dir":
		os.Mkdir(w.staging, 0o700)
	case "link_out":
		link(filepath.Join(canary, "S"), w.staging)
	case "link_in":
		link(filepath.Join(w.root, "in"), w.staging)
	case "link_file":
		link(filepath.Join(canary, "X"), w.staging)
	case "dangling":
		link(filepath.Join(canary, "nowhere"), w.staging)
	case "file":
		os.WriteFile(w.staging, []byte("not a directory"), 0o600)
	case "prefix_link":
		os.Mkdir(w.staging, 0o700)
		link(filepath.Join(canary, "P"), filepath.Join(w.staging, hex.EncodeToString(xd[:1])))
		link(filepath.Join(canary, "P"), filepath.Join(w.staging, "00"))
	default:
		vlib.Fatal("unknown staging pre-state %q", sc.Pre)
	}
	rec := map[string]any{"ev": "Escape", "in": sc.toMap()}
	rec["canary0"] = metaList(canary)
	watch, err := watchCanary(canary)
	if err != nil {
		vlib.Fatal("inotify: %v", err)
	}
	srec := map[string]any{}
	w.doScan(srec)
	rec["scanDisk"], rec["scanErr"], rec["snap"] = srec["disk0"], srec["err"], srec["snap"]
	rec["disk0"] = w.disk()
	rec["sroot0"] = map[string]any{"kind": w.stagingRootKind(), "prefixLink": w.stagingPrefixLink()}
	stage := map[string]any{}
	w.doStage(stage, []string{"n"}, [][]byte{xd}, map[string][]byte{"n": X})
	ret := append([]string{}, w.pending...)
	staged := []any{}
	recvErr := ""
	if sc.Op != "stage_init" {
		rrec := map[string]any{}
		w.doRecv(rrec, nil)
		recvErr, _ = rrec["err"].(string)
	}
	have := stagedPaths(w.store())
	for _, p := range ret {
		staged = append(staged, have[p])
	}
	rec["stage"] = map[string]any{"req": encPaths([]string{"n"}), "err": stage["err"], "ret": encPaths(ret), "sigs": stage["sigs"],
		"staged": staged, "recverr": recvErr}
	if sc.Op == "stage_finalize" {
		trec := map[string]any{}
		w.runTransition(trec, []*core.Change{{Path: "n", New: fileEntry(xd, false)}})
		rec["trans"] = map[string]any{"chg": trec["chg"], "err": trec["err"], "results": trec["results"],
			"problems": trec["problems"], "missing": trec["missing"]}
		rec["disk1"] = trec["disk1"]
		ep := w.ep
		w.guard(func() { ep.Shutdown() })
		w.ep = nil
	}
	rec["sroot1"] = map[string]any{"kind": w.stagingRootKind(), "prefixLink": w.stagingPrefixLink()}
	rec["hang"] = w.hung
	rec["events"] = watch.drain()
	rec["canary1"] = metaList(canary)
	c.Emit(rec)
	c.Eval()
	if sc.Pre != "absent" && sc.Pre != "dir" {
		c.NonTrivial(fmt.Sprint(sc.toMap()))
	}
}

func runScenario(c *vlib.Ctx, sc *scenario) {
	if sc.SMode != "" {
		runStagingScenario(c, sc)
		return
	}
	if sc.Rand != 0 {
		runRandomEscape(c, sc)
		return
	}
	mode := core.SymbolicLinkMode_SymbolicLinkModePOSIXRaw
	if sc.Form == "rel" {
		mode = core.SymbolicLinkMode_SymbolicLinkModePortable
	}
	w, err := newWorld(c, false, "tws", Unlimited, mode, 7)
	if err != nil {
		vlib.Fatal("cannot create endpoint: %v", err)
	}
	defer w.close()
	ew := &escapeWorld{w: w, base: w.dir, canary: filepath.Join(w.dir, "canary")}
	T, G, F, H, X := contentBytes(7, "top"), contentBytes(7, "g"), contentBytes(7, "f"), contentBytes(7, "h"), contentBytes(7, "x")
	for _, base := range []string{w.root, filepath.Join(ew.canary, "R")} {
		writeFixed(filepath.Join(base, "top"), T)
		writeFixed(filepath.Join(base, "a", "g"), G)
		writeFixed(filepath.Join(base, "a", "b", "f"), F)
		writeFixed(filepath.Join(base, "a", "b", "h"), H)
	}
	writeFixed(filepath.Join(ew.canary, "A", "g"), G)
	writeFixed(filepath.Join(ew.canary, "A", "b", "f"), F)
	writeFixed(filepath.Join(ew.canary, "A", "b", "h"), H)
	writeFixed(filepath.Join(ew.canary, "B", "f"), F)
	writeFixed(filepath.Join(ew.canary, "B", "h"), H)
	writeFixed(filepath.Join(ew.canary, "F"), F)
	writeFixed(filepath.Join(ew.canary, "X"), []byte("a plain file in the canary"))

	// the operation's path and the place of the link
	leaf := "a/b/f"
	switch sc.Op {
	case "tr_create_file":
		leaf = "a/b/n"
	case "tr_create_dir":
		leaf = "a/b/nd"
	case "tr_create_link":
		leaf = "a/b/l"
	}
	opPath := leaf
	if sc.Op == "tr_remove_dir" {
		opPath = "a/b"
	}
	linkAt := ""
	mirror := ""
	switch sc.Pos {
	case 0:
		linkAt, mirror = w.root, filepath.Join(ew.canary, "R")
	case 1:
		linkAt, mirror = filepath.Join(w.root, "a"), filepath.Join(ew.canary, "A")
	case 2:
		linkAt, mirror = filepath.Join(w.root, "a", "b"), filepath.Join(ew.canary, "B")
	case 3:
		linkAt, mirror = filepath.Join(w.root, filepath.FromSlash(leaf)), filepath.Join(ew.canary, "F")
	}
	target := mirror
	switch sc.Kind {
	case "file":
		target = filepath.Join(ew.canary, "X")
	case "dangling":
		target = filepath.Join(ew.canary, "missing", "none")
	}
	place := func() {
		if sc.Pos >= 0 {
			replaceByLink(linkAt, linkTarget(sc.Form, linkAt, target))
		}
	}
	for _, p := range []string{"top", "a/g", "a/b/f", "a/b/h", leaf, leaf + "/x", "copy"} {
		w.addPath(p)
	}

	rec := map[string]any{"ev": "Escape", "in": sc.toMap()}
	if sc.Moment == "static" {
		place()
	}
	rec["canary0"] = metaList(ew.canary)
	watch, err := watchCanary(ew.canary)
	if err != nil {
		vlib.Fatal("inotify: %v", err)
	}

	// every case scans first
	srec := map[string]any{}
	snap := w.doScan(srec)
	rec["scanDisk"] = srec["disk0"]
	rec["scanErr"] = srec["err"]
	rec["snap"] = srec["snap"]
	_ = snap

	fd, _ := hex.DecodeString(sha1Bytes(F))
	xd, _ := hex.DecodeString(sha1Bytes(X))
	hd, _ := hex.DecodeString(sha1Bytes(H))
	swapNow := func() {
		if sc.Moment == "swap" {
			place()
		}
	}
	switch sc.Op {
	case "scan":
		rec["disk0"] = srec["disk0"]
	case "supply":
		swapNow()
		rec["disk0"] = w.disk()
		e, tx := ew.supply([]string{opPath})
		rec["supply"] = map[string]any{"paths": encPaths([]string{opPath}), "err": e, "tx": tx}
	case "stage_base":
		swapNow()
		var mid func()
		if sc.Moment == "mid" {
			mid = place
		} else {
			rec["disk0"] = w.disk()
		}
		st := ew.stageAndReceive([]string{opPath}, [][]byte{X}, mid)
		if sc.Moment == "mid" {
			rec["disk0"] = w.disk()
		}
		rec["stage"] = st
	case "stage_copy":
		swapNow()
		rec["disk0"] = w.disk()
		srec2 := map[string]any{}
		w.doStage(srec2, []string{"copy"}, [][]byte{fd}, map[string][]byte{"copy": F})
		rec["copy"] = map[string]any{"src": splitPath("a/b/f"), "reqpath": splitPath("copy"), "err": srec2["err"], "ret": srec2["ret"]}
	default: // transitions
		var chg []*core.Change
		switch sc.Op {
		case "tr_create_file":
			ew.stageAndReceive([]string{opPath}, [][]byte{X}, nil)
			chg = []*core.Change{{Path: opPath, New: fileEntry(xd, false)}}
		case "tr_create_dir":
			ew.stageAndReceive([]string{opPath + "/x"}, [][]byte{X}, nil)
			chg = []*core.Change{{Path: opPath, New: &core.Entry{Kind: core.EntryKind_Directory,
				Contents: map[string]*core.Entry{"x": fileEntry(xd, false)}}}}
		case "tr_create_link":
			chg = []*core.Change{{Path: opPath, New: &core.Entry{Kind: core.EntryKind_SymbolicLink, Target: "f"}}}
		case "tr_remove_file":
			chg = []*core.Change{{Path: opPath, Old: fileEntry(fd, false)}}
		case "tr_remove_dir":
			chg = []*core.Change{{Path: opPath, Old: &core.Entry{Kind: core.EntryKind_Directory,
				Contents: map[string]*core.Entry{"f": fileEntry(fd, false), "h": fileEntry(hd, false)}}}}
		case "tr_swap":
			ew.stageAndReceive([]string{opPath}, [][]byte{X}, nil)
			chg = []*core.Change{{Path: opPath, Old: fileEntry(fd, false), New: fileEntry(xd, false)}}
		default:
			vlib.Fatal("unknown scenario op %q", sc.Op)
		}
		swapNow()
		rec["disk0"] = w.disk()
		trec := map[string]any{}
		w.runTransition(trec, chg)
		rec["trans"] = map[string]any{"chg": trec["chg"], "err": trec["err"], "results": trec["results"],
			"problems": trec["problems"], "missing": trec["missing"]}
		rec["disk1"] = trec["disk1"]
	}
	rec["hang"] = w.hung
	rec["events"] = watch.drain()
	rec["canary1"] = metaList(ew.canary)
	c.Emit(rec)
	c.Eval()
	if sc.Pos >= 0 {
		c.NonTrivial(fmt.Sprint(sc.toMap()))
	}
}

// ---------------------------------------------------------------------------
// random roots full of links

type rnode struct {
	path  string
	dir   bool
	data  []byte
	entry *core.Entry
}

func runRandomEscape(c *vlib.Ctx, sc *scenario) {
	r := rand.New(rand.NewSource(sc.Rand))
	mode := core.SymbolicLinkMode_SymbolicLinkModePOSIXRaw
	if r.Intn(2) == 0 {
		mode = core.SymbolicLinkMode_SymbolicLinkModePortable
	}
	w, err := newWorld(c, false, "tws", Unlimited, mode, sc.Rand)
	if err != nil {
		vlib.Fatal("cannot create endpoint: %v", err)
	}
	defer w.close()
	canary := filepath.Join(w.dir, "canary")
	mirror := filepath.Join(canary, "M")
	os.MkdirAll(mirror, 0o755)
	// a random tree, built identically in the root and in the mirror
	var nodes []*rnode
	var build func(prefix string, depth int)
	seq := 0
	build = func(prefix string, depth int) {
		n := 1 + r.Intn(4)
		for i := 0; i < n; i++ {
			seq++
			name := fmt.Sprintf("%c%d", 'a'+rune(r.Intn(6)), seq)
			p := name
			if prefix != "" {
				p = prefix + "/" + name
			}
			if depth < 3 && r.Intn(3) == 0 {
				os.MkdirAll(filepath.Join(w.root, filepath.FromSlash(p)), 0o755)
				os.MkdirAll(filepath.Join(mirror, filepath.FromSlash(p)), 0o755)
				nodes = append(nodes, &rnode{path: p, dir: true})
				build(p, depth+1)
			} else {
				data := contentBytes(sc.Rand, fmt.Sprintf("r%d", r.Intn(5)))
				writeFixed(filepath.Join(w.root, filepath.FromSlash(p)), data)
				writeFixed(filepath.Join(mirror, filepath.FromSlash(p)), data)
				nodes = append(nodes, &rnode{path: p, data: data})
				w.addPath(p)
			}
		}
	}
	build("", 0)
	writeFixed(filepath.Join(canary, "X"), []byte("plain"))

	rec := map[string]any{"ev": "Escape", "in": sc.toMap()}
	static := r.Intn(3) == 0
	// pristine scan: the entries a controller would know
	pre := map[string]any{}
	snap := w.doScan(pre)
	if snap == nil || snap.Content == nil {
		vlib.Fatal("pristine scan failed: %v", pre["err"])
	}
	entryAt := func(p string) *core.Entry {
		e := snap.Content
		for _, comp := range strings.Split(p, "/") {
			if e == nil {
				return nil
			}
			e = e.Contents[comp]
		}
		return e
	}
	// replace some nodes by links into the canary
	nlinks := 1 + r.Intn(4)
	linked := map[string]bool{}
	for i := 0; i < nlinks; i++ {
		n := nodes[r.Intn(len(nodes))]
		under := false
		for q := range linked {
			if n.path == q || strings.HasPrefix(n.path, q+"/") {
				under = true
			}
		}
		if under {
			continue
		}
		full := filepath.Join(w.root, filepath.FromSlash(n.path))
		target := filepath.Join(mirror, filepath.FromSlash(n.path))
		switch r.Intn(6) {
		case 0:
			target = filepath.Join(canary, "X")
		case 1:
			target = filepath.Join(canary, "nowhere")
		}
		form := []string{"abs", "rel"}[r.Intn(2)]
		replaceByLink(full, linkTarget(form, full, target))
		linked[n.path] = true
	}
	rec["canary0"] = metaList(canary)
	watch, err := watchCanary(canary)
	if err != nil {
		vlib.Fatal("inotify: %v", err)
	}
	if static {
		srec := map[string]any{}
		w.doScan(srec)
		rec["scanDisk"], rec["scanErr"], rec["snap"] = srec["disk0"], srec["err"], srec["snap"]
	} else {
		rec["scanDisk"], rec["scanErr"], rec["snap"] = pre["disk0"], pre["err"], pre["snap"]
	}
	rec["disk0"] = w.disk()

	// supply every original file
	var files []string
	for _, n := range nodes {
		if !n.dir {
			files = append(files, n.path)
		}
	}
	sort.Strings(files)
	e, tx := (&escapeWorld{w: w}).supply(files)
	rec["supply"] = map[string]any{"paths": encPaths(files), "err": e, "tx": tx}

	// plan disjoint changes; stage what they need
	var chg []*core.Change
	var stagePaths []string
	var stageData [][]byte
	used := func(p string) bool {
		for _, c := range chg {
			if c.Path == p || strings.HasPrefix(c.Path, p+"/") || strings.HasPrefix(p, c.Path+"/") {
				return true
			}
		}
		return false
	}
	X := contentBytes(sc.Rand, "newx")
	xd, _ := hex.DecodeString(sha1Bytes(X))
	perm := r.Perm(len(nodes))
	for _, i := range perm {
		n := nodes[i]
		if len(chg) >= 6 || used(n.path) {
			continue
		}
		old := entryAt(n.path)
		if old == nil {
			continue
		}
		switch k := r.Intn(4); {
		case n.dir && k == 0: // create a file inside the directory
			p := n.path + "/new"
			w.addPath(p)
			chg = append(chg, &core.Change{Path: p, New: fileEntry(xd, false)})
			stagePaths, stageData = append(stagePaths, p), append(stageData, X)
		case n.dir && k == 1: // create a directory with a file inside
			p := n.path + "/newdir"
			w.addPath(p + "/x")
			chg = append(chg, &core.Change{Path: p, New: &core.Entry{Kind: core.EntryKind_Directory,
				Contents: map[string]*core.Entry{"x": fileEntry(xd, false)}}})
			stagePaths, stageData = append(stagePaths, p+"/x"), append(stageData, X)
		case !n.dir && k <= 1: // swap
			chg = append(chg, &core.Change{Path: n.path, Old: old, New: fileEntry(xd, false)})
			stagePaths, stageData = append(stagePaths, n.path), append(stageData, X)
		default: // remove
			chg = append(chg, &core.Change{Path: n.path, Old: old})
		}
	}
	if !static {
		// the flags of the pristine scan are still up
	}
	if len(stagePaths) > 0 {
		rec["stage"] = (&escapeWorld{w: w}).stageAndReceive(stagePaths, stageData, nil)
	}
	trec := map[string]any{}
	w.runTransition(trec, chg)
	rec["trans"] = map[string]any{"chg": trec["chg"], "err": trec["err"], "results": trec["results"],
		"problems": trec["problems"], "missing": trec["missing"]}
	rec["disk1"] = trec["disk1"]
	rec["hang"] = w.hung
	rec["events"] = watch.drain()
	rec["canary1"] = metaList(canary)
	c.Emit(rec)
	c.Eval()
	c.NonTrivial(fmt.Sprintf("rand%d", sc.Rand))
}

func runEscape(c *vlib.Ctx) error {
	seen := map[string]bool{}
	n := 0
	for _, b := range c.ReadBehaviours() {
		sc := &scenario{Op: asString(b["op"]), Pos: asInt(b["pos"]), Kind: asString(b["kind"]),
			Moment: asString(b["moment"]), Form: asString(b["form"]), SMode: asString(b["smode"]), Pre: asString(b["pre"])}
		key := fmt.Sprint(sc.toMap())
		if seen[key] {
			continue
		}
		seen[key] = true
		runScenario(c, sc)
		n++
		if n%80 == 1 {
			c.Sample(sc.toMap())
		}
	}
	c.SetExtra("matrix_scenarios", n)
	c.SetExhaustive(n > 0)
	nrand := 80
	if c.Thorough() {
		nrand = 2500
	}
	for i := 0; i < nrand; i++ {
		runScenario(c, &scenario{Op: "random", Pos: -2, Kind: "mixed", Moment: "mixed", Form: "mixed", Rand: c.Seed*1000003 + int64(i) + 1})
	}
	c.SetExtra("random_roots", nrand)
	return nil
}

var _ = context.Background
var _ = vtree.Enc
