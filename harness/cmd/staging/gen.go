// Case generation for C10 / C41: (1) behaviours simulated by TLC from
// Staging.tla (passed with --behaviours), (2) every call-order sequence up to a
// length bound over {Scan, Stage (+ exact receive), StageEmpty, Trans}, (3) seeded random
// scripts on larger roots (sub-directories, copies, pre-staged content,
// limits, bad transfers, edits between scan and stage/transition).
package main

import (
	"fmt"
	"math/rand"
	"sort"
	"strings"

	"github.com/mutagen-io/mutagen/pkg/synchronization"

	"verif/harness/internal/vlib"
)

// runSubset feeds the controller's check of Stage's answer (safety.go
// filteredPathsAreSubset, exported under the verif tag) with every pair of
// sequences over three names up to length 3.
func runSubset(c *vlib.Ctx) {
	names := []string{"x", "y", "z"}
	var seqs [][]string
	var rec func(prefix []string)
	rec = func(prefix []string) {
		seqs = append(seqs, append([]string{}, prefix...))
		if len(prefix) == 3 {
			return
		}
		for _, n := range names {
			rec(append(append([]string{}, prefix...), n))
		}
	}
	rec(nil)
	first := true
	for _, f := range seqs {
		for _, o := range seqs {
			out := synchronization.VerifFilteredPathsAreSubset(append([]string{}, f...), append([]string{}, o...))
			r := map[string]any{"ev": "Subset", "cid": "C41-subset", "filtered": append([]string{}, f...), "original": append([]string{}, o...), "out": out}
			if first {
				r["begin"] = true
				r["in"] = map[string]any{"subset": true}
				first = false
			}
			c.Emit(r)
		}
	}
	c.Eval()
	c.SetExtra("subset_pairs", len(seqs)*len(seqs))
}

func asString(v any) string {
	s, _ := v.(string)
	return s
}

func asPath(v any) []string {
	arr, _ := v.([]any)
	out := []string{}
	for _, x := range arr {
		out = append(out, asString(x))
	}
	return out
}

func asInt(v any) int {
	switch t := v.(type) {
	case float64:
		return int(t)
	case int:
		return t
	case interface{ Int64() (int64, error) }:
		n, _ := t.Int64()
		return int(n)
	}
	return 0
}

func asStrMap(v any) map[string]string {
	m, ok := v.(map[string]any)
	if !ok {
		return nil
	}
	out := map[string]string{}
	for k, x := range m {
		out[k] = asString(x)
	}
	return out
}

// fromModel converts one behaviour exported by Staging_Sim into a case.
func fromModel(b map[string]any, idx int, salt int64) *caseSpec {
	cs := &caseSpec{Init: map[string]string{}, Src: "model", Salt: salt}
	if m := asStrMap(b["init"]); m != nil {
		cs.Init = m
	}
	cs.Max = asInt(b["max"])
	cs.Unit = 3000
	if mf := asInt(b["maxfile"]); mf > 0 || b["maxfile"] != nil {
		if mf < Unlimited {
			cs.MaxFile = fmt.Sprintf("u:%d", mf)
		}
	}
	cs.StageMode = []string{"", "neighboring", "internal"}[idx%3]
	ro, _ := b["ro"].(bool)
	if ro {
		cs.Alpha = true
		cs.Mode = []string{"ows", "owr"}[idx%2]
	} else {
		combos := []struct {
			a bool
			m string
		}{{false, "tws"}, {true, "tws"}, {false, "ows"}, {true, "twr"}, {false, "owr"}}
		k := combos[idx%len(combos)]
		cs.Alpha, cs.Mode = k.a, k.m
	}
	ops, _ := b["ops"].([]any)
	for _, o := range ops {
		m, _ := o.(map[string]any)
		if m == nil {
			continue
		}
		op := opSpec{Op: asString(m["op"])}
		if op.Op == "Noop" {
			continue
		}
		if fm, _ := m["fault"].(map[string]any); fm != nil && asString(fm["step"]) != "none" {
			op.Fault = &faultSpec{Step: asString(fm["step"]), How: asString(fm["how"])}
		}
		switch op.Op {
		case "Restart":
			op.Plant = asString(m["plant"])
			op.How = []string{"shutdown", "drop"}[idx%2]
		case "Stage":
			rs, _ := m["req"].([]any)
			for _, r := range rs {
				rm, _ := r.(map[string]any)
				op.Req = append(op.Req, reqSpec{Path: asPath(rm["path"]), C: asString(rm["c"])})
			}
		case "Recv":
			ks, _ := m["kinds"].([]any)
			for _, k := range ks {
				op.Kinds = append(op.Kinds, asString(k))
			}
		case "Trans":
			cg, _ := m["chg"].([]any)
			for _, x := range cg {
				xm, _ := x.(map[string]any)
				op.Chg = append(op.Chg, chgSpec{Path: asPath(xm["path"]), Old: asString(xm["old"]), New: asString(xm["new"])})
			}
		case "ExtWrite":
			op.Path = asPath(m["path"])
			op.C = asString(m["c"])
		case "ExtRemove":
			op.Path = asPath(m["path"])
		}
		cs.Ops = append(cs.Ops, op)
	}
	return cs
}

// protoCases enumerates every sequence of length 1..n over the call alphabet.
func protoCases(n int, salt int64) []*caseSpec {
	alphabet := []string{"Scan", "Stage", "StageEmpty", "Trans"}
	var out []*caseSpec
	var rec func(prefix []string)
	rec = func(prefix []string) {
		if len(prefix) > 0 {
			cs := &caseSpec{Init: map[string]string{"a": "c1"}, Max: Unlimited, Mode: "tws", Src: "proto", Salt: salt}
			lastStage := -1
			for i, s := range prefix {
				switch s {
				case "Scan":
					cs.Ops = append(cs.Ops, opSpec{Op: "Scan"})
				case "Stage":
					lastStage = i
					cs.Ops = append(cs.Ops, opSpec{Op: "Stage", Req: []reqSpec{{Path: []string{fmt.Sprintf("n%d", i)}, C: "c2"}}})
					cs.Ops = append(cs.Ops, opSpec{Op: "Recv", Kinds: []string{"exact"}})
				case "StageEmpty":
					cs.Ops = append(cs.Ops, opSpec{Op: "Stage"})
				case "Trans":
					k := lastStage
					if k < 0 {
						k = i
					}
					cs.Ops = append(cs.Ops, opSpec{Op: "Trans", Chg: []chgSpec{{Path: []string{fmt.Sprintf("n%d", k)}, New: "c2"}}})
				}
			}
			out = append(out, cs)
		}
		if len(prefix) == n {
			return
		}
		for _, a := range alphabet {
			rec(append(append([]string{}, prefix...), a))
		}
	}
	rec(nil)
	return out
}

// faultCases: genuine I/O faults on the staging files (RLIMIT_FSIZE: the crossing
// write is cut short, the next fails with EFBIG; or the rename into the store
// fails) for files that fit into the store's 64 KiB write buffer (only the final
// flush inside Commit touches the disk) and for a 150 000 byte file (two
// intermediate flushes, then the final one), transferred or copied from the root.
func faultCases(salt int64) []*caseSpec {
	var out []*caseSpec
	type fc struct {
		content string
		faults  []*faultSpec
	}
	small := len(contentBytes(salt, "c2"))
	table := []fc{
		{"c2", []*faultSpec{{FSize: small - 1}, {FSize: small / 2}, {FSize: 4096}, {Rename: true}, {FSize: small}}},
		{"big", []*faultSpec{{FSize: 30000}, {FSize: 65536}, {FSize: 100000}, {FSize: 131072}, {FSize: 140000}, {FSize: 149999}, {Rename: true}, {FSize: 150000}}},
	}
	stageModes := []string{"", "neighboring", "internal"}
	n := 0
	for _, t := range table {
		for _, f := range t.faults {
			for _, src := range []string{"new", "swap", "copy"} {
				for _, kind := range []string{"exact", "split"} {
					if src == "copy" && kind == "split" {
						continue
					}
					n++
					cs := &caseSpec{Init: map[string]string{"a": "c1"}, Max: Unlimited, Mode: "tws", Src: "fault", Salt: salt,
						StageMode: stageModes[n%3]}
					path := []string{"n"}
					chg := chgSpec{Path: path, New: t.content}
					stage := opSpec{Op: "Stage"}
					recv := opSpec{Op: "Recv", Kinds: []string{kind}}
					switch src {
					case "new":
						recv.Fault = f
					case "swap":
						path = []string{"a"}
						chg = chgSpec{Path: path, Old: "c1", New: t.content}
						recv.Fault = f
					case "copy":
						cs.Init["b"] = t.content
						stage.Fault = f
					}
					stage.Req = []reqSpec{{Path: path, C: t.content}}
					cs.Ops = []opSpec{{Op: "Scan"}, stage, recv, {Op: "Trans", Chg: []chgSpec{chg}}}
					out = append(out, cs)
				}
			}
		}
	}
	return out
}

// restartCases: the endpoint object is replaced (same session, same data
// directory) after files were committed to staging and before the transition
// finalized the store - before the next Scan/Stage, or between Stage and
// Transition - under every staging mode, with the leftover staging root kept,
// emptied, or replaced by a file.
func restartCases(salt int64) []*caseSpec {
	var out []*caseSpec
	req := []reqSpec{{Path: []string{"n"}, C: "c2"}, {Path: []string{"a"}, C: "c3"}, {Path: []string{"d", "x"}, C: "c2"}}
	chg := []chgSpec{{Path: []string{"n"}, New: "c2"}, {Path: []string{"a"}, Old: "c1", New: "c3"}, {Path: []string{"d", "x"}, New: "c2"}}
	scan, stage, trans := opSpec{Op: "Scan"}, opSpec{Op: "Stage", Req: req}, opSpec{Op: "Trans", Chg: chg}
	recvAll := opSpec{Op: "Recv", Kinds: []string{"exact", "exact", "exact"}}
	recvPart := opSpec{Op: "Recv", Kinds: []string{"exact", "corrupt", "abort0"}}
	for _, sm := range []string{"", "neighboring", "internal"} {
		for _, how := range []string{"shutdown", "drop"} {
			for _, plant := range []string{"keep", "empty", "file"} {
				re := opSpec{Op: "Restart", How: how, Plant: plant}
				scripts := [][]opSpec{
					// resume: everything was received, the new endpoint stages the same request again
					{scan, stage, recvAll, re, scan, stage, recvAll, trans},
					// resume after a partial reception
					{scan, stage, recvPart, re, scan, stage, recvAll, scan, trans},
					// restart between Stage and Transition: the new endpoint has neither scanned nor staged
					{scan, stage, recvAll, re, trans, scan, trans, scan, stage, recvAll, trans},
					// two restarts in a row, staging repeated without a scan in between
					{scan, stage, recvAll, re, re, scan, stage, stage, recvAll, trans},
				}
				for _, ops := range scripts {
					out = append(out, &caseSpec{Init: map[string]string{"a": "c1", "d/y": "c4"}, Max: Unlimited, Mode: "tws",
						Src: "restart", Salt: salt, StageMode: sm, Ops: ops})
				}
			}
		}
	}
	return out
}

var transferKinds = []string{"exact", "exact", "split", "split", "corrupt", "truncated", "absent", "abort", "abort0"}

// limitCases: the staging file size limit against files that do and do not fit,
// for transfers onto an empty base ("new": one data operation carries the whole
// file), onto a base sharing a prefix ("swap": block operations then data) and
// for from-root copies ("copy"), with whole and finely split operations, under
// each staging mode.
func limitCases(salt int64) []*caseSpec {
	var out []*caseSpec
	forms := []string{"", "eq:c2", "m1:c2", "half:c2", "tiny", "blk", "inblk"}
	stageModes := []string{"", "neighboring", "internal"}
	fileModes := []uint32{0, 0o644, 0o640}
	n := 0
	for _, sm := range stageModes {
		for _, form := range forms {
			for _, src := range []string{"new", "swap", "copy"} {
				for _, kind := range []string{"exact", "split"} {
					if src == "copy" && kind == "split" {
						continue
					}
					n++
					cs := &caseSpec{Init: map[string]string{"a": "c1", "b": "c2"}, Max: Unlimited, Mode: "tws", Src: "limit", Salt: salt,
						MaxFile: form, StageMode: sm, FileMode: fileModes[n%3], DirMode: []uint32{0, 0o755}[n%2]}
					var req reqSpec
					var chg chgSpec
					switch src {
					case "new":
						req = reqSpec{Path: []string{"n"}, C: "c2"}
						delete(cs.Init, "b") // no copy source
						chg = chgSpec{Path: []string{"n"}, New: "c2"}
					case "swap":
						req = reqSpec{Path: []string{"a"}, C: "c2"}
						delete(cs.Init, "b")
						chg = chgSpec{Path: []string{"a"}, Old: "c1", New: "c2"}
					case "copy":
						req = reqSpec{Path: []string{"n"}, C: "c2"}
						chg = chgSpec{Path: []string{"n"}, New: "c2"}
					}
					cs.Ops = []opSpec{{Op: "Scan"}, {Op: "Stage", Req: []reqSpec{req}}, {Op: "Recv", Kinds: []string{kind}},
						{Op: "Trans", Chg: []chgSpec{chg}}}
					out = append(out, cs)
				}
			}
		}
	}
	return out
}

func randomFault(r *rand.Rand) *faultSpec {
	if r.Intn(4) == 0 {
		return &faultSpec{Rename: true}
	}
	return &faultSpec{FSize: []int{4000, 5000, 6500, 7000, 8000, 9000}[r.Intn(6)]}
}

// randomCase builds one seeded random script.
func randomCase(r *rand.Rand, salt int64) *caseSpec {
	contents := []string{"c1", "c2", "c3", "c4", "empty", "small"}
	topNames := []string{"a", "b", "c", "e", "g"}
	cs := &caseSpec{Init: map[string]string{}, Src: "rand", Salt: salt}
	sim := map[string]string{} // simulated view: path -> content
	dirs := map[string]bool{}
	pickContent := func() string { return contents[r.Intn(len(contents))] }
	for _, n := range topNames {
		if r.Intn(2) == 0 {
			sim[n] = pickContent()
		}
	}
	if r.Intn(2) == 0 {
		dirs["d"] = true
		sim["d/x"] = pickContent()
		if r.Intn(2) == 0 {
			sim["d/y"] = pickContent()
		}
	}
	for p, c := range sim {
		cs.Init[p] = c
	}
	count := func() int { return 1 + len(sim) + len(dirs) }
	switch r.Intn(5) {
	case 0, 1:
		cs.Max = Unlimited
	default:
		cs.Max = count() + r.Intn(5) - 1
		if cs.Max < 1 {
			cs.Max = 1
		}
	}
	switch r.Intn(8) {
	case 0:
		cs.Alpha, cs.Mode = true, []string{"ows", "owr"}[r.Intn(2)]
	case 1:
		cs.Alpha, cs.Mode = true, []string{"tws", "twr"}[r.Intn(2)]
	case 2:
		cs.Alpha, cs.Mode = false, []string{"ows", "owr"}[r.Intn(2)]
	default:
		cs.Alpha, cs.Mode = false, "tws"
	}
	switch r.Intn(6) { // staging file size limit relative to one of the contents
	case 0:
		cs.MaxFile = "eq:" + contents[r.Intn(4)]
	case 1:
		cs.MaxFile = "m1:" + contents[r.Intn(4)]
	case 2:
		cs.MaxFile = []string{"half:c1", "half:c3", "tiny", "blk", "inblk"}[r.Intn(5)]
	}
	cs.StageMode = []string{"", "", "neighboring", "internal"}[r.Intn(4)]
	cs.FileMode = []uint32{0, 0, 0o644, 0o640}[r.Intn(4)]
	cs.DirMode = []uint32{0, 0, 0o755}[r.Intn(3)]
	existing := func() []string {
		var ps []string
		for p := range sim {
			ps = append(ps, p)
		}
		sort.Strings(ps)
		return ps
	}
	freshSeq := 0
	fresh := func() string {
		freshSeq++
		if dirs["d"] && r.Intn(3) == 0 {
			return fmt.Sprintf("d/n%d", freshSeq)
		}
		return fmt.Sprintf("n%d", freshSeq)
	}
	extEdit := func() {
		ps := existing()
		switch k := r.Intn(4); {
		case k == 0 && len(ps) > 0: // remove
			p := ps[r.Intn(len(ps))]
			delete(sim, p)
			cs.Ops = append(cs.Ops, opSpec{Op: "ExtRemove", Path: strings.Split(p, "/")})
		case k == 1 && len(ps) > 0: // copy an existing file's content to a new name
			src := ps[r.Intn(len(ps))]
			p := fresh()
			sim[p] = sim[src]
			cs.Ops = append(cs.Ops, opSpec{Op: "ExtWrite", Path: strings.Split(p, "/"), C: sim[src]})
		case k == 2 && len(ps) > 0: // modify
			p := ps[r.Intn(len(ps))]
			c := pickContent()
			if c == sim[p] {
				c = "c4x"
			}
			sim[p] = c
			cs.Ops = append(cs.Ops, opSpec{Op: "ExtWrite", Path: strings.Split(p, "/"), C: c})
		default:
			p := fresh()
			sim[p] = pickContent()
			cs.Ops = append(cs.Ops, opSpec{Op: "ExtWrite", Path: strings.Split(p, "/"), C: sim[p]})
		}
	}
	cycles := 1 + r.Intn(3)
	for cy := 0; cy < cycles; cy++ {
		for r.Intn(3) == 0 {
			extEdit()
		}
		if r.Intn(10) != 0 {
			cs.Ops = append(cs.Ops, opSpec{Op: "Scan"})
		}
		stale := "" // content the last scan recorded for a file that was rewritten since
		if r.Intn(4) == 0 {
			extEdit() // between scan and stage: breaks from-root copies / creates unknown files
		} else if ps := existing(); len(ps) > 0 && r.Intn(6) == 0 {
			// stale copy source: a scanned file is rewritten, and this cycle's plan asks for the
			// content the scan saw there (the from-root copy reads other bytes than the digest names)
			p := ps[r.Intn(len(ps))]
			stale = sim[p]
			c := pickContent()
			if c == stale {
				c = "c4x"
			}
			sim[p] = c
			cs.Ops = append(cs.Ops, opSpec{Op: "ExtWrite", Path: strings.Split(p, "/"), C: c})
		}
		// the plan of this cycle
		type planned struct {
			path, content  string
			swap, inNewDir bool
		}
		var plan []planned
		nreq := r.Intn(4)
		ps := existing()
		usedDir := false
		if stale != "" {
			plan = append(plan, planned{path: fresh(), content: stale})
		}
		for k := 0; k < nreq; k++ {
			var c string
			if len(ps) > 0 && r.Intn(2) == 0 {
				c = sim[ps[r.Intn(len(ps))]] // content available in the root: copy/rename detection
			} else {
				c = pickContent()
			}
			switch kk := r.Intn(5); {
			case kk == 0 && len(ps) > 0:
				p := ps[r.Intn(len(ps))]
				dup := false
				for _, q := range plan {
					if q.path == p {
						dup = true
					}
				}
				if dup || c == sim[p] {
					continue
				}
				plan = append(plan, planned{path: p, content: c, swap: true})
			case kk == 1 && !usedDir:
				usedDir = true
				freshSeq++
				base := fmt.Sprintf("nd%d", freshSeq)
				plan = append(plan, planned{path: base + "/x", content: c, inNewDir: true})
				if r.Intn(2) == 0 {
					plan = append(plan, planned{path: base + "/y", content: pickContent(), inNewDir: true})
				}
			default:
				plan = append(plan, planned{path: fresh(), content: c})
			}
		}
		stage := opSpec{Op: "Stage"}
		for _, q := range plan {
			stage.Req = append(stage.Req, reqSpec{Path: strings.Split(q.path, "/"), C: q.content})
		}
		if r.Intn(10) == 0 {
			stage.Fault = randomFault(r)
		}
		if r.Intn(12) != 0 {
			cs.Ops = append(cs.Ops, stage)
		}
		if r.Intn(15) == 0 {
			cs.Ops = append(cs.Ops, stage) // a second staging call without a scan
		}
		if r.Intn(8) != 0 {
			recv := opSpec{Op: "Recv"}
			if r.Intn(6) == 0 {
				recv.Fault = randomFault(r)
			}
			for range plan {
				recv.Kinds = append(recv.Kinds, transferKinds[r.Intn(len(transferKinds))])
			}
			cs.Ops = append(cs.Ops, recv)
		}
		if r.Intn(7) == 0 { // the endpoint is replaced after the reception
			re := opSpec{Op: "Restart", How: []string{"shutdown", "drop"}[r.Intn(2)], Plant: []string{"keep", "keep", "keep", "empty", "file"}[r.Intn(5)]}
			cs.Ops = append(cs.Ops, re)
			if r.Intn(3) != 0 { // ... and the cycle is resumed: scan, same staging request
				cs.Ops = append(cs.Ops, opSpec{Op: "Scan"}, stage)
				if r.Intn(4) != 0 {
					cs.Ops = append(cs.Ops, opSpec{Op: "Recv"})
				}
			}
		}
		if r.Intn(6) == 0 {
			extEdit() // between staging and transition
		}
		if r.Intn(5) == 0 {
			continue // interrupted cycle: staged content stays for the next one
		}
		trans := opSpec{Op: "Trans"}
		newDirs := map[string]map[string]string{}
		var dirOrder []string
		for _, q := range plan {
			switch {
			case q.swap:
				trans.Chg = append(trans.Chg, chgSpec{Path: strings.Split(q.path, "/"), Old: sim[q.path], New: q.content})
			case q.inNewDir:
				base := strings.Split(q.path, "/")[0]
				if newDirs[base] == nil {
					newDirs[base] = map[string]string{}
					dirOrder = append(dirOrder, base)
				}
				newDirs[base][strings.Split(q.path, "/")[1]] = q.content
			default:
				trans.Chg = append(trans.Chg, chgSpec{Path: strings.Split(q.path, "/"), New: q.content})
			}
		}
		for _, base := range dirOrder {
			trans.Chg = append(trans.Chg, chgSpec{Path: []string{base}, NewDir: newDirs[base]})
		}
		if ps := existing(); len(ps) > 0 && r.Intn(4) == 0 { // plus a removal
			p := ps[r.Intn(len(ps))]
			clash := false
			for _, q := range plan {
				if q.path == p {
					clash = true
				}
			}
			if !clash {
				trans.Chg = append(trans.Chg, chgSpec{Path: strings.Split(p, "/"), Old: sim[p]})
			}
		}
		cs.Ops = append(cs.Ops, trans)
		// optimistic update of the simulated view (only steers generation)
		for _, ch := range trans.Chg {
			p := strings.Join(ch.Path, "/")
			switch {
			case ch.NewDir != nil:
				dirs[p] = true
				for n, c := range ch.NewDir {
					sim[p+"/"+n] = c
				}
			case ch.New == "":
				delete(sim, p)
			default:
				sim[p] = ch.New
			}
		}
		if r.Intn(10) == 0 {
			cs.Ops = append(cs.Ops, trans) // a second transition without a scan
		}
	}
	return cs
}

func runStaging(c *vlib.Ctx) error {
	if c.Prop == "C41" {
		runSubset(c)
	}
	n := 0
	emit := func(cs *caseSpec) {
		n++
		cid := fmt.Sprintf("%s-%s-%d", c.Prop, cs.Src, n)
		runCase(c, cid, cs)
		if n%97 == 1 {
			c.Sample(map[string]any{"cid": cid, "src": cs.Src, "ops": len(cs.Ops), "max": cs.Max, "alpha": cs.Alpha, "mode": cs.Mode})
		}
	}
	behaviours := c.ReadBehaviours()
	for i, b := range behaviours {
		emit(fromModel(b, i, c.Seed*1000+int64(i%7)))
	}
	c.SetExtra("model_behaviours", len(behaviours))
	depth, nrand := 4, 220
	if c.Thorough() {
		depth, nrand = 5, 3000
	}
	pc := protoCases(depth, c.Seed)
	for _, cs := range pc {
		emit(cs)
	}
	c.SetExtra("protocol_sequences", len(pc))
	lc := limitCases(c.Seed)
	for _, cs := range lc {
		emit(cs)
	}
	c.SetExtra("size_limit_cases", len(lc))
	fcs := faultCases(c.Seed)
	for _, cs := range fcs {
		emit(cs)
	}
	c.SetExtra("io_fault_cases", len(fcs))
	rcs := restartCases(c.Seed)
	for _, cs := range rcs {
		emit(cs)
	}
	c.SetExtra("restart_cases", len(rcs))
	for i := 0; i < nrand; i++ {
		emit(randomCase(c.Rand, c.Seed*100000+int64(i)))
	}
	c.SetExtra("random_scripts", nrand)
	return nil
}
