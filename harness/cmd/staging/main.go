// Driver "staging": binds spec/staging (Staging.tla, PathWalk.tla) to the real
// local endpoint, staging store, rsync receiver/transmitter and transition code.
//
//	C10, C41  scripted endpoint cases (world.go): TLC-simulated behaviours of
//	          Staging.tla, the complete set of short call-order sequences, and
//	          seeded random scripts on larger roots;
//	C17       the PathWalk scenario matrix exported by TLC plus seeded random
//	          roots full of links to a watched canary directory (escape.go).
//
// The driver records observations only; Staging_Trace.tla / PathWalk_Trace.tla
// judge them.
package main

import (
	"encoding/json"
	"fmt"
	"os/signal"
	"syscall"

	"verif/harness/internal/vlib"
)

func main() {
	// a write beyond RLIMIT_FSIZE raises SIGXFSZ; the harness wants the EFBIG instead
	signal.Ignore(syscall.SIGXFSZ)
	vlib.Main(run, replay)
}

func argSet(c *vlib.Ctx, name string) bool {
	for _, a := range c.Args {
		if a == name {
			return true
		}
	}
	return false
}

func run(c *vlib.Ctx) error {
	switch c.Prop {
	case "C10", "C41", "C02":
		return runStaging(c)
	case "C17":
		return runEscape(c)
	}
	return fmt.Errorf("driver staging does not serve property %s", c.Prop)
}

func replay(c *vlib.Ctx) error {
	doc := c.LoadReplay()
	begin, _ := doc["begin"].(map[string]any)
	if begin == nil {
		return fmt.Errorf("replay file has no begin record")
	}
	in := begin["in"]
	b, _ := json.Marshal(in)
	switch c.Prop {
	case "C10", "C41", "C02":
		if m, _ := in.(map[string]any); m != nil && m["subset"] == true {
			runSubset(c)
			return nil
		}
		var cs caseSpec
		if err := json.Unmarshal(b, &cs); err != nil {
			return err
		}
		cid, _ := begin["cid"].(string)
		runCase(c, cid, &cs)
		return nil
	case "C17":
		var sc scenario
		if err := json.Unmarshal(b, &sc); err != nil {
			return err
		}
		runScenario(c, &sc)
		return nil
	}
	return fmt.Errorf("driver staging does not serve property %s", c.Prop)
}
