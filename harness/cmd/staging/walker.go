// Independent observers of the filesystem. Nothing in this file imports or
// calls mutagen code: the tree walker uses os.Lstat / os.Readlink / SHA-1, the
// staging-store walker knows only the on-disk layout
// <staging root>/<2 hex>/<hex content digest><hex xxh3-128(path)>, and the
// canary watcher uses raw inotify.
package main

import (
	"crypto/sha1"
	"encoding/hex"
	"fmt"
	"io"
	"os"
	"path/filepath"
	"sort"
	"strings"

	"github.com/zeebo/xxh3"
	"golang.org/x/sys/unix"
)

// sha1File hashes a file's content.
func sha1File(path string) string {
	f, err := os.Open(path)
	if err != nil {
		return "unreadable"
	}
	defer f.Close()
	h := sha1.New()
	if _, err := io.Copy(h, f); err != nil {
		return "unreadable"
	}
	return hex.EncodeToString(h.Sum(nil))
}

func sha1Bytes(b []byte) string {
	s := sha1.Sum(b)
	return hex.EncodeToString(s[:])
}

// walkTree returns the tree at path in the Entries.tla JSON encoding. Files
// carry their SHA-1 and the owner-executable bit; symbolic links their target;
// nothing is followed.
func walkTree(path string) map[string]any {
	info, err := os.Lstat(path)
	if err != nil {
		return map[string]any{"k": "nil"}
	}
	switch {
	case info.Mode()&os.ModeSymlink != 0:
		t, _ := os.Readlink(path)
		return map[string]any{"k": "link", "t": t}
	case info.IsDir():
		c := map[string]any{}
		names, _ := os.ReadDir(path)
		for _, n := range names {
			c[n.Name()] = walkTree(filepath.Join(path, n.Name()))
		}
		return map[string]any{"k": "dir", "c": c}
	case info.Mode().IsRegular():
		return map[string]any{"k": "file", "d": sha1File(path), "x": info.Mode()&0o100 != 0}
	default:
		return map[string]any{"k": "other"}
	}
}

// walkTreeSkip is walkTree without one top-level name (the staging directory
// when it is configured to live inside the root; scans ignore it by its
// temporary-name prefix).
func walkTreeSkip(path, skip string) map[string]any {
	t := walkTree(path)
	if skip != "" {
		if c, ok := t["c"].(map[string]any); ok {
			delete(c, skip)
		}
	}
	return t
}

// metaList is a flat, sorted listing of a tree with everything an access or a
// modification could change: kind, size, mode bits, mtime, inode, content hash,
// link target. Used for the canary directory (compared before/after).
func metaList(root string) []any {
	var out []any
	var rec func(p, rel string)
	rec = func(p, rel string) {
		info, err := os.Lstat(p)
		if err != nil {
			out = append(out, map[string]any{"p": rel, "k": "gone"})
			return
		}
		var st unix.Stat_t
		unix.Lstat(p, &st)
		e := map[string]any{"p": rel, "mode": int(info.Mode().Perm()), "ino": fmt.Sprint(st.Ino),
			"mt": fmt.Sprintf("%d.%09d", st.Mtim.Sec, st.Mtim.Nsec), "ct": fmt.Sprintf("%d.%09d", st.Ctim.Sec, st.Ctim.Nsec),
			"uid": int(st.Uid), "nlink": int(st.Nlink)}
		switch {
		case info.Mode()&os.ModeSymlink != 0:
			t, _ := os.Readlink(p)
			e["k"] = "link"
			e["t"] = t
			out = append(out, e)
		case info.IsDir():
			e["k"] = "dir"
			out = append(out, e)
			names, _ := os.ReadDir(p)
			for _, n := range names {
				rec(filepath.Join(p, n.Name()), rel+"/"+n.Name())
			}
		case info.Mode().IsRegular():
			e["k"] = "file"
			e["sz"] = fmt.Sprint(info.Size())
			e["d"] = sha1File(p)
			out = append(out, e)
		default:
			e["k"] = "other"
			out = append(out, e)
		}
	}
	rec(root, ".")
	return out
}

// pathHash is the second half of a staged file's name: hex(xxh3-128(path)).
func pathHash(p string) string {
	b := xxh3.HashString128(p).Bytes()
	return hex.EncodeToString(b[:])
}

// walkStore lists the staging store: one record per committed file with the
// path it is addressed to (resolved through the table of the case's paths),
// the digest its NAME claims (nd) and the digest of its actual CONTENT (cd).
// Anything else found in the staging root is listed under "odd".
func walkStore(stagingRoot string, paths []string) []any {
	table := map[string]string{}
	for _, p := range paths {
		table[pathHash(p)] = p
	}
	out := []any{}
	// never look through a staging root that is not a real directory
	if info, err := os.Lstat(stagingRoot); err != nil || !info.IsDir() {
		return out
	}
	top, err := os.ReadDir(stagingRoot)
	if err != nil {
		return out
	}
	var names []string
	for _, t := range top {
		names = append(names, t.Name())
	}
	sort.Strings(names)
	for _, n := range names {
		full := filepath.Join(stagingRoot, n)
		info, err := os.Lstat(full)
		if err != nil {
			continue
		}
		if !info.IsDir() || len(n) != 2 {
			out = append(out, map[string]any{"odd": n, "p": []string{"?"}, "nd": "", "cd": ""})
			continue
		}
		inner, _ := os.ReadDir(full)
		var ins []string
		for _, i := range inner {
			ins = append(ins, i.Name())
		}
		sort.Strings(ins)
		for _, f := range ins {
			fp := filepath.Join(full, f)
			fi, err := os.Lstat(fp)
			if err != nil {
				continue
			}
			if !fi.Mode().IsRegular() || len(f) <= 32 || !strings.HasPrefix(f, n) {
				out = append(out, map[string]any{"odd": n + "/" + f, "p": []string{"?"}, "nd": "", "cd": ""})
				continue
			}
			nd, np := f[:len(f)-32], f[len(f)-32:]
			p, ok := table[np]
			pp := []string{"?", np}
			if ok {
				pp = splitPath(p)
			}
			out = append(out, map[string]any{"p": pp, "nd": nd, "cd": sha1File(fp), "sz": int(fi.Size())})
		}
	}
	return out
}

func splitPath(p string) []string {
	if p == "" {
		return []string{}
	}
	return strings.Split(p, "/")
}

// ---------------------------------------------------------------------------
// inotify watcher for the canary tree

type canaryWatch struct {
	fd    int
	names map[int]string
}

const canaryMask = unix.IN_OPEN | unix.IN_ACCESS | unix.IN_MODIFY | unix.IN_ATTRIB | unix.IN_CREATE |
	unix.IN_DELETE | unix.IN_MOVED_FROM | unix.IN_MOVED_TO | unix.IN_CLOSE_WRITE | unix.IN_CLOSE_NOWRITE |
	unix.IN_DELETE_SELF | unix.IN_MOVE_SELF

// watchCanary puts a watch on every directory and file below root.
func watchCanary(root string) (*canaryWatch, error) {
	fd, err := unix.InotifyInit1(unix.IN_NONBLOCK | unix.IN_CLOEXEC)
	if err != nil {
		return nil, err
	}
	w := &canaryWatch{fd: fd, names: map[int]string{}}
	// list first, watch afterwards: the listing itself opens directories
	var paths []string
	filepath.Walk(root, func(p string, info os.FileInfo, err error) error {
		if err == nil && info.Mode()&os.ModeSymlink == 0 {
			paths = append(paths, p)
		}
		return nil
	})
	for _, p := range paths {
		wd, err := unix.InotifyAddWatch(fd, p, canaryMask|unix.IN_DONT_FOLLOW)
		if err != nil {
			unix.Close(fd)
			return nil, err
		}
		rel, _ := filepath.Rel(root, p)
		w.names[wd] = rel
	}
	return w, nil
}

var inotifyNames = []struct {
	bit  uint32
	name string
}{
	{unix.IN_OPEN, "open"}, {unix.IN_ACCESS, "access"}, {unix.IN_MODIFY, "modify"}, {unix.IN_ATTRIB, "attrib"},
	{unix.IN_CREATE, "create"}, {unix.IN_DELETE, "delete"}, {unix.IN_MOVED_FROM, "moved_from"},
	{unix.IN_MOVED_TO, "moved_to"}, {unix.IN_CLOSE_WRITE, "close_write"}, {unix.IN_CLOSE_NOWRITE, "close_nowrite"},
	{unix.IN_DELETE_SELF, "delete_self"}, {unix.IN_MOVE_SELF, "move_self"}, {unix.IN_Q_OVERFLOW, "overflow"},
}

// drain returns every pending event as "kind:watched-path[/name]" and closes the watcher.
func (w *canaryWatch) drain() []any {
	out := []any{}
	buf := make([]byte, 64*1024)
	for {
		n, err := unix.Read(w.fd, buf)
		if n <= 0 || err != nil {
			break
		}
		off := 0
		for off+unix.SizeofInotifyEvent <= n {
			wd := int(int32(uint32(buf[off]) | uint32(buf[off+1])<<8 | uint32(buf[off+2])<<16 | uint32(buf[off+3])<<24))
			mask := uint32(buf[off+4]) | uint32(buf[off+5])<<8 | uint32(buf[off+6])<<16 | uint32(buf[off+7])<<24
			l := int(uint32(buf[off+12]) | uint32(buf[off+13])<<8 | uint32(buf[off+14])<<16 | uint32(buf[off+15])<<24)
			name := strings.TrimRight(string(buf[off+16:off+16+l]), "\x00")
			off += unix.SizeofInotifyEvent + l
			if mask&unix.IN_IGNORED != 0 && mask&^(unix.IN_IGNORED) == 0 {
				continue
			}
			where := w.names[wd]
			if name != "" {
				where += "/" + name
			}
			for _, k := range inotifyNames {
				if mask&k.bit != 0 {
					out = append(out, k.name+":"+where)
				}
			}
		}
	}
	unix.Close(w.fd)
	return out
}
