package main

// Timed scenarios for C25. Each scenario sets up two real multiplexers (free
// delivery), brings one call into the blocked state, produces the releasing
// event and measures when the call returns. A scenario is attempted up to
// three times; every attempt is recorded as observed. No verdict is computed
// here: MuxTime.tla decides from the recorded numbers.

import (
	"context"
	"fmt"
	"math/rand"
	"sync"
	"sync/atomic"
	"time"

	"github.com/mutagen-io/mutagen/pkg/multiplexing"

	"verif/harness/internal/vlib"
)

type timingIn struct {
	Mode string `json:"mode"`
	Kind string `json:"kind"` // "block" | "hol" | "backlog" | "heart"
	Call string `json:"call"` // block: read | write | writenobuf (blocked waiting for a write buffer) | open | accept
	Rel  string `json:"rel"`  // block: releasing event
	W    int    `json:"w"`
	B    int    `json:"b"`
	Bufs int    `json:"bufs"`
	Cap  int    `json:"cap"`
	N    int    `json:"n"` // hol: active streams; backlog: extra opens
	Seed int64  `json:"seed"`
}

const (
	limitMs      = 2000                    // what the property allows
	waitAfterRel = 3500 * time.Millisecond // how long the driver waits for the return
	settleBlock  = 40 * time.Millisecond   // a call still pending after this is "blocked"
	maxAttempts  = 3
	holLimitMs   = 8000 // head-of-line scenarios: "cannot move data" means not even within this
	holWait      = 8 * time.Second
)

// openPair opens one stream from endpoint 0 and accepts it on endpoint 1.
func openPair(p *pair) (a, b *multiplexing.Stream, err error) {
	type res struct {
		s   *multiplexing.Stream
		err error
	}
	ch := make(chan res, 1)
	go func() {
		ctx, cancel := context.WithTimeout(context.Background(), 10*time.Second)
		defer cancel()
		s, e := p.mux[1].AcceptStream(ctx)
		ch <- res{s, e}
	}()
	ctx, cancel := context.WithTimeout(context.Background(), 10*time.Second)
	defer cancel()
	a, err = p.mux[0].OpenStream(ctx)
	r := <-ch
	if err == nil {
		err = r.err
	}
	return a, r.s, err
}

// blockAttempt runs one attempt of a blocked-call scenario.
func blockAttempt(in timingIn) map[string]any {
	att := map[string]any{"blocked": false, "returned": false, "lat": 0, "err": "", "setup": ""}
	p := newPair(nil, false, 0, in.W, in.B, in.Bufs, 0)
	defer p.shutdown()
	var a, b *multiplexing.Stream
	if in.Call == "read" || in.Call == "write" || in.Call == "writenobuf" {
		var err error
		if a, b, err = openPair(p); err != nil {
			att["setup"] = "open failed: " + errKind(err)
			return att
		}
	}
	if in.Call == "writenobuf" {
		// Stall the carrier towards the peer: the next message stays in flight and the
		// writer goroutine blocks in the carrier holding the only write buffer, so a
		// second Write obtains the window token but no buffer.
		d := p.l.dir[0]
		d.mu.Lock()
		d.gated, d.capacity = true, 1
		d.mu.Unlock()
		if _, err := a.Write(make([]byte, 4)); err != nil {
			att["setup"] = "first write failed: " + errKind(err)
			return att
		}
		time.Sleep(2 * time.Millisecond)
	}
	octx, ocancel := context.WithCancel(context.Background())
	defer ocancel()
	done := make(chan error, 1)
	var tret atomic.Int64
	finish := func(err error) { tret.Store(int64(nowMs())); done <- err }
	preDeadline := time.Time{}
	switch in.Call {
	case "read":
		if in.Rel == "deadline-preset" {
			preDeadline = time.Now().Add(60 * time.Millisecond)
			a.SetReadDeadline(preDeadline)
		}
		go func() { _, err := a.Read(make([]byte, 16)); finish(err) }()
	case "write", "writenobuf":
		if in.Rel == "deadline-preset" {
			preDeadline = time.Now().Add(60 * time.Millisecond)
			a.SetWriteDeadline(preDeadline)
		}
		n := in.W + 50
		if in.Call == "writenobuf" {
			n = 4
		}
		go func() { _, err := a.Write(make([]byte, n)); finish(err) }()
	case "open":
		go func() { _, err := p.mux[0].OpenStream(octx); finish(err) }()
	case "accept":
		go func() { _, err := p.mux[0].AcceptStream(octx); finish(err) }()
	}
	// is it blocked?
	select {
	case err := <-done:
		att["err"] = errKind(err)
		att["setup"] = "returned before the releasing event"
		return att
	case <-time.After(settleBlock):
	}
	if in.Rel == "deadline-preset" && time.Now().After(preDeadline) {
		// the settle wait overran the deadline (load): the call may legitimately be gone
		select {
		case err := <-done:
			att["blocked"] = true
			att["returned"] = true
			att["err"] = errKind(err)
			return att
		default:
		}
	}
	att["blocked"] = true
	// releasing event
	var trel int
	switch in.Rel {
	case "deadline-preset":
		if d := time.Until(preDeadline); d > 0 {
			time.Sleep(d)
		}
		trel = nowMs()
	case "deadline-set":
		dl := time.Now().Add(25 * time.Millisecond)
		if in.Call == "read" {
			a.SetReadDeadline(dl)
		} else {
			a.SetWriteDeadline(dl)
		}
		time.Sleep(time.Until(dl))
		trel = nowMs()
	case "deadline-past":
		dl := time.Now().Add(-time.Second)
		if in.Call == "read" {
			a.SetReadDeadline(dl)
		} else {
			a.SetWriteDeadline(dl)
		}
		trel = nowMs()
	case "local-close":
		go a.Close()
		trel = nowMs()
	case "local-closewrite":
		go a.CloseWrite()
		trel = nowMs()
	case "local-mux-close":
		p.mux[0].Close()
		trel = nowMs()
	case "peer-closewrite":
		b.CloseWrite()
		trel = nowMs()
	case "peer-close":
		b.Close()
		trel = nowMs()
	case "peer-mux-close":
		p.mux[1].Close()
		trel = nowMs()
	case "carrier-fail":
		p.l.fail()
		trel = nowMs()
	case "ctx-cancel":
		ocancel()
		trel = nowMs()
	}
	select {
	case err := <-done:
		att["returned"] = true
		att["err"] = errKind(err)
		lat := int(tret.Load()) - trel
		if lat < 0 {
			lat = 0
		}
		att["lat"] = lat
	case <-time.After(waitAfterRel):
		att["lat"] = int(waitAfterRel / time.Millisecond)
		return att
	}
	if in.Call == "writenobuf" {
		// The stream must stay usable: clear the deadline, let the carrier flow again
		// and write once more (window and buffers are available now).
		a.SetWriteDeadline(time.Time{})
		p.l.dir[0].mu.Lock()
		p.l.dir[0].capacity = 0
		p.l.dir[0].mu.Unlock()
		p.l.dir[0].setGated(false)
		t0 := nowMs()
		res := watchdog(waitAfterRel, func() callResult {
			k, err := a.Write(make([]byte, 3))
			return callResult{n: k, err: err}
		})
		att["follow"] = map[string]any{"returned": !res.hung, "lat": nowMs() - t0, "err": kindOf(res), "n": res.n}
	}
	return att
}

// midPayloadAttempt: the carrier hands endpoint 1's reader the header and part of the
// payload of a data message for a stream that has unread buffered data, a Read on that
// stream is in progress, and then the carrier fails (Rel "carrier-fail") or the
// multiplexer is closed locally (Rel "local-mux-close"). The Read must return, and so
// must a further Read, SetReadDeadline(past) and Stream.Close.
func midPayloadAttempt(in timingIn) map[string]any {
	att := map[string]any{"blocked": false, "returned": false, "lat": 0, "err": "", "setup": "", "follows": []map[string]any{}}
	p := newPair(nil, false, 0, in.W, in.B, in.Bufs, 0)
	defer p.shutdown()
	a, b, err := openPair(p)
	if err != nil {
		att["setup"] = "open failed: " + errKind(err)
		return att
	}
	if _, err := a.Write([]byte{1, 2, 3, 4}); err != nil {
		att["setup"] = "first write failed"
		return att
	}
	time.Sleep(3 * time.Millisecond) // delivered and buffered; nobody has read yet
	d := p.l.dir[0]
	d.setGated(true)
	if _, err := a.Write([]byte{5, 6, 7, 8, 9, 10}); err != nil {
		att["setup"] = "second write failed"
		return att
	}
	if !d.waitFor(2*time.Second, func() bool { return len(d.queue) > 0 }) {
		att["setup"] = "second message not seen"
		return att
	}
	// kind byte + identifier + 2 length bytes + 3 of 6 payload bytes
	d.mu.Lock()
	hdr := len(d.queue[0].raw) - 6
	d.mu.Unlock()
	if !d.deliverPartial(hdr+3, 2*time.Second) {
		att["setup"] = "partial delivery did not settle"
		return att
	}
	done := make(chan error, 1)
	var tret atomic.Int64
	go func() {
		_, err := b.Read(make([]byte, 1))
		tret.Store(int64(nowMs()))
		done <- err
	}()
	select {
	case err := <-done:
		att["err"] = errKind(err)
		att["setup"] = "read returned before the failure"
		return att
	case <-time.After(settleBlock):
	}
	att["blocked"] = true
	if in.Rel == "carrier-fail" {
		p.l.fail()
	} else {
		p.mux[1].Close()
	}
	trel := nowMs()
	select {
	case err := <-done:
		att["returned"] = true
		att["err"] = errKind(err)
		lat := int(tret.Load()) - trel
		if lat < 0 {
			lat = 0
		}
		att["lat"] = lat
	case <-time.After(waitAfterRel):
		att["lat"] = int(waitAfterRel / time.Millisecond)
	}
	waitUntil(2*time.Second, func() bool { return isClosedChan(p.mux[1].Closed()) })
	var follows []map[string]any
	for _, op := range []string{"read", "setrd-past", "close"} {
		op := op
		t0 := nowMs()
		res := watchdog(waitAfterRel, func() callResult {
			switch op {
			case "read":
				_, err := b.Read(make([]byte, 1))
				return callResult{err: err}
			case "setrd-past":
				return callResult{err: b.SetReadDeadline(time.Now().Add(-time.Second))}
			}
			return callResult{err: b.Close()}
		})
		follows = append(follows, map[string]any{"op": op, "returned": !res.hung, "lat": nowMs() - t0, "err": kindOf(res)})
	}
	att["follows"] = follows
	return att
}

// holAttempt: one stalled stream, N active streams that must move their data.
func holAttempt(in timingIn) map[string]any {
	att := map[string]any{"stalled": false, "finished": false, "ms": 0, "moved": []int{}, "want": []int{}, "setup": ""}
	p := newPair(nil, false, in.Cap, in.W, in.B, in.Bufs, 0)
	defer p.shutdown()
	rng := rand.New(rand.NewSource(in.Seed))
	sa, _, err := openPair(p)
	if err != nil {
		att["setup"] = "open failed: " + errKind(err)
		return att
	}
	// the stalled stream: its writer fills the window and blocks; nobody reads
	stalledDone := make(chan struct{})
	go func() {
		sa.Write(make([]byte, in.W+1000))
		close(stalledDone)
	}()
	select {
	case <-stalledDone:
		att["setup"] = "stalled writer returned"
		return att
	case <-time.After(settleBlock):
		att["stalled"] = true
	}
	type act struct {
		w, r *multiplexing.Stream
		want int
	}
	var acts []act
	for i := 0; i < in.N; i++ {
		x, y, err := openPairWatch(p)
		if err != nil {
			att["setup"] = "active open failed: " + errKind(err)
			// an open that cannot complete while a stream is stalled is itself head-of-line blocking
			att["want"] = []int{1}
			att["moved"] = []int{0}
			att["finished"] = false
			att["ms"] = int(holWait / time.Millisecond)
			return att
		}
		want := 4*in.W + 3 + rng.Intn(40)
		if want > 30000 {
			want = 30000
		}
		if i%2 == 0 {
			acts = append(acts, act{w: x, r: y, want: want})
		} else {
			acts = append(acts, act{w: y, r: x, want: want})
		}
	}
	moved := make([]atomic.Int64, len(acts))
	bufSizes := make([]int, len(acts))
	for i := range bufSizes {
		bufSizes[i] = 1 + rng.Intn(64)
	}
	var wg sync.WaitGroup
	t0 := time.Now()
	for i, ac := range acts {
		i, ac := i, ac
		wg.Add(2)
		go func() {
			defer wg.Done()
			ac.w.Write(make([]byte, ac.want))
			ac.w.CloseWrite()
		}()
		go func() {
			defer wg.Done()
			buf := make([]byte, bufSizes[i])
			for {
				n, err := ac.r.Read(buf)
				moved[i].Add(int64(n))
				if err != nil {
					return
				}
			}
		}()
	}
	fin := make(chan struct{})
	go func() { wg.Wait(); close(fin) }()
	select {
	case <-fin:
		att["finished"] = true
	case <-time.After(holWait):
	}
	att["ms"] = int(time.Since(t0) / time.Millisecond)
	mv, wt := make([]int, len(acts)), make([]int, len(acts))
	for i := range acts {
		mv[i] = int(moved[i].Load())
		wt[i] = acts[i].want
	}
	att["moved"], att["want"] = mv, wt
	return att
}

// openPairWatch is openPair bounded by the scenario's wait.
func openPairWatch(p *pair) (a, b *multiplexing.Stream, err error) {
	type res struct {
		a, b *multiplexing.Stream
		err  error
	}
	ch := make(chan res, 1)
	go func() { x, y, e := openPair(p); ch <- res{x, y, e} }()
	select {
	case r := <-ch:
		return r.a, r.b, r.err
	case <-time.After(holWait):
		return nil, nil, context.DeadlineExceeded
	}
}

// backlogAttempt: the peer never accepts; B opens fill its backlog, N more must be rejected.
func backlogAttempt(in timingIn) map[string]any {
	att := map[string]any{"filled": false, "extra": []map[string]any{}, "early": 0, "setup": ""}
	var seen atomic.Int64
	tap := func(from int, m *wireMsg) {
		if from == 0 && m.Kind == "open" {
			seen.Add(1)
		}
	}
	p := newPair(tap, false, 0, in.W, in.B, in.Bufs, 0)
	defer p.shutdown()
	ctx, cancel := context.WithCancel(context.Background())
	defer cancel()
	var early atomic.Int64
	for i := 0; i < in.B; i++ {
		go func() {
			_, err := p.mux[0].OpenStream(ctx)
			if ctx.Err() == nil {
				_ = err
				early.Add(1)
			}
		}()
		want := int64(i + 1)
		if !waitUntil(2*time.Second, func() bool { return seen.Load() >= want }) {
			att["setup"] = "open message not seen"
			return att
		}
	}
	time.Sleep(5 * time.Millisecond)
	att["filled"] = true
	var extra []map[string]any
	for i := 0; i < in.N; i++ {
		t0 := nowMs()
		res := watchdog(waitAfterRel, func() callResult {
			c2, cancel2 := context.WithTimeout(context.Background(), 2*waitAfterRel)
			defer cancel2()
			_, err := p.mux[0].OpenStream(c2)
			return callResult{err: err}
		})
		extra = append(extra, map[string]any{"returned": !res.hung, "lat": nowMs() - t0, "err": kindOf(res)})
	}
	att["extra"] = extra
	att["early"] = int(early.Load())
	return att
}

// heartCase: heartbeats flow for a while (nobody may time out), then the carrier is
// stalled with a Read, a Write and an Accept blocked; the heartbeat timeout closes the
// multiplexers and the blocked calls must return (that last part is C25; the rest is
// reported as counters).
func heartCase(r *recorder, in timingIn) {
	const transmit, receive = 10 * time.Millisecond, 300 * time.Millisecond
	var hb [2]atomic.Int64
	tap := func(from int, m *wireMsg) {
		if m.Kind == "hb" {
			hb[from].Add(1)
		}
	}
	p := newPairHB(tap, false, 0, in.W, in.B, in.Bufs, transmit, receive)
	defer p.shutdown()
	heart := map[string]any{"ev": "Heart", "transmitMs": 10, "receiveMs": 300, "flowClosed": []bool{false, false},
		"hb": []int{0, 0}, "detected": []bool{false, false}, "detectMs": []int{0, 0}, "ierr": []string{"", ""}, "setup": ""}
	a, b, err := openPair(p)
	if err != nil {
		heart["setup"] = "open failed: " + errKind(err)
		r.add(heart)
		return
	}
	// flow phase with a little traffic
	flowEnd := time.Now().Add(2 * receive)
	for time.Now().Before(flowEnd) {
		a.Write([]byte{1})
		b.Read(make([]byte, 1))
		time.Sleep(20 * time.Millisecond)
	}
	heart["flowClosed"] = []bool{isClosedChan(p.mux[0].Closed()), isClosedChan(p.mux[1].Closed())}
	heart["hb"] = []int{int(hb[0].Load()), int(hb[1].Load())}
	// blocked calls on endpoint 0
	type call struct {
		name string
		done chan error
		tret atomic.Int64
	}
	calls := []*call{{name: "read"}, {name: "write"}, {name: "accept"}}
	for _, c := range calls {
		c := c
		c.done = make(chan error, 1)
		go func() {
			var err error
			switch c.name {
			case "read":
				_, err = a.Read(make([]byte, 8))
			case "write":
				_, err = a.Write(make([]byte, in.W+50))
			case "accept":
				_, err = p.mux[0].AcceptStream(context.Background())
			}
			c.tret.Store(int64(nowMs()))
			c.done <- err
		}()
	}
	time.Sleep(settleBlock)
	// stall: nothing is delivered any more in either direction
	p.l.dir[0].setGated(true)
	p.l.dir[1].setGated(true)
	tStall := time.Now()
	var tClosed [2]int
	detected := []bool{false, false}
	detectMs := []int{0, 0}
	deadline := tStall.Add(receive + 4*time.Second)
	for time.Now().Before(deadline) && !(detected[0] && detected[1]) {
		for e := 0; e < 2; e++ {
			if !detected[e] && isClosedChan(p.mux[e].Closed()) {
				detected[e] = true
				detectMs[e] = int(time.Since(tStall) / time.Millisecond)
				tClosed[e] = nowMs()
			}
		}
		time.Sleep(200 * time.Microsecond)
	}
	heart["detected"], heart["detectMs"] = detected, detectMs
	heart["ierr"] = []string{ierrText(p.mux[0]), ierrText(p.mux[1])}
	r.add(heart)
	if !detected[0] {
		return // nothing released the calls: no C25 obligation
	}
	for _, c := range calls {
		att := map[string]any{"blocked": true, "returned": false, "lat": 0, "err": "", "setup": ""}
		select {
		case err := <-c.done:
			att["returned"] = true
			att["err"] = errKind(err)
			lat := int(c.tret.Load()) - tClosed[0]
			if lat < 0 {
				lat = 0
			}
			att["lat"] = lat
		case <-time.After(waitAfterRel):
			att["lat"] = int(waitAfterRel / time.Millisecond)
		}
		r.add(map[string]any{"ev": "Block", "call": c.name, "rel": "heartbeat-timeout", "limit": limitMs,
			"attempts": []map[string]any{att}, "t": nowMs()})
	}
}

func runTimingCase(cid string, in timingIn) *recorder {
	r := newRecorder(cid)
	r.add(map[string]any{"ev": "Begin", "begin": true, "mode": "timing", "w": in.W, "b": in.B, "in": in})
	if in.Kind == "heart" {
		heartCase(r, in)
		return r
	}
	var atts []map[string]any
	ok := func(a map[string]any) bool {
		switch in.Kind {
		case "block":
			if f, has := a["follow"].(map[string]any); has && (f["returned"] != true || f["err"] != "") {
				return false
			}
			if fs, has := a["follows"].([]map[string]any); has {
				for _, f := range fs {
					if f["returned"] != true {
						return false
					}
				}
			}
			return a["blocked"] == true && a["returned"] == true && a["lat"].(int) <= limitMs
		case "hol":
			if a["stalled"] != true || a["finished"] != true {
				return false
			}
			mv, wt := a["moved"].([]int), a["want"].([]int)
			for i := range wt {
				if mv[i] != wt[i] {
					return false
				}
			}
			return true
		default:
			if a["filled"] != true {
				return false
			}
			for _, x := range a["extra"].([]map[string]any) {
				if x["returned"] != true || x["err"] != "rejected" {
					return false
				}
			}
			return true
		}
	}
	for i := 0; i < maxAttempts; i++ {
		var a map[string]any
		switch in.Kind {
		case "block":
			if in.Call == "midpayload" {
				a = midPayloadAttempt(in)
			} else {
				a = blockAttempt(in)
			}
		case "hol":
			a = holAttempt(in)
		default:
			a = backlogAttempt(in)
		}
		atts = append(atts, a)
		if ok(a) { // only decides whether another attempt is made; every attempt is recorded
			break
		}
	}
	ev := map[string]string{"block": "Block", "hol": "Hol", "backlog": "Backlog"}[in.Kind]
	limit := limitMs
	if in.Kind == "hol" {
		limit = holLimitMs
	}
	r.add(map[string]any{"ev": ev, "call": in.Call, "rel": in.Rel, "limit": limit, "attempts": atts, "t": nowMs()})
	return r
}

func timingCases(c *vlib.Ctx) []timingIn {
	var out []timingIn
	rng := c.Rand
	readRels := []string{"deadline-preset", "deadline-set", "deadline-past", "local-close", "local-mux-close",
		"peer-closewrite", "peer-close", "peer-mux-close", "carrier-fail"}
	writeRels := []string{"deadline-preset", "deadline-set", "deadline-past", "local-close", "local-closewrite",
		"local-mux-close", "peer-close", "peer-mux-close", "carrier-fail"}
	openRels := []string{"ctx-cancel", "local-mux-close", "peer-mux-close", "carrier-fail"}
	reps := 1
	if c.Thorough() {
		reps = 6
	}
	ws := []int{1, 7, 65535}
	bufs := []int{1, 2, 5}
	for rep := 0; rep < reps; rep++ {
		for _, rel := range readRels {
			out = append(out, timingIn{Mode: "timing", Kind: "block", Call: "read", Rel: rel,
				W: ws[rng.Intn(3)], B: 2, Bufs: bufs[rng.Intn(3)], Seed: rng.Int63()})
		}
		for _, rel := range writeRels {
			out = append(out, timingIn{Mode: "timing", Kind: "block", Call: "write", Rel: rel,
				W: ws[rng.Intn(2)], B: 2, Bufs: bufs[rng.Intn(3)], Seed: rng.Int63()})
		}
		for _, rel := range []string{"deadline-preset", "deadline-set", "deadline-past"} {
			out = append(out, timingIn{Mode: "timing", Kind: "block", Call: "writenobuf", Rel: rel,
				W: 64, B: 2, Bufs: 1, Seed: rng.Int63()})
		}
		for _, rel := range []string{"carrier-fail", "local-mux-close"} {
			out = append(out, timingIn{Mode: "timing", Kind: "block", Call: "midpayload", Rel: rel,
				W: 64, B: 2, Bufs: bufs[rng.Intn(3)], Seed: rng.Int63()})
		}
		for _, call := range []string{"open", "accept"} {
			for _, rel := range openRels {
				out = append(out, timingIn{Mode: "timing", Kind: "block", Call: call, Rel: rel,
					W: 64, B: 2, Bufs: bufs[rng.Intn(3)], Seed: rng.Int63()})
			}
		}
		for _, w := range []int{1, 16, 4096} {
			for _, bf := range bufs {
				out = append(out, timingIn{Mode: "timing", Kind: "hol", W: w, B: 8, Bufs: bf,
					Cap: []int{0, 64}[rng.Intn(2)], N: 1 + rng.Intn(3), Seed: rng.Int63()})
			}
		}
		out = append(out, timingIn{Mode: "timing", Kind: "heart", W: ws[rng.Intn(2)], B: 2, Bufs: bufs[rng.Intn(3)], Seed: rng.Int63()})
		for _, b := range []int{1, 2, 3} {
			out = append(out, timingIn{Mode: "timing", Kind: "backlog", W: 64, B: b, Bufs: bufs[rng.Intn(3)], N: 1 + rng.Intn(3), Seed: rng.Int63()})
		}
	}
	return out
}

func runTiming(c *vlib.Ctx) error {
	var jobs []job
	for i, in := range timingCases(c) {
		in := in
		jobs = append(jobs, job{cid: fmt.Sprintf("t%d", i), run: func(cid string) *recorder { return runTimingCase(cid, in) }})
	}
	nfree := argInt(c, "free", 8)
	for i := 0; i < nfree; i++ {
		in := randomFree(rand.New(rand.NewSource(c.Seed*104729+int64(i))), c.Seed*104729+int64(i))
		jobs = append(jobs, job{cid: fmt.Sprintf("f%d", i), run: func(cid string) *recorder { return runFree(cid, in) }})
	}
	runJobs(c, jobs, argInt(c, "par", 4))
	return nil
}
