package main

// Seeded concurrent random workloads ("free" mode: ungated delivery) and open
// storms. Each stream direction has exactly one writer goroutine and one
// reader goroutine, so the bytes offered and the bytes returned per direction
// are totally ordered by the records.

import (
	"context"
	"math/rand"
	"sync"
	"sync/atomic"
	"time"

	"github.com/mutagen-io/mutagen/pkg/multiplexing"
)

type freeIn struct {
	Mode     string `json:"mode"`
	W        int    `json:"w"`
	B        int    `json:"b"`
	Bufs     int    `json:"bufs"`
	Cap      int    `json:"cap"`
	Hb       int    `json:"hb"` // heartbeat interval in ms (0: none)
	Seed     int64  `json:"seed"`
	Opens    [2]int `json:"opens"`
	MaxBytes int    `json:"maxbytes"`
	ZeroRead int    `json:"zeroread"` // percent of reads with an empty buffer
	Racers   int    `json:"racers"`   // percent of streams with a goroutine changing deadlines under the reader/writer
	Closers  int    `json:"closers"`  // percent of streams with a goroutine that half-closes / closes while the writer may be mid-Write
	Big      int    `json:"big"`      // >0: one stream, one Write of this many bytes (more than a data block and than the window)
}

// bigFree is the "very large write" workload: a single Write larger than the window and
// than the largest data block, read with large buffers.
func bigFree(seed int64) freeIn {
	return freeIn{Mode: "free", Seed: seed, W: 65535, B: 1, Bufs: 1, Cap: 256, MaxBytes: 70000, Big: 70000, Opens: [2]int{1, 0}}
}

func randomFree(rng *rand.Rand, seed int64) freeIn {
	ws := []int{1, 2, 3, 7, 64, 65535}
	in := freeIn{Mode: "free", Seed: seed,
		W: ws[rng.Intn(len(ws))], B: []int{0, 1, 2, 8}[rng.Intn(4)], Bufs: []int{-1, 1, 2, 5}[rng.Intn(4)],
		Cap: []int{0, 0, 16, 256}[rng.Intn(4)], Hb: []int{0, 0, 2}[rng.Intn(3)],
		MaxBytes: []int{20, 60, 160}[rng.Intn(3)], ZeroRead: []int{0, 10, 25}[rng.Intn(3)]}
	in.Racers = []int{0, 50, 100}[rng.Intn(3)]
	in.Closers = []int{0, 30, 60}[rng.Intn(3)]
	in.Opens[0] = 1 + rng.Intn(4)
	in.Opens[1] = rng.Intn(4)
	if in.W <= 3 && in.MaxBytes > 60 {
		in.MaxBytes = 60
	}
	return in
}

type freeRun struct {
	r      *recorder
	p      *pair
	in     freeIn
	wg     sync.WaitGroup
	sealed atomic.Bool
}

func (x *freeRun) add(rec map[string]any) {
	if !x.sealed.Load() {
		x.r.add(rec)
	}
}

func (x *freeRun) rngFor(e, sid, role int) *rand.Rand {
	return rand.New(rand.NewSource(x.in.Seed*1315423911 + int64(e)*1000003 + int64(sid)*7919 + int64(role)))
}

func (x *freeRun) writer(e, sid int, st *multiplexing.Stream) {
	defer x.wg.Done()
	rng := x.rngFor(e, sid, 1)
	total := rng.Intn(x.in.MaxBytes + 1)
	maxChunk := []int{1, 3, 9, 40, 200}[rng.Intn(5)]
	if x.in.Big > 0 {
		total, maxChunk = 0, 1
		if e == 0 { // the opener writes everything in one call
			total, maxChunk = x.in.Big, x.in.Big
		}
	}
	pos := 0
	for pos < total {
		n := rng.Intn(maxChunk + 1)
		if n > total-pos || x.in.Big > 0 {
			n = total - pos
		}
		data := payload(e, sid, pos, n)
		useDeadline := rng.Intn(8) == 0 && x.in.Big == 0
		x.add(map[string]any{"ev": "Call", "e": e, "op": "write", "s": sid, "k": n, "d": ints(data), "t": nowMs()})
		if useDeadline {
			st.SetWriteDeadline(time.Now().Add(time.Duration(1+rng.Intn(3)) * time.Millisecond))
		}
		k, err := st.Write(data)
		if useDeadline {
			st.SetWriteDeadline(time.Time{})
		}
		x.add(map[string]any{"ev": "Ret", "e": e, "op": "write", "s": sid, "sid": 0, "k": n, "n": k,
			"d": []int{}, "err": errKind(err), "t": nowMs()})
		pos += k
		if ek := errKind(err); ek == "timeout" {
			time.Sleep(200 * time.Microsecond)
		} else if ek != "" {
			return
		}
	}
	fin := rng.Intn(10)
	op := "cw"
	if fin >= 8 {
		op = "close"
	}
	x.add(map[string]any{"ev": "Call", "e": e, "op": op, "s": sid, "k": 0, "d": []int{}, "t": nowMs()})
	var err error
	if op == "cw" {
		err = st.CloseWrite()
	} else {
		err = st.Close()
	}
	x.add(map[string]any{"ev": "Ret", "e": e, "op": op, "s": sid, "sid": 0, "k": 0, "n": 0,
		"d": []int{}, "err": errKind(err), "t": nowMs()})
}

func (x *freeRun) reader(e, sid int, st *multiplexing.Stream) {
	defer x.wg.Done()
	rng := x.rngFor(e, sid, 2)
	sizes := []int{1, 2, 3, 7, 16, 64, 300}
	if x.in.Big > 0 {
		sizes = []int{20000, 32768}
	}
	earlyClose := -1
	if rng.Intn(7) == 0 && x.in.Big == 0 {
		earlyClose = rng.Intn(x.in.MaxBytes/2 + 1)
	}
	got := 0
	for iter := 0; iter < 100000; iter++ {
		if earlyClose >= 0 && got >= earlyClose {
			x.add(map[string]any{"ev": "Call", "e": e, "op": "close", "s": sid, "k": 0, "d": []int{}, "t": nowMs()})
			err := st.Close()
			x.add(map[string]any{"ev": "Ret", "e": e, "op": "close", "s": sid, "sid": 0, "k": 0, "n": 0,
				"d": []int{}, "err": errKind(err), "t": nowMs()})
			return
		}
		k := sizes[rng.Intn(len(sizes))]
		if rng.Intn(100) < x.in.ZeroRead {
			k = 0
		}
		buf := make([]byte, k)
		useDeadline := rng.Intn(8) == 0
		x.add(map[string]any{"ev": "Call", "e": e, "op": "read", "s": sid, "k": k, "d": []int{}, "t": nowMs()})
		if useDeadline {
			st.SetReadDeadline(time.Now().Add(time.Duration(1+rng.Intn(3)) * time.Millisecond))
		}
		n, err := st.Read(buf)
		if useDeadline {
			st.SetReadDeadline(time.Time{})
		}
		x.add(map[string]any{"ev": "Ret", "e": e, "op": "read", "s": sid, "sid": 0, "k": k, "n": n,
			"d": ints(buf[:n]), "err": errKind(err), "t": nowMs()})
		got += n
		if ek := errKind(err); ek == "timeout" {
			time.Sleep(200 * time.Microsecond)
		} else if ek != "" {
			return
		}
	}
}

// racer changes the deadlines of a stream while its reader and writer are at
// work (past, far future, near future that passes), clearing them again each
// time, so that blocked calls are ended through every deadline branch and the
// stream is used again afterwards.
func (x *freeRun) racer(e, sid int, st *multiplexing.Stream) {
	defer x.wg.Done()
	rng := x.rngFor(e, sid, 3)
	n := 3 + rng.Intn(8)
	set := func(op string, mode int) {
		var dl time.Time
		switch mode {
		case 1:
			dl = time.Now().Add(-time.Second)
		case 2:
			dl = time.Now().Add(time.Hour)
		case 3:
			dl = time.Now().Add(time.Duration(200+rng.Intn(800)) * time.Microsecond)
		}
		var err error
		switch op {
		case "setwd":
			err = st.SetWriteDeadline(dl)
		case "setrd":
			err = st.SetReadDeadline(dl)
		}
		x.add(map[string]any{"ev": "Ret", "e": e, "op": op, "s": sid, "sid": 0, "k": mode, "n": 0,
			"d": []int{}, "err": errKind(err), "t": nowMs()})
	}
	for i := 0; i < n; i++ {
		time.Sleep(time.Duration(rng.Intn(900)) * time.Microsecond)
		op := []string{"setwd", "setrd"}[rng.Intn(2)]
		set(op, 1+rng.Intn(3))
		time.Sleep(time.Duration(rng.Intn(1500)) * time.Microsecond)
		set(op, 0)
	}
	set("setwd", 0)
	set("setrd", 0)
}

// closer half-closes or closes the stream from a third goroutine at a random moment,
// possibly while a Write is in progress and data is in flight in both directions.
func (x *freeRun) closer(e, sid int, st *multiplexing.Stream) {
	defer x.wg.Done()
	rng := x.rngFor(e, sid, 5)
	time.Sleep(time.Duration(rng.Intn(2500)) * time.Microsecond)
	op := "cw"
	if rng.Intn(3) == 0 {
		op = "close"
	}
	x.add(map[string]any{"ev": "Call", "e": e, "op": op, "s": sid, "k": 0, "d": []int{}, "t": nowMs()})
	var err error
	if op == "cw" {
		err = st.CloseWrite()
	} else {
		err = st.Close()
	}
	x.add(map[string]any{"ev": "Ret", "e": e, "op": op, "s": sid, "sid": 0, "k": 0, "n": 0,
		"d": []int{}, "err": errKind(err), "t": nowMs()})
}

func (x *freeRun) serve(e, sid int, st *multiplexing.Stream) {
	x.wg.Add(2)
	go x.writer(e, sid, st)
	go x.reader(e, sid, st)
	if x.in.Big == 0 && x.rngFor(e, sid, 6).Intn(100) < x.in.Closers {
		x.wg.Add(1)
		go x.closer(e, sid, st)
	}
	if x.rngFor(e, sid, 4).Intn(100) < x.in.Racers {
		x.wg.Add(1)
		go x.racer(e, sid, st)
	}
}

func runFree(cid string, in freeIn) *recorder {
	r := newRecorder(cid)
	r.add(map[string]any{"ev": "Begin", "begin": true, "mode": "free", "w": in.W, "b": in.B, "in": in})
	x := &freeRun{r: r, in: in}
	x.p = newPair(r.tap(false, true), false, in.Cap, in.W, in.B, in.Bufs, time.Duration(in.Hb)*time.Millisecond)
	defer x.p.shutdown()

	actx, acancel := context.WithCancel(context.Background())
	var accepted, opened [2]atomic.Int64
	var awg, owg sync.WaitGroup
	for e := 0; e < 2; e++ {
		e := e
		awg.Add(1)
		go func() {
			defer awg.Done()
			for {
				x.add(map[string]any{"ev": "Call", "e": e, "op": "accept", "s": 0, "k": 0, "d": []int{}, "t": nowMs()})
				st, err := x.p.mux[e].AcceptStream(actx)
				sid := 0
				if st != nil {
					sid = streamID(st)
				}
				x.add(map[string]any{"ev": "Ret", "e": e, "op": "accept", "s": sid, "sid": sid, "k": 0, "n": 0,
					"d": []int{}, "err": errKind(err), "t": nowMs()})
				if err != nil {
					return
				}
				x.serve(e, sid, st)
				accepted[e].Add(1)
			}
		}()
		for i := 0; i < in.Opens[e]; i++ {
			owg.Add(1)
			go func() {
				defer owg.Done()
				ctx, cancel := context.WithTimeout(context.Background(), 120*time.Second)
				defer cancel()
				x.add(map[string]any{"ev": "Call", "e": e, "op": "open", "s": 0, "k": 0, "d": []int{}, "t": nowMs()})
				st, err := x.p.mux[e].OpenStream(ctx)
				sid := 0
				if st != nil {
					sid = streamID(st)
				}
				x.add(map[string]any{"ev": "Ret", "e": e, "op": "open", "s": sid, "sid": sid, "k": 0, "n": 0,
					"d": []int{}, "err": errKind(err), "t": nowMs()})
				if err == nil {
					x.serve(e, sid, st)
					opened[e].Add(1)
				}
			}()
		}
	}
	done := make(chan struct{})
	go func() {
		owg.Wait()
		waitUntil(5*time.Second, func() bool {
			return accepted[0].Load() == opened[1].Load() && accepted[1].Load() == opened[0].Load()
		})
		x.wg.Wait()
		acancel()
		awg.Wait()
		close(done)
	}()
	hung := false
	select {
	case <-done:
	case <-time.After(45 * time.Second):
		hung = true
	}
	end := x.p.endRecord(false)
	end["hung"] = hung
	x.add(end)
	x.sealed.Store(true)
	acancel()
	return r
}

// ---- open storms ----------------------------------------------------------

type stormIn struct {
	Mode   string `json:"mode"`
	Rounds int    `json:"rounds"`
	Fan    int    `json:"fan"`
	Seed   int64  `json:"seed"`
}

// runStorm opens Fan streams concurrently, Rounds times, on a pair with a
// single write buffer, closing every stream again; the acceptor accepts and
// closes. Only public operations are used and nothing is closed explicitly at
// the multiplexer level before the End record.
func runStorm(cid string, in stormIn) *recorder {
	r := newRecorder(cid)
	r.add(map[string]any{"ev": "Begin", "begin": true, "mode": "storm", "w": 64, "b": 256, "in": in})
	p := newPair(nil, false, 0, 64, 256, 1, 0)
	defer p.shutdown()
	actx, acancel := context.WithCancel(context.Background())
	defer acancel()
	go func() {
		for {
			st, err := p.mux[1].AcceptStream(actx)
			if err != nil {
				return
			}
			st.Close()
		}
	}()
	var ok, rejected, failed atomic.Int64
	rounds := 0
	for rounds < in.Rounds && !isClosedChan(p.mux[0].Closed()) && !isClosedChan(p.mux[1].Closed()) {
		rounds++
		var wg sync.WaitGroup
		for i := 0; i < in.Fan; i++ {
			wg.Add(1)
			go func() {
				defer wg.Done()
				ctx, cancel := context.WithTimeout(context.Background(), 10*time.Second)
				defer cancel()
				st, err := p.mux[0].OpenStream(ctx)
				switch errKind(err) {
				case "":
					ok.Add(1)
					st.Close()
				case "rejected":
					rejected.Add(1)
				default:
					failed.Add(1)
				}
			}()
		}
		wg.Wait()
	}
	time.Sleep(2 * time.Millisecond)
	r.add(map[string]any{"ev": "Storm", "rounds": rounds, "fan": in.Fan, "ok": int(ok.Load()),
		"rejected": int(rejected.Load()), "failed": int(failed.Load()), "t": nowMs()})
	r.add(p.endRecord(false))
	return r
}

// ---- cancelled opens --------------------------------------------------------

type opencIn struct {
	Mode    string `json:"mode"`    // "openc"
	Variant string `json:"variant"` // "pre": context already cancelled; "stall": cancelled while every write buffer is in flight
	Reps    int    `json:"reps"`
	Bufs    int    `json:"bufs"`
	Seed    int64  `json:"seed"`
}

// normalUse opens a stream, moves n bytes over it and closes it; it reports whether all of that worked.
func normalUse(p *pair, n int) bool {
	a, b, err := openPairWatch(p)
	if err != nil {
		return false
	}
	res := watchdog(waitAfterRel, func() callResult {
		go func() { a.Write(make([]byte, n)); a.CloseWrite() }()
		got := 0
		buf := make([]byte, 16)
		for {
			k, err := b.Read(buf)
			got += k
			if err != nil {
				break
			}
		}
		a.Close()
		b.Close()
		return callResult{n: got}
	})
	return !res.hung && res.n == n
}

// runOpenCancel: OpenStream calls that fail before their open message is queued, then normal use.
// Only public operations; nothing is closed explicitly before the End record.
func runOpenCancel(cid string, in opencIn) *recorder {
	r := newRecorder(cid)
	r.add(map[string]any{"ev": "Begin", "begin": true, "mode": "storm", "w": 65535, "b": 64, "in": in})
	p := newPair(nil, false, 0, 65535, 64, in.Bufs, 0)
	defer p.shutdown()
	canceled, other, blocked := 0, 0, 0
	okBefore := normalUse(p, 40)
	if in.Variant == "pre" {
		// an acceptor that takes whatever gets through (a cancelled open may still queue open + close)
		actx, acancel := context.WithCancel(context.Background())
		go func() {
			for {
				st, err := p.mux[1].AcceptStream(actx)
				if err != nil {
					return
				}
				st.Close()
			}
		}()
		for i := 0; i < in.Reps && !isClosedChan(p.mux[0].Closed()); i++ {
			ctx, cancel := context.WithCancel(context.Background())
			cancel()
			res := watchdog(waitAfterRel, func() callResult {
				st, err := p.mux[0].OpenStream(ctx)
				if st != nil {
					st.Close()
				}
				return callResult{err: err}
			})
			if kindOf(res) == "canceled" {
				canceled++
			} else {
				other++
			}
		}
		time.Sleep(2 * time.Millisecond)
		acancel()
	} else {
		a, _, err := openPairWatch(p)
		for i := 0; i < in.Reps && err == nil && !isClosedChan(p.mux[0].Closed()); i++ {
			// stall the carrier towards the peer and put every write buffer in flight
			d := p.l.dir[0]
			d.mu.Lock()
			d.gated, d.capacity = true, 1
			d.mu.Unlock()
			for j := 0; j < in.Bufs; j++ {
				a.Write([]byte{byte(j)})
			}
			time.Sleep(time.Millisecond)
			ctx, cancel := context.WithCancel(context.Background())
			done := make(chan error, 1)
			go func() { _, e := p.mux[0].OpenStream(ctx); done <- e }()
			select {
			case e := <-done:
				if errKind(e) == "canceled" {
					canceled++
				} else {
					other++
				}
			case <-time.After(10 * time.Millisecond):
				blocked++
				cancel()
				select {
				case e := <-done:
					if errKind(e) == "canceled" {
						canceled++
					} else {
						other++
					}
				case <-time.After(waitAfterRel):
					other++
				}
			}
			cancel()
			// release the carrier
			d.mu.Lock()
			d.capacity = 0
			d.mu.Unlock()
			d.setGated(false)
			time.Sleep(2 * time.Millisecond)
		}
	}
	okAfter := normalUse(p, 40)
	time.Sleep(2 * time.Millisecond)
	r.add(map[string]any{"ev": "OpenCancel", "variant": in.Variant, "reps": in.Reps, "canceled": canceled, "other": other,
		"blockedFirst": blocked, "normalBefore": okBefore, "normalAfter": okAfter, "t": nowMs()})
	r.add(p.endRecord(false))
	return r
}

// ---- random gated scripts ---------------------------------------------------

func absInt(v int) int {
	if v < 0 {
		return -v
	}
	return v
}

// randomScript generates an API script beyond the model's bound (more streams,
// larger windows, longer). Steps that do not apply when executed are skipped
// by the runner and recorded as such.
func randomScript(rng *rand.Rand) scriptIn {
	// configuration edge cases included: window 0 / negative (no inbound data), backlog 0 (means 1), buffer count -1 (means 1)
	in := scriptIn{Mode: "script", W: []int{1, 2, 3, 7, 1, 2, 0, -1}[rng.Intn(8)], B: rng.Intn(3), Bufs: []int{1, 2, 5, -1}[rng.Intn(4)]}
	if rng.Intn(5) == 0 {
		in.IDTop = 3 // identifiers 1..3 stand for MaxUint64-2 .. MaxUint64: exhaustion after 2 opens (odd side) / 1 open (even side)
	}
	inject := rng.Intn(6) == 0
	n := 25 + rng.Intn(40)
	nopen := [2]int{}
	nopenc := [2]int{}
	ids := func(e int) []int {
		var out []int
		for i := 0; i < nopen[0]; i++ {
			out = append(out, 1+2*i)
		}
		for i := 0; i < nopen[1]; i++ {
			out = append(out, 2+2*i)
		}
		return out
	}
	for i := 0; i < n; i++ {
		e := rng.Intn(2)
		all := ids(e)
		pick := func() int {
			if len(all) == 0 {
				return 1
			}
			return all[rng.Intn(len(all))]
		}
		if inject && rng.Intn(12) == 0 {
			in.Steps = append(in.Steps, step{Op: "inject", E: e, S: 1 + rng.Intn(6), N: rng.Intn(6)})
			continue
		}
		switch x := rng.Intn(100); {
		case x < 8 && nopen[e] < 4:
			in.Steps = append(in.Steps, step{Op: "open", E: e})
			nopen[e]++
		case x < 10 && nopenc[e] < 3: // each may consume an identifier; recorded identifiers must stay <= 16
			in.Steps = append(in.Steps, step{Op: "openc", E: e})
			nopenc[e]++
		case x < 17:
			in.Steps = append(in.Steps, step{Op: "accept", E: e})
		case x < 22:
			in.Steps = append(in.Steps, step{Op: "openret", E: e, S: pick()})
		case x < 24:
			in.Steps = append(in.Steps, step{Op: "cancel", E: e, S: pick()})
		case x < 50:
			in.Steps = append(in.Steps, step{Op: "recv", E: e})
		case x < 54:
			in.Steps = append(in.Steps, step{Op: []string{"setwd", "setrd"}[rng.Intn(2)], E: e, S: pick(), N: rng.Intn(4)})
		case x < 58:
			in.Steps = append(in.Steps, step{Op: "wstart", E: e, S: pick(), N: 1 + rng.Intn(absInt(in.W)+2)})
		case x < 61:
			in.Steps = append(in.Steps, step{Op: "rstart", E: e, S: pick(), N: 1 + rng.Intn(absInt(in.W)+1)})
		case x < 65:
			in.Steps = append(in.Steps, step{Op: []string{"wend", "rend"}[rng.Intn(2)], E: e, S: pick()})
		case x < 76:
			in.Steps = append(in.Steps, step{Op: "write", E: e, S: pick(), N: rng.Intn(absInt(in.W) + 3)})
		case x < 92:
			in.Steps = append(in.Steps, step{Op: "read", E: e, S: pick(), N: rng.Intn(absInt(in.W) + 2)})
		case x < 96:
			in.Steps = append(in.Steps, step{Op: "cw", E: e, S: pick()})
		default:
			in.Steps = append(in.Steps, step{Op: "close", E: e, S: pick()})
		}
	}
	return in
}
