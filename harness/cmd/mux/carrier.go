package main

// In-memory carrier for two real multiplexers, with a wire tap and an optional
// delivery gate. This file contains no mutagen code: it parses the documented
// wire format (pkg/multiplexing/protocol.go) independently.

import (
	"encoding/binary"
	"errors"
	"io"
	"sync"
	"time"
)

// wireMsg is one protocol message seen by the tap.
type wireMsg struct {
	Kind   string // "hb" "open" "accept" "data" "inc" "cw" "close" or "bad"
	Stream uint64
	Arg    uint64 // window (open/accept), increment (inc), length (data)
	Data   []byte
	raw    []byte
}

var kindNames = []string{"hb", "open", "accept", "data", "inc", "cw", "close"}

// parseOne tries to parse one complete message from b. It returns the message
// and the number of bytes it occupies, or n == 0 if b holds no complete message.
func parseOne(b []byte) (m wireMsg, n int) {
	if len(b) == 0 {
		return m, 0
	}
	k := int(b[0])
	if k >= len(kindNames) {
		return wireMsg{Kind: "bad", raw: append([]byte(nil), b[:1]...)}, 1
	}
	m.Kind = kindNames[k]
	if k == 0 {
		m.raw = []byte{0}
		return m, 1
	}
	id, w := binary.Uvarint(b[1:])
	if w == 0 {
		return m, 0
	} else if w < 0 {
		return wireMsg{Kind: "bad", raw: append([]byte(nil), b[:1]...)}, 1
	}
	m.Stream = id
	p := 1 + w
	switch m.Kind {
	case "open", "accept", "inc":
		a, w2 := binary.Uvarint(b[p:])
		if w2 == 0 {
			return m, 0
		} else if w2 < 0 {
			return wireMsg{Kind: "bad", raw: append([]byte(nil), b[:1]...)}, 1
		}
		m.Arg = a
		p += w2
	case "data":
		if len(b) < p+2 {
			return m, 0
		}
		l := int(binary.BigEndian.Uint16(b[p : p+2]))
		p += 2
		if len(b) < p+l {
			return m, 0
		}
		m.Arg = uint64(l)
		m.Data = append([]byte(nil), b[p:p+l]...)
		p += l
	}
	m.raw = append([]byte(nil), b[:p]...)
	return m, p
}

// direction is the byte pipe from one endpoint's writer to the other
// endpoint's reader.
type direction struct {
	mu       sync.Mutex
	cond     *sync.Cond
	from     int                 // sending endpoint
	tap      func(int, *wireMsg) // called under mu for every complete message, in wire order
	partial  []byte              // bytes written that do not yet form a complete message
	queue    []*wireMsg          // complete messages not yet released to the reader
	queued   int                 // bytes in queue
	released []byte              // bytes the reader may consume
	gated    bool                // true: messages are released only by Deliver
	capacity int                 // >0: Write blocks while more than capacity bytes are unconsumed
	wclosed  bool                // writer side closed
	rclosed  bool                // reader side closed
	waiting  bool                // the reader is blocked with nothing released
	nsent    int                 // complete messages written
	ndeliv   int                 // messages released
	dropTail bool                // fault injection: carrier failure swallows everything
}

func newDirection(from int, tap func(int, *wireMsg)) *direction {
	d := &direction{from: from, tap: tap}
	d.cond = sync.NewCond(&d.mu)
	return d
}

var errCarrierClosed = errors.New("carrier closed")

func (d *direction) write(p []byte) (int, error) {
	d.mu.Lock()
	defer d.mu.Unlock()
	if d.wclosed || d.rclosed {
		return 0, errCarrierClosed
	}
	d.partial = append(d.partial, p...)
	for {
		m, n := parseOne(d.partial)
		if n == 0 {
			break
		}
		d.partial = d.partial[n:]
		mm := m
		d.nsent++
		if d.tap != nil {
			d.tap(d.from, &mm)
		}
		if d.gated {
			d.queue = append(d.queue, &mm)
			d.queued += len(mm.raw)
		} else {
			d.released = append(d.released, mm.raw...)
			d.ndeliv++
		}
	}
	d.cond.Broadcast()
	if d.capacity > 0 {
		for len(d.released)+d.queued > d.capacity && !d.wclosed && !d.rclosed {
			d.cond.Wait()
		}
		if d.wclosed || d.rclosed {
			return len(p), errCarrierClosed
		}
	}
	return len(p), nil
}

// waitData blocks until released bytes exist or the pipe is closed. mu held.
func (d *direction) waitData() error {
	for len(d.released) == 0 {
		if d.rclosed {
			return errCarrierClosed
		}
		if d.wclosed && len(d.queue) == 0 {
			return io.EOF
		}
		d.waiting = true
		d.cond.Broadcast()
		d.cond.Wait()
	}
	d.waiting = false
	return nil
}

func (d *direction) read(p []byte) (int, error) {
	if len(p) == 0 {
		return 0, nil
	}
	d.mu.Lock()
	defer d.mu.Unlock()
	if err := d.waitData(); err != nil {
		return 0, err
	}
	n := copy(p, d.released)
	d.released = d.released[n:]
	d.cond.Broadcast()
	return n, nil
}

func (d *direction) readByte() (byte, error) {
	d.mu.Lock()
	defer d.mu.Unlock()
	if err := d.waitData(); err != nil {
		return 0, err
	}
	b := d.released[0]
	d.released = d.released[1:]
	d.cond.Broadcast()
	return b, nil
}

func (d *direction) discard(n int) (int, error) {
	done := 0
	buf := make([]byte, 512)
	for done < n {
		want := n - done
		if want > len(buf) {
			want = len(buf)
		}
		k, err := d.read(buf[:want])
		done += k
		if err != nil {
			return done, err
		}
	}
	return done, nil
}

// setGated switches between gated and free delivery; leaving gated mode
// releases everything queued.
func (d *direction) setGated(g bool) {
	d.mu.Lock()
	d.gated = g
	if !g {
		for _, m := range d.queue {
			d.released = append(d.released, m.raw...)
			d.ndeliv++
		}
		d.queue = nil
		d.queued = 0
	}
	d.cond.Broadcast()
	d.mu.Unlock()
}

// waitFor runs pred under mu until it is true or the timeout passes.
func (d *direction) waitFor(timeout time.Duration, pred func() bool) bool {
	deadline := time.Now().Add(timeout)
	d.mu.Lock()
	defer d.mu.Unlock()
	for !pred() {
		if time.Now().After(deadline) {
			return false
		}
		// sync.Cond has no timed wait: poll with a short sleep outside the lock
		d.mu.Unlock()
		time.Sleep(200 * time.Microsecond)
		d.mu.Lock()
	}
	return true
}

// deliver releases the oldest queued message to the reader and waits until the
// reader has consumed it and is waiting for more (its processing of the message
// is then complete) or the pipe is closed. It returns the message, or nil when
// nothing was queued within wait.
func (d *direction) deliver(wait, settle time.Duration) (*wireMsg, bool) {
	if !d.waitFor(wait, func() bool { return len(d.queue) > 0 || d.rclosed || d.wclosed }) {
		return nil, false
	}
	d.mu.Lock()
	if len(d.queue) == 0 {
		d.mu.Unlock()
		return nil, false
	}
	m := d.queue[0]
	d.queue = d.queue[1:]
	d.queued -= len(m.raw)
	d.released = append(d.released, m.raw...)
	d.ndeliv++
	d.waiting = false
	d.cond.Broadcast()
	d.mu.Unlock()
	ok := d.waitFor(settle, func() bool { return (len(d.released) == 0 && d.waiting) || d.rclosed })
	return m, ok
}

// deliverPartial releases only the first n bytes of the oldest queued message (its
// header and part of its payload) and waits until the reader has consumed them and
// waits for the rest. The remainder stays queued.
func (d *direction) deliverPartial(n int, settle time.Duration) bool {
	d.mu.Lock()
	if len(d.queue) == 0 || n >= len(d.queue[0].raw) {
		d.mu.Unlock()
		return false
	}
	m := d.queue[0]
	d.released = append(d.released, m.raw[:n]...)
	rest := *m
	rest.raw = append([]byte(nil), m.raw[n:]...)
	d.queue[0] = &rest
	d.queued -= n
	d.waiting = false
	d.cond.Broadcast()
	d.mu.Unlock()
	return d.waitFor(settle, func() bool { return (len(d.released) == 0 && d.waiting) || d.rclosed })
}

// inject queues a crafted message as if the sender had written it (gated mode).
func (d *direction) inject(m *wireMsg) {
	d.mu.Lock()
	d.queue = append(d.queue, m)
	d.queued += len(m.raw)
	d.cond.Broadcast()
	d.mu.Unlock()
}

// encodeMsg builds the wire form of a message.
func encodeMsg(kind string, stream, arg uint64, data []byte) *wireMsg {
	m := &wireMsg{Kind: kind, Stream: stream, Arg: arg, Data: data}
	k := 0
	for i, n := range kindNames {
		if n == kind {
			k = i
		}
	}
	raw := []byte{byte(k)}
	raw = binary.AppendUvarint(raw, stream)
	switch kind {
	case "open", "accept", "inc":
		raw = binary.AppendUvarint(raw, arg)
	case "data":
		raw = append(raw, byte(len(data)>>8), byte(len(data)))
		raw = append(raw, data...)
		m.Arg = uint64(len(data))
	}
	m.raw = raw
	return m
}

func (d *direction) sent() int {
	d.mu.Lock()
	defer d.mu.Unlock()
	return d.nsent
}

func (d *direction) pendingCount() int {
	d.mu.Lock()
	defer d.mu.Unlock()
	return len(d.queue)
}

// idle reports whether everything written was consumed and the reader waits.
func (d *direction) idle() bool {
	d.mu.Lock()
	defer d.mu.Unlock()
	return len(d.queue) == 0 && len(d.released) == 0 && len(d.partial) == 0 && (d.waiting || d.rclosed || d.wclosed)
}

func (d *direction) closeWriter() {
	d.mu.Lock()
	d.wclosed = true
	d.cond.Broadcast()
	d.mu.Unlock()
}

func (d *direction) closeReader() {
	d.mu.Lock()
	d.rclosed = true
	d.cond.Broadcast()
	d.mu.Unlock()
}

// endpointCarrier is what one multiplexer sees (multiplexing.Carrier).
type endpointCarrier struct {
	in  *direction // peer -> me
	out *direction // me -> peer
}

func (c *endpointCarrier) Read(p []byte) (int, error)  { return c.in.read(p) }
func (c *endpointCarrier) ReadByte() (byte, error)     { return c.in.readByte() }
func (c *endpointCarrier) Discard(n int) (int, error)  { return c.in.discard(n) }
func (c *endpointCarrier) Write(p []byte) (int, error) { return c.out.write(p) }
func (c *endpointCarrier) Close() error {
	c.in.closeReader()
	c.out.closeWriter()
	return nil
}

// link is the pair of directions between endpoint 0 and endpoint 1.
type link struct {
	dir [2]*direction // dir[e]: written by endpoint e
	end [2]*endpointCarrier
}

func newLink(tap func(int, *wireMsg), gated bool, capacity int) *link {
	l := &link{}
	for e := 0; e < 2; e++ {
		l.dir[e] = newDirection(e, tap)
		l.dir[e].gated = gated
		l.dir[e].capacity = capacity
	}
	l.end[0] = &endpointCarrier{in: l.dir[1], out: l.dir[0]}
	l.end[1] = &endpointCarrier{in: l.dir[0], out: l.dir[1]}
	return l
}

// fail simulates a carrier failure: both directions die.
func (l *link) fail() {
	for e := 0; e < 2; e++ {
		l.dir[e].closeReader()
		l.dir[e].closeWriter()
	}
}
