package main

// Recording helpers: one recorder per case collects records under one mutex
// (the order of records is therefore a sound causal order: a record emitted
// before a real call starts precedes everything that call causes; a record
// emitted after a real call returned follows everything the result depends on).

import (
	"context"
	"errors"
	"io"
	"net"
	"os"
	"strconv"
	"strings"
	"sync"
	"time"

	"github.com/mutagen-io/mutagen/pkg/multiplexing"
)

var epoch = time.Now()

func nowMs() int { return int(time.Since(epoch) / time.Millisecond) }

type recorder struct {
	mu   sync.Mutex
	cid  string
	recs []map[string]any
	// tap statistics
	dataMsgs int
	incMsgs  int
	opens    [2][]uint64 // identifiers of open messages seen per sender
	idBase   uint64      // identifiers are recorded relative to this base (cases run at the top of the identifier space)
}

// sid converts a real stream identifier to the recorded one.
func (r *recorder) sid(id uint64) int { return int(clamp(id - r.idBase)) }

func newRecorder(cid string) *recorder { return &recorder{cid: cid} }

func (r *recorder) add(rec map[string]any) {
	r.mu.Lock()
	rec["cid"] = r.cid
	r.recs = append(r.recs, rec)
	r.mu.Unlock()
}

func ints(b []byte) []int {
	out := make([]int, len(b))
	for i, v := range b {
		out[i] = int(v)
	}
	return out
}

// tap is installed in the carrier; it runs under the direction's mutex.
func (r *recorder) tap(withData, record bool) func(int, *wireMsg) {
	return func(from int, m *wireMsg) {
		if m.Kind == "hb" {
			return
		}
		rec := map[string]any{"ev": "Wire", "e": from, "k": m.Kind, "s": r.sid(m.Stream), "a": int(clamp(m.Arg)), "d": []int{}}
		if withData && m.Kind == "data" {
			rec["d"] = ints(m.Data)
		}
		r.mu.Lock()
		rec["cid"] = r.cid
		if record {
			r.recs = append(r.recs, rec)
		}
		switch m.Kind {
		case "data":
			r.dataMsgs++
		case "inc":
			r.incMsgs++
		case "open":
			r.opens[from] = append(r.opens[from], m.Stream)
		}
		r.mu.Unlock()
	}
}

func (r *recorder) openCount(e int) int {
	r.mu.Lock()
	defer r.mu.Unlock()
	return len(r.opens[e])
}

func (r *recorder) openID(e, idx int) int {
	r.mu.Lock()
	defer r.mu.Unlock()
	if idx < len(r.opens[e]) {
		return r.sid(r.opens[e][idx])
	}
	return 0
}

// clamp keeps numbers inside TLC's 32-bit integers.
func clamp(v uint64) uint64 {
	if v > 1<<30 {
		return 1 << 30
	}
	return v
}

// errKind classifies an error returned by the real code into a short ASCII name.
func errKind(err error) string {
	switch {
	case err == nil:
		return ""
	case err == io.EOF:
		return "EOF"
	case errors.Is(err, multiplexing.ErrWriteClosed):
		return "wclosed"
	case errors.Is(err, multiplexing.ErrMultiplexerClosed):
		return "muxclosed"
	case errors.Is(err, multiplexing.ErrStreamRejected):
		return "rejected"
	case errors.Is(err, os.ErrDeadlineExceeded):
		return "timeout"
	case errors.Is(err, context.Canceled), errors.Is(err, context.DeadlineExceeded):
		return "canceled"
	case err.Error() == "local stream identifiers exhausted":
		return "exhausted"
	case errors.Is(err, net.ErrClosed):
		if strings.HasPrefix(err.Error(), "remote") {
			return "rclosed"
		}
		return "closed"
	}
	return "other:" + ascii(err.Error())
}

func ascii(s string) string {
	var b strings.Builder
	for _, c := range s {
		if c >= 32 && c < 127 && c != '"' && c != '\\' {
			b.WriteRune(c)
		} else {
			b.WriteByte('?')
		}
	}
	if b.Len() > 120 {
		return b.String()[:120]
	}
	return b.String()
}

func ierrText(m *multiplexing.Multiplexer) string {
	if e := m.InternalError(); e != nil {
		return ascii(e.Error())
	}
	return ""
}

func isClosedChan(ch <-chan struct{}) bool {
	select {
	case <-ch:
		return true
	default:
		return false
	}
}

// streamIDu extracts the identifier from the public address of a stream ("local:N").
func streamIDu(s *multiplexing.Stream) uint64 {
	a := s.LocalAddr().String()
	if i := strings.IndexByte(a, ':'); i >= 0 {
		if n, err := strconv.ParseUint(a[i+1:], 10, 64); err == nil {
			return n
		}
	}
	return 0
}

func streamID(s *multiplexing.Stream) int { return int(clamp(streamIDu(s))) }

// callResult is the outcome of one real call run under a watchdog.
type callResult struct {
	n      int
	err    error
	stream *multiplexing.Stream
	hung   bool
}

// watchdog runs f in a goroutine and waits at most d for it.
func watchdog(d time.Duration, f func() callResult) callResult {
	ch := make(chan callResult, 1)
	go func() { ch <- f() }()
	t := time.NewTimer(d)
	defer t.Stop()
	select {
	case r := <-ch:
		return r
	case <-t.C:
		return callResult{hung: true}
	}
}

func kindOf(r callResult) string {
	if r.hung {
		return "watchdog"
	}
	return errKind(r.err)
}

// hbReceive is the MaximumHeartbeatReceiveInterval used by newPair (0: heartbeats not required).
func muxConfig(w, b, bufs int, hb, hbReceive time.Duration) *multiplexing.Configuration {
	c := multiplexing.DefaultConfiguration()
	c.StreamReceiveWindow = w
	c.AcceptBacklog = b
	c.WriteBufferCount = bufs
	c.HeartbeatTransmitInterval = hb
	c.MaximumHeartbeatReceiveInterval = hbReceive
	return c
}

// pair is two real multiplexers over an in-memory link.
type pair struct {
	l   *link
	mux [2]*multiplexing.Multiplexer
}

func newPair(tap func(int, *wireMsg), gated bool, capacity, w, b, bufs int, hb time.Duration) *pair {
	return newPairHB(tap, gated, capacity, w, b, bufs, hb, 0)
}

func newPairHB(tap func(int, *wireMsg), gated bool, capacity, w, b, bufs int, hb, hbReceive time.Duration) *pair {
	p := &pair{l: newLink(tap, gated, capacity)}
	p.mux[0] = multiplexing.Multiplex(p.l.end[0], false, muxConfig(w, b, bufs, hb, hbReceive))
	p.mux[1] = multiplexing.Multiplex(p.l.end[1], true, muxConfig(w, b, bufs, hb, hbReceive))
	return p
}

func (p *pair) endRecord(explicit bool) map[string]any {
	return map[string]any{"ev": "End",
		"closed":   []bool{isClosedChan(p.mux[0].Closed()), isClosedChan(p.mux[1].Closed())},
		"ierr":     []string{ierrText(p.mux[0]), ierrText(p.mux[1])},
		"explicit": explicit, "t": nowMs()}
}

func (p *pair) shutdown() {
	p.mux[0].Close()
	p.mux[1].Close()
	p.l.fail()
}

// content of the i-th byte written by endpoint e on stream s (driver's choice of data)
// high nibble: (stream, direction) tag; low nibble: position-dependent pattern
func byteAt(e, s, i int) byte { return byte(((s*2+e)%16)<<4 | ((i*7 + i/16) % 16)) }

func payload(e, s, from, n int) []byte {
	out := make([]byte, n)
	for i := range out {
		out[i] = byteAt(e, s, from+i)
	}
	return out
}
