package main

// Deterministic replay of an API script (exported by TLC from Mux_MC, or
// generated randomly) on two real multiplexers. Message delivery is gated: a
// message written by one side reaches the other side's reader only at a "recv"
// step, and the step returns when that reader has finished processing it. All
// API calls are issued sequentially; calls that would block are bounded by a
// short stream deadline / context, so the recorded results are a function of
// the script (up to the scheduling of the enqueue goroutine and the documented
// random select in acceptOneStream).

import (
	"context"
	"math"
	"time"

	"github.com/mutagen-io/mutagen/pkg/multiplexing"
)

type step struct {
	Op string `json:"op"`
	E  int    `json:"e"`
	S  int    `json:"s"`
	N  int    `json:"n"`
}

type scriptIn struct {
	Mode  string   `json:"mode"`
	W     int      `json:"w"`
	B     int      `json:"b"`
	Bufs  int      `json:"bufs"`
	Steps []step   `json:"steps"`
	Kinds []string `json:"kinds,omitempty"` // export information from the model (which state-preserving calls occur)
	IDTop int      `json:"idtop,omitempty"` // >0: run at the top of the identifier space; the value is the recorded number of math.MaxUint64
}

type pendingOpen struct {
	id     int
	cancel context.CancelFunc
	ch     chan callResult
	done   chan struct{}
}

const (
	opDeadline = 20 * time.Millisecond
	opWatchdog = 4 * time.Second
)

func waitUntil(d time.Duration, pred func() bool) bool {
	deadline := time.Now().Add(d)
	for !pred() {
		if time.Now().After(deadline) {
			return false
		}
		time.Sleep(100 * time.Microsecond)
	}
	return true
}

// blockedCall is a Read or Write issued without a deadline; it may stay blocked.
type blockedCall struct {
	done chan struct{}
	res  callResult
	buf  []byte
	k    int
}

func (b *blockedCall) finished() bool { return isClosedChan(b.done) }

type scriptRun struct {
	r       *recorder
	p       *pair
	streams [2]map[int]*multiplexing.Stream
	closed  [2]map[int]bool // locally closed by the script
	pend    [2]map[int]*pendingOpen
	wpos    [2]map[int]int
	bw      [2]map[int]*blockedCall // Write in progress (wstart .. wend)
	br      [2]map[int]*blockedCall // Read in progress (rstart .. rend)
}

// waitBlockedOrDone returns when the call has returned or is observably blocked:
// not returned and no new message written by its side for a while.
func (x *scriptRun) waitBlockedOrDone(e int, b *blockedCall) {
	start := time.Now()
	last := x.p.l.dir[e].sent()
	lastChange := start
	for {
		if b.finished() {
			return
		}
		now := time.Now()
		if n := x.p.l.dir[e].sent(); n != last {
			last, lastChange = n, now
		}
		if now.Sub(start) >= 3*time.Millisecond && now.Sub(lastChange) >= 2*time.Millisecond {
			return
		}
		if now.Sub(start) > opWatchdog {
			return
		}
		time.Sleep(100 * time.Microsecond)
	}
}

// settleCalls gives calls in progress on (e, s) a moment to return after an event that releases them.
func (x *scriptRun) settleCalls(e, s int) {
	for _, b := range []*blockedCall{x.bw[e][s], x.br[e][s]} {
		if b != nil {
			waitUntil(5*time.Millisecond, b.finished)
		}
	}
}

func (x *scriptRun) wstart(e, s, n int) {
	st := x.streams[e][s]
	data := payload(e, s, x.wpos[e][s], n)
	b := &blockedCall{done: make(chan struct{})}
	x.bw[e][s] = b
	x.r.add(map[string]any{"ev": "Call", "e": e, "op": "write", "s": s, "k": n, "d": ints(data), "blk": true, "t": nowMs()})
	go func() {
		k, err := st.Write(data)
		b.res = callResult{n: k, err: err}
		close(b.done)
	}()
	x.waitBlockedOrDone(e, b)
}

// wend records the return of a Write in progress; false if it has not returned within wait.
func (x *scriptRun) wend(e, s int, wait time.Duration) bool {
	b := x.bw[e][s]
	if !waitUntil(wait, b.finished) {
		return false
	}
	x.wpos[e][s] += b.res.n
	x.r.add(map[string]any{"ev": "Ret", "e": e, "op": "write", "s": s, "sid": 0, "k": 0, "n": b.res.n,
		"d": []int{}, "err": errKind(b.res.err), "blk": true, "t": nowMs()})
	delete(x.bw[e], s)
	return true
}

func (x *scriptRun) rstart(e, s, k int) {
	st := x.streams[e][s]
	b := &blockedCall{done: make(chan struct{}), buf: make([]byte, k), k: k}
	x.br[e][s] = b
	x.r.add(map[string]any{"ev": "Call", "e": e, "op": "read", "s": s, "k": k, "d": []int{}, "blk": true, "t": nowMs()})
	go func() {
		c, err := st.Read(b.buf)
		b.res = callResult{n: c, err: err}
		close(b.done)
	}()
	x.waitBlockedOrDone(e, b)
}

func (x *scriptRun) rend(e, s int, wait time.Duration) bool {
	b := x.br[e][s]
	if !waitUntil(wait, b.finished) {
		return false
	}
	x.r.add(map[string]any{"ev": "Ret", "e": e, "op": "read", "s": s, "sid": 0, "k": b.k, "n": b.res.n,
		"d": ints(b.buf[:b.res.n]), "err": errKind(b.res.err), "blk": true, "t": nowMs()})
	delete(x.br[e], s)
	return true
}

// setDeadline: mode 0 clear, 1 past, 2 far future, 3 near future that is then allowed to pass.
func (x *scriptRun) setDeadline(e, s int, op string, mode int) {
	st := x.streams[e][s]
	var dl time.Time
	switch mode {
	case 1:
		dl = time.Now().Add(-time.Second)
	case 2:
		dl = time.Now().Add(time.Hour)
	case 3:
		dl = time.Now().Add(2 * time.Millisecond)
	}
	res := watchdog(opWatchdog, func() callResult {
		if op == "setwd" {
			return callResult{err: st.SetWriteDeadline(dl)}
		}
		return callResult{err: st.SetReadDeadline(dl)}
	})
	if mode == 3 {
		time.Sleep(time.Until(dl) + 3*time.Millisecond)
	}
	x.r.add(map[string]any{"ev": "Ret", "e": e, "op": op, "s": s, "sid": 0, "k": mode, "n": 0,
		"d": []int{}, "err": kindOf(res), "t": nowMs()})
	x.settleCalls(e, s)
}

func (x *scriptRun) skip(st step, why string) {
	x.r.add(map[string]any{"ev": "Skip", "op": st.Op, "e": st.E, "s": st.S, "why": why})
}

func (x *scriptRun) open(e int) {
	before := x.r.openCount(e)
	ctx, cancel := context.WithCancel(context.Background())
	po := &pendingOpen{cancel: cancel, ch: make(chan callResult, 1), done: make(chan struct{})}
	m := x.p.mux[e]
	go func() {
		s, err := m.OpenStream(ctx)
		po.ch <- callResult{stream: s, err: err}
		close(po.done)
	}()
	waitUntil(opWatchdog, func() bool {
		return x.r.openCount(e) > before || isClosedChan(m.Closed()) || isClosedChan(po.done)
	})
	po.id = x.r.openID(e, before)
	// recorded once the identifier is known from the tap (0: no open message appeared)
	x.r.add(map[string]any{"ev": "Call", "e": e, "op": "open", "s": po.id, "k": 0, "d": []int{}, "t": nowMs()})
	if po.id == 0 {
		// no open message: the call must have failed at once
		x.finishOpen(e, po, opWatchdog)
		return
	}
	x.pend[e][po.id] = po
}

// finishOpen waits for a pending OpenStream and records its return.
func (x *scriptRun) finishOpen(e int, po *pendingOpen, wait time.Duration) bool {
	t := time.NewTimer(wait)
	defer t.Stop()
	select {
	case res := <-po.ch:
		sid := 0
		if res.stream != nil {
			sid = x.r.sid(streamIDu(res.stream))
			x.streams[e][sid] = res.stream
		}
		x.r.add(map[string]any{"ev": "Ret", "e": e, "op": "open", "s": po.id, "sid": sid, "k": 0, "n": 0,
			"d": []int{}, "err": errKind(res.err), "t": nowMs()})
		delete(x.pend[e], po.id)
		po.cancel()
		return true
	case <-t.C:
		return false
	}
}

// openCancelled calls OpenStream with a context that is already cancelled.
func (x *scriptRun) openCancelled(e int) {
	before := x.r.openCount(e)
	ctx, cancel := context.WithCancel(context.Background())
	cancel()
	m := x.p.mux[e]
	res := watchdog(opWatchdog, func() callResult {
		s, err := m.OpenStream(ctx)
		return callResult{stream: s, err: err}
	})
	// if the call got as far as queuing its open message, the message shows up on the tap shortly
	waitUntil(2*time.Millisecond, func() bool { return x.r.openCount(e) > before })
	id, sid := x.r.openID(e, before), 0
	if res.stream != nil { // cannot happen with a cancelled context unless the select favoured establishment
		sid = x.r.sid(streamIDu(res.stream))
		x.streams[e][sid] = res.stream
	}
	x.r.add(map[string]any{"ev": "Ret", "e": e, "op": "open", "s": id, "sid": sid, "k": 0, "n": 0,
		"d": []int{}, "err": kindOf(res), "pre": true, "t": nowMs()})
}

func (x *scriptRun) accept(e int) {
	ctx, cancel := context.WithTimeout(context.Background(), opDeadline)
	defer cancel()
	m := x.p.mux[e]
	res := watchdog(opWatchdog, func() callResult {
		s, err := m.AcceptStream(ctx)
		return callResult{stream: s, err: err}
	})
	sid := 0
	if res.stream != nil {
		sid = x.r.sid(streamIDu(res.stream))
		x.streams[e][sid] = res.stream
	}
	x.r.add(map[string]any{"ev": "Ret", "e": e, "op": "accept", "s": sid, "sid": sid, "k": 0, "n": 0,
		"d": []int{}, "err": kindOf(res), "t": nowMs()})
}

func (x *scriptRun) write(e, s, n int) {
	st := x.streams[e][s]
	data := payload(e, s, x.wpos[e][s], n)
	x.r.add(map[string]any{"ev": "Call", "e": e, "op": "write", "s": s, "k": n, "d": ints(data), "t": nowMs()})
	res := watchdog(opWatchdog, func() callResult {
		st.SetWriteDeadline(time.Now().Add(opDeadline))
		k, err := st.Write(data)
		st.SetWriteDeadline(time.Time{})
		return callResult{n: k, err: err}
	})
	x.wpos[e][s] += res.n
	x.r.add(map[string]any{"ev": "Ret", "e": e, "op": "write", "s": s, "sid": 0, "k": n, "n": res.n,
		"d": []int{}, "err": kindOf(res), "t": nowMs()})
}

// read performs one Read with a buffer of k bytes and returns the error kind.
func (x *scriptRun) read(e, s, k int) string {
	st := x.streams[e][s]
	buf := make([]byte, k)
	res := watchdog(opWatchdog, func() callResult {
		st.SetReadDeadline(time.Now().Add(opDeadline))
		c, err := st.Read(buf)
		st.SetReadDeadline(time.Time{})
		return callResult{n: c, err: err}
	})
	x.r.add(map[string]any{"ev": "Ret", "e": e, "op": "read", "s": s, "sid": 0, "k": k, "n": res.n,
		"d": ints(buf[:res.n]), "err": kindOf(res), "t": nowMs()})
	return kindOf(res)
}

func (x *scriptRun) closeOp(e, s int, op string) {
	st := x.streams[e][s]
	x.r.add(map[string]any{"ev": "Call", "e": e, "op": op, "s": s, "k": 0, "d": []int{}, "t": nowMs()})
	res := watchdog(opWatchdog, func() callResult {
		if op == "cw" {
			return callResult{err: st.CloseWrite()}
		}
		return callResult{err: st.Close()}
	})
	if op == "close" {
		x.closed[e][s] = true
	}
	x.r.add(map[string]any{"ev": "Ret", "e": e, "op": op, "s": s, "sid": 0, "k": 0, "n": 0,
		"d": []int{}, "err": kindOf(res), "t": nowMs()})
	x.settleCalls(e, s)
}

// recv delivers the oldest message in flight towards endpoint e.
func (x *scriptRun) recv(e int, wait time.Duration) bool {
	d := x.p.l.dir[1-e]
	m, settled := d.deliver(wait, opWatchdog)
	if m == nil {
		return false
	}
	x.r.add(map[string]any{"ev": "Dlv", "e": e, "k": m.Kind, "s": x.r.sid(m.Stream), "a": int(clamp(m.Arg)),
		"d": ints(m.Data), "settled": settled, "t": nowMs()})
	return true
}

// deliverAll delivers everything in flight until both directions stay quiet.
func (x *scriptRun) deliverAll() {
	quiet := 0
	for quiet < 8 {
		moved := false
		for e := 0; e < 2; e++ {
			for x.p.l.dir[1-e].pendingCount() > 0 {
				if x.recv(e, 0) {
					moved = true
				} else {
					break
				}
			}
		}
		if moved {
			quiet = 0
		} else {
			quiet++
			time.Sleep(250 * time.Microsecond)
		}
	}
}

func runScript(cid string, in scriptIn) *recorder {
	r := newRecorder(cid)
	if in.Bufs == 0 { // unspecified (negative values are passed on to exercise Configuration.normalize)
		in.Bufs = 5
	}
	begin := map[string]any{"ev": "Begin", "begin": true, "mode": "script", "w": in.W, "b": in.B, "in": in}
	for _, st := range in.Steps {
		if st.Op == "inject" {
			begin["corrupt"] = true // the carrier delivers crafted messages: no C23/C24 obligation, conformance counters only
		}
	}
	if in.IDTop > 0 {
		// recorded identifier n stands for math.MaxUint64 - (IDTop - n); IDTop must be odd
		r.idBase = math.MaxUint64 - uint64(in.IDTop)
		begin["idmax"] = in.IDTop
	}
	r.add(begin)
	x := &scriptRun{r: r, p: newPair(r.tap(true, false), true, 0, in.W, in.B, in.Bufs, 0)}
	defer x.p.shutdown()
	if in.IDTop > 0 {
		x.p.mux[0].VerifSetNextOutboundStreamIdentifier(r.idBase + 1)
		x.p.mux[1].VerifSetNextOutboundStreamIdentifier(r.idBase + 2)
	}
	injected := false
	for e := 0; e < 2; e++ {
		x.streams[e] = map[int]*multiplexing.Stream{}
		x.closed[e] = map[int]bool{}
		x.pend[e] = map[int]*pendingOpen{}
		x.wpos[e] = map[int]int{}
		x.bw[e] = map[int]*blockedCall{}
		x.br[e] = map[int]*blockedCall{}
	}
	for _, st := range in.Steps {
		e := st.E
		switch st.Op {
		case "open":
			x.open(e)
		case "openc":
			x.openCancelled(e)
		case "openret":
			if po := x.pend[e][st.S]; po == nil {
				x.skip(st, "no pending open")
			} else if !x.finishOpen(e, po, 300*time.Millisecond) {
				x.skip(st, "open still pending")
			}
		case "cancel":
			if po := x.pend[e][st.S]; po == nil {
				x.skip(st, "no pending open")
			} else {
				x.r.add(map[string]any{"ev": "Call", "e": e, "op": "cancel", "s": st.S, "k": 0, "d": []int{}, "t": nowMs()})
				po.cancel()
				if !x.finishOpen(e, po, opWatchdog) {
					x.r.add(map[string]any{"ev": "Ret", "e": e, "op": "open", "s": po.id, "sid": 0, "k": 0, "n": 0,
						"d": []int{}, "err": "watchdog", "t": nowMs()})
					delete(x.pend[e], po.id)
				}
			}
		case "accept":
			x.accept(e)
		case "write", "read", "cw", "close", "wstart", "wend", "rstart", "rend", "setwd", "setrd":
			if x.streams[e][st.S] == nil {
				x.skip(st, "stream not held")
				continue
			}
			switch st.Op {
			case "write":
				if x.bw[e][st.S] != nil {
					x.skip(st, "write in progress")
				} else {
					x.write(e, st.S, st.N)
				}
			case "read":
				if x.br[e][st.S] != nil {
					x.skip(st, "read in progress")
				} else {
					x.read(e, st.S, st.N)
				}
			case "wstart":
				if x.bw[e][st.S] != nil {
					x.skip(st, "write in progress")
				} else {
					x.wstart(e, st.S, st.N)
				}
			case "wend":
				if x.bw[e][st.S] == nil {
					x.skip(st, "no write in progress")
				} else if !x.wend(e, st.S, 300*time.Millisecond) {
					x.skip(st, "write still blocked")
				}
			case "rstart":
				if x.br[e][st.S] != nil {
					x.skip(st, "read in progress")
				} else {
					x.rstart(e, st.S, st.N)
				}
			case "rend":
				if x.br[e][st.S] == nil {
					x.skip(st, "no read in progress")
				} else if !x.rend(e, st.S, 300*time.Millisecond) {
					x.skip(st, "read still blocked")
				}
			case "setwd", "setrd":
				x.setDeadline(e, st.S, st.Op, st.N)
			default:
				x.closeOp(e, st.S, st.Op)
			}
		case "inject":
			// a crafted message reaches endpoint e as if its peer had written it (the carrier is at fault, not the peer)
			kinds := []string{"accept", "close", "cw", "inc", "data", "open"}
			m := encodeMsg(kinds[st.N%len(kinds)], r.idBase+uint64(st.S), 1, nil)
			if m.Kind == "data" {
				m = encodeMsg("data", r.idBase+uint64(st.S), 1, []byte{7})
			}
			x.p.l.dir[1-e].inject(m)
			injected = true
			x.deliverAll()
		case "recv":
			if !x.recv(e, 60*time.Millisecond) {
				x.skip(st, "nothing in flight")
			}
		default:
			x.skip(st, "unknown step")
		}
	}

	// Final phase: settle, resolve pending opens, half-close every stream still
	// open, and read every stream still open to its end.
	r.add(map[string]any{"ev": "Final", "t": nowMs()})
	x.deliverAll()
	// Writes still in progress: let the peer drain so that they can complete.
	for e := 0; e < 2; e++ {
		for _, s := range sortedCalls(x.bw[e]) {
			deadline := time.Now().Add(3 * time.Second)
			for !x.wend(e, s, time.Millisecond) && time.Now().Before(deadline) {
				if x.streams[1-e][s] == nil || x.closed[1-e][s] || x.br[1-e][s] != nil {
					break
				}
				if k := x.read(1-e, s, 8); k != "" && k != "timeout" {
					break
				}
				x.deliverAll()
			}
		}
	}
	for e := 0; e < 2; e++ {
		for _, po := range sortedPend(x.pend[e]) {
			if x.finishOpen(e, po, 5*time.Millisecond) {
				continue
			}
			x.r.add(map[string]any{"ev": "Call", "e": e, "op": "cancel", "s": po.id, "k": 0, "d": []int{}, "t": nowMs()})
			po.cancel()
			if !x.finishOpen(e, po, opWatchdog) {
				x.r.add(map[string]any{"ev": "Ret", "e": e, "op": "open", "s": po.id, "sid": 0, "k": 0, "n": 0,
					"d": []int{}, "err": "watchdog", "t": nowMs()})
			}
		}
	}
	x.deliverAll()
	for e := 0; e < 2; e++ {
		for _, s := range sortedKeys(x.streams[e]) {
			if !x.closed[e][s] {
				x.closeOp(e, s, "cw")
			}
			if x.bw[e][s] != nil && !x.wend(e, s, opWatchdog) { // released by the close-write
				x.r.add(map[string]any{"ev": "Ret", "e": e, "op": "write", "s": s, "sid": 0, "k": 0, "n": 0,
					"d": []int{}, "err": "watchdog", "blk": true, "t": nowMs()})
			}
		}
	}
	x.deliverAll()
	// Reads still in progress are released by the peer's close-write (data or EOF).
	stuck := [2]map[int]bool{{}, {}}
	for e := 0; e < 2; e++ {
		for _, s := range sortedCalls(x.br[e]) {
			if !x.rend(e, s, opWatchdog) {
				x.r.add(map[string]any{"ev": "Ret", "e": e, "op": "read", "s": s, "sid": 0, "k": 0, "n": 0,
					"d": []int{}, "err": "watchdog", "blk": true, "t": nowMs()})
				stuck[e][s] = true
			}
		}
	}
	for e := 0; e < 2; e++ {
		for _, s := range sortedKeys(x.streams[e]) {
			if x.closed[e][s] || stuck[e][s] {
				continue
			}
			deadline := time.Now().Add(3 * time.Second)
			for iter := 0; iter < 2000; iter++ {
				k := x.read(e, s, 8)
				if k == "" {
					continue
				}
				if k == "timeout" && time.Now().Before(deadline) {
					x.deliverAll()
					continue
				}
				break
			}
		}
	}
	x.deliverAll()
	r.add(x.p.endRecord(injected)) // a corrupted carrier ends the C24 obligation like an explicit close
	return r
}
