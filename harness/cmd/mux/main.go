// Command mux is the conformance driver of the multiplexer family (C23, C24,
// C25). It drives two real multiplexing.Multiplexer objects over an in-memory
// carrier with a wire tap and records what was called, what was returned and
// what crossed the wire. It contains no property predicate: verdicts are
// computed by TLC from spec/mux/Mux_Trace.tla (operators of Mux.tla and MuxTime.tla).
package main

import (
	"encoding/json"
	"fmt"
	"math/rand"
	"runtime"
	"sort"
	"strings"
	"sync"

	"github.com/mutagen-io/mutagen/pkg/multiplexing"

	"verif/harness/internal/vlib"
)

func main() { vlib.Main(run, replay) }

func sortedKeys(m map[int]*multiplexing.Stream) []int {
	out := make([]int, 0, len(m))
	for k := range m {
		out = append(out, k)
	}
	sort.Ints(out)
	return out
}

func sortedCalls(m map[int]*blockedCall) []int {
	out := make([]int, 0, len(m))
	for k := range m {
		out = append(out, k)
	}
	sort.Ints(out)
	return out
}

func sortedPend(m map[int]*pendingOpen) []*pendingOpen {
	ks := make([]int, 0, len(m))
	for k := range m {
		ks = append(ks, k)
	}
	sort.Ints(ks)
	out := make([]*pendingOpen, 0, len(ks))
	for _, k := range ks {
		out = append(out, m[k])
	}
	return out
}

func argInt(c *vlib.Ctx, name string, def int) int {
	for _, a := range c.Args {
		if strings.HasPrefix(a, name+"=") {
			var v int
			if _, err := fmt.Sscanf(a[len(name)+1:], "%d", &v); err == nil {
				return v
			}
		}
	}
	return def
}

// job is one case to execute; its recorder's records are emitted in job order.
type job struct {
	cid string
	run func(cid string) *recorder
}

// runJobs executes the jobs with bounded parallelism and emits the records of
// each case contiguously, in job order.
func runJobs(c *vlib.Ctx, jobs []job, par int) {
	if par < 1 {
		par = 1
	}
	results := make([]*recorder, len(jobs))
	var wg sync.WaitGroup
	sem := make(chan struct{}, par)
	for i := range jobs {
		wg.Add(1)
		sem <- struct{}{}
		go func(i int) {
			defer wg.Done()
			defer func() { <-sem }()
			results[i] = jobs[i].run(jobs[i].cid)
		}(i)
	}
	wg.Wait()
	for _, r := range results {
		account(c, r)
		for _, rec := range r.recs {
			c.Emit(rec)
		}
	}
}

var sampled int

// account updates the run statistics from one recorded case.
func account(c *vlib.Ctx, r *recorder) {
	c.Eval()
	c.TraceDone()
	var begin map[string]any
	data, reads0, eofs, rets, blocks := 0, 0, 0, 0, 0
	for _, rec := range r.recs {
		switch rec["ev"] {
		case "Begin":
			begin = rec
		case "Wire", "Dlv":
			if rec["k"] == "data" {
				data++
			}
		case "Ret":
			rets++
			if rec["op"] == "read" {
				if rec["k"] == 0 {
					reads0++
				}
				if rec["err"] == "EOF" {
					eofs++
				}
			}
		case "Block", "Hol", "Backlog", "Storm", "Heart", "OpenCancel":
			blocks++
		}
	}
	c.AddExtra("api_returns", rets)
	c.AddExtra("data_messages", data)
	c.AddExtra("zero_length_reads", reads0)
	c.AddExtra("eof_reads", eofs)
	if begin == nil {
		return
	}
	key, _ := json.Marshal(begin["in"])
	switch c.Prop {
	case "C25":
		if blocks > 0 {
			c.NonTrivial(string(key))
		}
	default:
		if data > 0 || blocks > 0 {
			c.NonTrivial(string(key))
		}
	}
	sampled++
	if sampled <= 2 || c.Rand.Intn(50) == 0 {
		c.Sample(map[string]any{"begin": begin, "records": len(r.recs), "last": r.recs[len(r.recs)-1]})
	}
}

func hasFollow(s scriptIn) bool {
	for _, k := range s.Kinds {
		if strings.Contains(k, "follow") {
			return true
		}
	}
	return false
}

func parallelism() int {
	n := runtime.NumCPU()
	if n > 12 {
		n = 12
	}
	if n < 2 {
		n = 2
	}
	return n
}

// scriptsFromBehaviours converts the BEHAVIOUR lines exported by TLC.
func scriptsFromBehaviours(c *vlib.Ctx) []scriptIn {
	var out []scriptIn
	for _, b := range c.ReadBehaviours() {
		var in scriptIn
		vlib.Decode(b, &in)
		in.Mode = "script"
		out = append(out, in)
	}
	return out
}

func run(c *vlib.Ctx) error {
	switch c.Prop {
	case "C23", "C24":
		return runStreams(c)
	case "C25":
		return runTiming(c)
	}
	return fmt.Errorf("unknown property %q", c.Prop)
}

func runStreams(c *vlib.Ctx) error {
	var jobs []job
	scripts := scriptsFromBehaviours(c)
	limit := argInt(c, "scripts", 1<<30)
	if len(scripts) > limit {
		// seeded sample; behaviours in which a stream is used again after a deadline ended a
		// blocked call ("follow" kinds) are few and always kept
		rng := rand.New(rand.NewSource(c.Seed))
		rng.Shuffle(len(scripts), func(i, j int) { scripts[i], scripts[j] = scripts[j], scripts[i] })
		sort.SliceStable(scripts, func(i, j int) bool { return hasFollow(scripts[i]) && !hasFollow(scripts[j]) })
		scripts = scripts[:limit]
	} else {
		c.SetExtra("all_exported_behaviours_replayed", true)
	}
	bufChoices := []int{1, 2, 5}
	for i, s := range scripts {
		s := s
		s.Bufs = bufChoices[(i+int(c.Seed))%len(bufChoices)]
		jobs = append(jobs, job{cid: fmt.Sprintf("s%d", i), run: func(cid string) *recorder { return runScript(cid, s) }})
	}
	c.SetExtra("tlc_scripts", len(scripts))
	// seeded random scripts beyond the model's bound (same gated machinery)
	nrs := argInt(c, "randscripts", 100)
	for i := 0; i < nrs; i++ {
		s := randomScript(rand.New(rand.NewSource(c.Seed*1000003 + int64(i))))
		jobs = append(jobs, job{cid: fmt.Sprintf("g%d", i), run: func(cid string) *recorder { return runScript(cid, s) }})
	}
	// seeded concurrent random workloads
	nfree := argInt(c, "free", 40)
	for i := 0; i < nfree; i++ {
		in := randomFree(rand.New(rand.NewSource(c.Seed*7919+int64(i))), c.Seed*7919+int64(i))
		jobs = append(jobs, job{cid: fmt.Sprintf("f%d", i), run: func(cid string) *recorder { return runFree(cid, in) }})
	}
	if argInt(c, "big", 1) > 0 {
		in := bigFree(c.Seed*977 + 5)
		jobs = append(jobs, job{cid: "b0", run: func(cid string) *recorder { return runFree(cid, in) }})
	}
	if c.Prop == "C24" {
		for i, v := range []string{"pre", "stall", "stall"} {
			in := opencIn{Mode: "openc", Variant: v, Reps: argInt(c, "openc", 60), Bufs: []int{5, 1, 2}[i], Seed: c.Seed*53 + int64(i)}
			if v == "stall" {
				in.Reps = in.Reps / 6
			}
			jobs = append(jobs, job{cid: fmt.Sprintf("c%d", i), run: func(cid string) *recorder { return runOpenCancel(cid, in) }})
		}
	}
	if c.Prop == "C24" {
		nst := argInt(c, "storms", 2)
		for i := 0; i < nst; i++ {
			in := stormIn{Mode: "storm", Rounds: argInt(c, "stormrounds", 120), Fan: 24, Seed: c.Seed*31 + int64(i)}
			jobs = append(jobs, job{cid: fmt.Sprintf("o%d", i), run: func(cid string) *recorder { return runStorm(cid, in) }})
		}
	}
	runJobs(c, jobs, parallelism())
	return nil
}

func replay(c *vlib.Ctx) error {
	doc := c.LoadReplay()
	begin, _ := doc["begin"].(map[string]any)
	if begin == nil {
		return fmt.Errorf("replay file has no begin record")
	}
	inAny := begin["in"]
	var head struct {
		Mode string `json:"mode"`
	}
	vlib.Decode(inAny, &head)
	cid, _ := begin["cid"].(string)
	if cid == "" {
		cid = "replay"
	}
	var r *recorder
	switch head.Mode {
	case "script":
		var in scriptIn
		vlib.Decode(inAny, &in)
		r = runScript(cid, in)
	case "free":
		var in freeIn
		vlib.Decode(inAny, &in)
		r = runFree(cid, in)
	case "storm":
		var in stormIn
		vlib.Decode(inAny, &in)
		r = runStorm(cid, in)
	case "openc":
		var in opencIn
		vlib.Decode(inAny, &in)
		r = runOpenCancel(cid, in)
	case "timing":
		var in timingIn
		vlib.Decode(inAny, &in)
		r = runTimingCase(cid, in)
	default:
		return fmt.Errorf("unknown case mode %q", head.Mode)
	}
	account(c, r)
	for _, rec := range r.recs {
		c.Emit(rec)
	}
	return nil
}
