package main

// A scan that fails or is cancelled part-way, followed by a retry that re-uses
// the same hasher (and, for accelerated scans, the same baseline, caches and
// re-check set). The hasher handed to core.Scan is wrapped: once more than
// `limit` bytes of ONE file have been written to it, it fires the abort:
//   cancel   - the scan's context is cancelled (the copy notices after 32 MiB)
//   readerr  - the next read of the file fails (pkg/filesystem's verif fault hook)
//   mismatch - the file grows while it is being hashed ("hashed size mismatch")
// The abandoned attempt's result is discarded; the retry is what is judged.

import (
	"context"
	"hash"
	"os"
	"path/filepath"
	"sync/atomic"
	"syscall"
	"time"
)

const bigName = "big0"

// failNextRead makes the next "read" primitive fail (consulted by armFaults).
var failNextRead atomic.Bool

type trapHasher struct {
	hash.Hash
	since int // bytes written since the last Reset or Sum, i.e. of the file being hashed
	limit int
	fire  func()
	fired bool
}

func (t *trapHasher) Write(p []byte) (int, error) {
	n, err := t.Hash.Write(p)
	t.since += n
	if t.fire != nil && !t.fired && t.since >= t.limit {
		t.fired = true
		t.fire()
	}
	return n, err
}
func (t *trapHasher) Reset()              { t.Hash.Reset(); t.since = 0 }
func (t *trapHasher) Sum(b []byte) []byte { t.since = 0; return t.Hash.Sum(b) }

// placeBig (re)creates the file in which hashing will be abandoned: a sparse
// 40 MiB file for cancellation (the copy checks for cancellation every 32 MiB),
// 300 KB of random data otherwise. version varies size and content.
func (g *gen) placeBig(root, kind string, version int) string {
	p := filepath.Join(root, bigName)
	must(os.RemoveAll(p))
	if kind == "cancel" {
		f, err := os.Create(p)
		must(err)
		must(f.Truncate(int64(40<<20 + 4096*version)))
		f.Close()
	} else {
		must(os.WriteFile(p, content(300_000+version, g.r.Int63()), 0o644))
	}
	g.stamp(p)
	return p
}

// abortedAttempt runs one scan in which hashing of the big file is abandoned and
// leaves the disk as it was. It returns what the attempt reported.
func abortedAttempt(kind, big string, hasher *trapHasher, scan func(ctx context.Context) scanOut) map[string]any {
	ctx, cancel := context.WithCancel(context.Background())
	defer cancel()
	fi, err := os.Lstat(big)
	must(err)
	hasher.fired = false
	hasher.limit = 100_000
	switch kind {
	case "cancel":
		hasher.limit = 1 << 20
		hasher.fire = cancel
	case "readerr":
		hasher.fire = func() { failNextRead.Store(true) }
	case "mismatch":
		hasher.fire = func() {
			f, err := os.OpenFile(big, os.O_WRONLY|os.O_APPEND, 0)
			if err == nil {
				f.Write(make([]byte, 70_000))
				f.Close()
			}
		}
	}
	o := scan(ctx)
	hasher.fire = nil
	failNextRead.Store(false)
	if kind == "mismatch" {
		must(os.Truncate(big, fi.Size()))
		must(os.Chtimes(big, fi.ModTime(), fi.ModTime()))
	}
	problem := ""
	if o.err == nil && o.snap != nil && o.snap.Content != nil {
		if e := o.snap.Content.Contents[bigName]; e != nil {
			problem = ascii(e.Problem)
		}
	}
	return map[string]any{"kind": kind, "fired": hasher.fired, "ok": o.err == nil && !o.hung, "err": ascii(errString(o.err)), "problem": problem}
}

func errString(err error) string {
	if err == nil {
		return ""
	}
	return err.Error()
}

var _ = syscall.EIO
var _ = time.Second
