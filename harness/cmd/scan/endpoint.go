package main

// Growth beyond C12/C13: the real local endpoint in recursive-watch mode
// (watchRecursive + Scan) and across restarts (cache save/load). The watcher is
// a harness-provided RecursiveWatcher plugged in through the verif factory hook
// (no native recursive watcher exists in this build); the driver feeds it the
// paths a watcher would report for the edits it makes, injects overflows, other
// errors and establishment failures, and observes - through the verifScanInputs
// hook - what the endpoint hands to core.Scan. Verdicts are C13's only.

import (
	"context"
	"crypto/sha1"
	"errors"
	"fmt"
	"math/rand"
	"os"
	"path/filepath"
	"sort"
	"strings"
	"sync"
	"time"

	"golang.org/x/text/unicode/norm"

	"github.com/mutagen-io/mutagen/pkg/encoding"
	"github.com/mutagen-io/mutagen/pkg/filesystem/behavior"
	"github.com/mutagen-io/mutagen/pkg/filesystem/watching"
	"github.com/mutagen-io/mutagen/pkg/synchronization"
	"github.com/mutagen-io/mutagen/pkg/synchronization/core"
	mutagenignore "github.com/mutagen-io/mutagen/pkg/synchronization/core/ignore/mutagen"
	"github.com/mutagen-io/mutagen/pkg/synchronization/endpoint/local"

	"verif/harness/internal/vlib"
)

// endpointIgnores realise the name-coded verdicts with Mutagen-style patterns
// (no traversal continuation in this syntax): ig* ignored, dg* ignored when a
// directory, un* un-ignored. verdictMode tells the walker which table applies.
var endpointIgnores = []string{"ig*", "dg*/", "!un*"}

// ---- the plugged-in watcher ---------------------------------------------------

type fakeWatcher struct {
	events chan string
	errs   chan error
	done   chan struct{}
	once   sync.Once
}

func (w *fakeWatcher) Events() <-chan string { return w.events }
func (w *fakeWatcher) Errors() <-chan error  { return w.errs }
func (w *fakeWatcher) Terminate() error {
	w.once.Do(func() { close(w.done) })
	return nil
}

// deliver hands one event path to the endpoint's watching Goroutine; false if
// the watcher was terminated (or nobody listened for 3 s).
func (w *fakeWatcher) deliver(p string) bool {
	select {
	case w.events <- p:
		return true
	case <-w.done:
		return false
	case <-time.After(3 * time.Second):
		return false
	}
}

// watcherHub is what the factory hook calls.
type watcherHub struct {
	mu          sync.Mutex
	failNext    int // number of upcoming establishment attempts that fail
	established chan *fakeWatcher
	attempts    int
	failures    int
}

func (h *watcherHub) factory(target string) (watching.RecursiveWatcher, error) {
	h.mu.Lock()
	h.attempts++
	if h.failNext > 0 {
		h.failNext--
		h.failures++
		h.mu.Unlock()
		return nil, errors.New("verif: watch establishment refused")
	}
	h.mu.Unlock()
	w := &fakeWatcher{events: make(chan string), errs: make(chan error, 1), done: make(chan struct{})}
	h.established <- w
	return w, nil
}

// ---- observations of the endpoint's internal scans -----------------------------

type scanObs struct {
	in   local.VerifScanInputs
	disk int // the driver's disk version when the scan started
}

type observer struct {
	mu   sync.Mutex
	root string
	disk int
	busy bool // an edit burst is in progress
	obs  []scanObs
	dirt bool // a scan started while the disk was being edited
	wake chan struct{}
}

func (o *observer) see(in local.VerifScanInputs) {
	if in.Root != o.root {
		return
	}
	o.mu.Lock()
	o.obs = append(o.obs, scanObs{in: in, disk: o.disk})
	if o.busy {
		o.dirt = true
	}
	o.mu.Unlock()
	select {
	case o.wake <- struct{}{}:
	default:
	}
}

func (o *observer) count() int { o.mu.Lock(); defer o.mu.Unlock(); return len(o.obs) }

// waitScans waits until at least n internal scans have been observed.
func (o *observer) waitScans(n int, d time.Duration) bool {
	deadline := time.After(d)
	for o.count() < n {
		select {
		case <-o.wake:
		case <-time.After(20 * time.Millisecond):
		case <-deadline:
			return o.count() >= n
		}
	}
	return true
}

// ---- helpers -------------------------------------------------------------------

func coldScanEndpointConfig(root string, cfg config) scanOut {
	ig, err := mutagenignore.NewIgnorer(endpointIgnores)
	must(err)
	armFaults(faultPlan{on: true})
	var o scanOut
	o.snap, o.cache, o.icache, o.err = core.Scan(context.Background(), root, nil, nil, sha1.New(), nil, ig, nil,
		behavior.ProbeMode_ProbeModeProbe, symModes[cfg.Sym], permModes[cfg.Perm])
	return o
}

func encSnapshotOnly(s *core.Snapshot, err error) map[string]any {
	m := map[string]any{"hung": false, "err": "", "ok": false}
	if err != nil {
		m["err"] = ascii(err.Error())
		return m
	}
	m["ok"] = true
	m["content"] = encEntry(s.Content)
	m["dirs"] = int(s.Directories)
	m["files"] = int(s.Files)
	m["links"] = int(s.SymbolicLinks)
	m["bytes"] = int(s.TotalFileSize)
	m["pres"] = s.PreservesExecutability
	m["decomp"] = s.DecomposesUnicode
	m["cache"] = []any{}
	m["icache"] = []any{}
	return m
}

func encBaseline(in local.VerifScanInputs) map[string]any {
	if in.Baseline == nil {
		return map[string]any{"ok": false, "hung": false, "err": "", "cache": encCache(in.Cache)}
	}
	m := encSnapshotOnly(in.Baseline, nil)
	m["cache"] = encCache(in.Cache)
	return m
}

func encPathList(ps []string) ([]any, []any) {
	sort.Strings(ps)
	raw, nfc := []any{}, []any{}
	for _, p := range ps {
		raw = append(raw, pathToks(p))
		nfc = append(nfc, pathToks(norm.NFC.String(p)))
	}
	return raw, nfc
}

func keysOf(m map[string]bool) []string {
	var out []string
	for k := range m {
		out = append(out, k)
	}
	sort.Strings(out)
	return out
}

// watcherEvents derives what a watcher reports for the difference between two
// walks: "exact" = every changed path (FSEvents / ReadDirectoryChangesW style),
// "parent" = the parent directory for created/deleted/retyped entries and the
// path itself for modified ones (fanotify style).
func watcherEvents(oldF, newF map[string]any, style string) []string {
	a := map[string]map[string]any{}
	b := map[string]map[string]any{}
	flatten(oldF, nil, a)
	flatten(newF, nil, b)
	set := map[string]bool{}
	for _, tp := range changedPaths(oldF, newF) {
		_, inA := a[tp]
		_, inB := b[tp]
		modified := inA && inB && a[tp]["t"] == b[tp]["t"]
		if style == "exact" || modified || tp == "" {
			set[rawPath(tp)] = true
		} else {
			set[rawPath(parentTok(tp))] = true
		}
	}
	return keysOf(set)
}

const syncSentinel = temporaryPrefix + "verif-sync"

// ---- one endpoint case -----------------------------------------------------------

type epCase struct {
	c         *vlib.Ctx
	r         *rand.Rand
	g         *gen
	cseed     int64
	upto      int
	root      string
	cfg       config
	hub       *watcherHub
	obs       *observer
	ep        synchronization.Endpoint
	w         *fakeWatcher
	facts     map[string]any   // current disk
	hist      []map[string]any // every disk state a scan of this case may have seen
	histAt    map[int]int      // disk version -> index in hist
	pending   []string         // event paths delivered and handled since the last accelerated or baseline scan
	errSince  bool             // a watcher error was delivered since the last baseline scan
	errAt     int              // number of internal scans observed when that error was delivered
	mine      map[int]bool     // indices of the observations caused by the driver's own Scan calls
	step      int
	sessionID string
}

func (e *epCase) newEndpoint() {
	conf := &synchronization.Configuration{
		WatchMode:            synchronization.WatchMode_WatchModePortable,
		ScanMode:             synchronization.ScanMode_ScanModeAccelerated,
		WatchPollingInterval: 1,
		Ignores:              endpointIgnores,
		SymbolicLinkMode:     symModes[e.cfg.Sym],
		PermissionsMode:      permModes[e.cfg.Perm],
	}
	ep, err := local.NewEndpoint(nil, e.root, e.sessionID, synchronization.Version_Version1, conf, true)
	if err != nil {
		vlib.Fatal("NewEndpoint: %v", err)
	}
	e.ep = ep
}

// awaitWatcher waits for the endpoint to establish a watch.
func (e *epCase) awaitWatcher(d time.Duration) bool {
	select {
	case w := <-e.hub.established:
		e.w = w
		return true
	case <-time.After(d):
		return false
	}
}

func (e *epCase) poll(d time.Duration) bool {
	ctx, cancel := context.WithTimeout(context.Background(), d)
	defer cancel()
	done := make(chan struct{})
	go func() { e.ep.Poll(ctx); close(done) }()
	<-done
	return ctx.Err() == nil
}

func (e *epCase) setDisk() {
	e.facts, _ = walkRoot(e.root, faultPlan{on: true})
	e.obs.mu.Lock()
	e.obs.disk++
	v := e.obs.disk
	e.obs.mu.Unlock()
	e.hist = append(e.hist, e.facts)
	e.histAt[v] = len(e.hist) - 1
}

// scanStep performs one controller Scan, the harness's cold scan of the same
// disk, and emits the record.
func (e *epCase) scanStep(label string, full bool, polled bool) {
	e.step++
	before := e.obs.count()
	snap, err, _ := e.ep.Scan(context.Background(), nil, full)
	e.obs.mu.Lock()
	var mine []scanObs
	if len(e.obs.obs) > before {
		mine = append(mine, e.obs.obs[before:]...)
	}
	dirty := e.obs.dirt
	e.obs.mu.Unlock()
	cold := coldScanEndpointConfig(e.root, e.cfg)
	for i := before; i < before+len(mine); i++ {
		e.mine[i] = true
	}
	// a full scan of anybody's since the error means the held snapshot was re-made after it
	errSince := e.errSince
	e.obs.mu.Lock()
	for i := e.errAt; i < before && i < len(e.obs.obs); i++ {
		if e.obs.obs[i].in.Baseline == nil {
			errSince = false
		}
	}
	e.obs.mu.Unlock()
	if len(mine) != 1 {
		// no internal scan (cache write error) or several: nothing to relate; recorded as such
		if e.upto < 0 || e.step == e.upto {
			e.c.AddExtra("endpoint_scans_without_single_observation", 1)
		}
		return
	}
	in := mine[0].in
	// the disk the baseline describes: the one current when the previous internal scan ran
	e.obs.mu.Lock()
	prevDisk := -1
	if before > 0 {
		prevDisk = e.obs.obs[before-1].disk
	}
	e.obs.mu.Unlock()
	var oldF map[string]any
	if i, ok := e.histAt[prevDisk]; ok {
		oldF = e.hist[i]
	} else {
		oldF = map[string]any{"t": "none"}
	}
	raw, nfc := encPathList(keysOf(in.RecheckPaths))
	evRaw, _ := encPathList(append([]string{}, e.pending...))
	hist := []any{}
	for _, h := range e.hist {
		hist = append(hist, h)
	}
	if e.upto < 0 || e.step == e.upto {
		rec := map[string]any{
			"ev":          "WScan",
			"in":          map[string]any{"cseed": int(e.cseed), "step": e.step, "kind": "endpoint"},
			"cfg":         vlib.ToMap(e.cfg),
			"label":       label,
			"full":        full,
			"polled":      polled,
			"hook":        map[string]any{"baseline": in.Baseline != nil, "accelerate": in.Accelerate},
			"old":         oldF,
			"new":         e.facts,
			"hist":        hist,
			"recheck":     raw,
			"recheck_nfc": nfc,
			"events":      evRaw,
			"errSince":    errSince,
			"tainted":     dirty,
			"base":        encBaseline(in),
			"accel":       encSnapshotOnly(snap, err),
			"cold":        encScan(cold),
		}
		e.c.Emit(rec)
		e.c.Eval()
		if err == nil && cold.err == nil && !dirty {
			e.c.NonTrivial(fmt.Sprintf("ep/%d/%d", e.cseed, e.step))
		}
		e.c.AddExtra("endpoint_scans", 1)
		if in.Baseline != nil {
			e.c.AddExtra("endpoint_scans_accelerated", 1)
		}
	}
	if err == nil && in.Baseline != nil && !full {
		e.pending = nil
	}
}

// baselineDone notes that the watching Goroutine made its baseline scan.
func (e *epCase) awaitBaseline(from int) bool {
	from-- // callers pass "observations so far + 1"
	deadline := time.Now().Add(6 * time.Second)
	for {
		e.obs.mu.Lock()
		found := false
		for i := from; i < len(e.obs.obs); i++ {
			if !e.mine[i] && e.obs.obs[i].in.Baseline == nil {
				found = true
			}
		}
		e.obs.mu.Unlock()
		if found {
			e.pending = nil
			e.errSince = false
			return true
		}
		if time.Now().After(deadline) {
			return false
		}
		select {
		case <-e.obs.wake:
		case <-time.After(20 * time.Millisecond):
		}
	}
}

func endpointCase(c *vlib.Ctx, cseed int64, upto int) {
	r := rand.New(rand.NewSource(cseed))
	g := &gen{r: r, budget: 12 + r.Intn(24), rich: r.Intn(5) == 0}
	base := c.TempDir("ep-")
	defer os.RemoveAll(base)
	root := filepath.Join(base, "root")
	g.materialise(g.tree(false), root)
	os.Setenv("MUTAGEN_DATA_DIRECTORY", filepath.Join(base, "data"))
	must(os.MkdirAll(filepath.Join(base, "data"), 0o700))
	verdictMode = "mutagen"
	defer func() { verdictMode = "table" }()
	armFaults(faultPlan{on: true})
	defer armFaults(faultPlan{})

	e := &epCase{c: c, r: r, g: g, cseed: cseed, upto: upto, root: root,
		cfg:    config{Sym: symNames[r.Intn(3)], Perm: permNames[r.Intn(2)], Pres: probePreserves(base)},
		hub:    &watcherHub{established: make(chan *fakeWatcher, 4)},
		obs:    &observer{root: root, wake: make(chan struct{}, 1)},
		histAt: map[int]int{}, mine: map[int]bool{}, sessionID: fmt.Sprintf("verif-scan-%d", cseed)}
	watching.VerifSetRecursiveWatcherFactory(e.hub.factory)
	defer watching.VerifSetRecursiveWatcherFactory(nil)
	local.VerifSetScanInputsObserver(e.obs.see)
	defer local.VerifSetScanInputsObserver(nil)
	style := []string{"exact", "exact", "parent"}[r.Intn(3)]

	if r.Intn(4) == 0 {
		e.hub.failNext = 1 // the first establishment attempt fails; the endpoint retries after one polling interval
	}
	e.setDisk()
	e.newEndpoint()
	defer func() { e.ep.Shutdown() }()
	scansSeen := 0
	if !e.awaitWatcher(4*time.Second) || !e.awaitBaseline(scansSeen+1) {
		c.AddExtra("endpoint_cases_without_baseline", 1)
		return
	}
	polled := e.poll(2 * time.Second)
	e.scanStep("first", false, polled)

	rounds := 2 + r.Intn(4)
	for round := 0; round < rounds; round++ {
		if upto > 0 && e.step >= upto {
			break
		}
		// a restart in between: cache persisted by the previous incarnation is loaded by the next
		if r.Intn(5) == 0 {
			time.Sleep(60 * time.Millisecond) // let the asynchronous cache save run
			e.ep.Shutdown()
			cachePath := filepath.Join(base, "data", "caches", e.sessionID+"_alpha")
			loaded := &core.Cache{}
			hadFile := encoding.LoadAndUnmarshalProtobuf(cachePath, loaded) == nil
			c.AddExtra("endpoint_restarts", 1)
			if hadFile {
				c.AddExtra("endpoint_restarts_with_persisted_cache", 1)
			}
			// edits while no endpoint exists
			for i := r.Intn(4); i > 0; i-- {
				g.edit(root)
			}
			e.setDisk()
			e.pending, e.errSince, e.w = nil, false, nil
			e.obs.mu.Lock()
			e.obs.obs = nil
			e.obs.mu.Unlock()
			e.mine = map[int]bool{}
			e.errAt = 0
			e.newEndpoint()
			// the first scan of the new incarnation is whichever comes first: the watching
			// Goroutine's baseline scan (warm, with the loaded cache)
			if !e.awaitWatcher(4*time.Second) || !e.awaitBaseline(1) {
				c.AddExtra("endpoint_cases_without_baseline", 1)
				return
			}
			e.emitWarm(hadFile, loaded)
			polled := e.poll(2 * time.Second)
			e.scanStep("after-restart", false, polled)
			continue
		}
		// an edit burst and what the watcher says about it
		prev := e.facts
		e.obs.mu.Lock()
		e.obs.busy = true
		e.obs.mu.Unlock()
		for i := 1 + r.Intn(4); i > 0; i-- {
			g.edit(root)
		}
		e.obs.mu.Lock()
		e.obs.busy = false
		e.obs.mu.Unlock()
		e.setDisk()
		evs := watcherEvents(prev, e.facts, style)
		fault := r.Intn(10)
		label := "events-" + style
		switch {
		case fault == 0 && len(evs) > 0: // one notification is lost silently
			evs = append(evs[:0:0], evs[1:]...)
			label = "event-lost"
		case fault == 1: // the watcher overflows instead of reporting
			label = "overflow"
		case fault == 2: // the watcher fails for another reason
			label = "watch-error"
		}
		if label == "overflow" || label == "watch-error" {
			werr := watching.ErrWatchInternalOverflow
			if label == "watch-error" {
				werr = errors.New("verif: watch failed")
			}
			n := e.obs.count()
			if r.Intn(3) == 0 {
				e.hub.failNext = 1
			}
			e.errAt = n
			e.w.errs <- werr
			<-e.w.done // the endpoint handled the error (acceleration is off now)
			e.errSince = true
			e.pending = nil
			if r.Intn(2) == 0 {
				// scan while the watch may not be back yet: full unless the endpoint has re-baselined already
				polled := e.poll(2 * time.Second)
				e.scanStep(label+"-early", false, polled)
			}
			if !e.awaitWatcher(5*time.Second) || !e.awaitBaseline(n+1) {
				c.AddExtra("endpoint_cases_without_rebaseline", 1)
				return
			}
			polled := e.poll(2 * time.Second)
			e.scanStep(label, false, polled)
			continue
		}
		for _, p := range evs {
			if e.w.deliver(p) {
				base := p
				if i := strings.LastIndexByte(p, '/'); i >= 0 {
					base = p[i+1:]
				}
				if !strings.HasPrefix(p, temporaryPrefix) && !strings.HasPrefix(base, temporaryPrefix) {
					e.pending = append(e.pending, p)
				}
			}
		}
		e.w.deliver(syncSentinel) // once this is taken, every earlier event has been registered
		polled := e.poll(2 * time.Second)
		e.scanStep(label, r.Intn(8) == 0, polled)
	}
	c.TraceDone()
	c.AddExtra("endpoint_cases", 1)
}

// emitWarm records the first (warm, full) scan of a restarted endpoint: the
// watching Goroutine's baseline scan, whose inputs the hook showed, against a
// cold scan of the same disk.
func (e *epCase) emitWarm(hadFile bool, loaded *core.Cache) {
	e.step++
	e.obs.mu.Lock()
	in := e.obs.obs[0].in
	e.obs.mu.Unlock()
	// what that scan produced is the baseline of the next scan; observe it through a
	// full=false controller scan with no events: it returns the held snapshot unchanged
	cold := coldScanEndpointConfig(e.root, e.cfg)
	before := e.obs.count()
	snap, err, _ := e.ep.Scan(context.Background(), nil, false)
	for i := before; i < e.obs.count(); i++ {
		e.mine[i] = true
	}
	hist := []any{}
	for _, h := range e.hist {
		hist = append(hist, h)
	}
	if e.upto < 0 || e.step == e.upto {
		rec := map[string]any{
			"ev":          "WScan",
			"in":          map[string]any{"cseed": int(e.cseed), "step": e.step, "kind": "endpoint"},
			"cfg":         vlib.ToMap(e.cfg),
			"label":       "warm-after-restart",
			"full":        true,
			"polled":      false,
			"hook":        map[string]any{"baseline": in.Baseline != nil, "accelerate": in.Accelerate},
			"old":         map[string]any{"t": "none"},
			"new":         e.facts,
			"hist":        hist,
			"recheck":     []any{},
			"recheck_nfc": []any{},
			"events":      []any{},
			"errSince":    false,
			"tainted":     false,
			"persisted":   map[string]any{"file": hadFile, "same": hadFile && loaded.Equal(in.Cache), "entries": len(in.Cache.GetEntries())},
			"base":        encBaseline(in),
			"accel":       encSnapshotOnly(snap, err),
			"cold":        encScan(cold),
		}
		e.c.Emit(rec)
		e.c.Eval()
		e.c.AddExtra("endpoint_warm_scans_after_restart", 1)
		if len(in.Cache.GetEntries()) > 0 {
			e.c.NonTrivial(fmt.Sprintf("warm/%d/%d", e.cseed, e.step))
		}
	}
	e.pending = nil
}
