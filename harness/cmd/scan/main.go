// Driver "scan": runs the real core.Scan (cold, and accelerated with baseline,
// re-check paths, digest cache and ignore cache) on random real directory trees
// and records what it returned next to the facts an independent walker read from
// the same disk. It contains no property predicate; spec/scan/Scan_Trace.tla
// judges the records with the operators of ScanContract.tla / AccelScan.tla.
package main

import (
	"context"
	"crypto/sha1"
	"encoding/hex"
	"encoding/json"
	"fmt"
	"hash"
	"math/rand"
	"os"
	"path/filepath"
	"sort"
	"strconv"
	"strings"
	"syscall"
	"time"

	"golang.org/x/text/unicode/norm"

	"github.com/mutagen-io/mutagen/pkg/filesystem"
	"github.com/mutagen-io/mutagen/pkg/filesystem/behavior"
	"github.com/mutagen-io/mutagen/pkg/synchronization/core"
	"github.com/mutagen-io/mutagen/pkg/synchronization/core/ignore"

	"verif/harness/internal/vlib"
)

func main() { vlib.Main(run, replay) }

// sampledOnce makes sure the evidence carries at least one sample.
var sampledOnce bool

// ---------------------------------------------------------------------------
// configuration

type config struct {
	Sym    string `json:"sym"`    // portable | ignore | posix
	Perm   string `json:"perm"`   // portable | manual
	Pres   bool   `json:"pres"`   // the filesystem (is said to) preserve executability
	Decomp bool   `json:"decomp"` // the filesystem (is said to) decompose Unicode
	Forced bool   `json:"forced"` // behaviour preset through the verif hook rather than probed
}

var symModes = map[string]core.SymbolicLinkMode{
	"portable": core.SymbolicLinkMode_SymbolicLinkModePortable,
	"ignore":   core.SymbolicLinkMode_SymbolicLinkModeIgnore,
	"posix":    core.SymbolicLinkMode_SymbolicLinkModePOSIXRaw,
}
var permModes = map[string]core.PermissionsMode{
	"portable": core.PermissionsMode_PermissionsModePortable,
	"manual":   core.PermissionsMode_PermissionsModeManual,
}
var symNames = []string{"portable", "ignore", "posix"}
var permNames = []string{"portable", "manual"}

func allConfigs(probed bool) []config {
	var out []config
	for _, s := range symNames {
		for _, p := range permNames {
			out = append(out, config{Sym: s, Perm: p, Pres: probed})
		}
	}
	return out
}

// probePreserves is the driver's own observation of whether the scratch
// filesystem keeps executability bits.
func probePreserves(dir string) bool {
	p := filepath.Join(dir, "probe-x")
	must(os.WriteFile(p, nil, 0o600))
	defer os.Remove(p)
	must(os.Chmod(p, 0o700))
	fi, err := os.Lstat(p)
	must(err)
	return fi.Mode()&0o111 == 0o100
}

// ---------------------------------------------------------------------------
// calling the real scan

type scanOut struct {
	snap   *core.Snapshot
	cache  *core.Cache
	icache ignore.IgnoreCache
	err    error
	hung   bool
}

func armFaults(f faultPlan) {
	if !f.on {
		filesystem.VerifSetFault(nil)
		return
	}
	filesystem.VerifSetFault(func(op, name string) error {
		switch op {
		case "openat":
			if f.fileUnreadable(name) || f.dirUnopenable(name) {
				return syscall.EACCES
			}
		case "readdir":
			if f.dirUnlistable(filepath.Base(name)) {
				return syscall.EIO
			}
		case "readlinkat":
			if f.linkUnreadable(name) {
				return syscall.EACCES
			}
		case "read":
			if failNextRead.CompareAndSwap(true, false) {
				return syscall.EIO
			}
		}
		return nil
	})
}

func devOf(path string) (uint64, bool) {
	fi, err := os.Lstat(path)
	if err != nil {
		return 0, false
	}
	return uint64(fi.Sys().(*syscall.Stat_t).Dev), true
}

// realScan calls core.Scan under a watchdog.
func realScan(root string, cfg config, faults faultPlan, baseline *core.Snapshot, recheck map[string]bool,
	cache *core.Cache, icache ignore.IgnoreCache) scanOut {
	return realScanWith(context.Background(), sha1.New(), root, cfg, faults, baseline, recheck, cache, icache)
}

// realScanWith is realScan with the caller's context and (long-lived) hasher.
func realScanWith(ctx context.Context, hasher hash.Hash, root string, cfg config, faults faultPlan, baseline *core.Snapshot,
	recheck map[string]bool, cache *core.Cache, icache ignore.IgnoreCache) scanOut {
	dev, haveDev := devOf(root)
	if cfg.Forced && haveDev {
		core.VerifSetBehavior(dev, true, cfg.Pres, cfg.Decomp)
		defer core.VerifSetBehavior(dev, false, false, false)
	}
	armFaults(faults)
	defer filesystem.VerifSetFault(nil)
	ch := make(chan scanOut, 1)
	go func() {
		var o scanOut
		o.snap, o.cache, o.icache, o.err = core.Scan(ctx, root, baseline, recheck,
			hasher, cache, activeIgnorer(), icache, behavior.ProbeMode_ProbeModeProbe,
			symModes[cfg.Sym], permModes[cfg.Perm])
		ch <- o
	}()
	select {
	case o := <-ch:
		return o
	case <-time.After(30 * time.Second):
		return scanOut{hung: true}
	}
}

// ---------------------------------------------------------------------------
// encoding what the real code returned

func ascii(s string) string {
	var b strings.Builder
	for i := 0; i < len(s); i++ {
		c := s[i]
		if c >= 0x20 && c < 0x7f && c != '"' && c != '\\' {
			b.WriteByte(c)
		} else {
			fmt.Fprintf(&b, "%%%02x", c)
		}
	}
	return b.String()
}

func encEntry(e *core.Entry) map[string]any {
	if e == nil {
		return map[string]any{"k": "nil"}
	}
	switch e.Kind {
	case core.EntryKind_Directory, core.EntryKind_PhantomDirectory:
		c := map[string]any{}
		for n, ch := range e.Contents {
			c[tok(n)] = encEntry(ch)
		}
		k := "dir"
		if e.Kind == core.EntryKind_PhantomDirectory {
			k = "phantom"
		}
		return map[string]any{"k": k, "c": c}
	case core.EntryKind_File:
		return map[string]any{"k": "file", "d": hex.EncodeToString(e.Digest), "x": e.Executable}
	case core.EntryKind_SymbolicLink:
		return map[string]any{"k": "link", "t": tok(e.Target)}
	case core.EntryKind_Untracked:
		return map[string]any{"k": "untracked"}
	case core.EntryKind_Problematic:
		return map[string]any{"k": "problem", "p": ascii(e.Problem)}
	}
	return map[string]any{"k": fmt.Sprintf("kind%d", e.Kind)}
}

func pathToks(p string) []any {
	if p == "" {
		return []any{}
	}
	return toks(strings.Split(p, "/"))
}

func encCache(c *core.Cache) []any {
	out := []any{}
	if c == nil {
		return out
	}
	var paths []string
	for p := range c.Entries {
		paths = append(paths, p)
	}
	sort.Strings(paths)
	for _, p := range paths {
		e := c.Entries[p]
		out = append(out, map[string]any{
			"path": pathToks(p),
			"m":    int(e.Mode & 0o7777),
			"ty":   int(e.Mode >> 12),
			"mt":   strconv.FormatInt(e.ModificationTime.GetSeconds(), 10) + "." + fmt.Sprintf("%09d", e.ModificationTime.GetNanos()),
			"sz":   int(e.Size),
			"ino":  strconv.FormatUint(e.FileID, 10),
			"d":    hex.EncodeToString(e.Digest),
		})
	}
	return out
}

func encICache(ic ignore.IgnoreCache) []any {
	type row struct {
		k ignore.IgnoreCacheKey
		v ignore.IgnoreCacheValue
	}
	var rows []row
	for k, v := range ic {
		rows = append(rows, row{k, v})
	}
	sort.Slice(rows, func(i, j int) bool {
		if rows[i].k.Path != rows[j].k.Path {
			return rows[i].k.Path < rows[j].k.Path
		}
		return !rows[i].k.Directory && rows[j].k.Directory
	})
	out := []any{}
	for _, r := range rows {
		s := "nom"
		switch r.v.Status {
		case ignore.IgnoreStatusIgnored:
			s = "ign"
		case ignore.IgnoreStatusUnignored:
			s = "unign"
		}
		out = append(out, map[string]any{"path": pathToks(r.k.Path), "dir": r.k.Directory, "ig": s, "ct": r.v.ContinueTraversal})
	}
	return out
}

func encScan(o scanOut) map[string]any {
	m := map[string]any{"hung": o.hung, "err": "", "ok": false}
	if o.hung {
		return m
	}
	if o.err != nil {
		m["err"] = ascii(o.err.Error())
		return m
	}
	m["ok"] = true
	s := o.snap
	m["content"] = encEntry(s.Content)
	m["dirs"] = int(s.Directories)
	m["files"] = int(s.Files)
	m["links"] = int(s.SymbolicLinks)
	m["bytes"] = int(s.TotalFileSize)
	m["pres"] = s.PreservesExecutability
	m["decomp"] = s.DecomposesUnicode
	m["cache"] = encCache(o.cache)
	m["icache"] = encICache(o.icache)
	return m
}

// ---------------------------------------------------------------------------
// C12

func subSeed(seed int64, idx int) int64 {
	h := sha1.Sum([]byte(fmt.Sprintf("scan/%d/%d", seed, idx)))
	v := int64(h[0])<<24 | int64(h[1])<<16 | int64(h[2])<<8 | int64(h[3])
	return v & 0x7fffffff
}

// c12Case builds one random tree and scans it under the requested
// configurations (all of them when only < 0).
func c12Case(c *vlib.Ctx, cseed int64, only int, abortKind string) {
	r := rand.New(rand.NewSource(cseed))
	g := &gen{r: r, budget: 12 + r.Intn(40), rich: true}
	base := c.TempDir("c12-")
	defer os.RemoveAll(base)
	root := filepath.Join(base, "root")
	tree := g.tree(true)
	g.materialise(tree, root)
	defer g.unmountAll()
	if tree.kind == "dir" && r.Intn(8) == 0 {
		g.mountSomewhere(root)
	}
	var big string
	if abortKind != "" && tree.kind == "dir" {
		big = g.placeBig(root, abortKind, 0)
	}
	faults := faultPlan{on: true}
	probed := probePreserves(base)
	cfgs := allConfigs(probed)
	// two more with the behaviour preset: a filesystem that does not preserve
	// executability, and one that decomposes Unicode
	cfgs = append(cfgs,
		config{Sym: symNames[r.Intn(3)], Perm: "portable", Pres: false, Decomp: false, Forced: true},
		config{Sym: symNames[r.Intn(3)], Perm: permNames[r.Intn(2)], Pres: r.Intn(2) == 0, Decomp: true, Forced: true})
	facts, nodes := walkRoot(root, faults)
	for i, cfg := range cfgs {
		if only >= 0 && i != only {
			continue
		}
		var o scanOut
		var aborted map[string]any
		if big != "" && i == 0 {
			// a cold scan abandoned while hashing, then the retry with the same hasher
			h := &trapHasher{Hash: sha1.New()}
			aborted = abortedAttempt(abortKind, big, h, func(ctx context.Context) scanOut {
				return realScanWith(ctx, h, root, cfg, faults, nil, nil, nil, nil)
			})
			o = realScanWith(context.Background(), h, root, cfg, faults, nil, nil, nil, nil)
			c.AddExtra("retries_after_abort_"+abortKind, 1)
		} else {
			o = realScan(root, cfg, faults, nil, nil, nil, nil)
		}
		rec := map[string]any{
			"ev":    "Scan",
			"in":    map[string]any{"cseed": int(cseed), "cfg": i, "abort": abortKind},
			"cfg":   vlib.ToMap(cfg),
			"facts": facts,
			"scan":  encScan(o),
		}
		if aborted != nil {
			rec["aborted"] = aborted
		}
		c.Emit(rec)
		c.Eval()
		if nodes >= 3 && o.err == nil && !o.hung {
			c.NonTrivial(fmt.Sprintf("%d/%d", cseed, i))
		}
		if i == 0 && (r.Intn(40) == 0 || !sampledOnce) {
			sampledOnce = true
			c.Sample(map[string]any{"in": rec["in"], "cfg": rec["cfg"], "nodes": nodes, "dirs": rec["scan"].(map[string]any)["dirs"]})
		}
	}
	c.TraceDone()
	c.AddExtra("trees", 1)
	c.AddExtra("disk_nodes", nodes)
	if len(g.mounted) > 0 {
		c.AddExtra("trees_with_filesystem_boundary", 1)
	}
}

// ---------------------------------------------------------------------------
// C13

func factsDiffer(a, b map[string]any) bool {
	if a["t"] != b["t"] {
		return true
	}
	switch a["t"] {
	case "file":
		for _, k := range []string{"m", "mt", "sz", "ino", "d"} {
			if fmt.Sprint(a[k]) != fmt.Sprint(b[k]) {
				return true
			}
		}
	case "link":
		return a["tg"] != b["tg"]
	case "dir":
		return a["ino"] != b["ino"]
	case "other":
		return a["o"] != b["o"]
	}
	return false
}

// changedPaths lists (as NUL-joined token paths) every path created, deleted or
// modified between two walks. The driver uses it only to build the re-check
// input; the specification recomputes it from the recorded facts.
func changedPaths(oldF, newF map[string]any) []string {
	a := map[string]map[string]any{}
	b := map[string]map[string]any{}
	flatten(oldF, nil, a)
	flatten(newF, nil, b)
	set := map[string]bool{}
	for p, n := range a {
		if m, ok := b[p]; !ok || factsDiffer(n, m) {
			set[p] = true
		}
	}
	for p := range b {
		if _, ok := a[p]; !ok {
			set[p] = true
		}
	}
	var out []string
	for p := range set {
		out = append(out, p)
	}
	sort.Strings(out)
	return out
}

func untok(t string) string {
	if strings.HasPrefix(t, "hex:") {
		b, err := hex.DecodeString(t[4:])
		must(err)
		return string(b)
	}
	return t
}

// rawPath converts a NUL-joined token path to the raw root-relative path.
func rawPath(tp string) string {
	if tp == "" {
		return ""
	}
	parts := strings.Split(tp, "\x00")
	for i := range parts {
		parts[i] = untok(parts[i])
	}
	return strings.Join(parts, "/")
}

func parentTok(tp string) string {
	i := strings.LastIndex(tp, "\x00")
	if i < 0 {
		return ""
	}
	return tp[:i]
}

var recheckModes = []string{"exact", "exact", "extras", "extras", "parents", "deficient"}

func c13Case(c *vlib.Ctx, cseed int64, upto int, abortKind string) {
	r := rand.New(rand.NewSource(cseed))
	g := &gen{r: r, budget: 14 + r.Intn(30), rich: r.Intn(4) == 0}
	decompCase := r.Intn(7) == 0
	g.nfd = decompCase
	base := c.TempDir("c13-")
	defer os.RemoveAll(base)
	root := filepath.Join(base, "root")
	var tree *spec
	if r.Intn(12) == 0 {
		tree = &spec{kind: "file", mode: 0o644, size: 100, fill: r.Int63()}
	} else {
		tree = g.tree(false)
	}
	g.materialise(tree, root)
	faults := faultPlan{on: true}
	cfg := config{Sym: symNames[r.Intn(3)], Perm: permNames[r.Intn(2)], Pres: probePreserves(base)}
	if r.Intn(10) == 0 {
		cfg = config{Sym: cfg.Sym, Perm: "portable", Pres: false, Forced: true}
	}
	if decompCase {
		// a filesystem that decomposes Unicode: names are stored (and reported by the watcher)
		// decomposed, the snapshot carries them recomposed
		cfg = config{Sym: cfg.Sym, Perm: cfg.Perm, Pres: cfg.Pres, Decomp: true, Forced: true}
	}
	oldF, _ := walkRoot(root, faults)
	b := realScan(root, cfg, faults, nil, nil, nil, nil)
	if b.err != nil || b.hung {
		vlib.Fatal("baseline scan failed: %v", b.err)
	}
	rounds := 1 + r.Intn(4)
	if abortKind != "" && tree.kind == "dir" {
		rounds = 2
	} else {
		abortKind = ""
	}
	hasher := &trapHasher{Hash: sha1.New()} // one hasher for the whole case, as an endpoint has
	for round := 1; round <= rounds; round++ {
		edits := []any{}
		nEdits := r.Intn(6)
		if tree.kind == "file" {
			// file root: rewrite / touch / chmod the root itself
			switch r.Intn(4) {
			case 0:
				must(os.WriteFile(root, content(50+r.Intn(100), r.Int63()), 0o644))
				g.stamp(root)
				edits = append(edits, "rewrite root")
			case 1:
				g.stamp(root)
				edits = append(edits, "touch root")
			case 2:
				fi, _ := os.Lstat(root)
				must(os.Chmod(root, fi.Mode().Perm()^0o100))
				edits = append(edits, "chmod root")
			}
		} else {
			for i := 0; i < nEdits; i++ {
				edits = append(edits, ascii(g.edit(root)))
			}
		}
		var big string
		if abortKind != "" {
			big = g.placeBig(root, abortKind, round) // created or rewritten: it will be hashed by the next scan
			edits = append(edits, "place "+bigName)
		}
		newF, nodes := walkRoot(root, faults)
		changed := changedPaths(oldF, newF)
		mode := recheckModes[r.Intn(len(recheckModes))]
		if big != "" {
			mode = "exact"
		}
		set := map[string]bool{}
		for _, p := range changed {
			if mode == "parents" && p != "" {
				set[parentTok(p)] = true
			} else {
				set[p] = true
			}
		}
		if mode == "deficient" && len(changed) > 0 {
			delete(set, changed[r.Intn(len(changed))])
		}
		if mode == "extras" || len(set) == 0 {
			all := map[string]map[string]any{}
			flatten(newF, nil, all)
			var ps []string
			for p := range all {
				ps = append(ps, p)
			}
			sort.Strings(ps)
			for i := r.Intn(4); i >= 0; i-- {
				switch r.Intn(3) {
				case 0:
					set["non\x00existent\x00path"] = true
				case 1:
					set[ps[r.Intn(len(ps))]] = true
				default:
					if q := ps[r.Intn(len(ps))]; q == "" {
						set["zz"] = true
					} else {
						set[q+"\x00zz"] = true
					}
				}
			}
		}
		recheck := map[string]bool{}
		var rlist []string
		for p := range set {
			rlist = append(rlist, p)
		}
		sort.Strings(rlist)
		rtoks := []any{} // as reported: on-disk form
		rnfc := []any{}  // the NFC form of each (a fact about the bytes, like the walker's "nfc")
		for _, p := range rlist {
			raw := rawPath(p)
			recheck[raw] = true
			rtoks = append(rtoks, pathToks(raw))
			rnfc = append(rnfc, pathToks(norm.NFC.String(raw)))
		}
		var aborted map[string]any
		if big != "" {
			// the accelerated scan is abandoned while hashing; the retry below re-uses hasher, baseline,
			// caches and re-check set
			aborted = abortedAttempt(abortKind, big, hasher, func(ctx context.Context) scanOut {
				return realScanWith(ctx, hasher, root, cfg, faults, b.snap, recheck, b.cache, b.icache)
			})
		}
		acc := realScanWith(context.Background(), hasher, root, cfg, faults, b.snap, recheck, b.cache, b.icache)
		cold := realScan(root, cfg, faults, nil, nil, nil, nil)
		sampleDraw := r.Intn(60)
		if upto < 0 || round == upto {
			rec := map[string]any{
				"ev":          "Accel",
				"in":          map[string]any{"cseed": int(cseed), "round": round, "abort": abortKind},
				"cfg":         vlib.ToMap(cfg),
				"mode":        mode,
				"edits":       edits,
				"old":         oldF,
				"new":         newF,
				"recheck":     rtoks,
				"recheck_nfc": rnfc,
				"base":        encScan(b),
				"accel":       encScan(acc),
				"cold":        encScan(cold),
			}
			if aborted != nil {
				rec["aborted"] = aborted
				c.AddExtra("retries_after_abort_"+abortKind, 1)
			}
			c.Emit(rec)
			c.Eval()
			if len(changed) > 0 && mode != "deficient" && acc.err == nil && cold.err == nil {
				c.NonTrivial(fmt.Sprintf("%d/%d", cseed, round))
			}
			if sampleDraw == 0 || !sampledOnce {
				sampledOnce = true
				c.Sample(map[string]any{"in": rec["in"], "cfg": rec["cfg"], "mode": mode, "edits": edits, "nodes": nodes, "changed": len(changed), "recheck": len(rlist)})
			}
			c.AddExtra("rounds_"+mode, 1)
			c.AddExtra("changed_paths", len(changed))
		}
		if acc.err != nil || cold.err != nil || acc.hung || cold.hung || round == upto {
			break
		}
		// the next round starts from what an endpoint would hold: the accelerated
		// result (or, after a deliberately unreported change, the cold one)
		tainted := mode == "deficient"
		for _, e := range edits {
			if strings.HasPrefix(e.(string), "stealth") {
				tainted = true
			}
		}
		if tainted || r.Intn(4) == 0 {
			b = cold
		} else {
			b = acc
		}
		oldF = newF
	}
	c.TraceDone()
}

// ---------------------------------------------------------------------------

// abortKindFor makes every period-th case one in which a scan is abandoned part-way.
func abortKindFor(i, period int) string {
	if i%period != period/2 {
		return ""
	}
	return []string{"readerr", "mismatch", "cancel"}[(i/period)%3]
}

func argInt(c *vlib.Ctx, key string, def int) int {
	for _, a := range c.Args {
		if strings.HasPrefix(a, key+"=") {
			n, err := strconv.Atoi(a[len(key)+1:])
			if err == nil {
				return n
			}
		}
	}
	return def
}

func run(c *vlib.Ctx) error {
	switch c.Prop {
	case "C12":
		n := argInt(c, "trees", 150)
		for i := 0; i < n; i++ {
			c12Case(c, subSeed(c.Seed, i), -1, abortKindFor(i, 15))
		}
	case "C13":
		n := argInt(c, "cases", 250)
		for i := 0; i < n; i++ {
			c13Case(c, subSeed(c.Seed, 1_000_000+i), -1, abortKindFor(i, 18))
		}
		// accelerated-scan histories under Docker-style ignores
		for i, m := 0, argInt(c, "docker", 6); i < m; i++ {
			dockerCase(c, subSeed(c.Seed, 3_000_000+i), -1)
		}
		// scripted Docker histories (every family x every order of the four scan kinds): a seeded slice in quick
		for i, m, n := 0, argInt(c, "dockerperm", 16), dockerScriptedCount(); i < m && i < n; i++ {
			dockerCase(c, dockerScriptedSeed((((int(c.Seed)*37+i*7)%n)+n)%n), -1)
		}
		// growth: the same statement on the real local endpoint in recursive-watch mode
		for i, m := 0, argInt(c, "endpoints", 8); i < m; i++ {
			endpointCase(c, subSeed(c.Seed, 2_000_000+i), -1)
		}
	case "C15":
		// extra run of C15: only the Docker-syntax histories (accelerated = cold; C15's own check ties cold to moby)
		for i, m := 0, argInt(c, "docker", 30); i < m; i++ {
			dockerCase(c, subSeed(c.Seed, 3_000_000+i), -1)
		}
		// every family x every order of (warm, none, elsewhere, inside), complete tree, no edits
		for i, m, n := 0, argInt(c, "dockerperm", 96), dockerScriptedCount(); i < m && i < n; i++ {
			dockerCase(c, dockerScriptedSeed(i), -1)
		}
	default:
		return fmt.Errorf("scan driver does not know property %s", c.Prop)
	}
	return nil
}

func replay(c *vlib.Ctx) error {
	doc := c.LoadReplay()
	begin, _ := doc["begin"].(map[string]any)
	in, _ := begin["in"].(map[string]any)
	num := func(k string) int64 {
		n, _ := in[k].(json.Number)
		v, _ := n.Int64()
		return v
	}
	switch c.Prop {
	case "C12":
		ak, _ := in["abort"].(string)
		c12Case(c, num("cseed"), int(num("cfg")), ak)
	case "C15":
		dockerCase(c, num("cseed"), int(num("step")))
	case "C13":
		if k, _ := in["kind"].(string); k == "docker" {
			dockerCase(c, num("cseed"), int(num("step")))
		} else if k == "endpoint" {
			endpointCase(c, num("cseed"), int(num("step")))
		} else {
			ak, _ := in["abort"].(string)
			c13Case(c, num("cseed"), int(num("round")), ak)
		}
	default:
		return fmt.Errorf("scan driver does not know property %s", c.Prop)
	}
	return nil
}
