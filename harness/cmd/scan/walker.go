package main

// The independent observer of the disk: os.Lstat / os.Readlink / crypto/sha1 and
// plain byte inspection of names. It contains no mutagen code and no property
// predicate: it records facts (type, mode bits, size, stamp, digest, link target
// bytes and their obvious byte-level attributes, which runs of a name are valid
// UTF-8, whether the name starts with the temporary prefix, device equality).
// spec/scan/ScanContract.tla turns facts into the snapshot that must be observed.

import (
	"crypto/sha1"
	"encoding/hex"
	"fmt"
	"os"
	"path/filepath"
	"regexp"
	"sort"
	"strconv"
	"strings"
	"syscall"
	"unicode/utf8"

	"golang.org/x/text/unicode/norm"
)

// temporaryPrefix is the walker's own copy of the prefix of Mutagen's
// intermediate files (the specification's constant, not an import).
const temporaryPrefix = ".mutagen-temporary-"

var plainToken = regexp.MustCompile(`^[A-Za-z0-9._-]+$`)

// tok maps a byte string to an ASCII token usable as a JSON key and TLA+ string:
// the string itself when it is plain, "hex:<hex>" otherwise (injective).
func tok(s string) string {
	if plainToken.MatchString(s) && !strings.HasPrefix(s, "hex") {
		return s
	}
	return "hex:" + hex.EncodeToString([]byte(s))
}

func toks(ss []string) []any {
	out := make([]any, 0, len(ss))
	for _, s := range ss {
		out = append(out, tok(s))
	}
	return out
}

// utf8Runs splits s into maximal runs of valid and of invalid UTF-8 bytes.
func utf8Runs(s string) []any {
	var out []any
	var cur []byte
	curOK := true
	flush := func() {
		if len(cur) > 0 {
			out = append(out, map[string]any{"ok": curOK, "h": hex.EncodeToString(cur)})
			cur = nil
		}
	}
	for i := 0; i < len(s); {
		r, w := utf8.DecodeRuneInString(s[i:])
		ok := !(r == utf8.RuneError && w == 1)
		if ok != curOK {
			flush()
			curOK = ok
		}
		cur = append(cur, s[i:i+w]...)
		i += w
	}
	flush()
	if out == nil {
		out = []any{}
	}
	return out
}

// faultPlan says which primitive fails for which base name (the driver arms the
// same plan in pkg/filesystem's verif fault hook). It is configuration, i.e. an
// input of the scan, and is recorded as the facts' readability flags.
type faultPlan struct{ on bool }

// openat fails for these names whatever the entry's kind (edits may retype an entry in place)
func (f faultPlan) unopenable(name string) bool {
	return f.on && (strings.HasPrefix(name, "noread") || strings.HasPrefix(name, "noopen"))
}
func (f faultPlan) fileUnreadable(name string) bool { return f.unopenable(name) }
func (f faultPlan) dirUnopenable(name string) bool  { return f.unopenable(name) }
func (f faultPlan) dirUnlistable(name string) bool  { return f.on && strings.HasPrefix(name, "nolist") }
func (f faultPlan) linkUnreadable(name string) bool { return f.on && strings.HasPrefix(name, "nolink") }

// walker observes a root.
type walker struct {
	root    string
	faults  faultPlan
	rootDev uint64
	nodes   int
}

func statOf(fi os.FileInfo) *syscall.Stat_t { return fi.Sys().(*syscall.Stat_t) }

// nameFacts are the facts about a directory entry's name.
func nameFacts(rel, name string, isDir bool, m map[string]any) {
	valid := utf8.ValidString(name)
	m["u8"] = valid
	m["tmp"] = strings.HasPrefix(name, temporaryPrefix)
	if valid {
		m["nfc"] = tok(norm.NFC.String(name))
	} else {
		m["nfc"] = tok(name)
		m["segs"] = utf8Runs(name)
	}
	st, ct := verdict(name, isDir)
	if verdictMode == "docker" {
		// the ignorer under test for acceleration is the real Docker-style one; its verdict for
		// (path, is-directory) is the configuration the scan ran with (C15 judges it against moby)
		st, ct = "nom", false
		if valid {
			st, ct = ignorerVerdict(rel, isDir)
		}
	}
	m["ig"] = st
	m["ct"] = ct
}

// walkRoot returns the facts of the root path ("none" if it does not exist).
func walkRoot(root string, faults faultPlan) (map[string]any, int) {
	fi, err := os.Lstat(root)
	if err != nil {
		if os.IsNotExist(err) {
			return map[string]any{"t": "none"}, 0
		}
		panic(err)
	}
	w := &walker{root: root, faults: faults, rootDev: uint64(statOf(fi).Dev)}
	n := w.node(root, filepath.Base(root), fi, true)
	return n, w.nodes
}

func (w *walker) node(path, name string, fi os.FileInfo, isRoot bool) map[string]any {
	w.nodes++
	st := statOf(fi)
	m := map[string]any{}
	mode := fi.Mode()
	if !isRoot {
		nameFacts(strings.TrimPrefix(path, w.root+"/"), name, mode.IsDir(), m)
	}
	switch {
	case mode.IsDir():
		m["t"] = "dir"
		m["ino"] = strconv.FormatUint(st.Ino, 10)
		xdev := uint64(st.Dev) != w.rootDev
		m["xdev"] = xdev
		m["rd"] = isRoot || !w.faults.dirUnopenable(name)
		m["ls"] = !w.faults.dirUnlistable(name)
		kids := map[string]any{}
		if !xdev {
			f, err := os.Open(path)
			if err != nil {
				panic(err)
			}
			names, err := f.Readdirnames(-1)
			f.Close()
			if err != nil {
				panic(err)
			}
			sort.Strings(names)
			for _, n := range names {
				p := path + "/" + n
				cfi, err := os.Lstat(p)
				if err != nil {
					panic(err)
				}
				kids[tok(n)] = w.node(p, n, cfi, false)
			}
		}
		m["c"] = kids
	case mode.IsRegular():
		m["t"] = "file"
		data, err := os.ReadFile(path)
		if err != nil {
			panic(err)
		}
		sum := sha1.Sum(data)
		m["d"] = hex.EncodeToString(sum[:])
		m["sz"] = len(data)
		if int64(len(data)) != st.Size {
			panic(fmt.Sprintf("walker: size mismatch at %q", path))
		}
		m["m"] = int(st.Mode & 0o7777)
		m["mt"] = strconv.FormatInt(st.Mtim.Sec, 10) + "." + fmt.Sprintf("%09d", st.Mtim.Nsec)
		m["ino"] = strconv.FormatUint(st.Ino, 10)
		m["rd"] = isRoot || !w.faults.fileUnreadable(name)
	case mode&os.ModeSymlink != 0:
		m["t"] = "link"
		tg, err := os.Readlink(path)
		if err != nil {
			panic(err)
		}
		m["tg"] = tok(tg)
		m["tl"] = len(tg)
		m["tc"] = toks(strings.Split(tg, "/"))
		m["abs"] = len(tg) > 0 && tg[0] == '/'
		m["col"] = strings.Contains(tg, ":")
		m["bs"] = strings.Contains(tg, "\\")
		m["rl"] = !w.faults.linkUnreadable(name)
		m["ino"] = strconv.FormatUint(st.Ino, 10)
	default:
		m["t"] = "other"
		switch {
		case mode&os.ModeNamedPipe != 0:
			m["o"] = "fifo"
		case mode&os.ModeSocket != 0:
			m["o"] = "sock"
		case mode&os.ModeDevice != 0:
			m["o"] = "dev"
		default:
			m["o"] = "unknown"
		}
	}
	return m
}

// flatten lists the facts by raw-name token path ("" = root) for the driver's
// own bookkeeping (choosing edit targets, building recheck sets).
func flatten(n map[string]any, prefix []string, out map[string]map[string]any) {
	out[strings.Join(prefix, "\x00")] = n
	if n["t"] == "dir" {
		for k, ch := range n["c"].(map[string]any) {
			flatten(ch.(map[string]any), append(append([]string{}, prefix...), k), out)
		}
	}
}
