package main

// Accelerated-scan histories under Docker-style ignores. The ignorer is the real
// one (pkg/synchronization/core/ignore/docker); pattern lists carry an exclusion
// and a re-inclusion beneath it, the excluded directory sits beneath a tracked
// directory, and there is content both excluded and re-included. A history is a
// chain of scans, each fed the snapshot, digest cache and ignore cache returned
// by the previous one (exactly as the endpoint does): warm full scans,
// accelerated scans with no re-check paths, with a re-check path elsewhere, with
// a re-check path inside the excluded directory - in random order, with and
// without edits in between. Every scan is compared with a cold scan of the same
// disk. Run for C13 and, on its own, as `--prop C15` (extra run of C15).

import (
	"context"
	"crypto/sha1"
	"fmt"
	"math/rand"
	"os"
	"path/filepath"
	"sort"
	"strings"

	"golang.org/x/text/unicode/norm"

	"github.com/mutagen-io/mutagen/pkg/synchronization/core/ignore"
	dockerignore "github.com/mutagen-io/mutagen/pkg/synchronization/core/ignore/docker"

	"verif/harness/internal/vlib"
)

// scanIgnorer, when set, replaces the table-driven ignorer in realScanWith.
var scanIgnorer ignore.Ignorer

func activeIgnorer() ignore.Ignorer {
	if scanIgnorer != nil {
		return scanIgnorer
	}
	return &tableIgnorer{}
}

// ignorerVerdict asks the active ignorer (walker, verdictMode "docker").
func ignorerVerdict(rel string, dir bool) (string, bool) {
	s, ct := scanIgnorer.Ignore(rel, dir)
	switch s {
	case ignore.IgnoreStatusIgnored:
		return "ign", ct
	case ignore.IgnoreStatusUnignored:
		return "unign", ct
	}
	return "nom", ct
}

// dockerScenario: a pattern list and the skeleton it is about. excluded = the
// excluded directory, kept = the re-included path beneath it.
type dockerScenario struct {
	name     string
	patterns []string
	dirs     []string
	files    []string
	excluded string
	kept     string
}

var dockerScenarios = []dockerScenario{
	{"exclude-reinclude", []string{"proj/a", "!proj/a/b/c"},
		[]string{"proj", "proj/a", "proj/a/y", "proj/a/b", "proj/a/b/c", "proj/a/b/c/d", "proj/other", "lib"},
		[]string{"proj/f0", "proj/a/x", "proj/a/y/y1", "proj/a/b/z", "proj/a/b/c/k1", "proj/a/b/c/k2", "proj/a/b/c/d/k3", "proj/other/o1", "lib/l1"},
		"proj/a", "proj/a/b/c"},
	// (traversal continues into an excluded directory only towards a re-inclusion spelled out beneath it)
	{"doublestar", []string{"**/gen", "!proj/gen/keep", "!proj/src/gen/deep/keep2"},
		[]string{"proj", "proj/gen", "proj/gen/keep", "proj/gen/sub", "proj/src", "proj/src/gen", "proj/src/gen/deep", "proj/src/gen/deep/keep2", "lib"},
		[]string{"proj/gen/junk", "proj/gen/keep/k1", "proj/gen/sub/s1", "proj/src/gen/junk2", "proj/src/gen/deep/d1", "proj/src/gen/deep/keep2/k1", "proj/src/main", "lib/l1"},
		"proj/gen", "proj/gen/keep"},
	{"everything-but", []string{"**", "!proj/keep/deep", "!lib/l1"},
		[]string{"proj", "proj/keep", "proj/keep/deep", "proj/drop", "lib"},
		[]string{"proj/keep/k1", "proj/keep/deep/x", "proj/keep/deep/k1", "proj/drop/d1", "proj/p1", "lib/l1", "lib/l2", "top"},
		"proj/keep", "proj/keep/deep"},
	{"anchored-dironly", []string{"/proj/out/", "!/proj/out/keep.txt", "*.tmp", "!/proj/out/inc/"},
		[]string{"proj", "proj/out", "proj/out/sub", "proj/out/inc", "proj/src", "lib"},
		[]string{"proj/out/keep.txt", "proj/out/a.o", "proj/out/sub/b.o", "proj/out/inc/h1", "proj/src/n.tmp", "proj/src/main", "lib/l1"},
		"proj/out", "proj/out/inc"},
}

var dockerKinds = []string{"warm", "none", "elsewhere", "inside", "inside", "elsewhere", "none"}

// Scripted histories: negative case seeds (-1-k) denote
// (pattern family, order of the four scan kinds) instead of a random history:
// the complete tree of the family, no edits, the four kinds of scan in every one
// of their 24 orders, so that every "kind X directly after kind Y" chain is
// certainly exercised for every family (random histories reach a given chain
// of three only now and then).
func dockerScriptedSeed(k int) int64 { return -1 - int64(k) }

var dockerOrders = func() [][]string {
	k := []string{"warm", "none", "elsewhere", "inside"}
	var out [][]string
	var rec func(cur []string, used int)
	rec = func(cur []string, used int) {
		if len(cur) == len(k) {
			out = append(out, append([]string{}, cur...))
			return
		}
		for i := range k {
			if used&(1<<i) == 0 {
				rec(append(cur, k[i]), used|1<<i)
			}
		}
	}
	rec(nil, 0)
	return out
}()

func dockerScriptedCount() int { return len(dockerScenarios) * len(dockerOrders) }

func dockerCase(c *vlib.Ctx, cseed int64, upto int) {
	r := rand.New(rand.NewSource(cseed))
	g := &gen{r: r, budget: 8}
	sc := dockerScenarios[r.Intn(len(dockerScenarios))]
	var order []string
	if cseed < 0 {
		k := int(-1 - cseed)
		sc = dockerScenarios[(k/len(dockerOrders))%len(dockerScenarios)]
		order = dockerOrders[k%len(dockerOrders)]
	}
	ig, err := dockerignore.NewIgnorer(sc.patterns)
	if err != nil {
		vlib.Fatal("docker patterns %v: %v", sc.patterns, err)
	}
	scanIgnorer = ig
	verdictMode = "docker"
	defer func() { scanIgnorer = nil; verdictMode = "table" }()

	base := c.TempDir("dk-")
	defer os.RemoveAll(base)
	root := filepath.Join(base, "root")
	must(os.Mkdir(root, 0o755))
	for _, d := range sc.dirs {
		if order != nil || r.Intn(10) > 0 || d == "proj" || d == sc.excluded {
			os.MkdirAll(filepath.Join(root, d), 0o755)
		}
	}
	for _, f := range sc.files {
		if _, err := os.Stat(filepath.Dir(filepath.Join(root, f))); err == nil && (order != nil || r.Intn(6) > 0) {
			p := filepath.Join(root, f)
			must(os.WriteFile(p, content(fileSizes[r.Intn(8)], r.Int63()), os.FileMode(fileModes[r.Intn(6)]&0o777)))
			g.stamp(p)
		}
	}
	faults := faultPlan{on: true}
	cfg := config{Sym: symNames[r.Intn(3)], Perm: permNames[r.Intn(2)], Pres: probePreserves(base)}
	hasher := &trapHasher{Hash: sha1.New()}
	oldF, _ := walkRoot(root, faults)
	held := realScanWith(context.Background(), hasher, root, cfg, faults, nil, nil, nil, nil) // the first scan of a history is cold
	if held.err != nil || held.hung {
		vlib.Fatal("docker: first scan failed: %v", held.err)
	}
	steps := 4 + r.Intn(4)
	if order != nil {
		steps = len(order)
	}
	for step := 1; step <= steps; step++ {
		kind := dockerKinds[r.Intn(len(dockerKinds))]
		if order != nil {
			kind = order[step-1]
		}
		edits := []any{}
		if order == nil && r.Intn(2) == 0 {
			for i := 1 + r.Intn(3); i > 0; i-- {
				edits = append(edits, ascii(g.dockerEdit(root, sc)))
			}
		}
		newF, nodes := walkRoot(root, faults)
		changed := changedPaths(oldF, newF)
		set := map[string]bool{}
		for _, p := range changed {
			set[rawPath(p)] = true
		}
		switch kind {
		case "elsewhere":
			set[[]string{"lib/l1", "lib", "elsewhere/zz", "lib/new"}[r.Intn(4)]] = true
		case "inside":
			set[[]string{sc.excluded, sc.excluded + "/x", sc.kept, sc.kept + "/k1", sc.kept + "/nothing", sc.excluded + "/b"}[r.Intn(6)]] = true
		}
		var rlist []string
		for p := range set {
			rlist = append(rlist, p)
		}
		sort.Strings(rlist)
		recheck := map[string]bool{}
		rtoks, rnfc := []any{}, []any{}
		for _, p := range rlist {
			recheck[p] = true
			rtoks = append(rtoks, pathToks(p))
			rnfc = append(rnfc, pathToks(norm.NFC.String(p)))
		}
		var acc scanOut
		baseRec := encScan(held)
		if kind == "warm" {
			acc = realScanWith(context.Background(), hasher, root, cfg, faults, nil, nil, held.cache, held.icache)
			baseRec = map[string]any{"ok": false, "hung": false, "err": "", "cache": encCache(held.cache), "icache": encICache(held.icache)}
		} else {
			acc = realScanWith(context.Background(), hasher, root, cfg, faults, held.snap, recheck, held.cache, held.icache)
		}
		cold := realScan(root, cfg, faults, nil, nil, nil, nil)
		if upto < 0 || step == upto {
			rec := map[string]any{
				"ev":          "Accel",
				"in":          map[string]any{"cseed": int(cseed), "step": step, "kind": "docker"},
				"cfg":         vlib.ToMap(cfg),
				"mode":        kind,
				"scenario":    sc.name,
				"patterns":    toks(sc.patterns),
				"edits":       edits,
				"old":         oldF,
				"new":         newF,
				"recheck":     rtoks,
				"recheck_nfc": rnfc,
				"base":        baseRec,
				"accel":       encScan(acc),
				"cold":        encScan(cold),
			}
			c.Emit(rec)
			c.Eval()
			if acc.err == nil && cold.err == nil {
				c.NonTrivial(fmt.Sprintf("dk/%d/%d", cseed, step))
			}
			if !sampledOnce || (step == 2 && r.Intn(10) == 0) {
				sampledOnce = true
				c.Sample(map[string]any{"in": rec["in"], "scenario": sc.name, "patterns": sc.patterns, "mode": kind, "edits": edits, "nodes": nodes, "recheck": rlist})
			}
			c.AddExtra("docker_scans_"+kind, 1)
			if len(changed) > 0 {
				c.AddExtra("docker_scans_after_edits", 1)
			}
		}
		if acc.err != nil || acc.hung || cold.err != nil || step == upto {
			break
		}
		held = acc // exactly as the endpoint does
		oldF = newF
	}
	c.TraceDone()
	c.AddExtra("docker_histories", 1)
}

// dockerEdit makes one edit, half of the time inside the excluded directory or
// the re-included path beneath it.
func (g *gen) dockerEdit(root string, sc dockerScenario) string {
	r := g.r
	if r.Intn(2) == 0 {
		d := g.edit(root)
		if strings.HasPrefix(d, "stealth ") {
			// keep histories judgeable: give the stealthily edited file a new stamp after all
			g.stamp(filepath.Join(root, strings.TrimPrefix(d, "stealth ")))
			d = "rewrite-in-place " + strings.TrimPrefix(d, "stealth ")
		}
		return d
	}
	dir := []string{sc.excluded, sc.kept, filepath.Dir(sc.excluded)}[r.Intn(3)]
	abs := filepath.Join(root, dir)
	fi, err := os.Lstat(abs)
	switch r.Intn(5) {
	case 0: // the whole directory goes (or comes back)
		if err == nil {
			must(os.RemoveAll(abs))
			return "remove " + dir
		}
		if os.MkdirAll(abs, 0o755) == nil {
			return "mkdir " + dir
		}
		return "none"
	case 1: // it becomes a file / a directory again
		if err == nil && fi.IsDir() {
			must(os.RemoveAll(abs))
			if os.WriteFile(abs, content(20, r.Int63()), 0o644) == nil {
				g.stamp(abs)
			}
			return "dir->file " + dir
		} else if err == nil {
			must(os.Remove(abs))
			os.MkdirAll(abs, 0o755)
			return "file->dir " + dir
		}
		return "none"
	}
	if err != nil || !fi.IsDir() {
		return "none"
	}
	names := []string{"x", "k1", "k2", "junk", "new1", "b", "keep", "keep.txt", "n.tmp", "d"}
	name := names[r.Intn(len(names))]
	p := filepath.Join(abs, name)
	cfi, cerr := os.Lstat(p)
	switch {
	case cerr != nil && r.Intn(4) == 0:
		if os.Mkdir(p, 0o755) == nil {
			os.WriteFile(p+"/in", content(9, r.Int63()), 0o644)
			g.stamp(p + "/in")
		}
		return "mkdir " + dir + "/" + name
	case cerr != nil:
		must(os.WriteFile(p, content(fileSizes[r.Intn(8)], r.Int63()), 0o644))
		g.stamp(p)
		return "create " + dir + "/" + name
	case cfi.Mode().IsRegular() && r.Intn(3) > 0:
		must(os.WriteFile(p, content(fileSizes[r.Intn(8)], r.Int63()), 0o644))
		g.stamp(p)
		return "rewrite " + dir + "/" + name
	default:
		must(os.RemoveAll(p))
		return "delete " + dir + "/" + name
	}
}

var _ = strings.HasPrefix
