package main

// Random real trees and random edit sequences. Everything here manipulates the
// disk with the os package only.

import (
	"fmt"
	"math/rand"
	"os"
	"path/filepath"
	"strings"
	"syscall"
	"time"

	"golang.org/x/text/unicode/norm"

	"github.com/mutagen-io/mutagen/pkg/synchronization/core/ignore"
)

// verdict is the table-driven ignorer's decision: a pure function of the base
// name and of whether the entry is a directory. It respects the contract of the
// real ignorers (traversal continuation only for directories that are nominal or
// ignored). Prefixes: ig = ignored; ip = ignored, continue traversal (Docker
// style, yields phantom directories); un = unignored; np = nominal, continue
// traversal under an ignore mask; dg = ignored only when a directory.
func verdict(name string, dir bool) (string, bool) {
	if verdictMode == "mutagen" {
		// the same codes realised by Mutagen-style patterns (endpointIgnores): no traversal continuation
		switch {
		case strings.HasPrefix(name, "ig"), dir && strings.HasPrefix(name, "dg"):
			return "ign", false
		case strings.HasPrefix(name, "un"):
			return "unign", false
		}
		return "nom", false
	}
	switch {
	case strings.HasPrefix(name, "ig"):
		return "ign", false
	case strings.HasPrefix(name, "ip"):
		return "ign", dir
	case strings.HasPrefix(name, "un"):
		return "unign", false
	case strings.HasPrefix(name, "np"):
		return "nom", dir
	case strings.HasPrefix(name, "dg"):
		if dir {
			return "ign", false
		}
		return "nom", false
	}
	return "nom", false
}

// verdictMode selects the verdict table: "table" (the table-driven ignorer handed to
// core.Scan directly) or "mutagen" (the real Mutagen-style ignorer of an endpoint
// configured with endpointIgnores).
var verdictMode = "table"

// tableIgnorer implements ignore.Ignorer with verdict.
type tableIgnorer struct{ calls int }

func (t *tableIgnorer) Ignore(path string, directory bool) (ignore.IgnoreStatus, bool) {
	t.calls++
	name := path
	if i := strings.LastIndexByte(path, '/'); i >= 0 {
		name = path[i+1:]
	}
	s, ct := verdict(name, directory)
	switch s {
	case "ign":
		return ignore.IgnoreStatusIgnored, ct
	case "unign":
		return ignore.IgnoreStatusUnignored, ct
	}
	return ignore.IgnoreStatusNominal, ct
}

// spec is a generated node.
type spec struct {
	name   string
	kind   string // dir file link fifo sock
	mode   uint32
	size   int
	fill   int64
	target string
	kids   []*spec
	mount  bool
}

type gen struct {
	r       *rand.Rand
	budget  int
	serial  int
	rich    bool // C12: all name/kind classes; C13: fewer oddities, more structure
	nfd     bool // favour names that are stored decomposed
	tick    int64
	mounted []string
}

var fileModes = []uint32{0o644, 0o644, 0o600, 0o755, 0o700, 0o711, 0o640, 0o001, 0o010, 0o100, 0o444, 0o4755, 0o000, 0o666, 0o754}
var fileSizes = []int{0, 0, 1, 7, 33, 100, 100, 512, 4096, 32768, 32769, 70001}

func (g *gen) nextSerial() int { g.serial++; return g.serial }

// linkTarget picks a target; depth = depth of the directory holding the link.
func (g *gen) linkTarget(depth int) string {
	r := g.r
	switch r.Intn(17) {
	case 0:
		return "f0"
	case 1:
		return "../f1"
	case 2:
		return strings.Repeat("../", depth) + "x"
	case 3:
		return strings.Repeat("../", depth+1) + "x"
	case 4:
		return "/etc/passwd"
	case 5:
		return "a:b"
	case 6:
		return "back\\slash"
	case 7:
		return strings.Repeat("a", 248)
	case 8:
		return strings.Repeat("b", 247)
	case 9:
		return "./d0/../f0"
	case 10:
		return ".."
	case 11:
		return "."
	case 12:
		return "nonexistent/deep/path"
	case 13:
		return "caf\xc3\xa9"
	case 14:
		return "d0/" + strings.Repeat("../", depth+1) + "y"
	case 15:
		return "raw\xff"
	}
	return fmt.Sprintf("t%d", r.Intn(4))
}

// name picks an unused name for a node of the given kind.
func (g *gen) name(kind string, used map[string]bool) string {
	r := g.r
	for {
		var n string
		k := r.Intn(100)
		i := r.Intn(6)
		switch {
		case g.nfd && kind != "link" && r.Intn(4) == 0:
			n = []string{"cafe\xcc\x81", "u\xcc\x88ber", "an\xcc\x83o", "e\xcc\x81", "o\xcc\x82k", "A\xcc\x8a"}[i]
		case kind == "file" && g.rich && k < 6:
			n = fmt.Sprintf("noread%d", g.nextSerial())
		case kind == "dir" && g.rich && k < 4:
			n = fmt.Sprintf("noopen%d", g.nextSerial())
		case kind == "dir" && g.rich && k < 8:
			n = fmt.Sprintf("nolist%d", g.nextSerial())
		case kind == "link" && g.rich && k < 6:
			n = fmt.Sprintf("nolink%d", g.nextSerial())
		case k < 16:
			n = fmt.Sprintf("ig%d", i)
		case k < 28:
			n = fmt.Sprintf("ip%d", i)
		case k < 38:
			n = fmt.Sprintf("un%d", i)
		case k < 46:
			n = fmt.Sprintf("np%d", i)
		case k < 52:
			n = fmt.Sprintf("dg%d", i)
		case k < 57:
			n = temporaryPrefix + fmt.Sprintf("x%d", i)
		case k < 59:
			n = temporaryPrefix + "\xff" + fmt.Sprintf("%d", i)
		case k < 66:
			n = []string{"bad\xff", "\xfe\xfdz", "a\xc3", "x\xff\xfey", "\xc0\xafq", "m\xe2\x82"}[i]
		case k < 71:
			n = []string{"caf\xc3\xa9", "cafe\xcc\x81", "\xe6\x97\xa5\xe6\x9c\xac", "sp ace", "q\"uote", "semi;colon"}[i]
		case k < 73:
			n = []string{"-dash", "hexlike", "a (non-UTF-8)", "...", "tab\there", "nl\nname"}[i]
		default:
			n = fmt.Sprintf("%c%d", kind[0], r.Intn(8))
		}
		// NFC collisions inside one directory make the recomposed key ambiguous; keep one.
		if n == "cafe\xcc\x81" && used["caf\xc3\xa9"] || n == "caf\xc3\xa9" && used["cafe\xcc\x81"] {
			continue
		}
		// A symbolic link is read back under its recomposed name; that only resolves on a
		// filesystem that really is normalisation-insensitive, which the preset-behaviour
		// configurations merely pretend. Decomposed names are therefore not given to links.
		if kind == "link" && n == "cafe\xcc\x81" {
			continue
		}
		if !used[n] {
			used[n] = true
			return n
		}
	}
}

func (g *gen) leafKind() string {
	k := g.r.Intn(100)
	switch {
	case k < 62:
		return "file"
	case k < 84:
		return "link"
	case k < 93:
		return "fifo"
	default:
		return "sock"
	}
}

func (g *gen) node(kind string, depth int, used map[string]bool) *spec {
	g.budget--
	s := &spec{kind: kind, name: g.name(kind, used)}
	switch kind {
	case "file":
		s.mode = fileModes[g.r.Intn(len(fileModes))]
		s.size = fileSizes[g.r.Intn(len(fileSizes))]
		s.fill = g.r.Int63()
	case "link":
		s.target = g.linkTarget(depth)
	case "dir":
		s.mode = 0o755
		g.fillDir(s, depth+1)
	}
	return s
}

func (g *gen) fillDir(d *spec, depth int) {
	n := g.r.Intn(6)
	if depth == 0 {
		n = 2 + g.r.Intn(6)
	}
	if depth >= 4 {
		n = g.r.Intn(2)
	}
	used := map[string]bool{}
	for i := 0; i < n && g.budget > 0; i++ {
		kind := g.leafKind()
		if depth < 4 && g.r.Intn(100) < 34 {
			kind = "dir"
		}
		d.kids = append(d.kids, g.node(kind, depth, used))
	}
}

// tree generates a root specification: a directory (usually), a file, a link or
// nothing at all.
func (g *gen) tree(rootKinds bool) *spec {
	k := 100
	if rootKinds {
		k = g.r.Intn(100)
	}
	switch {
	case k < 5:
		return &spec{kind: "none"}
	case k < 12:
		return &spec{kind: "file", mode: fileModes[g.r.Intn(len(fileModes))], size: fileSizes[g.r.Intn(len(fileSizes))], fill: g.r.Int63()}
	case k < 15:
		return &spec{kind: "link", target: "elsewhere"}
	}
	root := &spec{kind: "dir", mode: 0o755}
	g.fillDir(root, 0)
	return root
}

func content(size int, fill int64) []byte {
	b := make([]byte, size)
	rand.New(rand.NewSource(fill)).Read(b)
	return b
}

// stamp gives path a fresh, unique modification time.
func (g *gen) stamp(path string) {
	g.tick++
	t := time.Unix(1_600_000_000+g.tick*3, int64(g.r.Intn(1_000_000_000)))
	if err := os.Chtimes(path, t, t); err != nil {
		panic(err)
	}
}

func must(err error) {
	if err != nil {
		panic(err)
	}
}

func mksock(path string) {
	must(syscall.Mknod(path, syscall.S_IFSOCK|0o644, 0))
}

// materialise creates s at path.
func (g *gen) materialise(s *spec, path string) {
	switch s.kind {
	case "none":
	case "dir":
		must(os.Mkdir(path, 0o755))
		for _, k := range s.kids {
			g.materialise(k, path+"/"+k.name)
		}
	case "file":
		must(os.WriteFile(path, content(s.size, s.fill), 0o600))
		must(os.Chmod(path, os.FileMode(s.mode&0o777)|specialBits(s.mode)))
		g.stamp(path)
	case "link":
		must(os.Symlink(s.target, path))
	case "fifo":
		must(syscall.Mkfifo(path, 0o644))
	case "sock":
		mksock(path)
	}
}

func specialBits(m uint32) os.FileMode {
	var out os.FileMode
	if m&0o4000 != 0 {
		out |= os.ModeSetuid
	}
	if m&0o2000 != 0 {
		out |= os.ModeSetgid
	}
	if m&0o1000 != 0 {
		out |= os.ModeSticky
	}
	return out
}

// mountSomewhere turns one random sub-directory of root into a tmpfs mount point
// (a filesystem boundary). It reports whether it did; the caller must unmountAll.
func (g *gen) mountSomewhere(root string) bool {
	var dirs []string
	filepath.Walk(root, func(p string, fi os.FileInfo, err error) error {
		if err == nil && fi.IsDir() && p != root {
			dirs = append(dirs, p)
		}
		return nil
	})
	if len(dirs) == 0 {
		return false
	}
	d := dirs[g.r.Intn(len(dirs))]
	if err := syscall.Mount("none", d, "tmpfs", 0, "size=64k"); err != nil {
		return false
	}
	g.mounted = append(g.mounted, d)
	os.WriteFile(d+"/inside", []byte("x"), 0o644)
	return true
}

func (g *gen) unmountAll() {
	for i := len(g.mounted) - 1; i >= 0; i-- {
		syscall.Unmount(g.mounted[i], syscall.MNT_DETACH)
	}
	g.mounted = nil
}

// ---------------------------------------------------------------------------
// edits (C13)

type diskEntry struct {
	rel  string // raw relative path
	kind string // dir file link other
	n    int    // number of children for directories
}

func listDisk(root string) []diskEntry {
	var out []diskEntry
	var rec func(rel string)
	rec = func(rel string) {
		f, err := os.Open(filepath.Join(root, rel))
		must(err)
		names, err := f.Readdirnames(-1)
		f.Close()
		must(err)
		sortStrings(names)
		for _, n := range names {
			r := n
			if rel != "" {
				r = rel + "/" + n
			}
			fi, err := os.Lstat(root + "/" + r)
			must(err)
			e := diskEntry{rel: r}
			switch {
			case fi.IsDir():
				e.kind = "dir"
				ff, _ := os.Open(root + "/" + r)
				ns, _ := ff.Readdirnames(-1)
				ff.Close()
				e.n = len(ns)
			case fi.Mode().IsRegular():
				e.kind = "file"
			case fi.Mode()&os.ModeSymlink != 0:
				e.kind = "link"
			default:
				e.kind = "other"
			}
			out = append(out, e)
			if e.kind == "dir" {
				rec(r)
			}
		}
	}
	rec("")
	return out
}

func sortStrings(s []string) {
	for i := 1; i < len(s); i++ {
		for j := i; j > 0 && s[j] < s[j-1]; j-- {
			s[j], s[j-1] = s[j-1], s[j]
		}
	}
}

func pick(r *rand.Rand, es []diskEntry, ok func(diskEntry) bool) (diskEntry, bool) {
	var c []diskEntry
	for _, e := range es {
		if ok(e) {
			c = append(c, e)
		}
	}
	if len(c) == 0 {
		return diskEntry{}, false
	}
	return c[r.Intn(len(c))], true
}

func depthOf(rel string) int {
	if rel == "" {
		return 0
	}
	return strings.Count(rel, "/") + 1
}

// freshName returns a name not present in dir.
func (g *gen) freshName(dir, kind string) string {
	used := map[string]bool{}
	f, err := os.Open(dir)
	must(err)
	names, _ := f.Readdirnames(-1)
	f.Close()
	for _, n := range names {
		used[n] = true
	}
	return g.name(kind, used)
}

func (g *gen) create(root, dirRel, kind string) string {
	dir := filepath.Join(root, dirRel)
	name := g.freshName(dir, kind)
	g.budget = 4
	s := &spec{kind: kind, name: name}
	switch kind {
	case "file":
		s.mode = fileModes[g.r.Intn(len(fileModes))]
		s.size = fileSizes[g.r.Intn(len(fileSizes))]
		s.fill = g.r.Int63()
	case "link":
		s.target = g.linkTarget(depthOf(dirRel))
	case "dir":
		if g.r.Intn(3) > 0 {
			g.fillDir(s, 3)
		}
	}
	g.materialise(s, dir+"/"+name)
	return name
}

// edit applies one random edit to the tree under root and returns a short
// description (diagnostics only; the specification judges from walker facts).
func (g *gen) edit(root string) string {
	r := g.r
	es := listDisk(root)
	dirs := append([]diskEntry{{rel: "", kind: "dir"}}, es...)
	isDir := func(e diskEntry) bool { return e.kind == "dir" }
	isFile := func(e diskEntry) bool { return e.kind == "file" }
	any := func(e diskEntry) bool { return true }
	abs := func(rel string) string { return filepath.Join(root, rel) }
	for try := 0; try < 20; try++ {
		op := r.Intn(20)
		if op >= 16 {
			// the edits that exercise digest reuse and directory reuse get extra weight
			op = []int{9, 9, 12, 13}[op-16]
		}
		switch op {
		case 0, 1: // create
			d, _ := pick(r, dirs, isDir)
			kind := g.leafKind()
			if r.Intn(3) == 0 {
				kind = "dir"
			}
			return "create " + kind + " " + d.rel + "/" + g.create(root, d.rel, kind)
		case 2: // delete
			e, ok := pick(r, es, any)
			if !ok {
				continue
			}
			must(os.RemoveAll(abs(e.rel)))
			return "delete " + e.rel
		case 3, 4: // rename to a fresh name in some directory
			e, ok := pick(r, es, any)
			if !ok {
				continue
			}
			d, _ := pick(r, dirs, func(x diskEntry) bool {
				return x.kind == "dir" && x.rel != e.rel && !strings.HasPrefix(x.rel+"/", e.rel+"/")
			})
			kind := e.kind
			if kind == "other" {
				kind = "fifo"
			}
			name := g.freshName(abs(d.rel), kind)
			must(os.Rename(abs(e.rel), filepath.Join(abs(d.rel), name)))
			return "rename " + e.rel + " -> " + d.rel + "/" + name
		case 5: // rename a file over another non-directory
			a, ok := pick(r, es, isFile)
			b, ok2 := pick(r, es, func(x diskEntry) bool { return x.kind != "dir" && x.rel != a.rel })
			if !ok || !ok2 {
				continue
			}
			must(os.Rename(abs(a.rel), abs(b.rel)))
			return "replace " + b.rel + " by " + a.rel
		case 6: // type change at the same path
			e, ok := pick(r, es, any)
			if !ok {
				continue
			}
			must(os.RemoveAll(abs(e.rel)))
			kinds := []string{"file", "dir", "link", "fifo"}
			var k string
			for {
				k = kinds[r.Intn(len(kinds))]
				// (links never carry decomposed names, see name)
				if k != e.kind && !(e.kind == "other" && k == "fifo") && !(k == "link" && norm.NFC.String(e.rel) != e.rel) {
					break
				}
			}
			g.budget = 4
			s := &spec{kind: k, name: filepath.Base(e.rel), mode: 0o644, size: 10 + r.Intn(50), fill: r.Int63(), target: "f0"}
			if k == "dir" && r.Intn(2) == 0 {
				g.fillDir(s, 3)
			}
			g.materialise(s, abs(e.rel))
			return "retype " + e.rel + " " + e.kind + " -> " + k
		case 7, 8: // content edit in place (same inode), new stamp
			e, ok := pick(r, es, isFile)
			if !ok {
				continue
			}
			fi, _ := os.Lstat(abs(e.rel))
			size := int(fi.Size())
			if r.Intn(2) == 0 {
				size = fileSizes[r.Intn(len(fileSizes))]
			}
			f, err := os.OpenFile(abs(e.rel), os.O_WRONLY|os.O_TRUNC, 0)
			must(err)
			f.Write(content(size, r.Int63()))
			f.Close()
			g.stamp(abs(e.rel))
			return "rewrite " + e.rel
		case 9: // content edit by replacement (new inode), same size, possibly the old stamp
			e, ok := pick(r, es, isFile)
			if !ok {
				continue
			}
			fi, _ := os.Lstat(abs(e.rel))
			tmp := abs(e.rel) + ".swap"
			must(os.WriteFile(tmp, content(int(fi.Size()), r.Int63()), fi.Mode().Perm()))
			if r.Intn(2) == 0 {
				must(os.Chtimes(tmp, fi.ModTime(), fi.ModTime()))
			} else {
				g.stamp(tmp)
			}
			must(os.Rename(tmp, abs(e.rel)))
			return "swap " + e.rel
		case 10: // touch
			e, ok := pick(r, es, isFile)
			if !ok {
				continue
			}
			g.stamp(abs(e.rel))
			return "touch " + e.rel
		case 11: // mode edit
			e, ok := pick(r, es, isFile)
			if !ok {
				continue
			}
			fi, _ := os.Lstat(abs(e.rel))
			must(os.Chmod(abs(e.rel), fi.Mode().Perm()^os.FileMode([]uint32{0o100, 0o111, 0o001, 0o044}[r.Intn(4)])))
			return "chmod " + e.rel
		case 12: // an empty directory is removed and a populated one renamed into its place
			e, ok := pick(r, es, func(x diskEntry) bool { return x.kind == "dir" && x.n == 0 })
			o, ok2 := pick(r, es, func(x diskEntry) bool {
				return x.kind == "dir" && x.n > 0 && !strings.HasPrefix(e.rel+"/", x.rel+"/") && !strings.HasPrefix(x.rel+"/", e.rel+"/")
			})
			if !ok || !ok2 {
				continue
			}
			must(os.Remove(abs(e.rel)))
			must(os.Rename(abs(o.rel), abs(e.rel)))
			return "swap-in " + o.rel + " -> " + e.rel
		case 13: // a populated directory is renamed away and another takes its name
			e, ok := pick(r, es, func(x diskEntry) bool { return x.kind == "dir" && x.n > 0 })
			o, ok2 := pick(r, es, func(x diskEntry) bool {
				return x.kind == "dir" && x.rel != e.rel && !strings.HasPrefix(e.rel+"/", x.rel+"/") && !strings.HasPrefix(x.rel+"/", e.rel+"/")
			})
			if !ok || !ok2 {
				continue
			}
			away := filepath.Join(root, g.freshName(root, "dir"))
			must(os.Rename(abs(e.rel), away))
			must(os.Rename(abs(o.rel), abs(e.rel)))
			return "exchange " + o.rel + " -> " + e.rel
		case 14: // stealth edit: same inode, size and stamp, different content
			e, ok := pick(r, es, isFile)
			if !ok {
				continue
			}
			fi, _ := os.Lstat(abs(e.rel))
			if fi.Size() == 0 {
				continue
			}
			f, err := os.OpenFile(abs(e.rel), os.O_WRONLY, 0)
			must(err)
			f.Write(content(int(fi.Size()), r.Int63()))
			f.Close()
			must(os.Chtimes(abs(e.rel), fi.ModTime(), fi.ModTime()))
			return "stealth " + e.rel
		case 15: // link retarget
			e, ok := pick(r, es, func(x diskEntry) bool { return x.kind == "link" })
			if !ok {
				continue
			}
			must(os.Remove(abs(e.rel)))
			must(os.Symlink(g.linkTarget(depthOf(e.rel)-1), abs(e.rel)))
			return "retarget " + e.rel
		}
	}
	return "none"
}
