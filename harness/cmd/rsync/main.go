// Driver "rsync": executes the real pkg/synchronization/rsync engine
// (Engine.BytesSignature / DeltifyBytes / PatchBytes / Deltify and
// rsync.Transmit into an encoding receiver) on the complete bounded domain of
// spec/rsync/Rsync.tla (all base/target strings over {a,b} up to a length x
// every block size x maximum data sizes {1,2,3}), with a transmitter / encoder
// that fails at a prescribed call (once or persistently), and on seeded random
// larger inputs. It records what the real code returned. It contains no
// property predicate; spec/rsync/Rsync_Trace.tla judges the records.
package main

import (
	"bufio"
	"bytes"
	"errors"
	"fmt"
	"io"
	"math/rand"
	"os"
	"path/filepath"
	"strconv"
	"strings"

	"google.golang.org/protobuf/proto"

	"github.com/mutagen-io/mutagen/pkg/encoding"
	"github.com/mutagen-io/mutagen/pkg/synchronization/rsync"

	"verif/harness/internal/vlib"
)

func main() { vlib.Main(run, replay) }

// ---------------------------------------------------------------------------
// encoding helpers (bytes are recorded as arrays of integers)

func ints(b []byte) []int {
	out := make([]int, len(b))
	for i, v := range b {
		out[i] = int(v)
	}
	return out
}

func encOp(o *rsync.Operation) map[string]any {
	if o == nil {
		return map[string]any{"data": []int{}, "start": 0, "count": 0}
	}
	return map[string]any{"data": ints(o.Data), "start": int(o.Start), "count": int(o.Count)}
}

func encOps(ops []*rsync.Operation) []any {
	out := make([]any, 0, len(ops))
	for _, o := range ops {
		out = append(out, encOp(o))
	}
	return out
}

func errStr(err error) string {
	if err == nil {
		return ""
	}
	// keep the text ASCII and short; the text itself is never judged
	s := err.Error()
	if len(s) > 120 {
		s = s[:120]
	}
	return strings.Map(func(r rune) rune {
		if r < 32 || r > 126 || r == '"' || r == '\\' {
			return '?'
		}
		return r
	}, s)
}

func argInt(c *vlib.Ctx, name string, def int) int {
	for _, a := range c.Args {
		if strings.HasPrefix(a, name+"=") {
			v, err := strconv.Atoi(a[len(name)+1:])
			if err != nil {
				vlib.Fatal("bad argument %q", a)
			}
			return v
		}
	}
	return def
}

// ---------------------------------------------------------------------------
// the real engine

// newEngine returns a real engine whose reusable buffers have already been used
// for an unrelated fixed job (engines are designed to be re-used; a case must not
// depend on virgin buffers). Deterministic, so a replay sees the same engine.
func newEngine() *rsync.Engine {
	e := rsync.NewEngine()
	junk := bytes.Repeat([]byte("zyxwvutsrq"), 9)
	sig := e.BytesSignature(junk[:61], 7)
	ops := e.DeltifyBytes(junk, sig, 5)
	e.PatchBytes(junk[:61], sig, ops)
	return e
}

type input struct {
	base, target []byte
	bs, md       uint64
}

func (in input) enc() map[string]any {
	return map[string]any{"base": ints(in.base), "target": ints(in.target), "bs": int(in.bs), "md": int(in.md)}
}

// deltaCase: signature, delta and patch through the real engine.
func deltaCase(c *vlib.Ctx, shape string, L int, in input) {
	e := newEngine()
	sig := e.BytesSignature(in.base, in.bs)
	ops := e.DeltifyBytes(in.target, sig, in.md)
	patched, perr := e.PatchBytes(in.base, sig, ops)
	rec := map[string]any{
		"ev": "Delta", "shape": shape, "L": L, "in": in.enc(),
		"sig":      map[string]any{"bs": int(sig.BlockSize), "lbs": int(sig.LastBlockSize), "n": len(sig.Hashes)},
		"ops":      encOps(ops),
		"patched":  ints(patched),
		"patchErr": errStr(perr),
	}
	c.Emit(rec)
	c.Eval()
	if len(in.target) > 0 {
		c.NonTrivial(rec["in"])
	}
	if shape != "ex" || (len(in.base) == L && len(in.target) == L && in.bs == 2 && in.md == 1) {
		if len(in.base) <= 64 {
			c.Sample(rec)
		}
	}
}

// failing transmitter / encoder bookkeeping
type faulty struct {
	failAt     int
	persistent bool
	calls      int
	nfailed    int
}

func (f *faulty) next() bool { // true = this call fails
	f.calls++
	if f.failAt > 0 && (f.calls == f.failAt || (f.persistent && f.calls > f.failAt)) {
		f.nfailed++
		return true
	}
	return false
}

var errInjected = errors.New("injected transmit failure")

// deltify runs the real streaming Engine.Deltify with a transmitter that fails at
// the prescribed call and returns (calls, failed calls, error, delivered operations).
func deltify(in input, failAt int, mode string) (int, int, error, []*rsync.Operation, *rsync.Signature) {
	e := newEngine()
	sig := e.BytesSignature(in.base, in.bs)
	f := &faulty{failAt: failAt, persistent: mode == "persistent"}
	var delivered []*rsync.Operation
	transmit := func(o *rsync.Operation) error {
		if f.next() {
			return errInjected
		}
		delivered = append(delivered, proto.Clone(o).(*rsync.Operation))
		return nil
	}
	err := e.Deltify(bytes.NewReader(in.target), sig, in.md, transmit)
	return f.calls, f.nfailed, err, delivered, sig
}

func faultCase(c *vlib.Ctx, shape string, L int, in input, calls0, failAt int, mode string) {
	calls, nfailed, err, delivered, sig := deltify(in, failAt, mode)
	inm := in.enc()
	inm["failAt"] = failAt
	inm["mode"] = mode
	rec := map[string]any{
		"ev": "Fault", "shape": shape, "L": L, "in": inm, "calls0": calls0,
		"sig":   map[string]any{"bs": int(sig.BlockSize), "lbs": int(sig.LastBlockSize), "n": len(sig.Hashes)},
		"calls": calls, "nfailed": nfailed, "err": errStr(err), "delivered": encOps(delivered),
	}
	c.Emit(rec)
	c.Eval()
	if nfailed > 0 {
		c.NonTrivial(inm)
	}
	if len(in.base) <= 64 && ((shape == "ex" && len(in.base) == L && len(in.target) == L && in.bs == 1 && in.md == 1 && failAt == 2) || (shape != "ex" && failAt == 1)) {
		c.Sample(rec)
	}
}


// ---------------------------------------------------------------------------
// sequences of calls on ONE engine (engines are re-used; what a call emits must not
// depend on what happened in earlier calls, including calls whose transmitter failed)

type call struct {
	in     input
	kind   string // "stream": Engine.Deltify with the (possibly failing) transmitter; "bytes": Engine.DeltifyBytes
	failAt int
	mode   string
}

func (k call) enc() map[string]any {
	m := k.in.enc()
	m["kind"], m["failAt"], m["mode"] = k.kind, k.failAt, k.mode
	return m
}

func sigEnc(sig *rsync.Signature) map[string]any {
	return map[string]any{"bs": int(sig.BlockSize), "lbs": int(sig.LastBlockSize), "n": len(sig.Hashes)}
}

// seqCase runs the calls one after the other on one rsync.Engine created for the sequence:
// BytesSignature, Deltify / DeltifyBytes and (after a failure-free call) PatchBytes all share it.
func seqCase(c *vlib.Ctx, shape string, calls []call) {
	e := rsync.NewEngine()
	var ins, outs []any
	faultedEarlier, nontrivial := false, false
	for _, k := range calls {
		sig := e.BytesSignature(k.in.base, k.in.bs)
		f := &faulty{failAt: k.failAt, persistent: k.mode == "persistent"}
		var delivered []*rsync.Operation
		var err error
		if k.kind == "bytes" {
			delivered = e.DeltifyBytes(k.in.target, sig, k.in.md)
			f.calls = len(delivered)
		} else {
			err = e.Deltify(bytes.NewReader(k.in.target), sig, k.in.md, func(o *rsync.Operation) error {
				if f.next() {
					return errInjected
				}
				delivered = append(delivered, proto.Clone(o).(*rsync.Operation))
				return nil
			})
		}
		out := map[string]any{"sig": sigEnc(sig), "calls": f.calls, "nfailed": f.nfailed, "err": errStr(err),
			"ops": encOps(delivered), "patched": []int{}, "patchErr": ""}
		if f.nfailed == 0 && err == nil {
			patched, perr := e.PatchBytes(k.in.base, sig, delivered)
			out["patched"], out["patchErr"] = ints(patched), errStr(perr)
		}
		if faultedEarlier {
			nontrivial = true
		}
		if f.nfailed > 0 {
			faultedEarlier = true
		}
		ins = append(ins, k.enc())
		outs = append(outs, out)
	}
	rec := map[string]any{"ev": "Seq", "shape": shape, "in": map[string]any{"calls": ins}, "outs": outs}
	c.Emit(rec)
	c.Eval()
	c.TraceDone()
	if nontrivial {
		c.NonTrivial(rec["in"])
	}
	if len(calls) == 2 && calls[0].failAt == 1 && len(calls[0].in.target) == 2 && len(calls[1].in.base) == 2 {
		c.Sample(rec)
	}
}

// follow-up calls: unchanged targets, block-only deltas, mixed deltas
var followUps = []input{
	{[]byte("ab"), []byte("ab"), 1, 1},
	{[]byte("abba"), []byte("abba"), 2, 2},
	{[]byte("aab"), []byte("aab"), 2, 3},
	{[]byte("ab"), []byte("ba"), 1, 1},
	{[]byte("abb"), []byte("abab"), 2, 1},
	{[]byte("ab"), []byte("bab"), 1, 2},
	{[]byte("abab"), []byte("bbabaab"), 2, 1},
	{[]byte{}, []byte("ab"), 1, 1},
}

func seqCases(c *vlib.Ctx, L, nrand int) {
	seqs := seqsUpTo(L)
	n := 0
	for _, b := range seqs {
		for _, t := range seqs {
			for bs := 1; bs <= L; bs++ {
				for _, md := range []uint64{1, 2} {
					in := input{b, t, uint64(bs), md}
					calls0, _, _, _, _ := deltify(in, 0, "none")
					for at := 0; at <= calls0; at++ {
						for _, mode := range []string{"once", "persistent"} {
							if at == 0 && mode == "persistent" {
								continue
							}
							first := call{in, "stream", at, mode}
							if at == 0 {
								first.mode = "none"
							}
							for fi, fu := range followUps {
								kind := []string{"bytes", "stream"}[(n+fi)%2]
								seqCase(c, "small", []call{first, {fu, kind, 0, "none"}})
							}
							// three calls: fault, another (possibly faulted) call, then a follow-up
							second := call{input{t, b, uint64(bs), md}, "stream", 1 + n%2, "once"}
							seqCase(c, "small", []call{first, second, {followUps[n%len(followUps)], "bytes", 0, "none"}})
							n++
						}
					}
				}
			}
		}
	}
	for i := 0; i < nrand; i++ {
		var calls []call
		for k := 2 + c.Rand.Intn(2); k > 0; k-- {
			in := randomInput(c.Rand, false)
			calls0, _, _, _, _ := deltify(in, 0, "none")
			k2 := call{in, "stream", 0, "none"}
			if calls0 > 0 && c.Rand.Intn(3) != 0 {
				k2.failAt, k2.mode = 1+c.Rand.Intn(calls0), []string{"once", "persistent"}[c.Rand.Intn(2)]
			} else if c.Rand.Intn(2) == 0 {
				k2.kind = "bytes"
			}
			calls = append(calls, k2)
		}
		seqCase(c, "rand", calls)
	}
}

// ---------------------------------------------------------------------------
// rsync.Transmit into an encoding receiver over a failing encoder

type file struct {
	base, target []byte
	bs           uint64
	missing      bool // the sender cannot open it (it does not exist in the sender's root)
}

// failingEncoder is an rsync.Encoder like the remote endpoint's (a real ProtobufEncoder writing
// the byte stream) whose Encode fails at the prescribed calls without writing anything.
type failingEncoder struct {
	f      *faulty
	stream bytes.Buffer
	enc    *encoding.ProtobufEncoder
}

func (e *failingEncoder) Encode(t *rsync.Transmission) error {
	if e.f.next() {
		return errInjected
	}
	return e.enc.Encode(t)
}
func (e *failingEncoder) Finalize() error { return nil }

// streamDecoder is an rsync.Decoder like the remote endpoint's: a real ProtobufDecoder on the bytes that got through.
type streamDecoder struct {
	dec *encoding.ProtobufDecoder
}

func newStreamDecoder(b []byte) *streamDecoder {
	return &streamDecoder{encoding.NewProtobufDecoder(bufio.NewReader(bytes.NewReader(b)))}
}
func (d *streamDecoder) Decode(t *rsync.Transmission) error { return d.dec.Decode(t) }
func (d *streamDecoder) Finalize() error                    { return nil }

type memSink struct {
	files map[string]*bytes.Buffer
}
type memFile struct{ b *bytes.Buffer }

func (m memFile) Write(p []byte) (int, error) { return m.b.Write(p) }
func (m memFile) Close() error                { return nil }
func (s *memSink) Sink(path string) (io.WriteCloser, error) {
	b := &bytes.Buffer{}
	s.files[path] = b
	return memFile{b}, nil
}

func encFiles(fs []file) []any {
	var out []any
	for _, f := range fs {
		out = append(out, map[string]any{"base": ints(f.base), "target": ints(f.target), "bs": int(f.bs), "missing": f.missing})
	}
	return out
}

// transmitRun materialises the files, runs the real rsync.Transmit with the failing
// encoder, then feeds what got through to a real receiver.
func transmitRun(c *vlib.Ctx, fs []file, failAt int, mode string) (rec map[string]any, calls int) {
	dir := c.TempDir("tx")
	defer os.RemoveAll(dir)
	src, dst := filepath.Join(dir, "src"), filepath.Join(dir, "dst")
	os.MkdirAll(src, 0o755)
	os.MkdirAll(dst, 0o755)
	e := newEngine()
	var paths []string
	var sigs []*rsync.Signature
	for i, f := range fs {
		p := fmt.Sprintf("f%d", i)
		paths = append(paths, p)
		if !f.missing {
			if err := os.WriteFile(filepath.Join(src, p), f.target, 0o644); err != nil {
				vlib.Fatal("%v", err)
			}
		}
		if err := os.WriteFile(filepath.Join(dst, p), f.base, 0o644); err != nil {
			vlib.Fatal("%v", err)
		}
		sigs = append(sigs, e.BytesSignature(f.base, f.bs))
	}
	enc := &failingEncoder{f: &faulty{failAt: failAt, persistent: mode == "persistent"}}
	enc.enc = encoding.NewProtobufEncoder(&enc.stream)
	err := rsync.Transmit(src, paths, sigs, rsync.NewEncodingReceiver(enc))
	through := append([]byte{}, enc.stream.Bytes()...)

	// the receiving side of the same stream
	sink := &memSink{files: map[string]*bytes.Buffer{}}
	recv, rerr := rsync.NewReceiver(dst, paths, sigs, sink)
	if rerr != nil {
		vlib.Fatal("NewReceiver: %v", rerr)
	}
	recvErr := rsync.DecodeToReceiver(newStreamDecoder(through), uint64(len(paths)), recv)
	var sunk []any
	for _, p := range paths {
		if b, ok := sink.files[p]; ok {
			sunk = append(sunk, ints(b.Bytes()))
		} else {
			sunk = append(sunk, []int{-1}) // never sunk
		}
	}
	// tap: everything that got through, decoded independently of the receiver
	wire := []any{}
	tap := newStreamDecoder(through)
	for {
		t := &rsync.Transmission{}
		if tap.Decode(t) != nil {
			break
		}
		wire = append(wire, map[string]any{"done": t.Done, "op": encOp(t.Operation), "err": errStr(errors.New(t.Error))})
	}
	rec = map[string]any{
		"ev": "Transmit", "in": map[string]any{"files": encFiles(fs), "failAt": failAt, "mode": mode},
		"calls": enc.f.calls, "nfailed": enc.f.nfailed, "err": errStr(err),
		"wire": wire, "recvErr": errStr(recvErr), "sunk": sunk,
	}
	return rec, enc.f.calls
}

func transmitCases(c *vlib.Ctx, shape string, fs []file, maxFaults int) {
	rec0, calls0 := transmitRun(c, fs, 0, "none")
	rec0["shape"] = shape
	rec0["calls0"] = calls0
	c.Emit(rec0)
	c.Eval()
	idx := make([]int, 0, calls0)
	for i := 1; i <= calls0; i++ {
		idx = append(idx, i)
	}
	if len(idx) > maxFaults {
		c.Rand.Shuffle(len(idx), func(i, j int) { idx[i], idx[j] = idx[j], idx[i] })
		idx = idx[:maxFaults]
	}
	for _, at := range idx {
		for _, mode := range []string{"once", "persistent"} {
			rec, _ := transmitRun(c, fs, at, mode)
			rec["shape"] = shape
			rec["calls0"] = calls0
			c.Emit(rec)
			c.Eval()
			if rec["nfailed"].(int) > 0 {
				c.NonTrivial(rec["in"])
			}
			if at == 2 && len(fs[0].base) <= 16 {
				c.Sample(rec)
			}
		}
	}
	c.TraceDone()
}

// ---------------------------------------------------------------------------
// input generation

// seqsUpTo lists all strings over {a,b} of length <= L, shorter first, then lexicographically.
func seqsUpTo(L int) [][]byte {
	out := [][]byte{{}}
	for n := 1; n <= L; n++ {
		for v := 0; v < 1<<n; v++ {
			s := make([]byte, n)
			for i := 0; i < n; i++ {
				if v>>(n-1-i)&1 == 1 {
					s[i] = 'b'
				} else {
					s[i] = 'a'
				}
			}
			out = append(out, s)
		}
	}
	return out
}

var mds = []uint64{1, 2, 3}

func randBytes(r *rand.Rand, n int, alphabet int) []byte {
	b := make([]byte, n)
	for i := range b {
		if alphabet >= 256 {
			b[i] = byte(r.Intn(256))
		} else {
			b[i] = byte('a' + r.Intn(alphabet))
		}
	}
	return b
}

// mutate derives a target from a base by random edits (so that block matches exist).
func mutate(r *rand.Rand, base []byte, alphabet int) []byte {
	t := append([]byte{}, base...)
	n := r.Intn(6)
	for k := 0; k < n; k++ {
		span := 1 + r.Intn(1+len(t)/4+8)
		pos := 0
		if len(t) > 0 {
			pos = r.Intn(len(t) + 1)
		}
		end := pos + span
		if end > len(t) {
			end = len(t)
		}
		switch r.Intn(7) {
		case 0: // insert
			t = append(t[:pos:pos], append(randBytes(r, span, alphabet), t[pos:]...)...)
		case 1: // delete
			t = append(t[:pos:pos], t[end:]...)
		case 2: // overwrite
			copy(t[pos:end], randBytes(r, end-pos, alphabet))
		case 3: // duplicate a span elsewhere
			seg := append([]byte{}, t[pos:end]...)
			at := 0
			if len(t) > 0 {
				at = r.Intn(len(t) + 1)
			}
			t = append(t[:at:at], append(seg, t[at:]...)...)
		case 4: // move a span to the front
			seg := append([]byte{}, t[pos:end]...)
			rest := append(append([]byte{}, t[:pos]...), t[end:]...)
			t = append(seg, rest...)
		case 5: // truncate
			t = t[:pos]
		case 6: // append
			t = append(t, randBytes(r, span, alphabet)...)
		}
	}
	return t
}

func randomInput(r *rand.Rand, big bool) input {
	if big {
		// default parameters: optimal block size (>= 1024) and 64 KiB data operations
		n := 70000 + r.Intn(150000)
		base := randBytes(r, n, 256)
		t := append([]byte{}, base...)
		// a literal run longer than the default maximum data operation size, and block moves
		ins := randBytes(r, 66000+r.Intn(70000), 256)
		at := r.Intn(len(t))
		t = append(t[:at:at], append(ins, t[at:]...)...)
		cut := r.Intn(len(t) - 5000)
		seg := append([]byte{}, t[cut:cut+3000+r.Intn(2000)]...)
		t = append(seg, t...)
		return input{base: base, target: t, bs: 0, md: 0}
	}
	alphabet := []int{2, 2, 3, 256}[r.Intn(4)]
	n := r.Intn(1500)
	if r.Intn(4) == 0 {
		n = r.Intn(40)
	}
	base := randBytes(r, n, alphabet)
	target := mutate(r, base, alphabet)
	if r.Intn(12) == 0 {
		target = append([]byte{}, base...)
	}
	bs := uint64(1 + r.Intn(300))
	if r.Intn(3) == 0 {
		bs = uint64(1 + r.Intn(12))
	}
	md := uint64(1 + r.Intn(700))
	if r.Intn(3) == 0 {
		md = uint64(1 + r.Intn(9))
	}
	return input{base: base, target: target, bs: bs, md: md}
}

// ---------------------------------------------------------------------------

func run(c *vlib.Ctx) error {
	L := argInt(c, "L", 4)
	nrand := argInt(c, "rand", 100)
	nbig := argInt(c, "big", 2)
	seqs := seqsUpTo(L)
	switch c.Prop {
	case "C19":
		c.Emit(map[string]any{"ev": "Begin", "what": "Delta", "L": L})
		for _, b := range seqs {
			for _, t := range seqs {
				for bs := 1; bs <= L; bs++ {
					for _, md := range mds {
						deltaCase(c, "ex", L, input{b, t, uint64(bs), md})
					}
				}
			}
		}
		c.Emit(map[string]any{"ev": "End", "what": "Delta", "L": L})
		c.SetExhaustive(true)
		for i := 0; i < nrand; i++ {
			deltaCase(c, "rand", 0, randomInput(c.Rand, false))
		}
		for i := 0; i < nbig; i++ {
			deltaCase(c, "rand", 0, randomInput(c.Rand, true))
		}
		// one engine re-used across calls, with transmit failures in earlier calls
		seqCases(c, argInt(c, "LS", 2), argInt(c, "seqrand", 60))
	case "C20":
		c.Emit(map[string]any{"ev": "Begin", "what": "Fault", "L": L})
		for _, b := range seqs {
			for _, t := range seqs {
				for bs := 1; bs <= L; bs++ {
					for _, md := range mds {
						in := input{b, t, uint64(bs), md}
						calls0, _, _, _, _ := deltify(in, 0, "none")
						for at := 1; at <= calls0; at++ {
							faultCase(c, "ex", L, in, calls0, at, "once")
							faultCase(c, "ex", L, in, calls0, at, "persistent")
						}
					}
				}
			}
		}
		c.Emit(map[string]any{"ev": "End", "what": "Fault", "L": L})
		c.SetExhaustive(true)
		for i := 0; i < nrand; i++ {
			in := randomInput(c.Rand, false)
			calls0, _, _, _, _ := deltify(in, 0, "none")
			idx := c.Rand.Perm(calls0)
			if len(idx) > 8 {
				idx = idx[:8]
			}
			for _, k := range idx {
				faultCase(c, "rand", 0, in, calls0, k+1, []string{"once", "persistent"}[c.Rand.Intn(2)])
			}
		}
		// rsync.Transmit: file lists drawn from the bounded domain, every failure index
		nlists := argInt(c, "lists", 150)
		LT := argInt(c, "LT", 3)
		small := seqsUpTo(LT)
		for i := 0; i < nlists; i++ {
			nf := 1 + c.Rand.Intn(3)
			var fs []file
			for k := 0; k < nf; k++ {
				if c.Rand.Intn(6) == 0 {
					fs = append(fs, file{nil, nil, 1, true})
					continue
				}
				fs = append(fs, file{small[c.Rand.Intn(len(small))], small[c.Rand.Intn(len(small))], uint64(1 + c.Rand.Intn(LT)), false})
			}
			transmitCases(c, "small", fs, 1000)
		}
		// batches in which a file that cannot be opened precedes ordinary files (the re-used Transmission)
		tiny := seqsUpTo(argInt(c, "LM", 2))
		for _, b := range tiny {
			for _, t := range tiny {
				if len(t) == 0 && len(b) == 0 {
					continue
				}
				f := file{b, t, uint64(1 + (len(b)+len(t))%2), false}
				transmitCases(c, "missing", []file{{nil, nil, 1, true}, f}, 1000)
				if len(b) == len(t) {
					transmitCases(c, "missing", []file{f, {nil, nil, 1, true}, {t, b, 1, false}}, 1000)
				}
			}
		}
		for i := 0; i < argInt(c, "txrand", 12); i++ {
			nf := 1 + c.Rand.Intn(3)
			var fs []file
			for k := 0; k < nf; k++ {
				in := randomInput(c.Rand, false)
				fs = append(fs, file{in.base, in.target, in.bs, false})
			}
			transmitCases(c, "rand", fs, argInt(c, "txfaults", 3))
		}
		for i := 0; i < argInt(c, "txbig", 1); i++ {
			in := randomInput(c.Rand, true)
			transmitCases(c, "rand", []file{{in.base, in.target, 1024, false}}, 1)
		}
	default:
		return fmt.Errorf("driver rsync does not serve property %s", c.Prop)
	}
	return nil
}

// ---------------------------------------------------------------------------
// replay of one recorded case from its "in" field

func toBytes(v any) []byte {
	arr, _ := v.([]any)
	out := make([]byte, len(arr))
	for i, x := range arr {
		var n int
		vlib.Decode(x, &n)
		out[i] = byte(n)
	}
	return out
}

func toInt(v any) int {
	var n int
	vlib.Decode(v, &n)
	return n
}

func replay(c *vlib.Ctx) error {
	doc := c.LoadReplay()
	begin, _ := doc["begin"].(map[string]any)
	in, _ := begin["in"].(map[string]any)
	if begin == nil || in == nil {
		return errors.New("replay file has no begin.in")
	}
	ev, _ := begin["ev"].(string)
	shape, _ := begin["shape"].(string)
	L := 0
	if v, ok := begin["L"]; ok {
		L = toInt(v)
	}
	switch ev {
	case "Delta":
		deltaCase(c, shape, L, input{toBytes(in["base"]), toBytes(in["target"]), uint64(toInt(in["bs"])), uint64(toInt(in["md"]))})
	case "Fault":
		mode, _ := in["mode"].(string)
		faultCase(c, shape, L, input{toBytes(in["base"]), toBytes(in["target"]), uint64(toInt(in["bs"])), uint64(toInt(in["md"]))},
			toInt(begin["calls0"]), toInt(in["failAt"]), mode)
	case "Seq":
		var calls []call
		for _, cv := range in["calls"].([]any) {
			m := cv.(map[string]any)
			kind, _ := m["kind"].(string)
			mode, _ := m["mode"].(string)
			calls = append(calls, call{input{toBytes(m["base"]), toBytes(m["target"]), uint64(toInt(m["bs"])), uint64(toInt(m["md"]))}, kind, toInt(m["failAt"]), mode})
		}
		seqCase(c, shape, calls)
	case "Transmit":
		mode, _ := in["mode"].(string)
		var fs []file
		for _, f := range in["files"].([]any) {
			m := f.(map[string]any)
			missing, _ := m["missing"].(bool)
			fs = append(fs, file{toBytes(m["base"]), toBytes(m["target"]), uint64(toInt(m["bs"])), missing})
		}
		rec, _ := transmitRun(c, fs, toInt(in["failAt"]), mode)
		rec["shape"] = shape
		rec["calls0"] = toInt(begin["calls0"])
		c.Emit(rec)
		c.Eval()
	default:
		return fmt.Errorf("cannot replay record of kind %q", ev)
	}
	return nil
}
