// Driver "transition": binds spec/transition (FSTransition.tla, PortableLink.tla)
// to the real pkg/synchronization/core Scan/Transition on real directories.
//
//	C08  external edits between the real Scan and the real Transition
//	C09  a fault (or cancellation) at every filesystem primitive of a Transition
//	C16  link targets through the portable-target function, Scan and Transition
//
// The driver only records observations (arguments passed, values returned, the
// disk as seen by an independent walker and by a second real Scan). It contains
// no property predicate; the TLA+ trace modules judge the records.
package main

import (
	"bytes"
	"fmt"
	"io"
	"os"

	"verif/harness/internal/vlib"
)

func main() {
	if len(os.Args) > 1 && os.Args[1] == "worker" {
		workerMain(os.Args[2:])
		return
	}
	vlib.Main(run, replay)
}

func run(c *vlib.Ctx) error {
	switch c.Prop {
	case "C16":
		return runLinks(c)
	case "C08", "C01":
		// C01 attaches the external-edit scenarios as an extra run: the just-in-time check is what keeps
		// content modified after the scan from being deleted or overwritten by a two-way-safe cycle
		return runEdits(c)
	case "C09", "C10":
		// C10 attaches the fault scenarios as an extra run: a copy that fails inside the cross-device
		// fallback must not leave truncated content in the root
		return runFaults(c)
	case "C03":
		return runUnknown(c)
	case "C18":
		return runExec(c)
	}
	return fmt.Errorf("driver transition does not know property %q", c.Prop)
}

func replay(c *vlib.Ctx) error {
	doc := c.LoadReplay()
	begin, _ := doc["begin"].(map[string]any)
	if begin == nil {
		return fmt.Errorf("replay file has no begin record")
	}
	switch c.Prop {
	case "C16":
		return replayLinks(c, begin)
	case "C08", "C09", "C03", "C18", "C01", "C10":
		return replayTransition(c, begin)
	}
	return fmt.Errorf("driver transition does not know property %q", c.Prop)
}

func bytesReader(b []byte) io.Reader { return bytes.NewReader(b) }
