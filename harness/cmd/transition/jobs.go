package main

// Cases are executed by worker processes (the fault callback of pkg/filesystem
// is process-global, so one process runs one transition at a time). The parent
// builds the job list deterministically, workers run disjoint slices of it on
// their own scratch roots, and the parent merges their records in job order.

import (
	"bufio"
	"encoding/json"
	"fmt"
	"os"
	"os/exec"
	"path/filepath"
	"runtime"
	"strconv"

	"verif/harness/internal/vlib"
)

type job struct {
	Kind         string         `json:"kind"` // "sweep" (C09: all fault indices of a case) | "single" (one run)
	In           map[string]any `json:"in"`
	CancelStride int            `json:"cancelStride"`
	VanishStride int            `json:"vanishStride"`
	Off          int            `json:"off"`
	ErrnoOps     []string       `json:"errnoOps"` // sweep: primitives that also get EPERM / EACCES / ENOENT
	NoExtras     bool           `json:"noExtras"` // sweep: no missing-file / delete-inside runs
	OnlyOps      []string       `json:"onlyOps"` // sweep: inject only at primitives with these names (empty = all)
	NonTrivial   bool           `json:"nonTrivial"`
	Sample       bool           `json:"sample"`
}

type workerLine struct {
	J   int            `json:"j"`
	Rec map[string]any `json:"rec"`
	NT  bool           `json:"nt"`
	TD  bool           `json:"td"`
	SM  bool           `json:"sm"`
}

func workerCount() int {
	if v, err := strconv.Atoi(os.Getenv("VERIF_WORKERS")); err == nil && v > 0 {
		return v
	}
	n := runtime.NumCPU() / 2
	if n > 8 {
		n = 8
	}
	if n < 1 {
		n = 1
	}
	return n
}

// workerMain: <driver> worker JOBS OUT INDEX COUNT SCRATCH
func workerMain(args []string) {
	if len(args) != 5 {
		vlib.Fatal("worker: bad arguments")
	}
	idx, _ := strconv.Atoi(args[2])
	cnt, _ := strconv.Atoi(args[3])
	scratch := args[4]
	must(os.MkdirAll(scratch, 0o755))
	b, err := os.ReadFile(args[0])
	must(err)
	var jobs []*job
	must(json.Unmarshal(b, &jobs))
	f, err := os.Create(args[1])
	must(err)
	w := bufio.NewWriterSize(f, 1<<20)
	enc := json.NewEncoder(w)
	for j := idx; j < len(jobs); j += cnt {
		jb := jobs[j]
		emit := func(rec map[string]any, nt, td, sm bool) {
			must(enc.Encode(&workerLine{J: j, Rec: rec, NT: nt, TD: td, SM: sm}))
		}
		switch jb.Kind {
		case "sweep":
			faultSweep(scratch, jb, emit)
		default:
			rec := runCase(scratch, caseFromIn(jb.In))
			emit(rec, jb.NonTrivial, true, jb.Sample)
		}
	}
	must(w.Flush())
	must(f.Close())
}

// runJobs executes the jobs in worker processes and emits their records in job order.
func runJobs(c *vlib.Ctx, jobs []*job) {
	n := workerCount()
	if n > len(jobs) {
		n = len(jobs)
	}
	if n == 0 {
		return
	}
	dir := c.TempDir("jobs")
	defer os.RemoveAll(dir)
	jf := filepath.Join(dir, "jobs.json")
	b, err := json.Marshal(jobs)
	must(err)
	must(os.WriteFile(jf, b, 0o644))
	cmds := make([]*exec.Cmd, n)
	outs := make([]string, n)
	for i := 0; i < n; i++ {
		outs[i] = filepath.Join(dir, fmt.Sprintf("out%d.ndjson", i))
		cmds[i] = exec.Command(os.Args[0], "worker", jf, outs[i], strconv.Itoa(i), strconv.Itoa(n), filepath.Join(dir, fmt.Sprintf("w%d", i)))
		cmds[i].Stderr = os.Stderr
		must(cmds[i].Start())
	}
	for i := 0; i < n; i++ {
		if err := cmds[i].Wait(); err != nil {
			vlib.Fatal("worker %d failed: %v", i, err)
		}
	}
	// merge in job order
	type stream struct {
		sc   *bufio.Scanner
		f    *os.File
		cur  *workerLine
		done bool
	}
	next := func(s *stream) {
		if s.sc.Scan() {
			var wl workerLine
			dec := json.NewDecoder(bytesReader(s.sc.Bytes()))
			dec.UseNumber()
			must(dec.Decode(&wl))
			s.cur = &wl
		} else {
			s.cur, s.done = nil, true
		}
	}
	streams := make([]*stream, n)
	for i := 0; i < n; i++ {
		f, err := os.Open(outs[i])
		must(err)
		sc := bufio.NewScanner(f)
		sc.Buffer(make([]byte, 1<<20), 1<<28)
		streams[i] = &stream{sc: sc, f: f}
		next(streams[i])
	}
	for j := range jobs {
		s := streams[j%n]
		for s.cur != nil && s.cur.J == j {
			wl := s.cur
			c.Emit(wl.Rec)
			c.Eval()
			if wl.NT {
				c.NonTrivial(wl.Rec["in"])
			}
			if wl.TD {
				c.TraceDone()
			}
			if wl.SM {
				c.Sample(wl.Rec)
			}
			next(s)
		}
	}
	for _, s := range streams {
		s.f.Close()
	}
}
