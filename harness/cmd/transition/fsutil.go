package main

import (
	"context"
	"crypto/sha1"
	"encoding/hex"
	"fmt"
	"io"
	"os"
	"path/filepath"
	"sort"
	"strings"
	"syscall"
	"time"

	"github.com/mutagen-io/mutagen/pkg/filesystem"
	"github.com/mutagen-io/mutagen/pkg/filesystem/behavior"
	"github.com/mutagen-io/mutagen/pkg/synchronization/core"
	mutagenignore "github.com/mutagen-io/mutagen/pkg/synchronization/core/ignore/mutagen"

	"verif/harness/internal/vlib"
)

// Node is the description of what the driver puts on disk (the "tree0" of a
// case). Kinds: "dir" (C), "file" (S = content, X = executable), "link" (T =
// target), "fifo" (a named pipe: content that a scan reports as untracked).
type Node struct {
	K string           `json:"k"`
	C map[string]*Node `json:"c,omitempty"`
	S string           `json:"s,omitempty"`
	X bool             `json:"x,omitempty"`
	T string           `json:"t,omitempty"`
	M int              `json:"m,omitempty"` // file: permission bits to materialise with (0 = 0644 / 0755 by X)
}

func nDir(c map[string]*Node) *Node   { return &Node{K: "dir", C: c} }
func nFile(s string, x bool) *Node    { return &Node{K: "file", S: s, X: x} }
func nLink(t string) *Node            { return &Node{K: "link", T: t} }
func nFifo() *Node                    { return &Node{K: "fifo"} }
func (n *Node) names() []string {
	var ns []string
	for k := range n.C {
		ns = append(ns, k)
	}
	sort.Strings(ns)
	return ns
}

// encNode is the JSON form of a Node in trace records ("c" is always present
// for directories so that TLC sees a function).
func encNode(n *Node) map[string]any {
	if n == nil {
		return map[string]any{"k": "nil"}
	}
	switch n.K {
	case "dir":
		c := map[string]any{}
		for k, v := range n.C {
			c[k] = encNode(v)
		}
		return map[string]any{"k": "dir", "c": c}
	case "file":
		m := map[string]any{"k": "file", "s": n.S, "x": n.X, "d": hex.EncodeToString(digestOf(n.S))}
		if n.M != 0 {
			m["m"] = n.M
		}
		return m
	case "link":
		return map[string]any{"k": "link", "t": n.T}
	}
	return map[string]any{"k": n.K}
}

func decNode(v any) *Node {
	m, ok := v.(map[string]any)
	if !ok {
		return nil
	}
	switch m["k"] {
	case "nil":
		return nil
	case "dir":
		n := &Node{K: "dir", C: map[string]*Node{}}
		if c, ok := m["c"].(map[string]any); ok {
			for k, ch := range c {
				n.C[k] = decNode(ch)
			}
		}
		return n
	case "file":
		s, _ := m["s"].(string)
		x, _ := m["x"].(bool)
		n := &Node{K: "file", S: s, X: x}
		vlib.Decode(m["m"], &n.M)
		return n
	case "link":
		t, _ := m["t"].(string)
		return &Node{K: "link", T: t}
	}
	k, _ := m["k"].(string)
	return &Node{K: k}
}

var baseTime = time.Unix(1700000000, 500000000)

func digestOf(content string) []byte {
	h := sha1.Sum([]byte(content))
	return h[:]
}

// entryOf is the synchronizable entry a plan would contain for a Node (fifos
// have none).
func entryOf(n *Node) *core.Entry {
	if n == nil {
		return nil
	}
	switch n.K {
	case "dir":
		e := &core.Entry{Kind: core.EntryKind_Directory}
		for k, ch := range n.C {
			if ce := entryOf(ch); ce != nil {
				if e.Contents == nil {
					e.Contents = map[string]*core.Entry{}
				}
				e.Contents[k] = ce
			}
		}
		return e
	case "file":
		return &core.Entry{Kind: core.EntryKind_File, Digest: digestOf(n.S), Executable: n.X}
	case "link":
		return &core.Entry{Kind: core.EntryKind_SymbolicLink, Target: n.T}
	}
	return nil
}

// materialise creates n at path (which must not exist).
func materialise(path string, n *Node) error {
	if n == nil {
		return nil
	}
	switch n.K {
	case "dir":
		if err := os.Mkdir(path, 0o755); err != nil {
			return err
		}
		for _, name := range n.names() {
			if err := materialise(filepath.Join(path, name), n.C[name]); err != nil {
				return err
			}
		}
		return nil
	case "file":
		mode := os.FileMode(0o644)
		if n.X {
			mode = 0o755
		}
		if n.M != 0 {
			mode = os.FileMode(n.M)
		}
		if err := os.WriteFile(path, []byte(n.S), mode); err != nil {
			return err
		}
		if err := os.Chmod(path, mode); err != nil {
			return err
		}
		// a fixed modification time in the middle of a second, so that edits of
		// +1 ns, +999 us and -1 ns stay inside the wall-clock second the scan records
		return os.Chtimes(path, baseTime, baseTime)
	case "link":
		return os.Symlink(n.T, path)
	case "fifo":
		return syscall.Mkfifo(path, 0o644)
	}
	return fmt.Errorf("materialise: unknown kind %q", n.K)
}

// walk is the independent observer of the disk: os.Lstat / os.Readlink /
// SHA-1 only, no mutagen code. Its result uses the Entries encoding with two
// additions: every file and link node carries "id" (device:inode:mode:size:
// mtime-ns, as a string), and names carrying mutagen's temporary-file prefix
// are reported with kind "temp".
func walk(path string) map[string]any {
	info, err := os.Lstat(path)
	if err != nil {
		if os.IsNotExist(err) {
			return map[string]any{"k": "nil"}
		}
		return map[string]any{"k": "walkerr", "p": err.Error()}
	}
	st, _ := info.Sys().(*syscall.Stat_t)
	id := ""
	if st != nil {
		id = fmt.Sprintf("%d:%d:%o:%d:%d.%09d", st.Dev, st.Ino, st.Mode, st.Size, st.Mtim.Sec, st.Mtim.Nsec)
	}
	if strings.HasPrefix(filepath.Base(path), ".mutagen-temporary-") {
		return map[string]any{"k": "temp"}
	}
	switch {
	case info.Mode()&os.ModeSymlink != 0:
		t, err := os.Readlink(path)
		if err != nil {
			return map[string]any{"k": "walkerr", "p": err.Error()}
		}
		return map[string]any{"k": "link", "t": t, "id": id}
	case info.IsDir():
		f, err := os.Open(path)
		if err != nil {
			return map[string]any{"k": "walkerr", "p": err.Error()}
		}
		names, err := f.Readdirnames(-1)
		f.Close()
		if err != nil {
			return map[string]any{"k": "walkerr", "p": err.Error()}
		}
		c := map[string]any{}
		for _, n := range names {
			c[n] = walk(filepath.Join(path, n))
		}
		return map[string]any{"k": "dir", "c": c}
	case info.Mode().IsRegular():
		f, err := os.Open(path)
		if err != nil {
			return map[string]any{"k": "walkerr", "p": err.Error()}
		}
		h := sha1.New()
		_, err = io.Copy(h, f)
		f.Close()
		if err != nil {
			return map[string]any{"k": "walkerr", "p": err.Error()}
		}
		return map[string]any{"k": "file", "d": hex.EncodeToString(h.Sum(nil)), "x": info.Mode().Perm()&0o111 != 0, "id": id}
	}
	return map[string]any{"k": "untracked"}
}

// scanRoot runs the real core.Scan the way the local endpoint does for a
// cold scan.
func scanRoot(root string, mode core.SymbolicLinkMode) (*core.Snapshot, *core.Cache, error) {
	ignorer, err := mutagenignore.NewIgnorer(nil)
	if err != nil {
		return nil, nil, err
	}
	snap, cache, _, err := core.Scan(
		context.Background(), root,
		nil, nil,
		sha1.New(), nil,
		ignorer, nil,
		behavior.ProbeMode_ProbeModeAssume,
		mode,
		core.PermissionsMode_PermissionsModePortable,
	)
	return snap, cache, err
}

func must(err error) {
	if err != nil {
		vlib.Fatal("%v", err)
	}
}

var _ = filesystem.ModePermissionsMask
