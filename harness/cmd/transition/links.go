package main

// C16: link targets through the three real channels (the portable-target
// function, a scan of real symbolic links, a transition creating links).

import (
	"context"
	"fmt"
	"os"
	"path/filepath"
	"strings"

	"github.com/mutagen-io/mutagen/pkg/synchronization/core"

	"verif/harness/internal/vlib"
	"verif/harness/internal/vtree"
)

type linkCase struct {
	Depth  int
	Tokens []string
}

var tokenText = map[string]string{
	"name": "n", "dot": ".", "up": "..", "empty": "",
	"colon": "c:d", "bslash": "e\\f", "long": strings.Repeat("x", 250),
}

func (lc linkCase) target() string {
	parts := make([]string, len(lc.Tokens))
	for i, t := range lc.Tokens {
		parts[i] = tokenText[t]
	}
	return strings.Join(parts, "/")
}

// chain is the root-relative directory that holds links of the given depth.
func chain(depth int) string {
	var comps []string
	for i := 1; i <= depth; i++ {
		comps = append(comps, fmt.Sprintf("d%d", i))
	}
	return strings.Join(comps, "/")
}

func joinRel(dir, name string) string {
	if dir == "" {
		return name
	}
	return dir + "/" + name
}

type nullProvider struct{}

func (nullProvider) Provide(path string, digest []byte) (string, error) {
	return "/nonexistent/verif-staged-file", nil
}

// runLinkBatch drives cases that all have the same depth through the three
// channels on one scratch root and emits one record per case.
func runLinkBatch(c *vlib.Ctx, depth int, cases []linkCase) {
	base := c.TempDir("links")
	defer os.RemoveAll(base)
	root := filepath.Join(base, "root")
	must(os.MkdirAll(filepath.Join(root, filepath.FromSlash(chain(depth))), 0o755))
	dir := chain(depth)

	// scan channel: real symbolic links
	made := make([]bool, len(cases))
	for i, lc := range cases {
		p := filepath.Join(root, filepath.FromSlash(joinRel(dir, fmt.Sprintf("s%d", i))))
		made[i] = os.Symlink(lc.target(), p) == nil
	}
	snap, cache, err := scanRoot(root, core.SymbolicLinkMode_SymbolicLinkModePortable)
	must(err)
	at := func(e *core.Entry, path string) *core.Entry {
		if path == "" {
			return e
		}
		for _, comp := range strings.Split(path, "/") {
			if e == nil {
				return nil
			}
			e = e.Contents[comp]
		}
		return e
	}
	holder := at(snap.Content, dir)

	// transition channel: ask the real Transition to create the links
	var plan []*core.Change
	for i, lc := range cases {
		plan = append(plan, &core.Change{
			Path: joinRel(dir, fmt.Sprintf("t%d", i)),
			New:  &core.Entry{Kind: core.EntryKind_SymbolicLink, Target: lc.target()},
		})
	}
	results, _, _ := core.Transition(context.Background(), root, plan, cache,
		core.SymbolicLinkMode_SymbolicLinkModePortable, 0o600, 0o700, nil, false, nullProvider{})

	for i, lc := range cases {
		target := lc.target()
		linkPath := joinRel(dir, fmt.Sprintf("s%d", i))
		norm, ferr := core.VerifNormalizePortableLink(linkPath, target)
		scanKind := "none"
		if e := holder.GetContents()[fmt.Sprintf("s%d", i)]; e != nil {
			scanKind = vtree.Enc(e)["k"].(string)
		}
		var res *core.Entry
		if i < len(results) {
			res = results[i]
		}
		disk := walk(filepath.Join(root, filepath.FromSlash(plan[i].Path)))
		delete(disk, "id")
		rec := map[string]any{
			"ev":     "Link",
			"in":     map[string]any{"depth": lc.Depth, "tokens": lc.Tokens, "len": len(target)},
			"target": asciiOnly(target),
			"fn":     map[string]any{"accepted": ferr == nil, "same": ferr == nil && norm == target, "err": errStr(ferr)},
			"scan":   map[string]any{"made": made[i], "k": scanKind},
			"trans":  map[string]any{"result": vtree.Enc(res), "disk": disk},
		}
		c.Emit(rec)
		c.Eval()
		for _, t := range lc.Tokens {
			if t == "up" || t == "empty" {
				c.NonTrivial(rec["in"])
				break
			}
		}
		if i == 0 || (lc.Depth == 1 && len(lc.Tokens) == 4 && i%97 == 0) {
			c.Sample(rec)
		}
	}
}

func asciiOnly(s string) string {
	if len(s) > 80 {
		return s[:77] + "..."
	}
	return s
}

func errStr(err error) string {
	if err == nil {
		return ""
	}
	s := err.Error()
	if len(s) > 160 {
		s = s[:160]
	}
	// keep the trace ASCII
	b := []byte(s)
	for i, ch := range b {
		if ch < 0x20 || ch > 0x7e {
			b[i] = '?'
		}
	}
	return string(b)
}

func enumTokens(set []string, n int, f func([]string)) {
	cur := make([]string, n)
	var rec func(i int)
	rec = func(i int) {
		if i == n {
			f(append([]string{}, cur...))
			return
		}
		for _, t := range set {
			cur[i] = t
			rec(i + 1)
		}
	}
	rec(0)
}

func runLinks(c *vlib.Ctx) error {
	base4 := []string{"name", "dot", "up", "empty"}
	all7 := []string{"name", "dot", "up", "empty", "colon", "bslash", "long"}
	maxLen, maxDepth := 6, 3
	clsLen, clsDepth := 3, 2
	nRandom := 2000
	if c.Thorough() {
		maxLen, maxDepth = 8, 4
		clsLen, clsDepth = 4, 2
		nRandom = 20000
	}
	byDepth := map[int][]linkCase{}
	add := func(d int, toks []string) { byDepth[d] = append(byDepth[d], linkCase{d, toks}) }
	for d := 0; d <= maxDepth; d++ {
		for n := 1; n <= maxLen; n++ {
			enumTokens(base4, n, func(t []string) { add(d, t) })
		}
	}
	for d := 0; d <= clsDepth; d++ {
		for n := 1; n <= clsLen; n++ {
			enumTokens(all7, n, func(t []string) {
				for _, x := range t {
					if x == "colon" || x == "bslash" || x == "long" {
						add(d, t)
						return
					}
				}
			})
		}
	}
	// random long targets beyond the bound (kept below the length limit unless "long" occurs)
	for i := 0; i < nRandom; i++ {
		d := c.Rand.Intn(7)
		n := 7 + c.Rand.Intn(34)
		toks := make([]string, n)
		for j := range toks {
			switch r := c.Rand.Intn(100); {
			case r < 30:
				toks[j] = "name"
			case r < 50:
				toks[j] = "dot"
			case r < 75:
				toks[j] = "up"
			case r < 97:
				toks[j] = "empty"
			case r < 98:
				toks[j] = "colon"
			case r < 99:
				toks[j] = "bslash"
			default:
				toks[j] = "long"
			}
		}
		add(d, toks)
	}
	const batch = 4000
	for d := 0; d <= 6; d++ {
		cs := byDepth[d]
		for len(cs) > 0 {
			n := len(cs)
			if n > batch {
				n = batch
			}
			runLinkBatch(c, d, cs[:n])
			cs = cs[n:]
		}
	}
	c.SetExhaustive(true)
	c.SetExtra("bound", fmt.Sprintf("all targets over {name,.,..,empty} of <= %d components at depths 0..%d; all 7 classes <= %d components; %d random targets of 7..40 components", maxLen, maxDepth, clsLen, nRandom))
	return nil
}

func replayLinks(c *vlib.Ctx, begin map[string]any) error {
	in, _ := begin["in"].(map[string]any)
	var lc linkCase
	vlib.Decode(in["depth"], &lc.Depth)
	vlib.Decode(in["tokens"], &lc.Tokens)
	runLinkBatch(c, lc.Depth, []linkCase{lc})
	c.NonTrivial("replay")
	return nil
}
