package main

// C08 / C09: real core.Scan -> optional external edits -> real core.Transition
// (with a stub provider, a fault/cancellation callback installed through the
// verif hook of pkg/filesystem) -> independent walker + second real Scan.

import (
	"context"
	"crypto/sha1"
	"encoding/hex"
	"fmt"
	"os"
	"path/filepath"
	"sort"
	"strings"
	"syscall"
	"time"

	"github.com/mutagen-io/mutagen/pkg/filesystem"
	"github.com/mutagen-io/mutagen/pkg/synchronization/core"

	"verif/harness/internal/vlib"
	"verif/harness/internal/vtree"
)

// edit is one external modification applied between the scan and the transition
// ("stale": before the scan, so that the plan is older than the scan).
type edit struct {
	Op   string   `json:"op"`
	Path []string `json:"path"`
}

// fault selects what is injected into the transition: Kind "none"; "error" (the
// Index-th filesystem primitive returns EIO instead of acting); "cancel" (the
// context is cancelled when the Index-th primitive is about to be issued);
// "vanish" (all staged files disappear when the Index-th primitive is about to
// be issued).
type fault struct {
	Kind  string `json:"kind"`
	Index int    `json:"index"`
	Errno string `json:"errno,omitempty"` // for "error": "" (EIO) | "eperm" | "eacces" | "enoent"
}

type tMode struct {
	Exdev   bool     `json:"exdev"`   // staged renames answer EXDEV (staging on another device)
	Owner   bool     `json:"owner"`   // a default owner/group is configured
	Missing []string `json:"missing"` // root-relative paths whose staged file does not exist
	Rn2     string   `json:"rn2"`     // "" | "enosys" | "enotsup": renameat2(RENAME_NOREPLACE) is unavailable for the whole run
}

type tCase struct {
	Shape  string `json:"shape"`
	Tree0  *Node  `json:"-"`
	Target *Node  `json:"-"`
	Mode   tMode  `json:"mode"`
	Edits  []edit `json:"edits"`
	Fault  fault  `json:"fault"`
	Detail bool   `json:"detail"` // record the walker's before-view also in runs with an injected event
}

func (tc *tCase) in() map[string]any {
	edits := make([]any, 0, len(tc.Edits))
	for _, e := range tc.Edits {
		edits = append(edits, map[string]any{"op": e.Op, "path": strs(e.Path)})
	}
	miss := append([]string{}, tc.Mode.Missing...)
	sort.Strings(miss)
	return map[string]any{
		"shape":  tc.Shape,
		"tree0":  encNode(tc.Tree0),
		"target": encNode(tc.Target),
		"mode":   map[string]any{"exdev": tc.Mode.Exdev, "owner": tc.Mode.Owner, "missing": paths(miss), "rn2": tc.Mode.Rn2},
		"edits":  edits,
		"fault":  map[string]any{"kind": tc.Fault.Kind, "index": tc.Fault.Index, "errno": tc.Fault.Errno},
		"detail": tc.Detail,
	}
}

func paths(s []string) []any {
	out := make([]any, 0, len(s))
	for _, x := range s {
		out = append(out, strs(vtree.Path(x)))
	}
	return out
}

func strs(s []string) []any {
	out := make([]any, 0, len(s))
	for _, x := range s {
		out = append(out, x)
	}
	return out
}

func caseFromIn(in map[string]any) *tCase {
	tc := &tCase{}
	tc.Shape, _ = in["shape"].(string)
	tc.Tree0 = decNode(in["tree0"])
	tc.Target = decNode(in["target"])
	if m, ok := in["mode"].(map[string]any); ok {
		tc.Mode.Exdev, _ = m["exdev"].(bool)
		tc.Mode.Owner, _ = m["owner"].(bool)
		tc.Mode.Rn2, _ = m["rn2"].(string)
		var miss [][]string
		vlib.Decode(m["missing"], &miss)
		for _, p := range miss {
			tc.Mode.Missing = append(tc.Mode.Missing, strings.Join(p, "/"))
		}
	}
	vlib.Decode(in["edits"], &tc.Edits)
	vlib.Decode(in["fault"], &tc.Fault)
	tc.Detail, _ = in["detail"].(bool)
	return tc
}

// planFor is the driver's own diff: the changes that take the synchronizable
// part of tree0 to target (same rule as core's diff: a change where the nodes
// differ shallowly, recursion where both are directories).
func planFor(path string, base, target *Node) []*core.Change {
	if base != nil && base.K == "fifo" {
		base = nil
	}
	same := func() bool {
		if base == nil || target == nil {
			return base == nil && target == nil
		}
		if base.K != target.K {
			return false
		}
		switch base.K {
		case "file":
			return base.S == target.S && base.X == target.X
		case "link":
			return base.T == target.T
		}
		return true
	}()
	if !same {
		return []*core.Change{{Path: path, Old: entryOf(base), New: entryOf(target)}}
	}
	if base == nil || base.K != "dir" {
		return nil
	}
	names := map[string]bool{}
	for n := range base.C {
		names[n] = true
	}
	for n := range target.C {
		names[n] = true
	}
	var sorted []string
	for n := range names {
		sorted = append(sorted, n)
	}
	sort.Strings(sorted)
	var out []*core.Change
	for _, n := range sorted {
		out = append(out, planFor(joinRel(path, n), base.C[n], target.C[n])...)
	}
	return out
}

// stagingProvider serves staged files from a directory; contents are looked up
// by digest among the target's files.
type stagingProvider struct {
	dir string
}

func (p *stagingProvider) pathFor(path string, digest []byte) string {
	h := sha1.Sum([]byte(path + "\x00" + hex.EncodeToString(digest)))
	return filepath.Join(p.dir, "staged-"+hex.EncodeToString(h[:8]))
}

func (p *stagingProvider) Provide(path string, digest []byte) (string, error) {
	return p.pathFor(path, digest), nil
}

// stage writes the staged file for every file the plan may create.
func stage(p *stagingProvider, plan []*core.Change, target *Node, missing []string) {
	contents := map[string]string{}
	var collect func(n *Node)
	collect = func(n *Node) {
		if n == nil {
			return
		}
		if n.K == "file" {
			contents[hex.EncodeToString(digestOf(n.S))] = n.S
		}
		for _, ch := range n.C {
			collect(ch)
		}
	}
	collect(target)
	miss := map[string]bool{}
	for _, m := range missing {
		miss[m] = true
	}
	var rec func(path string, e *core.Entry)
	rec = func(path string, e *core.Entry) {
		if e == nil {
			return
		}
		if e.Kind == core.EntryKind_File && !miss[path] {
			if s, ok := contents[hex.EncodeToString(e.Digest)]; ok {
				must(os.WriteFile(p.pathFor(path, e.Digest), []byte(s), 0o600))
			}
		}
		for n, ch := range e.Contents {
			rec(joinRel(path, n), ch)
		}
	}
	for _, ch := range plan {
		rec(ch.Path, ch.New)
	}
}

// applyEdit performs one external modification with plain os calls.
func applyEdit(root string, e edit) error {
	p := filepath.Join(append([]string{root}, e.Path...)...)
	keepTimes := func(info os.FileInfo) error {
		st := info.Sys().(*syscall.Stat_t)
		return os.Chtimes(p, time.Unix(st.Atim.Sec, st.Atim.Nsec), time.Unix(st.Mtim.Sec, st.Mtim.Nsec))
	}
	// rewriteInPlace overwrites the file with other bytes of the same length
	// through the existing inode (no rename, no truncation)
	rewriteInPlace := func(info os.FileInfo) error {
		f, err := os.OpenFile(p, os.O_WRONLY, 0)
		if err != nil {
			return err
		}
		b := make([]byte, info.Size())
		for i := range b {
			b[i] = 'm'
		}
		_, err = f.WriteAt(b, 0)
		f.Close()
		return err
	}
	mtimeDelta := map[string]time.Duration{"mtime+1ns": time.Nanosecond, "mtime+999us": 999 * time.Microsecond,
		"mtime+1s": time.Second, "mtime-1ns": -time.Nanosecond}
	modeBit := map[string]os.FileMode{"mode1": 0o400, "mode2": 0o200, "mode3": 0o100, "mode4": 0o040, "mode5": 0o020,
		"mode6": 0o010, "mode7": 0o004, "mode8": 0o002, "mode9": 0o001}
	if d, ok := mtimeDelta[e.Op]; ok {
		// same length, same inode, same mode: only the modification time differs
		// (by d from the value the scan recorded) - and the bytes
		info, err := os.Lstat(p)
		if err != nil {
			return err
		}
		if err := rewriteInPlace(info); err != nil {
			return err
		}
		st := info.Sys().(*syscall.Stat_t)
		return os.Chtimes(p, time.Unix(st.Atim.Sec, st.Atim.Nsec), time.Unix(st.Mtim.Sec, st.Mtim.Nsec).Add(d))
	}
	if bit, ok := modeBit[e.Op]; ok {
		// exactly one permission bit differs; modification time as scanned
		info, err := os.Lstat(p)
		if err != nil {
			return err
		}
		if err := os.Chmod(p, info.Mode().Perm()^bit); err != nil {
			return err
		}
		return keepTimes(info)
	}
	switch e.Op {
	case "content", "stale": // new content, other size; modification time two seconds later
		info, err := os.Lstat(p)
		if err != nil {
			return err
		}
		if err := os.WriteFile(p, []byte("edited content of another size"), info.Mode().Perm()); err != nil {
			return err
		}
		return os.Chtimes(p, time.Now(), info.ModTime().Add(2*time.Second))
	case "size+1": // one byte appended in place, modification time restored: only the size differs
		info, err := os.Lstat(p)
		if err != nil {
			return err
		}
		f, err := os.OpenFile(p, os.O_WRONLY|os.O_APPEND, 0)
		if err != nil {
			return err
		}
		_, err = f.WriteString("+")
		f.Close()
		if err != nil {
			return err
		}
		return keepTimes(info)
	case "size-1": // one byte cut off in place, modification time restored
		info, err := os.Lstat(p)
		if err != nil {
			return err
		}
		if info.Size() < 1 {
			return fmt.Errorf("size-1 on an empty file")
		}
		if err := os.Truncate(p, info.Size()-1); err != nil {
			return err
		}
		return keepTimes(info)
	case "id": // replaced (rename) by a file of identical content, size, mode and modification time: only the file id differs
		info, err := os.Lstat(p)
		if err != nil {
			return err
		}
		b, err := os.ReadFile(p)
		if err != nil {
			return err
		}
		tmp := p + ".verif-replacement"
		if err := os.WriteFile(tmp, b, info.Mode().Perm()); err != nil {
			return err
		}
		if err := os.Chmod(tmp, info.Mode().Perm()); err != nil {
			return err
		}
		if err := os.Rename(tmp, p); err != nil {
			return err
		}
		return keepTimes(info)
	case "retarget": // a target of the same length differing in its last byte
		old, err := os.Readlink(p)
		if err != nil {
			return err
		}
		nb := []byte(old)
		if nb[len(nb)-1] == 'x' {
			nb[len(nb)-1] = 'y'
		} else {
			nb[len(nb)-1] = 'x'
		}
		if err := os.Remove(p); err != nil {
			return err
		}
		return os.Symlink(string(nb), p)
	case "newchild": // a new file inside a directory (the path names the new file)
		return os.WriteFile(p, []byte("new child"), 0o644)
	case "tofile": // a directory or link replaced by a file
		if err := os.RemoveAll(p); err != nil {
			return err
		}
		return os.WriteFile(p, []byte("now a file"), 0o644)
	case "todir": // a file or link replaced by a directory
		if err := os.Remove(p); err != nil {
			return err
		}
		return os.Mkdir(p, 0o755)
	case "tolink": // a file replaced by a link
		if err := os.Remove(p); err != nil {
			return err
		}
		return os.Symlink("retargeted", p)
	case "delete":
		return os.RemoveAll(p)
	case "createfile":
		return os.WriteFile(p, []byte("created meanwhile"), 0o644)
	case "createlink":
		return os.Symlink("created-meanwhile", p)
	case "createdir":
		return os.Mkdir(p, 0o755)
	case "createfifo":
		return syscall.Mkfifo(p, 0o644)
	}
	return fmt.Errorf("unknown edit %q", e.Op)
}

type opRec struct{ op, name string }

// runCase executes one case on a fresh materialisation and returns its record.
func runCase(scratch string, tc *tCase) map[string]any {
	base, err := os.MkdirTemp(scratch, "tr")
	must(err)
	defer os.RemoveAll(base)
	root := filepath.Join(base, "root")
	// staged files: next to the root, or - for the cross-device configuration -
	// really on another device (/dev/shm) when there is one; otherwise the staged
	// renames are answered with EXDEV through the hook ("faked")
	staging := filepath.Join(base, "staging")
	xdev := "none"
	if tc.Mode.Exdev {
		xdev = "faked"
		if d := otherDeviceDir(base); d != "" {
			staging, xdev = d, "real"
			defer os.RemoveAll(d)
		}
	}
	if xdev != "real" {
		must(os.Mkdir(staging, 0o755))
	}
	must(materialise(root, tc.Tree0))

	plan := planFor("", tc.Tree0, tc.Target)

	// edits that make the plan older than the scan
	for _, e := range tc.Edits {
		if e.Op == "stale" {
			must(applyEdit(root, e))
		}
	}

	// the real scan that the transition relies on
	snap0, cache, err := scanRoot(root, core.SymbolicLinkMode_SymbolicLinkModePortable)
	must(err)

	// external edits between scan and transition
	for _, e := range tc.Edits {
		if e.Op != "stale" {
			must(applyEdit(root, e))
		}
	}
	// the detailed before/after views (with lstat identities) are what C08 compares;
	// runs with an injected event record the plain after-view only
	detailed := tc.Fault.Kind == "none" || tc.Detail
	pre := map[string]any{"k": "notrecorded"}
	if detailed {
		pre = walk(root)
	}

	provider := &stagingProvider{dir: staging}
	stage(provider, plan, tc.Target, tc.Mode.Missing)
	if tc.Fault.Kind == "srcread" {
		entries, _ := os.ReadDir(staging)
		for _, e := range entries {
			if !e.IsDir() {
				must(os.Remove(filepath.Join(staging, e.Name())))
				must(os.Mkdir(filepath.Join(staging, e.Name()), 0o700))
			}
		}
	}

	var ownership *filesystem.OwnershipSpecification
	if tc.Mode.Owner {
		ownership, err = filesystem.NewOwnershipSpecification(fmt.Sprintf("id:%d", os.Getuid()), fmt.Sprintf("id:%d", os.Getgid()))
		must(err)
	}

	ctx, cancel := context.WithCancel(context.Background())
	defer cancel()
	nops := 0
	fired := false
	var hit opRec
	var ops []opRec
	stagedPrefix := staging + string(os.PathSeparator)
	filesystem.VerifSetFault(func(op, name string) error {
		nops++
		if len(ops) < 400 {
			ops = append(ops, opRec{op, name})
		}
		if nops == tc.Fault.Index {
			switch tc.Fault.Kind {
			case "error":
				fired, hit = true, opRec{op, name}
				switch tc.Fault.Errno {
				case "eperm":
					return syscall.EPERM
				case "eacces":
					return syscall.EACCES
				case "enoent":
					return syscall.ENOENT
				}
				return syscall.EIO
			case "cancel":
				fired, hit = true, opRec{op, name}
				cancel()
			case "vanish":
				fired, hit = true, opRec{op, name}
				entries, _ := os.ReadDir(staging)
				for _, e := range entries {
					os.Remove(filepath.Join(staging, e.Name()))
				}
			}
		}
		// renameat2 unavailable: the wrapper answers ENOSYS, or ENOTSUP (what it
		// turns the kernel's EINVAL into; the hook sits before that aliasing), so
		// filesystem.Rename takes its probe-then-renameat fallback
		if op == "renameat2" && tc.Mode.Rn2 == "enosys" {
			return syscall.ENOSYS
		}
		if op == "renameat2" && tc.Mode.Rn2 == "enotsup" {
			return syscall.ENOTSUP
		}
		if xdev == "faked" && (op == "renameat" || op == "renameat2") && strings.HasPrefix(name, stagedPrefix) {
			return syscall.EXDEV
		}
		return nil
	})

	type outcome struct {
		results  []*core.Entry
		problems []*core.Problem
		missing  bool
	}
	done := make(chan outcome, 1)
	go func() {
		r, p, m := core.Transition(ctx, root, plan, cache,
			core.SymbolicLinkMode_SymbolicLinkModePortable, 0o644, 0o755, ownership, false, provider)
		done <- outcome{r, p, m}
	}()
	var out outcome
	hung := false
	select {
	case out = <-done:
	case <-time.After(30 * time.Second):
		hung = true
	}
	filesystem.VerifSetFault(nil)

	post := walk(root)
	if !detailed {
		stripIDs(post)
	} else if tc.Fault.Kind != "none" {
		// before/after views of runs with an injected event serve the executable-bit
		// comparison only: lstat identities are not needed
		stripIDs(pre)
		stripIDs(post)
	}
	scan1 := map[string]any{"k": "scanerr"}
	if snap1, _, err := scanRoot(root, core.SymbolicLinkMode_SymbolicLinkModePortable); err == nil {
		scan1 = vtree.Enc(snap1.Content)
	}

	results := make([]any, 0, len(out.results))
	for _, r := range out.results {
		results = append(results, vtree.Enc(r))
	}
	problems := make([]any, 0, len(out.problems))
	for _, p := range out.problems {
		problems = append(problems, map[string]any{"path": strs(vtree.Path(p.Path)), "err": errStr(fmt.Errorf("%s", p.Error))})
	}
	// the primitive sequence is recorded for the run without injected event only
	opNames := make([]any, 0, len(ops))
	if tc.Fault.Kind == "none" {
		for _, o := range ops {
			opNames = append(opNames, o.op)
		}
	}
	rec := map[string]any{
		"ev":       "Transition",
		"in":       tc.in(),
		"scan0":    vtree.Enc(snap0.Content),
		"plan":     vtree.EncChanges(plan),
		"pre":      pre,
		"results":  results,
		"problems": problems,
		"missing":  out.missing,
		"nops":     nops,
		"ops":      opNames,
		"fired":    fired,
		"hit":      map[string]any{"op": hit.op, "name": filepath.Base(hit.name)},
		"hung":     hung,
		"xdev":     xdev,
		"post":     post,
		"scan1":    scan1,
	}
	return rec
}

// ------------------------------------------------------------------ shapes

func partialDirs(names []string, kids []*Node) []*Node {
	var out []*Node
	var rec func(i int, cur map[string]*Node)
	rec = func(i int, cur map[string]*Node) {
		if i == len(names) {
			c := map[string]*Node{}
			for k, v := range cur {
				c[k] = v
			}
			out = append(out, nDir(c))
			return
		}
		rec(i+1, cur)
		for _, k := range kids {
			cur[names[i]] = k
			rec(i+1, cur)
			delete(cur, names[i])
		}
	}
	rec(0, map[string]*Node{})
	return out
}

// shapeTrees mirrors DiskTreesOf / TargetTreesOf of FSTransition.tla (file
// contents are the model's digest names).
func shapeTrees(shape string) (disk, target []*Node) {
	f1, f2, f1x := nFile("d1", false), nFile("d2", false), nFile("d1", true)
	l1, l2, u := nLink("t1"), nLink("t2"), nFifo()
	diskLeaves := []*Node{f1, l1, u}
	newLeaves := []*Node{f1, f2, f1x, l1, l2}
	cat := func(a []*Node, b ...*Node) []*Node { return append(append([]*Node{}, a...), b...) }
	switch shape {
	case "wide":
		disk = cat(partialDirs([]string{"a"}, cat(diskLeaves, partialDirs([]string{"c", "d"}, diskLeaves)...)), nil, f1)
		target = cat(partialDirs([]string{"a"}, cat(newLeaves, partialDirs([]string{"c", "d"}, []*Node{f1, f2, l2})...)), nil, f2)
	case "small":
		disk = cat(partialDirs([]string{"a"}, cat([]*Node{f1, l1}, partialDirs([]string{"c", "d"}, []*Node{f1, u})...)), nil, f1)
		target = cat(partialDirs([]string{"a"}, cat([]*Node{f1x, f2, l2}, partialDirs([]string{"c", "d"}, []*Node{f2, l2})...)), nil, f2)
	case "two":
		disk = partialDirs([]string{"a", "b"}, cat(diskLeaves, partialDirs([]string{"c"}, diskLeaves)...))
		target = partialDirs([]string{"a", "b"}, cat([]*Node{f1, f2, l2}, partialDirs([]string{"c"}, []*Node{f2, l1})...))
	case "spine":
		disk = partialDirs([]string{"a"}, cat(diskLeaves, partialDirs([]string{"b"}, cat(diskLeaves, partialDirs([]string{"c"}, diskLeaves)...))...))
		target = partialDirs([]string{"a"}, cat([]*Node{f2, l2}, partialDirs([]string{"b"}, cat([]*Node{f2, l2}, partialDirs([]string{"c"}, []*Node{f2, l2})...))...))
	case "nest":
		disk = partialDirs([]string{"a"}, partialDirs([]string{"c", "d"}, cat([]*Node{f1, l1}, partialDirs([]string{"e"}, []*Node{f1, u})...)))
		target = partialDirs([]string{"a"}, []*Node{f2, nDir(map[string]*Node{})})
	case "exec":
		f2x := nFile("d2", true)
		disk = partialDirs([]string{"a"}, cat([]*Node{f1x, f1}, partialDirs([]string{"c"}, []*Node{f1x, f1})...))
		target = partialDirs([]string{"a"}, cat([]*Node{f2x, f2, f1x, f1}, partialDirs([]string{"c"}, []*Node{f2x, f2})...))
	case "edit":
		disk = partialDirs([]string{"a"}, cat([]*Node{f1, l1}, partialDirs([]string{"c"}, []*Node{f1, l1})...))
		target = cat(partialDirs([]string{"a"}, cat([]*Node{f2, f1x, l2}, partialDirs([]string{"c"}, []*Node{f2, l2})...)), nil)
	default:
		vlib.Fatal("unknown shape %q", shape)
	}
	return
}

func planCreates(plan []*core.Change, kind core.EntryKind) bool {
	var has func(e *core.Entry) bool
	has = func(e *core.Entry) bool {
		if e == nil {
			return false
		}
		if e.Kind == kind {
			return true
		}
		for _, ch := range e.Contents {
			if has(ch) {
				return true
			}
		}
		return false
	}
	for _, ch := range plan {
		if has(ch.New) {
			return true
		}
	}
	return false
}

// baseCases enumerates the (tree0, target) pairs of the shape that need a
// transition, as Init of FSTransition.tla does; configurations (exdev, owner,
// renameat2 availability) are added by sweepConfigs / the C08 job builder.
func baseCases(shape string) []*tCase {
	disk, target := shapeTrees(shape)
	var out []*tCase
	for _, d := range disk {
		for _, t := range target {
			plan := planFor("", d, t)
			if len(plan) == 0 {
				continue
			}
			out = append(out, &tCase{Shape: shape, Tree0: d, Target: t, Fault: fault{Kind: "none"}})
		}
	}
	return out
}

// ------------------------------------------------------------------ random trees

func randNode(c *vlib.Ctx, depth int, disk bool) *Node {
	r := c.Rand.Intn(100)
	if depth > 0 && r < 40 {
		n := nDir(map[string]*Node{})
		k := c.Rand.Intn(4)
		for i := 0; i < k; i++ {
			n.C[string(rune('a'+c.Rand.Intn(5)))] = randNode(c, depth-1, disk)
		}
		return n
	}
	switch {
	case r < 75:
		return nFile(fmt.Sprintf("content-%d", c.Rand.Intn(4)), c.Rand.Intn(4) == 0)
	case r < 92 || !disk:
		return nLink(fmt.Sprintf("target%d", c.Rand.Intn(3)))
	}
	return nFifo()
}

func randRoot(c *vlib.Ctx, disk bool) *Node {
	n := nDir(map[string]*Node{})
	k := 1 + c.Rand.Intn(4)
	for i := 0; i < k; i++ {
		n.C[string(rune('a'+c.Rand.Intn(5)))] = randNode(c, 3, disk)
	}
	return n
}

// mutate derives a target from a disk tree by a few random replacements, so
// that plans touch only parts of the tree (as real reconciliations do).
func mutate(c *vlib.Ctx, n *Node, depth int) *Node {
	if n == nil || n.K == "fifo" {
		if c.Rand.Intn(2) == 0 {
			return nil
		}
		return randNode(c, depth, false)
	}
	if c.Rand.Intn(100) < 25 {
		if c.Rand.Intn(3) == 0 {
			return nil
		}
		return randNode(c, depth, false)
	}
	if n.K != "dir" {
		cp := *n
		return &cp
	}
	out := nDir(map[string]*Node{})
	for k, ch := range n.C {
		if m := mutate(c, ch, depth-1); m != nil {
			out.C[k] = m
		}
	}
	if c.Rand.Intn(3) == 0 {
		out.C[string(rune('f'+c.Rand.Intn(3)))] = randNode(c, depth-1, false)
	}
	return out
}

func randomCase(c *vlib.Ctx) *tCase {
	for {
		d := randRoot(c, true)
		t := mutate(c, d, 3)
		if t == nil || t.K != "dir" {
			continue
		}
		plan := planFor("", d, t)
		if len(plan) == 0 {
			continue
		}
		return &tCase{Shape: "rand", Tree0: d, Target: t,
			Mode:  tMode{Exdev: c.Rand.Intn(3) == 0, Owner: c.Rand.Intn(2) == 0},
			Fault: fault{Kind: "none"}}
	}
}

// ------------------------------------------------------------------ C09

func withFault(tc *tCase, kind string, index int) *tCase {
	cp := *tc
	cp.Fault = fault{Kind: kind, Index: index}
	return &cp
}

func caseKey(tc *tCase) string {
	return fmt.Sprintf("%v", tc.in())
}

// faultSweep runs a case without fault to learn the number of primitives, then
// once per index and kind. A stride > 1 samples the cancel / vanish indices.
func faultSweep(scratch string, jb *job, emit func(rec map[string]any, nontrivial, traceDone, sample bool)) {
	tc := caseFromIn(jb.In)
	rec := runCase(scratch, withFault(tc, "none", 0))
	emit(rec, false, true, false)
	n := rec["nops"].(int)
	staged := stagedFilesOf(tc)
	var opNames []string
	vlib.Decode(rec["ops"], &opNames)
	only := map[string]bool{}
	for _, o := range jb.OnlyOps {
		only[o] = true
	}
	for k := 1; k <= n; k++ {
		if len(only) > 0 && (k > len(opNames) || !only[opNames[k-1]]) {
			continue
		}
		r := runCase(scratch, withFault(tc, "error", k))
		emit(r, r["fired"].(bool), false, k == 1+jb.Off%n)
		// other error numbers at the primitives listed for them (a not-exist error is
		// what the code treats as "staged file missing")
		if k <= len(opNames) {
			for _, eo := range jb.ErrnoOps {
				if eo == opNames[k-1] {
					for _, en := range []string{"eperm", "eacces", "enoent"} {
						cp := withFault(tc, "error", k)
						cp.Fault.Errno = en
						r = runCase(scratch, cp)
						emit(r, r["fired"].(bool), false, false)
					}
				}
			}
		}
		if jb.CancelStride > 0 && (k+jb.Off)%jb.CancelStride == 0 {
			r = runCase(scratch, withFault(tc, "cancel", k))
			emit(r, r["fired"].(bool), false, false)
		}
		if jb.VanishStride > 0 && len(staged) > 0 && (k+jb.Off)%jb.VanishStride == 0 {
			r = runCase(scratch, withFault(tc, "vanish", k))
			emit(r, r["fired"].(bool), false, false)
		}
	}
	if jb.NoExtras {
		return
	}
	// content inside a directory that the plan removes disappears between scan
	// and transition (no injected event): results must still be exact
	for _, p := range deletableInside(tc) {
		cp := *tc
		cp.Edits = []edit{{Op: "delete", Path: p}}
		emit(runCase(scratch, withFault(&cp, "none", 0)), true, false, false)
	}
	// copy fault inside the cross-device fallback: the staged "file" can be opened but not read
	// (a directory sits at the staged path), so the copy into the temporary fails after the
	// temporary exists; nothing truncated may reach the root and the results must stay exact
	if tc.Mode.Exdev && len(staged) > 0 {
		r := runCase(scratch, withFault(tc, "srcread", 0))
		emit(r, true, false, false)
	}
	// staged files missing from the start: each single file, and all of them
	for _, f := range staged {
		cp := *tc
		cp.Mode.Missing = []string{f}
		emit(runCase(scratch, withFault(&cp, "none", 0)), true, false, false)
	}
	if len(staged) > 1 {
		cp := *tc
		cp.Mode.Missing = staged
		emit(runCase(scratch, withFault(&cp, "none", 0)), true, false, false)
	}
}

// deletableInside lists the proper descendants of directories the plan removes.
func deletableInside(tc *tCase) [][]string {
	var out [][]string
	for _, ch := range planFor("", tc.Tree0, tc.Target) {
		if ch.Old == nil || ch.Old.Kind != core.EntryKind_Directory {
			continue
		}
		base := vtree.Path(ch.Path)
		var rec func(prefix []string, e *core.Entry)
		rec = func(prefix []string, e *core.Entry) {
			for _, n := range vtree.SortedNames(e) {
				p := append(append([]string{}, prefix...), n)
				// only where no sibling's removal fails on its own (unknown content
				// below a sibling directory), see DeleteInside in FSTransition.tla
				ok := true
				if parent := nodeAt(tc.Tree0, prefix); parent != nil {
					for sib, sn := range parent.C {
						if sib != n && sn != nil && sn.K == "dir" && containsFifo(sn) {
							ok = false
						}
					}
				}
				if ok {
					out = append(out, p)
				}
				rec(p, e.Contents[n])
			}
		}
		rec(base, ch.Old)
	}
	return out
}

func containsFifo(n *Node) bool {
	if n == nil {
		return false
	}
	if n.K == "fifo" {
		return true
	}
	for _, ch := range n.C {
		if containsFifo(ch) {
			return true
		}
	}
	return false
}

func stagedFilesOf(tc *tCase) []string {
	var out []string
	var rec func(path string, e *core.Entry)
	rec = func(path string, e *core.Entry) {
		if e == nil {
			return
		}
		if e.Kind == core.EntryKind_File {
			out = append(out, path)
		}
		for n, ch := range e.Contents {
			rec(joinRel(path, n), ch)
		}
	}
	for _, ch := range planFor("", tc.Tree0, tc.Target) {
		if ch.Old != nil && ch.New != nil && ch.Old.Kind == core.EntryKind_File && ch.New.Kind == core.EntryKind_File &&
			string(ch.Old.Digest) == string(ch.New.Digest) {
			continue // permission-only swap: nothing is staged
		}
		rec(ch.Path, ch.New)
	}
	sort.Strings(out)
	return out
}

// argInt reads "name=value" from the driver arguments.
func argInt(c *vlib.Ctx, name string, def int) int {
	for _, a := range c.Args {
		if strings.HasPrefix(a, name+"=") {
			var v int
			if _, err := fmt.Sscanf(a[len(name)+1:], "%d", &v); err == nil {
				return v
			}
		}
	}
	return def
}

func runFaults(c *vlib.Ctx) error {
	// shape -> every n-th case of the shape is swept (1 = all)
	type sh struct {
		name  string
		every int
	}
	shapes := []sh{{"small", 1}}
	nRandom := argInt(c, "rand", 10)
	cancelStride, vanishStride := argInt(c, "cancel", 6), argInt(c, "vanish", 8)
	if c.Thorough() {
		shapes = []sh{{"small", 1}, {"wide", 1}, {"spine", 1}, {"nest", 1}, {"two", argInt(c, "two", 6)}}
		nRandom = argInt(c, "rand", 200)
		cancelStride, vanishStride = argInt(c, "cancel", 2), argInt(c, "vanish", 2)
	}
	var jobs []*job
	total := 0
	ownerOps := []string{"fchownat", "fchmod"}
	renameOps := []string{"renameat2", "fstatat", "renameat", "unlinkat", "fchownat", "fchmod"}
	// add queues the sweeps of one (tree0, target) pair over the configurations
	// (exdev, owner, renameat2 availability). Thorough: exdev x owner with all
	// injected kinds at every index, and the renameat2-unavailable variants with
	// an error at every index. Quick: the two exdev configurations in full, and the
	// owner / renameat2-unavailable configurations with an error at every primitive
	// they add or change (ownership, mode, rename, probe, clean-up primitives).
	add := func(tc *tCase) {
		plan := planFor("", tc.Tree0, tc.Target)
		files := planCreates(plan, core.EntryKind_File)
		sweep := func(x, o bool, rn2 string, cs, vs int, only []string) {
			cp := *tc
			cp.Mode = tMode{Exdev: x, Owner: o, Rn2: rn2}
			jobs = append(jobs, &job{Kind: "sweep", In: cp.in(), CancelStride: cs, VanishStride: vs, Off: c.Rand.Intn(1 << 20), OnlyOps: only})
		}
		exdevs := []bool{false}
		if files {
			exdevs = []bool{false, true}
		}
		if c.Thorough() {
			for _, x := range exdevs {
				sweep(x, false, "", cancelStride, vanishStride, nil)
				sweep(x, true, "", cancelStride, vanishStride, nil)
				if files {
					sweep(x, false, "enosys", 0, 0, nil)
				}
			}
			if files {
				sweep(false, true, "enotsup", 0, 0, nil)
			}
			return
		}
		for _, x := range exdevs {
			sweep(x, false, "", cancelStride, vanishStride, nil)
		}
		sweep(false, true, "", 0, 0, ownerOps)
		if files {
			sweep(true, true, "enotsup", 0, 0, renameOps)
			sweep(false, false, "enosys", 0, 0, renameOps)
		}
	}
	var names []string
	for _, sh := range shapes {
		cases := baseCases(sh.name)
		off := c.Rand.Intn(sh.every)
		for i, tc := range cases {
			if (i+off)%sh.every == 0 {
				add(tc)
				total++
			}
		}
		names = append(names, fmt.Sprintf("%s(1/%d of %d)", sh.name, sh.every, len(cases)))
	}
	for i := 0; i < nRandom; i++ {
		add(randomCase(c))
	}
	runJobs(c, jobs)
	c.SetExhaustive(true)
	c.SetExtra("shape_cases", total)
	c.SetExtra("bound", fmt.Sprintf("shapes %v: (disk tree, target tree, exdev, owner) cases of FSTransition.tla's Init x every primitive index (error at every index; cancel at every %d-th, vanish at every %d-th index) x missing staged files; %d random trees (<= 4 levels)", names, cancelStride, vanishStride, nRandom))
	return nil
}

// ------------------------------------------------------------------ C08

func nodeAt(n *Node, path []string) *Node {
	for _, p := range path {
		if n == nil || n.K != "dir" {
			return nil
		}
		n = n.C[p]
	}
	return n
}

func allPaths(n *Node, prefix []string, f func(path []string, n *Node)) {
	if n == nil {
		return
	}
	f(prefix, n)
	for _, name := range n.names() {
		allPaths(n.C[name], append(append([]string{}, prefix...), name), f)
	}
}

// editsFor lists every single external edit applicable to tree0 (and, for
// creations, to the paths at which the plan creates content).
func editsFor(tc *tCase, modeOps []string) []edit {
	var out []edit
	allPaths(tc.Tree0, nil, func(path []string, n *Node) {
		if len(path) == 0 {
			return
		}
		var ops []string
		switch n.K {
		case "file":
			ops = append([]string{"content", "mtime+1ns", "mtime+999us", "mtime+1s", "mtime-1ns", "size+1", "size-1", "id",
				"stale", "todir", "tolink", "delete"}, modeOps...)
		case "link":
			ops = []string{"retarget", "tofile", "todir", "delete"}
		case "dir":
			ops = []string{"tofile"}
			out = append(out, edit{Op: "newchild", Path: append(append([]string{}, path...), "z")})
		}
		for _, op := range ops {
			out = append(out, edit{Op: op, Path: path})
		}
	})
	for _, ch := range planFor("", tc.Tree0, tc.Target) {
		if ch.Old == nil && ch.Path != "" {
			p := vtree.Path(ch.Path)
			if parent := nodeAt(tc.Tree0, p[:len(p)-1]); parent != nil && parent.K == "dir" && nodeAt(tc.Tree0, p) == nil {
				for _, op := range []string{"createfile", "createlink", "createdir", "createfifo"} {
					out = append(out, edit{Op: op, Path: p})
				}
			}
		}
	}
	return out
}

func comparable(a, b []string) bool {
	n := len(a)
	if len(b) < n {
		n = len(b)
	}
	for i := 0; i < n; i++ {
		if a[i] != b[i] {
			return false
		}
	}
	return true
}

func covered(tc *tCase, e edit) bool {
	for _, ch := range planFor("", tc.Tree0, tc.Target) {
		if comparable(vtree.Path(ch.Path), e.Path) {
			return true
		}
	}
	return false
}

func editJob(c *vlib.Ctx, tc *tCase, es []edit) *job {
	return editJobMode(c, tc, es, tMode{})
}

// editJobs queues an edit case under the configurations that matter for it: the
// given owner setting, and - when something appears at a path where the plan
// creates content - also with renameat2 unavailable (ENOSYS / ENOTSUP, with and
// without a cross-device staging directory), where the non-replacing rename
// falls back to probe-then-renameat.
func editJobs(c *vlib.Ctx, tc *tCase, es []edit, owner bool) []*job {
	out := []*job{editJobMode(c, tc, es, tMode{Owner: owner})}
	for _, e := range es {
		if strings.HasPrefix(e.Op, "create") {
			out = append(out,
				editJobMode(c, tc, es, tMode{Owner: owner, Exdev: true}),
				editJobMode(c, tc, es, tMode{Owner: !owner, Exdev: true}),
				editJobMode(c, tc, es, tMode{Owner: owner, Rn2: "enosys"}),
				editJobMode(c, tc, es, tMode{Owner: !owner, Rn2: "enotsup"}),
				editJobMode(c, tc, es, tMode{Owner: owner, Rn2: "enosys", Exdev: true}))
			break
		}
	}
	return out
}

func editJobMode(c *vlib.Ctx, tc *tCase, es []edit, mode tMode) *job {
	cp := *tc
	cp.Edits = es
	cp.Mode = mode
	nt := false
	for _, e := range es {
		if covered(&cp, e) {
			nt = true
		}
	}
	return &job{Kind: "single", In: cp.in(), NonTrivial: nt, Sample: c.Rand.Intn(200) == 0}
}

func runEdits(c *vlib.Ctx) error {
	type sh struct {
		name  string
		every int  // every n-th case gets its single edits
		pairs bool // also pairs of edits on incomparable paths
	}
	shapes := []sh{{"edit", 1, false}, {"small", 1, false}}
	nRandom := argInt(c, "rand", 150)
	if c.Thorough() {
		shapes = []sh{{"edit", 1, true}, {"small", 1, true}, {"wide", 1, false}, {"two", argInt(c, "two", 8), false}}
		nRandom = argInt(c, "rand", 3000)
	}
	allModeOps := []string{"mode1", "mode2", "mode3", "mode4", "mode5", "mode6", "mode7", "mode8", "mode9"}
	modeOps := []string{"mode3", "mode5", "mode7"} // the driver's own enumeration in the quick tier: one bit per class
	if c.Thorough() {
		modeOps = allModeOps
	}
	var jobs []*job
	var names []string
	// spec -> code: every edit case exported by the model (FSTransition_Beh, shape "edit", all nine mode bits)
	seenBeh := map[string]bool{}
	for _, b := range c.ReadBehaviours() {
		tc := &tCase{Shape: "edit", Tree0: nodeFromModel(b["tree0"]), Target: nodeFromModel(b["target"]), Fault: fault{Kind: "none"}}
		var es []edit
		vlib.Decode(b["edits"], &es)
		key := caseKey(tc) + fmt.Sprint(es)
		if seenBeh[key] {
			continue
		}
		seenBeh[key] = true
		jobs = append(jobs, editJobs(c, tc, es, false)...)
		if c.Thorough() {
			jobs = append(jobs, editJobs(c, tc, es, true)...)
		}
	}
	c.SetExtra("behaviours_replayed", len(seenBeh))
	for _, sh := range shapes {
		if sh.name == "edit" && len(seenBeh) > 0 && !sh.pairs {
			continue // covered by the exported behaviours
		}
		cases := baseCases(sh.name)
		off := c.Rand.Intn(sh.every)
		n := 0
		for _, tc := range cases {
			n++
			if (n+off)%sh.every != 0 {
				continue
			}
			es := editsFor(tc, modeOps)
			for _, e := range es {
				// the driver's own enumeration runs with a default owner configured
				// (the replayed behaviours run without; thorough: both)
				jobs = append(jobs, editJobs(c, tc, []edit{e}, true)...)
				if c.Thorough() && sh.name != "two" {
					jobs = append(jobs, editJobs(c, tc, []edit{e}, false)...)
				}
			}
			if sh.pairs {
				for i := 0; i < len(es); i++ {
					for j := i + 1; j < len(es); j++ {
						if !comparable(es[i].Path, es[j].Path) && (i+j)%3 == 0 {
							jobs = append(jobs, editJob(c, tc, []edit{es[i], es[j]}))
						}
					}
				}
			}
		}
		names = append(names, fmt.Sprintf("%s(1/%d of %d, pairs=%v)", sh.name, sh.every, n, sh.pairs))
	}
	for i := 0; i < nRandom; i++ {
		tc := randomCase(c)
		rmode := tMode{Owner: c.Rand.Intn(2) == 0, Exdev: c.Rand.Intn(4) == 0, Rn2: []string{"", "", "enosys", "enotsup"}[c.Rand.Intn(4)]}
		es := editsFor(tc, modeOps)
		if len(es) == 0 {
			continue
		}
		// up to three edits on pairwise incomparable paths
		var chosen []edit
		for tries := 0; tries < 6 && len(chosen) < 3; tries++ {
			e := es[c.Rand.Intn(len(es))]
			ok := true
			for _, x := range chosen {
				if comparable(x.Path, e.Path) {
					ok = false
				}
			}
			if ok {
				chosen = append(chosen, e)
			}
		}
		jobs = append(jobs, editJobMode(c, tc, chosen, rmode))
	}
	runJobs(c, jobs)
	c.SetExhaustive(true)
	c.SetExtra("bound", fmt.Sprintf("shapes %v: (disk tree, target tree) cases x every single edit kind at every node (+ every third pair where stated); %d random trees with up to 3 edits", names, nRandom))
	return nil
}

func replayTransition(c *vlib.Ctx, begin map[string]any) error {
	in, _ := begin["in"].(map[string]any)
	if in == nil {
		return fmt.Errorf("replay record has no in field")
	}
	tc := caseFromIn(in)
	rec := runCase(c.Scratch, tc)
	c.Emit(rec)
	c.Eval()
	c.NonTrivial("replay")
	return nil
}

func stripIDs(n map[string]any) {
	delete(n, "id")
	if c, ok := n["c"].(map[string]any); ok {
		for _, ch := range c {
			if m, ok := ch.(map[string]any); ok {
				stripIDs(m)
			}
		}
	}
}

// nodeFromModel converts a tree exported by the model (file digest names are the
// content names; empty contents may arrive as an empty array) into a Node.
func nodeFromModel(v any) *Node {
	m, ok := v.(map[string]any)
	if !ok {
		return nil
	}
	switch m["k"] {
	case "nil":
		return nil
	case "dir":
		n := nDir(map[string]*Node{})
		if c, ok := m["c"].(map[string]any); ok {
			for k, ch := range c {
				n.C[k] = nodeFromModel(ch)
			}
		}
		return n
	case "file":
		d, _ := m["d"].(string)
		x, _ := m["x"].(bool)
		return nFile(d, x)
	case "link":
		t, _ := m["t"].(string)
		return nLink(t)
	case "untracked":
		return nFifo()
	}
	return nil
}

// otherDeviceDir creates a scratch directory on a device other than the one
// holding dir (under /dev/shm) and returns it, or "" if there is none.
func otherDeviceDir(dir string) string {
	var a, b syscall.Stat_t
	if syscall.Stat(dir, &a) != nil || syscall.Stat("/dev/shm", &b) != nil || a.Dev == b.Dev {
		return ""
	}
	if os.Getenv("VERIF_NO_REAL_XDEV") == "1" {
		return ""
	}
	d, err := os.MkdirTemp("/dev/shm", "verif-transition-")
	if err != nil {
		return ""
	}
	return d
}

// ------------------------------------------------------------------ C03 (extra run)

func hasFifo(n *Node) bool { return containsFifo(n) }

// runUnknown emits only the newcomer / unknown-content scenarios: trees holding
// FIFOs (unknown children of directories being removed, untracked entries at
// paths the plan creates) and external newcomers (new child, file / link /
// directory / FIFO at a creation path), each with staging on the same device,
// on another device, and with renameat2 unavailable; no injected fault.
func runUnknown(c *vlib.Ctx) error {
	shapes := []string{"edit", "small"}
	nRandom := 150
	if c.Thorough() {
		shapes = []string{"edit", "small", "wide", "nest", "spine"}
		nRandom = 2000
	}
	modes := []tMode{{}, {Exdev: true}, {Owner: true, Rn2: "enosys"}, {Exdev: true, Owner: true, Rn2: "enotsup"}}
	var jobs []*job
	addAll := func(tc *tCase, es []edit) {
		for _, m := range modes {
			jb := editJobMode(c, tc, es, m)
			jb.NonTrivial = true
			jobs = append(jobs, jb)
		}
	}
	for _, sh := range shapes {
		for _, tc := range baseCases(sh) {
			if hasFifo(tc.Tree0) {
				addAll(tc, nil)
			}
			for _, e := range editsFor(tc, nil) {
				if e.Op == "newchild" || strings.HasPrefix(e.Op, "create") {
					addAll(tc, []edit{e})
				}
			}
		}
	}
	for i := 0; i < nRandom; i++ {
		tc := randomCase(c)
		var es []edit
		for _, e := range editsFor(tc, nil) {
			if (e.Op == "newchild" || strings.HasPrefix(e.Op, "create")) && c.Rand.Intn(3) == 0 {
				ok := true
				for _, x := range es {
					if comparable(x.Path, e.Path) {
						ok = false
					}
				}
				if ok && len(es) < 3 {
					es = append(es, e)
				}
			}
		}
		if len(es) == 0 && !hasFifo(tc.Tree0) {
			continue
		}
		addAll(tc, es)
	}
	runJobs(c, jobs)
	c.SetExhaustive(true)
	c.SetExtra("bound", fmt.Sprintf("shapes %v: every pair whose disk tree holds a FIFO, and every pair x every newcomer (new child; file / link / directory / FIFO at a path the plan creates), each with same-device staging, cross-device staging (real /dev/shm when available) and renameat2 unavailable; %d random trees", shapes, nRandom))
	return nil
}

// ------------------------------------------------------------------ C18 (extra run)

func withPerm(n *Node, perm int) *Node {
	if n == nil {
		return nil
	}
	cp := *n
	if n.K == "file" && n.X {
		cp.M = perm
	}
	if n.C != nil {
		cp.C = map[string]*Node{}
		for k, ch := range n.C {
			cp.C[k] = withPerm(ch, perm)
		}
	}
	return &cp
}

func hasExec(n *Node) bool {
	if n == nil {
		return false
	}
	if n.K == "file" && n.X {
		return true
	}
	for _, ch := range n.C {
		if hasExec(ch) {
			return true
		}
	}
	return false
}

// runExec is the scenario run for C18 on the endpoint that preserves executable
// bits: executable files (0755, u+x only, u+x with g+x, u+x with o+x) at one and
// two levels; plans that change content and/or executability (shape "exec" of
// FSTransition.tla); staged files created 0600 as the stager does; same-device
// and cross-device staging, with and without a default owner; one injected error
// at every primitive (EIO everywhere, EPERM / EACCES / ENOENT in addition at the
// permission, ownership, open and rename primitives). The walker's before-view is
// recorded in every run.
func runExec(c *vlib.Ctx) error {
	perms := []int{0o755, 0o744, 0o754, 0o745}
	errnoOps := []string{"setpermissions", "fchmod", "fchownat", "renameat", "renameat2"}
	modes := []tMode{{}, {Exdev: true, Owner: true}, {Owner: true}, {Exdev: true}}
	every := argInt(c, "every", 1)
	nRandom := argInt(c, "rand", 6)
	if c.Thorough() {
		nRandom = argInt(c, "rand", 150)
	}
	var jobs []*job
	n := 0
	add := func(tc *tCase, perm int, ms []tMode) {
		for _, m := range ms {
			cp := *tc
			cp.Tree0 = withPerm(tc.Tree0, perm)
			cp.Mode = m
			cp.Detail = true
			jobs = append(jobs, &job{Kind: "sweep", In: cp.in(), Off: c.Rand.Intn(1 << 20), ErrnoOps: errnoOps, NoExtras: true})
		}
	}
	for i, tc := range baseCases("exec") {
		if !hasExec(tc.Tree0) && !hasExec(tc.Target) {
			continue
		}
		n++
		if (n+c.Rand.Intn(every))%every != 0 {
			continue
		}
		if c.Thorough() {
			for _, p := range perms {
				add(tc, p, modes)
			}
			continue
		}
		// quick: 0755 and one rotating variant; same-device and cross-device+owner
		// always, the two remaining configurations alternating
		add(tc, 0o755, []tMode{modes[0], modes[1]})
		add(tc, perms[1+i%3], []tMode{modes[2+i%2]})
	}
	for i := 0; i < nRandom; i++ {
		tc := randomCase(c)
		if !hasExec(tc.Tree0) {
			continue
		}
		add(tc, perms[i%4], []tMode{modes[i%4]})
	}
	runJobs(c, jobs)
	c.SetExhaustive(true)
	c.SetExtra("bound", fmt.Sprintf("shape exec: every (disk tree, target tree) pair holding or planning an executable file; permissions %o (quick: 0755 + one rotating); staging same-device / cross-device (real /dev/shm when available) x default owner; an error at every primitive index (EIO; EPERM, EACCES, ENOENT at %v); %d random trees", perms, errnoOps, nRandom))
	return nil
}
