// Driver "core": executes the real pkg/synchronization/core algorithms
// (Reconcile, Apply, Diff, Copy, Count, synchronizable, PropagateExecutability)
// on the bounded tree shapes of spec/core/SyncCycle.tla and on seeded random
// larger trees, and records what they returned. It contains no property
// predicate; spec/core/SyncCycle_Trace.tla judges the records.
package main

import (
	"encoding/hex"
	"encoding/json"
	"fmt"
	"math/rand"
	"sort"
	"strings"

	"github.com/mutagen-io/mutagen/pkg/synchronization/core"

	"verif/harness/internal/vlib"
	"verif/harness/internal/vtree"
)

var modes = map[string]core.SynchronizationMode{
	"tws": core.SynchronizationMode_SynchronizationModeTwoWaySafe,
	"twr": core.SynchronizationMode_SynchronizationModeTwoWayResolved,
	"ows": core.SynchronizationMode_SynchronizationModeOneWaySafe,
	"owr": core.SynchronizationMode_SynchronizationModeOneWayReplica,
}
var modeNames = []string{"tws", "twr", "ows", "owr"}

var (
	f1  = vtree.File(1, false)
	f2  = vtree.File(2, false)
	f1x = vtree.File(1, true)
	l1  = vtree.Link("t1")
	un  = vtree.Untracked()
	pb  = vtree.Problem("boom")
)

// shape returns (SyncTrees, AllTrees) exactly as SyncCycle.tla defines them.
func shape(name string) (syncTrees, allTrees []*core.Entry) {
	ab := []string{"a", "b"}
	switch name {
	case "d1":
		syncTrees = append(vtree.TreesOf([]*core.Entry{f1, f2, f1x, l1}, ab, 1), nil)
		allTrees = append(vtree.TreesOf([]*core.Entry{f1, f2, f1x, l1, un, pb}, ab, 1), nil)
	case "d2":
		syncTrees = append(vtree.PartialDirs(ab, vtree.TreesOf([]*core.Entry{f1, f2}, []string{"c"}, 1)), nil, f1)
		allTrees = append(vtree.PartialDirs(ab, vtree.TreesOf([]*core.Entry{f1, f2, un, pb}, []string{"c"}, 1)), nil, f1, un, pb)
	case "d2x":
		syncTrees = append(vtree.PartialDirs(ab, vtree.TreesOf([]*core.Entry{f1, f1x, l1}, []string{"c"}, 1)), nil, l1)
		allTrees = append(vtree.PartialDirs(ab, vtree.TreesOf([]*core.Entry{f1, f1x, l1, un}, []string{"c"}, 1)), nil, l1, un)
	case "spine":
		syncTrees = append(vtree.TreesOf([]*core.Entry{f1, f2, l1}, []string{"a"}, 3), nil)
		allTrees = append(vtree.TreesOf([]*core.Entry{f1, f2, l1, un, pb}, []string{"a"}, 3), nil)
	case "n2":
		syncTrees = append(vtree.PartialDirs([]string{"a"}, vtree.TreesOf([]*core.Entry{f1, f2}, []string{"c"}, 1)), nil)
		allTrees = append(vtree.PartialDirs([]string{"a"}, vtree.TreesOf([]*core.Entry{f1, f2, un, pb}, []string{"c"}, 1)), nil)
	case "h1":
		syncTrees = append(vtree.TreesOf([]*core.Entry{f1, f2}, ab, 1), nil)
		allTrees = append(vtree.TreesOf([]*core.Entry{f1, f2, un}, ab, 1), nil)
	default:
		vlib.Fatal("unknown shape %q", name)
	}
	return
}

func encPlan(anc, al, be []*core.Change, conf []*core.Conflict) map[string]any {
	return map[string]any{"anc": vtree.EncChanges(anc), "alpha": vtree.EncChanges(al), "beta": vtree.EncChanges(be), "conf": vtree.EncConflicts(conf)}
}

func errStr(err error) string {
	if err == nil {
		return ""
	}
	return err.Error()
}

// results converts transitions into the ancestor changes the controller folds in.
func results(ts []*core.Change, outs []*core.Entry) []*core.Change {
	var out []*core.Change
	for i, t := range ts {
		out = append(out, &core.Change{Path: t.Path, New: outs[i]})
	}
	return out
}

func news(ts []*core.Change) []*core.Entry {
	var out []*core.Entry
	for _, t := range ts {
		out = append(out, t.New)
	}
	return out
}

// cycle runs one real reconciliation + ideal application + second reconciliation.
func cycle(c *vlib.Ctx, shapeName, mode string, anc, alpha, beta *core.Entry) map[string]any {
	ac, al, be, conf := core.Reconcile(anc, alpha, beta, modes[mode])
	rec := map[string]any{
		"ev":    "Cycle",
		"shape": shapeName,
		"in":    map[string]any{"mode": mode, "anc": vtree.Enc(anc), "alpha": vtree.Enc(alpha), "beta": vtree.Enc(beta)},
		"plan":  encPlan(ac, al, be, conf),
	}
	// exactly what controller.synchronize does with complete success on both sides
	folded := append(append(append([]*core.Change{}, ac...), results(al, news(al))...), results(be, news(be))...)
	anc2, err1 := core.Apply(anc, folded)
	alpha2, err2 := core.Apply(alpha, al)
	beta2, err3 := core.Apply(beta, be)
	applied := map[string]any{"err": errStr(err1) + errStr(err2) + errStr(err3)}
	if err1 == nil && err2 == nil && err3 == nil {
		applied["anc2"] = vtree.Enc(anc2)
		applied["alpha2"] = vtree.Enc(alpha2)
		applied["beta2"] = vtree.Enc(beta2)
		applied["valid"] = anc2.EnsureValid(true) == nil
		a2, l2, b2, k2 := core.Reconcile(anc2, alpha2, beta2, modes[mode])
		rec["plan2"] = encPlan(a2, l2, b2, k2)
	} else {
		applied["anc2"] = vtree.Enc(nil)
		applied["alpha2"] = vtree.Enc(nil)
		applied["beta2"] = vtree.Enc(nil)
		applied["valid"] = false
		rec["plan2"] = encPlan(nil, nil, nil, nil)
	}
	rec["applied"] = applied
	rec["deps"] = map[string]any{"alpha": encDeps(al), "beta": encDeps(be)}
	c.Eval()
	if len(al)+len(be)+len(conf)+len(ac) > 0 {
		c.NonTrivial(rec["in"])
	}
	return rec
}

// encDeps records what core.TransitionDependencies asks to be staged for a list of transitions.
func encDeps(ts []*core.Change) []any {
	paths, digests := core.TransitionDependencies(ts)
	out := []any{}
	for i, p := range paths {
		out = append(out, map[string]any{"path": vtree.Path(p), "d": hex.EncodeToString(digests[i])})
	}
	return out
}

// subTrees mirrors Entries!SubTrees: all prefix-closed parts of e, including nil.
func subTrees(e *core.Entry) []*core.Entry {
	if e == nil {
		return []*core.Entry{nil}
	}
	if e.Kind != core.EntryKind_Directory {
		return []*core.Entry{nil, e}
	}
	names := vtree.SortedNames(e)
	out := []*core.Entry{nil}
	var rec func(i int, cur map[string]*core.Entry)
	rec = func(i int, cur map[string]*core.Entry) {
		if i == len(names) {
			cp := map[string]*core.Entry{}
			for k, v := range cur {
				cp[k] = v
			}
			out = append(out, vtree.Dir(cp))
			return
		}
		rec(i+1, cur)
		for _, s := range subTrees(e.Contents[names[i]]) {
			if s == nil {
				continue
			}
			cur[names[i]] = s
			rec(i+1, cur)
			delete(cur, names[i])
		}
	}
	rec(0, map[string]*core.Entry{})
	return out
}

// randSubTree draws a random prefix-closed part of e.
func randSubTree(r *rand.Rand, e *core.Entry) *core.Entry {
	if e == nil || r.Intn(4) == 0 {
		return nil
	}
	if e.Kind != core.EntryKind_Directory {
		return e
	}
	c := map[string]*core.Entry{}
	for _, n := range vtree.SortedNames(e) {
		if s := randSubTree(r, e.Contents[n]); s != nil {
			c[n] = s
		}
	}
	return vtree.Dir(c)
}

func nodeCount(e *core.Entry) int {
	if e == nil {
		return 0
	}
	n := 1
	for _, ch := range e.Contents {
		n += nodeCount(ch)
	}
	return n
}

func outcomesOf(ch *core.Change, rng *rand.Rand) []*core.Entry {
	seen := map[string]bool{}
	var out []*core.Entry
	var cands []*core.Entry
	if nodeCount(ch.Old)+nodeCount(ch.New) <= 9 {
		cands = append(subTrees(ch.Old), subTrees(ch.New)...)
	} else {
		cands = []*core.Entry{nil, ch.Old, ch.New}
		for i := 0; i < 6; i++ {
			cands = append(cands, randSubTree(rng, ch.Old), randSubTree(rng, ch.New))
		}
	}
	for _, e := range cands {
		b, _ := json.Marshal(vtree.Enc(e))
		if !seen[string(b)] {
			seen[string(b)] = true
			out = append(out, e)
		}
	}
	return out
}

// outcomes enumerates (up to cap) assignments of transition outcomes to the
// plan's changes and folds them into the ancestor exactly as the controller does.
func outcomes(c *vlib.Ctx, shapeName, mode string, anc, alpha, beta *core.Entry, capN int, rng *rand.Rand) {
	ac, al, be, conf := core.Reconcile(anc, alpha, beta, modes[mode])
	if len(al)+len(be) == 0 {
		return
	}
	// deterministic order of changes
	sort.Slice(al, func(i, j int) bool { return al[i].Path < al[j].Path })
	sort.Slice(be, func(i, j int) bool { return be[i].Path < be[j].Path })
	all := append(append([]*core.Change{}, al...), be...)
	choices := make([][]*core.Entry, len(all))
	total := 1
	for i, ch := range all {
		choices[i] = outcomesOf(ch, rng)
		if total < 1<<20 {
			total *= len(choices[i])
		}
	}
	emit := func(pick []int) {
		outs := make([]*core.Entry, len(all))
		for i := range all {
			outs[i] = choices[i][pick[i]]
		}
		folded := append(append(append([]*core.Change{}, ac...), results(al, outs[:len(al)])...), results(be, outs[len(al):])...)
		anc2, err := core.Apply(anc, folded)
		rec := map[string]any{
			"ev":    "Outcome",
			"shape": shapeName,
			"in":    map[string]any{"mode": mode, "anc": vtree.Enc(anc), "alpha": vtree.Enc(alpha), "beta": vtree.Enc(beta)},
			"plan":  encPlan(ac, al, be, conf),
			"err":   errStr(err),
		}
		var oa, ob []any
		for i := range al {
			oa = append(oa, vtree.Enc(outs[i]))
		}
		for i := range be {
			ob = append(ob, vtree.Enc(outs[len(al)+i]))
		}
		if oa == nil {
			oa = []any{}
		}
		if ob == nil {
			ob = []any{}
		}
		rec["outs"] = map[string]any{"alpha": oa, "beta": ob}
		if err == nil {
			rec["anc2"] = vtree.Enc(anc2)
			rec["valid"] = anc2.EnsureValid(true) == nil
		} else {
			rec["anc2"] = vtree.Enc(nil)
			rec["valid"] = false
		}
		c.Emit(rec)
		c.Eval()
		c.NonTrivial([]any{rec["in"], rec["outs"]})
		c.Sample(rec)
	}
	if total <= capN {
		pick := make([]int, len(all))
		for {
			emit(pick)
			i := 0
			for i < len(pick) {
				pick[i]++
				if pick[i] < len(choices[i]) {
					break
				}
				pick[i] = 0
				i++
			}
			if i == len(pick) {
				break
			}
		}
	} else {
		for n := 0; n < capN; n++ {
			pick := make([]int, len(all))
			for i := range pick {
				pick[i] = rng.Intn(len(choices[i]))
			}
			emit(pick)
		}
	}
}

// --- random larger trees ---------------------------------------------------

var rnames = []string{"a", "b", "c", "d", "e"}

func randLeaf(r *rand.Rand, unsync bool) *core.Entry {
	n := 7
	if unsync {
		n = 10
	}
	switch r.Intn(n) {
	case 0, 1, 2:
		return vtree.File(byte(1+r.Intn(4)), false)
	case 3:
		return vtree.File(byte(1+r.Intn(4)), true)
	case 4, 5:
		return vtree.Link(fmt.Sprintf("t%d", 1+r.Intn(3)))
	case 6:
		return vtree.Dir(nil)
	case 7, 8:
		return vtree.Untracked()
	default:
		return vtree.Problem(fmt.Sprintf("boom%d", r.Intn(2)))
	}
}

func randTree(r *rand.Rand, depth int, unsync bool) *core.Entry {
	if depth <= 0 || r.Intn(3) == 0 {
		return randLeaf(r, unsync)
	}
	c := map[string]*core.Entry{}
	for _, n := range rnames[:2+r.Intn(3)] {
		if r.Intn(3) != 0 {
			c[n] = randTree(r, depth-1, unsync)
		}
	}
	return vtree.Dir(c)
}

// mutate returns a randomly edited deep copy of e (never mutating e).
func mutate(r *rand.Rand, e *core.Entry, depth int, unsync bool) *core.Entry {
	if e == nil || e.Kind != core.EntryKind_Directory || r.Intn(5) == 0 {
		switch r.Intn(4) {
		case 0:
			return nil
		case 1:
			return randTree(r, depth, unsync)
		default:
			return e.Copy(core.EntryCopyBehaviorDeep)
		}
	}
	out := map[string]*core.Entry{}
	for _, n := range vtree.SortedNames(e) {
		ch := e.Contents[n]
		switch r.Intn(6) {
		case 0: // delete
		case 1:
			out[n] = mutate(r, ch, depth-1, unsync)
			if out[n] == nil {
				delete(out, n)
			}
		case 2:
			out[n] = randLeaf(r, unsync)
		default:
			out[n] = ch.Copy(core.EntryCopyBehaviorDeep)
		}
	}
	if r.Intn(3) == 0 {
		out[rnames[r.Intn(len(rnames))]] = randTree(r, max(depth-1, 0), unsync)
	}
	return vtree.Dir(out)
}

func randTriple(r *rand.Rand) (anc, alpha, beta *core.Entry) {
	depth := 2 + r.Intn(3)
	if r.Intn(8) == 0 {
		anc = nil
	} else {
		anc = randTree(r, depth, false)
	}
	alpha = mutate(r, anc, depth, true)
	beta = mutate(r, anc, depth, true)
	if r.Intn(4) == 0 {
		beta = mutate(r, alpha, depth, true)
	}
	return
}

// --- C07 algebra ------------------------------------------------------------

func algebra(c *vlib.Ctx, shapeName string, a, b *core.Entry) map[string]any {
	d := core.Diff(a, b)
	ap, aerr := core.Apply(a, d)
	sd := core.Diff(a, a)
	rec := map[string]any{
		"ev": "Algebra", "shape": shapeName,
		"in":       map[string]any{"a": vtree.Enc(a), "b": vtree.Enc(b)},
		"diff":     vtree.EncChanges(d),
		"applyErr": errStr(aerr),
		"applied":  vtree.Enc(ap),
		"selfdiff": vtree.EncChanges(sd),
		"sync":     vtree.Enc(core.VerifSynchronizable(a)),
		"count":    int(a.Count()),
		"eqSelf":   a.Equal(a.Copy(core.EntryCopyBehaviorDeep), true),
		"eqOther":  a.Equal(b, true),
	}
	copies := map[string]any{}
	indep := map[string]any{}
	for name, beh := range map[string]core.EntryCopyBehavior{
		"deep": core.EntryCopyBehaviorDeep, "leaves": core.EntryCopyBehaviorDeepPreservingLeaves,
		"shallow": core.EntryCopyBehaviorShallow, "slim": core.EntryCopyBehaviorSlim,
	} {
		orig := vtree.Dec(vtree.Enc(a)) // private original we are free to mutate
		cp := orig.Copy(beh)
		copies[name] = vtree.Enc(cp)
		// later changes to the original: mutate it in the way each copy kind promises to survive
		switch name {
		case "deep":
			scribble(orig, true)
		case "leaves":
			scribble(orig, false)
		case "shallow", "slim":
			if orig != nil && orig.Contents != nil {
				for n := range orig.Contents {
					delete(orig.Contents, n)
				}
				orig.Contents["zz"] = vtree.File(9, true)
			}
			if orig != nil {
				orig.Executable = !orig.Executable
			}
		}
		indep[name] = vtree.Enc(cp)
	}
	rec["copies"] = copies
	rec["after"] = indep
	c.Eval()
	if len(d) > 0 {
		c.NonTrivial(rec["in"])
	}
	return rec
}

// scribble mutates every directory map (and, if leaves is set, every leaf) of e in place.
func scribble(e *core.Entry, leaves bool) {
	if e == nil {
		return
	}
	if e.Kind == core.EntryKind_Directory || e.Kind == core.EntryKind_PhantomDirectory {
		for _, ch := range e.Contents {
			scribble(ch, leaves)
		}
		if e.Contents == nil {
			e.Contents = map[string]*core.Entry{}
		}
		for n := range e.Contents {
			if strings.HasPrefix(n, "b") {
				delete(e.Contents, n)
			}
		}
		e.Contents["zz"] = vtree.File(9, true)
		return
	}
	if leaves {
		e.Executable = !e.Executable
		e.Digest = []byte{0xee}
		e.Target = e.Target + "x"
		e.Problem = e.Problem + "x"
	}
}

// --- C18 executability ------------------------------------------------------

func stripExec(e *core.Entry) *core.Entry {
	if e == nil {
		return nil
	}
	cp := e.Copy(core.EntryCopyBehaviorDeep)
	var walk func(x *core.Entry)
	walk = func(x *core.Entry) {
		if x == nil {
			return
		}
		x.Executable = false
		for _, ch := range x.Contents {
			walk(ch)
		}
	}
	walk(cp)
	return cp
}

func execCycle(c *vlib.Ctx, shapeName, mode, pside string, anc, p, n *core.Entry) map[string]any {
	n = stripExec(n) // what a non-preserving endpoint's scan reports
	var nprop *core.Entry
	if n != nil {
		nprop = core.PropagateExecutability(anc, p, n)
	}
	alpha, beta := p, nprop
	if pside == "beta" {
		alpha, beta = nprop, p
	}
	ac, al, be, conf := core.Reconcile(anc, alpha, beta, modes[mode])
	rec := map[string]any{
		"ev": "ExecCycle", "shape": shapeName,
		"in":    map[string]any{"mode": mode, "pside": pside, "anc": vtree.Enc(anc), "p": vtree.Enc(p), "n": vtree.Enc(n)},
		"nprop": vtree.Enc(nprop),
		"plan":  encPlan(ac, al, be, conf),
	}
	c.Eval()
	pc := al
	if pside == "beta" {
		pc = be
	}
	if len(pc) > 0 {
		c.NonTrivial(rec["in"])
	}
	return rec
}

// ---------------------------------------------------------------------------

func run(c *vlib.Ctx) error {
	shapes := []string{"d1", "n2"}
	ms := modeNames
	nRandom := 3000
	switch c.Prop {
	case "C01":
		ms = []string{"tws"}
	}
	if c.Thorough() {
		shapes = []string{"d1", "n2", "d2", "d2x", "spine"}
		nRandom = 150000
	}
	for _, a := range c.Args {
		if strings.HasPrefix(a, "shapes=") {
			shapes = strings.Split(strings.TrimPrefix(a, "shapes="), ",")
		}
	}
	exhaustive := true
	enumerated := 0
	switch c.Prop {
	case "C01", "C02", "C03", "C04", "C06":
		for _, sh := range shapes {
			st, at := shape(sh)
			for _, m := range ms {
				for _, anc := range st {
					for _, al := range at {
						for _, be := range at {
							rec := cycle(c, sh, m, anc, al, be)
							c.Emit(rec)
							enumerated++
							if enumerated%50021 == 1 {
								c.Sample(rec)
							}
						}
					}
				}
			}
		}
		for i := 0; i < nRandom; i++ {
			anc, al, be := randTriple(c.Rand)
			m := ms[c.Rand.Intn(len(ms))]
			rec := cycle(c, "rand", m, anc, al, be)
			c.Emit(rec)
			if i == 0 {
				c.Sample(rec)
			}
		}
	case "C05":
		capN := 64
		if c.Thorough() {
			capN = 256
		}
		for _, sh := range shapes {
			if sh == "d2" || sh == "d2x" || sh == "spine" {
				// sample every 7th triple of the large shapes
			}
			st, at := shape(sh)
			step := 1
			if sh != "d1" {
				step = 5
			} else if !c.Thorough() {
				step = 4
			}
			k := 0
			for _, m := range ms {
				for _, anc := range st {
					for _, al := range at {
						for _, be := range at {
							k++
							if (k+int(c.Seed))%step != 0 {
								continue
							}
							outcomes(c, sh, m, anc, al, be, capN, c.Rand)
							enumerated++
						}
					}
				}
			}
			if step != 1 {
				exhaustive = false
			}
		}
		for i := 0; i < nRandom/3; i++ {
			anc, al, be := randTriple(c.Rand)
			outcomes(c, "rand", ms[c.Rand.Intn(len(ms))], anc, al, be, 12, c.Rand)
		}
	case "C07":
		for _, sh := range shapes {
			_, at := shape(sh)
			if sh != "d1" && sh != "h1" {
				// bound the pair space of the large shapes by a seeded stride
				at = stride(at, 3, int(c.Seed))
				exhaustive = false
			}
			// add phantom variants of every directory so that the filter is exercised on them
			at = withPhantoms(at)
			for _, a := range at {
				for _, b := range at {
					rec := algebra(c, sh, a, b)
					c.Emit(rec)
					enumerated++
					if enumerated%20011 == 1 {
						c.Sample(rec)
					}
				}
			}
		}
		for i := 0; i < nRandom; i++ {
			a := randTree(c.Rand, 2+c.Rand.Intn(3), true)
			var b *core.Entry
			if c.Rand.Intn(2) == 0 {
				b = mutate(c.Rand, a, 3, true)
			} else {
				b = randTree(c.Rand, 2+c.Rand.Intn(3), true)
			}
			if c.Rand.Intn(3) == 0 {
				a = phantomise(a, c.Rand)
			}
			c.Emit(algebra(c, "rand", a, b))
		}
	case "C18":
		xs := []string{"d1"}
		if c.Thorough() {
			xs = []string{"d1", "d2x"}
		}
		for _, sh := range xs {
			st, _ := shape(sh)
			// both endpoints hold synchronizable content here; unsynchronizable content is C03's business
			for _, m := range ms {
				for _, ps := range []string{"alpha", "beta"} {
					for _, anc := range st {
						for _, p := range st {
							for _, n := range st {
								rec := execCycle(c, sh, m, ps, anc, p, n)
								c.Emit(rec)
								enumerated++
								if enumerated%40009 == 1 {
									c.Sample(rec)
								}
							}
						}
					}
				}
			}
		}
		for i := 0; i < nRandom; i++ {
			anc, al, be := randTriple(c.Rand)
			ps := []string{"alpha", "beta"}[c.Rand.Intn(2)]
			c.Emit(execCycle(c, "rand", modeNames[c.Rand.Intn(4)], ps, anc, core.VerifSynchronizable(al), core.VerifSynchronizable(be)))
		}
	default:
		return fmt.Errorf("driver core does not serve %s", c.Prop)
	}
	c.SetExhaustive(exhaustive)
	c.SetExtra("enumerated_in_shapes", enumerated)
	c.SetExtra("shapes", shapes)
	c.SetExtra("random_beyond_bound", nRandom)
	return nil
}

func stride(xs []*core.Entry, k, off int) []*core.Entry {
	var out []*core.Entry
	for i, x := range xs {
		if (i+off)%k == 0 {
			out = append(out, x)
		}
	}
	return out
}

func withPhantoms(xs []*core.Entry) []*core.Entry {
	out := append([]*core.Entry{}, xs...)
	for _, x := range xs {
		if x != nil && x.Kind == core.EntryKind_Directory {
			for _, n := range vtree.SortedNames(x) {
				ch := x.Contents[n]
				if ch.Kind == core.EntryKind_Directory {
					cp := x.Copy(core.EntryCopyBehaviorDeep)
					cp.Contents[n].Kind = core.EntryKind_PhantomDirectory
					out = append(out, cp)
				}
			}
		}
	}
	return out
}

func phantomise(e *core.Entry, r *rand.Rand) *core.Entry {
	cp := e.Copy(core.EntryCopyBehaviorDeep)
	var walk func(x *core.Entry, root bool)
	walk = func(x *core.Entry, root bool) {
		if x == nil || x.Kind != core.EntryKind_Directory {
			return
		}
		for _, ch := range x.Contents {
			walk(ch, false)
		}
		if !root && r.Intn(3) == 0 {
			x.Kind = core.EntryKind_PhantomDirectory
		}
	}
	walk(cp, true)
	return cp
}

func replay(c *vlib.Ctx) error {
	doc := c.LoadReplay()
	begin := doc["begin"].(map[string]any)
	in := begin["in"].(map[string]any)
	sh, _ := begin["shape"].(string)
	switch begin["ev"] {
	case "Cycle":
		c.Emit(cycle(c, sh, in["mode"].(string), vtree.Dec(in["anc"]), vtree.Dec(in["alpha"]), vtree.Dec(in["beta"])))
	case "Outcome":
		outcomes(c, sh, in["mode"].(string), vtree.Dec(in["anc"]), vtree.Dec(in["alpha"]), vtree.Dec(in["beta"]), 4096, c.Rand)
	case "Algebra":
		c.Emit(algebra(c, sh, vtree.Dec(in["a"]), vtree.Dec(in["b"])))
	case "ExecCycle":
		c.Emit(execCycle(c, sh, in["mode"].(string), in["pside"].(string), vtree.Dec(in["anc"]), vtree.Dec(in["p"]), vtree.Dec(in["n"])))
	default:
		return fmt.Errorf("cannot replay event %v", begin["ev"])
	}
	return nil
}

func main() { vlib.Main(run, replay) }
