package main

import (
	"context"
	"errors"
	"math/rand"
	"sort"
	"sync"
	"sync/atomic"
	"time"

	"github.com/mutagen-io/mutagen/pkg/state"

	"verif/harness/internal/vlib"
)

// top is one step of a tracker script, executed by the director goroutine.
//
//	wait      start WaitForChange in its own goroutine; Rel selects the previous index relative to an
//	          index the director reads immediately before: zero (0), cur (the value read), stale (value-D,
//	          or value+1000 if that is below 1), future (value+D)
//	          huge (2147483000); Pre: its context is already cancelled when the call begins
//	notify    N x NotifyOfChange (Async: in its own goroutine)
//	unlockq   TrackingLock: Lock, UnlockWithoutNotify
//	unlock    TrackingLock: Lock, read index, Unlock, read index (Async: in its own goroutine)
//	cancel    cancel the context of wait W
//	terminate Terminate (Async: in its own goroutine)
//	settle    wait for the asynchronous notify/unlock/terminate goroutines started so far
//	collide   cancel the context of wait W and, from another goroutine at nearly the same instant, make the
//	          change Kind (notify, unlock, terminate); First (cancel|change) gets a head start of Us microseconds
//	join      wait (watchdog) for wait W to return
//	sleep     Us microseconds (0: yield)
type top struct {
	Op    string `json:"op"`
	W     int    `json:"w"`
	Rel   string `json:"rel,omitempty"`
	D     int    `json:"d,omitempty"`
	N     int    `json:"n,omitempty"`
	Async bool   `json:"async,omitempty"`
	Us    int    `json:"us,omitempty"`
	Kind  string `json:"kind,omitempty"`  // collide: notify, unlock, terminate
	First string `json:"first,omitempty"` // collide: cancel or change
	Pre   bool   `json:"pre,omitempty"`   // wait: the context is cancelled before the call
}

const trackerWatchdog = 6 * time.Second

type twait struct {
	id       int
	prev     uint64
	t0, t1   int64
	idx      uint64
	err      string
	returned bool
	started  bool
	done     chan struct{}
	cancel   context.CancelFunc
	c0, c1   int64
	gaveUp   bool
}

func errName(err error) string {
	switch {
	case err == nil:
		return "ok"
	case errors.Is(err, state.ErrTrackingTerminated):
		return "terminated"
	case errors.Is(err, context.Canceled):
		return "canceled"
	}
	return "other:" + asciiOnly(err.Error())
}

// tcase is one script execution on one fresh tracker. No real call is made on
// the director goroutine: every call of the tracker or the tracking lock runs
// in its own goroutine under a watchdog (guard); a call that does not come back
// is recorded as not returned, the tracker is given up (dead) and the stuck
// goroutines are leaked, so the case and the run always finish.
type tcase struct {
	tracker *state.Tracker
	lock    *state.TrackingLock
	k       clock
	mu      sync.Mutex
	calls   []map[string]any
	over    atomic.Bool // a watchdog expired in this case: later ones are waited out only briefly
	dead    atomic.Bool // a call that cannot legitimately block did not return: stop using the tracker
}

func (tc *tcase) add(m map[string]any) { tc.mu.Lock(); tc.calls = append(tc.calls, m); tc.mu.Unlock() }

func (tc *tcase) watchdog() time.Duration {
	if tc.over.Load() {
		return 300 * time.Millisecond
	}
	return trackerWatchdog
}

// guard runs f in its own goroutine. If f returns, the stamps are taken
// immediately around it; otherwise t0 is the stamp before the goroutine was
// started, t1 the time the director gave up, and the tracker is marked dead.
func (tc *tcase) guard(f func()) (t0, t1 int64, ok bool) {
	var s0, s1 int64
	done := make(chan struct{})
	outer := tc.k.us()
	go func() {
		s0 = tc.k.us()
		f()
		s1 = tc.k.us()
		close(done)
	}()
	if waitOrTimeout(done, tc.watchdog()) {
		return s0, s1, true
	}
	tc.over.Store(true)
	tc.dead.Store(true)
	return outer, tc.k.us(), false
}

// read is WaitForChange(ctx, 0): recorded like any other wait.
func (tc *tcase) read() (uint64, bool) {
	var idx uint64
	var err error
	t0, t1, ok := tc.guard(func() { idx, err = tc.tracker.WaitForChange(context.Background(), 0) })
	rec := map[string]any{"op": "wait", "w": -1, "prev": 0, "t0": t0, "t1": t1, "ret": ok, "idx": 0, "err": "none", "c0": -1, "c1": -1}
	if !ok {
		tc.add(rec)
		return 0, false
	}
	rec["idx"], rec["err"] = idx, errName(err)
	tc.add(rec)
	return idx, true
}

func (tc *tcase) notify(n int) {
	for i := 0; i < n && !tc.dead.Load(); i++ {
		t0, t1, ok := tc.guard(tc.tracker.NotifyOfChange)
		tc.add(map[string]any{"op": "notify", "t0": t0, "t1": t1, "ret": ok})
	}
}

func (tc *tcase) unlock() {
	if _, _, ok := tc.guard(tc.lock.Lock); !ok {
		return
	}
	before, okb := tc.read()
	t0, t1, oku := tc.guard(tc.lock.Unlock) // always try to release
	if !oku {
		tc.add(map[string]any{"op": "unlock", "t0": t0, "t1": t1, "ret": false, "before": before, "after": 0})
		return
	}
	after, oka := tc.read()
	if okb && oka {
		tc.add(map[string]any{"op": "unlock", "t0": t0, "t1": t1, "ret": true, "before": before, "after": after})
	} else { // the notification happened, the index reads around it are missing
		tc.add(map[string]any{"op": "notify", "t0": t0, "t1": t1, "ret": true})
	}
}

func (tc *tcase) terminate() {
	t0, t1, ok := tc.guard(tc.tracker.Terminate)
	tc.add(map[string]any{"op": "terminate", "t0": t0, "t1": t1, "ret": ok})
}

// spin busy-waits for about us microseconds (offsets far below the sleep granularity).
func spin(us int) {
	for t := time.Now(); time.Since(t) < time.Duration(us)*time.Microsecond; {
	}
}

// trackerCase executes one script on a fresh tracker and returns the record.
func trackerCase(script []top) map[string]any {
	tracker := state.NewTracker()
	tc := &tcase{tracker: tracker, lock: state.NewTrackingLock(tracker), k: newClock()}
	k := tc.k
	mu := &tc.mu
	waits := map[int]*twait{}
	var order []*twait
	var async []chan struct{}
	spawn := func(f func()) chan struct{} {
		done := make(chan struct{})
		async = append(async, done)
		go func() { defer close(done); f() }()
		return done
	}
	change := func(kind string, n int) {
		switch kind {
		case "unlock":
			tc.unlock()
		case "terminate":
			tc.terminate()
		default:
			tc.notify(n)
		}
	}
	cancelWait := func(w *twait) {
		c0 := k.us()
		w.cancel()
		c1 := k.us()
		mu.Lock()
		if w.c0 < 0 {
			w.c0, w.c1 = c0, c1
		}
		mu.Unlock()
	}

	for _, op := range script {
		if tc.dead.Load() {
			break
		}
		switch op.Op {
		case "wait":
			w := &twait{id: op.W, done: make(chan struct{}), c0: -1, c1: -1}
			if op.Rel != "zero" {
				cur, ok := tc.read()
				if !ok {
					continue
				}
				switch op.Rel {
				case "cur":
					w.prev = cur
				case "stale":
					if cur > uint64(op.D) {
						w.prev = cur - uint64(op.D)
					} else {
						w.prev = cur + 1000
					}
				case "future":
					w.prev = cur + uint64(op.D)
				case "huge":
					w.prev = 2147483000
				}
			}
			ctx, cancel := context.WithCancel(context.Background())
			w.cancel = cancel
			waits[op.W] = w
			order = append(order, w)
			if op.Pre {
				cancelWait(w)
			}
			go func() {
				t0 := k.us()
				mu.Lock()
				w.t0, w.started = t0, true
				mu.Unlock()
				idx, err := tracker.WaitForChange(ctx, w.prev)
				t1 := k.us()
				mu.Lock()
				w.t1, w.idx, w.err, w.returned = t1, idx, errName(err), true
				mu.Unlock()
				close(w.done)
			}()
		case "notify", "unlock", "terminate":
			kind, n := op.Op, op.N
			if op.Async {
				spawn(func() { change(kind, n) })
			} else {
				change(kind, n)
			}
		case "unlockq":
			if _, _, ok := tc.guard(tc.lock.Lock); ok {
				t0, t1, oku := tc.guard(tc.lock.UnlockWithoutNotify)
				tc.add(map[string]any{"op": "unlockq", "t0": t0, "t1": t1, "ret": oku})
			}
		case "cancel":
			if w := waits[op.W]; w != nil {
				cancelWait(w)
			}
		case "collide":
			// cancel the context of wait W and make a change at (nearly) the same instant from another
			// goroutine; First says which of the two goes first, Us is the head start in microseconds
			w := waits[op.W]
			if w == nil {
				continue
			}
			start := make(chan struct{})
			kind, first, off := op.Kind, op.First, op.Us
			a := spawn(func() {
				<-start
				if first != "cancel" {
					spin(off)
				}
				cancelWait(w)
			})
			b := spawn(func() {
				<-start
				if first == "cancel" {
					spin(off)
				}
				change(kind, 1)
			})
			close(start)
			waitOrTimeout(a, trackerWatchdog+4*time.Second)
			waitOrTimeout(b, trackerWatchdog+4*time.Second)
		case "settle":
			for _, d := range async {
				waitOrTimeout(d, trackerWatchdog+4*time.Second)
			}
			async = nil
		case "join":
			if w := waits[op.W]; w != nil && !w.gaveUp {
				// one overrun per case is waited out in full, later ones only briefly
				if !waitOrTimeout(w.done, tc.watchdog()) {
					w.gaveUp = true
					tc.over.Store(true)
				}
			}
		case "sleep":
			if op.Us == 0 {
				time.Sleep(0)
			} else {
				time.Sleep(time.Duration(op.Us) * time.Microsecond)
			}
		}
	}
	for _, d := range async {
		waitOrTimeout(d, trackerWatchdog+4*time.Second)
	}
	if tc.dead.Load() {
		// the tracker was given up while waits may still be out: give them the time a wait gets anyway
		// (cut short once watchdogs have expired before), so that what they did is on record
		for _, w := range order {
			if !w.gaveUp && !waitOrTimeout(w.done, tc.watchdog()) {
				w.gaveUp = true
			}
		}
	}
	// assemble the wait records; a wait that has not returned is recorded as such with the give-up time
	end := k.us()
	mu.Lock()
	for _, w := range order {
		rec := map[string]any{"op": "wait", "w": w.id, "prev": w.prev, "c0": w.c0, "c1": w.c1}
		if w.returned {
			rec["t0"], rec["t1"], rec["ret"], rec["idx"], rec["err"] = w.t0, w.t1, true, w.idx, w.err
		} else {
			// a goroutine that never got to stamp its start is recorded as starting now
			t0 := end
			if w.started {
				t0 = w.t0
			}
			rec["t0"], rec["t1"], rec["ret"], rec["idx"], rec["err"] = t0, end, false, 0, "none"
		}
		tc.calls = append(tc.calls, rec)
	}
	out := append([]map[string]any{}, tc.calls...)
	mu.Unlock()
	// release whatever is left; stuck goroutines are leaked
	for _, w := range order {
		w.cancel()
	}
	go tracker.Terminate()
	sort.SliceStable(out, func(i, j int) bool { return out[i]["t0"].(int64) < out[j]["t0"].(int64) })
	return map[string]any{"ev": "TrackerCase", "calls": out, "dead": tc.dead.Load()}
}

// genCollisionScript builds a case that consists of rounds of the same
// collision: a waiter parks on the current index; then its context is cancelled
// and, at nearly the same instant from another goroutine, the index is changed
// (NotifyOfChange or TrackingLock.Unlock) or tracking is terminated - in both
// orders, with head starts of 0-50 microseconds. After the collision the wait
// has to return (its context is cancelled), so it is joined.
func genCollisionScript(r *rand.Rand, deep bool) []top {
	rounds := 5 + r.Intn(8)
	if deep {
		rounds = 8 + r.Intn(16)
	}
	termLast := r.Intn(5) == 0
	var s []top
	for i := 0; i < rounds; i++ {
		s = append(s, top{Op: "wait", W: i, Rel: "cur"})
		s = append(s, top{Op: "sleep", Us: []int{0, 0, 20, 50, 150, 400}[r.Intn(6)]})
		kind := "notify"
		if r.Intn(4) == 0 {
			kind = "unlock"
		}
		if termLast && i == rounds-1 {
			kind = "terminate"
		}
		first := "cancel"
		if r.Intn(2) == 0 {
			first = "change"
		}
		s = append(s, top{Op: "collide", W: i, Kind: kind, First: first, Us: []int{0, 0, 1, 2, 3, 5, 8, 12, 20, 50}[r.Intn(10)]})
		s = append(s, top{Op: "join", W: i})
	}
	s = append(s, top{Op: "settle"})
	return s
}

// genTrackerScript builds a random script. The generator keeps a simple
// expectation of which waits are bound to return ("due") only to decide where
// a join costs nothing; the expectation is not recorded and plays no part in
// any verdict.
func genTrackerScript(r *rand.Rand, deep bool) []top {
	nops := 4 + r.Intn(12)
	if deep {
		nops = 8 + r.Intn(30)
	}
	type ws struct{ due, asyncAfter bool }
	out := map[int]*ws{}
	var s []top
	nextW := 0
	terminated := false
	asyncPending := false
	allDue := func() {
		for _, w := range out {
			w.due = true
		}
	}
	keys := func(pred func(*ws) bool) []int {
		var ks []int
		for id, w := range out {
			if pred(w) {
				ks = append(ks, id)
			}
		}
		sort.Ints(ks)
		return ks
	}
	for i := 0; i < nops; i++ {
		x := r.Intn(100)
		switch {
		case x < 30:
			rel := "cur"
			d := 0
			switch y := r.Intn(100); {
			case y < 10:
				rel = "zero"
			case y < 50:
				rel = "cur"
			case y < 78:
				rel, d = "stale", 1+r.Intn(3)
			case y < 95:
				rel, d = "future", 500+r.Intn(40)
			default:
				rel = "huge"
			}
			pre := r.Intn(10) == 0
			s = append(s, top{Op: "wait", W: nextW, Rel: rel, D: d, Pre: pre})
			out[nextW] = &ws{due: rel != "cur" || terminated || pre}
			nextW++
		case x < 52:
			as := r.Intn(3) == 0
			s = append(s, top{Op: "notify", N: 1 + r.Intn(3), Async: as})
			if as {
				asyncPending = true
				for _, w := range out {
					w.asyncAfter = true
				}
			} else {
				allDue()
			}
		case x < 62:
			as := r.Intn(3) == 0
			s = append(s, top{Op: "unlock", Async: as})
			if as {
				asyncPending = true
				for _, w := range out {
					w.asyncAfter = true
				}
			} else {
				allDue()
			}
		case x < 70:
			if ks := keys(func(w *ws) bool { return true }); len(ks) > 0 {
				id := ks[r.Intn(len(ks))]
				s = append(s, top{Op: "cancel", W: id})
				out[id].due = true
			}
		case x < 74:
			as := r.Intn(2) == 0
			s = append(s, top{Op: "terminate", Async: as})
			if as {
				asyncPending = true
				for _, w := range out {
					w.asyncAfter = true
				}
			} else {
				terminated = true
				allDue()
			}
		case x < 80:
			if asyncPending {
				s = append(s, top{Op: "settle"})
				asyncPending = false
				for _, w := range out {
					if w.asyncAfter {
						w.due = true
					}
				}
			}
		case x < 92:
			if ks := keys(func(w *ws) bool { return w.due }); len(ks) > 0 {
				id := ks[r.Intn(len(ks))]
				s = append(s, top{Op: "join", W: id})
				delete(out, id)
			}
		case x < 95:
			s = append(s, top{Op: "unlockq"})
		default:
			s = append(s, top{Op: "sleep", Us: []int{0, 0, 20, 200, 1000}[r.Intn(5)]})
		}
	}
	// release and collect everything that is left
	s = append(s, top{Op: "settle"})
	for _, w := range out {
		if w.asyncAfter {
			w.due = true
		}
	}
	rest := keys(func(w *ws) bool { return !w.due })
	if len(rest) > 0 {
		if r.Intn(2) == 0 {
			s = append(s, top{Op: "terminate"})
		} else {
			for _, id := range rest {
				s = append(s, top{Op: "cancel", W: id})
			}
		}
	}
	for _, id := range keys(func(w *ws) bool { return true }) {
		s = append(s, top{Op: "join", W: id})
	}
	return s
}

func emitTrackerCase(c *vlib.Ctx, cid int, script []top, rec map[string]any) {
	rec["cid"] = cid
	rec["in"] = map[string]any{"script": script}
	if rec["dead"] == true {
		c.AddExtra("cases_tracker_given_up", 1)
	}
	c.Emit(rec)
	c.Eval()
	c.TraceDone()
	// non-trivial: a wait on a non-zero previous index returned nil with a different index
	for _, m := range rec["calls"].([]map[string]any) {
		if m["op"] == "wait" && m["ret"] == true && m["err"] == "ok" {
			if p, ok := m["prev"].(uint64); ok && p != 0 {
				c.NonTrivial(hashOf(script))
				break
			}
		}
	}
	if cid < 3 {
		c.Sample(rec)
	}
}

func runTracker(c *vlib.Ctx) error {
	n := argInt(c, "cases", 600)
	deep := argInt(c, "deep", 0) == 1
	par := argInt(c, "par", 6)
	scripts := make([][]top, n)
	collisions := 0
	for i := range scripts {
		if i%2 == 1 {
			scripts[i] = genCollisionScript(caseRand(c.Seed, i), deep)
			for _, op := range scripts[i] {
				if op.Op == "collide" {
					collisions++
				}
			}
		} else {
			scripts[i] = genTrackerScript(caseRand(c.Seed, i), deep)
		}
	}
	c.SetExtra("cancel_vs_change_collisions", collisions)
	recs := parallel(n, par, func(i int) map[string]any { return trackerCase(scripts[i]) })
	for i, rec := range recs {
		if rec == nil {
			c.AddExtra("cases_skipped_after_overruns", 1)
			continue
		}
		emitTrackerCase(c, i, scripts[i], rec)
	}
	c.SetExtra("cases", n)
	return nil
}

func replayTracker(c *vlib.Ctx, begin map[string]any) error {
	var in struct {
		Script []top `json:"script"`
	}
	vlib.Decode(begin["in"], &in)
	// the failing schedule is a race: run the same script repeatedly, until a watchdog expired
	for i := 0; i < 60; i++ {
		before := overruns.Load()
		rec := trackerCase(in.Script)
		emitTrackerCase(c, i, in.Script, rec)
		if overruns.Load() > before {
			break
		}
	}
	return nil
}
