package main

import (
	"context"
	"errors"
	"math/rand"
	"sort"
	"sync"
	"time"

	"github.com/mutagen-io/mutagen/pkg/state"

	"verif/harness/internal/vlib"
)

// top is one step of a tracker script, executed by the director goroutine.
//
//	wait      start WaitForChange in its own goroutine; Rel selects the previous index relative to an
//	          index the director reads immediately before: zero (0), cur (the value read), stale (value-D,
//	          or value+1000 if that is below 1), future (value+D)
//	notify    N x NotifyOfChange (Async: in its own goroutine)
//	unlock    TrackingLock: Lock, read index, Unlock, read index (Async: in its own goroutine)
//	cancel    cancel the context of wait W
//	terminate Terminate (Async: in its own goroutine)
//	settle    wait for the asynchronous notify/unlock/terminate goroutines started so far
//	join      wait (watchdog) for wait W to return
//	sleep     Us microseconds (0: yield)
type top struct {
	Op    string `json:"op"`
	W     int    `json:"w"`
	Rel   string `json:"rel,omitempty"`
	D     int    `json:"d,omitempty"`
	N     int    `json:"n,omitempty"`
	Async bool   `json:"async,omitempty"`
	Us    int    `json:"us,omitempty"`
}

const trackerWatchdog = 6 * time.Second

type twait struct {
	id       int
	prev     uint64
	t0, t1   int64
	idx      uint64
	err      string
	returned bool
	started  bool
	done     chan struct{}
	cancel   context.CancelFunc
	c0, c1   int64
	gaveUp   bool
}

func errName(err error) string {
	switch {
	case err == nil:
		return "ok"
	case errors.Is(err, state.ErrTrackingTerminated):
		return "terminated"
	case errors.Is(err, context.Canceled):
		return "canceled"
	}
	return "other:" + err.Error()
}

// trackerCase executes one script on a fresh tracker and returns the record.
func trackerCase(script []top) map[string]any {
	tracker := state.NewTracker()
	lock := state.NewTrackingLock(tracker)
	k := newClock()
	var mu sync.Mutex
	var calls []map[string]any
	add := func(m map[string]any) { mu.Lock(); calls = append(calls, m); mu.Unlock() }
	waits := map[int]*twait{}
	var order []*twait
	var async []chan struct{}
	caseOver := false

	read := func() uint64 {
		t0 := k.us()
		idx, err := tracker.WaitForChange(context.Background(), 0)
		t1 := k.us()
		add(map[string]any{"op": "wait", "w": -1, "prev": 0, "t0": t0, "t1": t1, "ret": true, "idx": idx, "err": errName(err), "c0": -1, "c1": -1})
		return idx
	}
	notify := func(n int) {
		for i := 0; i < n; i++ {
			t0 := k.us()
			tracker.NotifyOfChange()
			t1 := k.us()
			add(map[string]any{"op": "notify", "t0": t0, "t1": t1})
		}
	}
	unlock := func() {
		lock.Lock()
		before := read()
		t0 := k.us()
		lock.Unlock()
		t1 := k.us()
		after := read()
		add(map[string]any{"op": "unlock", "t0": t0, "t1": t1, "before": before, "after": after})
	}
	terminate := func() {
		t0 := k.us()
		done := make(chan struct{})
		go func() { tracker.Terminate(); close(done) }()
		ok := waitOrTimeout(done, trackerWatchdog)
		add(map[string]any{"op": "terminate", "t0": t0, "t1": k.us(), "ret": ok})
	}
	spawn := func(f func()) {
		done := make(chan struct{})
		async = append(async, done)
		go func() { defer close(done); f() }()
	}

	for _, op := range script {
		switch op.Op {
		case "wait":
			w := &twait{id: op.W, done: make(chan struct{}), c0: -1, c1: -1}
			if op.Rel != "zero" {
				cur := read()
				switch op.Rel {
				case "cur":
					w.prev = cur
				case "stale":
					if cur > uint64(op.D) {
						w.prev = cur - uint64(op.D)
					} else {
						w.prev = cur + 1000
					}
				case "future":
					w.prev = cur + uint64(op.D)
				}
			}
			ctx, cancel := context.WithCancel(context.Background())
			w.cancel = cancel
			waits[op.W] = w
			order = append(order, w)
			go func() {
				t0 := k.us()
				mu.Lock()
				w.t0, w.started = t0, true
				mu.Unlock()
				idx, err := tracker.WaitForChange(ctx, w.prev)
				t1 := k.us()
				mu.Lock()
				w.t1, w.idx, w.err, w.returned = t1, idx, errName(err), true
				mu.Unlock()
				close(w.done)
			}()
		case "notify":
			n := op.N
			if op.Async {
				spawn(func() { notify(n) })
			} else {
				notify(n)
			}
		case "unlock":
			if op.Async {
				spawn(unlock)
			} else {
				unlock()
			}
		case "cancel":
			if w := waits[op.W]; w != nil && w.c0 < 0 {
				c0 := k.us()
				w.cancel()
				c1 := k.us()
				mu.Lock()
				w.c0, w.c1 = c0, c1
				mu.Unlock()
			}
		case "terminate":
			if op.Async {
				spawn(terminate)
			} else {
				terminate()
			}
		case "settle":
			for _, d := range async {
				waitOrTimeout(d, trackerWatchdog+4*time.Second)
			}
			async = nil
		case "join":
			if w := waits[op.W]; w != nil && !w.gaveUp {
				d := trackerWatchdog
				if caseOver { // one overrun per case is waited out in full, later ones only briefly
					d = 300 * time.Millisecond
				}
				if !waitOrTimeout(w.done, d) {
					w.gaveUp, caseOver = true, true
				}
			}
		case "sleep":
			if op.Us == 0 {
				time.Sleep(0)
			} else {
				time.Sleep(time.Duration(op.Us) * time.Microsecond)
			}
		}
	}
	for _, d := range async {
		waitOrTimeout(d, trackerWatchdog+4*time.Second)
	}
	// assemble the wait records; a wait that has not returned is recorded as such with the give-up time
	end := k.us()
	mu.Lock()
	for _, w := range order {
		rec := map[string]any{"op": "wait", "w": w.id, "prev": w.prev, "c0": w.c0, "c1": w.c1}
		if w.returned {
			rec["t0"], rec["t1"], rec["ret"], rec["idx"], rec["err"] = w.t0, w.t1, true, w.idx, w.err
		} else {
			// a goroutine that never got to stamp its start is recorded as starting now
			t0 := end
			if w.started {
				t0 = w.t0
			}
			rec["t0"], rec["t1"], rec["ret"], rec["idx"], rec["err"] = t0, end, false, 0, "none"
		}
		calls = append(calls, rec)
	}
	out := append([]map[string]any{}, calls...)
	mu.Unlock()
	// release whatever is left
	for _, w := range order {
		w.cancel()
	}
	go tracker.Terminate()
	sort.SliceStable(out, func(i, j int) bool { return out[i]["t0"].(int64) < out[j]["t0"].(int64) })
	return map[string]any{"ev": "TrackerCase", "calls": out}
}

// genTrackerScript builds a random script. The generator keeps a simple
// expectation of which waits are bound to return ("due") only to decide where
// a join costs nothing; the expectation is not recorded and plays no part in
// any verdict.
func genTrackerScript(r *rand.Rand, deep bool) []top {
	nops := 4 + r.Intn(12)
	if deep {
		nops = 8 + r.Intn(30)
	}
	type ws struct{ due, asyncAfter bool }
	out := map[int]*ws{}
	var s []top
	nextW := 0
	terminated := false
	asyncPending := false
	allDue := func() {
		for _, w := range out {
			w.due = true
		}
	}
	keys := func(pred func(*ws) bool) []int {
		var ks []int
		for id, w := range out {
			if pred(w) {
				ks = append(ks, id)
			}
		}
		sort.Ints(ks)
		return ks
	}
	for i := 0; i < nops; i++ {
		x := r.Intn(100)
		switch {
		case x < 30:
			rel := "cur"
			d := 0
			switch y := r.Intn(100); {
			case y < 10:
				rel = "zero"
			case y < 50:
				rel = "cur"
			case y < 78:
				rel, d = "stale", 1+r.Intn(3)
			default:
				rel, d = "future", 500+r.Intn(40)
			}
			s = append(s, top{Op: "wait", W: nextW, Rel: rel, D: d})
			out[nextW] = &ws{due: rel != "cur" || terminated}
			nextW++
		case x < 52:
			as := r.Intn(3) == 0
			s = append(s, top{Op: "notify", N: 1 + r.Intn(3), Async: as})
			if as {
				asyncPending = true
				for _, w := range out {
					w.asyncAfter = true
				}
			} else {
				allDue()
			}
		case x < 62:
			as := r.Intn(3) == 0
			s = append(s, top{Op: "unlock", Async: as})
			if as {
				asyncPending = true
				for _, w := range out {
					w.asyncAfter = true
				}
			} else {
				allDue()
			}
		case x < 70:
			if ks := keys(func(w *ws) bool { return true }); len(ks) > 0 {
				id := ks[r.Intn(len(ks))]
				s = append(s, top{Op: "cancel", W: id})
				out[id].due = true
			}
		case x < 74:
			as := r.Intn(2) == 0
			s = append(s, top{Op: "terminate", Async: as})
			if as {
				asyncPending = true
				for _, w := range out {
					w.asyncAfter = true
				}
			} else {
				terminated = true
				allDue()
			}
		case x < 80:
			if asyncPending {
				s = append(s, top{Op: "settle"})
				asyncPending = false
				for _, w := range out {
					if w.asyncAfter {
						w.due = true
					}
				}
			}
		case x < 92:
			if ks := keys(func(w *ws) bool { return w.due }); len(ks) > 0 {
				id := ks[r.Intn(len(ks))]
				s = append(s, top{Op: "join", W: id})
				delete(out, id)
			}
		default:
			s = append(s, top{Op: "sleep", Us: []int{0, 0, 20, 200, 1000}[r.Intn(5)]})
		}
	}
	// release and collect everything that is left
	s = append(s, top{Op: "settle"})
	for _, w := range out {
		if w.asyncAfter {
			w.due = true
		}
	}
	rest := keys(func(w *ws) bool { return !w.due })
	if len(rest) > 0 {
		if r.Intn(2) == 0 {
			s = append(s, top{Op: "terminate"})
		} else {
			for _, id := range rest {
				s = append(s, top{Op: "cancel", W: id})
			}
		}
	}
	for _, id := range keys(func(w *ws) bool { return true }) {
		s = append(s, top{Op: "join", W: id})
	}
	return s
}

func emitTrackerCase(c *vlib.Ctx, cid int, script []top, rec map[string]any) {
	rec["cid"] = cid
	rec["in"] = map[string]any{"script": script}
	c.Emit(rec)
	c.Eval()
	c.TraceDone()
	// non-trivial: a wait on a non-zero previous index returned nil with a different index
	for _, m := range rec["calls"].([]map[string]any) {
		if m["op"] == "wait" && m["ret"] == true && m["err"] == "ok" {
			if p, ok := m["prev"].(uint64); ok && p != 0 {
				c.NonTrivial(hashOf(script))
				break
			}
		}
	}
	if cid < 3 {
		c.Sample(rec)
	}
}

func runTracker(c *vlib.Ctx) error {
	n := argInt(c, "cases", 600)
	deep := argInt(c, "deep", 0) == 1
	par := argInt(c, "par", 6)
	scripts := make([][]top, n)
	for i := range scripts {
		scripts[i] = genTrackerScript(caseRand(c.Seed, i), deep)
	}
	recs := parallel(n, par, func(i int) map[string]any { return trackerCase(scripts[i]) })
	for i, rec := range recs {
		if rec == nil {
			c.AddExtra("cases_skipped_after_overruns", 1)
			continue
		}
		emitTrackerCase(c, i, scripts[i], rec)
	}
	c.SetExtra("cases", n)
	return nil
}

func replayTracker(c *vlib.Ctx, begin map[string]any) error {
	var in struct {
		Script []top `json:"script"`
	}
	vlib.Decode(begin["in"], &in)
	rec := trackerCase(in.Script)
	emitTrackerCase(c, 0, in.Script, rec)
	return nil
}
