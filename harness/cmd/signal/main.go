// Driver "signal": executes the real state.Tracker / state.TrackingLock (C30),
// state.Coalescer (C31) and the prompter registry / response-mode function of
// pkg/prompting (C32) under seeded concurrent scripts and records what they
// did: call intervals in monotonic microseconds, returned values, ticket
// numbers. It contains no property predicate and computes no verdict; the
// trace modules in spec/signal judge the records.
package main

import (
	"crypto/sha1"
	"encoding/hex"
	"encoding/json"
	"fmt"
	"math/rand"
	"sync"
	"sync/atomic"
	"time"

	"verif/harness/internal/vlib"
)

func main() { vlib.Main(run, replay) }

func run(c *vlib.Ctx) error {
	switch c.Prop {
	case "C30":
		return runTracker(c)
	case "C31":
		return runCoalescer(c)
	case "C32":
		return runPrompting(c)
	}
	return fmt.Errorf("driver signal does not serve %s", c.Prop)
}

func replay(c *vlib.Ctx) error {
	doc := c.LoadReplay()
	begin, _ := doc["begin"].(map[string]any)
	if begin == nil {
		return fmt.Errorf("replay file has no begin record")
	}
	switch c.Prop {
	case "C30":
		return replayTracker(c, begin)
	case "C31":
		return replayCoalescer(c, begin)
	case "C32":
		return replayPrompting(c, begin)
	}
	return fmt.Errorf("driver signal does not serve %s", c.Prop)
}

// clock yields monotonic microseconds since the start of a case.
type clock struct{ base time.Time }

func newClock() clock     { return clock{time.Now()} }
func (k clock) us() int64 { return int64(time.Since(k.base) / time.Microsecond) }

func hashOf(v any) string {
	b, _ := json.Marshal(v)
	h := sha1.Sum(b)
	return hex.EncodeToString(h[:8])
}

// argInt reads "name=value" from the driver arguments.
func argInt(c *vlib.Ctx, name string, def int) int {
	for _, a := range c.Args {
		var v int
		if n, _ := fmt.Sscanf(a, name+"=%d", &v); n == 1 {
			return v
		}
	}
	return def
}

// overruns counts watchdog expiries in this process. Every expiry costs
// seconds; once a few calls have been waited out in full, later watchdogs are
// cut to 50 ms: the calls they give up on are recorded as not returned after
// that short time, which no property operator counts against the code - the
// fully waited ones decide the check and the run stays short.
var overruns atomic.Int32

const maxOverruns = 4

// parallel runs n jobs on p workers and returns the results in job order.
func parallel(n, p int, job func(i int) map[string]any) []map[string]any {
	out := make([]map[string]any, n)
	var wg sync.WaitGroup
	next := make(chan int)
	for w := 0; w < p; w++ {
		wg.Add(1)
		go func() {
			defer wg.Done()
			for i := range next {
				out[i] = job(i)
			}
		}()
	}
	for i := 0; i < n; i++ {
		next <- i
	}
	close(next)
	wg.Wait()
	return out
}

// caseRand derives the generator of one case from the run seed.
func caseRand(seed int64, i int) *rand.Rand {
	return rand.New(rand.NewSource(seed*1000003 + int64(i)*7919 + 17))
}

// waitOrTimeout waits for done; after the watchdog expires it yields once
// more and looks again, so that a stall of the whole process (in which the
// watchdog timer and the awaited event become ready together) is not mistaken
// for a call that did not return.
func waitOrTimeout(done <-chan struct{}, d time.Duration) bool {
	if overruns.Load() >= maxOverruns {
		d = 50 * time.Millisecond
	}
	t := time.NewTimer(d)
	defer t.Stop()
	select {
	case <-done:
		return true
	case <-t.C:
	}
	time.Sleep(50 * time.Millisecond)
	select {
	case <-done:
		return true
	default:
		overruns.Add(1)
		return false
	}
}
