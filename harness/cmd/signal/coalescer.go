package main

import (
	"math/rand"
	"sync"
	"sync/atomic"
	"time"

	"github.com/mutagen-io/mutagen/pkg/state"

	"verif/harness/internal/vlib"
)

// cop is one step of a coalescer script, executed by the director goroutine.
//
//	strobe     Strobe() (under a watchdog)
//	sleep      Us microseconds
//	recv       one receive attempt on Signals() lasting at most Us microseconds (0: poll); director mode only
//	drain      polls until one finds the channel empty; director mode only
//	await      background-consumer mode: wait until the consumer received a signal at or after the last
//	           strobe began, at most Us microseconds
//	terminate  Terminate() (under a watchdog)
//	termrace   Terminate() in its own goroutine while the director makes one receive attempt (poll); First
//	           (terminate|recv) gets a head start of Us microseconds; then waits for Terminate
type cop struct {
	Op    string `json:"op"`
	Us    int    `json:"us,omitempty"`
	First string `json:"first,omitempty"`
}

type ccase struct {
	WindowNs int64 `json:"window_ns"` // as passed to NewCoalescer; negative is documented as zero
	Bg       bool  `json:"bg"`        // a background goroutine consumes Signals() continuously
	Script   []cop `json:"script"`
}

const coalescerWatchdog = 8 * time.Second

func coalescerCase(cc ccase) map[string]any {
	co := state.NewCoalescer(time.Duration(cc.WindowNs))
	k := newClock()
	// Strobe and Terminate run in their own goroutines under a watchdog; one expiry per case is waited
	// out in full, later ones only briefly; stuck goroutines are leaked
	over := false
	guard := func(f func()) (int64, int64, bool) {
		var s0, s1 int64
		done := make(chan struct{})
		outer := k.us()
		go func() { s0 = k.us(); f(); s1 = k.us(); close(done) }()
		d := coalescerWatchdog
		if over {
			d = 300 * time.Millisecond
		}
		if waitOrTimeout(done, d) {
			return s0, s1, true
		}
		over = true
		return outer, k.us(), false
	}
	strobes := []map[string]any{}
	recvs := []map[string]any{}
	terms := []map[string]any{}
	var rmu sync.Mutex
	var lastStrobeT0 int64 = -1
	var lastGot atomic.Int64
	lastGot.Store(-1)

	attempt := func(d time.Duration, stop <-chan struct{}) bool {
		t0 := k.us()
		got := false
		stopped := false
		if d == 0 && stop == nil {
			select {
			case <-co.Signals():
				got = true
			default:
			}
		} else {
			var tc <-chan time.Time
			if d > 0 {
				t := time.NewTimer(d)
				defer t.Stop()
				tc = t.C
			}
			select {
			case <-co.Signals():
				got = true
			case <-tc:
			case <-stop:
				stopped = true
			}
			if !got {
				// the attempt ends with a look at the channel: got = false means it was empty then
				select {
				case <-co.Signals():
					got = true
				default:
				}
			}
		}
		t1 := k.us()
		if got {
			lastGot.Store(t1)
		}
		rmu.Lock()
		recvs = append(recvs, map[string]any{"t0": t0, "t1": t1, "got": got})
		rmu.Unlock()
		return !stopped
	}

	var stop chan struct{}
	var consumerDone chan struct{}
	if cc.Bg {
		stop = make(chan struct{})
		consumerDone = make(chan struct{})
		go func() {
			defer close(consumerDone)
			for attempt(0, stop) {
			}
		}()
	}

	for _, op := range cc.Script {
		switch op.Op {
		case "strobe":
			lastStrobeT0 = k.us()
			t0, t1, ok := guard(co.Strobe)
			strobes = append(strobes, map[string]any{"t0": t0, "t1": t1, "ret": ok})
		case "sleep":
			time.Sleep(time.Duration(op.Us) * time.Microsecond)
		case "recv":
			if !cc.Bg {
				attempt(time.Duration(op.Us)*time.Microsecond, nil)
			}
		case "drain":
			if !cc.Bg {
				for i := 0; i < 4; i++ {
					n := len(recvs)
					attempt(0, nil)
					if recvs[n]["got"] == false {
						break
					}
				}
			}
		case "await":
			if cc.Bg {
				deadline := time.Now().Add(time.Duration(op.Us) * time.Microsecond)
				for lastGot.Load() < lastStrobeT0 && time.Now().Before(deadline) {
					time.Sleep(500 * time.Microsecond)
				}
			}
		case "terminate":
			t0, t1, ok := guard(co.Terminate)
			terms = append(terms, map[string]any{"t0": t0, "t1": t1, "ret": ok})
		case "termrace":
			if cc.Bg {
				continue
			}
			start := make(chan struct{})
			tdone := make(chan struct{})
			first, off := op.First, op.Us
			go func() {
				defer close(tdone)
				<-start
				if first != "terminate" {
					spin(off)
				}
				t0, t1, ok := guard(co.Terminate)
				terms = append(terms, map[string]any{"t0": t0, "t1": t1, "ret": ok})
			}()
			close(start)
			if first == "terminate" {
				spin(off)
			}
			attempt(0, nil)
			<-tdone // guard returns within its watchdog
		}
	}
	if cc.Bg {
		close(stop)
		waitOrTimeout(consumerDone, coalescerWatchdog)
	}
	go co.Terminate()
	rmu.Lock()
	defer rmu.Unlock()
	// w: the effective window in whole microseconds (negative counts as zero, a fraction is dropped)
	weff := cc.WindowNs / 1000
	if weff < 0 {
		weff = 0
	}
	return map[string]any{"ev": "CoalescerCase", "w": weff, "strobes": strobes,
		"recvs": append([]map[string]any{}, recvs...), "term": terms}
}

// genCoalescerCase builds a random case: bursts of strobes with gaps around
// the window, receive attempts that are long enough for an owed signal to be
// observed (they return as soon as it arrives), drains right after a strobe,
// and termination at a random point.
func genCoalescerCase(r *rand.Rand, deep bool) ccase {
	// the window: negative, zero, 1 ns, 1 us, 1 ms, 20 ms, 50-100 ms
	ns := []int64{-5000000, 0, 1, 1000, 1000000, 20000000, 50000000, 60000000, 80000000, 100000000}[r.Intn(10)]
	w := int(ns / 1000) // microseconds, for the timing of the script only
	if w < 0 {
		w = 0
	}
	cc := ccase{WindowNs: ns, Bg: r.Intn(4) == 0}
	gap := func() int {
		if w < 5000 { // tiny windows: gaps below, around and far above them
			return []int{0, 0, 0, 20, 200, 1000, 3000, w + 500}[r.Intn(8)]
		}
		switch r.Intn(8) {
		case 0:
			return 0
		case 1:
			return w / 10
		case 2:
			return w / 2
		case 3:
			return w - 5000
		case 4:
			return w - 1000
		case 5:
			return w + 3000
		case 6:
			return w + 20000
		default:
			return 2 * w
		}
	}
	long := w + 2600000 // an owed signal is awaited at most this long; on time it arrives after about w
	bursts := 1 + r.Intn(3)
	if deep {
		bursts = 2 + r.Intn(5)
	}
	termAt := -1
	if r.Intn(4) == 0 {
		termAt = r.Intn(bursts + 1)
	}
	s := []cop{}
	owed, dead := false, false
	// wait for the signal the last strobe is owed (returns as soon as it arrives); when the generator
	// believes nothing is owed the attempt is kept short - the belief only saves time, it is not recorded
	awaitSignal := func() {
		d := w / 2
		if owed && !dead {
			d = long
		} else if owed {
			d = w + 30000
		}
		if cc.Bg {
			s = append(s, cop{Op: "await", Us: d})
		} else {
			s = append(s, cop{Op: "recv", Us: d})
		}
		owed = false
	}
	for b := 0; b < bursts; b++ {
		if b == termAt {
			s = append(s, cop{Op: "terminate"})
			dead = true
		}
		n := 1 + r.Intn(4)
		for i := 0; i < n; i++ {
			s = append(s, cop{Op: "strobe"})
			owed = true
			if i < n-1 {
				s = append(s, cop{Op: "sleep", Us: gap()})
			}
		}
		switch r.Intn(6) {
		case 0, 1: // wait for the owed signal
			awaitSignal()
		case 2: // let it fire into the buffer without consuming
			s = append(s, cop{Op: "sleep", Us: w + 20000 + r.Intn(w+1)})
		case 3: // drain immediately after the strobe
			s = append(s, cop{Op: "drain"})
		case 4: // a short attempt that ends before the window
			s = append(s, cop{Op: "recv", Us: w / 2})
		default:
			s = append(s, cop{Op: "sleep", Us: gap()})
		}
	}
	if termAt == bursts {
		s = append(s, cop{Op: "terminate"})
		dead = true
	}
	// finally: everything owed must be observable (unless terminated), then nothing more may come out
	switch r.Intn(3) {
	case 0:
		awaitSignal()
		s = append(s, cop{Op: "drain"})
	case 1:
		s = append(s, cop{Op: "strobe"}, cop{Op: "drain"})
	default:
		s = append(s, cop{Op: "drain"})
	}
	cc.Script = s
	return cc
}

// genTermKeepCase: strobe(s); then nobody receives for the window plus more
// than the slack, so the signal has been emitted into the buffer; then
// Terminate(); only then (or racing Terminate) the consumer polls: the signal
// must still be there, exactly once. All window values.
func genTermKeepCase(r *rand.Rand) ccase {
	ns := []int64{-5000000, 0, 1, 1000, 1000000, 20000000, 50000000, 100000000}[r.Intn(8)]
	w := int(ns / 1000)
	if w < 0 {
		w = 0
	}
	cc := ccase{WindowNs: ns}
	s := []cop{}
	if r.Intn(3) == 0 { // an earlier burst whose signal is consumed
		s = append(s, cop{Op: "strobe"}, cop{Op: "recv", Us: w + 2600000})
	}
	n := 1 + r.Intn(3)
	for i := 0; i < n; i++ {
		s = append(s, cop{Op: "strobe"})
		if i < n-1 {
			s = append(s, cop{Op: "sleep", Us: []int{0, 20, w / 3, w / 2}[r.Intn(4)]})
		}
	}
	s = append(s, cop{Op: "sleep", Us: w + 2150000 + r.Intn(200000)}) // nobody receives
	switch r.Intn(3) {
	case 0:
		s = append(s, cop{Op: "terminate"}, cop{Op: "drain"})
	case 1:
		s = append(s, cop{Op: "terminate"}, cop{Op: "strobe"}, cop{Op: "sleep", Us: w + 5000}, cop{Op: "drain"})
	default:
		first := "terminate"
		if r.Intn(2) == 0 {
			first = "recv"
		}
		s = append(s, cop{Op: "termrace", First: first, Us: []int{0, 0, 2, 5, 20, 100}[r.Intn(6)]}, cop{Op: "drain"})
	}
	s = append(s, cop{Op: "drain"})
	cc.Script = s
	return cc
}

func emitCoalescerCase(c *vlib.Ctx, cid int, cc ccase, rec map[string]any) {
	rec["cid"] = cid
	rec["in"] = cc
	c.Emit(rec)
	c.Eval()
	c.TraceDone()
	for _, m := range rec["recvs"].([]map[string]any) {
		if m["got"] == true {
			c.NonTrivial(hashOf(cc))
			break
		}
	}
	if cid < 3 {
		c.Sample(rec)
	}
}

func runCoalescer(c *vlib.Ctx) error {
	n := argInt(c, "cases", 400)
	deep := argInt(c, "deep", 0) == 1
	par := argInt(c, "par", 32)
	cases := make([]ccase, n)
	for i := range cases {
		if i%5 == 4 {
			cases[i] = genTermKeepCase(caseRand(c.Seed, i))
		} else {
			cases[i] = genCoalescerCase(caseRand(c.Seed, i), deep)
		}
	}
	recs := parallel(n, par, func(i int) map[string]any { return coalescerCase(cases[i]) })
	for i, rec := range recs {
		if rec == nil {
			c.AddExtra("cases_skipped_after_overruns", 1)
			continue
		}
		emitCoalescerCase(c, i, cases[i], rec)
	}
	c.SetExtra("cases", n)
	return nil
}

func replayCoalescer(c *vlib.Ctx, begin map[string]any) error {
	var cc ccase
	vlib.Decode(begin["in"], &cc)
	// timing decides: run the case a few times, until a watchdog expired
	for i := 0; i < 3; i++ {
		before := overruns.Load()
		rec := coalescerCase(cc)
		emitCoalescerCase(c, i, cc, rec)
		if overruns.Load() > before {
			break
		}
	}
	return nil
}
