package main

import (
	"fmt"
	"math/rand"
	"runtime"
	"strings"
	"sync"
	"sync/atomic"
	"time"

	"github.com/mutagen-io/mutagen/pkg/prompting"

	"verif/harness/internal/vlib"
)

// probe is the instrumented prompter of one registration. One atomic counter
// per case issues tickets for entries, exits and (drawn by the driver) the
// return of UnregisterPrompter, so these events are totally ordered without
// reference to time - across all prompters of the case.
type probe struct {
	ticket   *atomic.Int64
	inflight atomic.Int32
	delays   []int // microseconds spent inside, cycled
	n        atomic.Int64
	mu       sync.Mutex
	invs     []map[string]any
	unreg    atomic.Int64 // ticket drawn right after UnregisterPrompter returned; -1: none
}

func newProbe(ticket *atomic.Int64, delays []int) *probe {
	p := &probe{ticket: ticket, delays: delays}
	p.unreg.Store(-1)
	return p
}

func (p *probe) enter(kind, text string) {
	tin := p.ticket.Add(1)
	conc := p.inflight.Add(1)
	d := p.delays[int(p.n.Add(1))%len(p.delays)]
	switch {
	case d == 0:
		runtime.Gosched()
	case d < 50:
		for t := time.Now(); time.Since(t) < time.Duration(d)*time.Microsecond; {
			runtime.Gosched()
		}
	default:
		time.Sleep(time.Duration(d) * time.Microsecond)
	}
	p.inflight.Add(-1)
	tout := p.ticket.Add(1)
	p.mu.Lock()
	p.invs = append(p.invs, map[string]any{"who": text, "kind": kind, "tin": tin, "tout": tout, "conc": int(conc)})
	p.mu.Unlock()
}

func (p *probe) Message(m string) error { p.enter("message", m); return nil }
func (p *probe) Prompt(m string) (string, error) {
	p.enter("prompt", m)
	return "r", nil
}

type pcase struct {
	ID        string `json:"id"`
	Prompters int    `json:"prompters"` // identifiers registered side by side
	Reuse     bool   `json:"reuse"`     // after unregistration the same identifier is registered again with a new prompter
	Callers   int    `json:"callers"`
	Calls     int    `json:"calls"`
	Kinds     int64  `json:"kinds"`   // seed of the per-caller Message/Prompt and identifier choice
	Delays    []int  `json:"delays"`  // microseconds inside the prompter
	After     int    `json:"after"`   // unregister once this many tickets were drawn ...
	AfterUs   int    `json:"afterus"` // ... or after this many microseconds, whichever comes first
}

var pcaseSerial atomic.Int64

const promptingWatchdog = 10 * time.Second

// registryCase: Prompters identifiers, each registered with its own probe;
// Callers goroutines call Message/Prompt on randomly chosen identifiers; one
// goroutine per identifier unregisters it (and, with Reuse, registers the same
// identifier again with a fresh probe, tries a colliding registration, and
// unregisters that one later). No registry call is made on the calling
// goroutine of this function: everything runs under the case watchdog.
func registryCase(pc pcase) map[string]any {
	if pc.Prompters < 1 {
		pc.Prompters = 1
	}
	serial := pcaseSerial.Add(1)
	k := newClock()
	var ticket atomic.Int64
	var mu sync.Mutex
	panics := []string{}
	results := map[string]int{}
	gens := [][]*probe{} // per identifier: its successive registrations
	ids := []string{}
	note := func(what string) { mu.Lock(); results[what]++; mu.Unlock() }
	guarded := func(f func()) {
		defer func() {
			if r := recover(); r != nil {
				mu.Lock()
				panics = append(panics, asciiOnly(fmt.Sprint(r)))
				mu.Unlock()
			}
		}()
		f()
	}
	finish := func(hung bool) map[string]any {
		mu.Lock()
		defer mu.Unlock()
		out := []map[string]any{}
		for j, ps := range gens {
			for g, p := range ps {
				p.mu.Lock()
				invs := append([]map[string]any{}, p.invs...)
				p.mu.Unlock()
				out = append(out, map[string]any{"p": j, "gen": g, "invs": invs, "unreg": map[string]any{"ticket": p.unreg.Load()}})
			}
		}
		res := map[string]any{}
		for k, v := range results {
			res[k] = v
		}
		return map[string]any{"ev": "RegistryCase", "gens": out, "panics": append([]string{}, panics...),
			"results": res, "hung": hung, "elapsed": k.us()}
	}

	for j := 0; j < pc.Prompters; j++ {
		ids = append(ids, fmt.Sprintf("%s-%d-p%d", pc.ID, serial, j))
		gens = append(gens, []*probe{newProbe(&ticket, pc.Delays)})
	}
	var regErr error
	regDone := make(chan struct{})
	go func() {
		defer close(regDone)
		for j := range ids {
			if err := prompting.RegisterPrompterWithIdentifier(ids[j], gens[j][0]); err != nil {
				regErr = err
			}
		}
	}()
	if !waitOrTimeout(regDone, promptingWatchdog) {
		return finish(true)
	}
	if regErr != nil {
		vlib.Fatal("register: %v", regErr)
	}

	start := make(chan struct{})
	var wg sync.WaitGroup
	for ci := 0; ci < pc.Callers; ci++ {
		wg.Add(1)
		r := rand.New(rand.NewSource(pc.Kinds + int64(ci)))
		go func(ci int) {
			defer wg.Done()
			<-start
			for n := 0; n < pc.Calls; n++ {
				text := fmt.Sprintf("c%d.%d", ci, n)
				id := ids[r.Intn(len(ids))]
				guarded(func() {
					var err error
					if r.Intn(2) == 0 {
						err = prompting.Message(id, text)
					} else {
						_, err = prompting.Prompt(id, text)
					}
					if err == nil {
						note("ok")
					} else {
						note(asciiOnly(err.Error()))
					}
				})
			}
		}(ci)
	}
	for j := range ids {
		wg.Add(1)
		go func(j int) {
			defer wg.Done()
			<-start
			// staggered: identifier j goes when (j+1)/Prompters of the budget is used up
			after := int64(pc.After * (j + 1) / len(ids))
			deadline := time.Now().Add(time.Duration(pc.AfterUs*(j+1)/len(ids)) * time.Microsecond)
			for ticket.Load() < after && time.Now().Before(deadline) {
				runtime.Gosched()
			}
			first := gens[j][0]
			guarded(func() {
				prompting.UnregisterPrompter(ids[j])
				first.unreg.Store(ticket.Add(1))
			})
			if !pc.Reuse || first.unreg.Load() < 0 {
				return
			}
			second := newProbe(&ticket, pc.Delays)
			ok := false
			guarded(func() {
				if err := prompting.RegisterPrompterWithIdentifier(ids[j], second); err != nil {
					note("reregister: " + asciiOnly(err.Error()))
					return
				}
				ok = true
				mu.Lock()
				gens[j] = append(gens[j], second)
				mu.Unlock()
				// a second registration under a live identifier must be refused
				if err := prompting.RegisterPrompterWithIdentifier(ids[j], newProbe(&ticket, pc.Delays)); err != nil {
					note("collision refused")
				} else {
					note("collision accepted")
				}
			})
			if !ok {
				return
			}
			deadline = time.Now().Add(time.Duration(pc.AfterUs) * time.Microsecond)
			for ticket.Load() < after+int64(pc.After) && time.Now().Before(deadline) {
				runtime.Gosched()
			}
			guarded(func() {
				prompting.UnregisterPrompter(ids[j])
				second.unreg.Store(ticket.Add(1))
			})
		}(j)
	}
	close(start)
	all := make(chan struct{})
	go func() { wg.Wait(); close(all) }()
	hung := !waitOrTimeout(all, promptingWatchdog)
	return finish(hung)
}

func asciiOnly(s string) string {
	var b strings.Builder
	for _, r := range s {
		if r >= 32 && r < 127 && r != '"' && r != '\\' {
			b.WriteRune(r)
		} else {
			b.WriteByte('?')
		}
	}
	return b.String()
}

func genRegistryCase(r *rand.Rand, i int, deep bool) pcase {
	pc := pcase{ID: fmt.Sprintf("verif-%d", i), Callers: 2 + r.Intn(4), Calls: 2 + r.Intn(6), Kinds: r.Int63n(1 << 40),
		Prompters: []int{1, 1, 2, 3}[r.Intn(4)], Reuse: r.Intn(2) == 0}
	if deep {
		pc.Callers = 2 + r.Intn(7)
		pc.Calls = 2 + r.Intn(12)
	}
	nd := 1 + r.Intn(4)
	for j := 0; j < nd; j++ {
		pc.Delays = append(pc.Delays, []int{0, 0, 5, 20, 60, 150}[r.Intn(6)])
	}
	total := 2 * pc.Callers * pc.Calls // tickets if every call reached the prompter
	pc.After = r.Intn(total + 2)
	pc.AfterUs = []int{0, 50, 300, 2000, 20000}[r.Intn(5)]
	return pc
}

// the bounded token grammar of prompts: fragments of the four echoed suffixes and near-misses
var promptTokens = []string{
	"(yes/no)", "? ", ": ", "?", ":", " ",
	"(yes/no/[fingerprint])", "Please type 'yes', 'no' or the fingerprint",
	"Are you sure you want to continue connecting ", "password", "(yes/no", "[fingerprint]", "x",
	"Please type 'yes' or 'no'",
}

func modeName(m prompting.ResponseMode) string {
	switch m {
	case prompting.ResponseModeSecret:
		return "secret"
	case prompting.ResponseModeMasked:
		return "masked"
	case prompting.ResponseModeEcho:
		return "echo"
	}
	return "other"
}

func emitMode(c *vlib.Ctx, tokens []string, prompt string) {
	mode := modeName(prompting.VerifDetermineResponseMode(prompt))
	if tokens == nil {
		tokens = []string{}
	}
	rec := map[string]any{"ev": "Mode", "in": map[string]any{"tokens": tokens, "prompt": prompt}, "prompt": prompt, "mode": mode}
	c.Emit(rec)
	c.Eval()
	if mode == "echo" {
		c.NonTrivial("echo:" + prompt)
	}
}

func randomPrompt(r *rand.Rand) (tokens []string, prompt string) {
	switch r.Intn(4) {
	case 0: // random printable text
		n := r.Intn(30)
		b := make([]byte, n)
		for i := range b {
			b[i] = byte(32 + r.Intn(95))
		}
		return nil, string(b)
	case 1: // a suffix with one character changed, dropped or appended
		suf := []string{"(yes/no)? ", "(yes/no): ", "(yes/no/[fingerprint])? ", "Please type 'yes', 'no' or the fingerprint: "}[r.Intn(4)]
		b := []byte("host key " + suf)
		switch r.Intn(4) {
		case 0:
			b[len(b)-1-r.Intn(len(suf))] = byte(32 + r.Intn(95))
		case 1:
			j := len(b) - 1 - r.Intn(len(suf))
			b = append(b[:j], b[j+1:]...)
		case 2:
			b = append(b, byte(32+r.Intn(95)))
		}
		return nil, string(b)
	default: // longer token sequences than the enumerated ones
		n := 4 + r.Intn(4)
		for i := 0; i < n; i++ {
			tokens = append(tokens, promptTokens[r.Intn(len(promptTokens))])
		}
		return tokens, strings.Join(tokens, "")
	}
}

func emitRegistryCase(c *vlib.Ctx, cid int, pc pcase, rec map[string]any) {
	rec["cid"] = cid
	rec["in"] = pc
	c.Emit(rec)
	c.Eval()
	c.TraceDone()
	// non-trivial: some registration was invoked and its unregistration returned
	for _, g := range rec["gens"].([]map[string]any) {
		if len(g["invs"].([]map[string]any)) > 0 && g["unreg"].(map[string]any)["ticket"].(int64) >= 0 {
			c.NonTrivial(hashOf(pc))
			break
		}
	}
	if rec["hung"] == true {
		c.AddExtra("hung_cases", 1)
	}
	if cid < 2 {
		c.Sample(rec)
	}
}

func runPrompting(c *vlib.Ctx) error {
	n := argInt(c, "cases", 1200)
	deep := argInt(c, "deep", 0) == 1
	depth := argInt(c, "depth", 3)
	nrand := argInt(c, "random", 2000)
	par := argInt(c, "par", 4)
	cases := make([]pcase, n)
	for i := range cases {
		cases[i] = genRegistryCase(caseRand(c.Seed, i), i, deep)
	}
	recs := parallel(n, par, func(i int) map[string]any { return registryCase(cases[i]) })
	for i, rec := range recs {
		if rec == nil {
			c.AddExtra("cases_skipped_after_overruns", 1)
			continue
		}
		emitRegistryCase(c, i, cases[i], rec)
	}
	// response mode: every token sequence up to the depth, then random prompts
	var walk func(prefix []string)
	count := 0
	walk = func(prefix []string) {
		emitMode(c, append([]string{}, prefix...), strings.Join(prefix, ""))
		count++
		if len(prefix) == depth {
			return
		}
		for _, t := range promptTokens {
			walk(append(prefix, t))
		}
	}
	walk(nil)
	for i := 0; i < nrand; i++ {
		tokens, p := randomPrompt(c.Rand)
		emitMode(c, tokens, p)
	}
	c.SetExtra("registry_cases", n)
	c.SetExtra("grammar_prompts", count)
	c.SetExtra("grammar_depth", depth)
	c.SetExtra("random_prompts", nrand)
	c.SetExhaustive(false)
	return nil
}

func replayPrompting(c *vlib.Ctx, begin map[string]any) error {
	if begin["ev"] == "Mode" {
		var in struct {
			Tokens []string `json:"tokens"`
			Prompt string   `json:"prompt"`
		}
		vlib.Decode(begin["in"], &in)
		emitMode(c, in.Tokens, in.Prompt)
		return nil
	}
	var pc pcase
	vlib.Decode(begin["in"], &pc)
	// the schedule is not reproducible exactly: run the same case a few times
	for i := 0; i < 20; i++ {
		before := overruns.Load()
		rec := registryCase(pc)
		emitRegistryCase(c, i, pc, rec)
		if overruns.Load() > before {
			break
		}
	}
	return nil
}
