package main

import (
	"bytes"
	"errors"
	"fmt"
	"math/rand"
	"runtime"
	"strings"
	"sync"
	"sync/atomic"
	"time"

	"github.com/mutagen-io/mutagen/pkg/prompting"

	"verif/harness/internal/vlib"
)

// probe is the instrumented prompter of one registration. One atomic counter
// per case issues tickets for entries, exits and (drawn by the driver) the
// return of UnregisterPrompter, so these events are totally ordered without
// reference to time - across all prompters of the case.
type probe struct {
	ticket    *atomic.Int64
	inflight  atomic.Int32
	delays    []int // microseconds spent inside, cycled
	n         atomic.Int64
	mu        sync.Mutex
	invs      []map[string]any
	inside    int          // invocations inside right now, counted under mu
	maxInside int          // the largest value inside ever had
	unreg     atomic.Int64 // ticket drawn right after UnregisterPrompter returned; -1: none
	// failures: every failEvery-th invocation returns an error (0: never); the failAt-th invocation
	// signals atGate, blocks on gate (bounded) and then returns an error if its method is in failKinds
	failEvery int
	failAt    int64
	failKinds map[string]bool
	alsoNext  bool // the invocation after the gated one fails too
	atGate    chan struct{}
	gate      chan struct{}
}

var errProbe = errors.New("probe refuses")

func newProbe(ticket *atomic.Int64, delays []int) *probe {
	p := &probe{ticket: ticket, delays: delays}
	p.unreg.Store(-1)
	return p
}

func (p *probe) enter(kind, text string) error {
	tin := p.ticket.Add(1)
	conc := p.inflight.Add(1)
	p.mu.Lock()
	p.inside++
	if p.inside > p.maxInside {
		p.maxInside = p.inside
	}
	p.mu.Unlock()
	n := p.n.Add(1)
	var err error
	gated := false
	if p.failAt > 0 && n == p.failAt {
		gated = true
		close(p.atGate)
		t := time.NewTimer(5 * time.Second)
		select { // bounded: the driver opens the gate once it has seen the others parked
		case <-p.gate:
		case <-t.C:
		}
		t.Stop()
		if p.failKinds[kind] {
			err = errProbe
		}
	} else {
		d := p.delays[int(n)%len(p.delays)]
		switch {
		case d == 0:
			runtime.Gosched()
		case d < 50:
			for t := time.Now(); time.Since(t) < time.Duration(d)*time.Microsecond; {
				runtime.Gosched()
			}
		default:
			time.Sleep(time.Duration(d) * time.Microsecond)
		}
		if (p.failEvery > 0 && n%int64(p.failEvery) == 0) || (p.alsoNext && p.failAt > 0 && n == p.failAt+1) {
			err = errProbe
		}
	}
	p.mu.Lock()
	p.inside--
	p.mu.Unlock()
	p.inflight.Add(-1)
	tout := p.ticket.Add(1)
	p.mu.Lock()
	p.invs = append(p.invs, map[string]any{"who": text, "kind": kind, "tin": tin, "tout": tout, "conc": int(conc),
		"fail": err != nil, "gated": gated})
	p.mu.Unlock()
	return err
}

func (p *probe) Message(m string) error { return p.enter("message", m) }
func (p *probe) Prompt(m string) (string, error) {
	if err := p.enter("prompt", m); err != nil {
		return "", err
	}
	return "r", nil
}

// genRecord is what one registration contributes to a record.
func (p *probe) genRecord(j, g int) map[string]any {
	p.mu.Lock()
	defer p.mu.Unlock()
	return map[string]any{"p": j, "gen": g, "invs": append([]map[string]any{}, p.invs...), "maxin": p.maxInside,
		"unreg": map[string]any{"ticket": p.unreg.Load()}}
}

type pcase struct {
	ID        string `json:"id"`
	Prompters int    `json:"prompters"` // identifiers registered side by side
	Reuse     bool   `json:"reuse"`     // after unregistration the same identifier is registered again with a new prompter
	Callers   int    `json:"callers"`
	Calls     int    `json:"calls"`
	Kinds     int64  `json:"kinds"`     // seed of the per-caller Message/Prompt and identifier choice
	Delays    []int  `json:"delays"`    // microseconds inside the prompter
	After     int    `json:"after"`     // unregister once this many tickets were drawn ...
	AfterUs   int    `json:"afterus"`   // ... or after this many microseconds, whichever comes first
	FailEvery int    `json:"failevery"` // every m-th invocation of a prompter returns an error (0: never)
}

var pcaseSerial atomic.Int64

const promptingWatchdog = 10 * time.Second

// registryCase: Prompters identifiers, each registered with its own probe;
// Callers goroutines call Message/Prompt on randomly chosen identifiers; one
// goroutine per identifier unregisters it (and, with Reuse, registers the same
// identifier again with a fresh probe, tries a colliding registration, and
// unregisters that one later). No registry call is made on the calling
// goroutine of this function: everything runs under the case watchdog.
func registryCase(pc pcase) map[string]any {
	if pc.Prompters < 1 {
		pc.Prompters = 1
	}
	serial := pcaseSerial.Add(1)
	k := newClock()
	var ticket atomic.Int64
	var mu sync.Mutex
	panics := []string{}
	results := map[string]int{}
	gens := [][]*probe{} // per identifier: its successive registrations
	ids := []string{}
	note := func(what string) { mu.Lock(); results[what]++; mu.Unlock() }
	guarded := func(f func()) {
		defer func() {
			if r := recover(); r != nil {
				mu.Lock()
				panics = append(panics, asciiOnly(fmt.Sprint(r)))
				mu.Unlock()
			}
		}()
		f()
	}
	finish := func(hung bool) map[string]any {
		mu.Lock()
		defer mu.Unlock()
		out := []map[string]any{}
		for j, ps := range gens {
			for g, p := range ps {
				out = append(out, p.genRecord(j, g))
			}
		}
		res := map[string]any{}
		for k, v := range results {
			res[k] = v
		}
		return map[string]any{"ev": "RegistryCase", "gens": out, "panics": append([]string{}, panics...),
			"results": res, "hung": hung, "elapsed": k.us()}
	}

	for j := 0; j < pc.Prompters; j++ {
		ids = append(ids, fmt.Sprintf("%s-%d-p%d", pc.ID, serial, j))
		gens = append(gens, []*probe{newProbe(&ticket, pc.Delays)})
		gens[j][0].failEvery = pc.FailEvery
	}
	var regErr error
	regDone := make(chan struct{})
	go func() {
		defer close(regDone)
		for j := range ids {
			if err := prompting.RegisterPrompterWithIdentifier(ids[j], gens[j][0]); err != nil {
				regErr = err
			}
		}
	}()
	if !waitOrTimeout(regDone, promptingWatchdog) {
		return finish(true)
	}
	if regErr != nil {
		vlib.Fatal("register: %v", regErr)
	}

	start := make(chan struct{})
	var wg sync.WaitGroup
	for ci := 0; ci < pc.Callers; ci++ {
		wg.Add(1)
		r := rand.New(rand.NewSource(pc.Kinds + int64(ci)))
		go func(ci int) {
			defer wg.Done()
			<-start
			for n := 0; n < pc.Calls; n++ {
				text := fmt.Sprintf("c%d.%d", ci, n)
				id := ids[r.Intn(len(ids))]
				guarded(func() {
					var err error
					if r.Intn(2) == 0 {
						err = prompting.Message(id, text)
					} else {
						_, err = prompting.Prompt(id, text)
					}
					if err == nil {
						note("ok")
					} else {
						note(asciiOnly(err.Error()))
					}
				})
			}
		}(ci)
	}
	for j := range ids {
		wg.Add(1)
		go func(j int) {
			defer wg.Done()
			<-start
			// staggered: identifier j goes when (j+1)/Prompters of the budget is used up
			after := int64(pc.After * (j + 1) / len(ids))
			deadline := time.Now().Add(time.Duration(pc.AfterUs*(j+1)/len(ids)) * time.Microsecond)
			for ticket.Load() < after && time.Now().Before(deadline) {
				runtime.Gosched()
			}
			first := gens[j][0]
			guarded(func() {
				prompting.UnregisterPrompter(ids[j])
				first.unreg.Store(ticket.Add(1))
			})
			if !pc.Reuse || first.unreg.Load() < 0 {
				return
			}
			second := newProbe(&ticket, pc.Delays)
			second.failEvery = pc.FailEvery
			ok := false
			guarded(func() {
				if err := prompting.RegisterPrompterWithIdentifier(ids[j], second); err != nil {
					note("reregister: " + asciiOnly(err.Error()))
					return
				}
				ok = true
				mu.Lock()
				gens[j] = append(gens[j], second)
				mu.Unlock()
				// a second registration under a live identifier must be refused
				if err := prompting.RegisterPrompterWithIdentifier(ids[j], newProbe(&ticket, pc.Delays)); err != nil {
					note("collision refused")
				} else {
					note("collision accepted")
				}
			})
			if !ok {
				return
			}
			deadline = time.Now().Add(time.Duration(pc.AfterUs) * time.Microsecond)
			for ticket.Load() < after+int64(pc.After) && time.Now().Before(deadline) {
				runtime.Gosched()
			}
			guarded(func() {
				prompting.UnregisterPrompter(ids[j])
				second.unreg.Store(ticket.Add(1))
			})
		}(j)
	}
	close(start)
	all := make(chan struct{})
	go func() { wg.Wait(); close(all) }()
	hung := !waitOrTimeout(all, promptingWatchdog)
	return finish(hung)
}

// gcase is a gated scenario: a lead goroutine makes len(Lead) calls on one
// registered prompter; the K-th invocation of the prompter stays inside (gate)
// until the driver has seen the Waiters - further Message / Prompt /
// UnregisterPrompter calls on the same identifier, started one after the other -
// parked in their channel receive inside pkg/prompting (observed in the
// goroutine dump, bounded wait), and then returns an error if its method is in
// Fail. The registry must hand the prompter on to one waiter at a time.
type gcase struct {
	Gated   bool     `json:"gated"`
	ID      string   `json:"id"`
	Lead    []string `json:"lead"`    // kinds of the lead's calls: message | prompt
	K       int      `json:"k"`       // the failing (gated) invocation, 1..len(Lead)
	Fail    []string `json:"fail"`    // methods that return the error: message, prompt
	Next    bool     `json:"next"`    // the following invocation fails too
	Waiters []string `json:"waiters"` // message | prompt | unregister, in the order they are started
	Delays  []int    `json:"delays"`
}

// parkedInRegistry counts goroutines blocked in a channel receive inside
// prompting.Message / Prompt / UnregisterPrompter (the receive from the holder).
func parkedInRegistry() int {
	buf := make([]byte, 1<<20)
	buf = buf[:runtime.Stack(buf, true)]
	n := 0
	for _, g := range bytes.Split(buf, []byte("\n\n")) {
		head, _, _ := bytes.Cut(g, []byte("\n"))
		if !bytes.Contains(head, []byte("[chan receive")) {
			continue
		}
		if bytes.Contains(g, []byte("pkg/prompting.Message(")) || bytes.Contains(g, []byte("pkg/prompting.Prompt(")) ||
			bytes.Contains(g, []byte("pkg/prompting.UnregisterPrompter(")) {
			n++
		}
	}
	return n
}

func gatedCase(gc gcase) map[string]any {
	serial := pcaseSerial.Add(1)
	id := fmt.Sprintf("%s-%d", gc.ID, serial)
	k := newClock()
	var ticket atomic.Int64
	p := newProbe(&ticket, gc.Delays)
	p.failAt, p.alsoNext = int64(gc.K), gc.Next
	p.failKinds = map[string]bool{}
	for _, f := range gc.Fail {
		p.failKinds[f] = true
	}
	p.atGate, p.gate = make(chan struct{}), make(chan struct{})
	var mu sync.Mutex
	panics := []string{}
	results := map[string]int{}
	note := func(what string) { mu.Lock(); results[what]++; mu.Unlock() }
	guarded := func(f func()) {
		defer func() {
			if r := recover(); r != nil {
				mu.Lock()
				panics = append(panics, asciiOnly(fmt.Sprint(r)))
				mu.Unlock()
			}
		}()
		f()
	}
	reached, parked, base := false, 0, 0
	finish := func(hung bool) map[string]any {
		mu.Lock()
		defer mu.Unlock()
		res := map[string]any{}
		for k, v := range results {
			res[k] = v
		}
		return map[string]any{"ev": "RegistryCase", "gens": []map[string]any{p.genRecord(0, 0)},
			"panics": append([]string{}, panics...), "results": res, "hung": hung, "elapsed": k.us(),
			"gate": map[string]any{"k": gc.K, "reached": reached, "parked": parked, "want": len(gc.Waiters)}}
	}
	call := func(kind, text string) {
		guarded(func() {
			var err error
			switch kind {
			case "message":
				err = prompting.Message(id, text)
			case "prompt":
				_, err = prompting.Prompt(id, text)
			case "unregister":
				prompting.UnregisterPrompter(id)
				p.unreg.Store(ticket.Add(1))
			}
			if err == nil {
				note(kind + " ok")
			} else {
				note(kind + ": " + asciiOnly(err.Error()))
			}
		})
	}
	all := make(chan struct{})
	go func() {
		defer close(all)
		if err := prompting.RegisterPrompterWithIdentifier(id, p); err != nil {
			note("register: " + asciiOnly(err.Error()))
			return
		}
		var wg sync.WaitGroup
		wg.Add(1)
		go func() {
			defer wg.Done()
			for i, kind := range gc.Lead {
				call(kind, fmt.Sprintf("lead.%d", i))
			}
		}()
		t := time.NewTimer(3 * time.Second)
		select {
		case <-p.atGate:
			reached = true
		case <-t.C:
		}
		t.Stop()
		if reached {
			base = parkedInRegistry() // leftovers of earlier, broken cases
			for i, kind := range gc.Waiters {
				wg.Add(1)
				go func() { defer wg.Done(); call(kind, fmt.Sprintf("w%d", i)) }()
				// the next one is started only when this one is parked, so the queue order is the script's
				for dl := time.Now().Add(2 * time.Second); parkedInRegistry()-base < i+1 && time.Now().Before(dl); {
					runtime.Gosched()
				}
			}
			parked = parkedInRegistry() - base
		}
		close(p.gate)
		wg.Wait()
		if p.unreg.Load() < 0 {
			call("unregister", "end")
		}
	}()
	hung := !waitOrTimeout(all, promptingWatchdog)
	return finish(hung)
}

// gatedScenarios enumerates: 1-4 lead calls, every failing position k, which
// method(s) fail, and every sequence of 1-3 waiters (message / prompt / at most
// one unregister, last) - all combinations, seeded only in the kinds of the lead's
// calls and the time spent inside.
func gatedScenarios(r *rand.Rand) []gcase {
	kinds := []string{"message", "prompt", "unregister"}
	var seqs [][]string
	var build func(cur []string)
	build = func(cur []string) {
		if len(cur) > 0 {
			seqs = append(seqs, append([]string{}, cur...))
		}
		if len(cur) == 3 {
			return
		}
		for _, kd := range kinds {
			if contains(cur, "unregister") { // nothing can queue up behind an unregistration: it is the last waiter
				continue
			}
			build(append(cur, kd))
		}
	}
	build(nil)
	var out []gcase
	for n := 1; n <= 4; n++ {
		for k := 1; k <= n; k++ {
			for _, ws := range seqs {
				lead := make([]string, n)
				for i := range lead {
					lead[i] = kinds[r.Intn(2)]
				}
				fail := []string{lead[k-1]}
				if r.Intn(2) == 0 {
					fail = []string{"message", "prompt"}
				}
				out = append(out, gcase{Gated: true, ID: fmt.Sprintf("gated-%d", len(out)), Lead: lead, K: k, Fail: fail,
					Next: r.Intn(3) == 0, Waiters: ws, Delays: []int{[]int{0, 0, 5, 20}[r.Intn(4)], 0}})
			}
		}
	}
	return out
}

func contains(s []string, x string) bool {
	for _, y := range s {
		if y == x {
			return true
		}
	}
	return false
}

func emitGatedCase(c *vlib.Ctx, cid int, gc gcase, rec map[string]any) {
	rec["cid"] = cid
	rec["in"] = gc
	c.Emit(rec)
	c.Eval()
	c.TraceDone()
	g := rec["gate"].(map[string]any)
	if g["reached"] == true && g["parked"].(int) >= g["want"].(int) {
		c.NonTrivial("gated:" + hashOf(gc))
		c.AddExtra("gated_failures_with_all_waiters_parked", 1)
	}
	if rec["hung"] == true {
		c.AddExtra("hung_cases", 1)
	}
	if cid < 1 {
		c.Sample(rec)
	}
}

func asciiOnly(s string) string {
	var b strings.Builder
	for _, r := range s {
		if r >= 32 && r < 127 && r != '"' && r != '\\' {
			b.WriteRune(r)
		} else {
			b.WriteByte('?')
		}
	}
	return b.String()
}

func genRegistryCase(r *rand.Rand, i int, deep bool) pcase {
	pc := pcase{ID: fmt.Sprintf("verif-%d", i), Callers: 2 + r.Intn(4), Calls: 2 + r.Intn(6), Kinds: r.Int63n(1 << 40),
		Prompters: []int{1, 1, 2, 3}[r.Intn(4)], Reuse: r.Intn(2) == 0}
	if deep {
		pc.Callers = 2 + r.Intn(7)
		pc.Calls = 2 + r.Intn(12)
	}
	nd := 1 + r.Intn(4)
	for j := 0; j < nd; j++ {
		pc.Delays = append(pc.Delays, []int{0, 0, 5, 20, 60, 150}[r.Intn(6)])
	}
	total := 2 * pc.Callers * pc.Calls // tickets if every call reached the prompter
	pc.After = r.Intn(total + 2)
	pc.AfterUs = []int{0, 50, 300, 2000, 20000}[r.Intn(5)]
	pc.FailEvery = []int{0, 0, 1, 2, 3, 5}[r.Intn(6)]
	return pc
}

// the bounded token grammar of prompts: fragments of the four echoed suffixes and near-misses
var promptTokens = []string{
	"(yes/no)", "? ", ": ", "?", ":", " ",
	"(yes/no/[fingerprint])", "Please type 'yes', 'no' or the fingerprint",
	"Are you sure you want to continue connecting ", "password", "(yes/no", "[fingerprint]", "x",
	"Please type 'yes' or 'no'",
}

func modeName(m prompting.ResponseMode) string {
	switch m {
	case prompting.ResponseModeSecret:
		return "secret"
	case prompting.ResponseModeMasked:
		return "masked"
	case prompting.ResponseModeEcho:
		return "echo"
	}
	return "other"
}

func emitMode(c *vlib.Ctx, tokens []string, prompt string) {
	mode := modeName(prompting.VerifDetermineResponseMode(prompt))
	if tokens == nil {
		tokens = []string{}
	}
	rec := map[string]any{"ev": "Mode", "in": map[string]any{"tokens": tokens, "prompt": prompt}, "prompt": prompt, "mode": mode}
	c.Emit(rec)
	c.Eval()
	if mode == "echo" {
		c.NonTrivial("echo:" + prompt)
	}
}

func randomPrompt(r *rand.Rand) (tokens []string, prompt string) {
	switch r.Intn(4) {
	case 0: // random printable text
		n := r.Intn(30)
		b := make([]byte, n)
		for i := range b {
			b[i] = byte(32 + r.Intn(95))
		}
		return nil, string(b)
	case 1: // a suffix with one character changed, dropped or appended
		suf := []string{"(yes/no)? ", "(yes/no): ", "(yes/no/[fingerprint])? ", "Please type 'yes', 'no' or the fingerprint: "}[r.Intn(4)]
		b := []byte("host key " + suf)
		switch r.Intn(4) {
		case 0:
			b[len(b)-1-r.Intn(len(suf))] = byte(32 + r.Intn(95))
		case 1:
			j := len(b) - 1 - r.Intn(len(suf))
			b = append(b[:j], b[j+1:]...)
		case 2:
			b = append(b, byte(32+r.Intn(95)))
		}
		return nil, string(b)
	default: // longer token sequences than the enumerated ones
		n := 4 + r.Intn(4)
		for i := 0; i < n; i++ {
			tokens = append(tokens, promptTokens[r.Intn(len(promptTokens))])
		}
		return tokens, strings.Join(tokens, "")
	}
}

func emitRegistryCase(c *vlib.Ctx, cid int, pc pcase, rec map[string]any) {
	rec["cid"] = cid
	rec["in"] = pc
	c.Emit(rec)
	c.Eval()
	c.TraceDone()
	// non-trivial: some registration was invoked and its unregistration returned
	for _, g := range rec["gens"].([]map[string]any) {
		if len(g["invs"].([]map[string]any)) > 0 && g["unreg"].(map[string]any)["ticket"].(int64) >= 0 {
			c.NonTrivial(hashOf(pc))
			break
		}
	}
	if rec["hung"] == true {
		c.AddExtra("hung_cases", 1)
	}
	if cid < 2 {
		c.Sample(rec)
	}
}

func runPrompting(c *vlib.Ctx) error {
	n := argInt(c, "cases", 1200)
	deep := argInt(c, "deep", 0) == 1
	depth := argInt(c, "depth", 3)
	nrand := argInt(c, "random", 2000)
	par := argInt(c, "par", 4)
	cases := make([]pcase, n)
	for i := range cases {
		cases[i] = genRegistryCase(caseRand(c.Seed, i), i, deep)
	}
	recs := parallel(n, par, func(i int) map[string]any { return registryCase(cases[i]) })
	for i, rec := range recs {
		if rec == nil {
			c.AddExtra("cases_skipped_after_overruns", 1)
			continue
		}
		emitRegistryCase(c, i, cases[i], rec)
	}
	// gated failures with queued waiters: one at a time (the parked goroutines are counted process-wide)
	gs := gatedScenarios(c.Rand)
	// A scenario whose waiters never park (or that hangs) costs its full bounded waits; on code
	// where that happens every time, the remaining scenarios are skipped after a few of them so
	// that the records already made (and the stress cases above) are still judged in time.
	overruns := 0
	for i, gc := range gs {
		if overruns >= 8 {
			c.AddExtra("gated_skipped_after_overruns", 1)
			continue
		}
		rec := gatedCase(gc)
		if g, _ := rec["gate"].(map[string]any); rec["hung"] == true || g == nil || g["reached"] != true || g["parked"].(int) < g["want"].(int) {
			overruns++
		}
		emitGatedCase(c, n+i, gc, rec)
	}
	c.SetExtra("gated_scenarios", len(gs))
	// response mode: every token sequence up to the depth, then random prompts
	var walk func(prefix []string)
	count := 0
	walk = func(prefix []string) {
		emitMode(c, append([]string{}, prefix...), strings.Join(prefix, ""))
		count++
		if len(prefix) == depth {
			return
		}
		for _, t := range promptTokens {
			walk(append(prefix, t))
		}
	}
	walk(nil)
	for i := 0; i < nrand; i++ {
		tokens, p := randomPrompt(c.Rand)
		emitMode(c, tokens, p)
	}
	c.SetExtra("registry_cases", n)
	c.SetExtra("grammar_prompts", count)
	c.SetExtra("grammar_depth", depth)
	c.SetExtra("random_prompts", nrand)
	c.SetExhaustive(false)
	return nil
}

func replayPrompting(c *vlib.Ctx, begin map[string]any) error {
	if begin["ev"] == "Mode" {
		var in struct {
			Tokens []string `json:"tokens"`
			Prompt string   `json:"prompt"`
		}
		vlib.Decode(begin["in"], &in)
		emitMode(c, in.Tokens, in.Prompt)
		return nil
	}
	if in, _ := begin["in"].(map[string]any); in != nil && in["gated"] == true {
		var gc gcase
		vlib.Decode(begin["in"], &gc)
		for i := 0; i < 5; i++ {
			before := overruns.Load()
			emitGatedCase(c, i, gc, gatedCase(gc))
			if overruns.Load() > before {
				break
			}
		}
		return nil
	}
	var pc pcase
	vlib.Decode(begin["in"], &pc)
	// the schedule is not reproducible exactly: run the same case a few times
	for i := 0; i < 20; i++ {
		before := overruns.Load()
		rec := registryCase(pc)
		emitRegistryCase(c, i, pc, rec)
		if overruns.Load() > before {
			break
		}
	}
	return nil
}
