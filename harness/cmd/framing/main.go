// Driver "framing": runs the real control-stream chain
//
//	encoding.ProtobufEncoder -> bufio.Writer -> compression.Algorithm.Compress ->
//	bufio.Writer -> in-memory pipe -> bufio.Reader -> compression.Algorithm.Decompress ->
//	bufio.Reader -> encoding.ProtobufDecoder
//
// assembled exactly like pkg/synchronization/endpoint/remote/client.go and
// server.go assemble it (same layers, same stream.NewMultiFlusher order), for
// every compression algorithm the build supports. The pipe fragments reads
// according to a prescribed pattern and knows, without any timeout, whether the
// peer's decoder is starved (blocked reading an empty pipe). Scripts (encode /
// flush / sync points) come from TLC (spec/framing/Framing.tla, exported
// behaviours) and from a seeded generator. A second leg drives the real
// remote.NewEndpoint and remote.ServeEndpoint over the same kind of pipe to bind
// the assembly in client.go / server.go itself. Only observations are recorded;
// spec/framing/Framing_Trace.tla judges them.
package main

import (
	"bufio"
	"bytes"
	"context"
	"encoding/json"
	"encoding/binary"
	"errors"
	"fmt"
	"hash/crc32"
	"io"
	"math/rand"
	"os"
	"os/exec"
	"path/filepath"
	"runtime"
	"strconv"
	"strings"
	"sync"
	"syscall"
	"time"

	"google.golang.org/protobuf/proto"

	"github.com/mutagen-io/mutagen/pkg/encoding"
	"github.com/mutagen-io/mutagen/pkg/logging"
	"github.com/mutagen-io/mutagen/pkg/stream"
	"github.com/mutagen-io/mutagen/pkg/synchronization"
	"github.com/mutagen-io/mutagen/pkg/synchronization/compression"
	"github.com/mutagen-io/mutagen/pkg/synchronization/endpoint/remote"
	"github.com/mutagen-io/mutagen/pkg/synchronization/rsync"

	"verif/harness/internal/vlib"
)

func main() {
	if len(os.Args) > 1 && os.Args[1] == "oversize-child" {
		oversizeChild(os.Args[2:])
		return
	}
	vlib.Main(run, replay)
}

// buffer sizes of pkg/synchronization/endpoint/remote/protocol.go (unexported there)
const controlStreamBufferSize = 64 * 1024

func errStr(err error) string {
	if err == nil {
		return ""
	}
	s := err.Error()
	if len(s) > 120 {
		s = s[:120]
	}
	return strings.Map(func(r rune) rune {
		if r < 32 || r > 126 || r == '"' || r == '\\' {
			return '?'
		}
		return r
	}, s)
}

func argInt(c *vlib.Ctx, name string, def int) int {
	for _, a := range c.Args {
		if strings.HasPrefix(a, name+"=") {
			v, err := strconv.Atoi(a[len(name)+1:])
			if err != nil {
				vlib.Fatal("bad argument %q", a)
			}
			return v
		}
	}
	return def
}

// ---------------------------------------------------------------------------
// the in-memory stream

// hub is the lock and condition shared by everything in one case: the pipes, the
// decoder goroutine's progress, the watchdog.
type hub struct {
	mu      sync.Mutex
	cond    *sync.Cond
	expired bool
}

func newHub() *hub {
	h := &hub{}
	h.cond = sync.NewCond(&h.mu)
	return h
}

// pipe is a one-directional unbounded byte stream. Each Read returns at most the
// next fragment size of its cyclic pattern (0 = unlimited). A reader that finds it
// empty marks itself waiting: "waiting and empty" is the deterministic fact that
// the peer asked for bytes that have not been sent.
type pipe struct {
	h       *hub
	buf     []byte
	frags   []int
	fi      int
	waiting bool
	closed  bool
	total   int // bytes ever written
	reads   int
}

func (p *pipe) Write(b []byte) (int, error) {
	p.h.mu.Lock()
	defer p.h.mu.Unlock()
	if p.closed {
		return 0, io.ErrClosedPipe
	}
	p.buf = append(p.buf, b...)
	p.total += len(b)
	p.h.cond.Broadcast()
	return len(b), nil
}

func (p *pipe) Read(b []byte) (int, error) {
	p.h.mu.Lock()
	defer p.h.mu.Unlock()
	for len(p.buf) == 0 && !p.closed {
		p.waiting = true
		p.h.cond.Broadcast()
		p.h.cond.Wait()
	}
	p.waiting = false
	if len(p.buf) == 0 {
		return 0, io.EOF
	}
	n := len(b)
	if len(p.frags) > 0 {
		if f := p.frags[p.fi%len(p.frags)]; f > 0 && f < n {
			n = f
		}
		p.fi++
	}
	if n > len(p.buf) {
		n = len(p.buf)
	}
	copy(b, p.buf[:n])
	p.buf = p.buf[n:]
	p.reads++
	return n, nil
}

func (p *pipe) close() {
	p.h.mu.Lock()
	p.closed = true
	p.h.cond.Broadcast()
	p.h.mu.Unlock()
}

// starvedLocked: the reader is blocked on an empty pipe (caller holds the lock).
func (p *pipe) starvedLocked() bool { return p.waiting && len(p.buf) == 0 && !p.closed }

// ---------------------------------------------------------------------------
// the two halves of the chain, as in client.go / server.go

type sender struct {
	outbound           *bufio.Writer
	compressor         stream.WriteFlushCloser
	compressedOutbound *bufio.Writer
	flusher            stream.Flusher
	encoder            *encoding.ProtobufEncoder
}

func newSender(w io.Writer, algo compression.Algorithm, b1, b3 int) *sender {
	s := &sender{}
	s.compressedOutbound = bufio.NewWriterSize(w, b3)
	s.compressor = algo.Compress(s.compressedOutbound)
	s.outbound = bufio.NewWriterSize(s.compressor, b1)
	s.flusher = stream.NewMultiFlusher(s.outbound, s.compressor, s.compressedOutbound)
	s.encoder = encoding.NewProtobufEncoder(s.outbound)
	return s
}

type receiverSide struct {
	decompressor io.ReadCloser
	decoder      *encoding.ProtobufDecoder
}

func newReceiver(r io.Reader, algo compression.Algorithm, b1, b3 int) *receiverSide {
	compressedInbound := bufio.NewReaderSize(r, b3)
	decompressor := algo.Decompress(compressedInbound)
	inbound := bufio.NewReaderSize(decompressor, b1)
	return &receiverSide{decompressor: decompressor, decoder: encoding.NewProtobufDecoder(inbound)}
}

func algorithms() []compression.Algorithm {
	var out []compression.Algorithm
	for _, a := range []compression.Algorithm{compression.Algorithm_AlgorithmNone, compression.Algorithm_AlgorithmDeflate, compression.Algorithm_AlgorithmZstandard} {
		if a.SupportStatus() == compression.AlgorithmSupportStatusSupported {
			out = append(out, a)
		}
	}
	return out
}

func algoName(a compression.Algorithm) string {
	b, _ := a.MarshalText()
	return string(b)
}

func algoByName(n string) compression.Algorithm {
	var a compression.Algorithm
	if err := a.UnmarshalText([]byte(n)); err != nil {
		vlib.Fatal("unknown algorithm %q", n)
	}
	return a
}

// synchronous = the decompressor pulls from the stream only on the decoder's demand, so "the pipe
// reader is blocked" means "the decoder is blocked"
func synchronous(a compression.Algorithm) bool {
	return a == compression.Algorithm_AlgorithmNone || a == compression.Algorithm_AlgorithmDeflate
}

// ---------------------------------------------------------------------------
// scripted behaviours

// step: a = "enc" (n = body bytes, kind = payload kind), "flush", "sync"
type step struct {
	A    string `json:"a"`
	N    int    `json:"n"`
	Kind int    `json:"k"`
}

type frameCase struct {
	Algo   string `json:"algo"`
	B1     int    `json:"b1"`
	B3     int    `json:"b3"`
	Script []step `json:"script"`
	Frags  []int  `json:"frags"`
	Seed   int    `json:"seed"`
	Src    string `json:"src"`
}

// payload builds the body of message i deterministically from the case seed.
func payload(seed, i, n, kind int) []byte {
	b := make([]byte, n)
	r := rand.New(rand.NewSource(int64(seed)*1000003 + int64(i)))
	switch kind % 3 {
	case 0: // incompressible
		r.Read(b)
	case 1: // highly compressible
		v := byte(r.Intn(256))
		for k := range b {
			b[k] = v
		}
	default: // text-like
		for k := range b {
			b[k] = "abcdefgh \n"[r.Intn(10)]
		}
	}
	return b
}

func desc(b []byte) []int { return []int{len(b), int(crc32.ChecksumIEEE(b) & 0x3fffffff)} }

func frameRun(c *vlib.Ctx, fc frameCase) {
	algo := algoByName(fc.Algo)
	h := newHub()
	p := &pipe{h: h, frags: fc.Frags}
	snd := newSender(p, algo, fc.B1, fc.B3)
	rcv := newReceiver(p, algo, fc.B1, fc.B3)

	var decoded [][]int
	decoderDone := false
	decodeErr := ""
	go func() {
		msg := &rsync.Transmission{}
		for {
			err := rcv.decoder.Decode(msg)
			h.mu.Lock()
			if err != nil {
				decodeErr = errStr(err)
				decoderDone = true
				h.cond.Broadcast()
				h.mu.Unlock()
				return
			}
			var body []byte
			if msg.Operation != nil {
				body = msg.Operation.Data
			}
			decoded = append(decoded, desc(body))
			h.cond.Broadcast()
			h.mu.Unlock()
		}
	}()
	watchdog := time.AfterFunc(60*time.Second, func() {
		h.mu.Lock()
		h.expired = true
		h.cond.Broadcast()
		h.mu.Unlock()
	})
	defer watchdog.Stop()

	// quiesce waits until the peer has decoded `want` messages or cannot go on without more bytes
	quiesce := func(want int) (int, bool, bool) {
		h.mu.Lock()
		defer h.mu.Unlock()
		for !(len(decoded) >= want || p.starvedLocked() || decoderDone || h.expired) {
			h.cond.Wait()
		}
		if !synchronous(algo) && len(decoded) < want && !decoderDone && !h.expired {
			// a read-ahead decompressor may be blocked on the pipe while the decoder still works
			deadline := time.Now().Add(2 * time.Second)
			for len(decoded) < want && time.Now().Before(deadline) {
				h.mu.Unlock()
				time.Sleep(5 * time.Millisecond)
				h.mu.Lock()
			}
		}
		return len(decoded), len(decoded) < want && p.starvedLocked(), h.expired
	}

	message := &rsync.Transmission{Operation: &rsync.Operation{}} // re-used and mutated, like the real senders do
	var written [][]int
	var flushes []any
	encErr, hung := "", false
	for _, st := range fc.Script {
		switch st.A {
		case "enc":
			body := payload(fc.Seed, len(written), st.N, st.Kind)
			if st.N == 0 {
				*message = rsync.Transmission{}
			} else {
				if message.Operation == nil {
					message.Operation = &rsync.Operation{}
				}
				message.Operation.Data = body
			}
			if err := snd.encoder.Encode(message); err != nil {
				encErr = errStr(err)
			}
			written = append(written, desc(body))
		case "flush":
			ferr := snd.flusher.Flush()
			n, starved, exp := quiesce(len(written))
			hung = hung || exp
			h.mu.Lock()
			wire := p.total
			h.mu.Unlock()
			flushes = append(flushes, map[string]any{"written": len(written), "decoded": n, "starved": starved, "wire": wire, "err": errStr(ferr)})
		case "sync":
			_, _, exp := quiesce(len(written))
			hung = hung || exp
		}
	}
	// end of stream: let the decoder run out
	p.close()
	h.mu.Lock()
	for !decoderDone && !h.expired {
		h.cond.Wait()
	}
	hung = hung || h.expired
	out := make([]any, 0, len(decoded))
	for _, d := range decoded {
		out = append(out, d)
	}
	finalErr := decodeErr
	h.mu.Unlock()
	rcv.decompressor.Close()

	wr := make([]any, 0, len(written))
	for _, d := range written {
		wr = append(wr, d)
	}
	if flushes == nil {
		flushes = []any{}
	}
	rec := map[string]any{
		"ev": "Frame", "in": vlib.ToMap(fc), "written": wr, "flushes": flushes, "decoded": out,
		"encErr": encErr, "endErr": finalErr, "hung": hung,
	}
	c.Emit(rec)
	c.Eval()
	c.TraceDone()
	if len(flushes) > 0 && len(written) > 0 {
		c.NonTrivial(rec["in"])
	}
	if len(fc.Script) <= 6 && fc.B1 < 1000 && len(fc.Frags) > 0 {
		c.Sample(rec)
	}
}

// frameLen returns the number of bytes ProtobufEncoder writes for a body of n bytes.
func frameLen(n int) int {
	m := &rsync.Transmission{}
	if n > 0 {
		m.Operation = &rsync.Operation{Data: make([]byte, n)}
	}
	sz := proto.Size(m)
	var tmp [binary.MaxVarintLen64]byte
	return sz + binary.PutUvarint(tmp[:], uint64(sz))
}

// bodyFor finds a body length whose frame has exactly `frame` bytes (or the closest below).
func bodyFor(frame int) int {
	n := frame
	for n > 0 && frameLen(n) > frame {
		n--
	}
	return n
}

// modelSize maps a frame length of the model (units, buffer capacity 3) to a body size for buffers of b bytes.
func modelSize(r *rand.Rand, units, b int) int {
	switch units {
	case 1:
		return 0 // empty message: prefix only
	case 2:
		return 1 + r.Intn(b/4)
	case 3:
		return bodyFor(b) // frame fills the buffer exactly
	case 4:
		return bodyFor(b + 1 + r.Intn(b-2))
	default:
		return bodyFor(2*b + 1 + r.Intn(b))
	}
}

var fragPatterns = [][]int{{0}, {1}, {2, 1}, {7}, {1, 300, 5}, {4096}, {65536, 1}}

func randomScript(r *rand.Rand, b int, allowHuge bool) []step {
	var s []step
	n := 1 + r.Intn(10)
	for i := 0; i < n; i++ {
		var sz int
		switch r.Intn(9) {
		case 0:
			sz = 0
		case 1, 2:
			sz = 1 + r.Intn(40)
		case 3:
			sz = bodyFor(b - 1 + r.Intn(3)) // around the bufio size
		case 4:
			sz = bodyFor(32*1024 - 2 + r.Intn(5)) // around the encoder's / decoder's initial buffer
		case 5:
			sz = b + 1 + r.Intn(2*b)
		case 6:
			if allowHuge {
				sz = 1024*1024 - 8 + r.Intn(300000) // around the maximum persistent buffer size
			} else {
				sz = r.Intn(3 * b)
			}
		default:
			sz = r.Intn(b)
		}
		s = append(s, step{A: "enc", N: sz, Kind: r.Intn(3)})
		if r.Intn(3) == 0 {
			s = append(s, step{A: "flush"})
		}
		if r.Intn(4) == 0 {
			s = append(s, step{A: "sync"})
		}
	}
	return append(s, step{A: "flush"})
}

// ---------------------------------------------------------------------------
// oversize declared lengths

func limbs(v uint64) []int {
	return []int{int(v >> 48), int((v >> 24) & 0xffffff), int(v & 0xffffff)}
}

// oversizeChild runs in a child process of the driver (a decoder that allocates what an
// attacker declares can exhaust memory, which Go reports by killing the process). Arguments:
// algorithm, then cases "hi:mid:lo:trailing". For each case it sends the raw prefix through the
// chain, calls the real Decode once and prints one line with what it observed.
func oversizeChild(args []string) {
	if len(args) < 2 {
		os.Exit(64)
	}
	// keep a runaway allocation from hurting the machine
	lim := syscall.Rlimit{Cur: 24 << 30, Max: 24 << 30}
	syscall.Setrlimit(syscall.RLIMIT_AS, &lim)
	algo := algoByName(args[0])
	for _, cs := range args[1:] {
		var hi, mid, lo, trailing int
		if _, err := fmt.Sscanf(cs, "%d:%d:%d:%d", &hi, &mid, &lo, &trailing); err != nil {
			os.Exit(64)
		}
		declared := uint64(hi)<<48 | uint64(mid)<<24 | uint64(lo)
		h := newHub()
		p := &pipe{h: h}
		snd := newSender(p, algo, controlStreamBufferSize, controlStreamBufferSize)
		rcv := newReceiver(p, algo, controlStreamBufferSize, controlStreamBufferSize)
		var hdr [binary.MaxVarintLen64]byte
		k := binary.PutUvarint(hdr[:], declared)
		snd.outbound.Write(hdr[:k])
		snd.outbound.Write(make([]byte, trailing))
		snd.flusher.Flush()
		p.close() // a decoder that goes for the body finds the end of the stream instead of blocking
		msg := &rsync.Transmission{}
		var before, after runtime.MemStats
		panicked := false
		var err error
		runtime.ReadMemStats(&before)
		func() {
			defer func() {
				if r := recover(); r != nil {
					panicked = true
					err = fmt.Errorf("panic: %v", r)
				}
			}()
			err = rcv.decoder.Decode(msg)
		}()
		runtime.ReadMemStats(&after)
		rcv.decompressor.Close()
		out, _ := json.Marshal(map[string]any{"err": errStr(err), "panicked": panicked,
			"alloc_mb": int((after.TotalAlloc - before.TotalAlloc) >> 20)})
		os.Stdout.Write(append(out, '\n'))
		msg = nil
		runtime.GC()
	}
}

type overCase struct{ hi, mid, lo, trailing int }

// oversizeRuns executes the cases in child processes: one child handles as many cases as it
// survives; the case it died on is recorded as crashed and a new child takes the rest.
func oversizeRuns(c *vlib.Ctx, algoN string, cases []overCase) {
	self, err := os.Executable()
	if err != nil {
		vlib.Fatal("%v", err)
	}
	for len(cases) > 0 {
		args := []string{"oversize-child", algoN}
		for _, k := range cases {
			args = append(args, fmt.Sprintf("%d:%d:%d:%d", k.hi, k.mid, k.lo, k.trailing))
		}
		ctx, cancel := context.WithTimeout(context.Background(), 300*time.Second)
		cmd := exec.CommandContext(ctx, self, args...)
		var stderr bytes.Buffer
		cmd.Stderr = &stderr
		stdout, _ := cmd.Output()
		cancel()
		done := 0
		for _, line := range strings.Split(string(stdout), "\n") {
			var obs struct {
				Err      string `json:"err"`
				Panicked bool   `json:"panicked"`
				AllocMB  int    `json:"alloc_mb"`
			}
			if done >= len(cases) || json.Unmarshal([]byte(line), &obs) != nil {
				continue
			}
			emitOversize(c, algoN, cases[done], obs.Err, obs.Panicked, false, obs.AllocMB, "")
			done++
		}
		if done < len(cases) {
			// the process died (out of memory, fatal error) or timed out on this case: that is the observation
			first := strings.SplitN(stderr.String(), "\n", 2)[0]
			emitOversize(c, algoN, cases[done], "", false, true, 0, errStr(errors.New(first)))
			done++
		}
		cases = cases[done:]
	}
}

func emitOversize(c *vlib.Ctx, algoN string, k overCase, e string, panicked, crashed bool, alloc int, crash string) {
	rec := map[string]any{
		"ev": "Oversize", "in": map[string]any{"algo": algoN, "declared": []int{k.hi, k.mid, k.lo}, "trailing": k.trailing},
		"err": e, "panicked": panicked, "crashed": crashed, "alloc_mb": alloc, "crash": crash,
	}
	c.Emit(rec)
	c.Eval()
	c.NonTrivial(rec["in"])
	if k.lo == 4194305 && k.hi == 0 {
		c.Sample(rec)
	}
}

// ---------------------------------------------------------------------------
// the assembly in client.go / server.go itself

type duplex struct {
	r *pipe
	w *pipe
}

func (d *duplex) Read(b []byte) (int, error)  { return d.r.Read(b) }
func (d *duplex) Write(b []byte) (int, error) { return d.w.Write(b) }
func (d *duplex) Close() error                { d.r.close(); d.w.close(); return nil }

func assemblyRun(c *vlib.Ctx, side, algoN string, frags []int) {
	algo := algoByName(algoN)
	h := newHub()
	c2s := &pipe{h: h, frags: frags}
	s2c := &pipe{h: h, frags: frags}
	logger := logging.NewLogger(logging.LevelDisabled, io.Discard)
	root, _ := filepath.Abs(c.TempDir("root"))
	defer os.RemoveAll(root)
	config := &synchronization.Configuration{CompressionAlgorithm: algo, WatchMode: synchronization.WatchMode_WatchModeNoWatch}
	watchdog := time.AfterFunc(60*time.Second, func() {
		h.mu.Lock()
		h.expired = true
		h.cond.Broadcast()
		h.mu.Unlock()
	})
	defer watchdog.Stop()
	realDone := false
	realErr := ""
	got, starved := false, false
	peerErr := ""
	var mine, theirs *pipe // mine: the harness reads it; theirs: the real code reads it
	if side == "client" {
		mine, theirs = c2s, s2c
		go func() {
			ep, err := remote.NewEndpoint(logger, &duplex{r: s2c, w: c2s}, root, "sess_verif", synchronization.Version_Version1, config, true)
			if ep != nil {
				ep.Shutdown()
			}
			h.mu.Lock()
			realDone, realErr = true, errStr(err)
			h.cond.Broadcast()
			h.mu.Unlock()
		}()
	} else {
		mine, theirs = s2c, c2s
		go func() {
			err := remote.ServeEndpoint(logger, &duplex{r: c2s, w: s2c})
			h.mu.Lock()
			realDone, realErr = true, errStr(err)
			h.cond.Broadcast()
			h.mu.Unlock()
		}()
	}
	// the harness's own side of the conversation; its decoder runs in a goroutine so that
	// starvation is observed, not waited for
	decoded := false
	hdone := false
	go func() {
		var err error
		defer func() {
			h.mu.Lock()
			hdone = true
			if err != nil {
				peerErr = errStr(err)
			}
			h.cond.Broadcast()
			h.mu.Unlock()
		}()
		if side == "client" {
			// play the server: compression handshake, then read the initialize request
			var one [1]byte
			if _, err = io.ReadFull(mine, one[:]); err != nil {
				return
			}
			if _, err = theirs.Write([]byte{1}); err != nil {
				return
			}
			rc := newReceiver(mine, algo, controlStreamBufferSize, controlStreamBufferSize)
			req := &remote.InitializeSynchronizationRequest{}
			if err = rc.decoder.Decode(req); err != nil {
				return
			}
			h.mu.Lock()
			decoded = req.Session == "sess_verif"
			h.cond.Broadcast()
			h.mu.Unlock()
		} else {
			// play the client: handshake, initialize request, then read the response
			if _, err = theirs.Write([]byte{byte(algo)}); err != nil {
				return
			}
			var one [1]byte
			if _, err = io.ReadFull(mine, one[:]); err != nil {
				return
			}
			sn := newSender(theirs, algo, controlStreamBufferSize, controlStreamBufferSize)
			req := &remote.InitializeSynchronizationRequest{Root: root, Session: "sess_verif", Version: synchronization.Version_Version1, Configuration: config, Alpha: true}
			if err = sn.encoder.Encode(req); err != nil {
				return
			}
			if err = sn.flusher.Flush(); err != nil {
				return
			}
			rc := newReceiver(mine, algo, controlStreamBufferSize, controlStreamBufferSize)
			resp := &remote.InitializeSynchronizationResponse{}
			if err = rc.decoder.Decode(resp); err != nil {
				return
			}
			h.mu.Lock()
			decoded = true
			if resp.Error != "" {
				peerErr = "response: " + errStr(errors.New(resp.Error))
			}
			h.cond.Broadcast()
			h.mu.Unlock()
		}
	}()
	// outcome: the harness decoded the flushed message, or both ends are blocked reading empty
	// pipes (the real side waits for the next message, the harness's decoder is starved)
	h.mu.Lock()
	for !(decoded || hdone || h.expired || (mine.starvedLocked() && (theirs.starvedLocked() || realDone))) {
		h.cond.Wait()
	}
	got = decoded
	starved = !decoded && mine.starvedLocked()
	hung := h.expired
	h.mu.Unlock()
	// tear down
	c2s.close()
	s2c.close()
	h.mu.Lock()
	for !(realDone && hdone) && !h.expired {
		h.cond.Wait()
	}
	rec := map[string]any{
		"ev": "Assembly", "in": map[string]any{"side": side, "algo": algoN, "frags": frags},
		"got": got, "starved": starved, "hung": hung || h.expired, "realErr": realErr, "peerErr": peerErr,
	}
	h.mu.Unlock()
	c.Emit(rec)
	c.Eval()
	c.NonTrivial(rec["in"])
	if len(frags) == 1 {
		c.Sample(rec)
	}
}

// ---------------------------------------------------------------------------

func run(c *vlib.Ctx) error {
	if c.Prop != "C22" {
		return fmt.Errorf("driver framing does not serve property %s", c.Prop)
	}
	setDataDir(c)
	algos := algorithms()
	var names []string
	for _, a := range algos {
		names = append(names, algoName(a))
	}
	c.SetExtra("algorithms", strings.Join(names, ","))
	nrand := argInt(c, "rand", 150)
	nbig := argInt(c, "bigbuf", 40)
	every := argInt(c, "every", 1)

	// 1. behaviours exported by TLC: every sender script of the bound x algorithm x fragmentation pattern,
	//    with small buffers (the model's proportions) and, for a sample, the real 64 KiB buffers
	beh := c.ReadBehaviours()
	for bi, b := range beh {
		if bi%every != 0 {
			continue
		}
		steps, _ := b["steps"].([]any)
		for ai, an := range names {
			for _, bufs := range []int{64, controlStreamBufferSize} {
				if bufs == controlStreamBufferSize && (bi+ai)%argInt(c, "realbuf_every", 8) != 0 {
					continue
				}
				var script []step
				r := rand.New(rand.NewSource(c.Seed*7919 + int64(bi)))
				for _, sv := range steps {
					m := sv.(map[string]any)
					switch m["a"] {
					case "enc":
						var units int
						vlib.Decode(m["n"], &units)
						script = append(script, step{A: "enc", N: modelSize(r, units, bufs), Kind: r.Intn(3)})
					case "flush":
						script = append(script, step{A: "flush"})
					case "deliver":
						script = append(script, step{A: "sync"})
					}
				}
				frags := fragPatterns[(bi+ai+int(c.Seed))%len(fragPatterns)]
				frameRun(c, frameCase{Algo: an, B1: bufs, B3: bufs, Script: script, Frags: frags, Seed: int(c.Seed)*100000 + bi, Src: "tlc"})
			}
		}
	}
	c.SetExtra("tlc_behaviours", len(beh))

	// 2. seeded random scripts
	for i := 0; i < nrand; i++ {
		an := names[i%len(names)]
		bufs := []int{16, 64, 200, 4096}[c.Rand.Intn(4)]
		frags := []int{}
		for k := c.Rand.Intn(4); k >= 0; k-- {
			frags = append(frags, []int{0, 1, 2, 3, 9, 100, 5000}[c.Rand.Intn(7)])
		}
		frameRun(c, frameCase{Algo: an, B1: bufs, B3: []int{bufs, 16, 4096}[c.Rand.Intn(3)], Script: randomScript(c.Rand, bufs, false), Frags: frags, Seed: c.Rand.Intn(1 << 30), Src: "rand"})
	}
	for i := 0; i < nbig; i++ {
		an := names[i%len(names)]
		frags := fragPatterns[c.Rand.Intn(len(fragPatterns))]
		frameRun(c, frameCase{Algo: an, B1: controlStreamBufferSize, B3: controlStreamBufferSize, Script: randomScript(c.Rand, controlStreamBufferSize, i%5 == 0), Frags: frags, Seed: c.Rand.Intn(1 << 30), Src: "rand"})
	}

	// 3. declared lengths around and far above the limit
	const limit = 100 * 1024 * 1024
	over := []uint64{limit + 1, limit + 2, 1 << 27, 1<<31 - 1, 1 << 31, 1<<32 + 5, 1 << 40, 1<<63 - 1, 1 << 63, 1<<64 - 1}
	under := []uint64{0, 3, 70000}
	if c.Thorough() {
		under = append(under, limit)
	}
	for _, an := range names {
		var cases []overCase
		for _, v := range append(over, under...) {
			l := limbs(v)
			cases = append(cases, overCase{l[0], l[1], l[2], 5})
		}
		for i := 0; i < argInt(c, "overrand", 20); i++ {
			v := uint64(limit) + 1 + uint64(c.Rand.Int63n(1<<40))
			if i%2 == 0 {
				v = c.Rand.Uint64() | 1<<33
			}
			l := limbs(v)
			cases = append(cases, overCase{l[0], l[1], l[2], c.Rand.Intn(50)})
		}
		oversizeRuns(c, an, cases)
	}

	// 4. the real assembly
	for _, an := range names {
		for _, side := range []string{"client", "server"} {
			for _, fr := range [][]int{{0}, {1}, {3, 1000}} {
				assemblyRun(c, side, an, fr)
			}
		}
	}
	return nil
}

func setDataDir(c *vlib.Ctx) {
	d, err := filepath.Abs(c.TempDir("data"))
	if err != nil {
		vlib.Fatal("%v", err)
	}
	os.Setenv("MUTAGEN_DATA_DIRECTORY", d)
}

func replay(c *vlib.Ctx) error {
	setDataDir(c)
	doc := c.LoadReplay()
	begin, _ := doc["begin"].(map[string]any)
	in, _ := begin["in"].(map[string]any)
	if begin == nil || in == nil {
		return errors.New("replay file has no begin.in")
	}
	switch begin["ev"] {
	case "Frame":
		var fc frameCase
		vlib.Decode(in, &fc)
		frameRun(c, fc)
	case "Oversize":
		var d []int
		vlib.Decode(in["declared"], &d)
		var tr int
		vlib.Decode(in["trailing"], &tr)
		oversizeRuns(c, in["algo"].(string), []overCase{{d[0], d[1], d[2], tr}})
	case "Assembly":
		var fr []int
		vlib.Decode(in["frags"], &fr)
		assemblyRun(c, in["side"].(string), in["algo"].(string), fr)
	default:
		return fmt.Errorf("cannot replay record of kind %v", begin["ev"])
	}
	return nil
}
