// Command remote is the conformance driver of property C21 (remote endpoints
// behave exactly like local endpoints). See world.go for what one case is.
//
// Cases: every operation sequence TLC exports from spec/remote/RemoteOps.tla
// (one per edge of the abstract endpoint/client state graph, sequences of up to
// five operations with external edits in between), each bound to a concrete
// configuration (compression algorithm, watch mode, pipe capacity, bulk size,
// entry limit) chosen deterministically from the seed; plus seeded random longer
// sequences. The driver records; it computes no verdict.
package main

import (
	"errors"
	"fmt"
	"math/rand"
	"os"
	"path/filepath"
	"runtime"
	"strconv"
	"strings"
	"sync"

	"verif/harness/internal/vlib"
)

func main() { vlib.Main(run, replay) }

func argInt(c *vlib.Ctx, name string, def int) int {
	for _, a := range c.Args {
		if strings.HasPrefix(a, name+"=") {
			if v, err := strconv.Atoi(a[len(name)+1:]); err == nil {
				return v
			}
		}
	}
	return def
}

func dataDir(c *vlib.Ctx) string {
	d, err := filepath.Abs(c.TempDir("data"))
	if err != nil {
		vlib.Fatal("%v", err)
	}
	os.Setenv("MUTAGEN_DATA_DIRECTORY", d)
	os.Unsetenv("MUTAGEN_SIDECAR")
	return d
}

// stepsOf decodes one exported behaviour into operations.
func stepsOf(b map[string]any) []opSpec {
	var ops []opSpec
	arr, _ := b["steps"].([]any)
	for _, s := range arr {
		m, ok := s.(map[string]any)
		if !ok {
			continue
		}
		var o opSpec
		vlib.Decode(m, &o)
		ops = append(ops, o)
	}
	return ops
}

func hasKind(ops []opSpec, op, kind string) bool {
	for _, o := range ops {
		if o.Op == op && (kind == "" || o.Kind == kind) {
			return true
		}
	}
	return false
}

// distinct drops repeated behaviours (TLC exports one line per edge of the state
// graph; many edges carry the same caller history), keeping the first of each.
func distinct(beh []map[string]any) []map[string]any {
	seen := map[string]bool{}
	var out []map[string]any
	for _, b := range beh {
		k := fmt.Sprint(b)
		if !seen[k] {
			seen[k] = true
			out = append(out, b)
		}
	}
	return out
}

// sprinkle adds, between the operations of a model behaviour, the external
// edits the model does not distinguish (content changes of the mirrored roots
// and of the source), so that scans, stagings and transitions have work to do.
func sprinkle(r *rand.Rand, ops []opSpec) []opSpec {
	var out []opSpec
	for _, o := range ops {
		// the model's two populated ancestors stand for "similar to the content"
		// and "differs from it in the middle"; concretely also the previous
		// snapshot resp. unrelated trees
		if o.Op == "Scan" && o.Anc == "src" && r.Intn(4) == 0 {
			o.Anc = "prev"
		} else if o.Op == "Scan" && o.Anc == "srcmid" {
			switch r.Intn(4) {
			case 0:
				o.Anc = "junk"
			case 1:
				o.Anc = "big"
			}
		}
		if o.Op != "Edit" {
			if r.Intn(3) == 0 {
				out = append(out, opSpec{Op: "Edit", Kind: "mod"})
			}
			if r.Intn(3) == 0 {
				out = append(out, opSpec{Op: "Edit", Kind: "src"})
			}
		}
		out = append(out, o)
	}
	return out
}

var pipeCaps = []int{1 << 20, 4096, 64 * 1024}

// bind chooses the concrete configuration of a case.
func bind(r *rand.Rand, i int, algos []string, ops []opSpec, src string, model map[string]any) *caseSpec {
	cs := &caseSpec{Ops: ops, Src: src, Sync: "tws", Watch: "nowatch"}
	cs.Algo = algos[i%len(algos)]
	if r.Intn(12) == 0 {
		cs.Algo = "default"
	}
	cs.Pipe = pipeCaps[r.Intn(len(pipeCaps))]
	cs.Alpha = r.Intn(2) == 0
	cs.Seed = int64(r.Intn(1 << 30))
	// a bulk part makes serialised snapshots span several rsync blocks, so
	// that snapshot deltas carry block references and not only literal data
	bulkEvery := 6
	if src == "rand" {
		bulkEvery = 3
	}
	bulky := r.Intn(bulkEvery) == 0
	if largeAncestor(ops) {
		// large ancestors are baselines for large snapshots
		bulky = r.Intn(3) > 0
	}
	if bulky {
		cs.Bulk = 100 + r.Intn(80)
	}
	if model != nil {
		// the model's configuration of this behaviour
		if v, ok := model["watch"].(string); ok {
			cs.Watch = v
		}
		if v, ok := model["readonly"].(bool); ok && v {
			cs.Alpha, cs.Sync = true, "owr"
		}
		if v, ok := model["limit"].(bool); ok && v && hasKind(ops, "Edit", "grow") {
			cs.Max = 30
		}
		// A history of the no-watch model is also a history of a polling
		// endpoint whose poller never fires again; there the full flag decides
		// between the poller's snapshot and a fresh scan.
		if cs.Watch == "nowatch" && !cs.Alpha && r.Intn(4) == 0 {
			cs.Watch = "poll"
			flipped := make([]opSpec, len(ops))
			copy(flipped, ops)
			for i := range flipped {
				if flipped[i].Op == "Scan" && r.Intn(2) == 0 {
					flipped[i].Full = true
				}
			}
			cs.Ops = flipped
		}
	} else {
		if r.Intn(4) == 0 {
			cs.Watch = "poll"
		}
		if r.Intn(14) == 0 {
			cs.Alpha, cs.Sync = true, "owr"
		}
		if hasKind(ops, "Edit", "grow") {
			cs.Max = 30
		}
	}
	if cs.Max > 0 {
		// the limit sits above the populated tree and below the grown one
		cs.Max = cs.Bulk + 80
	}
	return cs
}

func largeAncestor(ops []opSpec) bool {
	for _, o := range ops {
		if o.Op == "Scan" && (o.Anc == "src" || o.Anc == "srcmid" || o.Anc == "big") {
			return true
		}
	}
	return false
}

// ancestorHistory: scans that return no content or are refused (TryAgain) while
// the client holds no snapshot bytes yet, each with another ancestor, and then
// the first populated snapshot with yet another one.
func ancestorHistory(r *rand.Rand) []opSpec {
	kinds := []string{"src", "srcmid", "big", "src", "srcmid", "prev", "nil", "junk"}
	pick := func(not string) string {
		for {
			k := kinds[r.Intn(len(kinds))]
			if k != not {
				return k
			}
		}
	}
	x := pick("")
	y := pick(x)
	var ops []opSpec
	if r.Intn(2) == 0 {
		ops = append(ops, opSpec{Op: "Edit", Kind: "rm"}, opSpec{Op: "Scan", Anc: x, Full: r.Intn(2) == 0})
		if r.Intn(2) == 0 {
			ops = append(ops, opSpec{Op: "Scan", Anc: pick(x)})
		}
		ops = append(ops, opSpec{Op: "Edit", Kind: "mk"})
	} else {
		ops = append(ops, opSpec{Op: "Edit", Kind: "grow"}, opSpec{Op: "Scan", Anc: x, Full: r.Intn(2) == 0})
		if r.Intn(3) == 0 {
			ops = append(ops, opSpec{Op: "Edit", Kind: "rm"}, opSpec{Op: "Scan", Anc: pick(x)}, opSpec{Op: "Edit", Kind: "mk"})
		} else {
			ops = append(ops, opSpec{Op: "Edit", Kind: "shrink"})
		}
	}
	ops = append(ops, opSpec{Op: "Scan", Anc: y, Full: r.Intn(2) == 0}, opSpec{Op: "Scan", Anc: pick(y)})
	return ops
}

func randomOps(r *rand.Rand, n int) []opSpec {
	var ops []opSpec
	ancs := []string{"nil", "prev", "src", "junk", "srcmid", "big"}
	grown := false
	if r.Intn(2) == 0 {
		ops = ancestorHistory(r)
		for _, o := range ops {
			if o.Kind == "grow" {
				grown = true
			}
			if o.Kind == "shrink" {
				grown = false
			}
		}
	}
	for len(ops) < n {
		switch k := r.Intn(20); {
		case k < 5:
			kinds := []string{"mod", "mod", "src", "src", "rm", "mk"}
			ops = append(ops, opSpec{Op: "Edit", Kind: kinds[r.Intn(len(kinds))]})
		case k < 6:
			if grown {
				ops = append(ops, opSpec{Op: "Edit", Kind: "shrink"})
			} else {
				ops = append(ops, opSpec{Op: "Edit", Kind: "grow"})
			}
			grown = !grown
		case k < 11:
			ops = append(ops, opSpec{Op: "Scan", Full: r.Intn(2) == 0, Anc: ancs[r.Intn(len(ancs))], Cancel: r.Intn(9) == 0})
		case k < 12:
			ops = append(ops, opSpec{Op: "Scan", Anc: "prev"}, opSpec{Op: "Stage", Bad: r.Intn(3) == 0})
			if r.Intn(2) == 0 {
				ops = append(ops, opSpec{Op: "Trans"})
			}
		case k < 13:
			// a second staging finds part of what it needs already in the store
			ops = append(ops, opSpec{Op: "Scan", Anc: "prev"}, opSpec{Op: "Stage"}, opSpec{Op: "Edit", Kind: "src"},
				opSpec{Op: "Scan", Anc: "prev"}, opSpec{Op: "Stage"}, opSpec{Op: "Trans"})
		case k < 14:
			// staged content that is stale by the time it is applied
			ops = append(ops, opSpec{Op: "Scan", Anc: "src"}, opSpec{Op: "Stage"}, opSpec{Op: "Edit", Kind: "src"}, opSpec{Op: "Trans"})
		case k < 16:
			ops = append(ops, opSpec{Op: "Supply", Bad: r.Intn(3) == 0})
		case k < 19:
			if r.Intn(3) > 0 {
				ops = append(ops, opSpec{Op: "Scan", Anc: ancs[r.Intn(len(ancs))]})
				if r.Intn(2) == 0 {
					ops = append(ops, opSpec{Op: "Stage"})
				}
			}
			ops = append(ops, opSpec{Op: "Trans", Cancel: r.Intn(12) == 0})
		default:
			ops = append(ops, opSpec{Op: "Poll"})
		}
	}
	return ops
}

type caseResult struct {
	records []map[string]any
	nontriv int
	err     error
}

func runAll(c *vlib.Ctx, data string, cases []*caseSpec, workers int) {
	results := make([]*caseResult, len(cases))
	ready := make([]chan struct{}, len(cases))
	for i := range ready {
		ready[i] = make(chan struct{})
	}
	jobs := make(chan int)
	var wg sync.WaitGroup
	for k := 0; k < workers; k++ {
		wg.Add(1)
		go func() {
			defer wg.Done()
			for i := range jobs {
				recs, nt, err := runCase(c.Scratch, data, fmt.Sprintf("k%d", i), cases[i])
				results[i] = &caseResult{recs, nt, err}
				close(ready[i])
			}
		}()
	}
	go func() {
		for i := range cases {
			jobs <- i
		}
		close(jobs)
	}()
	hangs := 0
	for i := range cases {
		<-ready[i]
		res := results[i]
		results[i] = nil
		if res.err != nil {
			vlib.Fatal("case %d (%v): %v", i, specToMap(cases[i]), res.err)
		}
		for _, r := range res.records {
			c.Emit(r)
			if r["ev"] == "End" && r["hung"] == true {
				hangs++
			}
		}
		c.Eval()
		c.TraceDone()
		if res.nontriv > 0 {
			c.NonTrivial(fmt.Sprintf("%d/%v", i, specToMap(cases[i])))
		}
		if i < 2 || i == len(cases)-1 {
			c.Sample(map[string]any{"case": specToMap(cases[i]), "records": len(res.records)})
		}
	}
	wg.Wait()
	c.SetExtra("watchdog_expiries", hangs)
}

func run(c *vlib.Ctx) error {
	data := dataDir(c)
	algos := supportedAlgos()
	if len(algos) == 0 {
		return errors.New("no supported compression algorithm")
	}
	c.SetExtra("compression_algorithms", strings.Join(algos, ","))
	var cases []*caseSpec

	// 1. behaviours exported by TLC
	beh := c.ReadBehaviours()
	nexported := len(beh)
	beh = distinct(beh)
	maxBeh := argInt(c, "maxbeh", 0)
	pick := make([]int, len(beh))
	for i := range pick {
		pick[i] = i
	}
	if maxBeh > 0 && len(beh) > maxBeh {
		// a seeded sample of the exported edges (all of them in the thorough tier)
		rand.New(rand.NewSource(c.Seed*31+7)).Shuffle(len(pick), func(i, j int) { pick[i], pick[j] = pick[j], pick[i] })
		pick = pick[:maxBeh]
	}
	nb := 0
	for _, bi := range pick {
		ops := stepsOf(beh[bi])
		if len(ops) == 0 {
			continue
		}
		model, _ := beh[bi]["cfg"].(map[string]any)
		cases = append(cases, bind(c.Rand, nb, algos, sprinkle(c.Rand, ops), "tlc", model))
		nb++
	}
	c.SetExtra("tlc_behaviours_exported", nexported)
	c.SetExtra("tlc_behaviours_distinct", len(beh))
	c.SetExtra("tlc_behaviours_run", nb)
	c.SetExhaustive(nb == len(beh) && nb > 0)

	// 2. seeded random longer sequences
	nrand := argInt(c, "rand", 100)
	for i := 0; i < nrand; i++ {
		ops := randomOps(c.Rand, 6+c.Rand.Intn(10))
		cases = append(cases, bind(c.Rand, i, algos, ops, "rand", nil))
	}
	c.SetExtra("random_cases", nrand)

	workers := argInt(c, "workers", 6)
	if n := runtime.NumCPU(); workers > n {
		workers = n
	}
	runAll(c, data, cases, workers)
	return nil
}

func replay(c *vlib.Ctx) error {
	data := dataDir(c)
	doc := c.LoadReplay()
	begin, _ := doc["begin"].(map[string]any)
	in, _ := begin["in"].(map[string]any)
	if begin == nil || in == nil {
		return errors.New("replay file has no begin.in")
	}
	var cs caseSpec
	vlib.Decode(in, &cs)
	recs, _, err := runCase(c.Scratch, data, "k0", &cs)
	if err != nil {
		return err
	}
	for _, r := range recs {
		c.Emit(r)
	}
	c.Eval()
	c.TraceDone()
	return nil
}
