// The case executor of the C21 driver. One case = two mirrored real roots L and
// R under the scratch directory. L is driven through local.NewEndpoint
// directly; R through remote.NewEndpoint <-> remote.ServeEndpoint connected by
// the in-memory duplex pipe of pipe.go. A third root S ("the other side of the
// session") is the source of new content: it is scanned through its own local
// endpoint, the transitions that would make L equal to S are computed with
// core.Diff, their dependencies are staged on L and on R and transmitted from S
// with rsync.Transmit (exactly what the controller does), and then applied.
//
// Every record holds the arguments that were passed and, side by side, what the
// local endpoint returned ("l") and what the remote endpoint returned ("r").
// The driver does not compare them: that is done by spec/remote/Remote_Trace.tla.
package main

import (
	"bytes"
	"context"
	"crypto/sha1"
	"encoding/hex"
	"fmt"
	"math/rand"
	"os"
	"path/filepath"
	"sort"
	"strings"
	"sync/atomic"
	"time"

	"google.golang.org/protobuf/proto"

	"github.com/mutagen-io/mutagen/pkg/synchronization"
	"github.com/mutagen-io/mutagen/pkg/synchronization/compression"
	"github.com/mutagen-io/mutagen/pkg/synchronization/core"
	"github.com/mutagen-io/mutagen/pkg/synchronization/endpoint/local"
	"github.com/mutagen-io/mutagen/pkg/synchronization/endpoint/remote"
	"github.com/mutagen-io/mutagen/pkg/synchronization/rsync"

	"verif/harness/internal/vtree"
)

// The watchdog of one endpoint call. It only ever turns a hang into a recorded
// fact; nothing is judged on shorter intervals. Once calls have hung in several
// cases (a broken protocol hangs in nearly every case) later calls are given up
// on sooner, so that the run still ends; they are recorded as hangs all the same.
const callTimeout = 45 * time.Second
const callTimeoutAfterHangs = 6 * time.Second

var hangCount int64

func watchdog() time.Duration {
	if atomic.LoadInt64(&hangCount) >= 3 {
		return callTimeoutAfterHangs
	}
	return callTimeout
}

type opSpec struct {
	Op     string `json:"op"`               // Edit Scan Stage Supply Trans Poll
	Kind   string `json:"kind,omitempty"`   // Edit: mod rm mk grow shrink src
	Full   bool   `json:"full,omitempty"`   // Scan
	Anc    string `json:"anc,omitempty"`    // Scan: nil prev src srcmid junk big
	Cancel bool   `json:"cancel,omitempty"` // Scan, Trans: the remote call gets a cancelled context
	Empty  bool   `json:"empty,omitempty"`  // Stage, Supply: an empty request
	Bad    bool   `json:"bad,omitempty"`    // Stage, Supply: some files of the batch cannot be opened when they are transmitted
}

type caseSpec struct {
	Algo  string   `json:"algo"`  // none deflate zstandard default
	Watch string   `json:"watch"` // nowatch poll
	Alpha bool     `json:"alpha"`
	Sync  string   `json:"sync"` // tws owr
	Max   int      `json:"max"`  // 0 = no entry limit configured
	Bulk  int      `json:"bulk"` // number of bulk files in the initial tree
	Pipe  int      `json:"pipe"` // pipe buffer capacity per direction
	Seed  int64    `json:"seed"`
	Ops   []opSpec `json:"ops"`
	Src   string   `json:"src"` // tlc | rand
}

var algoOf = map[string]compression.Algorithm{
	"default":   compression.Algorithm_AlgorithmDefault,
	"none":      compression.Algorithm_AlgorithmNone,
	"deflate":   compression.Algorithm_AlgorithmDeflate,
	"zstandard": compression.Algorithm_AlgorithmZstandard,
}

func supportedAlgos() []string {
	out := []string{}
	for _, n := range []string{"none", "deflate", "zstandard"} {
		if algoOf[n].SupportStatus() == compression.AlgorithmSupportStatusSupported {
			out = append(out, n)
		}
	}
	return out
}

// ---------------------------------------------------------------------------
// text normalisation

func (w *world) norm(s string) string {
	if s == "" {
		return ""
	}
	for _, r := range w.replacers {
		s = strings.ReplaceAll(s, r[0], r[1])
	}
	b := []byte(s)
	for i, ch := range b {
		switch {
		case ch == '"' || ch == '\\':
			b[i] = '\''
		case ch < 0x20 || ch > 0x7e:
			b[i] = '?'
		}
	}
	return string(b)
}

func (w *world) errText(err error) string {
	if err == nil {
		return ""
	}
	t := w.norm(err.Error())
	if t == "" {
		t = "error"
	}
	return t
}

func sha1hex(b []byte) string {
	h := sha1.Sum(b)
	return hex.EncodeToString(h[:])
}

// ---------------------------------------------------------------------------
// the world

type world struct {
	cs         *caseSpec
	cid        string
	dir        string
	data       string
	rootL      string
	rootR      string
	rootS      string
	sidL       string
	sidR       string
	sidS       string
	name       string // alpha | beta
	epL        synchronization.Endpoint
	epR        synchronization.Endpoint
	epS        synchronization.Endpoint
	serveDone  chan error
	tap        *wireTap
	rng        *rand.Rand
	clock      int64
	replacers  [][2]string
	records    []map[string]any
	hung       bool
	ended      bool
	rootThere  bool           // the driver's own knowledge of whether it left the mirrored roots in place
	lastL      *core.Snapshot // last snapshot the local endpoint returned
	srcSnap    *core.Snapshot // last snapshot of S
	nontriv    int
	executed   int // operations issued to both endpoints
	nextID     int
	used       []int
	unsynced   bool // the server may still be consuming staging transmissions
	ambiguous  map[string]bool
	vanishNext bool // the model's "vanish" edit: the next batch loses files before it is transmitted
	followup   bool // a scan of both endpoints follows: the connection must still be alive
}

var caseCounter int64

func configuration(cs *caseSpec) *synchronization.Configuration {
	cfg := &synchronization.Configuration{
		WatchMode:            synchronization.WatchMode_WatchModeNoWatch,
		CompressionAlgorithm: algoOf[cs.Algo],
	}
	if cs.Watch == "poll" {
		cfg.WatchMode = synchronization.WatchMode_WatchModeForcePoll
		cfg.WatchPollingInterval = 86400
	}
	if cs.Sync == "owr" {
		cfg.SynchronizationMode = core.SynchronizationMode_SynchronizationModeOneWayReplica
	}
	if cs.Max > 0 {
		cfg.MaximumEntryCount = uint64(cs.Max)
	}
	return cfg
}

// guard runs f under the call watchdog.
func (w *world) guard(f func()) bool {
	done := make(chan struct{})
	go func() { defer close(done); f() }()
	select {
	case <-done:
		return true
	case <-time.After(watchdog()):
		w.hung = true
		atomic.AddInt64(&hangCount, 1)
		return false
	}
}

func newWorld(scratch, data string, cid string, cs *caseSpec) (*world, error) {
	n := atomic.AddInt64(&caseCounter, 1)
	w := &world{cs: cs, cid: cid, data: data, rng: rand.New(rand.NewSource(cs.Seed*1000003 + 17)), ambiguous: map[string]bool{}}
	d, err := os.MkdirTemp(scratch, "c")
	if err != nil {
		return nil, err
	}
	w.dir = d
	w.rootL = filepath.Join(d, "L", "root")
	w.rootR = filepath.Join(d, "R", "root")
	w.rootS = filepath.Join(d, "S", "root")
	for _, r := range []string{w.rootL, w.rootR, w.rootS} {
		if err := os.MkdirAll(r, 0o755); err != nil {
			return nil, err
		}
	}
	w.rootThere = true
	w.sidL = fmt.Sprintf("sync_c21x%07dL", n)
	w.sidR = fmt.Sprintf("sync_c21x%07dR", n)
	w.sidS = fmt.Sprintf("sync_c21x%07dS", n)
	w.name = "beta"
	if cs.Alpha {
		w.name = "alpha"
	}
	w.replacers = [][2]string{
		{w.rootL, "<root>"}, {w.rootR, "<root>"},
		{filepath.Dir(w.rootL), "<rootparent>"}, {filepath.Dir(w.rootR), "<rootparent>"},
		{w.sidL, "<sid>"}, {w.sidR, "<sid>"}, {data, "<data>"},
	}
	return w, nil
}

// connect creates the three endpoints. It is called after the initial trees
// have been written.
func (w *world) connect() error {
	w.observeDuplicates()
	cfg := configuration(w.cs)
	var err error
	okL := w.guard(func() {
		w.epL, err = local.NewEndpoint(nil, w.rootL, w.sidL, synchronization.Version_Version1, cfg, w.cs.Alpha)
	})
	if !okL || err != nil {
		return fmt.Errorf("local endpoint: %v (completed=%v)", err, okL)
	}
	w.tap = &wireTap{}
	ce, se := newDuplex(w.cs.Pipe, w.tap)
	w.serveDone = make(chan error, 1)
	go func() { w.serveDone <- remote.ServeEndpoint(nil, se) }()
	okR := w.guard(func() {
		w.epR, err = remote.NewEndpoint(nil, ce, w.rootR, w.sidR, synchronization.Version_Version1, cfg, w.cs.Alpha)
	})
	if !okR || err != nil {
		ce.Close()
		return fmt.Errorf("remote endpoint: %v (completed=%v)", err, okR)
	}
	scfg := &synchronization.Configuration{WatchMode: synchronization.WatchMode_WatchModeNoWatch}
	w.epS, err = local.NewEndpoint(nil, w.rootS, w.sidS, synchronization.Version_Version1, scfg, !w.cs.Alpha)
	if err != nil {
		return fmt.Errorf("source endpoint: %v", err)
	}
	if w.cs.Watch == "poll" {
		// Acceleration becomes available when the poller's baseline scan has
		// completed; that scan triggers the first cache save. Wait for that
		// fact (not for a duration) on both sides before the first operation.
		deadline := time.Now().Add(90 * time.Second)
		for {
			_, e1 := os.Stat(filepath.Join(w.data, "caches", w.sidL+"_"+w.name))
			_, e2 := os.Stat(filepath.Join(w.data, "caches", w.sidR+"_"+w.name))
			if e1 == nil && e2 == nil {
				break
			}
			if time.Now().After(deadline) {
				return fmt.Errorf("poll-mode endpoints did not complete their baseline scan within 90 s")
			}
			time.Sleep(20 * time.Millisecond)
		}
	}
	return nil
}

func (w *world) close() {
	shut := func(ep synchronization.Endpoint) {
		if ep == nil {
			return
		}
		done := make(chan struct{})
		go func() { ep.Shutdown(); close(done) }()
		select {
		case <-done:
		case <-time.After(20 * time.Second):
		}
	}
	shut(w.epR)
	if w.serveDone != nil {
		select {
		case <-w.serveDone:
		case <-time.After(20 * time.Second):
		}
	}
	if !w.hung {
		shut(w.epL)
	}
	shut(w.epS)
	os.RemoveAll(w.dir)
	for _, sid := range []string{w.sidL, w.sidR, w.sidS} {
		for _, nm := range []string{"alpha", "beta"} {
			os.RemoveAll(filepath.Join(w.data, "staging", sid+"-"+nm))
			os.Remove(filepath.Join(w.data, "caches", sid+"_"+nm))
		}
	}
}

func (w *world) emit(rec map[string]any) {
	rec["cid"] = w.cid
	w.records = append(w.records, rec)
}

// ---------------------------------------------------------------------------
// external edits

var topNames = []string{"a", "b", "c", "d1", "d2", "e"}
var subNames = []string{"x", "y", "sub"}
var leafNames = []string{"p", "q"}

func (w *world) randPath() string {
	r := w.rng
	p := topNames[r.Intn(len(topNames))]
	if strings.HasPrefix(p, "d") || r.Intn(4) == 0 {
		if r.Intn(3) > 0 {
			p += "/" + subNames[r.Intn(len(subNames))]
			if strings.HasSuffix(p, "sub") && r.Intn(2) == 0 {
				p += "/" + leafNames[r.Intn(len(leafNames))]
			}
		}
	}
	return p
}

// contentBytes: content number id of this case. Contents above 20 share a 5 KiB
// prefix so that file-level rsync deltas contain block operations.
func (w *world) contentBytes(id int) []byte {
	if id == 0 {
		return []byte{}
	}
	r := rand.New(rand.NewSource(w.cs.Seed*7919 + int64(id)*104729))
	if id%3 == 0 {
		b := make([]byte, 8+r.Intn(300))
		r.Read(b)
		return b
	}
	common := make([]byte, 5120)
	rand.New(rand.NewSource(w.cs.Seed*31 + 5)).Read(common)
	tail := make([]byte, 200+r.Intn(9000))
	r.Read(tail)
	if id%3 == 1 {
		return append(tail, common...)
	}
	return append(append([]byte{}, common...), tail...)
}

// fresh returns a content number never used before in this case. The mirrored
// roots never hold two files with the same content: the local endpoint picks
// the source of a "copy from the root" among equal-content files in Go map
// order, so with a stale duplicate its own staging result is not a function of
// its inputs and could not serve as the oracle.
func (w *world) fresh() int {
	w.nextID++
	w.used = append(w.used, w.nextID)
	return w.nextID
}

// sourceContent: for the source, two times out of three a content the mirrored roots
// have (or had) somewhere - a rename or copy as seen from the endpoint.
func (w *world) sourceContent() int {
	if len(w.used) > 0 && w.rng.Intn(3) > 0 {
		return w.used[w.rng.Intn(len(w.used))]
	}
	if w.rng.Intn(12) == 0 {
		return 0
	}
	return w.fresh()
}

type edit struct {
	K string // w rm mkdir ln chmod
	P string
	C int
	X bool
	T string
}

func (w *world) randEdit(forSource bool) edit {
	r := w.rng
	p := w.randPath()
	switch k := r.Intn(10); {
	case k < 5:
		c := 0
		if forSource {
			c = w.sourceContent()
		} else {
			c = w.fresh()
		}
		return edit{K: "w", P: p, C: c, X: r.Intn(4) == 0}
	case k < 7:
		return edit{K: "rm", P: p}
	case k < 8:
		return edit{K: "mkdir", P: p}
	case k < 9:
		targets := []string{"a", "b", "d1/x", "missing", "../outside", "d2"}
		return edit{K: "ln", P: p, T: targets[r.Intn(len(targets))]}
	default:
		return edit{K: "chmod", P: p, X: r.Intn(2) == 0}
	}
}

// clearWay makes sure every parent of rel is a directory and nothing is at rel.
func clearWay(root, rel string, removeLeaf bool) string {
	parts := strings.Split(rel, "/")
	cur := root
	for _, c := range parts[:len(parts)-1] {
		cur = filepath.Join(cur, c)
		if fi, err := os.Lstat(cur); err == nil && !fi.IsDir() {
			os.Remove(cur)
		}
		os.Mkdir(cur, 0o755)
	}
	full := filepath.Join(cur, parts[len(parts)-1])
	if removeLeaf {
		os.RemoveAll(full)
	}
	return full
}

// applyEdit performs one edit under root the way an external process would;
// file modification times come from the case's fake clock so that both mirrored
// roots carry identical times and every rewrite is visible to a scan.
func applyEdit(root string, e edit, content []byte, stamp int64) {
	if _, err := os.Lstat(root); err != nil {
		return // no root: nothing to edit
	}
	if fi, err := os.Lstat(root); err == nil && !fi.IsDir() {
		return // the root is a file
	}
	t := time.Unix(1500000000+stamp*7, 0)
	switch e.K {
	case "w":
		full := clearWay(root, e.P, false)
		if fi, err := os.Lstat(full); err == nil && (fi.IsDir() || fi.Mode()&os.ModeSymlink != 0) {
			os.RemoveAll(full)
		}
		mode := os.FileMode(0o644)
		if e.X {
			mode = 0o755
		}
		os.Remove(full)
		os.WriteFile(full, content, mode)
		os.Chmod(full, mode)
		os.Chtimes(full, t, t)
	case "rm":
		os.RemoveAll(filepath.Join(root, filepath.FromSlash(e.P)))
	case "mkdir":
		full := clearWay(root, e.P, false)
		if fi, err := os.Lstat(full); err == nil && !fi.IsDir() {
			os.Remove(full)
		}
		os.Mkdir(full, 0o755)
	case "ln":
		full := clearWay(root, e.P, true)
		os.Symlink(e.T, full)
	case "chmod":
		full := filepath.Join(root, filepath.FromSlash(e.P))
		if fi, err := os.Lstat(full); err == nil && fi.Mode().IsRegular() {
			mode := os.FileMode(0o644)
			if e.X {
				mode = 0o755
			}
			os.Chmod(full, mode)
		}
	}
}

func (w *world) mirrored(e edit) {
	w.clock++
	c := w.contentBytes(e.C)
	applyEdit(w.rootL, e, c, w.clock)
	applyEdit(w.rootR, e, c, w.clock)
}

func (w *world) source(e edit) {
	w.clock++
	applyEdit(w.rootS, e, w.contentBytes(e.C), w.clock)
}

func (w *world) all(e edit) {
	w.clock++
	c := w.contentBytes(e.C)
	for _, r := range []string{w.rootL, w.rootR, w.rootS} {
		applyEdit(r, e, c, w.clock)
	}
}

func (w *world) populate() {
	r := w.rng
	n := 3 + r.Intn(6)
	for i := 0; i < n; i++ {
		e := w.randEdit(false)
		if e.K == "rm" || e.K == "chmod" {
			e = edit{K: "w", P: e.P, C: w.fresh()}
		}
		w.all(e)
	}
	for i := 0; i < w.cs.Bulk; i++ {
		w.all(edit{K: "w", P: fmt.Sprintf("bulk/g%d/f%03d", i%3, i), C: w.fresh()})
	}
	// the source differs a little from the mirrored roots
	for i := r.Intn(4); i > 0; i-- {
		w.source(w.randEdit(true))
	}
	if w.cs.Bulk > 0 {
		// ... and, where serialised snapshots span several rsync blocks, also in
		// layout: an early extra entry shifts everything behind it
		w.source(edit{K: "w", P: fmt.Sprintf("0shift%0*d", 1+r.Intn(40), 7), C: w.fresh()})
	}
}

// observeDuplicates walks root L (plain file reads, SHA-1 as the session hashes)
// and remembers every digest that two files share at this moment. Scans only
// happen inside Scan operations (and once when a polling endpoint starts), and
// the driver looks at the disk at each of those moments, so every digest that
// is ambiguous in any state of the endpoint's cache is in this set. Stage
// requests leave such digests out: for them the local endpoint's "copy it from
// the root" decision follows Go map order (Cache.GenerateReverseLookupMap) and
// is not a function of the endpoint's inputs.
func (w *world) observeDuplicates() {
	seen := map[string]int{}
	filepath.Walk(w.rootL, func(p string, fi os.FileInfo, err error) error {
		if err != nil || !fi.Mode().IsRegular() {
			return nil
		}
		if b, err := os.ReadFile(p); err == nil {
			seen[sha1hex(b)]++
		}
		return nil
	})
	for d, n := range seen {
		if n > 1 {
			w.ambiguous[d] = true
		}
	}
}

// breakFiles makes a random non-empty subset of the given files unopenable or
// empty under every given root (the same way under each): deleted, replaced by a
// directory, or truncated to nothing. Whatever position such a file has in its
// batch, the batch goes on with the files after it.
func (w *world) breakFiles(paths []string, roots []string) []any {
	out := []any{}
	if len(paths) == 0 {
		return out
	}
	seen := map[string]bool{}
	var uniq []string
	for _, p := range paths {
		if !seen[p] {
			seen[p] = true
			uniq = append(uniq, p)
		}
	}
	// first, middle or last of the batch - and sometimes several
	pick := map[int]bool{}
	switch w.rng.Intn(4) {
	case 0:
		pick[0] = true
	case 1:
		pick[len(uniq)/2] = true
	case 2:
		pick[len(uniq)-1] = true
	default:
		for i := range uniq {
			if w.rng.Intn(2) == 0 {
				pick[i] = true
			}
		}
		pick[w.rng.Intn(len(uniq))] = true
	}
	w.clock++
	t := time.Unix(1500000000+w.clock*7, 0)
	for i, p := range uniq {
		if !pick[i] {
			continue
		}
		how := []string{"delete", "directory", "truncate"}[w.rng.Intn(3)]
		for _, root := range roots {
			full := filepath.Join(root, filepath.FromSlash(p))
			switch how {
			case "delete":
				os.RemoveAll(full)
			case "directory":
				os.RemoveAll(full)
				os.MkdirAll(full, 0o755)
			case "truncate":
				if fi, err := os.Lstat(full); err == nil && fi.Mode().IsRegular() {
					os.Truncate(full, 0)
					os.Chtimes(full, t, t)
				}
			}
		}
		out = append(out, how+" "+p)
	}
	return out
}

// settle makes sure the server has consumed everything the client sent (the
// transmissions of a staging operation are not acknowledged): a round trip - a
// poll with a cancelled context - is answered only after them. External edits
// of the mirrored roots are made between operations of BOTH endpoints (the
// model's Edit action requires an idle server), not while the server is still
// receiving files.
func (w *world) settle(rec map[string]any) {
	if !w.unsynced || w.hung || w.ended {
		return
	}
	ctx, cancel := cancelledContext(true)
	var perr error
	ok := w.guard(func() { perr = w.epR.Poll(ctx) })
	cancel()
	rec["settle"] = map[string]any{"hang": !ok, "err": w.errText(perr)}
	w.unsynced = false
	if perr != nil {
		w.ended = true
	}
}

// restoreFromSource makes both mirrored roots a copy of the source tree (same
// bytes, same modes, the same forced modification time on both).
func (w *world) restoreFromSource() {
	w.clock++
	t := time.Unix(1500000000+w.clock*7, 0)
	filepath.Walk(w.rootS, func(p string, fi os.FileInfo, err error) error {
		if err != nil {
			return nil
		}
		rel, _ := filepath.Rel(w.rootS, p)
		for _, root := range []string{w.rootL, w.rootR} {
			dst := filepath.Join(root, rel)
			switch {
			case fi.IsDir():
				os.MkdirAll(dst, 0o755)
			case fi.Mode()&os.ModeSymlink != 0:
				if target, err := os.Readlink(p); err == nil {
					os.Symlink(target, dst)
				}
			case fi.Mode().IsRegular():
				if b, err := os.ReadFile(p); err == nil {
					os.WriteFile(dst, b, fi.Mode().Perm())
					os.Chmod(dst, fi.Mode().Perm())
					os.Chtimes(dst, t, t)
				}
			}
		}
		return nil
	})
}

func (w *world) doEdit(op opSpec, rec map[string]any) {
	r := w.rng
	rec["kind"] = op.Kind
	if op.Kind != "src" && op.Kind != "vanish" {
		w.settle(rec)
		if w.hung || w.ended {
			return
		}
	}
	switch op.Kind {
	case "mod":
		for i := 1 + r.Intn(3); i > 0; i-- {
			w.mirrored(w.randEdit(false))
		}
		if w.cs.Bulk > 0 && r.Intn(2) == 0 {
			i := r.Intn(w.cs.Bulk)
			w.mirrored(edit{K: "w", P: fmt.Sprintf("bulk/g%d/f%03d", i%3, i), C: w.fresh()})
		}
	case "vanish":
		w.vanishNext = true
	case "src":
		for i := 1 + r.Intn(4); i > 0; i-- {
			w.source(w.randEdit(true))
		}
	case "rm":
		os.RemoveAll(w.rootL)
		os.RemoveAll(w.rootR)
		w.rootThere = false
	case "mk":
		os.RemoveAll(w.rootL)
		os.RemoveAll(w.rootR)
		if w.cs.Bulk > 0 && r.Intn(4) > 0 {
			// the roots come into being with (a copy of) the source's content,
			// i.e. with content that shares rsync blocks with a source-derived ancestor
			w.restoreFromSource()
		} else if r.Intn(6) == 0 {
			// the root as a regular file
			w.clock++
			c := w.contentBytes(w.fresh())
			t := time.Unix(1500000000+w.clock*7, 0)
			for _, root := range []string{w.rootL, w.rootR} {
				os.WriteFile(root, c, 0o644)
				os.Chtimes(root, t, t)
			}
		} else {
			os.Mkdir(w.rootL, 0o755)
			os.Mkdir(w.rootR, 0o755)
			for i := r.Intn(3); i > 0; i-- {
				e := w.randEdit(false)
				if e.K == "rm" || e.K == "chmod" {
					e = edit{K: "w", P: e.P, C: w.fresh()}
				}
				w.mirrored(e)
			}
		}
		w.rootThere = true
	case "grow":
		if !w.rootThere {
			os.RemoveAll(w.rootL)
			os.RemoveAll(w.rootR)
			if w.cs.Bulk > 0 {
				w.restoreFromSource()
			} else {
				os.Mkdir(w.rootL, 0o755)
				os.Mkdir(w.rootR, 0o755)
			}
			w.rootThere = true
		}
		n := 8
		if w.cs.Max > 0 {
			n = w.cs.Max + 3
		}
		for i := 0; i < n; i++ {
			w.mirrored(edit{K: "w", P: fmt.Sprintf("grow/f%03d", i), C: w.fresh()})
		}
	case "shrink":
		w.mirrored(edit{K: "rm", P: "grow"})
	}
}

// ---------------------------------------------------------------------------
// encoding of results

func encSnapshot(s *core.Snapshot) map[string]any {
	if s == nil {
		return map[string]any{"none": true}
	}
	return map[string]any{
		"content": vtree.Enc(s.Content),
		"px":      s.PreservesExecutability,
		"du":      s.DecomposesUnicode,
		"dirs":    int(s.Directories),
		"files":   int(s.Files),
		"links":   int(s.SymbolicLinks),
		"size":    int(s.TotalFileSize),
	}
}

func sigText(s *rsync.Signature) string {
	if s == nil {
		return "nil"
	}
	b, err := proto.MarshalOptions{Deterministic: true}.Marshal(s)
	if err != nil {
		return "unmarshalable"
	}
	return fmt.Sprintf("%d:%d:%d:%s", s.BlockSize, s.LastBlockSize, len(s.Hashes), sha1hex(b)[:16])
}

func encPaths(ps []string) []any {
	out := []any{}
	for _, p := range ps {
		out = append(out, p)
	}
	return out
}

// walkStore lists the committed files of a staging store (relative name and
// SHA-1 of the content), skipping in-flight temporary files.
func walkStore(dir string) []any {
	var names []string
	filepath.Walk(dir, func(p string, fi os.FileInfo, err error) error {
		if err != nil || fi.IsDir() {
			return nil
		}
		if strings.HasPrefix(fi.Name(), ".mutagen-temporary") {
			return nil
		}
		rel, _ := filepath.Rel(dir, p)
		b, _ := os.ReadFile(p)
		names = append(names, filepath.ToSlash(rel)+"="+sha1hex(b)[:16])
		return nil
	})
	sort.Strings(names)
	out := []any{}
	for _, n := range names {
		out = append(out, n)
	}
	return out
}

// recorder is an rsync.Encoder: wrapped by rsync.NewEncodingReceiver it is a
// receiver that writes down every transmission it is handed.
type recorder struct {
	w   *world
	txs []any
}

func (r *recorder) Encode(t *rsync.Transmission) error {
	s := ""
	if t.ExpectedSize != 0 {
		s += fmt.Sprintf("size=%d ", t.ExpectedSize)
	}
	if o := t.Operation; o != nil {
		if len(o.Data) > 0 {
			s += fmt.Sprintf("data=%d:%s ", len(o.Data), sha1hex(o.Data)[:12])
		} else {
			s += fmt.Sprintf("blocks=%d+%d ", o.Start, o.Count)
		}
	}
	if t.Done {
		s += "done "
	}
	if t.Error != "" {
		s += "error=" + r.w.norm(t.Error)
	}
	r.txs = append(r.txs, strings.TrimSpace(s))
	return nil
}

func (r *recorder) Finalize() error { return nil }

// ---------------------------------------------------------------------------
// the operations

func cancelledContext(pre bool) (context.Context, context.CancelFunc) {
	ctx, cancel := context.WithCancel(context.Background())
	if pre {
		cancel()
	}
	return ctx, cancel
}

func (w *world) junkTree() *core.Entry {
	r := w.rng
	if w.lastL != nil && w.lastL.Content != nil && r.Intn(2) == 0 {
		// the known content, but somewhere else: same blocks at other offsets
		return &core.Entry{Kind: core.EntryKind_Directory, Contents: map[string]*core.Entry{
			"jd": w.lastL.Content.Copy(core.EntryCopyBehaviorDeep),
			"jf": {Kind: core.EntryKind_File, Digest: bytes.Repeat([]byte{7}, 20)},
		}}
	}
	c := map[string]*core.Entry{}
	for i := 2 + r.Intn(6); i > 0; i-- {
		d := make([]byte, 20)
		r.Read(d)
		c[fmt.Sprintf("junk%d", r.Intn(50))] = &core.Entry{Kind: core.EntryKind_File, Digest: d, Executable: r.Intn(2) == 0}
	}
	c["jl"] = &core.Entry{Kind: core.EntryKind_SymbolicLink, Target: "junk1"}
	return &core.Entry{Kind: core.EntryKind_Directory, Contents: map[string]*core.Entry{"jd": {Kind: core.EntryKind_Directory, Contents: c}}}
}

// alteredInTheMiddle returns a copy of e in which the digests of the middle third
// of the files (in path order) are different ones: the serialisation has the same
// length and the same blocks at both ends, other blocks in the middle.
func alteredInTheMiddle(e *core.Entry) *core.Entry {
	c := e.Copy(core.EntryCopyBehaviorDeep)
	type ref struct {
		path string
		e    *core.Entry
	}
	var files []ref
	var walk func(p string, x *core.Entry)
	walk = func(p string, x *core.Entry) {
		if x == nil {
			return
		}
		if x.Kind == core.EntryKind_File {
			files = append(files, ref{p, x})
		}
		for n, ch := range x.Contents {
			walk(p+"/"+n, ch)
		}
	}
	walk("", c)
	sort.Slice(files, func(i, j int) bool { return files[i].path < files[j].path })
	for i := len(files) / 3; i < 2*len(files)/3 || (i == len(files)/3 && i < len(files)); i++ {
		d := append([]byte{}, files[i].e.Digest...)
		for k := range d {
			d[k] ^= 0xa5
		}
		files[i].e.Digest = d
	}
	return c
}

// bigTree is a large tree that has nothing to do with the roots.
func (w *world) bigTree() *core.Entry {
	c := map[string]*core.Entry{}
	n := 140 + w.rng.Intn(60)
	for i := 0; i < n; i++ {
		d := make([]byte, 20)
		w.rng.Read(d)
		c[fmt.Sprintf("big%03d", i)] = &core.Entry{Kind: core.EntryKind_File, Digest: d}
	}
	return &core.Entry{Kind: core.EntryKind_Directory, Contents: map[string]*core.Entry{"bigdir": {Kind: core.EntryKind_Directory, Contents: c}}}
}

func (w *world) scanSource() {
	var snap *core.Snapshot
	var err error
	ok := w.guard(func() { snap, err, _ = w.epS.Scan(context.Background(), nil, true) })
	if ok && err == nil {
		w.srcSnap = snap
	}
}

func (w *world) doScan(op opSpec, rec map[string]any) {
	var anc *core.Entry
	switch op.Anc {
	case "prev":
		if w.lastL != nil {
			anc = w.lastL.Content
		}
	case "src":
		w.scanSource()
		if w.srcSnap != nil {
			anc = w.srcSnap.Content
		}
	case "srcmid":
		w.scanSource()
		if w.srcSnap != nil && w.srcSnap.Content != nil {
			anc = alteredInTheMiddle(w.srcSnap.Content)
		}
	case "junk":
		anc = w.junkTree()
	case "big":
		anc = w.bigTree()
	}
	// the size of the baseline this ancestor stands for (the client serialises it the same way)
	if b, err := (proto.MarshalOptions{Deterministic: true}).Marshal(&core.Snapshot{Content: anc, PreservesExecutability: true}); err == nil {
		rec["ancbytes"] = len(b)
	} else {
		rec["ancbytes"] = -1
	}
	w.observeDuplicates()
	rec["full"] = op.Full
	rec["anc"] = op.Anc
	rec["ancnil"] = anc == nil
	rec["cancel"] = op.Cancel
	one := func(ep synchronization.Endpoint, cancelIt bool) (map[string]any, *core.Snapshot, error, bool) {
		var snap *core.Snapshot
		var err error
		var again bool
		ctx := context.Background()
		mode := ""
		if cancelIt {
			pre := w.rng.Intn(2) == 0
			c, cancel := cancelledContext(pre)
			ctx = c
			mode = "pre"
			if !pre {
				mode = "concurrent"
				go func() { cancel() }()
			}
			defer cancel()
		}
		ok := w.guard(func() { snap, err, again = ep.Scan(ctx, anc.Copy(core.EntryCopyBehaviorDeep), op.Full) })
		res := map[string]any{"hang": !ok, "err": w.errText(err), "again": again, "cancelmode": mode}
		if ok && err == nil {
			res["snap"] = encSnapshot(snap)
		} else {
			res["snap"] = encSnapshot(nil)
		}
		return res, snap, err, ok
	}
	l, snapL, errL, okL := one(w.epL, false)
	rec["l"] = l
	if w.hung {
		rec["r"] = map[string]any{"hang": true, "err": "not attempted", "again": false, "cancelmode": "", "snap": encSnapshot(nil)}
		return
	}
	r, _, errR, _ := one(w.epR, op.Cancel)
	rec["r"] = r
	if okL && errL == nil {
		w.lastL = snapL
		w.nontriv++
	}
	if (errL != nil && l["again"] != true) || (errR != nil && r["again"] != true) || (op.Cancel && errR != nil) {
		w.ended = true
	}
}

// plan computes, from the last local snapshot and a fresh scan of the source,
// the transitions that would make the mirrored roots equal to the source.
func (w *world) plan() []*core.Change {
	w.scanSource()
	var base, target *core.Entry
	if w.lastL != nil {
		base = w.lastL.Content
	}
	if w.srcSnap != nil {
		target = w.srcSnap.Content
	}
	// only synchronizable content may be named in transitions
	changes := core.Diff(synchronizableOf(base), synchronizableOf(target))
	sort.Slice(changes, func(i, j int) bool { return changes[i].Path < changes[j].Path })
	return changes
}

// synchronizableOf drops untracked / problematic content (what the controller's
// reconciliation does before it plans transitions).
func synchronizableOf(e *core.Entry) *core.Entry {
	if e == nil {
		return nil
	}
	switch e.Kind {
	case core.EntryKind_Directory:
		out := &core.Entry{Kind: core.EntryKind_Directory}
		for n, c := range e.Contents {
			if s := synchronizableOf(c); s != nil {
				if out.Contents == nil {
					out.Contents = map[string]*core.Entry{}
				}
				out.Contents[n] = s
			}
		}
		return out
	case core.EntryKind_File, core.EntryKind_SymbolicLink:
		return e.Copy(core.EntryCopyBehaviorDeep)
	}
	return nil
}

func cloneChanges(cs []*core.Change) []*core.Change {
	out := make([]*core.Change, len(cs))
	for i, c := range cs {
		out[i] = proto.Clone(c).(*core.Change)
	}
	return out
}

func (w *world) doStage(op opSpec, rec map[string]any) {
	changes := w.plan()
	paths, digests := core.TransitionDependencies(changes)
	if op.Empty {
		paths, digests = nil, nil
	}
	// deterministic order
	idx := make([]int, len(paths))
	for i := range idx {
		idx[i] = i
	}
	sort.Slice(idx, func(a, b int) bool { return paths[idx[a]] < paths[idx[b]] })
	w.observeDuplicates()
	var ps []string
	var ds [][]byte
	for _, i := range idx {
		if w.ambiguous[hex.EncodeToString(digests[i])] {
			continue
		}
		ps = append(ps, paths[i])
		ds = append(ds, digests[i])
	}
	if len(ps) > 0 && w.rng.Intn(5) == 0 {
		// a path the source cannot provide
		d := make([]byte, 20)
		w.rng.Read(d)
		ps = append(ps, "zz-bogus")
		ds = append(ds, d)
	}
	if len(ps) > 1 && w.rng.Intn(6) == 0 {
		// a duplicate request
		ps = append(ps, ps[0])
		ds = append(ds, ds[0])
	}
	req := []any{}
	for i := range ps {
		req = append(req, map[string]any{"path": ps[i], "d": hex.EncodeToString(ds[i])})
	}
	rec["req"] = req
	observe := w.rng.Intn(2) == 0
	rec["observed"] = false
	type staged struct {
		res  map[string]any
		ret  []string
		sigs []*rsync.Signature
		recv rsync.Receiver
		err  error
	}
	stage := func(ep synchronization.Endpoint) *staged {
		pc := append([]string{}, ps...)
		dc := make([][]byte, len(ds))
		for i := range ds {
			dc[i] = append([]byte{}, ds[i]...)
		}
		st := &staged{}
		ok := w.guard(func() { st.ret, st.sigs, st.recv, st.err = ep.Stage(pc, dc) })
		st.ret = append([]string{}, st.ret...)
		sg := []any{}
		for _, s := range st.sigs {
			sg = append(sg, sigText(s))
		}
		st.res = map[string]any{"hang": !ok, "err": w.errText(st.err), "paths": encPaths(st.ret), "sigs": sg,
			"recv": st.recv != nil, "feed": "", "fed": false}
		return st
	}
	feed := func(st *staged, isRemote bool) {
		if st.res["hang"] == true || st.err != nil || st.recv == nil {
			return
		}
		// transmit from the source, as the controller does
		var ferr error
		okf := w.guard(func() { ferr = w.epS.Supply(st.ret, st.sigs, st.recv) })
		st.res["fed"] = true
		st.res["feed"] = w.errText(ferr)
		if isRemote {
			w.unsynced = true
		}
		if !okf {
			st.res["hang"] = true
		}
		if ferr != nil {
			w.ended = true
		}
	}
	sl := stage(w.epL)
	l := sl.res
	rec["l"] = l
	if w.hung {
		rec["r"] = map[string]any{"hang": true, "err": "not attempted", "paths": []any{}, "sigs": []any{}, "recv": false, "feed": "", "fed": false}
		return
	}
	sr := stage(w.epR)
	r := sr.res
	rec["r"] = r
	errL, errR := sl.err, sr.err
	// Both endpoints have said what they need. Now - between the scan and the
	// transmission - some of those files stop being openable on the source.
	rec["broken"] = []any{}
	if (op.Bad || w.vanishNext) && !w.hung && errL == nil && errR == nil {
		w.vanishNext = false
		rec["broken"] = w.breakFiles(sl.ret, []string{w.rootS})
		w.followup = true
	}
	feed(sl, false)
	if !w.hung {
		feed(sr, true)
	}
	if errL != nil || errR != nil {
		w.ended = true
		return
	}
	if len(ps) > 0 {
		w.nontriv++
	}
	if observe && !w.hung && !w.ended {
		// A round trip (a poll with a cancelled context) makes sure the server
		// has consumed every transmission before its store is looked at.
		ctx, cancel := cancelledContext(true)
		var perr error
		ok := w.guard(func() { perr = w.epR.Poll(ctx) })
		cancel()
		rec["observed"] = true
		w.unsynced = false
		rec["syncerr"] = w.errText(perr)
		rec["synchang"] = !ok
		l["store"] = walkStore(filepath.Join(w.data, "staging", w.sidL+"-"+w.name))
		r["store"] = walkStore(filepath.Join(w.data, "staging", w.sidR+"-"+w.name))
		if perr != nil {
			w.ended = true
		}
	}
}

func (w *world) doSupply(op opSpec, rec map[string]any) {
	// files the mirrored roots hold according to the last local snapshot
	var files []string
	var walk func(p string, e *core.Entry)
	walk = func(p string, e *core.Entry) {
		if e == nil {
			return
		}
		if e.Kind == core.EntryKind_File {
			files = append(files, p)
		}
		for n, c := range e.Contents {
			q := n
			if p != "" {
				q = p + "/" + n
			}
			walk(q, c)
		}
	}
	if w.lastL != nil {
		walk("", w.lastL.Content)
	}
	sort.Strings(files)
	w.rng.Shuffle(len(files), func(i, j int) { files[i], files[j] = files[j], files[i] })
	if len(files) > 5 {
		files = files[:2+w.rng.Intn(4)]
	}
	sort.Strings(files)
	if w.rng.Intn(3) == 0 || (len(files) == 0 && !op.Empty) {
		// a file the roots do not have, anywhere in the batch
		at := w.rng.Intn(len(files) + 1)
		files = append(files[:at], append([]string{"zz-absent"}, files[at:]...)...)
	}
	if op.Empty {
		files = nil
	}
	engine := rsync.NewEngine()
	var sigs []*rsync.Signature
	for _, p := range files {
		sig := &rsync.Signature{}
		if b, err := os.ReadFile(filepath.Join(w.rootS, filepath.FromSlash(p))); err == nil && w.rng.Intn(4) > 0 {
			sig = engine.BytesSignature(b, 0)
		}
		sigs = append(sigs, sig)
	}
	rec["paths"] = encPaths(files)
	st := []any{}
	for _, s := range sigs {
		st = append(st, sigText(s))
	}
	rec["sigs"] = st
	// Between the scan and the supply some of the files stop being openable (on
	// both mirrored roots alike).
	rec["broken"] = []any{}
	if (op.Bad || w.vanishNext) && len(files) > 0 {
		w.vanishNext = false
		w.settle(rec)
		if w.hung || w.ended {
			rec["l"] = map[string]any{"hang": false, "err": "not attempted", "tx": []any{}}
			rec["r"] = map[string]any{"hang": w.hung, "err": "not attempted", "tx": []any{}}
			return
		}
		rec["broken"] = w.breakFiles(files, []string{w.rootL, w.rootR})
		w.followup = true
	}
	one := func(ep synchronization.Endpoint) (map[string]any, error) {
		rc := &recorder{w: w, txs: []any{}}
		recv := rsync.NewEncodingReceiver(rc)
		pc := append([]string{}, files...)
		sc := make([]*rsync.Signature, len(sigs))
		for i, s := range sigs {
			sc[i] = proto.Clone(s).(*rsync.Signature)
		}
		var err error
		ok := w.guard(func() { err = ep.Supply(pc, sc, recv) })
		return map[string]any{"hang": !ok, "err": w.errText(err), "tx": rc.txs}, err
	}
	l, errL := one(w.epL)
	rec["l"] = l
	if w.hung {
		rec["r"] = map[string]any{"hang": true, "err": "not attempted", "tx": []any{}}
		return
	}
	r, errR := one(w.epR)
	rec["r"] = r
	if errL != nil || errR != nil {
		w.ended = true
	} else if len(files) > 0 {
		w.nontriv++
	}
}

func (w *world) doTrans(op opSpec, rec map[string]any) {
	changes := w.plan()
	if len(changes) > 2 && w.rng.Intn(4) == 0 {
		changes = changes[:1+w.rng.Intn(len(changes)-1)]
	}
	rec["chg"] = vtree.EncChanges(changes)
	cps := []any{}
	for _, ch := range changes {
		cps = append(cps, ch.Path)
	}
	rec["paths"] = cps
	rec["cancel"] = op.Cancel
	one := func(ep synchronization.Endpoint, cancelIt bool) (map[string]any, error) {
		var results []*core.Entry
		var problems []*core.Problem
		var missing bool
		var err error
		ctx := context.Background()
		mode := ""
		if cancelIt {
			pre := w.rng.Intn(2) == 0
			c, cancel := cancelledContext(pre)
			ctx = c
			mode = "pre"
			if !pre {
				mode = "concurrent"
				go func() { cancel() }()
			}
			defer cancel()
		}
		cc := cloneChanges(changes)
		ok := w.guard(func() { results, problems, missing, err = ep.Transition(ctx, cc) })
		res := []any{}
		for _, r := range results {
			res = append(res, vtree.Enc(r))
		}
		pr := []any{}
		for _, p := range problems {
			pr = append(pr, map[string]any{"path": p.Path, "err": w.norm(p.Error)})
		}
		return map[string]any{"hang": !ok, "err": w.errText(err), "results": res, "problems": pr,
			"missing": missing, "cancelmode": mode}, err
	}
	l, errL := one(w.epL, false)
	rec["l"] = l
	if w.hung {
		rec["r"] = map[string]any{"hang": true, "err": "not attempted", "results": []any{}, "problems": []any{}, "missing": false, "cancelmode": ""}
		return
	}
	r, errR := one(w.epR, op.Cancel)
	rec["r"] = r
	if errL != nil || errR != nil {
		w.ended = true
	} else if len(changes) > 0 {
		w.nontriv++
	}
	if op.Cancel && !w.hung {
		// The mirrored roots may have diverged now, so the case ends here; one
		// more remote round trip shows whether the protocol is still in step.
		var perr error
		var again bool
		ok := w.guard(func() { _, perr, again = w.epR.Scan(context.Background(), nil, true) })
		rec["post"] = map[string]any{"hang": !ok, "err": w.errText(perr), "again": again}
		w.ended = true
	}
}

func (w *world) doPoll(rec map[string]any) {
	one := func(ep synchronization.Endpoint) map[string]any {
		ctx, cancel := context.WithCancel(context.Background())
		defer cancel()
		var issued int32
		var early bool
		var err error
		delay := time.Duration(w.rng.Intn(3)) * 20 * time.Millisecond
		timer := time.AfterFunc(delay, func() { atomic.StoreInt32(&issued, 1); cancel() })
		defer timer.Stop()
		ok := w.guard(func() {
			err = ep.Poll(ctx)
			// returned although the driver had not yet asked for cancellation
			early = atomic.LoadInt32(&issued) == 0
		})
		return map[string]any{"hang": !ok, "err": w.errText(err), "early": early}
	}
	rec["l"] = one(w.epL)
	if w.hung {
		rec["r"] = map[string]any{"hang": true, "err": "not attempted", "early": false}
		return
	}
	r := one(w.epR)
	rec["r"] = r
	if r["err"] != "" {
		w.ended = true
	}
}

// ---------------------------------------------------------------------------

func specToMap(cs *caseSpec) map[string]any {
	ops := []any{}
	for _, o := range cs.Ops {
		m := map[string]any{"op": o.Op}
		if o.Kind != "" {
			m["kind"] = o.Kind
		}
		if o.Op == "Scan" {
			m["full"] = o.Full
			m["anc"] = o.Anc
		}
		if o.Cancel {
			m["cancel"] = true
		}
		if o.Empty {
			m["empty"] = true
		}
		if o.Bad {
			m["bad"] = true
		}
		ops = append(ops, m)
	}
	return map[string]any{"algo": cs.Algo, "watch": cs.Watch, "alpha": cs.Alpha, "sync": cs.Sync, "max": cs.Max,
		"bulk": cs.Bulk, "pipe": cs.Pipe, "seed": int(cs.Seed), "ops": ops, "src": cs.Src}
}

// runCase executes one case and returns its records (the first one is the
// begin record) and the number of non-trivial operations.
func runCase(scratch, data, cid string, cs *caseSpec) ([]map[string]any, int, error) {
	w, err := newWorld(scratch, data, cid, cs)
	if err != nil {
		return nil, 0, err
	}
	defer w.close()
	w.populate()
	if err := w.connect(); err != nil {
		return nil, 0, err
	}
	w.emit(map[string]any{"ev": "Begin", "begin": true, "in": specToMap(cs), "algo": cs.Algo, "watch": cs.Watch,
		"readonly": cs.Alpha && cs.Sync == "owr", "max": cs.Max})
	for i, op := range cs.Ops {
		rec := map[string]any{"ev": op.Op, "i": i}
		switch op.Op {
		case "Edit":
			w.doEdit(op, rec)
		case "Scan":
			w.doScan(op, rec)
			w.unsynced = false
		case "Stage":
			w.doStage(op, rec)
		case "Supply":
			w.doSupply(op, rec)
		case "Trans":
			w.doTrans(op, rec)
			w.unsynced = false
		case "Poll":
			w.doPoll(rec)
			w.unsynced = false
		default:
			return nil, 0, fmt.Errorf("unknown op %q", op.Op)
		}
		w.emit(rec)
		if op.Op != "Edit" {
			w.executed++
		}
		if w.followup && !w.hung && !w.ended {
			// after a batch that lost files: a scan of both endpoints, over the
			// same connection
			fr := map[string]any{"ev": "Scan", "i": i, "followup": true}
			w.doScan(opSpec{Op: "Scan", Full: true, Anc: "prev"}, fr)
			w.unsynced = false
			w.emit(fr)
		}
		w.followup = false
		if w.hung || w.ended {
			break
		}
	}
	c2s, s2c, cw, sw := w.tap.snapshot()
	w.emit(map[string]any{"ev": "End", "hung": w.hung, "c2s": c2s, "s2c": s2c, "cwrites": cw, "swrites": sw})
	return w.records, w.executed, nil
}

var _ = bytes.Equal
