// An in-memory duplex byte pipe with a bounded buffer per direction and a wire
// tap. It contains no mutagen code. Close unblocks readers and writers on both
// ends (the contract remote.NewEndpoint / remote.ServeEndpoint ask of their
// stream). The tap counts, per direction, the bytes and write calls.
package main

import (
	"errors"
	"io"
	"sync"
)

var errPipeClosed = errors.New("pipe closed")

type halfPipe struct {
	mu     sync.Mutex
	cond   *sync.Cond
	buf    []byte
	cap    int
	closed bool
}

func newHalf(capacity int) *halfPipe {
	h := &halfPipe{cap: capacity}
	h.cond = sync.NewCond(&h.mu)
	return h
}

func (h *halfPipe) write(p []byte) (int, error) {
	n := 0
	h.mu.Lock()
	defer h.mu.Unlock()
	for len(p) > 0 {
		for !h.closed && len(h.buf) >= h.cap {
			h.cond.Wait()
		}
		if h.closed {
			return n, errPipeClosed
		}
		k := h.cap - len(h.buf)
		if k > len(p) {
			k = len(p)
		}
		h.buf = append(h.buf, p[:k]...)
		p = p[k:]
		n += k
		h.cond.Broadcast()
	}
	return n, nil
}

func (h *halfPipe) read(p []byte) (int, error) {
	h.mu.Lock()
	defer h.mu.Unlock()
	for !h.closed && len(h.buf) == 0 {
		h.cond.Wait()
	}
	if len(h.buf) == 0 {
		return 0, io.EOF
	}
	n := copy(p, h.buf)
	h.buf = h.buf[n:]
	h.cond.Broadcast()
	return n, nil
}

func (h *halfPipe) close() {
	h.mu.Lock()
	h.closed = true
	h.cond.Broadcast()
	h.mu.Unlock()
}

// wireTap counts what crossed the pipe (bytes and write calls per direction).
type wireTap struct {
	mu        sync.Mutex
	c2sBytes  int
	s2cBytes  int
	c2sWrites int
	s2cWrites int
}

func (t *wireTap) snapshot() (int, int, int, int) {
	t.mu.Lock()
	defer t.mu.Unlock()
	return t.c2sBytes, t.s2cBytes, t.c2sWrites, t.s2cWrites
}

type pipeEnd struct {
	name string
	in   *halfPipe
	out  *halfPipe
	tap  *wireTap
	once sync.Once
}

func (e *pipeEnd) Read(p []byte) (int, error) { return e.in.read(p) }

func (e *pipeEnd) Write(p []byte) (int, error) {
	if e.tap != nil {
		e.tap.mu.Lock()
		if e.name == "c" {
			e.tap.c2sBytes += len(p)
			e.tap.c2sWrites++
		} else {
			e.tap.s2cBytes += len(p)
			e.tap.s2cWrites++
		}
		e.tap.mu.Unlock()
	}
	return e.out.write(p)
}

func (e *pipeEnd) Close() error {
	e.once.Do(func() {
		e.in.close()
		e.out.close()
	})
	return nil
}

// newDuplex returns the client end and the server end of a pipe whose two
// directions each buffer at most capacity bytes.
func newDuplex(capacity int, tap *wireTap) (*pipeEnd, *pipeEnd) {
	if capacity < 1 {
		capacity = 1
	}
	a := newHalf(capacity) // client -> server
	b := newHalf(capacity) // server -> client
	return &pipeEnd{name: "c", in: b, out: a, tap: tap}, &pipeEnd{name: "s", in: a, out: b, tap: tap}
}
