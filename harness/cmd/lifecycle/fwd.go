package main

// Forwarding sessions (growth beyond the listed properties): the same gating,
// journaling case executor, driving the real forwarding.Manager with endpoints
// registered in forwarding.ProtocolHandlers. Records carry the prefix "F" and
// are judged by the trace module as conformance only.

import (
	"context"
	"errors"
	"fmt"
	"net"
	"os"
	"path/filepath"
	"sync"
	"syscall"
	"time"

	"github.com/mutagen-io/mutagen/pkg/encoding"
	"github.com/mutagen-io/mutagen/pkg/forwarding"
	"github.com/mutagen-io/mutagen/pkg/logging"
	"github.com/mutagen-io/mutagen/pkg/selection"
	urlpkg "github.com/mutagen-io/mutagen/pkg/url"
)

var fstatusNames = map[forwarding.Status]string{
	forwarding.Status_Disconnected:          "disconnected",
	forwarding.Status_ConnectingSource:      "connecting-source",
	forwarding.Status_ConnectingDestination: "connecting-destination",
	forwarding.Status_ForwardingConnections: "forwarding-connections",
}

// countConn is one end of an in-memory connection handed to the controller; it records that it was closed.
type countConn struct {
	net.Conn
	once   sync.Once
	closed chan struct{}
}

func (c *countConn) Close() error {
	c.once.Do(func() { close(c.closed) })
	return c.Conn.Close()
}

// CloseWrite: forwarding requires half-closable connections.
func (c *countConn) CloseWrite() error {
	if hc, ok := c.Conn.(interface{ CloseWrite() error }); ok {
		return hc.CloseWrite()
	}
	return nil
}

// socketPair returns the two ends of a connected Unix stream socket pair (they support half-close).
func socketPair() (net.Conn, net.Conn, error) {
	fds, err := syscall.Socketpair(syscall.AF_UNIX, syscall.SOCK_STREAM, 0)
	if err != nil {
		return nil, nil, err
	}
	fa, fb := os.NewFile(uintptr(fds[0]), "a"), os.NewFile(uintptr(fds[1]), "b")
	defer fa.Close()
	defer fb.Close()
	a, err := net.FileConn(fa)
	if err != nil {
		return nil, nil, err
	}
	b, err := net.FileConn(fb)
	if err != nil {
		a.Close()
		return nil, nil, err
	}
	return a, b, nil
}

type fhandler struct{ h *harness }

func (p *fhandler) Connect(_ context.Context, _ *logging.Logger, _ *urlpkg.URL, _ string, _ string,
	_ forwarding.Version, _ *forwarding.Configuration, source bool) (forwarding.Endpoint, error) {
	side := "destination"
	if source {
		side = "source"
	}
	h := p.h
	t := h.enter(side, "Connect", false, nil)
	h.mu.Lock()
	planned := "ok"
	if q := h.connPlan[side]; len(q) > 0 {
		planned, h.connPlan[side] = q[0], q[1:]
	}
	h.mu.Unlock()
	if planned == "err" {
		h.leave(t, "err", nil)
		return nil, errors.New("injected connection failure")
	}
	e := &fgated{h: h, side: side, down: make(chan struct{}), terr: make(chan error, 1)}
	h.mu.Lock()
	h.fends[side] = e
	h.mu.Unlock()
	h.leave(t, "ok", nil)
	return e, nil
}

// fgated is the journaling, gating forwarding endpoint: Open blocks until the script decides (an incoming
// connection / the dial result) or until Shutdown.
type fgated struct {
	h        *harness
	side     string
	down     chan struct{}
	downOnce sync.Once
	terr     chan error
}

func (e *fgated) TransportErrors() <-chan error { return e.terr }

func (e *fgated) Open() (net.Conn, error) {
	t := e.h.enter(e.side, "Open", true, nil)
	select {
	case out := <-t.release:
		if out != "ok" {
			e.h.leave(t, "err", nil)
			return nil, errors.New("injected open failure")
		}
	case <-e.down:
		e.h.mu.Lock()
		for i, p := range e.h.pending {
			if p == t {
				e.h.pending = append(e.h.pending[:i], e.h.pending[i+1:]...)
				break
			}
		}
		e.h.mu.Unlock()
		e.h.leave(t, "err", nil)
		return nil, errors.New("endpoint shut down")
	}
	a, b, err := socketPair()
	if err != nil {
		e.h.leave(t, "err", map[string]any{"err": ascii(err.Error())})
		return nil, err
	}
	c := &countConn{Conn: a, closed: make(chan struct{})}
	e.h.mu.Lock()
	e.h.fconns = append(e.h.fconns, c)
	e.h.fpeers = append(e.h.fpeers, b)
	e.h.mu.Unlock()
	e.h.leave(t, "ok", nil)
	return c, nil
}

func (e *fgated) Shutdown() error {
	t := e.h.enter(e.side, "Shutdown", false, nil)
	e.downOnce.Do(func() { close(e.down) })
	e.h.leave(t, "ok", nil)
	return nil
}

func (h *harness) execFwd(id int, kind string) error {
	ctx := context.Background()
	h.mu.Lock()
	mgr := h.fmgr
	h.mu.Unlock()
	sel := &selection.Selection{Specifications: []string{h.session}}
	switch kind {
	case "create", "createp":
		src := &urlpkg.URL{Kind: urlpkg.Kind_Forwarding, Protocol: urlpkg.Protocol_Local, Path: "tcp:127.0.0.1:1"}
		dst := &urlpkg.URL{Kind: urlpkg.Kind_Forwarding, Protocol: urlpkg.Protocol_Local, Path: "tcp:127.0.0.1:2"}
		sid, err := mgr.Create(ctx, src, dst, &forwarding.Configuration{}, &forwarding.Configuration{}, &forwarding.Configuration{},
			"", nil, kind == "createp", "")
		if err == nil {
			h.mu.Lock()
			h.session = sid
			h.mu.Unlock()
		}
		return err
	case "pause":
		return mgr.Pause(ctx, sel, "")
	case "resume":
		return mgr.Resume(ctx, sel, "")
	case "terminate":
		return mgr.Terminate(ctx, sel, "")
	case "restart":
		h.mu.Lock()
		h.inShutdown = true
		h.mu.Unlock()
		mgr.Shutdown()
		h.mu.Lock()
		h.inShutdown = false
		h.mu.Unlock()
		h.waitOthers(id, cmdWatchdog)
		m, err := forwarding.NewManager(h.logger)
		if err != nil {
			return err
		}
		h.mu.Lock()
		h.fmgr = m
		h.mu.Unlock()
		return nil
	}
	return fmt.Errorf("unknown forwarding command kind %q", kind)
}

func (h *harness) observeFwd() {
	if h.restartInFlight() {
		return
	}
	h.mu.Lock()
	mgr, sid := h.fmgr, h.session
	h.mu.Unlock()
	h.stableEmit(func() map[string]any {
		handed, closed := 0, 0
		h.mu.Lock()
		for _, c := range h.fconns {
			handed++
			select {
			case <-c.closed:
				closed++
			default:
			}
		}
		h.mu.Unlock()
		return map[string]any{"ev": "Conns", "handed": handed, "closed": closed}
	})
	h.stableEmit(func() map[string]any {
		disk := map[string]any{"ev": "Disk", "sessionFile": false, "paused": false, "archive": map[string]any{"k": "gone"}}
		if sid == "" {
			return disk
		}
		sp := filepath.Join(h.dataDir, "forwarding", "sessions", sid)
		if _, err := os.Stat(sp); err == nil {
			disk["sessionFile"] = true
			s := &forwarding.Session{}
			if encoding.LoadAndUnmarshalProtobuf(sp, s) == nil {
				disk["paused"] = s.Paused
			}
		}
		return disk
	})
	h.stableEmit(func() map[string]any {
		st := map[string]any{"ev": "State", "listed": false, "paused": false, "status": "none", "cycles": 0, "lastError": "",
			"listErr": "", "open": 0, "total": 0}
		if mgr == nil {
			st["listErr"] = "no manager"
			return st
		}
		ctx, cancel := context.WithTimeout(context.Background(), 3*time.Second)
		_, states, err := mgr.List(ctx, &selection.Selection{All: true}, 0)
		cancel()
		if err != nil {
			st["listErr"] = ascii(err.Error())
		}
		for _, s := range states {
			if s.Session != nil && s.Session.Identifier == sid {
				st["listed"] = true
				st["paused"] = s.Session.Paused
				st["status"] = fstatusNames[s.Status]
				st["lastError"] = ascii(s.LastError)
				st["open"] = int(s.OpenConnections)
				st["total"] = int(s.TotalConnections)
			}
		}
		return st
	})
}

// runFwdCase executes one forwarding case.
func runFwdCase(cs map[string]any, h *harness) {
	forwarding.ProtocolHandlers[urlpkg.Protocol_Local] = &fhandler{h}
	mgr, err := forwarding.NewManager(h.logger)
	if err != nil {
		h.emit(map[string]any{"ev": "Infra", "what": "forwarding.NewManager: " + ascii(err.Error())})
		return
	}
	h.fmgr = mgr
	startPaused, _ := cs["startPaused"].(bool)
	ck := "create"
	if startPaused {
		ck = "createp"
	}
	h.call(0, ck)
	if !h.wait(0) {
		return
	}
	plan := map[string][]string{}
	steps, _ := cs["steps"].([]any)
	for _, sv := range steps {
		if m, ok := sv.(map[string]any); ok && m["a"] == "connect" {
			side, _ := m["side"].(string)
			out, _ := m["out"].(string)
			plan[side] = append(plan[side], out)
		}
	}
	h.mu.Lock()
	h.connPlan = plan
	h.mu.Unlock()
	h.settle(40 * time.Millisecond)
	h.observe()
	for _, sv := range steps {
		m, _ := sv.(map[string]any)
		s := step(m)
		if h.isTimedOut() {
			break
		}
		switch s.str("a") {
		case "call":
			h.call(s.num("id"), s.str("kind"))
			h.settle(60 * time.Millisecond)
		case "wait":
			h.wait(s.num("id"))
			h.settle(20 * time.Millisecond)
		case "accept":
			h.open("source", "Open", s.str("out"))
			h.settle(60 * time.Millisecond)
		case "dial":
			h.open("destination", "Open", s.str("out"))
			h.settle(60 * time.Millisecond)
		case "transport":
			h.mu.Lock()
			e := h.fends[s.str("side")]
			h.mu.Unlock()
			if e != nil {
				select {
				case e.terr <- errors.New("injected transport failure"):
				default:
				}
			}
			h.settle(80 * time.Millisecond)
		case "close":
			// the peers of the oldest forwarded connection still open (its two ends) go away
			h.mu.Lock()
			var peers []net.Conn
			for i, c := range h.fconns {
				select {
				case <-c.closed:
				default:
					if len(peers) < 2 && i < len(h.fpeers) {
						peers = append(peers, h.fpeers[i])
					}
				}
			}
			h.mu.Unlock()
			for _, p := range peers {
				p.Close()
			}
			h.settle(80 * time.Millisecond)
		case "tick":
			time.Sleep(15300 * time.Millisecond)
			h.settle(100 * time.Millisecond)
		case "sleep":
			time.Sleep(time.Duration(s.num("ms")) * time.Millisecond)
		}
		h.observe()
	}
	h.setAuto(true)
	allBack := h.waitAll()
	h.settle(80 * time.Millisecond)
	h.observe()
	h.mu.Lock()
	h.emitLocked(map[string]any{"ev": "End", "drift": h.drift, "allBack": allBack})
	h.closed = true
	mgrNow := h.fmgr
	h.mu.Unlock()
	fin := make(chan struct{})
	go func() { mgrNow.Shutdown(); close(fin) }()
	select {
	case <-fin:
	case <-time.After(3 * time.Second):
	}
}
