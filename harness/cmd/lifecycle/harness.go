package main

// The case executor: one real synchronization.Manager in a scratch
// MUTAGEN_DATA_DIRECTORY, one session whose endpoints are produced by a
// Protocol_Local handler registered here. Every endpoint operation is
// journalled (call before the operation starts, return after it finished) and
// blocks on a gate the script opens, so that the interleavings TLC generated
// are reproduced on the real controller. Nothing in this file judges anything:
// it records arguments passed, values returned and files/trees seen.

import (
	"bufio"
	"context"
	"crypto/sha1"
	"encoding/hex"
	"encoding/json"
	"errors"
	"fmt"
	"io"
	"net"
	"os"
	"path/filepath"
	"sort"
	"sync"
	"time"

	"google.golang.org/protobuf/proto"

	"github.com/mutagen-io/mutagen/pkg/encoding"
	"github.com/mutagen-io/mutagen/pkg/forwarding"
	"github.com/mutagen-io/mutagen/pkg/logging"
	"github.com/mutagen-io/mutagen/pkg/selection"
	"github.com/mutagen-io/mutagen/pkg/synchronization"
	"github.com/mutagen-io/mutagen/pkg/synchronization/core"
	"github.com/mutagen-io/mutagen/pkg/synchronization/endpoint/local"
	"github.com/mutagen-io/mutagen/pkg/synchronization/rsync"
	urlpkg "github.com/mutagen-io/mutagen/pkg/url"

	"verif/harness/internal/vtree"
)

const (
	cmdWatchdog    = 15 * time.Second       // a command that has not returned by then is recorded as such
	pendingTimeout = 600 * time.Millisecond // how long a scripted gate opening waits for the operation to show up
	returnTimeout  = 5 * time.Second        // how long a released operation may take to return
)

type token struct {
	side, op string
	n        int
	release  chan string
	returned chan struct{}
}

type harness struct {
	cid      string
	real     bool
	mode     string
	dataDir  string
	rootDirs map[string]string

	mu             sync.Mutex
	cond           *sync.Cond
	out            *bufio.Writer
	events         int
	auto           bool
	pending        []*token
	seq            map[string]int
	trees          map[string]*core.Entry // fake endpoints: the contents of the two roots
	mgr            *synchronization.Manager
	session        string
	infl           map[int]chan struct{}
	kinds          map[int]string
	timeout        bool
	drift          int
	closed         bool
	gateOnly       map[string]bool // in auto mode: operations that are gated nevertheless ("interrupt at phase X" scenarios)
	broken         map[string]bool // "sessions" / "archives": the directory has been moved away and replaced by a file
	fwd            bool            // a forwarding session (fwd.go): records are prefixed with "F"
	fmgr           *forwarding.Manager
	fends          map[string]*fgated
	fconns         []*countConn
	fpeers         []net.Conn
	t0             time.Time
	connPlan       map[string][]string // scripted outcomes of the next dials per side (after the warm-up)
	inShutdown     bool                // Manager.Shutdown of a restart is in progress (it waits for the loop, hence for gated operations)
	freeMs         int64               // milliseconds during which the harness itself held no endpoint operation at a closed gate
	pendingTimeout time.Duration
	logger         *logging.Logger
}

func newHarness(cid string, real bool, mode string, dir string, w io.Writer) *harness {
	h := &harness{cid: cid, real: real, mode: mode, dataDir: filepath.Join(dir, "data"),
		rootDirs: map[string]string{"alpha": filepath.Join(dir, "alpha"), "beta": filepath.Join(dir, "beta")},
		out:      bufio.NewWriterSize(w, 1<<16), seq: map[string]int{}, trees: map[string]*core.Entry{},
		infl: map[int]chan struct{}{}, kinds: map[int]string{}, pendingTimeout: pendingTimeout, t0: time.Now()}
	h.cond = sync.NewCond(&h.mu)
	go func() {
		// the watchdog clock: it only runs while the harness is not itself keeping the loop at a closed gate
		last := time.Now()
		for {
			time.Sleep(20 * time.Millisecond)
			now := time.Now()
			h.mu.Lock()
			held := false
			for _, t := range h.pending {
				if !waitsForWorld(t.side, t.op) {
					held = true
				}
			}
			if !held {
				h.freeMs += now.Sub(last).Milliseconds()
			}
			h.mu.Unlock()
			last = now
		}
	}()
	if os.Getenv("VERIF_LC_DEBUG") != "" {
		h.logger = logging.NewLogger(logging.LevelTrace, os.Stderr)
	}
	return h
}

// emitLocked writes one journal record; h.mu must be held.
func (h *harness) emitLocked(rec map[string]any) {
	if h.closed {
		return // the case is over: what the final clean-up does is not part of it
	}
	rec["cid"] = h.cid
	if h.fwd {
		if ev, ok := rec["ev"].(string); ok && ev[0] != 'F' {
			rec["ev"] = "F" + ev
		}
	}
	rec["t"] = int(time.Since(h.t0).Milliseconds()) // monotonic milliseconds since the case began
	b, err := json.Marshal(rec)
	if err != nil {
		panic(err)
	}
	h.out.Write(b)
	h.out.WriteByte('\n')
	h.out.Flush()
	h.events++
	h.cond.Broadcast()
}

func (h *harness) emit(rec map[string]any) {
	h.mu.Lock()
	h.emitLocked(rec)
	h.mu.Unlock()
}

// ---------------------------------------------------------------- endpoints

func opRecord(side, op string, n int, phase, res string) map[string]any {
	return map[string]any{"ev": "EndpointOp", "side": side, "op": op, "n": n, "phase": phase, "res": res,
		"anc": vtree.Enc(nil), "tree": vtree.Enc(nil)}
}

// enter journals the call of an endpoint operation and, for gated operations,
// registers it as pending. It returns the token to wait on (nil: not gated).
func (h *harness) enter(side, op string, gated bool, extra map[string]any) *token {
	h.mu.Lock()
	defer h.mu.Unlock()
	h.seq[side]++
	n := h.seq[side]
	rec := opRecord(side, op, n, "call", "ok")
	for k, v := range extra {
		rec[k] = v
	}
	h.emitLocked(rec)
	t := &token{side: side, op: op, n: n, release: make(chan string, 1), returned: make(chan struct{})}
	if !gated || (h.auto && !waitsForWorld(side, op) && !h.gateOnly[op]) {
		t.release <- "ok"
		return t
	}
	h.pending = append(h.pending, t)
	h.cond.Broadcast()
	return t
}

func (h *harness) leave(t *token, res string, extra map[string]any) {
	h.mu.Lock()
	rec := opRecord(t.side, t.op, t.n, "return", res)
	for k, v := range extra {
		rec[k] = v
	}
	h.emitLocked(rec)
	h.mu.Unlock()
	close(t.returned)
}

// takePending removes and returns the pending operation (side, op), waiting up to d for it to appear.
func (h *harness) takePending(side, op string, d time.Duration) *token {
	deadline := time.Now().Add(d)
	h.mu.Lock()
	defer h.mu.Unlock()
	for {
		for i, t := range h.pending {
			if t.side == side && t.op == op {
				h.pending = append(h.pending[:i], h.pending[i+1:]...)
				return t
			}
		}
		if time.Now().After(deadline) {
			return nil
		}
		waitCond(h.cond, 5*time.Millisecond)
	}
}

// waitCond waits on c (whose lock is held) for at most d.
func waitCond(c *sync.Cond, d time.Duration) {
	// the timer takes the lock first: it can only get it once Wait has parked us, so its wake-up is never lost
	t := time.AfterFunc(d, func() { c.L.Lock(); c.L.Unlock(); c.Broadcast() })
	c.Wait()
	t.Stop()
}

// open lets the pending operation (side, op) proceed with the given outcome and waits for its return.
func (h *harness) open(side, op, outcome string) bool {
	t := h.takePending(side, op, h.pendingTimeout)
	if t == nil {
		// the replay has drifted from the script: do not keep the loop waiting at some other gate
		h.mu.Lock()
		h.drift++
		h.mu.Unlock()
		h.releasePending()
		return false
	}
	t.release <- outcome
	select {
	case <-t.returned:
	case <-time.After(returnTimeout):
	}
	return true
}

// waitsForWorld: operations that wait for something outside the session (a filesystem event, an incoming
// connection); they are never let through automatically.
func waitsForWorld(side, op string) bool {
	return op == "Poll" || (op == "Open" && side == "source")
}

// setAuto(true) releases everything pending (except polls) and lets later operations pass.
func (h *harness) setAuto(on bool) {
	h.mu.Lock()
	h.auto = on
	var keep []*token
	for _, t := range h.pending {
		if on && !waitsForWorld(t.side, t.op) {
			t.release <- "ok"
		} else {
			keep = append(keep, t)
		}
	}
	h.pending = keep
	h.mu.Unlock()
}

// releasePending lets every pending operation (except polls) proceed; counted as schedule drift.
func (h *harness) releasePending() {
	h.mu.Lock()
	var keep []*token
	for _, t := range h.pending {
		if !waitsForWorld(t.side, t.op) {
			t.release <- "ok"
			h.drift++
		} else {
			keep = append(keep, t)
		}
	}
	h.pending = keep
	h.mu.Unlock()
}

// settle waits until the journal has been still for a few milliseconds.
func (h *harness) settle(max time.Duration) {
	deadline := time.Now().Add(max)
	h.mu.Lock()
	last := h.events
	h.mu.Unlock()
	still := 0
	for time.Now().Before(deadline) {
		time.Sleep(2 * time.Millisecond)
		h.mu.Lock()
		cur := h.events
		h.mu.Unlock()
		if cur == last {
			still++
			if still >= 4 {
				return
			}
		} else {
			still = 0
			last = cur
		}
	}
}

type handler struct{ h *harness }

func (p *handler) Connect(_ context.Context, logger *logging.Logger, url *urlpkg.URL, _ string, session string,
	version synchronization.Version, configuration *synchronization.Configuration, alpha bool) (synchronization.Endpoint, error) {
	side := "beta"
	if alpha {
		side = "alpha"
	}
	h := p.h
	t := h.enter(side, "Connect", false, nil)
	h.mu.Lock()
	planned := "ok"
	if q := h.connPlan[side]; len(q) > 0 {
		planned, h.connPlan[side] = q[0], q[1:]
	}
	h.mu.Unlock()
	if planned == "err" {
		h.leave(t, "err", nil)
		return nil, errors.New("injected connection failure")
	}
	var inner synchronization.Endpoint
	if h.real {
		// the real local endpoint on the real directory; its own watching is switched off (the gate
		// layer provides Poll), everything else is the session's configuration
		cfg := &synchronization.Configuration{}
		if configuration != nil {
			cfg = proto.Clone(configuration).(*synchronization.Configuration)
		}
		cfg.WatchMode = synchronization.WatchMode_WatchModeNoWatch
		e, err := local.NewEndpoint(logger, url.Path, session, version, cfg, alpha)
		if err != nil {
			h.leave(t, "err", map[string]any{"err": err.Error()})
			return nil, err
		}
		inner = e
	}
	h.leave(t, "ok", nil)
	return &gated{h: h, side: side, inner: inner}, nil
}

// gated is the journaling, gating endpoint. With inner == nil it is a complete in-memory endpoint.
type gated struct {
	h     *harness
	side  string
	inner synchronization.Endpoint
}

func (g *gated) Poll(ctx context.Context) error {
	t := g.h.enter(g.side, "Poll", true, nil)
	res := "cancel"
	select {
	case <-t.release:
		res = "event"
	case <-ctx.Done():
		g.h.mu.Lock()
		for i, p := range g.h.pending {
			if p == t {
				g.h.pending = append(g.h.pending[:i], g.h.pending[i+1:]...)
				break
			}
		}
		g.h.mu.Unlock()
	}
	g.h.leave(t, res, nil)
	return nil
}

func count(e *core.Entry, dirs, files *uint64) {
	if e == nil {
		return
	}
	switch e.Kind {
	case core.EntryKind_Directory:
		*dirs++
		for _, c := range e.Contents {
			count(c, dirs, files)
		}
	case core.EntryKind_File:
		*files++
	}
}

func (g *gated) Scan(ctx context.Context, ancestor *core.Entry, full bool) (*core.Snapshot, error, bool) {
	t := g.h.enter(g.side, "Scan", true, map[string]any{"anc": vtree.Enc(ancestor), "full": full})
	outcome := <-t.release
	switch outcome {
	case "again":
		g.h.leave(t, "again", nil)
		return nil, errors.New("injected scan failure (concurrent modification)"), true
	case "err":
		g.h.leave(t, "err", nil)
		return nil, errors.New("injected scan failure"), false
	}
	if g.inner != nil {
		snap, err, again := g.inner.Scan(ctx, ancestor, full)
		if err != nil {
			res := "err"
			if again {
				res = "again"
			}
			g.h.leave(t, res, map[string]any{"err": err.Error()})
			return snap, err, again
		}
		g.h.leave(t, "ok", map[string]any{"tree": vtree.Enc(snap.Content)})
		return snap, nil, false
	}
	g.h.mu.Lock()
	content := g.h.trees[g.side].Copy(core.EntryCopyBehaviorDeep)
	g.h.mu.Unlock()
	snap := &core.Snapshot{Content: content, PreservesExecutability: true}
	count(content, &snap.Directories, &snap.Files)
	g.h.leave(t, "ok", map[string]any{"tree": vtree.Enc(content)})
	return snap, nil, false
}

func (g *gated) Stage(paths []string, digests [][]byte) ([]string, []*rsync.Signature, rsync.Receiver, error) {
	t := g.h.enter(g.side, "Stage", true, map[string]any{"paths": len(paths)})
	outcome := <-t.release
	if outcome == "err" {
		g.h.leave(t, "err", nil)
		return nil, nil, nil, errors.New("injected staging failure")
	}
	if g.inner != nil {
		p, s, r, err := g.inner.Stage(paths, digests)
		if err != nil {
			g.h.leave(t, "err", map[string]any{"err": err.Error()})
		} else {
			g.h.leave(t, "ok", nil)
		}
		return p, s, r, err
	}
	// in-memory endpoint: every file counts as already staged
	g.h.leave(t, "ok", nil)
	return nil, nil, nil, nil
}

func (g *gated) Supply(paths []string, signatures []*rsync.Signature, receiver rsync.Receiver) error {
	t := g.h.enter(g.side, "Supply", true, map[string]any{"paths": len(paths)})
	<-t.release
	if g.inner == nil {
		g.h.leave(t, "err", nil)
		return errors.New("in-memory endpoint cannot supply")
	}
	err := g.inner.Supply(paths, signatures, receiver)
	if err != nil {
		g.h.leave(t, "err", map[string]any{"err": err.Error()})
	} else {
		g.h.leave(t, "ok", nil)
	}
	return err
}

func (g *gated) Transition(ctx context.Context, transitions []*core.Change) ([]*core.Entry, []*core.Problem, bool, error) {
	t := g.h.enter(g.side, "Transition", true, map[string]any{"changes": vtree.EncChanges(transitions)})
	outcome := <-t.release
	if outcome == "err" {
		g.h.leave(t, "err", nil)
		return nil, nil, false, errors.New("injected transition failure")
	}
	if g.inner != nil {
		r, p, m, err := g.inner.Transition(ctx, transitions)
		res := "ok"
		if err != nil {
			res = "err"
		} else if m {
			res = "missing"
		}
		g.h.leave(t, res, map[string]any{"problems": len(p)})
		return r, p, m, err
	}
	g.h.mu.Lock()
	cur := g.h.trees[g.side]
	next, err := core.Apply(cur, transitions)
	if err == nil {
		g.h.trees[g.side] = next
	}
	g.h.mu.Unlock()
	if err != nil {
		g.h.leave(t, "err", map[string]any{"err": err.Error()})
		return nil, nil, false, err
	}
	results := make([]*core.Entry, len(transitions))
	for i, c := range transitions {
		results[i] = c.New
	}
	if outcome == "missing" {
		g.h.leave(t, "missing", nil)
		return results, nil, true, nil
	}
	g.h.leave(t, "ok", nil)
	return results, nil, false, nil
}

func (g *gated) Shutdown() error {
	t := g.h.enter(g.side, "Shutdown", false, nil)
	var err error
	if g.inner != nil {
		err = g.inner.Shutdown()
	}
	g.h.leave(t, "ok", nil)
	return err
}

// ---------------------------------------------------------------- commands

func (h *harness) sel() *selection.Selection {
	return &selection.Selection{Specifications: []string{h.session}}
}

var modes = map[string]core.SynchronizationMode{
	"tws": core.SynchronizationMode_SynchronizationModeTwoWaySafe,
	"twr": core.SynchronizationMode_SynchronizationModeTwoWayResolved,
	"ows": core.SynchronizationMode_SynchronizationModeOneWaySafe,
	"owr": core.SynchronizationMode_SynchronizationModeOneWayReplica,
}

func (h *harness) exec(id int, kind string) error {
	if h.fwd {
		return h.execFwd(id, kind)
	}
	ctx := context.Background()
	h.mu.Lock()
	mgr := h.mgr
	h.mu.Unlock()
	switch kind {
	case "create", "createp":
		a := &urlpkg.URL{Kind: urlpkg.Kind_Synchronization, Protocol: urlpkg.Protocol_Local, Path: h.rootDirs["alpha"]}
		b := &urlpkg.URL{Kind: urlpkg.Kind_Synchronization, Protocol: urlpkg.Protocol_Local, Path: h.rootDirs["beta"]}
		cfg := &synchronization.Configuration{SynchronizationMode: modes[h.mode]}
		sid, err := mgr.Create(ctx, a, b, cfg, &synchronization.Configuration{}, &synchronization.Configuration{},
			"", nil, kind == "createp", "")
		if err == nil {
			h.mu.Lock()
			h.session = sid
			h.mu.Unlock()
		}
		return err
	case "pause":
		return mgr.Pause(ctx, h.sel(), "")
	case "resume":
		return mgr.Resume(ctx, h.sel(), "")
	case "flushw":
		return mgr.Flush(ctx, h.sel(), "", false)
	case "flushn":
		return mgr.Flush(ctx, h.sel(), "", true)
	case "reset":
		return mgr.Reset(ctx, h.sel(), "")
	case "terminate":
		return mgr.Terminate(ctx, h.sel(), "")
	case "restart":
		// the daemon goes down: Shutdown; every call into the old manager returns; a new manager loads the data directory
		h.mu.Lock()
		h.inShutdown = true
		h.mu.Unlock()
		mgr.Shutdown()
		h.mu.Lock()
		h.inShutdown = false
		h.mu.Unlock()
		h.waitOthers(id, cmdWatchdog)
		m, err := synchronization.NewManager(h.logger)
		if err != nil {
			return err
		}
		h.mu.Lock()
		h.mgr = m
		h.mu.Unlock()
		return nil
	}
	return fmt.Errorf("unknown command kind %q", kind)
}

func (h *harness) waitOthers(id int, d time.Duration) {
	deadline := time.After(d)
	h.mu.Lock()
	var chans []chan struct{}
	for j, ch := range h.infl {
		if j != id {
			chans = append(chans, ch)
		}
	}
	h.mu.Unlock()
	for _, ch := range chans {
		select {
		case <-ch:
		case <-deadline:
			return
		}
	}
}

// call journals the call of command id and issues it on its own goroutine.
func (h *harness) call(id int, kind string) {
	// while the daemon is restarting nobody can talk to it; if the restart is itself waiting for a gated
	// operation (the replay has drifted from the scripted behaviour), let that operation through
	for start := time.Now(); h.restartInFlight() && time.Since(start) < cmdWatchdog; {
		time.Sleep(2 * time.Millisecond)
		if time.Since(start) > 200*time.Millisecond && h.shuttingDown() {
			h.releasePending()
		}
	}
	done := make(chan struct{})
	h.mu.Lock()
	h.infl[id] = done
	h.kinds[id] = kind
	h.emitLocked(map[string]any{"ev": "Cmd", "id": id, "kind": kind, "phase": "call", "result": "", "err": "", "ms": 0})
	h.mu.Unlock()
	start := time.Now()
	go func() {
		err := h.exec(id, kind)
		res, msg := "ok", ""
		if err != nil {
			res, msg = "err", ascii(err.Error())
		}
		h.emit(map[string]any{"ev": "Cmd", "id": id, "kind": kind, "phase": "return", "result": res, "err": msg,
			"ms": int(time.Since(start).Milliseconds())})
		close(done)
	}()
	go func() {
		h.mu.Lock()
		base := h.freeMs
		h.mu.Unlock()
		for {
			select {
			case <-done:
				return
			case <-time.After(100 * time.Millisecond):
			}
			h.mu.Lock()
			expired := h.freeMs-base >= cmdWatchdog.Milliseconds()
			if expired {
				h.timeout = true
				h.emitLocked(map[string]any{"ev": "Cmd", "id": id, "kind": kind, "phase": "timeout", "result": "timeout", "err": "",
					"ms": int(time.Since(start).Milliseconds())})
			}
			h.mu.Unlock()
			if expired {
				return
			}
		}
	}()
}

// wait blocks until command id has returned or its watchdog has fired.
func (h *harness) wait(id int) bool {
	h.mu.Lock()
	ch := h.infl[id]
	h.mu.Unlock()
	if ch == nil {
		return true
	}
	for {
		select {
		case <-ch:
			return true
		case <-time.After(50 * time.Millisecond):
		}
		if h.isTimedOut() {
			return false
		}
	}
}

func (h *harness) waitAll() bool {
	h.mu.Lock()
	ids := make([]int, 0, len(h.infl))
	for id := range h.infl {
		ids = append(ids, id)
	}
	h.mu.Unlock()
	ok := true
	for _, id := range ids {
		if !h.wait(id) {
			ok = false
		}
	}
	return ok
}

func (h *harness) shuttingDown() bool {
	h.mu.Lock()
	defer h.mu.Unlock()
	return h.inShutdown
}

func (h *harness) restartInFlight() bool {
	h.mu.Lock()
	defer h.mu.Unlock()
	for j, ch := range h.infl {
		if h.kinds[j] == "restart" {
			select {
			case <-ch:
			default:
				return true
			}
		}
	}
	return false
}

func ascii(s string) string {
	b := []byte(s)
	for i, c := range b {
		if c < 32 || c > 126 || c == '"' || c == '\\' {
			b[i] = '?'
		}
	}
	if len(b) > 160 {
		b = b[:160]
	}
	return string(b)
}

// ---------------------------------------------------------------- observations

var statusNames = map[synchronization.Status]string{
	synchronization.Status_Disconnected:           "disconnected",
	synchronization.Status_HaltedOnRootEmptied:    "halted-on-root-emptied",
	synchronization.Status_HaltedOnRootDeletion:   "halted-on-root-deletion",
	synchronization.Status_HaltedOnRootTypeChange: "halted-on-root-type-change",
	synchronization.Status_ConnectingAlpha:        "connecting-alpha",
	synchronization.Status_ConnectingBeta:         "connecting-beta",
	synchronization.Status_Watching:               "watching",
	synchronization.Status_Scanning:               "scanning",
	synchronization.Status_WaitingForRescan:       "waiting-for-rescan",
	synchronization.Status_Reconciling:            "reconciling",
	synchronization.Status_StagingAlpha:           "staging-alpha",
	synchronization.Status_StagingBeta:            "staging-beta",
	synchronization.Status_Transitioning:          "transitioning",
	synchronization.Status_Saving:                 "saving",
}

// walk describes a directory tree using only os primitives.
func walk(path string) map[string]any {
	fi, err := os.Lstat(path)
	if err != nil {
		return map[string]any{"k": "nil"}
	}
	switch {
	case fi.Mode()&os.ModeSymlink != 0:
		t, _ := os.Readlink(path)
		return map[string]any{"k": "link", "t": ascii(t)}
	case fi.IsDir():
		c := map[string]any{}
		ents, _ := os.ReadDir(path)
		for _, e := range ents {
			c[e.Name()] = walk(filepath.Join(path, e.Name()))
		}
		return map[string]any{"k": "dir", "c": c}
	case fi.Mode().IsRegular():
		b, _ := os.ReadFile(path)
		s := sha1.Sum(b)
		return map[string]any{"k": "file", "d": hex.EncodeToString(s[:]), "x": fi.Mode()&0o111 != 0}
	}
	return map[string]any{"k": "untracked"}
}

// stableEmit takes an observation with read() and journals it only if no other journal record was written while
// it was being taken (so that it is an observation AT its position in the journal); it retries a few times and
// otherwise marks the record unstable (the trace module does not judge unstable observations).
func (h *harness) stableEmit(read func() map[string]any) {
	var rec map[string]any
	for attempt := 0; attempt < 6; attempt++ {
		h.mu.Lock()
		e0 := h.events
		h.mu.Unlock()
		rec = read()
		h.mu.Lock()
		if h.events == e0 {
			rec["stable"] = true
			h.emitLocked(rec)
			h.mu.Unlock()
			return
		}
		h.mu.Unlock()
		time.Sleep(time.Duration(attempt+1) * time.Millisecond)
	}
	rec["stable"] = false
	h.emit(rec)
}

// observe records both roots, the session and archive files, and what Manager.List says.
func (h *harness) observe() {
	if h.fwd {
		h.observeFwd()
		return
	}
	if h.restartInFlight() {
		return
	}
	h.mu.Lock()
	mgr, sid := h.mgr, h.session
	h.mu.Unlock()
	// roots: a walker for real directories, the endpoints' trees otherwise
	h.stableEmit(func() map[string]any {
		var ra, rb map[string]any
		if h.real {
			ra, rb = walk(h.rootDirs["alpha"]), walk(h.rootDirs["beta"])
		} else {
			h.mu.Lock()
			ra, rb = vtree.Enc(h.trees["alpha"]), vtree.Enc(h.trees["beta"])
			h.mu.Unlock()
		}
		return map[string]any{"ev": "Roots", "alpha": ra, "beta": rb}
	})
	// files
	h.stableEmit(func() map[string]any {
		disk := map[string]any{"ev": "Disk", "sessionFile": false, "paused": false, "archive": map[string]any{"k": "gone"}}
		if sid == "" {
			return disk
		}
		sp := filepath.Join(h.storeDir("sessions"), sid)
		if _, err := os.Stat(sp); err == nil {
			disk["sessionFile"] = true
			s := &synchronization.Session{}
			if encoding.LoadAndUnmarshalProtobuf(sp, s) == nil {
				disk["paused"] = s.Paused
			}
		}
		ap := filepath.Join(h.storeDir("archives"), sid)
		if _, err := os.Stat(ap); err == nil {
			a := &core.Archive{}
			if encoding.LoadAndUnmarshalProtobuf(ap, a) == nil {
				disk["archive"] = vtree.Enc(a.Content)
			} else {
				disk["archive"] = map[string]any{"k": "undecodable"}
			}
		}
		return disk
	})
	// Manager.List
	h.stableEmit(func() map[string]any {
		st := map[string]any{"ev": "State", "listed": false, "paused": false, "status": "none", "cycles": 0, "lastError": "", "listErr": ""}
		if mgr == nil {
			st["listErr"] = "no manager"
			return st
		}
		ctx, cancel := context.WithTimeout(context.Background(), 3*time.Second)
		_, states, err := mgr.List(ctx, &selection.Selection{All: true}, 0)
		cancel()
		if err != nil {
			st["listErr"] = ascii(err.Error())
		}
		for _, s := range states {
			if s.Session != nil && s.Session.Identifier == sid {
				st["listed"] = true
				st["paused"] = s.Session.Paused
				st["status"] = statusNames[s.Status]
				st["cycles"] = int(s.SuccessfulCycles)
				st["lastError"] = ascii(s.LastError)
			}
		}
		return st
	})
}

// stream follows the session's state through Manager.List long polls (previousStateIndex) and journals every change
// of (listed, status, LastError # "", SuccessfulCycles) it sees, with the tracker index it was delivered under.
func (h *harness) stream(stop chan struct{}) {
	var prev uint64
	var last string
	var cur *synchronization.Manager
	for {
		select {
		case <-stop:
			return
		default:
		}
		h.mu.Lock()
		mgr, sid, closed := h.mgr, h.session, h.closed
		h.mu.Unlock()
		if closed {
			return
		}
		if mgr == nil || sid == "" || h.restartInFlight() {
			time.Sleep(2 * time.Millisecond)
			continue
		}
		if mgr != cur {
			cur, prev = mgr, 0
		}
		ctx, cancel := context.WithTimeout(context.Background(), 500*time.Millisecond)
		idx, states, err := mgr.List(ctx, &selection.Selection{All: true}, prev)
		cancel()
		if err != nil {
			// a poll that timed out without a change, or a manager that was shut down
			time.Sleep(2 * time.Millisecond)
			continue
		}
		prev = idx
		rec := map[string]any{"ev": "Stream", "index": int(idx), "listed": false, "status": "none", "err": false, "cycles": 0}
		for _, st := range states {
			if st.Session != nil && st.Session.Identifier == sid {
				rec["listed"] = true
				rec["status"] = statusNames[st.Status]
				rec["err"] = st.LastError != ""
				rec["cycles"] = int(st.SuccessfulCycles)
			}
		}
		key := fmt.Sprint(rec["listed"], rec["status"], rec["err"], rec["cycles"])
		if key != last {
			last = key
			h.emit(rec)
		}
	}
}

// ---------------------------------------------------------------- external edits

// setRoot (in-memory endpoints) replaces the contents of a root.
func (h *harness) setRoot(side string, tree *core.Entry) {
	h.mu.Lock()
	h.trees[side] = tree
	h.emitLocked(map[string]any{"ev": "Edit", "side": side, "what": "set"})
	h.mu.Unlock()
}

// materialise writes a tree below path (real directories).
func materialise(path string, e *core.Entry, content func(digest []byte) []byte) error {
	if e == nil {
		return nil
	}
	switch e.Kind {
	case core.EntryKind_Directory:
		if err := os.MkdirAll(path, 0o755); err != nil {
			return err
		}
		names := make([]string, 0, len(e.Contents))
		for n := range e.Contents {
			names = append(names, n)
		}
		sort.Strings(names)
		for _, n := range names {
			if err := materialise(filepath.Join(path, n), e.Contents[n], content); err != nil {
				return err
			}
		}
	case core.EntryKind_File:
		mode := os.FileMode(0o644)
		if e.Executable {
			mode = 0o755
		}
		return os.WriteFile(path, content(e.Digest), mode)
	case core.EntryKind_SymbolicLink:
		return os.Symlink(e.Target, path)
	}
	return nil
}

// fileContent derives file bytes from the "digest" of a script tree (length varies with the digest, so that
// a modification always changes the size).
func fileContent(d []byte) []byte {
	n := 8
	for _, b := range d {
		n += int(b) % 23
	}
	out := make([]byte, 0, n+len(d)*2)
	out = append(out, []byte(hex.EncodeToString(d))...)
	for len(out) < n+len(d)*2 {
		out = append(out, byte('a'+len(out)%26))
	}
	return out
}

// replaceRoot (real directories) makes the root equal to the tree: nil removes it, a file replaces it by a file.
func (h *harness) replaceRoot(side string, tree *core.Entry) {
	root := h.rootDirs[side]
	os.RemoveAll(root)
	materialise(root, tree, fileContent)
	h.emit(map[string]any{"ev": "Edit", "side": side, "what": "set"})
}

// storeDir is where the session files / archives really are at the moment.
func (h *harness) storeDir(what string) string {
	d := filepath.Join(h.dataDir, what)
	h.mu.Lock()
	defer h.mu.Unlock()
	if h.broken[what] {
		return d + ".away"
	}
	return d
}

// breakDir makes saving and removing in the sessions / archives directory fail for real: the directory is renamed
// away and a regular file takes its place (WriteFileAtomic cannot create its temporary file, os.Remove gets ENOTDIR);
// restoreDir undoes it. The files themselves are untouched.
func (h *harness) breakDir(what string) {
	d := filepath.Join(h.dataDir, what)
	h.mu.Lock()
	already := h.broken[what]
	h.mu.Unlock()
	if already {
		return
	}
	if err := os.Rename(d, d+".away"); err != nil {
		h.emit(map[string]any{"ev": "Infra", "what": "break: " + ascii(err.Error())})
		return
	}
	os.WriteFile(d, []byte("not a directory"), 0o600)
	h.mu.Lock()
	if h.broken == nil {
		h.broken = map[string]bool{}
	}
	h.broken[what] = true
	h.emitLocked(map[string]any{"ev": "Break", "what": what, "on": true})
	h.mu.Unlock()
}

func (h *harness) restoreDir(what string) {
	d := filepath.Join(h.dataDir, what)
	h.mu.Lock()
	is := h.broken[what]
	h.mu.Unlock()
	if !is {
		return
	}
	os.Remove(d)
	if err := os.Rename(d+".away", d); err != nil {
		h.emit(map[string]any{"ev": "Infra", "what": "restore: " + ascii(err.Error())})
		return
	}
	h.mu.Lock()
	h.broken[what] = false
	h.emitLocked(map[string]any{"ev": "Break", "what": what, "on": false})
	h.mu.Unlock()
}

// ---------------------------------------------------------------- the interpreter

type step map[string]any

func (s step) str(k string) string { v, _ := s[k].(string); return v }
func (s step) num(k string) int {
	switch v := s[k].(type) {
	case json.Number:
		n, _ := v.Int64()
		return int(n)
	case float64:
		return int(v)
	case int:
		return v
	}
	return 0
}

// runCase executes one case and writes its journal to w.
func runCase(cs map[string]any, dir string, w io.Writer) {
	cid, _ := cs["cid"].(string)
	real, _ := cs["real"].(bool)
	auto, _ := cs["auto"].(bool)
	mode, _ := cs["mode"].(string)
	if mode == "" {
		mode = "tws"
	}
	h := newHarness(cid, real, mode, dir, w)
	defer h.out.Flush()
	os.MkdirAll(h.dataDir, 0o700)
	os.Setenv("MUTAGEN_DATA_DIRECTORY", h.dataDir)
	synchronization.ProtocolHandlers[urlpkg.Protocol_Local] = &handler{h}
	h.auto = auto
	if isFwd, _ := cs["fwd"].(bool); isFwd {
		h.fwd = true
		h.fends = map[string]*fgated{}
		runFwdCase(cs, h)
		return
	}

	init := vtree.Dec(cs["init"])
	for _, side := range []string{"alpha", "beta"} {
		t := init
		if v, ok := cs["init_"+side]; ok {
			t = vtree.Dec(v)
		}
		if real {
			materialise(h.rootDirs[side], t, fileContent)
		} else {
			h.trees[side] = t.Copy(core.EntryCopyBehaviorDeep)
		}
	}
	mgr, err := synchronization.NewManager(h.logger)
	if err != nil {
		h.emit(map[string]any{"ev": "Infra", "what": "NewManager: " + ascii(err.Error())})
		return
	}
	h.mgr = mgr
	stopStream := make(chan struct{})
	defer close(stopStream)
	if noStream, _ := cs["nostream"].(bool); !noStream {
		go h.stream(stopStream)
	}

	// create the session (command 0). "warm" cases are then brought into the model's initial state: the first
	// cycle records the ancestor, the session is paused (commands 90) and - unless the case starts paused -
	// resumed (91), which leaves the new loop at its first scan with the ancestor on disk.
	startPaused, _ := cs["startPaused"].(bool)
	warm, _ := cs["warm"].(bool)
	ck := "create"
	if startPaused && !warm {
		ck = "createp"
	}
	h.call(0, ck)
	if !h.wait(0) {
		return
	}
	if warm {
		if !auto {
			h.open("alpha", "Scan", "ok")
			h.open("beta", "Scan", "ok")
			for _, side := range []string{"alpha", "beta"} {
				if t := h.takePending(side, "Transition", 30*time.Millisecond); t != nil {
					t.release <- "ok"
					<-t.returned
				}
			}
		}
		h.waitPending("alpha", "Poll", 3*time.Second)
		h.waitPending("beta", "Poll", 3*time.Second)
		h.call(90, "pause")
		if !h.wait(90) {
			return
		}
		if !startPaused {
			h.call(91, "resume")
			if !h.wait(91) {
				return
			}
		}
		h.mu.Lock()
		h.drift = 0
		h.mu.Unlock()
	}
	// the dials the script decides about (in order, per side); everything before this point connected normally
	plan := map[string][]string{}
	if stepsAny, ok := cs["steps"].([]any); ok {
		for _, sv := range stepsAny {
			if m, ok := sv.(map[string]any); ok && m["a"] == "connect" {
				side, _ := m["side"].(string)
				out, _ := m["out"].(string)
				plan[side] = append(plan[side], out)
			}
		}
	}
	h.mu.Lock()
	h.connPlan = plan
	h.mu.Unlock()
	if pt := step(cs).num("pt"); pt > 0 {
		h.pendingTimeout = time.Duration(pt) * time.Millisecond
	}
	h.settle(40 * time.Millisecond)
	h.observe()

	steps, _ := cs["steps"].([]any)
	for _, sv := range steps {
		m, _ := sv.(map[string]any)
		s := step(m)
		if h.isTimedOut() {
			break
		}
		switch s.str("a") {
		case "call":
			h.call(s.num("id"), s.str("kind"))
			h.settle(60 * time.Millisecond)
		case "wait":
			h.wait(s.num("id"))
			h.settle(20 * time.Millisecond)
		case "edit":
			t := vtree.Dec(s["tree"])
			if real {
				h.replaceRoot(s.str("side"), t)
			} else {
				h.setRoot(s.str("side"), t)
			}
		case "event":
			h.open(s.str("side"), "Poll", "event")
			h.settle(60 * time.Millisecond)
		case "scan":
			// alpha carries the scripted outcome
			ta := h.takePending("alpha", "Scan", h.pendingTimeout)
			tb := h.takePending("beta", "Scan", h.pendingTimeout)
			if ta == nil || tb == nil {
				h.mu.Lock()
				h.drift++
				h.mu.Unlock()
				h.releasePending()
			}
			if ta != nil {
				ta.release <- s.str("out")
			}
			if tb != nil {
				tb.release <- "ok"
			}
			for _, t := range []*token{ta, tb} {
				if t != nil {
					select {
					case <-t.returned:
					case <-time.After(returnTimeout):
					}
				}
			}
			h.settle(60 * time.Millisecond)
		case "stage":
			h.open(s.str("side"), "Stage", s.str("out"))
			h.settle(60 * time.Millisecond)
		case "trans":
			h.open(s.str("side"), "Transition", s.str("out"))
			h.settle(60 * time.Millisecond)
		case "auto":
			on, _ := s["on"].(bool)
			h.setAuto(on)
		case "gateonly":
			// from now on, although everything else passes, these operations wait for the script
			g := map[string]bool{}
			if ops, ok := s["ops"].([]any); ok {
				for _, o := range ops {
					if name, ok := o.(string); ok {
						g[name] = true
					}
				}
			}
			h.mu.Lock()
			h.gateOnly = g
			h.mu.Unlock()
			if len(g) == 0 {
				h.setAuto(true) // releases whatever is still pending
			}
		case "waitpending":
			// the loop is inside that operation (a gate, not a sleep)
			if !h.waitPending(s.str("side"), s.str("op"), 5*time.Second) {
				h.mu.Lock()
				h.drift++
				h.mu.Unlock()
			}
		case "interrupt":
			// a label for the trace: the next command lands while the loop stands at this phase
			h.emit(map[string]any{"ev": "Interrupt", "phase": s.str("phase"), "kind": s.str("kind")})
		case "sleep":
			time.Sleep(time.Duration(s.num("ms")) * time.Millisecond)
		case "tick":
			// let one of the loop's timers fire: autoReconnectInterval (15 s) or rescanWaitDuration (5 s)
			d := 15300 * time.Millisecond
			if s.str("what") == "rescan" {
				d = 5200 * time.Millisecond
			}
			time.Sleep(d)
			h.settle(100 * time.Millisecond)
		case "break":
			h.breakDir(s.str("what"))
		case "restore":
			h.restoreDir(s.str("what"))
		case "connect":
			// consumed in advance (connPlan): dials are not gated
		case "obs":
		}
		h.observe()
	}

	// free run: the directories are back, everything still gated may proceed; every command must return
	h.restoreDir("sessions")
	h.restoreDir("archives")
	h.setAuto(true)
	allBack := h.waitAll()
	h.settle(80 * time.Millisecond)
	h.observe()
	h.mu.Lock()
	h.emitLocked(map[string]any{"ev": "End", "drift": h.drift, "allBack": allBack})
	h.closed = true
	mgrNow := h.mgr
	h.mu.Unlock()
	// leave nothing running behind (bounded)
	fin := make(chan struct{})
	go func() { mgrNow.Shutdown(); close(fin) }()
	select {
	case <-fin:
	case <-time.After(3 * time.Second):
	}
}

func (h *harness) isTimedOut() bool {
	h.mu.Lock()
	defer h.mu.Unlock()
	return h.timeout
}

// waitPending waits until (side, op) is pending without taking it.
func (h *harness) waitPending(side, op string, d time.Duration) bool {
	deadline := time.Now().Add(d)
	h.mu.Lock()
	defer h.mu.Unlock()
	for {
		for _, t := range h.pending {
			if t.side == side && t.op == op {
				return true
			}
		}
		if time.Now().After(deadline) {
			return false
		}
		waitCond(h.cond, 5*time.Millisecond)
	}
}
