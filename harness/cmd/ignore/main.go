// Driver "ignore": executes the real Mutagen-style and Docker-style ignorers
// (mutagen.NewIgnorer, ignore.IgnoreVCS, docker.NewIgnorer), real core.Scan on
// materialised trees and real core.ReifyPhantomDirectories, over the bounded
// domain exported by TLC (spec/ignore/IgnoreDomain.tla) and over seeded random
// cases beyond it, and records what they returned. Third-party reference
// answers (doublestar.Match, the vendored upstream moby matcher) are recorded
// for calibrating the TLA+ glob semantics. The driver contains no property
// predicate; spec/ignore/C14_Trace.tla and C15_Trace.tla judge the records.
package main

import (
	"context"
	"crypto/sha1"
	"encoding/json"
	"fmt"
	"math/rand"
	"os"
	"path/filepath"
	"sort"
	"strings"

	"github.com/bmatcuk/doublestar/v4"

	"github.com/mutagen-io/mutagen/pkg/filesystem/behavior"
	"github.com/mutagen-io/mutagen/pkg/synchronization/core"
	"github.com/mutagen-io/mutagen/pkg/synchronization/core/ignore"
	dockerignore "github.com/mutagen-io/mutagen/pkg/synchronization/core/ignore/docker"
	mutagenignore "github.com/mutagen-io/mutagen/pkg/synchronization/core/ignore/mutagen"

	"verif/harness/internal/vlib"
)

// ---------------------------------------------------------------------------
// Token-level encoding shared with the specification.

// Raw is a raw pattern: "!" if Neg, then the components joined by "/" (an empty
// first component is a leading slash, an empty last one a trailing slash).
type Raw struct {
	Neg   bool       `json:"neg"`
	Comps [][]string `json:"comps"`
}

func joinComps(comps [][]string) string {
	parts := make([]string, len(comps))
	for i, c := range comps {
		parts[i] = strings.Join(c, "")
	}
	return strings.Join(parts, "/")
}

func (r Raw) String() string {
	s := joinComps(r.Comps)
	if r.Neg {
		return "!" + s
	}
	return s
}

func strsOf(raws []Raw) []string {
	out := make([]string, len(raws))
	for i, r := range raws {
		out[i] = r.String()
	}
	return out
}

// normalise makes every slice non-nil so that JSON never contains null.
func normRaw(r Raw) Raw {
	cs := make([][]string, len(r.Comps))
	for i, c := range r.Comps {
		cs[i] = append([]string{}, c...)
	}
	return Raw{Neg: r.Neg, Comps: cs}
}

func normRaws(rs []Raw) []Raw {
	out := make([]Raw, len(rs))
	for i, r := range rs {
		out[i] = normRaw(r)
	}
	return out
}

func normPath(p [][]string) [][]string {
	out := make([][]string, len(p))
	for i, c := range p {
		out[i] = append([]string{}, c...)
	}
	return out
}

func chars(s string) []string {
	out := make([]string, 0, len(s))
	for i := 0; i < len(s); i++ {
		out = append(out, s[i:i+1])
	}
	return out
}

// Tree is a materialisable tree: a directory with children or a file.
type Tree struct {
	Dir bool
	C   map[string]*Tree
}

func decTree(v any) *Tree {
	m := v.(map[string]any)
	switch m["k"] {
	case "file":
		return &Tree{}
	case "dir":
		t := &Tree{Dir: true, C: map[string]*Tree{}}
		if c, ok := m["c"].(map[string]any); ok {
			for n, ch := range c {
				t.C[n] = decTree(ch)
			}
		}
		return t
	case "nil":
		return nil
	}
	panic(fmt.Sprintf("bad tree kind %v", m["k"]))
}

func encTree(t *Tree) map[string]any {
	if t == nil {
		return map[string]any{"k": "nil"}
	}
	if !t.Dir {
		return map[string]any{"k": "file"}
	}
	c := map[string]any{}
	for n, ch := range t.C {
		c[n] = encTree(ch)
	}
	return map[string]any{"k": "dir", "c": c}
}

func (t *Tree) names(into map[string]any) {
	if t == nil {
		return
	}
	for n, ch := range t.C {
		into[n] = chars(n)
		ch.names(into)
	}
}

func sortedKeys(m map[string]*Tree) []string {
	ks := make([]string, 0, len(m))
	for k := range m {
		ks = append(ks, k)
	}
	sort.Strings(ks)
	return ks
}

func materialise(t *Tree, at string) {
	if !t.Dir {
		if err := os.WriteFile(at, []byte("x"), 0o644); err != nil {
			vlib.Fatal("materialise: %v", err)
		}
		return
	}
	if err := os.MkdirAll(at, 0o755); err != nil {
		vlib.Fatal("materialise: %v", err)
	}
	for n, ch := range t.C {
		materialise(ch, filepath.Join(at, n))
	}
}

// encSnap encodes the shape of a snapshot entry (kinds and names only).
func encSnap(e *core.Entry) map[string]any {
	if e == nil {
		return map[string]any{"k": "nil"}
	}
	switch e.Kind {
	case core.EntryKind_Directory, core.EntryKind_PhantomDirectory:
		c := map[string]any{}
		for n, ch := range e.Contents {
			c[n] = encSnap(ch)
		}
		k := "dir"
		if e.Kind == core.EntryKind_PhantomDirectory {
			k = "phantom"
		}
		return map[string]any{"k": k, "c": c}
	case core.EntryKind_File:
		return map[string]any{"k": "file"}
	case core.EntryKind_SymbolicLink:
		return map[string]any{"k": "link"}
	case core.EntryKind_Untracked:
		return map[string]any{"k": "untracked"}
	case core.EntryKind_Problematic:
		return map[string]any{"k": "problem"}
	}
	return map[string]any{"k": fmt.Sprintf("kind%d", e.Kind)}
}

// ancEntry converts a tree into a synchronizable ancestor entry.
func ancEntry(t *Tree) *core.Entry {
	if t == nil {
		return nil
	}
	if !t.Dir {
		return &core.Entry{Kind: core.EntryKind_File, Digest: []byte{1}}
	}
	e := &core.Entry{Kind: core.EntryKind_Directory}
	if len(t.C) > 0 {
		e.Contents = map[string]*core.Entry{}
		for n, ch := range t.C {
			e.Contents[n] = ancEntry(ch)
		}
	}
	return e
}

func hasKind(e *core.Entry, kinds ...core.EntryKind) bool {
	if e == nil {
		return false
	}
	for _, k := range kinds {
		if e.Kind == k {
			return true
		}
	}
	for _, ch := range e.Contents {
		if hasKind(ch, kinds...) {
			return true
		}
	}
	return false
}

func statusName(s ignore.IgnoreStatus) string {
	switch s {
	case ignore.IgnoreStatusNominal:
		return "nominal"
	case ignore.IgnoreStatusIgnored:
		return "ignored"
	case ignore.IgnoreStatusUnignored:
		return "unignored"
	}
	return fmt.Sprintf("status%d", s)
}

func scan(root string, ig ignore.Ignorer) (*core.Entry, error) {
	snap, _, _, err := core.Scan(context.Background(), root, nil, nil, sha1.New(), nil, ig, nil,
		behavior.ProbeMode_ProbeModeAssume,
		core.SymbolicLinkMode_SymbolicLinkModePortable,
		core.PermissionsMode_PermissionsModePortable)
	if err != nil {
		return nil, err
	}
	return snap.Content, nil
}

// ---------------------------------------------------------------------------
// Domain blocks exported by TLC.

type Block struct {
	Syntax string           `json:"syntax"`
	Tier   string           `json:"tier"`
	Index  int              `json:"index"`
	Name   string           `json:"name"`
	Gram   []Raw            `json:"gram"`
	Minlen int              `json:"minlen"`
	Maxlen int              `json:"maxlen"`
	Paths  [][][]string     `json:"paths"`
	Vcs    []bool           `json:"vcs"`
	Trees  []any            `json:"trees"`
	Names  map[string][]any `json:"names"`
}

func loadBlocks(c *vlib.Ctx, syntax string) []Block {
	var out []Block
	for _, m := range c.ReadBehaviours() {
		var b Block
		vlib.Decode(m, &b)
		if b.Syntax == syntax && b.Tier == c.Tier {
			out = append(out, b)
		}
	}
	sort.Slice(out, func(i, j int) bool { return out[i].Index < out[j].Index })
	if len(out) == 0 {
		vlib.Fatal("no %s domain blocks for tier %s in the behaviours exported by TLC", syntax, c.Tier)
	}
	return out
}

// lists enumerates the index lists of a block in rank order.
func lists(b Block, f func(li []int)) {
	g := len(b.Gram)
	for n := b.Minlen; n <= b.Maxlen; n++ {
		li := make([]int, n)
		for i := range li {
			li[i] = 1
		}
		for {
			f(append([]int{}, li...))
			i := n - 1
			for i >= 0 {
				li[i]++
				if li[i] <= g {
					break
				}
				li[i] = 1
				i--
			}
			if i < 0 {
				break
			}
		}
	}
}

func pick(b Block, li []int) []Raw {
	out := make([]Raw, len(li))
	for i, x := range li {
		out[i] = b.Gram[x-1]
	}
	return normRaws(out)
}

// ---------------------------------------------------------------------------
// C14: Mutagen-style.

func mutagenIgnorer(raws []Raw, vcs bool) (ignore.Ignorer, error) {
	ig, err := mutagenignore.NewIgnorer(strsOf(raws))
	if err != nil {
		return nil, err
	}
	if vcs {
		ig = ignore.IgnoreVCS(ig)
	}
	return ig, nil
}

func ignoreRecord(c *vlib.Ctx, raws []Raw, path [][]string, dir, vcs bool, idx map[string]any) map[string]any {
	rec := map[string]any{
		"ev":      "Ignore",
		"in":      map[string]any{"pats": raws, "path": normPath(path), "dir": dir, "vcs": vcs},
		"strs":    strsOf(raws),
		"pathstr": joinComps(path),
	}
	if idx != nil {
		rec["idx"] = idx
	}
	ig, err := mutagenIgnorer(raws, vcs)
	if err != nil {
		rec["valid"] = false
		rec["status"] = "none"
		rec["cont"] = false
	} else {
		st, cont := ig.Ignore(joinComps(path), dir)
		rec["valid"] = true
		rec["status"] = statusName(st)
		rec["cont"] = cont
		if st != ignore.IgnoreStatusNominal {
			c.NonTrivial(rec["in"])
		}
	}
	c.Eval()
	return rec
}

func globCal(c *vlib.Ctx, comps [][]string, path [][]string) map[string]any {
	m, err := doublestar.Match(joinComps(comps), joinComps(path))
	c.Eval()
	return map[string]any{"ev": "GlobCal", "in": map[string]any{"comps": normPath(comps), "path": normPath(path)},
		"pat": joinComps(comps), "pathstr": joinComps(path), "m": m, "err": err != nil}
}

func mscanRecord(c *vlib.Ctx, raws []Raw, vcs bool, t *Tree, root string) map[string]any {
	names := map[string]any{}
	t.names(names)
	rec := map[string]any{
		"ev":    "MScan",
		"in":    map[string]any{"pats": raws, "vcs": vcs, "tree": encTree(t)},
		"strs":  strsOf(raws),
		"names": names,
	}
	ig, err := mutagenIgnorer(raws, vcs)
	if err != nil {
		return nil
	}
	own := root == ""
	if own {
		root = filepath.Join(c.TempDir("mscan"), "root")
		materialise(t, root)
	}
	snap, err := scan(root, ig)
	if own {
		os.RemoveAll(filepath.Dir(root))
	}
	if err != nil {
		rec["err"] = err.Error()
		rec["snap"] = map[string]any{"k": "nil"}
	} else {
		rec["err"] = ""
		rec["snap"] = encSnap(snap)
		if hasKind(snap, core.EntryKind_Untracked) {
			c.NonTrivial(rec["in"])
		}
	}
	c.Eval()
	return rec
}

var randNames = []string{"a", "b", "ab", "c", "ba", "abc", "d", ".git", "a.b", "_darcs", ".hg", "cab"}
var randClassToks = []string{"[ab]", "[a-c]", "[^a]", "[!b]"}

func randName(r *rand.Rand) string { return randNames[r.Intn(len(randNames))] }

// wildify turns a name into a pattern component that may or may not still match it.
func wildify(r *rand.Rand, name string, classes []string) []string {
	cs := chars(name)
	switch r.Intn(7) {
	case 0:
		return []string{"*"}
	case 1:
		return []string{"**"}
	case 2:
		i := r.Intn(len(cs))
		return append(append(append([]string{}, cs[:i]...), "*"), cs[i+r.Intn(len(cs)-i+1):]...)
	case 3:
		i := r.Intn(len(cs))
		out := append([]string{}, cs...)
		out[i] = "?"
		return out
	case 4:
		if len(classes) > 0 {
			i := r.Intn(len(cs))
			out := append([]string{}, cs...)
			out[i] = classes[r.Intn(len(classes))]
			return out
		}
	}
	return cs
}

func randMutagenPattern(r *rand.Rand, hint [][]string) Raw {
	var comps [][]string
	// derive from a sub-range of the hint path (so that matches are frequent) or from random names
	if len(hint) > 0 && r.Intn(4) != 0 {
		lo := r.Intn(len(hint))
		if r.Intn(2) == 0 {
			lo = len(hint) - 1 - r.Intn(min(2, len(hint)))
		}
		hi := lo + 1 + r.Intn(len(hint)-lo)
		for _, n := range hint[lo:hi] {
			comps = append(comps, wildify(r, strings.Join(n, ""), randClassToks))
		}
		if lo > 0 && r.Intn(3) == 0 {
			comps = append([][]string{{"**"}}, comps...)
		}
	} else {
		for i := 0; i < 1+r.Intn(3); i++ {
			comps = append(comps, wildify(r, randName(r), randClassToks))
		}
	}
	if r.Intn(8) == 0 {
		comps = append([][]string{{"."}}, comps...)
	}
	if r.Intn(10) == 0 && len(comps) > 1 {
		i := 1 + r.Intn(len(comps)-1)
		comps = append(comps[:i:i], append([][]string{{}}, comps[i:]...)...)
	}
	if r.Intn(3) == 0 {
		comps = append([][]string{{}}, comps...)
	}
	if r.Intn(4) == 0 {
		comps = append(comps, []string{})
	}
	return normRaw(Raw{Neg: r.Intn(3) == 0, Comps: noAdjacentDoubleStars(comps)})
}

// noAdjacentDoubleStars keeps random patterns inside the token grammar on which
// doublestar behaves as Glob!MatchPath says. A "**" component is replaced by
// "*" when it follows (ignoring empty and "." components, which cleaning
// removes) another "**" component ("a/**/**" does not match "a" although "a/**"
// does) or a component of two or more tokens that ends in "*" ("b*/**" does
// not match "b" although "b/**" does and "b*/**" matches "bx").
func noAdjacentDoubleStars(comps [][]string) [][]string {
	blocked := false
	for i, cp := range comps {
		s := strings.Join(cp, "")
		if s == "" || s == "." {
			continue
		}
		if s == "**" {
			if blocked {
				comps[i] = []string{"*"}
				blocked = false
				continue
			}
			blocked = true
		} else {
			blocked = len(cp) > 1 && cp[len(cp)-1] == "*"
		}
	}
	return comps
}

func randPath(r *rand.Rand, maxDepth int) [][]string {
	n := 1 + r.Intn(maxDepth)
	p := make([][]string, n)
	for i := range p {
		p[i] = chars(randName(r))
	}
	return p
}

func randTree(r *rand.Rand, depth int, names []string) *Tree {
	t := &Tree{Dir: true, C: map[string]*Tree{}}
	for _, n := range names {
		switch r.Intn(5) {
		case 0, 1:
			t.C[n] = &Tree{}
		case 2, 3:
			if depth > 1 {
				t.C[n] = randTree(r, depth-1, names)
			} else {
				t.C[n] = &Tree{Dir: true, C: map[string]*Tree{}}
			}
		}
	}
	return t
}

func treePaths(t *Tree, prefix [][]string, f func(p [][]string, dir bool)) {
	for _, n := range sortedKeys(t.C) {
		p := append(append([][]string{}, prefix...), chars(n))
		f(p, t.C[n].Dir)
		if t.C[n].Dir {
			treePaths(t.C[n], p, f)
		}
	}
}

func runC14(c *vlib.Ctx) error {
	blocks := loadBlocks(c, "mutagen")
	c.Emit(map[string]any{"ev": "Domain", "syntax": "mutagen", "tier": c.Tier, "in": map[string]any{"tier": c.Tier}})
	enumerated := 0
	for bi, b := range blocks {
		lists(b, func(li []int) {
			raws := pick(b, li)
			for pi, p := range b.Paths {
				for _, dir := range []bool{false, true} {
					for vi, vcs := range b.Vcs {
						rec := ignoreRecord(c, raws, p, dir, vcs, map[string]any{"b": bi + 1, "li": li, "p": pi + 1, "v": vi + 1})
						c.Emit(rec)
						enumerated++
						if enumerated%30011 == 1 {
							c.Sample(rec)
						}
					}
				}
			}
		})
	}
	// calibration of the TLA+ glob semantics against doublestar on every cleaned body of the first block
	cal := 0
	seen := map[string]bool{}
	for _, raw := range blocks[0].Gram {
		var comps [][]string
		for _, cp := range raw.Comps {
			if len(cp) > 0 {
				comps = append(comps, cp)
			}
		}
		key := joinComps(comps)
		if len(comps) == 0 || seen[key] {
			continue
		}
		seen[key] = true
		for _, p := range blocks[0].Paths {
			c.Emit(globCal(c, comps, p))
			cal++
		}
	}
	// random lists beyond the bound
	nRandom := 4000
	nScanTrees := 30
	if c.Thorough() {
		nRandom = 30000
		nScanTrees = 400
	}
	for i := 0; i < nRandom; i++ {
		p := randPath(c.Rand, 5)
		n := 2 + c.Rand.Intn(7)
		raws := make([]Raw, n)
		for j := range raws {
			raws[j] = randMutagenPattern(c.Rand, p)
		}
		rec := ignoreRecord(c, raws, p, c.Rand.Intn(2) == 0, c.Rand.Intn(4) == 0, nil)
		c.Emit(rec)
		if i == 0 {
			c.Sample(rec)
		}
		if i%5 == 0 {
			if comps := cleanedComps(raws[0]); len(comps) > 0 {
				c.Emit(globCal(c, comps, p))
				cal++
			}
		}
	}
	// real scans: pruning beneath ignored directories, VCS directories
	scans := 0
	treeNames := [][]string{{"a", "b", "ab"}, {"a", "b", ".git"}, {"a", ".svn", "c", "ba"}, {"a", "b", "_darcs", "abc"}}
	for ti := 0; ti < nScanTrees; ti++ {
		t := randTree(c.Rand, 3, treeNames[ti%len(treeNames)])
		if len(t.C) == 0 {
			t.C["a"] = &Tree{}
		}
		root := filepath.Join(c.TempDir("mscan"), "root")
		materialise(t, root)
		var ps [][][]string
		treePaths(t, nil, func(p [][]string, dir bool) { ps = append(ps, p) })
		for k := 0; k < 12; k++ {
			n := c.Rand.Intn(5)
			raws := make([]Raw, 0, n)
			for j := 0; j < n; j++ {
				raws = append(raws, randMutagenPattern(c.Rand, ps[c.Rand.Intn(len(ps))]))
			}
			if rec := mscanRecord(c, raws, c.Rand.Intn(2) == 0, t, root); rec != nil {
				c.Emit(rec)
				scans++
				if scans == 1 {
					c.Sample(rec)
				}
			}
		}
		os.RemoveAll(filepath.Dir(root))
	}
	c.SetExhaustive(true)
	c.SetExtra("enumerated_in_domain", enumerated)
	c.SetExtra("glob_calibration_cases", cal)
	c.SetExtra("random_beyond_bound", nRandom)
	c.SetExtra("real_scans", scans)
	return nil
}

// ---------------------------------------------------------------------------
// C15: Docker-style.

type dockerCase struct {
	raws  []Raw
	tree  *Tree
	tree2 *Tree
	anc   *Tree
}

// refWalk is moby's build-context walk (pkg/archive TarWithOptions) over an
// in-memory tree using the unmodified upstream matcher. mode "o" uses
// MatchesOrParentMatches, mode "r" MatchesUsingParentResults.
func refWalk(m *dockerignore.VerifMatcher, t *Tree, mode string) ([]any, error) {
	out := []any{}
	excl := m.ExclusionPatterns()
	var walk func(t *Tree, path []string, pinfo dockerignore.VerifMatchInfo) error
	walk = func(t *Tree, path []string, pinfo dockerignore.VerifMatchInfo) error {
		for _, n := range sortedKeys(t.C) {
			ch := t.C[n]
			q := append(append([]string{}, path...), n)
			rel := strings.Join(q, "/")
			var skip bool
			var info dockerignore.VerifMatchInfo
			var err error
			if mode == "o" {
				skip, err = m.MatchesOrParentMatches(rel)
			} else {
				skip, info, err = m.MatchesUsingParentResults(rel, pinfo)
			}
			if err != nil {
				return err
			}
			if skip {
				if !ch.Dir {
					continue
				}
				if !m.Exclusions() {
					continue
				}
				dirSlash := rel + "/"
				descend := false
				for _, pat := range excl {
					if strings.HasPrefix(pat+"/", dirSlash) {
						descend = true
						break
					}
				}
				if !descend {
					continue
				}
			} else {
				out = append(out, q)
			}
			if ch.Dir {
				if err := walk(ch, q, info); err != nil {
					return err
				}
			}
		}
		return nil
	}
	if err := walk(t, nil, dockerignore.VerifMatchInfo{}); err != nil {
		return nil, err
	}
	return out, nil
}

type scanned struct {
	snap *core.Entry
	err  error
}

func dwalkRecord(c *vlib.Ctx, dc dockerCase, idx map[string]any, sa, sb *scanned, withRef bool) map[string]any {
	names := map[string]any{}
	dc.tree.names(names)
	dc.tree2.names(names)
	dc.anc.names(names)
	rec := map[string]any{
		"ev":    "DWalk",
		"in":    map[string]any{"pats": dc.raws, "tree": encTree(dc.tree), "tree2": encTree(dc.tree2), "anc": encTree(dc.anc)},
		"strs":  strsOf(dc.raws),
		"names": names,
	}
	if idx != nil {
		rec["idx"] = idx
	}
	ig, err := dockerignore.NewIgnorer(strsOf(dc.raws))
	rec["valid"] = err == nil
	rec["err"] = ""
	nilE := map[string]any{"k": "nil"}
	rec["snapA"], rec["snapB"], rec["reA"], rec["reB"] = nilE, nilE, nilE, nilE
	rec["cntA"], rec["cntB"] = 0, 0
	rec["ref"] = map[string]any{"have": false, "o": []any{}, "r": []any{}}
	c.Eval()
	if err != nil {
		return rec
	}
	doScan := func(t *Tree, pre *scanned) (*core.Entry, error) {
		if pre != nil {
			return pre.snap, pre.err
		}
		root := filepath.Join(c.TempDir("dwalk"), "root")
		materialise(t, root)
		defer os.RemoveAll(filepath.Dir(root))
		return scan(root, ig)
	}
	a, err := doScan(dc.tree, sa)
	if err != nil {
		rec["err"] = err.Error()
		return rec
	}
	var b *core.Entry
	if dc.tree2 != nil {
		if b, err = doScan(dc.tree2, sb); err != nil {
			rec["err"] = err.Error()
			return rec
		}
	}
	rec["snapA"], rec["snapB"] = encSnap(a), encSnap(b)
	ra, rb, na, nb := core.ReifyPhantomDirectories(ancEntry(dc.anc), a, b)
	rec["reA"], rec["reB"] = encSnap(ra), encSnap(rb)
	rec["cntA"], rec["cntB"] = int(na), int(nb)
	if withRef {
		if m, err := dockerignore.VerifNewMatcher(strsOf(dc.raws)); err == nil {
			o, e1 := refWalk(m, dc.tree, "o")
			r, e2 := refWalk(m, dc.tree, "r")
			if e1 == nil && e2 == nil {
				rec["ref"] = map[string]any{"have": true, "o": o, "r": r}
			}
		}
	}
	if hasKind(a, core.EntryKind_Untracked, core.EntryKind_PhantomDirectory) {
		c.NonTrivial(rec["in"])
	}
	return rec
}

func dockCal(c *vlib.Ctx, comps [][]string, path [][]string) map[string]any {
	rec := map[string]any{"ev": "DockCal", "in": map[string]any{"comps": normPath(comps), "path": normPath(path)},
		"pat": joinComps(comps), "pathstr": joinComps(path), "m": false, "err": false}
	m, err := dockerignore.VerifNewMatcher([]string{joinComps(comps)})
	if err != nil {
		rec["err"] = true
	} else if ok, err := m.MatchesUsingParentResult(joinComps(path), false); err != nil {
		rec["err"] = true
	} else {
		rec["m"] = ok
	}
	c.Eval()
	return rec
}

func cleanedComps(r Raw) [][]string {
	var comps [][]string
	for _, cp := range r.Comps {
		s := strings.Join(cp, "")
		if s == "" || s == "." || s == ".." {
			continue
		}
		comps = append(comps, cp)
	}
	return comps
}

func randDockerPattern(r *rand.Rand, hint [][]string) Raw {
	var comps [][]string
	classes := []string{"[ab]", "[a-c]"}
	if len(hint) > 0 && r.Intn(5) != 0 {
		hi := 1 + r.Intn(len(hint))
		lo := 0
		if r.Intn(4) == 0 {
			lo = r.Intn(hi)
		}
		for _, n := range hint[lo:hi] {
			if r.Intn(3) == 0 {
				comps = append(comps, wildify(r, strings.Join(n, ""), classes))
			} else {
				comps = append(comps, append([]string{}, n...))
			}
		}
		if lo > 0 {
			comps = append([][]string{{"**"}}, comps...)
		}
	} else {
		for i := 0; i < 1+r.Intn(3); i++ {
			comps = append(comps, wildify(r, randName(r), classes))
		}
	}
	if r.Intn(8) == 0 {
		comps = append([][]string{{}}, comps...)
	}
	if r.Intn(10) == 0 {
		comps = append(comps, []string{})
	}
	return normRaw(Raw{Neg: r.Intn(5) < 2, Comps: comps})
}

func mutateTree(r *rand.Rand, t *Tree, names []string) *Tree {
	if !t.Dir {
		if r.Intn(6) == 0 {
			return &Tree{Dir: true, C: map[string]*Tree{}}
		}
		return &Tree{}
	}
	out := &Tree{Dir: true, C: map[string]*Tree{}}
	for n, ch := range t.C {
		switch r.Intn(6) {
		case 0:
		case 1:
			out.C[n] = &Tree{}
		default:
			out.C[n] = mutateTree(r, ch, names)
		}
	}
	if r.Intn(3) == 0 {
		out.C[names[r.Intn(len(names))]] = randTree(r, 1, names)
	}
	return out
}

func unionSkeleton(r *rand.Rand, a, b *Tree, keep int) *Tree {
	// a random synchronizable ancestor drawn from the union of the two trees
	out := &Tree{Dir: true, C: map[string]*Tree{}}
	ns := map[string]bool{}
	if a != nil && a.Dir {
		for n := range a.C {
			ns[n] = true
		}
	}
	if b != nil && b.Dir {
		for n := range b.C {
			ns[n] = true
		}
	}
	var names []string
	for n := range ns {
		names = append(names, n)
	}
	sort.Strings(names)
	for _, n := range names {
		if r.Intn(10) >= keep {
			continue
		}
		var x, y *Tree
		if a != nil && a.Dir {
			x = a.C[n]
		}
		if b != nil && b.Dir {
			y = b.C[n]
		}
		src := x
		if src == nil || (y != nil && r.Intn(2) == 0) {
			src = y
		}
		if src.Dir {
			out.C[n] = unionSkeleton(r, x, y, keep)
		} else {
			out.C[n] = &Tree{}
		}
	}
	return out
}

func runC15(c *vlib.Ctx) error {
	blocks := loadBlocks(c, "docker")
	c.Emit(map[string]any{"ev": "Domain", "syntax": "docker", "tier": c.Tier, "in": map[string]any{"tier": c.Tier}})
	var trees []*Tree
	for _, t := range blocks[0].Trees {
		trees = append(trees, decTree(t))
	}
	if len(trees) < 2 {
		vlib.Fatal("docker domain needs two trees")
	}
	work := c.TempDir("dtrees")
	roots := make([]string, len(trees))
	for i, t := range trees {
		roots[i] = filepath.Join(work, fmt.Sprintf("t%d", i+1))
		materialise(t, roots[i])
	}
	// fixed ancestors for the conjoined reification
	ancs := []*Tree{
		{Dir: true, C: map[string]*Tree{"a": {Dir: true, C: map[string]*Tree{"a": {Dir: true, C: map[string]*Tree{}}, "b": {}}}, "c": {Dir: true, C: map[string]*Tree{}}}},
		{Dir: true, C: map[string]*Tree{"ab": {Dir: true, C: map[string]*Tree{"a": {Dir: true, C: map[string]*Tree{}}}}, "a": {Dir: true, C: map[string]*Tree{"c": {Dir: true, C: map[string]*Tree{"b": {}}}}}, "b": {}}},
	}
	enumerated, extra := 0, 0
	for bi, b := range blocks {
		lists(b, func(li []int) {
			raws := pick(b, li)
			var sa, sb *scanned
			if ig, err := dockerignore.NewIgnorer(strsOf(raws)); err == nil {
				sa, sb = &scanned{}, &scanned{}
				sa.snap, sa.err = scan(roots[0], ig)
				sb.snap, sb.err = scan(roots[1], ig)
			}
			rec := dwalkRecord(c, dockerCase{raws: raws, tree: trees[0]}, map[string]any{"b": bi + 1, "li": li}, sa, nil, true)
			c.Emit(rec)
			enumerated++
			if enumerated%1511 == 1 {
				c.Sample(rec)
			}
			// conjoined reification with the other endpoint and with ancestors, where a phantom directory exists
			if enumerated%2 == 0 && sa != nil && sa.err == nil && sb.err == nil &&
				(hasKind(sa.snap, core.EntryKind_PhantomDirectory) || hasKind(sb.snap, core.EntryKind_PhantomDirectory)) {
				c.Emit(dwalkRecord(c, dockerCase{raws: raws, tree: trees[0], tree2: trees[1], anc: []*Tree{nil, ancs[0], ancs[1]}[(enumerated/2)%3]}, nil, sa, sb, false))
				c.Emit(dwalkRecord(c, dockerCase{raws: raws, tree: trees[1], anc: ancs[(enumerated/2)%2]}, nil, sb, nil, true))
				extra += 2
			}
		})
	}
	os.RemoveAll(work)
	// calibration of the TLA+ Docker pattern semantics against the vendored upstream matcher
	cal := 0
	seen := map[string]bool{}
	var calPaths [][][]string
	treePaths(trees[0], nil, func(p [][]string, dir bool) { calPaths = append(calPaths, p) })
	calPaths = append(calPaths, [][]string{chars("ba")}, [][]string{chars("a"), chars("a"), chars("a"), chars("b")}, [][]string{chars("abc"), chars("b")})
	for _, b := range blocks {
		for _, raw := range b.Gram {
			comps := cleanedComps(raw)
			key := joinComps(comps)
			if len(comps) == 0 || seen[key] {
				continue
			}
			seen[key] = true
			for _, p := range calPaths {
				c.Emit(dockCal(c, comps, p))
				cal++
			}
		}
	}
	// random trees and lists beyond the bound
	nRandom := 100
	perTree := 3
	if c.Thorough() {
		nRandom = 1500
		perTree = 4
	}
	rnames := [][]string{{"a", "b", "c", "ab"}, {"a", "b", "ba", "d"}, {"a", "ab", "abc", "b"}}
	random := 0
	for i := 0; i < nRandom; i++ {
		names := rnames[i%len(rnames)]
		t := randTree(c.Rand, 3, names)
		if len(t.C) == 0 {
			t.C["a"] = &Tree{Dir: true, C: map[string]*Tree{"b": {}}}
		}
		t2 := mutateTree(c.Rand, t, names)
		var ps [][][]string
		treePaths(t, nil, func(p [][]string, dir bool) { ps = append(ps, p) })
		treePaths(t2, nil, func(p [][]string, dir bool) { ps = append(ps, p) })
		ps = append(ps, [][]string{chars("a"), chars("b")})
		for k := 0; k < perTree; k++ {
			n := 1 + c.Rand.Intn(5)
			raws := make([]Raw, n)
			for j := range raws {
				raws[j] = randDockerPattern(c.Rand, ps[c.Rand.Intn(len(ps))])
			}
			dc := dockerCase{raws: raws, tree: t}
			if c.Rand.Intn(3) != 0 {
				dc.tree2 = t2
			}
			if c.Rand.Intn(2) == 0 {
				dc.anc = unionSkeleton(c.Rand, t, t2, 4+c.Rand.Intn(6))
			}
			rec := dwalkRecord(c, dc, nil, nil, nil, true)
			c.Emit(rec)
			random++
			if random == 1 {
				c.Sample(rec)
			}
			if k == 0 {
				for j := 0; j < 2 && j < len(raws); j++ {
					if comps := cleanedComps(raws[j]); len(comps) > 0 {
						c.Emit(dockCal(c, comps, ps[c.Rand.Intn(len(ps))]))
						cal++
					}
				}
			}
		}
	}
	c.SetExhaustive(true)
	c.SetExtra("enumerated_in_domain", enumerated)
	c.SetExtra("conjoined_reifications", extra)
	c.SetExtra("docker_calibration_cases", cal)
	c.SetExtra("random_beyond_bound", random)
	return nil
}

// ---------------------------------------------------------------------------

func run(c *vlib.Ctx) error {
	switch c.Prop {
	case "C14":
		return runC14(c)
	case "C15":
		return runC15(c)
	}
	return fmt.Errorf("driver ignore does not serve %s", c.Prop)
}

func decRaws(v any) []Raw {
	var raws []Raw
	vlib.Decode(v, &raws)
	return normRaws(raws)
}

func decPath(v any) [][]string {
	var p [][]string
	vlib.Decode(v, &p)
	return normPath(p)
}

func replay(c *vlib.Ctx) error {
	doc := c.LoadReplay()
	begin := doc["begin"].(map[string]any)
	in, _ := begin["in"].(map[string]any)
	var idx map[string]any
	if x, ok := begin["idx"].(map[string]any); ok {
		idx = x
	}
	switch begin["ev"] {
	case "Domain":
		c.Emit(map[string]any{"ev": "Domain", "syntax": begin["syntax"], "tier": begin["tier"], "in": in})
		c.Eval()
	case "Ignore":
		c.Emit(ignoreRecord(c, decRaws(in["pats"]), decPath(in["path"]), in["dir"].(bool), in["vcs"].(bool), idx))
	case "GlobCal":
		c.Emit(globCal(c, decPath(in["comps"]), decPath(in["path"])))
	case "MScan":
		rec := mscanRecord(c, decRaws(in["pats"]), in["vcs"].(bool), decTree(in["tree"]), "")
		if rec == nil {
			return fmt.Errorf("replayed pattern list is invalid")
		}
		c.Emit(rec)
	case "DWalk":
		dc := dockerCase{raws: decRaws(in["pats"]), tree: decTree(in["tree"]), tree2: decTree(in["tree2"]), anc: decTree(in["anc"])}
		ref, _ := begin["ref"].(map[string]any)
		have, _ := ref["have"].(bool)
		c.Emit(dwalkRecord(c, dc, idx, nil, nil, have))
	case "DockCal":
		c.Emit(dockCal(c, decPath(in["comps"]), decPath(in["path"])))
	default:
		return fmt.Errorf("cannot replay event %v", begin["ev"])
	}
	return nil
}

func main() {
	_ = json.Marshal
	vlib.Main(run, replay)
}
