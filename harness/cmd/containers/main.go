// Driver "containers": executes TLC-exported behaviours and seeded random
// operation sequences on three real objects of /repo and records what they
// returned:
//
//	C26  pkg/multiplexing/ring.Buffer        (spec/containers/Ring*.tla)
//	C45  pkg/container/lru.Cache             (spec/containers/LRU*.tla)
//	C47  pkg/stream helper writers/closers   (spec/containers/StreamWriters*.tla)
//
// One trace record = one complete case: "in" is the behaviour (everything
// needed to re-run it), "res" the observations, one per operation. The driver
// holds no property predicate and computes no verdict; the *_Trace.tla
// modules replay the abstract models and judge the records.
package main

import (
	"encoding/json"
	"fmt"
	"time"

	"verif/harness/internal/vlib"
)

func main() { vlib.Main(run, replay) }

func run(c *vlib.Ctx) error {
	switch c.Prop {
	case "C26":
		return runRing(c)
	case "C45":
		return runLRU(c)
	case "C47":
		return runStream(c)
	}
	return fmt.Errorf("driver containers does not serve property %q", c.Prop)
}

func replay(c *vlib.Ctx) error {
	doc := c.LoadReplay()
	begin, _ := doc["begin"].(map[string]any)
	in, ok := begin["in"]
	if !ok {
		return fmt.Errorf("replay file has no begin.in")
	}
	raw, _ := json.Marshal(in)
	switch c.Prop {
	case "C26":
		var rc ringCase
		if err := json.Unmarshal(raw, &rc); err != nil {
			return err
		}
		execRing(c, rc)
	case "C45":
		var lc lruCase
		if err := json.Unmarshal(raw, &lc); err != nil {
			return err
		}
		execLRU(c, lc)
	case "C47":
		if ev, _ := begin["ev"].(string); ev == "Race" {
			var rc raceCase
			if err := json.Unmarshal(raw, &rc); err != nil {
				return err
			}
			execRace(c, rc)
			return nil
		}
		var sc streamCase
		if err := json.Unmarshal(raw, &sc); err != nil {
			return err
		}
		execStream(c, sc)
	default:
		return fmt.Errorf("driver containers does not serve property %q", c.Prop)
	}
	return nil
}

// caseTimeout bounds one case; none of the objects blocks, so expiry means the
// real code spins (recorded as an incomplete observation list, never waited for).
const caseTimeout = 5 * time.Second

// hangs counts cases abandoned by the watchdog; each leaves a spinning
// goroutine behind, so the run stops driving new cases after a few.
var hangs int

// guarded runs f under the per-case watchdog and reports whether it finished.
func guarded(f func()) bool {
	done := make(chan struct{})
	go func() {
		defer close(done)
		f()
	}()
	select {
	case <-done:
		return true
	case <-time.After(caseTimeout):
		hangs++
		return false
	}
}

func ints(b []byte) []int {
	out := make([]int, len(b))
	for i, v := range b {
		out[i] = int(v)
	}
	return out
}

func bytesOf(v []int) []byte {
	out := make([]byte, len(v))
	for i, x := range v {
		out[i] = byte(x)
	}
	return out
}

// decodeBehaviours re-decodes the generic behaviours into typed cases.
func decodeBehaviours[T any](c *vlib.Ctx) []T {
	var out []T
	for _, m := range c.ReadBehaviours() {
		var t T
		vlib.Decode(m, &t)
		out = append(out, t)
	}
	return out
}
