package main

import (
	"encoding/json"
	"fmt"
	"math/rand"
	"strconv"
	"strings"

	"github.com/mutagen-io/mutagen/pkg/container/lru"

	"verif/harness/internal/vlib"
)

// lruOp is [op, k, v] of spec/containers/LRUOps.tla (op: Add | Get | Remove).
type lruOp struct {
	Op string `json:"op"`
	K  int    `json:"k"`
	V  int    `json:"v"`
}

type lruCase struct {
	Cap   int     `json:"cap"`
	NKeys int     `json:"nkeys"`
	CB    bool    `json:"cb"`   // an eviction callback is installed
	KT    string  `json:"kt"`   // Go key type of the instantiation: int | string
	Src   string  `json:"src"`  // seq (TLC behaviour) | rand
	Tail  int     `json:"tail"` // trailing operations appended by the driver to expose the final contents
	Ops   []lruOp `json:"ops"`
}

type lruObs struct {
	OK  bool    `json:"ok"`
	V   int     `json:"v"`
	Len int     `json:"len"`
	Ev  [][]int `json:"ev"`
}

// Wire form (see LRUOps.tla): an operation is [op, k, v], an observation
// [ok, v, len, ev].
func (o lruOp) MarshalJSON() ([]byte, error) { return json.Marshal([]any{o.Op, o.K, o.V}) }

func (o *lruOp) UnmarshalJSON(b []byte) error {
	var raw []json.RawMessage
	if err := json.Unmarshal(b, &raw); err != nil {
		return err
	}
	if len(raw) != 3 {
		return fmt.Errorf("lru operation: want 3 elements, got %d", len(raw))
	}
	for i, d := range []any{&o.Op, &o.K, &o.V} {
		if err := json.Unmarshal(raw[i], d); err != nil {
			return err
		}
	}
	return nil
}

func (o lruObs) MarshalJSON() ([]byte, error) {
	ev := o.Ev
	if ev == nil {
		ev = [][]int{}
	}
	return json.Marshal([]any{o.OK, o.V, o.Len, ev})
}

// cache hides the key type of the instantiation under test.
type cache interface {
	Add(k, v int)
	Get(k int) (int, bool)
	Remove(k int)
	Len() int
}

type intCache struct{ c *lru.Cache[int, int] }

func (c intCache) Add(k, v int)          { c.c.Add(k, v) }
func (c intCache) Get(k int) (int, bool) { return c.c.Get(k) }
func (c intCache) Remove(k int)          { c.c.Remove(k) }
func (c intCache) Len() int              { return c.c.Len() }

type strCache struct{ c *lru.Cache[string, int] }

func strKey(k int) string { return "key-" + strconv.Itoa(k) }
func (c strCache) Add(k, v int)          { c.c.Add(strKey(k), v) }
func (c strCache) Get(k int) (int, bool) { return c.c.Get(strKey(k)) }
func (c strCache) Remove(k int)          { c.c.Remove(strKey(k)) }
func (c strCache) Len() int              { return c.c.Len() }

// newCache builds the real cache; evicted receives what the callback was given.
func newCache(lc lruCase, evicted func(k, v int)) cache {
	switch lc.KT {
	case "string":
		var cb func(string, int)
		if lc.CB {
			cb = func(k string, v int) {
				n, err := strconv.Atoi(strings.TrimPrefix(k, "key-"))
				if err != nil {
					n = -1
				}
				evicted(n, v)
			}
		}
		return strCache{lru.New[string, int](lc.Cap, cb)}
	default:
		var cb func(int, int)
		if lc.CB {
			cb = evicted
		}
		return intCache{lru.New[int, int](lc.Cap, cb)}
	}
}

func execLRU(c *vlib.Ctx, lc lruCase) {
	if lc.Ops == nil {
		lc.Ops = []lruOp{}
	}
	if lc.KT == "" {
		lc.KT = "int"
	}
	res := []lruObs{}
	evictions := 0
	guarded(func() {
		var log [][]int
		ch := newCache(lc, func(k, v int) { log = append(log, []int{k, v}) })
		for _, o := range lc.Ops {
			log = [][]int{}
			obs := lruObs{}
			func() {
				defer func() {
					if p := recover(); p != nil {
						obs.Len = -1
						obs.V = -1
					}
				}()
				switch o.Op {
				case "Add":
					ch.Add(o.K, o.V)
				case "Get":
					obs.V, obs.OK = ch.Get(o.K)
				case "Remove":
					ch.Remove(o.K)
				default:
					vlib.Fatal("lru: unknown op %q", o.Op)
				}
				obs.Len = ch.Len()
			}()
			obs.Ev = log
			evictions += len(log)
			res = append(res, obs)
			if obs.Len < 0 {
				return
			}
		}
	})
	c.Emit(map[string]any{"ev": "LRU", "in": lc, "res": append([]lruObs{}, res...)})
	c.Eval()
	c.TraceDone()
	if evictions > 0 {
		c.NonTrivial(lc)
	}
}

// withTail appends the operations that expose the final contents: with a
// callback on a bounded cache, cap insertions of unused keys push every
// remaining entry out in eviction order; otherwise every key is looked up (and
// removed, for the unbounded cache with a callback).
func withTail(lc lruCase, nextValue int) lruCase {
	ops := append([]lruOp{}, lc.Ops...)
	n0 := len(ops)
	switch {
	case lc.CB && lc.Cap > 0:
		for i := 1; i <= lc.Cap; i++ {
			ops = append(ops, lruOp{Op: "Add", K: lc.NKeys + i, V: nextValue + i})
		}
	case lc.CB:
		for k := 1; k <= lc.NKeys; k++ {
			ops = append(ops, lruOp{Op: "Remove", K: k})
		}
	default:
		for k := 1; k <= lc.NKeys; k++ {
			ops = append(ops, lruOp{Op: "Get", K: k})
		}
	}
	lc.Ops = ops
	lc.Tail = len(ops) - n0
	return lc
}

func maxValue(ops []lruOp) int {
	m := 0
	for _, o := range ops {
		if o.V > m {
			m = o.V
		}
	}
	return m
}

func randLRUCase(r *rand.Rand, nops int) lruCase {
	lc := lruCase{Cap: r.Intn(9), CB: r.Intn(5) != 0, KT: "int", Src: "rand", Ops: []lruOp{}}
	if r.Intn(2) == 0 {
		lc.KT = "string"
	}
	lc.NKeys = lc.Cap + 1 + r.Intn(4)
	v := 0
	for i := 0; i < nops; i++ {
		k := 1 + r.Intn(lc.NKeys)
		switch x := r.Intn(10); {
		case x < 5:
			v++
			lc.Ops = append(lc.Ops, lruOp{Op: "Add", K: k, V: v})
		case x < 8:
			lc.Ops = append(lc.Ops, lruOp{Op: "Get", K: k})
		default:
			lc.Ops = append(lc.Ops, lruOp{Op: "Remove", K: k})
		}
	}
	return withTail(lc, v)
}

func runLRU(c *vlib.Ctx) error {
	cases := decodeBehaviours[lruCase](c)
	if len(cases) == 0 {
		return fmt.Errorf("C45: no behaviours exported by TLC")
	}
	nocb := 0
	for i, lc := range cases {
		if hangs >= 3 {
			break
		}
		lc.CB = true
		lc.KT = "int"
		if i%2 == 1 {
			lc.KT = "string"
		}
		full := withTail(lc, maxValue(lc.Ops))
		execLRU(c, full)
		if i%8 == 0 {
			lc.CB = false
			execLRU(c, withTail(lc, maxValue(lc.Ops)))
			nocb++
		}
		if i == 0 || i == len(cases)/2 {
			c.Sample(full)
		}
	}
	nrand, oplen := 300, 150
	if c.Thorough() {
		nrand, oplen = 4000, 500
	}
	for i := 0; i < nrand && hangs < 3; i++ {
		execLRU(c, randLRUCase(c.Rand, 1+c.Rand.Intn(oplen)))
	}
	c.SetExtra("behaviours_seq", len(cases))
	c.SetExtra("behaviours_rerun_without_callback", nocb)
	c.SetExtra("random_cases", nrand)
	c.SetExtra("watchdog_expiries", hangs)
	c.SetExhaustive(hangs == 0)
	return nil
}
