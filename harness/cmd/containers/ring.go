package main

import (
	"encoding/json"
	"errors"
	"fmt"
	"io"
	"math/rand"

	"github.com/mutagen-io/mutagen/pkg/multiplexing/ring"

	"verif/harness/internal/vlib"
)

// ringOp is one operation descriptor, field for field the record D(op, n,
// data, av, ch, e, w) of spec/containers/RingOps.tla.
type ringOp struct {
	Op   string `json:"op"`   // W WB R RB RS RNF WT
	N    int    `json:"n"`    // W: len(data); R: destination length; RNF: n
	Data []int  `json:"data"` // W/WB: bytes written; RNF: the reader's whole stream
	Av   int    `json:"av"`   // RNF: len(data); WT: bytes the writer accepts (-1 unlimited)
	Ch   int    `json:"ch"`   // RNF: reader returns at most ch bytes per call (0 = no limit)
	E    string `json:"e"`    // RNF: how the stream ends: none | eof | err
	W    bool   `json:"w"`    // RNF: end error accompanies the last bytes; WT: the call reaching av fails too
}

type ringCase struct {
	Size int      `json:"size"`
	Src  string   `json:"src"`
	Ops  []ringOp `json:"ops"`
}

// ringObs is what one real call returned plus Used/Free/Size right after it.
type ringObs struct {
	N    int    `json:"n"`
	Err  string `json:"err"`
	Out  []int  `json:"out"`
	Used int    `json:"used"`
	Free int    `json:"free"`
	Size int    `json:"size"`
}

// Wire form (see RingOps.tla): an operation is the JSON array
// [op, n, data, av, ch, e, w], an observation [n, err, out, used, free, size].
func (o ringOp) MarshalJSON() ([]byte, error) {
	data := o.Data
	if data == nil {
		data = []int{}
	}
	return json.Marshal([]any{o.Op, o.N, data, o.Av, o.Ch, o.E, o.W})
}

func (o *ringOp) UnmarshalJSON(b []byte) error {
	var raw []json.RawMessage
	if err := json.Unmarshal(b, &raw); err != nil {
		return err
	}
	if len(raw) != 7 {
		return fmt.Errorf("ring operation: want 7 elements, got %d", len(raw))
	}
	dst := []any{&o.Op, &o.N, &o.Data, &o.Av, &o.Ch, &o.E, &o.W}
	for i, d := range dst {
		if err := json.Unmarshal(raw[i], d); err != nil {
			return err
		}
	}
	return nil
}

func (o ringObs) MarshalJSON() ([]byte, error) {
	out := o.Out
	if out == nil {
		out = []int{}
	}
	return json.Marshal([]any{o.N, o.Err, out, o.Used, o.Free, o.Size})
}

var (
	errPeer    = errors.New("scripted peer failure")
	errOverrun = errors.New("scripted reader asked beyond its script")
)

func ringErr(err error) string {
	switch {
	case err == nil:
		return ""
	case err == ring.ErrBufferFull:
		return "full"
	case err == io.EOF:
		return "eof"
	case err == errPeer:
		return "err"
	case err == errOverrun:
		return "overrun"
	}
	return "other:" + err.Error()
}

// scriptReader is the reader of RingOps!ReaderCall.
type scriptReader struct {
	data []byte
	ch   int
	e    string
	w    bool
	pos  int
}

func (r *scriptReader) end() error {
	switch r.e {
	case "eof":
		return io.EOF
	case "err":
		return errPeer
	}
	return errOverrun
}

func (r *scriptReader) Read(p []byte) (int, error) {
	if len(p) == 0 {
		return 0, nil
	}
	rem := len(r.data) - r.pos
	if rem == 0 {
		return 0, r.end()
	}
	k := len(p)
	if r.ch > 0 && r.ch < k {
		k = r.ch
	}
	if rem < k {
		k = rem
	}
	copy(p, r.data[r.pos:r.pos+k])
	r.pos += k
	if r.e != "none" && k == rem && r.w {
		return k, r.end()
	}
	return k, nil
}

// scriptWriter is the writer of RingOps!WriterCall; it keeps what it accepted.
type scriptWriter struct {
	av  int
	w   bool
	acc int
	out []byte
}

func (s *scriptWriter) Write(p []byte) (int, error) {
	if s.av < 0 {
		s.out = append(s.out, p...)
		s.acc += len(p)
		return len(p), nil
	}
	if s.acc+len(p) > s.av {
		k := s.av - s.acc
		s.out = append(s.out, p[:k]...)
		s.acc += k
		return k, errPeer
	}
	s.out = append(s.out, p...)
	s.acc += len(p)
	if s.w && s.acc == s.av {
		return len(p), errPeer
	}
	return len(p), nil
}

// ringApply performs one operation on the real buffer.
func ringApply(b *ring.Buffer, o ringOp) (obs ringObs) {
	obs.Out = []int{}
	defer func() {
		if p := recover(); p != nil {
			obs.Err = fmt.Sprintf("panic:%v", p)
			obs.Used, obs.Free, obs.Size = -1, -1, -1
		}
	}()
	switch o.Op {
	case "W":
		n, err := b.Write(bytesOf(o.Data))
		obs.N, obs.Err = n, ringErr(err)
	case "WB":
		obs.Err = ringErr(b.WriteByte(byte(o.Data[0])))
	case "R":
		dst := make([]byte, o.N)
		n, err := b.Read(dst)
		obs.N, obs.Err = n, ringErr(err)
		if n >= 0 && n <= len(dst) {
			obs.Out = ints(dst[:n])
		}
	case "RB":
		v, err := b.ReadByte()
		obs.Err = ringErr(err)
		if err == nil {
			obs.Out = []int{int(v)}
		}
	case "RS":
		b.Reset()
	case "RNF":
		r := &scriptReader{data: bytesOf(o.Data), ch: o.Ch, e: o.E, w: o.W}
		n, err := b.ReadNFrom(r, o.N)
		obs.N, obs.Err = n, ringErr(err)
	case "WT":
		w := &scriptWriter{av: o.Av, w: o.W}
		n, err := b.WriteTo(w)
		obs.N, obs.Err = int(n), ringErr(err)
		obs.Out = ints(w.out)
	default:
		vlib.Fatal("ring: unknown op %q", o.Op)
	}
	obs.Used, obs.Free, obs.Size = b.Used(), b.Free(), b.Size()
	return obs
}

// execRing runs one case on a fresh real buffer and emits its record.
func execRing(c *vlib.Ctx, rc ringCase) {
	if rc.Ops == nil {
		rc.Ops = []ringOp{}
	}
	for i := range rc.Ops {
		if rc.Ops[i].Data == nil {
			rc.Ops[i].Data = []int{}
		}
	}
	res := []ringObs{}
	moved := false
	guarded(func() {
		b := ring.NewBuffer(rc.Size)
		for _, o := range rc.Ops {
			obs := ringApply(b, o)
			res = append(res, obs)
			if len(obs.Out) > 0 {
				moved = true
			}
			if len(obs.Err) > 5 && obs.Err[:5] == "panic" {
				return
			}
		}
	})
	snapshot := append([]ringObs{}, res...)
	rec := map[string]any{"ev": "Ring", "in": rc, "res": snapshot}
	c.Emit(rec)
	c.Eval()
	c.TraceDone()
	if moved {
		c.NonTrivial(rc)
	}
}

// randRingCase draws a long sequence on a random capacity with short-reading
// and short-writing peers; sizes cluster around the capacity so that full,
// empty and wrap-around are hit constantly.
func randRingCase(r *rand.Rand, nops int) ringCase {
	size := r.Intn(18) - 1
	if r.Intn(8) == 0 {
		size = 20 + r.Intn(80)
	}
	capacity := size
	if capacity < 0 {
		capacity = 0
	}
	length := func() int {
		switch r.Intn(6) {
		case 0:
			return 0
		case 1:
			return capacity + r.Intn(3)
		case 2:
			return r.Intn(3)
		}
		return r.Intn(capacity + 2)
	}
	fresh := func(n int) []int {
		out := make([]int, n)
		for i := range out {
			out[i] = r.Intn(256)
		}
		return out
	}
	rc := ringCase{Size: size, Src: "rand", Ops: []ringOp{}}
	for i := 0; i < nops; i++ {
		o := ringOp{Data: []int{}}
		switch k := r.Intn(20); {
		case k < 4:
			n := length()
			o.Op, o.N, o.Data = "W", n, fresh(n)
		case k < 6:
			o.Op, o.N, o.Data = "WB", 1, fresh(1)
		case k < 10:
			o.Op, o.N = "R", length()
		case k < 12:
			o.Op = "RB"
		case k < 13 && r.Intn(4) == 0:
			o.Op = "RS"
		case k < 17:
			n := length()
			if r.Intn(12) == 0 {
				n = -r.Intn(3)
			}
			o.Op, o.N = "RNF", n
			pos := n
			if pos < 0 {
				pos = 0
			}
			o.Ch = r.Intn(4)
			switch r.Intn(3) {
			case 0:
				o.E, o.Av = "none", pos+1+r.Intn(3)
			case 1:
				o.E, o.Av, o.W = "eof", r.Intn(pos+3), r.Intn(2) == 0
			default:
				o.E, o.Av, o.W = "err", r.Intn(pos+3), r.Intn(2) == 0
			}
			o.Data = fresh(o.Av)
		default:
			o.Op = "WT"
			if r.Intn(2) == 0 {
				o.Av = -1
			} else {
				o.Av, o.W = r.Intn(capacity+1), r.Intn(2) == 0
			}
		}
		rc.Ops = append(rc.Ops, o)
	}
	rc.Ops = append(rc.Ops, ringOp{Op: "WT", Av: -1, Data: []int{}})
	return rc
}

func runRing(c *vlib.Ctx) error {
	cases := decodeBehaviours[ringCase](c)
	if len(cases) == 0 {
		return fmt.Errorf("C26: no behaviours exported by TLC")
	}
	nseq, ncover := 0, 0
	for i, rc := range cases {
		if hangs >= 3 {
			break
		}
		execRing(c, rc)
		switch rc.Src {
		case "seq":
			nseq++
		case "cover":
			ncover++
		}
		if i == 0 || i == len(cases)/2 {
			c.Sample(rc)
		}
	}
	nrand, oplen := 300, 120
	if c.Thorough() {
		nrand, oplen = 4000, 400
	}
	for i := 0; i < nrand && hangs < 3; i++ {
		rc := randRingCase(c.Rand, 1+c.Rand.Intn(oplen))
		execRing(c, rc)
	}
	c.SetExtra("behaviours_seq", nseq)
	c.SetExtra("behaviours_cover", ncover)
	c.SetExtra("random_cases", nrand)
	c.SetExtra("watchdog_expiries", hangs)
	c.SetExhaustive(hangs == 0)
	return nil
}
