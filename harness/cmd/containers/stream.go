package main

import (
	"crypto/sha256"
	"encoding/hex"
	"encoding/json"
	"errors"
	"fmt"
	"hash"
	"io"
	"math/rand"
	"sync"
	"time"

	"github.com/mutagen-io/mutagen/pkg/stream"

	"verif/harness/internal/vlib"
)

// streamCfg is [kind, n, cl] of spec/containers/StreamOps.tla.
type streamCfg struct {
	Kind string   `json:"kind"`
	N    int      `json:"n"`
	Cl   []string `json:"cl"`
}

// streamOp is <<op, data, a>>.
type streamOp struct {
	Op   string
	Data []int
	A    int
}

func (o streamOp) MarshalJSON() ([]byte, error) {
	data := o.Data
	if data == nil {
		data = []int{}
	}
	return json.Marshal([]any{o.Op, data, o.A})
}

func (o *streamOp) UnmarshalJSON(b []byte) error {
	var raw []json.RawMessage
	if err := json.Unmarshal(b, &raw); err != nil {
		return err
	}
	if len(raw) != 3 {
		return fmt.Errorf("stream operation: want 3 elements, got %d", len(raw))
	}
	for i, d := range []any{&o.Op, &o.Data, &o.A} {
		if err := json.Unmarshal(raw[i], d); err != nil {
			return err
		}
	}
	return nil
}

type streamCase struct {
	Cfg streamCfg  `json:"cfg"`
	Src string     `json:"src"`
	Ops []streamOp `json:"ops"`
}

// streamObs is <<n, err, ds, x>>.
type streamObs struct {
	N   int
	Err string
	Ds  [][]int
	X   any
}

func (o streamObs) MarshalJSON() ([]byte, error) {
	ds := o.Ds
	if ds == nil {
		ds = [][]int{}
	}
	x := o.X
	if x == nil {
		x = []int{}
	}
	return json.Marshal([]any{o.N, o.Err, ds, x})
}

var errDownstream = errors.New("scripted downstream failure")

// namedErr is what a scripted closer / flusher returns.
type namedErr string

func (e namedErr) Error() string { return string(e) }

func streamErr(err error) string {
	var ne namedErr
	switch {
	case err == nil:
		return ""
	case err == errDownstream:
		return "err"
	case err == stream.ErrWritePreempted:
		return "preempted"
	case err == stream.ErrMaximumBufferSizeExceeded:
		return "toobig"
	case errors.As(err, &ne):
		return string(ne)
	}
	return "other:" + err.Error()
}

// downstream is the scripted writer below the helper: during the current
// operation it accepts min(a, len(p)) bytes (a < 0: all) and fails iff it
// accepted fewer. It records every call and keeps its own digest of what it
// accepted.
type downstream struct {
	a        int
	offered  [][]int
	accepted hash.Hash
}

func (d *downstream) Write(p []byte) (int, error) {
	d.offered = append(d.offered, ints(p))
	k := len(p)
	if d.a >= 0 && d.a < k {
		k = d.a
	}
	d.accepted.Write(p[:k])
	if k < len(p) {
		return k, errDownstream
	}
	return k, nil
}

// recordingHash is a hash.Hash that remembers what it was fed and also feeds a
// real SHA-256.
type recordingHash struct {
	fed  []int
	real hash.Hash
}

func (h *recordingHash) Write(p []byte) (int, error) {
	h.fed = append(h.fed, ints(p)...)
	return h.real.Write(p)
}
func (h *recordingHash) Sum(b []byte) []byte { return h.real.Sum(b) }
func (h *recordingHash) Reset()              { h.real.Reset(); h.fed = nil }
func (h *recordingHash) Size() int           { return h.real.Size() }
func (h *recordingHash) BlockSize() int      { return h.real.BlockSize() }

// scriptedCloser is an io.Closer and a stream.Flusher that logs its invocation.
type scriptedCloser struct {
	index  int
	result string
	log    *[]int
}

func (s scriptedCloser) invoke() error {
	*s.log = append(*s.log, s.index)
	if s.result == "" {
		return nil
	}
	return namedErr(s.result)
}
func (s scriptedCloser) Close() error { return s.invoke() }
func (s scriptedCloser) Flush() error { return s.invoke() }

// execStream runs one case on the real helper and emits its record.
func execStream(c *vlib.Ctx, sc streamCase) {
	if sc.Ops == nil {
		sc.Ops = []streamOp{}
	}
	if sc.Cfg.Cl == nil {
		sc.Cfg.Cl = []string{}
	}
	res := []streamObs{}
	var h1, h2 string
	reached := false
	guarded(func() {
		ds := &downstream{accepted: sha256.New()}
		var w io.Writer
		var valve *stream.ValveWriter
		var cancel chan struct{}
		var hasher *recordingHash
		var audited []int
		var lines [][]int
		var invoked []int
		var closer io.Closer
		var flusher stream.Flusher
		switch sc.Cfg.Kind {
		case "cutoff":
			w = stream.NewCutoffWriter(ds, uint(sc.Cfg.N))
		case "hashed":
			hasher = &recordingHash{real: sha256.New()}
			w = stream.NewHashedWriter(ds, hasher)
		case "preempt":
			cancel = make(chan struct{})
			w = stream.NewPreemptableWriter(ds, cancel, uint(sc.Cfg.N))
		case "valve":
			if sc.Cfg.N == 1 {
				valve = stream.NewValveWriter(nil)
			} else {
				valve = stream.NewValveWriter(ds)
			}
			w = valve
		case "audit":
			if sc.Cfg.N == 1 {
				w = stream.NewAuditWriter(ds, nil)
			} else {
				w = stream.NewAuditWriter(ds, func(n uint64) { audited = append(audited, int(n)) })
			}
		case "concurrent":
			w = stream.NewConcurrentWriter(ds)
		case "line":
			w = &stream.LineProcessor{
				Callback:          func(s string) { lines = append(lines, ints([]byte(s))) },
				MaximumBufferSize: sc.Cfg.N,
			}
		case "mcloser":
			var cs []io.Closer
			for i, r := range sc.Cfg.Cl {
				cs = append(cs, scriptedCloser{i + 1, r, &invoked})
			}
			closer = stream.NewMultiCloser(cs...)
		case "mflusher":
			var fs []stream.Flusher
			for i, r := range sc.Cfg.Cl {
				fs = append(fs, scriptedCloser{i + 1, r, &invoked})
			}
			flusher = stream.NewMultiFlusher(fs...)
		case "fcloser":
			closer = stream.NewFlushCloser(scriptedCloser{1, sc.Cfg.Cl[0], &invoked})
		default:
			vlib.Fatal("stream: unknown helper kind %q", sc.Cfg.Kind)
		}
		cancelled := false
		for _, o := range sc.Ops {
			ds.a, ds.offered = o.A, nil
			audited, lines, invoked = nil, nil, nil
			fed0 := 0
			if hasher != nil {
				fed0 = len(hasher.fed)
			}
			obs := streamObs{}
			func() {
				defer func() {
					if p := recover(); p != nil {
						obs.Err = fmt.Sprintf("panic:%v", p)
					}
				}()
				switch o.Op {
				case "W":
					n, err := w.Write(bytesOf(o.Data))
					obs.N, obs.Err = n, streamErr(err)
				case "Cancel":
					if !cancelled {
						close(cancel)
						cancelled = true
					}
				case "Shut":
					valve.Shut()
				case "Close":
					obs.Err = streamErr(closer.Close())
				case "Flush":
					obs.Err = streamErr(flusher.Flush())
				default:
					vlib.Fatal("stream: unknown op %q", o.Op)
				}
			}()
			obs.Ds = ds.offered
			if len(ds.offered) > 0 {
				reached = true
			}
			switch sc.Cfg.Kind {
			case "hashed":
				obs.X = append([]int{}, hasher.fed[fed0:]...)
			case "audit":
				obs.X = append([]int{}, audited...)
			case "line":
				if lines == nil {
					lines = [][]int{}
				}
				obs.X = lines
				if len(lines) > 0 {
					reached = true
				}
			case "mcloser", "mflusher", "fcloser":
				obs.X = append([]int{}, invoked...)
				reached = true
			}
			res = append(res, obs)
			if len(obs.Err) > 5 && obs.Err[:5] == "panic" {
				return
			}
		}
		if hasher != nil {
			h1 = hex.EncodeToString(hasher.Sum(nil))
			h2 = hex.EncodeToString(ds.accepted.Sum(nil))
		}
	})
	c.Emit(map[string]any{"ev": "Stream", "in": sc, "res": append([]streamObs{}, res...), "h1": h1, "h2": h2})
	c.Eval()
	c.TraceDone()
	if reached {
		c.NonTrivial(sc)
	}
}

// ---------------------------------------------------------------------------
// Schedules: a write blocked inside the downstream writer while another
// goroutine calls Shut (valve) or Write (valve, concurrent writer). The
// recorded event order is judged by StreamWriters_Trace.tla.

type eventLog struct {
	mu     sync.Mutex
	events []string
	notify map[string]chan struct{}
}

func newEventLog() *eventLog { return &eventLog{notify: map[string]chan struct{}{}} }

func (l *eventLog) add(e string) {
	l.mu.Lock()
	l.events = append(l.events, e)
	if ch, ok := l.notify[e]; ok {
		close(ch)
		delete(l.notify, e)
	}
	l.mu.Unlock()
}

// on returns a channel closed when event e is (or already was) logged.
func (l *eventLog) on(e string) <-chan struct{} {
	l.mu.Lock()
	defer l.mu.Unlock()
	ch := make(chan struct{})
	for _, x := range l.events {
		if x == e {
			close(ch)
			return ch
		}
	}
	l.notify[e] = ch
	return ch
}

func (l *eventLog) snapshot() []string {
	l.mu.Lock()
	defer l.mu.Unlock()
	return append([]string{}, l.events...)
}

// gateWriter blocks every Write until its gate opens and logs entry and exit.
type gateWriter struct {
	log  *eventLog
	gate chan struct{}
}

func (g *gateWriter) Write(p []byte) (int, error) {
	g.log.add("ds-enter")
	<-g.gate
	g.log.add("ds-exit")
	return len(p), nil
}

func await(ch <-chan struct{}, d time.Duration) bool {
	select {
	case <-ch:
		return true
	case <-time.After(d):
		return false
	}
}

type raceCase struct {
	Kind   string `json:"kind"`   // valve-shut | valve-write | concurrent-write
	HoldMs int    `json:"holdms"` // how long the first write is held inside the downstream writer
}

// execRace runs one schedule and emits the observed event order.
func execRace(c *vlib.Ctx, rc raceCase) {
	log := newEventLog()
	g := &gateWriter{log: log, gate: make(chan struct{})}
	var w io.Writer
	var valve *stream.ValveWriter
	switch rc.Kind {
	case "valve-shut", "valve-write":
		valve = stream.NewValveWriter(g)
		w = valve
	case "concurrent-write":
		w = stream.NewConcurrentWriter(g)
	default:
		vlib.Fatal("race: unknown kind %q", rc.Kind)
	}
	var wg sync.WaitGroup
	entered := log.on("ds-enter")
	wg.Add(1)
	go func() {
		defer wg.Done()
		log.add("w1-call")
		w.Write([]byte{1, 2, 3})
		log.add("w1-ret")
	}()
	// generous: expiry is itself reported (C47_ScheduleCompleted), so it must mean a real hang
	const raceTimeout = 4 * caseTimeout
	complete := true
	if !await(entered, raceTimeout) {
		complete = false
	}
	second := "w2-call"
	if rc.Kind == "valve-shut" {
		second = "shut-call"
	}
	called := log.on(second)
	wg.Add(1)
	go func() {
		defer wg.Done()
		if rc.Kind == "valve-shut" {
			log.add("shut-call")
			valve.Shut()
			log.add("shut-ret")
		} else {
			log.add("w2-call")
			w.Write([]byte{4, 5})
			log.add("w2-ret")
		}
	}()
	await(called, raceTimeout)
	time.Sleep(time.Duration(rc.HoldMs) * time.Millisecond)
	close(g.gate)
	finished := make(chan struct{})
	go func() { wg.Wait(); close(finished) }()
	if !await(finished, raceTimeout) {
		complete = false
	}
	if rc.Kind == "valve-shut" && complete {
		log.add("w3-call")
		w.Write([]byte{6})
		log.add("w3-ret")
	}
	events := log.snapshot()
	c.Emit(map[string]any{"ev": "Race", "in": rc, "events": events, "complete": complete})
	c.Eval()
	c.TraceDone()
	c.NonTrivial(fmt.Sprintf("race-%s-%d", rc.Kind, rc.HoldMs))
}

// ---------------------------------------------------------------------------

func randStreamCase(r *rand.Rand, nops int) streamCase {
	kinds := []string{"cutoff", "hashed", "preempt", "valve", "audit", "concurrent", "line"}
	sc := streamCase{Cfg: streamCfg{Kind: kinds[r.Intn(len(kinds))], Cl: []string{}}, Src: "rand", Ops: []streamOp{}}
	switch sc.Cfg.Kind {
	case "cutoff":
		sc.Cfg.N = r.Intn(60)
	case "preempt":
		sc.Cfg.N = r.Intn(9)
	case "valve", "audit":
		if r.Intn(6) == 0 {
			sc.Cfg.N = 1
		}
	case "line":
		sc.Cfg.N = []int{-1, -1, 0, 1, 4, 9, 16}[r.Intn(7)]
	}
	data := func(n int) []int {
		out := make([]int, n)
		for i := range out {
			if sc.Cfg.Kind == "line" {
				out[i] = []int{120, 121, 10, 10, 13, 13, 0, 255}[r.Intn(8)]
			} else {
				out[i] = r.Intn(256)
			}
		}
		return out
	}
	for i := 0; i < nops; i++ {
		switch {
		case sc.Cfg.Kind == "preempt" && r.Intn(12) == 0:
			sc.Ops = append(sc.Ops, streamOp{Op: "Cancel", Data: []int{}, A: -1})
		case sc.Cfg.Kind == "valve" && r.Intn(15) == 0:
			sc.Ops = append(sc.Ops, streamOp{Op: "Shut", Data: []int{}, A: -1})
		default:
			n := r.Intn(12)
			if r.Intn(5) == 0 {
				n = 0
			}
			a := -1
			if r.Intn(3) == 0 && sc.Cfg.Kind != "line" {
				a = r.Intn(n + 1)
			}
			sc.Ops = append(sc.Ops, streamOp{Op: "W", Data: data(n), A: a})
		}
	}
	return sc
}

func runStream(c *vlib.Ctx) error {
	cases := decodeBehaviours[streamCase](c)
	if len(cases) == 0 {
		return fmt.Errorf("C47: no behaviours exported by TLC")
	}
	kinds := map[string]int{}
	for i, sc := range cases {
		if hangs >= 3 {
			break
		}
		execStream(c, sc)
		kinds[sc.Cfg.Kind]++
		if i == 0 || i == len(cases)/2 {
			c.Sample(sc)
		}
	}
	// the default line-processor limit (64 KiB), beyond the model checker's reach: approach it in
	// three chunks, overflow by one byte, then complete the line
	big := func(n int) []int {
		out := make([]int, n)
		for i := range out {
			out[i] = 120
		}
		return out
	}
	execStream(c, streamCase{Cfg: streamCfg{Kind: "line", N: 0, Cl: []string{}}, Src: "limit", Ops: []streamOp{
		{Op: "W", Data: big(30000), A: -1}, {Op: "W", Data: big(30000), A: -1}, {Op: "W", Data: big(5536), A: -1},
		{Op: "W", Data: []int{120}, A: -1}, {Op: "W", Data: []int{13, 10, 121}, A: -1}, {Op: "W", Data: []int{10}, A: -1},
	}})
	nrand, oplen := 300, 60
	if c.Thorough() {
		nrand, oplen = 4000, 200
	}
	for i := 0; i < nrand && hangs < 3; i++ {
		execStream(c, randStreamCase(c.Rand, 1+c.Rand.Intn(oplen)))
	}
	races := 0
	reps := 2
	if c.Thorough() {
		reps = 10
	}
	for i := 0; i < reps; i++ {
		for _, k := range []string{"valve-shut", "valve-write", "concurrent-write"} {
			execRace(c, raceCase{Kind: k, HoldMs: 20 + 15*i})
			races++
		}
	}
	c.SetExtra("behaviours_by_helper", kinds)
	c.SetExtra("random_cases", nrand)
	c.SetExtra("schedules", races)
	c.SetExtra("watchdog_expiries", hangs)
	c.SetExhaustive(hangs == 0)
	return nil
}
