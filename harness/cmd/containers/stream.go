package main

import (
	"crypto/sha256"
	"encoding/hex"
	"encoding/json"
	"errors"
	"fmt"
	"hash"
	"io"
	"math/rand"
	"sync"
	"time"

	"github.com/mutagen-io/mutagen/pkg/stream"

	"verif/harness/internal/vlib"
)

// streamCfg is [kind, n, cl] of spec/containers/StreamOps.tla.
type streamCfg struct {
	Kind string   `json:"kind"`
	N    int      `json:"n"`
	Cl   []string `json:"cl"`
}

// streamOp is <<op, data, a>>.
type streamOp struct {
	Op   string
	Data []int
	A    int
}

func (o streamOp) MarshalJSON() ([]byte, error) {
	data := o.Data
	if data == nil {
		data = []int{}
	}
	return json.Marshal([]any{o.Op, data, o.A})
}

func (o *streamOp) UnmarshalJSON(b []byte) error {
	var raw []json.RawMessage
	if err := json.Unmarshal(b, &raw); err != nil {
		return err
	}
	if len(raw) != 3 {
		return fmt.Errorf("stream operation: want 3 elements, got %d", len(raw))
	}
	for i, d := range []any{&o.Op, &o.Data, &o.A} {
		if err := json.Unmarshal(raw[i], d); err != nil {
			return err
		}
	}
	return nil
}

type streamCase struct {
	Cfg streamCfg  `json:"cfg"`
	Src string     `json:"src"`
	Ops []streamOp `json:"ops"`
}

// streamObs is <<n, err, ds, x>>.
type streamObs struct {
	N   int
	Err string
	Ds  [][]int
	X   any
}

func (o streamObs) MarshalJSON() ([]byte, error) {
	ds := o.Ds
	if ds == nil {
		ds = [][]int{}
	}
	x := o.X
	if x == nil {
		x = []int{}
	}
	return json.Marshal([]any{o.N, o.Err, ds, x})
}

var errDownstream = errors.New("scripted downstream failure")

// namedErr is what a scripted closer / flusher returns.
type namedErr string

func (e namedErr) Error() string { return string(e) }

func streamErr(err error) string {
	var ne namedErr
	switch {
	case err == nil:
		return ""
	case err == errDownstream:
		return "err"
	case err == stream.ErrWritePreempted:
		return "preempted"
	case err == stream.ErrMaximumBufferSizeExceeded:
		return "toobig"
	case errors.As(err, &ne):
		return string(ne)
	}
	return "other:" + err.Error()
}

// downstream is the scripted writer below the helper: during the current
// operation it accepts min(a, len(p)) bytes (a < 0: all) and fails iff it
// accepted fewer. It records every call and keeps its own digest of what it
// accepted.
type downstream struct {
	a        int
	offered  [][]int
	accepted hash.Hash
}

func (d *downstream) Write(p []byte) (int, error) {
	d.offered = append(d.offered, ints(p))
	k := len(p)
	if d.a >= 0 && d.a < k {
		k = d.a
	}
	d.accepted.Write(p[:k])
	if k < len(p) {
		return k, errDownstream
	}
	return k, nil
}

// recordingHash is a hash.Hash that remembers what it was fed and also feeds a
// real SHA-256.
type recordingHash struct {
	fed  []int
	real hash.Hash
}

func (h *recordingHash) Write(p []byte) (int, error) {
	h.fed = append(h.fed, ints(p)...)
	return h.real.Write(p)
}
func (h *recordingHash) Sum(b []byte) []byte { return h.real.Sum(b) }
func (h *recordingHash) Reset()              { h.real.Reset(); h.fed = nil }
func (h *recordingHash) Size() int           { return h.real.Size() }
func (h *recordingHash) BlockSize() int      { return h.real.BlockSize() }

// scriptedCloser is an io.Closer and a stream.Flusher that logs its invocation.
type scriptedCloser struct {
	index  int
	result string
	log    *[]int
}

func (s scriptedCloser) invoke() error {
	*s.log = append(*s.log, s.index)
	if s.result == "" {
		return nil
	}
	return namedErr(s.result)
}
func (s scriptedCloser) Close() error { return s.invoke() }
func (s scriptedCloser) Flush() error { return s.invoke() }

// execStream runs one case on the real helper and emits its record.
func execStream(c *vlib.Ctx, sc streamCase) {
	if sc.Ops == nil {
		sc.Ops = []streamOp{}
	}
	if sc.Cfg.Cl == nil {
		sc.Cfg.Cl = []string{}
	}
	res := []streamObs{}
	var h1, h2 string
	reached := false
	guarded(func() {
		ds := &downstream{accepted: sha256.New()}
		var w io.Writer
		var valve *stream.ValveWriter
		var cancel chan struct{}
		var hasher *recordingHash
		var audited []int
		var lines [][]int
		var invoked []int
		var closer io.Closer
		var flusher stream.Flusher
		switch sc.Cfg.Kind {
		case "cutoff":
			w = stream.NewCutoffWriter(ds, uint(sc.Cfg.N))
		case "hashed":
			hasher = &recordingHash{real: sha256.New()}
			w = stream.NewHashedWriter(ds, hasher)
		case "preempt":
			cancel = make(chan struct{})
			w = stream.NewPreemptableWriter(ds, cancel, uint(sc.Cfg.N))
		case "valve":
			if sc.Cfg.N == 1 {
				valve = stream.NewValveWriter(nil)
			} else {
				valve = stream.NewValveWriter(ds)
			}
			w = valve
		case "audit":
			if sc.Cfg.N == 1 {
				w = stream.NewAuditWriter(ds, nil)
			} else {
				w = stream.NewAuditWriter(ds, func(n uint64) { audited = append(audited, int(n)) })
			}
		case "concurrent":
			w = stream.NewConcurrentWriter(ds)
		case "line":
			w = &stream.LineProcessor{
				Callback:          func(s string) { lines = append(lines, ints([]byte(s))) },
				MaximumBufferSize: sc.Cfg.N,
			}
		case "mcloser":
			var cs []io.Closer
			for i, r := range sc.Cfg.Cl {
				cs = append(cs, scriptedCloser{i + 1, r, &invoked})
			}
			closer = stream.NewMultiCloser(cs...)
		case "mflusher":
			var fs []stream.Flusher
			for i, r := range sc.Cfg.Cl {
				fs = append(fs, scriptedCloser{i + 1, r, &invoked})
			}
			flusher = stream.NewMultiFlusher(fs...)
		case "fcloser":
			closer = stream.NewFlushCloser(scriptedCloser{1, sc.Cfg.Cl[0], &invoked})
		default:
			vlib.Fatal("stream: unknown helper kind %q", sc.Cfg.Kind)
		}
		cancelled := false
		for _, o := range sc.Ops {
			ds.a, ds.offered = o.A, nil
			audited, lines, invoked = nil, nil, nil
			fed0 := 0
			if hasher != nil {
				fed0 = len(hasher.fed)
			}
			obs := streamObs{}
			func() {
				defer func() {
					if p := recover(); p != nil {
						obs.Err = fmt.Sprintf("panic:%v", p)
					}
				}()
				switch o.Op {
				case "W":
					n, err := w.Write(bytesOf(o.Data))
					obs.N, obs.Err = n, streamErr(err)
				case "Cancel":
					if !cancelled {
						close(cancel)
						cancelled = true
					}
				case "Shut":
					valve.Shut()
				case "Close":
					obs.Err = streamErr(closer.Close())
				case "Flush":
					obs.Err = streamErr(flusher.Flush())
				default:
					vlib.Fatal("stream: unknown op %q", o.Op)
				}
			}()
			obs.Ds = ds.offered
			if len(ds.offered) > 0 {
				reached = true
			}
			switch sc.Cfg.Kind {
			case "hashed":
				obs.X = append([]int{}, hasher.fed[fed0:]...)
			case "audit":
				obs.X = append([]int{}, audited...)
			case "line":
				if lines == nil {
					lines = [][]int{}
				}
				obs.X = lines
				if len(lines) > 0 {
					reached = true
				}
			case "mcloser", "mflusher", "fcloser":
				obs.X = append([]int{}, invoked...)
				reached = true
			}
			res = append(res, obs)
			if len(obs.Err) > 5 && obs.Err[:5] == "panic" {
				return
			}
		}
		if hasher != nil {
			h1 = hex.EncodeToString(hasher.Sum(nil))
			h2 = hex.EncodeToString(ds.accepted.Sum(nil))
		}
	})
	c.Emit(map[string]any{"ev": "Stream", "in": sc, "res": append([]streamObs{}, res...), "h1": h1, "h2": h2})
	c.Eval()
	c.TraceDone()
	if reached {
		c.NonTrivial(sc)
	}
}

// ---------------------------------------------------------------------------
// Schedules. One Write is held inside a gated underlying writer (so it holds
// the helper's mutex) while further calls -- Write, Shut, Cancel -- are started
// one after the other, each given a moment to reach the mutex; then the gate
// opens. Every call start, call return and entry to / exit from the underlying
// writer draws a ticket from one counter under one mutex; the ticketed event
// order is all that is recorded and all that StreamWriters_Trace.tla judges
// (never a duration: the settle delays only steer which interleaving is
// visited, any interleaving is a legal observation).

type raceEvent struct {
	T   int    `json:"t"`   // ticket
	E   string `json:"e"`   // w-call w-ret ds-enter ds-exit shut-call shut-ret cancel-call cancel-ret
	Who string `json:"who"` // the call concerned
	D   []int  `json:"d"`   // w-call: bytes given; ds-enter: bytes the underlying writer saw
	N   int    `json:"n"`   // w-ret: returned count
	Err string `json:"err"` // w-ret: error kind
}

type eventLog struct {
	mu     sync.Mutex
	events []raceEvent
	notify map[string]chan struct{}
}

func newEventLog() *eventLog { return &eventLog{notify: map[string]chan struct{}{}} }

func (l *eventLog) add(ev raceEvent) {
	l.mu.Lock()
	ev.T = len(l.events) + 1
	if ev.D == nil {
		ev.D = []int{}
	}
	l.events = append(l.events, ev)
	key := ev.E + ":" + ev.Who
	if ch, ok := l.notify[key]; ok {
		close(ch)
		delete(l.notify, key)
	}
	l.mu.Unlock()
}

// on returns a channel closed when event e of call who is (or already was) logged.
func (l *eventLog) on(e, who string) <-chan struct{} {
	l.mu.Lock()
	defer l.mu.Unlock()
	ch := make(chan struct{})
	for _, x := range l.events {
		if x.E == e && x.Who == who {
			close(ch)
			return ch
		}
	}
	l.notify[e+":"+who] = ch
	return ch
}

func (l *eventLog) snapshot() []raceEvent {
	l.mu.Lock()
	defer l.mu.Unlock()
	return append([]raceEvent{}, l.events...)
}

// gateWriter blocks every Write until its gate opens and logs entry and exit;
// the call on whose behalf it is entered is recognised by the first byte.
type gateWriter struct {
	log   *eventLog
	gate  chan struct{}
	owner map[byte]string
}

func (g *gateWriter) Write(p []byte) (int, error) {
	who := "?"
	if len(p) > 0 {
		if w, ok := g.owner[p[0]]; ok {
			who = w
		}
	}
	g.log.add(raceEvent{E: "ds-enter", Who: who, D: ints(p)})
	<-g.gate
	g.log.add(raceEvent{E: "ds-exit", Who: who})
	return len(p), nil
}

func await(ch <-chan struct{}, d time.Duration) bool {
	select {
	case <-ch:
		return true
	case <-time.After(d):
		return false
	}
}

// raceCase: kind valve | concurrent | preempt. Valve / concurrent: Write A is
// held, then the calls of Order ("W" a Write, "S" Shut) are started in that
// order SettleMs apart, the gate opens SettleMs later, and when all have
// returned one more Write follows. Preempt: one goroutine issues Interval+3
// Writes in a row, the first is held, Cancel is called meanwhile.
type raceCase struct {
	Kind     string   `json:"kind"`
	Order    []string `json:"order"`
	Interval int      `json:"interval"`
	SettleMs int      `json:"settlems"`
}

// generous: expiry is itself reported (C47_ScheduleCompleted), so it must mean a real hang
const raceTimeout = 4 * caseTimeout

func execRace(c *vlib.Ctx, rc raceCase) {
	if rc.Order == nil {
		rc.Order = []string{}
	}
	log := newEventLog()
	g := &gateWriter{log: log, gate: make(chan struct{}), owner: map[byte]string{}}
	settle := time.Duration(rc.SettleMs) * time.Millisecond
	complete := true
	var wg sync.WaitGroup
	// write issues one Write call `who` with its own recognisable bytes
	nextByte := byte(10)
	payload := func(who string) []byte {
		p := []byte{nextByte, nextByte + 1, nextByte + 2}
		g.owner[nextByte] = who
		nextByte += 10
		return p
	}
	write := func(w io.Writer, who string, p []byte) {
		log.add(raceEvent{E: "w-call", Who: who, D: ints(p)})
		n, err := w.Write(p)
		log.add(raceEvent{E: "w-ret", Who: who, N: n, Err: streamErr(err)})
	}
	switch rc.Kind {
	case "valve", "concurrent":
		var w io.Writer
		var valve *stream.ValveWriter
		if rc.Kind == "valve" {
			valve = stream.NewValveWriter(g)
			w = valve
		} else {
			w = stream.NewConcurrentWriter(g)
		}
		// every payload is registered before any goroutine starts (the owner table is read concurrently)
		pa, pz := payload("A"), payload("Z")
		pf := make([][]byte, len(rc.Order))
		for i := range rc.Order {
			pf[i] = payload(string(rune('B' + i)))
		}
		held := log.on("ds-enter", "A")
		wg.Add(1)
		go func() { defer wg.Done(); write(w, "A", pa) }()
		if !await(held, raceTimeout) {
			complete = false
		}
		for i, o := range rc.Order {
			who := string(rune('B' + i))
			switch o {
			case "S":
				if valve == nil {
					vlib.Fatal("race: Shut on a helper without Shut")
				}
				started := log.on("shut-call", "shut")
				wg.Add(1)
				go func() {
					defer wg.Done()
					log.add(raceEvent{E: "shut-call", Who: "shut"})
					valve.Shut()
					log.add(raceEvent{E: "shut-ret", Who: "shut"})
				}()
				await(started, raceTimeout)
			default:
				p := pf[i]
				started := log.on("w-call", who)
				wg.Add(1)
				go func() { defer wg.Done(); write(w, who, p) }()
				await(started, raceTimeout)
			}
			time.Sleep(settle) // let the call reach the mutex before the next one starts
		}
		close(g.gate)
		finished := make(chan struct{})
		go func() { wg.Wait(); close(finished) }()
		if !await(finished, raceTimeout) {
			complete = false
		} else {
			write(w, "Z", pz)
		}
	case "preempt":
		cancel := make(chan struct{})
		w := stream.NewPreemptableWriter(g, cancel, uint(rc.Interval))
		total := rc.Interval + 3
		payloads := make([][]byte, total)
		for i := range payloads {
			payloads[i] = payload(fmt.Sprintf("W%d", i+1))
		}
		held := log.on("ds-enter", "W1")
		wg.Add(1)
		go func() {
			defer wg.Done()
			for i, p := range payloads {
				write(w, fmt.Sprintf("W%d", i+1), p)
			}
		}()
		if !await(held, raceTimeout) {
			complete = false
		}
		returned := log.on("cancel-ret", "cancel")
		wg.Add(1)
		go func() {
			defer wg.Done()
			log.add(raceEvent{E: "cancel-call", Who: "cancel"})
			close(cancel)
			log.add(raceEvent{E: "cancel-ret", Who: "cancel"})
		}()
		await(returned, raceTimeout)
		time.Sleep(settle)
		close(g.gate)
		finished := make(chan struct{})
		go func() { wg.Wait(); close(finished) }()
		if !await(finished, raceTimeout) {
			complete = false
		}
	default:
		vlib.Fatal("race: unknown kind %q", rc.Kind)
	}
	c.Emit(map[string]any{"ev": "Race", "in": rc, "events": log.snapshot(), "complete": complete})
	c.Eval()
	c.TraceDone()
	c.NonTrivial(rc)
}

// ---------------------------------------------------------------------------

func randStreamCase(r *rand.Rand, nops int) streamCase {
	kinds := []string{"cutoff", "hashed", "preempt", "valve", "audit", "concurrent", "line"}
	sc := streamCase{Cfg: streamCfg{Kind: kinds[r.Intn(len(kinds))], Cl: []string{}}, Src: "rand", Ops: []streamOp{}}
	switch sc.Cfg.Kind {
	case "cutoff":
		sc.Cfg.N = r.Intn(60)
	case "preempt":
		sc.Cfg.N = r.Intn(9)
	case "valve", "audit":
		if r.Intn(6) == 0 {
			sc.Cfg.N = 1
		}
	case "line":
		sc.Cfg.N = []int{-1, -1, 0, 1, 4, 9, 16}[r.Intn(7)]
	}
	data := func(n int) []int {
		out := make([]int, n)
		for i := range out {
			if sc.Cfg.Kind == "line" {
				out[i] = []int{120, 121, 10, 10, 13, 13, 0, 255}[r.Intn(8)]
			} else {
				out[i] = r.Intn(256)
			}
		}
		return out
	}
	for i := 0; i < nops; i++ {
		switch {
		case sc.Cfg.Kind == "preempt" && r.Intn(12) == 0:
			sc.Ops = append(sc.Ops, streamOp{Op: "Cancel", Data: []int{}, A: -1})
		case sc.Cfg.Kind == "valve" && r.Intn(15) == 0:
			sc.Ops = append(sc.Ops, streamOp{Op: "Shut", Data: []int{}, A: -1})
		default:
			n := r.Intn(12)
			if r.Intn(5) == 0 {
				n = 0
			}
			a := -1
			if r.Intn(3) == 0 && sc.Cfg.Kind != "line" {
				a = r.Intn(n + 1)
			}
			sc.Ops = append(sc.Ops, streamOp{Op: "W", Data: data(n), A: a})
		}
	}
	return sc
}

func runStream(c *vlib.Ctx) error {
	cases := decodeBehaviours[streamCase](c)
	if len(cases) == 0 {
		return fmt.Errorf("C47: no behaviours exported by TLC")
	}
	kinds := map[string]int{}
	for i, sc := range cases {
		if hangs >= 3 {
			break
		}
		execStream(c, sc)
		kinds[sc.Cfg.Kind]++
		if i == 0 || i == len(cases)/2 {
			c.Sample(sc)
		}
	}
	// the default line-processor limit (64 KiB), beyond the model checker's reach: approach it in
	// three chunks, overflow by one byte, then complete the line
	big := func(n int) []int {
		out := make([]int, n)
		for i := range out {
			out[i] = 120
		}
		return out
	}
	execStream(c, streamCase{Cfg: streamCfg{Kind: "line", N: 0, Cl: []string{}}, Src: "limit", Ops: []streamOp{
		{Op: "W", Data: big(30000), A: -1}, {Op: "W", Data: big(30000), A: -1}, {Op: "W", Data: big(5536), A: -1},
		{Op: "W", Data: []int{120}, A: -1}, {Op: "W", Data: []int{13, 10, 121}, A: -1}, {Op: "W", Data: []int{10}, A: -1},
	}})
	nrand, oplen := 300, 60
	if c.Thorough() {
		nrand, oplen = 4000, 200
	}
	for i := 0; i < nrand && hangs < 3; i++ {
		execStream(c, randStreamCase(c.Rand, 1+c.Rand.Intn(oplen)))
	}
	races := 0
	settles := []int{15, 40}
	if c.Thorough() {
		settles = []int{5, 15, 40, 80, 150}
	}
	for _, ms := range settles {
		for _, rc := range []raceCase{
			{Kind: "valve", Order: []string{"S"}},
			{Kind: "valve", Order: []string{"W"}},
			{Kind: "valve", Order: []string{"S", "W"}}, // A held, Shut queued, then a Write queued behind it
			{Kind: "valve", Order: []string{"W", "S"}},
			{Kind: "valve", Order: []string{"W", "W"}},
			{Kind: "valve", Order: []string{"S", "W", "W"}},
			{Kind: "concurrent", Order: []string{"W"}},
			{Kind: "concurrent", Order: []string{"W", "W"}},
			{Kind: "preempt", Interval: 0},
			{Kind: "preempt", Interval: 1},
			{Kind: "preempt", Interval: 2},
		} {
			rc.SettleMs = ms
			execRace(c, rc)
			races++
		}
	}
	c.SetExtra("behaviours_by_helper", kinds)
	c.SetExtra("random_cases", nrand)
	c.SetExtra("schedules", races)
	c.SetExtra("watchdog_expiries", hangs)
	c.SetExhaustive(hangs == 0)
	return nil
}
