package main

// C34: the real agent.ClientHandshake / agent.ServerHandshake and
// mutagen.ClientVersionHandshake / mutagen.ServerVersionHandshake over an
// in-memory duplex stream whose carrier mangles bytes by stream position
// (corrupt one byte, cut the stream, rewrite a version field), and against
// crafted peers that speak the same protocol with other constants.

import (
	"encoding/binary"
	"errors"
	"io"
	"sync"
	"sync/atomic"
	"time"

	"github.com/mutagen-io/mutagen/pkg/agent"
	"github.com/mutagen-io/mutagen/pkg/mutagen"
)

type perturb struct {
	Kind  string `json:"kind"` // none | corrupt | trunc | rewrite
	Dir   string `json:"dir"`  // s2c | c2s
	Off   int    `json:"off"`
	Delta int    `json:"delta"`
	Bytes []int  `json:"bytes"`
}

type hsCase struct {
	Layer  string  `json:"layer"` // magic | version | full
	Smagic []int   `json:"smagic"`
	Cmagic []int   `json:"cmagic"`
	Sver   []int   `json:"sver"`
	Cver   []int   `json:"cver"`
	P      perturb `json:"p"`
	Real   string  `json:"real"` // both | client | server
}

var (
	magicS = []int{0x05, 0x27, 0x87}
	magicC = []int{0x87, 0x27, 0x05}
)

func realVersion() []int {
	return []int{int(mutagen.VersionMajor), int(mutagen.VersionMinor), int(mutagen.VersionPatch)}
}

func hasMagic(layer string) bool   { return layer == "magic" || layer == "full" }
func hasVersion(layer string) bool { return layer == "version" || layer == "full" }
func streamLen(layer string) int {
	n := 0
	if hasMagic(layer) {
		n += 3
	}
	if hasVersion(layer) {
		n += 12
	}
	return n
}

// wire is one direction of the carrier.
type wire struct {
	mu         sync.Mutex
	cond       *sync.Cond
	p          *perturb // applies to this direction, or nil
	verBase    int      // offset of the version in the stream
	raw        []byte   // what the sender wrote
	seen       []byte   // what has been offered to the receiver (after mangling)
	rd         int      // consumed by the receiver
	eof        bool     // no more bytes will be offered
	readerGone bool
	rclosed    bool
}

func newWire(p *perturb, verBase int) *wire {
	w := &wire{p: p, verBase: verBase}
	w.cond = sync.NewCond(&w.mu)
	if p != nil && p.Kind == "trunc" && p.Off == 0 {
		w.eof = true
	}
	return w
}

func (w *wire) write(b []byte) (int, error) {
	w.mu.Lock()
	defer w.mu.Unlock()
	if w.readerGone {
		return 0, io.ErrClosedPipe
	}
	for _, x := range b {
		pos := len(w.raw)
		w.raw = append(w.raw, x)
		if w.p != nil {
			switch w.p.Kind {
			case "trunc":
				if pos >= w.p.Off {
					continue // dropped by the carrier
				}
			case "corrupt":
				if pos == w.p.Off {
					x = byte((int(x) + w.p.Delta) % 256)
				}
			case "rewrite":
				base := w.verBase + 4*(w.p.Off-1)
				if pos >= base && pos < base+4 {
					x = byte(w.p.Bytes[pos-base])
				}
			}
		}
		w.seen = append(w.seen, x)
	}
	if w.p != nil && w.p.Kind == "trunc" && len(w.raw) >= w.p.Off {
		w.eof = true
	}
	w.cond.Broadcast()
	return len(b), nil
}

func (w *wire) read(b []byte) (int, error) {
	w.mu.Lock()
	defer w.mu.Unlock()
	for {
		if w.rclosed {
			return 0, io.ErrClosedPipe
		}
		if w.rd < len(w.seen) {
			n := copy(b, w.seen[w.rd:])
			w.rd += n
			return n, nil
		}
		if w.eof {
			return 0, io.EOF
		}
		w.cond.Wait()
	}
}

// duplex is one side's io.ReadWriteCloser.
type duplex struct {
	in, out *wire
	closed  int32
}

func (d *duplex) Read(b []byte) (int, error) { return d.in.read(b) }
func (d *duplex) Write(b []byte) (int, error) {
	if atomic.LoadInt32(&d.closed) != 0 {
		return 0, io.ErrClosedPipe
	}
	return d.out.write(b)
}
func (d *duplex) Close() error {
	if !atomic.CompareAndSwapInt32(&d.closed, 0, 1) {
		return nil
	}
	d.out.mu.Lock()
	d.out.eof = true
	d.out.cond.Broadcast()
	d.out.mu.Unlock()
	d.in.mu.Lock()
	d.in.readerGone = true
	d.in.rclosed = true
	d.in.cond.Broadcast()
	d.in.mu.Unlock()
	return nil
}

func toBytes(v []int) []byte {
	b := make([]byte, len(v))
	for i, x := range v {
		b[i] = byte(x)
	}
	return b
}
func toInts(b []byte) []int {
	v := make([]int, len(b))
	for i, x := range b {
		v[i] = int(x)
	}
	return v
}
func encVer(v []int) []byte {
	b := make([]byte, 12)
	for i := 0; i < 3; i++ {
		binary.BigEndian.PutUint32(b[4*i:], uint32(v[i]))
	}
	return b
}

var errCrafted = errors.New("crafted peer: rejected")

// craftedServer / craftedClient: protocol-conforming peers with chosen constants.
func craftedServer(s io.ReadWriter, c hsCase) error {
	if hasMagic(c.Layer) {
		if _, err := s.Write(toBytes(c.Smagic)); err != nil {
			return err
		}
		got := make([]byte, 3)
		if _, err := io.ReadFull(s, got); err != nil {
			return err
		}
		if string(got) != string(toBytes(magicC)) {
			return errCrafted
		}
	}
	if hasVersion(c.Layer) {
		if _, err := s.Write(encVer(c.Sver)); err != nil {
			return err
		}
		got := make([]byte, 12)
		if _, err := io.ReadFull(s, got); err != nil {
			return err
		}
		if string(got) != string(encVer(c.Sver)) {
			return errCrafted
		}
	}
	return nil
}

func craftedClient(s io.ReadWriter, c hsCase) error {
	if hasMagic(c.Layer) {
		got := make([]byte, 3)
		if _, err := io.ReadFull(s, got); err != nil {
			return err
		}
		if string(got) != string(toBytes(magicS)) {
			return errCrafted
		}
		if _, err := s.Write(toBytes(c.Cmagic)); err != nil {
			return err
		}
	}
	if hasVersion(c.Layer) {
		got := make([]byte, 12)
		if _, err := io.ReadFull(s, got); err != nil {
			return err
		}
		if _, err := s.Write(encVer(c.Cver)); err != nil {
			return err
		}
		if string(got) != string(encVer(c.Cver)) {
			return errCrafted
		}
	}
	return nil
}

func realServer(s io.ReadWriteCloser, layer string) error {
	if hasMagic(layer) {
		if err := agent.ServerHandshake(s); err != nil {
			return err
		}
	}
	if hasVersion(layer) {
		if err := mutagen.ServerVersionHandshake(s); err != nil {
			return err
		}
	}
	return nil
}

func realClient(s io.ReadWriteCloser, layer string) error {
	if hasMagic(layer) {
		if err := agent.ClientHandshake(s); err != nil {
			return err
		}
	}
	if hasVersion(layer) {
		if err := mutagen.ClientVersionHandshake(s); err != nil {
			return err
		}
	}
	return nil
}

type sideResult struct {
	done bool
	ok   bool
	err  string
	next string // none | live | dead | hang
}

// runHandshake executes one case.
func runHandshake(c hsCase) map[string]any {
	verBase := 0
	if hasMagic(c.Layer) {
		verBase = 3
	}
	var ps2c, pc2s *perturb
	if c.P.Kind != "none" {
		p := c.P
		if p.Dir == "s2c" {
			ps2c = &p
		} else {
			pc2s = &p
		}
	}
	s2c, c2s := newWire(ps2c, verBase), newWire(pc2s, verBase)
	srv := &duplex{in: c2s, out: s2c}
	cli := &duplex{in: s2c, out: c2s}

	type res struct{ err error }
	sCh, cCh := make(chan res, 1), make(chan res, 1)
	go func() {
		var err error
		if c.Real == "client" {
			err = craftedServer(srv, c)
		} else {
			err = realServer(srv, c.Layer)
		}
		if err != nil {
			srv.Close() // the agent process exits
		}
		sCh <- res{err}
	}()
	go func() {
		var err error
		if c.Real == "server" {
			err = craftedClient(cli, c)
		} else {
			err = realClient(cli, c.Layer)
		}
		if err != nil {
			cli.Close() // dial.go: stream.Close()
		}
		cCh <- res{err}
	}()
	var sr, cr sideResult
	sr.next, cr.next = "none", "none"
	timeout := time.After(watchdog())
	for got := 0; got < 2; {
		select {
		case r := <-sCh:
			sr.done, sr.ok = true, r.err == nil
			if r.err != nil {
				sr.err = ascii(r.err.Error())
			}
			sCh = nil
			got++
		case r := <-cCh:
			cr.done, cr.ok = true, r.err == nil
			if r.err != nil {
				cr.err = ascii(r.err.Error())
			}
			cCh = nil
			got++
		case <-timeout:
			atomic.AddInt32(&expiries, 1)
			got = 2
		}
	}
	// next I/O of a side that accepted, once the other side is done (and, if it failed, has closed)
	if sr.done && cr.done {
		probe := func(d *duplex) string {
			out := make(chan string, 1)
			go func() {
				d.Write([]byte{0x42})
				b := make([]byte, 1)
				if n, err := d.Read(b); n == 1 && err == nil {
					out <- "live"
				} else {
					out <- "dead"
				}
			}()
			select {
			case s := <-out:
				return s
			case <-time.After(watchdog()):
				atomic.AddInt32(&expiries, 1)
				return "hang"
			}
		}
		var wg sync.WaitGroup
		if sr.ok {
			wg.Add(1)
			go func() { defer wg.Done(); sr.next = probe(srv) }()
		}
		if cr.ok {
			wg.Add(1)
			go func() { defer wg.Done(); cr.next = probe(cli) }()
		}
		wg.Wait()
	}
	srv.Close()
	cli.Close()
	s2c.mu.Lock()
	s2cSent, s2cSeen := toInts(s2c.raw), toInts(s2c.seen)
	s2c.mu.Unlock()
	c2s.mu.Lock()
	c2sSent, c2sSeen := toInts(c2s.raw), toInts(c2s.seen)
	c2s.mu.Unlock()
	// drop the probe bytes from the tap: only the handshake exchange is reported
	cut := func(v []int) []int {
		if n := streamLen(c.Layer); len(v) > n {
			return v[:n]
		}
		return v
	}
	return map[string]any{
		"s2cSent": cut(s2cSent), "s2cSeen": cut(s2cSeen), "c2sSent": cut(c2sSent), "c2sSeen": cut(c2sSeen),
		"cDone": cr.done, "sDone": sr.done, "cOK": cr.ok, "sOK": sr.ok, "cErr": cr.err, "sErr": sr.err,
		"cNext": cr.next, "sNext": sr.next,
	}
}

// ---------------------------------------------------------------------------
// the case space (mirrors BoundCases of spec/netfwd/HandshakeCases.tla)

func noP() perturb { return perturb{Kind: "none", Dir: "s2c", Bytes: []int{}} }

func enc32(n int) []int {
	b := make([]byte, 4)
	binary.BigEndian.PutUint32(b, uint32(n))
	return toInts(b)
}

func eqInts(a, b []int) bool {
	if len(a) != len(b) {
		return false
	}
	for i := range a {
		if a[i] != b[i] {
			return false
		}
	}
	return true
}

type hsTables struct {
	layers      []string
	deltas      []int
	otherVers   [][]int
	badMagics   [][]int
	rewriteVals [][]int
}

func quickTables() hsTables {
	return hsTables{
		layers: []string{"magic", "version", "full"},
		deltas: []int{1, 128},
		otherVers: [][]int{{1, 19, 0}, {0, 20, 0}, {0, 19, 1}, {0, 18, 0}, {0, 16777235, 0}, {19, 0, 0}, {0, 0, 19}},
		badMagics: [][]int{{135, 39, 5}, {5, 39, 135}, {5, 39, 134}, {4, 39, 135}, {5, 38, 135}, {0, 0, 0}},
		rewriteVals: [][]int{{0, 0, 0, 0}, {0, 0, 0, 1}, {0, 0, 0, 18}, {0, 0, 0, 19}, {0, 0, 0, 20},
			{255, 255, 255, 255}, {19, 0, 0, 0}, {0, 0, 1, 19}},
	}
}

func boundCases(t hsTables, base []int) []hsCase {
	var out []hsCase
	mk := func(layer string, sm, cm, sv, cv []int, p perturb, real string) {
		out = append(out, hsCase{Layer: layer, Smagic: sm, Cmagic: cm, Sver: sv, Cver: cv, P: p, Real: real})
	}
	for _, l := range t.layers {
		mk(l, magicS, magicC, base, base, noP(), "both")
		for _, d := range []string{"s2c", "c2s"} {
			for o := 0; o < streamLen(l); o++ {
				for _, x := range t.deltas {
					mk(l, magicS, magicC, base, base, perturb{Kind: "corrupt", Dir: d, Off: o, Delta: x, Bytes: []int{}}, "both")
				}
				mk(l, magicS, magicC, base, base, perturb{Kind: "trunc", Dir: d, Off: o, Bytes: []int{}}, "both")
			}
			if hasVersion(l) {
				for f := 1; f <= 3; f++ {
					for _, v := range t.rewriteVals {
						if !eqInts(v, enc32(base[f-1])) {
							mk(l, magicS, magicC, base, base, perturb{Kind: "rewrite", Dir: d, Off: f, Bytes: v}, "both")
						}
					}
				}
			}
		}
		if hasMagic(l) {
			for _, m := range t.badMagics {
				if !eqInts(m, magicS) {
					mk(l, m, magicC, base, base, noP(), "client")
				}
				if !eqInts(m, magicC) {
					mk(l, magicS, m, base, base, noP(), "server")
				}
			}
		}
		if hasVersion(l) {
			for _, v := range t.otherVers {
				if !eqInts(v, base) {
					mk(l, magicS, magicC, v, base, noP(), "client")
					mk(l, magicS, magicC, base, v, noP(), "server")
				}
			}
		}
	}
	return out
}
