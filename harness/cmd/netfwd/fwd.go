package main

// C33, part 1: scripts, and the execution of one forwarded connection's script
// around the real forwarding.ForwardAndClose.

import (
	"context"
	"encoding/hex"
	"math/rand"
	"sync"
	"sync/atomic"
	"time"

	"github.com/mutagen-io/mutagen/pkg/forwarding"
)

// step is one thing the environment does to a forwarded connection.
//
//	w      peer Side writes N bytes          half   peer Side half-closes (CloseWrite)
//	close  peer Side closes                  reset  peer Side resets
//	cancel the forwarding context is cancelled
//	sync   wait until the forwarder has caught up (shapes the schedule; never judged)
type step struct {
	Op   string `json:"op"`
	Side string `json:"side,omitempty"`
	N    int    `json:"n,omitempty"`
}

// connIn is the script of one forwarded connection. Fault positions are byte
// counts, -1 = no fault.
type connIn struct {
	Steps       []step `json:"steps"`
	MaxRead     int    `json:"maxRead"`
	Chunk       bool   `json:"chunk"`
	FailWFirst  int    `json:"failWFirst"`
	FailWSecond int    `json:"failWSecond"`
	FailRFirst  int    `json:"failRFirst"`
	FailRSecond int    `json:"failRSecond"`
	Seed        int64  `json:"seed"`
}

func noFaults(steps []step, seed int64) connIn {
	return connIn{Steps: steps, FailWFirst: -1, FailWSecond: -1, FailRFirst: -1, FailRSecond: -1, Seed: seed}
}

// watchdogs: generous while nothing ever expired; once a case has hung for the full
// period (never on a correct tree) later cases get shorter ones so that a broken
// tree still finishes and reports.
var expiries int32

func watchdog() time.Duration {
	switch n := atomic.LoadInt32(&expiries); {
	case n == 0:
		return 12 * time.Second
	case n < 4:
		return 4 * time.Second
	default:
		return 700 * time.Millisecond
	}
}

func idx(side string) int {
	if side == "B" {
		return 1
	}
	return 0
}

// connRun is one forwarded connection under test: peer A <-> first | second <-> peer B.
type connRun struct {
	in            connIn
	peer          [2]*end // harness side: A, B
	fwd           [2]*end // mutagen side: first (faces A), second (faces B)
	sink          [2]*sink
	rng           *rand.Rand
	intended      [2][]byte
	refused       [2]bool
	ended         [2]bool
	wasReset      [2]bool
	wasClosed     [2]bool
	cancelIssued  bool
	syncTimeouts  int
	stepsExecuted int
}

func newConnRun(in connIn) *connRun {
	c := &connRun{in: in, rng: rand.New(rand.NewSource(in.Seed))}
	c.peer[0], c.fwd[0] = newLink("peerA", "first")
	c.fwd[1], c.peer[1] = newLink("second", "peerB")
	for i := 0; i < 2; i++ {
		c.fwd[i].maxRead = in.MaxRead
		if in.Chunk {
			c.fwd[i].rng = rand.New(rand.NewSource(in.Seed*7 + int64(i)))
		}
	}
	c.fwd[0].failWriteAt, c.fwd[1].failWriteAt = in.FailWFirst, in.FailWSecond
	c.fwd[0].failReadAt, c.fwd[1].failReadAt = in.FailRFirst, in.FailRSecond
	c.sink[0] = drain(c.peer[0])
	c.sink[1] = drain(c.peer[1])
	return c
}

func isDone(ch <-chan struct{}) bool {
	select {
	case <-ch:
		return true
	default:
		return false
	}
}

// caughtUp: everything accepted from a peer has been written to the other side and
// a clean end has been forwarded, or the connection is being torn down.
func (c *connRun) caughtUp() bool {
	for i := 0; i < 2; i++ {
		o := c.fwd[i].obs()
		if o.closed || o.ioErr {
			return true
		}
	}
	for i := 0; i < 2; i++ {
		j := 1 - i
		if c.fwd[j].writtenLen() != c.peer[i].writtenLen() {
			return false
		}
		if c.ended[i] && !c.wasReset[i] {
			o := c.fwd[j].obs()
			if !o.cw && !o.cwLate {
				return false
			}
		}
	}
	return true
}

// syncTimeouts counts catch-up waits that gave up. Waiting is only a way of shaping the
// schedule and is never judged, so once a few have expired (a forwarder that does not
// forward) the later ones are cut short to keep the run fast.
var syncTimeouts int32

func (c *connRun) sync(returned <-chan struct{}) {
	wait := 3 * time.Second
	if atomic.LoadInt32(&syncTimeouts) >= 3 {
		wait = 30 * time.Millisecond
	}
	deadline := time.Now().Add(wait)
	for !isDone(returned) && !c.caughtUp() {
		if time.Now().After(deadline) {
			c.syncTimeouts++
			atomic.AddInt32(&syncTimeouts, 1)
			return
		}
		time.Sleep(150 * time.Microsecond)
	}
}

// exec performs the script. cancel may be nil (session connections are cancelled
// through the session only).
func (c *connRun) exec(cancel func(), returned <-chan struct{}) {
	for _, s := range c.in.Steps {
		i := idx(s.Side)
		switch s.Op {
		case "w":
			data := make([]byte, s.N)
			c.rng.Read(data)
			c.intended[i] = append(c.intended[i], data...)
			n, err := c.peer[i].Write(data)
			if err != nil || n != len(data) {
				c.refused[i] = true
			}
		case "half":
			if c.peer[i].CloseWrite() == nil {
				c.ended[i] = true
			}
		case "close":
			if c.peer[i].Close() == nil {
				c.ended[i] = true
				c.wasClosed[i] = true
			}
		case "reset":
			c.peer[i].Reset()
			c.wasReset[i] = true
		case "cancel":
			if cancel != nil {
				cancel()
				c.cancelIssued = true
			}
		case "sync":
			c.sync(returned)
		}
		c.stepsExecuted++
	}
}

func hx(b []byte) string { return hex.EncodeToString(b) }

// observe reports what was seen at the four ends. returned is supplied by the caller
// (direct: ForwardAndClose returned; session: nil, derived by the trace module from the closes).
func (c *connRun) observe() map[string]any {
	// let the peers' readers see the end of their streams if there is one
	for i := 0; i < 2; i++ {
		if c.fwd[i].isClosed() || c.peer[i].isClosed() {
			select {
			case <-c.sink[i].done:
			case <-time.After(10 * time.Second):
			}
		}
	}
	f0, f1 := c.fwd[0].obs(), c.fwd[1].obs()
	pa, pb := c.peer[0].obs(), c.peer[1].obs()
	gotA, endA := c.sink[0].snapshot()
	gotB, endB := c.sink[1].snapshot()
	return map[string]any{
		"intendedA": hx(c.intended[0]), "intendedB": hx(c.intended[1]),
		"sentA": hx(pa.written), "sentB": hx(pb.written),
		"refusedA": c.refused[0], "refusedB": c.refused[1],
		"endedA": c.ended[0], "endedB": c.ended[1],
		"resetA": c.wasReset[0], "resetB": c.wasReset[1],
		"pclosedA": c.wasClosed[0], "pclosedB": c.wasClosed[1],
		"wrFirst": hx(f0.written), "wrSecond": hx(f1.written),
		"cwFirst": f0.cw, "cwSecond": f1.cw,
		"clFirst": f0.closed, "clSecond": f1.closed,
		"ioErr":  f0.ioErr || f1.ioErr,
		"gotA":   hx(gotA), "gotB": hx(gotB),
		"eofA":   endA == "eof", "eofB": endB == "eof",
		"cancel": c.cancelIssued,
		"fwdOps": f0.ops + f1.ops,
	}
}

// runDirect executes one script around the real ForwardAndClose with recording auditors.
func runDirect(in connIn) map[string]any {
	c := newConnRun(in)
	var aud [2]uint64
	ctx, cancel := context.WithCancel(context.Background())
	defer cancel()
	returned := make(chan struct{})
	var panicked atomic.Value
	go func() {
		defer close(returned)
		defer func() {
			if r := recover(); r != nil {
				panicked.Store(true)
			}
		}()
		forwarding.ForwardAndClose(ctx, c.fwd[0], c.fwd[1],
			func(n uint64) { atomic.AddUint64(&aud[0], n) },
			func(n uint64) { atomic.AddUint64(&aud[1], n) })
	}()
	c.exec(cancel, returned)
	ret := false
	select {
	case <-returned:
		ret = true
	case <-time.After(watchdog()):
		atomic.AddInt32(&expiries, 1)
	}
	// auditor totals are read before the journals: an audit follows its Write, so the
	// totals can only be behind the journals, never ahead
	a0, a1 := atomic.LoadUint64(&aud[0]), atomic.LoadUint64(&aud[1])
	rec := c.observe()
	rec["returned"] = ret
	rec["audFirst"] = int(a0)
	rec["audSecond"] = int(a1)
	rec["panicked"] = panicked.Load() != nil
	if !ret {
		// unblock whatever is left so that goroutines do not pile up
		cancel()
		for i := 0; i < 2; i++ {
			c.peer[i].Reset()
		}
	}
	return rec
}

// ---------------------------------------------------------------------------
// script generation

// interleavings of two sequences, in a fixed order.
func interleave(a, b []step) [][]step {
	if len(a) == 0 {
		return [][]step{append([]step{}, b...)}
	}
	if len(b) == 0 {
		return [][]step{append([]step{}, a...)}
	}
	var out [][]step
	for _, r := range interleave(a[1:], b) {
		out = append(out, append([]step{a[0]}, r...))
	}
	for _, r := range interleave(a, b[1:]) {
		out = append(out, append([]step{b[0]}, r...))
	}
	return out
}

func sideOps(side string, n int) []step {
	var s []step
	for i := 0; i < n; i++ {
		s = append(s, step{Op: "w", Side: side, N: 1})
	}
	return append(s, step{Op: "half", Side: side})
}

// withEvent inserts ev at position pos and drops the later steps of a peer that is gone.
func withEvent(base []step, pos int, ev step) []step {
	var out []step
	out = append(out, base[:pos]...)
	out = append(out, ev)
	for _, s := range base[pos:] {
		if (ev.Op == "reset" || ev.Op == "close") && s.Side == ev.Side {
			continue
		}
		out = append(out, s)
	}
	return out
}

func withSyncs(steps []step) []step {
	var out []step
	for _, s := range steps {
		out = append(out, s, step{Op: "sync"})
	}
	return out
}

// ensureTrigger makes sure the script ends in an event after which forwarding must end:
// both peers have ended their sending side, or a reset of a side that was still sending,
// or a cancellation. Otherwise a final cancel is appended.
func ensureTrigger(steps []step) []step {
	ended := map[string]bool{}
	trig := false
	for _, s := range steps {
		switch s.Op {
		case "half", "close":
			ended[s.Side] = true
		case "reset":
			if !ended[s.Side] {
				trig = true
			}
		case "cancel":
			trig = true
		}
	}
	if ended["A"] && ended["B"] {
		trig = true
	}
	if !trig {
		steps = append(steps, step{Op: "cancel"})
	}
	return steps
}

// truncatedAt keeps the first pos steps and ends the script with ev: the event is then the
// only thing that can end forwarding (the rest of the environment stays silent).
func truncatedAt(base []step, pos int, ev step) []step {
	var out []step
	out = append(out, base[:pos]...)
	return append(out, ev)
}

// systematicScripts enumerates the model's environment behaviours for payloads of at
// most maxLen single-byte writes per direction: every interleaving of the two peers'
// operations, alone and with a cancel / reset / close inserted at every position - both
// with the environment falling silent after the event (the event alone must end
// forwarding, or - where it need not - the final cancel does) and with the other steps
// still played afterwards.
func systematicScripts(maxLen int) [][]step {
	var out [][]step
	for la := 0; la <= maxLen; la++ {
		for lb := 0; lb <= maxLen; lb++ {
			for _, base := range interleave(sideOps("A", la), sideOps("B", lb)) {
				out = append(out, base)
				for pos := 0; pos <= len(base); pos++ {
					out = append(out, ensureTrigger(truncatedAt(base, pos, step{Op: "cancel"})))
					for _, side := range []string{"A", "B"} {
						for _, op := range []string{"reset", "close"} {
							ev := step{Op: op, Side: side}
							out = append(out, ensureTrigger(withEvent(base, pos, ev)))
							if pos < len(base) {
								out = append(out, ensureTrigger(truncatedAt(base, pos, ev)))
							}
						}
					}
				}
			}
		}
	}
	return out
}

// randomScript draws a script with larger payloads, chunked writes, optional faults.
// session = true: no per-connection cancel (cancellation comes from the session).
func randomScript(r *rand.Rand, session bool, allowOpen bool) connIn {
	var steps []step
	alive := map[string]bool{"A": true, "B": true}
	sending := map[string]bool{"A": true, "B": true}
	budget := map[string]int{"A": 0, "B": 0}
	for _, s := range []string{"A", "B"} {
		switch r.Intn(6) {
		case 0:
			budget[s] = 0
		case 1, 2:
			budget[s] = 1 + r.Intn(40)
		case 3, 4:
			budget[s] = 1 + r.Intn(600)
		default:
			budget[s] = 1 + r.Intn(3000)
		}
	}
	kind := r.Intn(10) // 0-4 clean, 5 cancel, 6 reset, 7 close, 8 fault, 9 mixed
	if session && kind == 5 {
		kind = 0
	}
	nops := 2 + r.Intn(10)
	evAt := r.Intn(nops + 1)
	for i := 0; i <= nops; i++ {
		if i == evAt {
			switch kind {
			case 5:
				steps = append(steps, step{Op: "cancel"})
				if r.Intn(2) == 0 {
					// the cancellation is the last thing that happens
					sending["A"], sending["B"] = false, false
					i = nops
				}
			case 6, 9:
				s := []string{"A", "B"}[r.Intn(2)]
				if alive[s] {
					steps = append(steps, step{Op: "reset", Side: s})
					alive[s], sending[s] = false, false
				}
			case 7:
				s := []string{"A", "B"}[r.Intn(2)]
				if alive[s] {
					steps = append(steps, step{Op: "close", Side: s})
					alive[s], sending[s] = false, false
				}
			}
		}
		if i == nops {
			break
		}
		s := []string{"A", "B"}[r.Intn(2)]
		if !sending[s] {
			s = map[string]string{"A": "B", "B": "A"}[s]
		}
		if !sending[s] {
			break
		}
		if budget[s] > 0 && r.Intn(4) != 0 {
			n := 1 + r.Intn(budget[s])
			budget[s] -= n
			steps = append(steps, step{Op: "w", Side: s, N: n})
		} else if r.Intn(3) == 0 {
			steps = append(steps, step{Op: "half", Side: s})
			sending[s] = false
		}
		if r.Intn(3) == 0 {
			steps = append(steps, step{Op: "sync"})
		}
	}
	leaveOpen := allowOpen && r.Intn(2) == 0
	if !leaveOpen {
		// finish: remaining budget, then half-close, for the peers still sending
		for _, s := range []string{"A", "B"} {
			if sending[s] {
				if budget[s] > 0 {
					steps = append(steps, step{Op: "w", Side: s, N: budget[s]})
				}
				steps = append(steps, step{Op: "half", Side: s})
			}
		}
	} else {
		steps = append(steps, step{Op: "sync"})
	}
	in := noFaults(steps, int64(r.Int31()))
	in.Chunk = r.Intn(2) == 0
	if r.Intn(3) == 0 {
		in.MaxRead = 1 + r.Intn(64)
	}
	if kind == 8 || kind == 9 {
		pos := r.Intn(200)
		switch r.Intn(4) {
		case 0:
			in.FailWFirst = pos
		case 1:
			in.FailWSecond = pos
		case 2:
			in.FailRFirst = pos
		default:
			in.FailRSecond = pos
		}
	}
	if !session && !leaveOpen {
		in.Steps = ensureTrigger(in.Steps)
	}
	return in
}

// parallelMap runs f over n indices with a bounded number of workers and returns the
// results in index order (the trace stays deterministic).
func parallelMap(n, workers int, f func(i int) map[string]any) []map[string]any {
	out := make([]map[string]any, n)
	var wg sync.WaitGroup
	var next int32 = -1
	for w := 0; w < workers; w++ {
		wg.Add(1)
		go func() {
			defer wg.Done()
			for {
				i := int(atomic.AddInt32(&next, 1))
				if i >= n {
					return
				}
				out[i] = f(i)
			}
		}()
	}
	wg.Wait()
	return out
}
