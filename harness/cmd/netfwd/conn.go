package main

// In-memory, half-closable connections with TCP-like semantics, written for the
// C33 binding. A link joins two ends; each direction is an unbounded byte queue.
//
//	CloseWrite / Close by the writer : the reader sees EOF after the pending data
//	Close by the reader              : the writer's writes fail (broken pipe)
//	Reset                            : reads and writes of the other end fail at once
//	local Close                      : every later operation fails, a blocked Read returns
//
// Every end keeps a journal of what was done through it (bytes accepted by Write,
// CloseWrite, Close, errors handed to the caller). The journal of the end that is
// given to mutagen is the wire tap the verdicts are computed from; nothing in
// this file judges anything.

import (
	"errors"
	"io"
	"math/rand"
	"net"
	"sync"
	"time"
)

var (
	errClosedEnd = errors.New("harness conn: use of closed connection")
	errPipe      = errors.New("harness conn: broken pipe")
	errReset     = errors.New("harness conn: connection reset by peer")
	errInjected  = errors.New("harness conn: injected i/o error")
	errWriteShut = errors.New("harness conn: write after CloseWrite")
)

// queue is one direction of a link.
type queue struct {
	buf        []byte
	eof        bool // the writer ended cleanly
	reset      bool // the link was reset
	readerGone bool // the reader closed its end
}

// link joins two ends.
type link struct {
	mu   sync.Mutex
	cond *sync.Cond
	q    [2]queue // q[0]: end0 -> end1, q[1]: end1 -> end0
}

// end is one side of a link; it implements net.Conn and stream.CloseWriter.
type end struct {
	l       *link
	out, in *queue
	name    string

	// behaviour knobs (set before use)
	rng         *rand.Rand // chunking of Read; nil = return everything available
	maxRead     int        // upper bound of one Read (0 = none)
	failWriteAt int        // >= 0: the Write that would carry the total beyond this many bytes is cut there and fails
	failReadAt  int        // >= 0: a Read fails once this many bytes have been read

	// journal (guarded by l.mu)
	closed     bool
	wclosed    bool
	written    []byte // bytes accepted by Write
	nread      int
	cw         bool // CloseWrite was called while the end was open
	cwLate     bool // CloseWrite was called after Close
	closes     int
	ioErr      bool // a Read/Write returned an error that was not caused by this end's own Close/CloseWrite
	eofSeen    bool // a Read returned io.EOF
	shortWrite bool // a Write accepted fewer bytes than offered
	ops        int
}

func newLink(nameA, nameB string) (*end, *end) {
	l := &link{}
	l.cond = sync.NewCond(&l.mu)
	a := &end{l: l, out: &l.q[0], in: &l.q[1], name: nameA, failWriteAt: -1, failReadAt: -1}
	b := &end{l: l, out: &l.q[1], in: &l.q[0], name: nameB, failWriteAt: -1, failReadAt: -1}
	return a, b
}

func (e *end) Read(p []byte) (int, error) {
	e.l.mu.Lock()
	defer e.l.mu.Unlock()
	e.ops++
	for {
		if e.closed {
			return 0, errClosedEnd
		}
		if e.failReadAt >= 0 && e.nread >= e.failReadAt {
			e.ioErr = true
			return 0, errInjected
		}
		if e.in.reset {
			e.ioErr = true
			return 0, errReset
		}
		if len(e.in.buf) > 0 {
			n := len(e.in.buf)
			if n > len(p) {
				n = len(p)
			}
			if e.maxRead > 0 && n > e.maxRead {
				n = e.maxRead
			}
			if e.rng != nil && n > 1 && e.rng.Intn(3) == 0 {
				n = 1 + e.rng.Intn(n)
			}
			if e.failReadAt >= 0 && e.nread+n > e.failReadAt {
				n = e.failReadAt - e.nread
			}
			copy(p, e.in.buf[:n])
			e.in.buf = e.in.buf[n:]
			e.nread += n
			return n, nil
		}
		if e.in.eof {
			e.eofSeen = true
			return 0, io.EOF
		}
		if len(p) == 0 {
			return 0, nil
		}
		e.l.cond.Wait()
	}
}

func (e *end) Write(p []byte) (int, error) {
	e.l.mu.Lock()
	defer e.l.mu.Unlock()
	e.ops++
	if e.closed {
		return 0, errClosedEnd
	}
	if e.wclosed {
		return 0, errWriteShut
	}
	if e.out.reset {
		e.ioErr = true
		return 0, errReset
	}
	if e.out.readerGone {
		e.ioErr = true
		return 0, errPipe
	}
	n := len(p)
	var err error
	if e.failWriteAt >= 0 && len(e.written)+n > e.failWriteAt {
		n = e.failWriteAt - len(e.written)
		if n < 0 {
			n = 0
		}
		err = errInjected
		e.ioErr = true
		e.shortWrite = true
	}
	e.out.buf = append(e.out.buf, p[:n]...)
	e.written = append(e.written, p[:n]...)
	e.l.cond.Broadcast()
	return n, err
}

// CloseWrite half-closes the end.
func (e *end) CloseWrite() error {
	e.l.mu.Lock()
	defer e.l.mu.Unlock()
	e.ops++
	if e.closed {
		e.cwLate = true
		return errClosedEnd
	}
	e.cw = true
	e.wclosed = true
	e.out.eof = true
	e.l.cond.Broadcast()
	return nil
}

func (e *end) Close() error {
	e.l.mu.Lock()
	defer e.l.mu.Unlock()
	e.ops++
	e.closes++
	if e.closed {
		return errClosedEnd
	}
	e.closed = true
	e.out.eof = true
	e.in.readerGone = true
	e.l.cond.Broadcast()
	return nil
}

// Reset breaks the link in both directions (harness peers only).
func (e *end) Reset() {
	e.l.mu.Lock()
	defer e.l.mu.Unlock()
	e.closed = true
	e.l.q[0].reset = true
	e.l.q[1].reset = true
	e.l.cond.Broadcast()
}

type hAddr string

func (a hAddr) Network() string { return "harness" }
func (a hAddr) String() string  { return string(a) }

func (e *end) LocalAddr() net.Addr                { return hAddr(e.name) }
func (e *end) RemoteAddr() net.Addr               { return hAddr(e.name + "-peer") }
func (e *end) SetDeadline(t time.Time) error      { return nil }
func (e *end) SetReadDeadline(t time.Time) error  { return nil }
func (e *end) SetWriteDeadline(t time.Time) error { return nil }

// snapshot of the journal.
type endObs struct {
	written    []byte
	nread      int
	cw         bool
	cwLate     bool
	closed     bool
	closes     int
	ioErr      bool
	eofSeen    bool
	shortWrite bool
	ops        int
}

func (e *end) obs() endObs {
	e.l.mu.Lock()
	defer e.l.mu.Unlock()
	return endObs{written: append([]byte{}, e.written...), nread: e.nread, cw: e.cw, cwLate: e.cwLate, closed: e.closed,
		closes: e.closes, ioErr: e.ioErr, eofSeen: e.eofSeen, shortWrite: e.shortWrite, ops: e.ops}
}

func (e *end) writtenLen() int {
	e.l.mu.Lock()
	defer e.l.mu.Unlock()
	return len(e.written)
}

func (e *end) isClosed() bool {
	e.l.mu.Lock()
	defer e.l.mu.Unlock()
	return e.closed
}

// pending reports how many bytes are queued towards this end and not yet read by it.
func (e *end) pending() int {
	e.l.mu.Lock()
	defer e.l.mu.Unlock()
	return len(e.in.buf)
}

// sink drains an end in the background, the way a peer application would.
type sink struct {
	mu   sync.Mutex
	got  []byte
	end  string // "" while reading, then "eof" | "err"
	done chan struct{}
}

func drain(e *end) *sink {
	s := &sink{done: make(chan struct{})}
	go func() {
		defer close(s.done)
		buf := make([]byte, 4096)
		for {
			n, err := e.Read(buf)
			s.mu.Lock()
			s.got = append(s.got, buf[:n]...)
			if err != nil {
				if err == io.EOF {
					s.end = "eof"
				} else {
					s.end = "err"
				}
				s.mu.Unlock()
				return
			}
			s.mu.Unlock()
		}
	}()
	return s
}

func (s *sink) snapshot() ([]byte, string) {
	s.mu.Lock()
	defer s.mu.Unlock()
	return append([]byte{}, s.got...), s.end
}

func (s *sink) length() int {
	s.mu.Lock()
	defer s.mu.Unlock()
	return len(s.got)
}
