// Command netfwd is the conformance driver of the netfwd family:
//
//	C33  forwarding.ForwardAndClose and a real forwarding session (Manager, controller)
//	     over in-memory half-closable connections      -> spec/netfwd/Forwarding_Trace.tla
//	C34  agent / version handshakes over a byte-mangling carrier and against crafted
//	     peers                                          -> spec/netfwd/Handshake_Trace.tla
//
// The driver records what it did and what it observed; every verdict is computed by
// TLC from the TLA+ property operators.
package main

import (
	"encoding/json"
	"fmt"
	"math/rand"
	"path/filepath"
	"strconv"
	"strings"
	"sync"

	"verif/harness/internal/vlib"
)

func main() { vlib.Main(run, replay) }

func argInt(c *vlib.Ctx, name string, def int) int {
	for _, a := range c.Args {
		if strings.HasPrefix(a, name+"=") {
			if n, err := strconv.Atoi(a[len(name)+1:]); err == nil {
				return n
			}
		}
	}
	return def
}

func run(c *vlib.Ctx) error {
	switch c.Prop {
	case "C33":
		return runC33(c)
	case "C34":
		return runC34(c)
	}
	return fmt.Errorf("netfwd: unknown property %s", c.Prop)
}

func toGeneric(v any) map[string]any { return vlib.ToMap(v) }

func fp(v any) string {
	b, _ := json.Marshal(v)
	return string(b)
}

// ---------------------------------------------------------------------------
// C33

func emitConn(c *vlib.Ctx, cid int, in connIn, obs map[string]any) {
	rec := map[string]any{"ev": "Conn", "cid": cid, "in": map[string]any{"kind": "direct", "conn": toGeneric(in)}}
	for k, v := range obs {
		rec[k] = v
	}
	c.Emit(rec)
	c.Eval()
	if len(obs["wrFirst"].(string))+len(obs["wrSecond"].(string)) > 0 || obs["cwFirst"].(bool) || obs["cwSecond"].(bool) {
		c.NonTrivial(fp(in.Steps) + fmt.Sprint(in.FailWFirst, in.FailWSecond, in.FailRFirst, in.FailRSecond, in.MaxRead))
	}
}

func emitSession(c *vlib.Ctx, cid int, in sessIn, obs map[string]any) {
	rec := map[string]any{"ev": "Session", "cid": cid, "in": toGeneric(in)}
	for k, v := range obs {
		rec[k] = v
	}
	c.Emit(rec)
	c.Eval()
	if tf, ok := obs["toFirst"].(int); ok {
		if ts, _ := obs["toSecond"].(int); tf+ts > 0 {
			c.NonTrivial(fmt.Sprintf("session-%d-%s", in.Seed, in.Halt))
		}
	}
	if conns, ok := obs["conns"].([]any); ok {
		c.AddExtra("session_connections", len(conns))
	}
}

func genSession(r *rand.Rand, nconn int, halt string) sessIn {
	in := sessIn{Kind: "session", Seed: int64(r.Int31()), Halt: halt, Snaps: 3}
	for i := 0; i < nconn; i++ {
		open := halt != "none" && r.Intn(3) == 0
		ci := randomScript(r, true, false)
		if open {
			// a connection that stays in flight: some traffic, no end
			var steps []step
			for _, s := range ci.Steps {
				if s.Op == "w" || s.Op == "sync" {
					steps = append(steps, s)
				}
			}
			steps = append(steps, step{Op: "sync"})
			ci = noFaults(steps, ci.Seed)
		}
		in.Conns = append(in.Conns, ci)
		in.Open = append(in.Open, open)
	}
	if halt != "none" && nconn > 0 {
		// at least one connection in flight when the session is halted
		has := false
		for _, o := range in.Open {
			has = has || o
		}
		if !has {
			in.Conns[0] = noFaults([]step{{Op: "w", Side: "A", N: 5}, {Op: "w", Side: "B", N: 3}, {Op: "sync"}}, in.Seed)
			in.Open[0] = true
		}
	}
	return in
}

func runC33(c *vlib.Ctx) error {
	maxLen, nRandom, nSess, connsPer := 2, 300, 10, 14
	if c.Thorough() {
		maxLen, nRandom, nSess, connsPer = 3, 4000, 60, 40
	}
	maxLen = argInt(c, "maxlen", maxLen)
	nRandom = argInt(c, "random", nRandom)
	nSess = argInt(c, "sessions", nSess)
	connsPer = argInt(c, "conns", connsPer)
	workers := argInt(c, "workers", 6)

	// 1. the model's environment behaviours, on the real ForwardAndClose
	var cases []connIn
	for _, s := range systematicScripts(maxLen) {
		if c.Thorough() {
			cases = append(cases, noFaults(s, int64(c.Rand.Int31())), noFaults(withSyncs(s), int64(c.Rand.Int31())))
		} else if c.Rand.Intn(2) == 0 {
			cases = append(cases, noFaults(withSyncs(s), int64(c.Rand.Int31())))
		} else {
			cases = append(cases, noFaults(s, int64(c.Rand.Int31())))
		}
	}
	nSys := len(cases)
	// 2. random scripts beyond the bound
	for i := 0; i < nRandom; i++ {
		cases = append(cases, randomScript(c.Rand, false, false))
	}
	// 3. sessions (generated now so that the script stream does not depend on scheduling)
	halts := []string{"none", "none", "pause", "none", "terminate", "none", "stop", "none", "dialfail", "none"}
	var sessions []sessIn
	for i := 0; i < nSess; i++ {
		n := connsPer/2 + c.Rand.Intn(connsPer+1)
		sessions = append(sessions, genSession(c.Rand, n, halts[i%len(halts)]))
	}

	obs := parallelMap(len(cases), workers, func(i int) map[string]any { return runDirect(cases[i]) })
	cid := 0
	for i, o := range obs {
		cid++
		emitConn(c, cid, cases[i], o)
		if i == 0 || i == nSys-1 || i == len(cases)-1 {
			c.Sample(map[string]any{"steps": cases[i].Steps, "wrFirst": o["wrFirst"], "wrSecond": o["wrSecond"],
				"cwFirst": o["cwFirst"], "cwSecond": o["cwSecond"], "returned": o["returned"]})
		}
	}
	c.SetExtra("systematic_scripts", nSys)
	c.SetExtra("random_scripts", nRandom)

	w, err := newSessWorld(filepath.Join(c.TempDir("fwd"), "data"))
	if err != nil {
		return fmt.Errorf("forwarding manager: %v", err)
	}
	sobs := make([]map[string]any, len(sessions))
	var wg sync.WaitGroup
	sem := make(chan struct{}, 12)
	for i := range sessions {
		wg.Add(1)
		go func(i int) {
			defer wg.Done()
			sem <- struct{}{}
			sobs[i] = w.runSession(sessions[i])
			<-sem
		}(i)
	}
	wg.Wait()
	w.mgr.Shutdown()
	for i, o := range sobs {
		cid++
		if msg, bad := o["infra"]; bad {
			return fmt.Errorf("session %d: %v", i, msg)
		}
		emitSession(c, cid, sessions[i], o)
		if i == 0 {
			c.Sample(map[string]any{"session": sessions[i].Halt, "final": o["final"], "accepted": o["accepted"],
				"toFirst": o["toFirst"], "toSecond": o["toSecond"]})
		}
		c.TraceDone()
	}
	c.SetExtra("sessions", len(sessions))
	c.SetExtra("watchdog_expiries", int(expiries))
	c.SetExtra("catchup_waits_given_up", int(syncTimeouts))
	return nil
}

// ---------------------------------------------------------------------------
// C34

func emitHS(c *vlib.Ctx, cid int, in hsCase, obs map[string]any) {
	rec := map[string]any{"ev": "Handshake", "cid": cid, "in": toGeneric(in)}
	for k, v := range obs {
		rec[k] = v
	}
	c.Emit(rec)
	c.Eval()
	c.NonTrivial(fp(in))
}

func randomHS(r *rand.Rand, base []int) hsCase {
	layer := []string{"magic", "version", "full"}[r.Intn(3)]
	hc := hsCase{Layer: layer, Smagic: magicS, Cmagic: magicC, Sver: base, Cver: base, P: noP(), Real: "both"}
	dir := []string{"s2c", "c2s"}[r.Intn(2)]
	switch k := r.Intn(6); {
	case k == 0:
		hc.P = perturb{Kind: "corrupt", Dir: dir, Off: r.Intn(streamLen(layer)), Delta: 1 + r.Intn(255), Bytes: []int{}}
	case k == 1:
		hc.P = perturb{Kind: "trunc", Dir: dir, Off: r.Intn(streamLen(layer)), Bytes: []int{}}
	case k == 2 && hasVersion(layer):
		f := 1 + r.Intn(3)
		v := []int{r.Intn(256), r.Intn(256), r.Intn(256), r.Intn(256)}
		if r.Intn(2) == 0 {
			v = enc32(base[f-1] + 1 + r.Intn(3))
		}
		if !eqInts(v, enc32(base[f-1])) {
			hc.P = perturb{Kind: "rewrite", Dir: dir, Off: f, Bytes: v}
		}
	case k == 3 && hasVersion(layer):
		v := []int{base[0], base[1], base[2]}
		v[r.Intn(3)] = r.Intn(1 << 30)
		if !eqInts(v, base) {
			if r.Intn(2) == 0 {
				hc.Sver, hc.Real = v, "client"
			} else {
				hc.Cver, hc.Real = v, "server"
			}
		}
	case k == 4 && hasMagic(layer):
		m := []int{r.Intn(256), r.Intn(256), r.Intn(256)}
		if r.Intn(2) == 0 {
			if !eqInts(m, magicS) {
				hc.Smagic, hc.Real = m, "client"
			}
		} else if !eqInts(m, magicC) {
			hc.Cmagic, hc.Real = m, "server"
		}
	}
	return hc
}

func runC34(c *vlib.Ctx) error {
	base := realVersion()
	t := quickTables()
	nRandom := 200
	if c.Thorough() {
		t.deltas = nil
		for d := 1; d <= 255; d++ {
			t.deltas = append(t.deltas, d)
		}
		nRandom = 3000
	}
	nRandom = argInt(c, "random", nRandom)
	cases := boundCases(t, base)
	nBound := len(cases)
	for i := 0; i < nRandom; i++ {
		cases = append(cases, randomHS(c.Rand, base))
	}
	obs := parallelMap(len(cases), argInt(c, "workers", 6), func(i int) map[string]any { return runHandshake(cases[i]) })
	for i, o := range obs {
		emitHS(c, i+1, cases[i], o)
		if i == 0 || i == nBound-1 || i == len(cases)-1 {
			c.Sample(map[string]any{"case": cases[i], "cOK": o["cOK"], "sOK": o["sOK"], "cNext": o["cNext"], "sNext": o["sNext"]})
		}
	}
	c.SetExtra("bound_cases", nBound)
	c.SetExtra("random_cases", nRandom)
	c.SetExtra("real_version", base)
	c.SetExtra("watchdog_expiries", int(expiries))
	c.SetExhaustive(true)
	return nil
}

// ---------------------------------------------------------------------------
// replay of one recorded case

func replay(c *vlib.Ctx) error {
	doc := c.LoadReplay()
	begin, _ := doc["begin"].(map[string]any)
	if begin == nil {
		return fmt.Errorf("replay file has no begin record")
	}
	in, _ := begin["in"].(map[string]any)
	switch begin["ev"] {
	case "Conn":
		var ci connIn
		vlib.Decode(in["conn"], &ci)
		emitConn(c, 1, ci, runDirect(ci))
	case "Session":
		var si sessIn
		vlib.Decode(in, &si)
		w, err := newSessWorld(filepath.Join(c.TempDir("fwd"), "data"))
		if err != nil {
			return err
		}
		o := w.runSession(si)
		w.mgr.Shutdown()
		if msg, bad := o["infra"]; bad {
			return fmt.Errorf("session: %v", msg)
		}
		emitSession(c, 1, si, o)
	case "Handshake":
		var hc hsCase
		vlib.Decode(in, &hc)
		if hc.P.Bytes == nil {
			hc.P.Bytes = []int{}
		}
		emitHS(c, 1, hc, runHandshake(hc))
	default:
		return fmt.Errorf("unknown record kind %v", begin["ev"])
	}
	return nil
}
