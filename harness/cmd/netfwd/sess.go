package main

// C33, part 2: a real forwarding session (forwarding.Manager, controller, run loop,
// forward, ForwardAndClose) over harness endpoints registered in the exported
// forwarding.ProtocolHandlers registry. The driver offers connections to the
// source endpoint, lets scripts play on them concurrently, reads the session
// statistics through Manager.List and keeps its own ledger at the endpoints and
// in the connection journals.

import (
	"context"
	"errors"
	"fmt"
	"math/rand"
	"net"
	"os"
	"path/filepath"
	"sync"
	"sync/atomic"
	"time"

	"github.com/mutagen-io/mutagen/pkg/forwarding"
	"github.com/mutagen-io/mutagen/pkg/logging"
	"github.com/mutagen-io/mutagen/pkg/selection"
	urlpkg "github.com/mutagen-io/mutagen/pkg/url"
)

type sessIn struct {
	Kind  string   `json:"kind"`
	Seed  int64    `json:"seed"`
	Conns []connIn `json:"conns"`
	Open  []bool   `json:"open"` // connections whose script leaves them in flight
	Halt  string   `json:"halt"` // none | pause | terminate | stop | dialfail
	Snaps int      `json:"snaps"`
}

type outItem struct {
	conn net.Conn
	err  error
}

// sessHarness is what the endpoints of one session talk to.
type sessHarness struct {
	path      string
	incoming  chan net.Conn
	outgoing  chan outItem
	accepted  int32 // successful destination opens (the ledger's connection count)
	srcOpens  int32
	connects  int32
	shutdowns int32
	stop      chan struct{} // makes the first generation's source endpoint fail
	stopOnce  sync.Once
}

type fwdEndpoint struct {
	h      *sessHarness
	source bool
	first  bool // belongs to the first generation of endpoints of the session
	shut   chan struct{}
	once   sync.Once
}

func (e *fwdEndpoint) TransportErrors() <-chan error { return nil }

func (e *fwdEndpoint) Open() (net.Conn, error) {
	if e.source {
		var stop chan struct{}
		if e.first {
			stop = e.h.stop
		}
		select {
		case c := <-e.h.incoming:
			atomic.AddInt32(&e.h.srcOpens, 1)
			return c, nil
		case <-e.shut:
			return nil, errors.New("harness endpoint: shut down")
		case <-stop:
			return nil, errors.New("harness endpoint: listener failed")
		}
	}
	select {
	case it := <-e.h.outgoing:
		if it.err != nil {
			return nil, it.err
		}
		atomic.AddInt32(&e.h.accepted, 1)
		return it.conn, nil
	case <-e.shut:
		return nil, errors.New("harness endpoint: shut down")
	}
}

func (e *fwdEndpoint) Shutdown() error {
	e.once.Do(func() {
		atomic.AddInt32(&e.h.shutdowns, 1)
		close(e.shut)
	})
	return nil
}

// registry of harnesses by URL path; one protocol handler serves them all.
type fwdHandler struct {
	mu sync.Mutex
	hs map[string]*sessHarness
}

func (p *fwdHandler) Connect(_ context.Context, _ *logging.Logger, url *urlpkg.URL, _ string, _ string,
	_ forwarding.Version, _ *forwarding.Configuration, source bool) (forwarding.Endpoint, error) {
	p.mu.Lock()
	h := p.hs[url.Path]
	p.mu.Unlock()
	if h == nil {
		return nil, fmt.Errorf("harness: unknown endpoint %q", url.Path)
	}
	n := atomic.AddInt32(&h.connects, 1)
	return &fwdEndpoint{h: h, source: source, first: n <= 2, shut: make(chan struct{})}, nil
}

type sessWorld struct {
	mgr     *forwarding.Manager
	handler *fwdHandler
	n       int32
}

func newSessWorld(dataDir string) (*sessWorld, error) {
	if abs, err := filepath.Abs(dataDir); err == nil {
		dataDir = abs
	}
	if err := os.MkdirAll(dataDir, 0o700); err != nil {
		return nil, err
	}
	os.Setenv("MUTAGEN_DATA_DIRECTORY", dataDir)
	h := &fwdHandler{hs: map[string]*sessHarness{}}
	forwarding.ProtocolHandlers[urlpkg.Protocol_Local] = h
	var logger *logging.Logger
	if os.Getenv("VERIF_NETFWD_DEBUG") != "" {
		logger = logging.NewLogger(logging.LevelTrace, os.Stderr)
	}
	mgr, err := forwarding.NewManager(logger)
	if err != nil {
		return nil, err
	}
	return &sessWorld{mgr: mgr, handler: h}, nil
}

type counters struct{ open, total, inb, outb, status int }

// rec renders a reading; values are clamped to what TLC's 32-bit integers can hold (a wrapped
// unsigned counter becomes 2^31-1).
func (c counters) rec() map[string]any {
	cl := func(v int) int {
		if v < 0 || v > 1<<31-1 {
			return 1<<31 - 1
		}
		return v
	}
	return map[string]any{"open": cl(c.open), "total": cl(c.total), "inb": cl(c.inb), "outb": cl(c.outb), "status": c.status}
}

func (w *sessWorld) read(id string) (counters, error) {
	ctx, cancel := context.WithTimeout(context.Background(), 10*time.Second)
	defer cancel()
	_, states, err := w.mgr.List(ctx, &selection.Selection{Specifications: []string{id}}, 0)
	if err != nil {
		return counters{}, err
	}
	if len(states) != 1 {
		return counters{}, fmt.Errorf("%d states", len(states))
	}
	s := states[0]
	return counters{int(s.OpenConnections), int(s.TotalConnections), int(s.TotalInboundData), int(s.TotalOutboundData), int(s.Status)}, nil
}

// stableReading polls List until the statistics have not changed for 1.5 s.
func (w *sessWorld) stableReading(id string) (counters, bool, error) {
	start := time.Now()
	last, lastChange := counters{-1, -1, -1, -1, -1}, time.Now()
	for time.Since(start) < 15*time.Second {
		cs, err := w.read(id)
		if err != nil {
			return last, false, err
		}
		if cs != last {
			last, lastChange = cs, time.Now()
		} else if time.Since(lastChange) >= 1500*time.Millisecond {
			return last, true, nil
		}
		time.Sleep(20 * time.Millisecond)
	}
	return last, false, nil
}

func bothClosed(c *connRun) bool { return c.fwd[0].isClosed() && c.fwd[1].isClosed() }

// waitClosed waits until the forwarder has closed both connections of every listed run.
func waitClosed(runs []*connRun, which func(i int) bool) bool {
	deadline := time.Now().Add(watchdog())
	for {
		all := true
		for i, c := range runs {
			if which(i) && !bothClosed(c) {
				all = false
				break
			}
		}
		if all {
			return true
		}
		if time.Now().After(deadline) {
			atomic.AddInt32(&expiries, 1)
			return false
		}
		time.Sleep(300 * time.Microsecond)
	}
}

// runSession plays one session script.
func (w *sessWorld) runSession(in sessIn) map[string]any {
	rec := map[string]any{}
	infra := func(what string) map[string]any {
		rec["infra"] = ascii(what)
		return rec
	}
	k := atomic.AddInt32(&w.n, 1)
	h := &sessHarness{path: fmt.Sprintf("tcp:harness:%d", k), incoming: make(chan net.Conn, len(in.Conns)+2),
		outgoing: make(chan outItem, len(in.Conns)+2), stop: make(chan struct{})}
	w.handler.mu.Lock()
	w.handler.hs[h.path] = h
	w.handler.mu.Unlock()
	src := &urlpkg.URL{Kind: urlpkg.Kind_Forwarding, Protocol: urlpkg.Protocol_Local, Path: h.path}
	dst := &urlpkg.URL{Kind: urlpkg.Kind_Forwarding, Protocol: urlpkg.Protocol_Local, Path: h.path}
	ctx := context.Background()
	id, err := w.mgr.Create(ctx, src, dst, &forwarding.Configuration{}, &forwarding.Configuration{}, &forwarding.Configuration{},
		"", nil, false, "")
	if err != nil {
		return infra("create: " + err.Error())
	}
	sel := &selection.Selection{Specifications: []string{id}}
	terminated := false
	defer func() {
		if !terminated {
			tctx, cancel := context.WithTimeout(context.Background(), 20*time.Second)
			w.mgr.Terminate(tctx, sel, "")
			cancel()
		}
	}()

	r := rand.New(rand.NewSource(in.Seed))
	runs := make([]*connRun, len(in.Conns))
	var wg sync.WaitGroup
	never := make(chan struct{})
	// snapshots taken while connections are in flight: the reading, then the ledger
	var snapMu sync.Mutex
	snaps := []any{}
	ledger := func() (int, int, int) {
		acc := int(atomic.LoadInt32(&h.accepted))
		toFirst, toSecond := 0, 0
		for _, c := range runs {
			if c != nil {
				toFirst += c.fwd[0].writtenLen()
				toSecond += c.fwd[1].writtenLen()
			}
		}
		return acc, toFirst, toSecond
	}
	var runsMu sync.Mutex
	takeSnap := func() {
		cs, err := w.read(id)
		if err != nil {
			return
		}
		runsMu.Lock()
		acc, tf, ts := ledger()
		runsMu.Unlock()
		m := cs.rec()
		m["accAfter"], m["toFirstAfter"], m["toSecondAfter"] = acc, tf, ts
		snapMu.Lock()
		snaps = append(snaps, m)
		snapMu.Unlock()
	}
	snapAt := map[int]bool{}
	for i := 0; i < in.Snaps && len(in.Conns) > 0; i++ {
		snapAt[r.Intn(len(in.Conns))] = true
	}
	for i, ci := range in.Conns {
		c := newConnRun(ci)
		runsMu.Lock()
		runs[i] = c
		runsMu.Unlock()
		h.outgoing <- outItem{conn: c.fwd[1]}
		h.incoming <- c.fwd[0]
		wg.Add(1)
		go func() {
			defer wg.Done()
			c.exec(nil, never)
		}()
		if snapAt[i] {
			takeSnap()
		}
	}
	execDone := make(chan struct{})
	go func() { wg.Wait(); close(execDone) }()
	select {
	case <-execDone:
	case <-time.After(30 * time.Second):
		return infra("scripts did not finish")
	}
	takeSnap()

	// connections whose script ends them must now be closed by the forwarder
	settled := waitClosed(runs, func(i int) bool { return !in.Open[i] })

	// a stable reading: unchanged for 1.5 s (bounded by 15 s)
	final, stable, err := w.stableReading(id)
	if err != nil {
		return infra("list: " + err.Error())
	}
	acc, toFirst, toSecond := ledger()
	stillOpen := 0
	for _, c := range runs {
		if !bothClosed(c) {
			stillOpen++
		}
	}
	rec["final"] = final.rec()
	rec["stable"] = stable
	rec["settled"] = settled
	rec["accepted"] = acc
	rec["toFirst"] = toFirst
	rec["toSecond"] = toSecond
	rec["stillOpen"] = stillOpen

	// halting with connections in flight
	halted := false
	haltErr := ""
	orphan := map[string]any{}
	switch in.Halt {
	case "pause", "terminate":
		hctx, cancel := context.WithTimeout(context.Background(), 30*time.Second)
		var err error
		if in.Halt == "pause" {
			err = w.mgr.Pause(hctx, sel, "")
		} else {
			err = w.mgr.Terminate(hctx, sel, "")
			terminated = err == nil
		}
		cancel()
		if err != nil {
			haltErr = ascii(err.Error())
		}
		halted = true
	case "stop":
		h.stopOnce.Do(func() { close(h.stop) })
		halted = true
	case "dialfail":
		a, b := newLink("peerA", "first")
		h.outgoing <- outItem{err: errors.New("harness endpoint: dial refused")}
		h.incoming <- b
		halted = true
		// forward closes the accepted connection it cannot forward
		deadline := time.Now().Add(watchdog())
		for !b.isClosed() && time.Now().Before(deadline) {
			time.Sleep(300 * time.Microsecond)
		}
		orphan["closed"] = b.isClosed()
		a.Close()
	}
	haltClosed := true
	if halted {
		haltClosed = waitClosed(runs, func(i int) bool { return true })
	}
	// what the session reports once the forwarding loop that carried the connections is gone
	// (paused, or replaced after a listener / dial failure)
	after := map[string]any{}
	if halted && in.Halt != "terminate" {
		if cs, st, err := w.stableReading(id); err == nil && st {
			after = cs.rec()
		}
	}
	rec["afterHalt"] = after
	rec["halted"] = halted
	rec["haltErr"] = haltErr
	rec["haltClosed"] = haltClosed
	rec["orphan"] = orphan
	conns := []any{}
	for _, c := range runs {
		conns = append(conns, c.observe())
	}
	rec["conns"] = conns
	snapMu.Lock()
	rec["snaps"] = snaps
	snapMu.Unlock()
	rec["shutdowns"] = int(atomic.LoadInt32(&h.shutdowns))
	// leave nothing blocked
	for _, c := range runs {
		if !bothClosed(c) {
			c.peer[0].Reset()
			c.peer[1].Reset()
		}
	}
	return rec
}

func ascii(s string) string {
	b := []byte(s)
	for i, c := range b {
		if c < 0x20 || c > 0x7e || c == '"' || c == '\\' {
			b[i] = '?'
		}
	}
	if len(b) > 160 {
		b = b[:160]
	}
	return string(b)
}
