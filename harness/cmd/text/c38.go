package main

// C38: endpoint URLs round-trip through their text form. For every token
// string of the bound (spec/text/UrlText_MC*.cfg) and for seeded random richer
// strings the driver calls the real url.Parse, EnsureValid, Format and Parse
// again and records the four results.

import (
	"fmt"
	"os"
	"strings"

	"github.com/mutagen-io/mutagen/pkg/url"

	"verif/harness/internal/vlib"
)

// c38Tokens is the canonical token order of spec/text/UrlText_Trace.tla
// (TokOrder).
var c38Tokens = []string{"a", "@", ":", "/", "0", "8", "~", "unix", "tcp"}

// The grammar domain of spec/text/UrlText.tla (GUser, GHost, GPort, GSep,
// GPath), in the same order.
var c38Gram = [5][][]string{
	{{}, {"@"}, {"a", "@"}, {"a", "@", "a", "@"}, {"-", "a", "@"}},
	{{"a"}, {"unix"}, {"-", "a"}, {}},
	{{}, {":"}, {":", "0"}, {":", "8"}, {":", "0", "0"}, {":", "0", "8"}, {":", "8", "0"}, {":", "8", "8", "8", "8", "8"}, {":", "a"}},
	{{":"}, {"/"}},
	{{}, {"a"}, {"/", "a"}, {"/"}, {"~"}, {"~", "/", "a"}, {"/", "~", "a"}, {"8", ":", "a"}, {"8", "0", ":", "a"}, {":", "a"},
		{":"}, {"0", ":"}, {"unix", ":", "a"}, {"unix", ":", "/", "a"}, {"unix", ":", "~", "/", "a"}, {"tcp", ":", ":", "8"},
		{"tcp", ":"}, {"a", ":", "/", "a"}, {"~", "a", ":", "/"}, {"/", "/", "a", "/"}},
}

var c38SUser = [][]string{{}, {"a", "@"}}
var c38SHost = []string{"docker", "DOCKER", "Docker", "ssh", "tcp", "unix"}
var c38SPort = [][]string{{}, {":", "0"}, {":", "0", "0"}, {":", "8"}}
var c38SPath = [][]string{{"/", "/", "a", "/", "a"}, {"/", "/"}, {"/", "a"}, {"~"}, {"8", ":", "a"}, {"a"}, {"tcp", ":", "a", ":", "8"}}
var c38CaseProto = []string{"tcp", "TCP", "Tcp", "tcp4", "TCP4", "Tcp4", "tcp6", "unix", "UNIX", "Unix", "npipe", "NPIPE", "Npipe"}
var c38CaseAddr = [][]string{{"a"}, {"/", "a"}, {"~", "/", "a"}, {"~", "a", "/", "a"}, {"a", ":", "/", "a"}, {"a", ":", "8"}, {}}
var c38CaseHead = [][]string{{}, {"a", ":"}, {"a", "@", "a", ":"}, {"a", ":", "8", ":"}, {"docker://", "a", ":"}, {"DOCKER://", "a", ":"},
	{"Docker://", "a", "@", "a", ":"}, {"DOCKER://", "a", "/"}, {"Docker://", "a", "/"}}

var c38Random = []string{"docker", "docker:0:", "Docker:", "ssh", "UNIX", "Unix", "TCP", "Npipe", "a", "b", "host", "user", "@", ":", "/", "\\", "0", "8", "22", "65535", "65536", "00", "~", "~/",
	"C", "c:/", "C:\\", "tcp", "tcp4", "tcp6", "unix", "npipe", "localhost", "[::1]", ".", "..", "-", "-o", "=", " ", "%",
	"docker://", "DOCKER://", "Docker://", "ssh://", "#", "?", "x.sock", "\\\\.\\pipe\\p"}

func c38Kind(k string) url.Kind {
	if k == "fwd" {
		return url.Kind_Forwarding
	}
	return url.Kind_Synchronization
}

func encURL(u *url.URL) map[string]any {
	if u == nil {
		return map[string]any{}
	}
	kind := "sync"
	if u.Kind == url.Kind_Forwarding {
		kind = "fwd"
	}
	proto, _ := u.Protocol.MarshalText()
	env := map[string]any{}
	for k, v := range u.Environment {
		env[k] = ascii(v)
	}
	par := map[string]any{}
	for k, v := range u.Parameters {
		par[k] = ascii(v)
	}
	return map[string]any{"kind": kind, "proto": string(proto), "user": ascii(u.User), "host": ascii(u.Host),
		"port": int(u.Port), "path": ascii(u.Path), "env": env, "params": par}
}

// c38Setup pins everything url.Parse reads from the process environment.
func c38Setup(c *vlib.Ctx) (home, cwd string) {
	base := c.TempDir("c38-")
	home = base + "/home"
	cwd = base + "/cwd"
	os.MkdirAll(home, 0o755)
	os.MkdirAll(cwd, 0o755)
	for _, e := range os.Environ() {
		name := strings.SplitN(e, "=", 2)[0]
		if strings.HasPrefix(name, "DOCKER_") || strings.HasPrefix(name, "MUTAGEN_") {
			os.Unsetenv(name)
		}
	}
	os.Setenv("HOME", home)
	os.Setenv("DOCKER_HOST", "tcp://dh:1")
	os.Setenv("MUTAGEN_ALPHA_DOCKER_CONTEXT", "actx")
	os.Setenv("MUTAGEN_SOURCE_DOCKER_CONTEXT", "actx")
	if err := os.Chdir(cwd); err != nil {
		vlib.Fatal("chdir: %v", err)
	}
	os.Setenv("PWD", cwd)
	if wd, err := os.Getwd(); err == nil {
		cwd = wd
	}
	return
}

func c38Case(c *vlib.Ctx, in map[string]any, home, cwd string) map[string]any {
	s := in["s"].(string)
	kind := c38Kind(in["kind"].(string))
	first, _ := in["first"].(bool)
	rec := map[string]any{"ev": "Url", "in": in, "home": home, "cwd": cwd}
	p1 := map[string]any{"ok": false, "err": "", "url": map[string]any{}}
	p2 := map[string]any{"ok": false, "err": "", "url": map[string]any{}}
	rec["valid"] = false
	rec["verr"] = ""
	rec["fmt"] = ""
	u1, err := url.Parse(s, kind, first)
	if err != nil {
		p1["err"] = ascii(err.Error())
	} else {
		p1["ok"] = true
		p1["url"] = encURL(u1)
		verr := u1.EnsureValid()
		rec["valid"] = verr == nil
		rec["verr"] = ascii(errStr(verr))
		f := u1.Format("")
		rec["fmt"] = ascii(f)
		u2, err2 := url.Parse(f, kind, first)
		if err2 != nil {
			p2["err"] = ascii(err2.Error())
		} else {
			p2["ok"] = true
			p2["url"] = encURL(u2)
		}
		c.NonTrivial(in["kind"].(string) + "|" + s)
	}
	rec["p1"] = p1
	rec["p2"] = p2
	c.Eval()
	return rec
}

func c38In(dom, kind string, pre bool, toks []string, gi []int, first bool) map[string]any {
	ts := make([]any, len(toks))
	var sb strings.Builder
	if pre {
		sb.WriteString("docker://")
	}
	for i, t := range toks {
		ts[i] = t
		sb.WriteString(t)
	}
	g := make([]any, len(gi))
	for i, v := range gi {
		g[i] = v
	}
	return map[string]any{"dom": dom, "kind": kind, "pre": pre, "toks": ts, "gi": g, "s": sb.String(), "first": first}
}

func runC38(c *vlib.Ctx) error {
	home, cwd := c38Setup(c)
	ntok := argInt(c, "ntok", 9)
	maxLen := argInt(c, "n", 4)
	nrand := argInt(c, "rand", 5000)
	toks := c38Tokens[:ntok]
	n := 0
	emit := func(in map[string]any) {
		rec := c38Case(c, in, home, cwd)
		c.Emit(rec)
		if n%20011 == 7 {
			c.Sample(rec)
		}
		n++
	}
	// 1. every flat token string of the bound
	for _, kind := range []string{"sync", "fwd"} {
		for _, pre := range []bool{false, true} {
			forEachSeq(len(toks), maxLen, func(idx []int) {
				ts := make([]string, len(idx))
				for i, k := range idx {
					ts[i] = toks[k]
				}
				emit(c38In("flat", kind, pre, ts, nil, n%2 == 0))
			})
		}
	}
	c.SetExtra("flat_cases", n)
	// 2. the grammar domain
	nflat := n
	for _, kind := range []string{"sync", "fwd"} {
		for _, pre := range []bool{false, true} {
			for a := range c38Gram[0] {
				for b := range c38Gram[1] {
					for p := range c38Gram[2] {
						for d := range c38Gram[3] {
							for e := range c38Gram[4] {
								var ts []string
								ts = append(ts, c38Gram[0][a]...)
								ts = append(ts, c38Gram[1][b]...)
								ts = append(ts, c38Gram[2][p]...)
								ts = append(ts, c38Gram[3][d]...)
								ts = append(ts, c38Gram[4][e]...)
								emit(c38In("gram", kind, pre, ts, []int{a + 1, b + 1, p + 1, d + 1, e + 1}, n%2 == 0))
							}
						}
					}
				}
			}
		}
	}
	c.SetExtra("grammar_cases", n-nflat)
	// 2b. the case domain (UrlText.tla CHead x CProto x CAddr): protocol / scheme tokens in lower, UPPER and Mixed case
	ncase := n
	for _, kind := range []string{"sync", "fwd"} {
		for a := range c38CaseHead {
			for b := range c38CaseProto {
				for d := range c38CaseAddr {
					var ts []string
					ts = append(ts, c38CaseHead[a]...)
					ts = append(ts, c38CaseProto[b], ":")
					ts = append(ts, c38CaseAddr[d]...)
					emit(c38In("case", kind, false, ts, []int{a + 1, b + 1, d + 1}, n%2 == 0))
				}
			}
		}
	}
	// 2c. the scheme-word domain (UrlText.tla SUser x SHost x SPort x SPath)
	for _, kind := range []string{"sync", "fwd"} {
		for a := range c38SUser {
			for b := range c38SHost {
				for p := range c38SPort {
					for d := range c38SPath {
						var ts []string
						ts = append(ts, c38SUser[a]...)
						ts = append(ts, c38SHost[b])
						ts = append(ts, c38SPort[p]...)
						ts = append(ts, ":")
						ts = append(ts, c38SPath[d]...)
						emit(c38In("scheme", kind, false, ts, []int{a + 1, b + 1, p + 1, d + 1}, n%2 == 0))
					}
				}
			}
		}
	}
	c.SetExtra("case_cases", n-ncase)
	c.SetExhaustive(true)
	// 3. random richer strings beyond the bound
	for i := 0; i < nrand; i++ {
		kind := []string{"sync", "fwd"}[c.Rand.Intn(2)]
		l := 1 + c.Rand.Intn(9)
		var sb strings.Builder
		for j := 0; j < l; j++ {
			sb.WriteString(c38Random[c.Rand.Intn(len(c38Random))])
		}
		in := c38In("none", kind, false, nil, nil, c.Rand.Intn(2) == 0)
		in["s"] = sb.String()
		rec := c38Case(c, in, home, cwd)
		c.Emit(rec)
		if i == 17 {
			c.Sample(rec)
		}
	}
	c.SetExtra("random_cases", nrand)
	return nil
}

func replayC38(c *vlib.Ctx, begin map[string]any) error {
	home, cwd := c38Setup(c)
	in, _ := begin["in"].(map[string]any)
	if in == nil {
		return fmt.Errorf("replay record has no input")
	}
	if _, ok := in["s"].(string); !ok {
		return fmt.Errorf("replay input has no string")
	}
	if _, ok := in["kind"].(string); !ok {
		return fmt.Errorf("replay input has no kind")
	}
	c.Emit(c38Case(c, in, home, cwd))
	return nil
}
