package main

// C39: session identifiers are well formed and distinct. identifier.New draws
// its 32 bytes from crypto/rand; the driver swaps crypto/rand.Reader for a
// reader that hands out the bytes of the case (the structured leading-zero
// patterns of spec/text/Identifier.tla, then seeded pseudo-random draws), so
// that the real New / IsValid / Truncated are observed on chosen inputs. Names
// go through the real selection.EnsureNameValid and identifier.IsValid.

import (
	"bytes"
	"crypto/rand"
	"fmt"
	mrand "math/rand"
	"strings"

	"github.com/mutagen-io/mutagen/pkg/identifier"
	"github.com/mutagen-io/mutagen/pkg/selection"

	"verif/harness/internal/vlib"
)

var c39Firsts = []byte{1, 61, 62, 63, 255}
var c39Fills = []byte{0, 255, 1}

func plainChars(s string) []any {
	out := make([]any, len(s))
	for i := 0; i < len(s); i++ {
		c := s[i]
		if c >= 0x20 && c <= 0x7e {
			out[i] = string(rune(c))
		} else {
			out[i] = fmt.Sprintf("x%02x", c)
		}
	}
	return out
}

func c39Id(c *vlib.Ctx, dom string, key []int, prefix string, draw []byte) map[string]any {
	saved := rand.Reader
	reader := bytes.NewReader(draw)
	rand.Reader = reader
	id, err := identifier.New(prefix)
	rand.Reader = saved
	ks := make([]any, len(key))
	for i, v := range key {
		ks[i] = v
	}
	bs := make([]any, len(draw))
	for i, v := range draw {
		bs[i] = int(v)
	}
	rec := map[string]any{"ev": "Id", "cid": "run", "in": map[string]any{"dom": dom, "key": ks, "bytes": bs, "prefix": plainChars(prefix)},
		"err": ascii(errStr(err)), "id": plainChars(id), "idstr": ascii(id), "consumed": len(draw) - reader.Len(),
		"valid": identifier.IsValid(id), "trunc": plainChars(identifier.Truncated(id))}
	c.Eval()
	if err == nil {
		c.NonTrivial(id)
	}
	return rec
}

func c39Name(c *vlib.Ctx, dom string, key []int, name string) map[string]any {
	ks := make([]any, len(key))
	for i, v := range key {
		ks[i] = v
	}
	err := selection.EnsureNameValid(name)
	rec := map[string]any{"ev": "Name", "cid": "run", "in": map[string]any{"dom": dom, "key": ks, "name": plainChars(name), "s": ascii(name)},
		"ok": err == nil, "err": ascii(errStr(err)), "isId": identifier.IsValid(name)}
	c.Eval()
	if err == nil {
		c.NonTrivial("n|" + name)
	}
	return rec
}

func c39Variant(v, n int) string {
	switch v {
	case 1:
		return strings.Repeat("a", n)
	case 2:
		return strings.Repeat("1", n)
	case 3:
		return strings.Repeat("F", n)
	}
	return strings.Repeat("b", n-1)
}

func c39GramName(vs []int) string {
	lens := []int{8, 4, 4, 4, 12}
	parts := make([]string, 5)
	for i := range parts {
		parts[i] = c39Variant(vs[i], lens[i])
	}
	return strings.Join(parts, "-")
}

// The whole run is one case: distinctness is a property of all identifiers of a
// run, so a failing record can only be reproduced by repeating the run.
func runC39(c *vlib.Ctx) error {
	return c39Run(c, c.Seed, argInt(c, "rand", 2000))
}

func c39Run(c *vlib.Ctx, seed int64, nrand int) error {
	c.Emit(map[string]any{"ev": "Begin", "begin": true, "cid": "run", "in": map[string]any{"seed": int(seed), "rand": nrand}})
	n := 0
	seen := map[string]bool{} // draws already used (the trace module insists on distinct draws)
	for k := 0; k <= 31; k++ {
		for f := range c39Firsts {
			for g := range c39Fills {
				if k == 31 && g > 0 {
					continue // no fill bytes are left
				}
				draw := make([]byte, 32)
				for i := range draw {
					switch {
					case i < k:
						draw[i] = 0
					case i == k:
						draw[i] = c39Firsts[f]
					default:
						draw[i] = c39Fills[g]
					}
				}
				seen[string(draw)] = true
				rec := c39Id(c, "pat", []int{k, f + 1, g + 1}, identifier.PrefixSynchronization, draw)
				c.Emit(rec)
				if n%211 == 7 {
					c.Sample(rec)
				}
				n++
			}
		}
	}
	c.Emit(c39Id(c, "zero", nil, identifier.PrefixSynchronization, make([]byte, 32)))
	// every documented prefix, and prefixes New must refuse
	one := make([]byte, 32)
	one[31] = 1
	for _, p := range []string{identifier.PrefixForwarding, identifier.PrefixProject, identifier.PrefixPrompter, "Sync", "syn", "syncx", "s_nc", "", "sy1c"} {
		c.Emit(c39Id(c, "prefix", nil, p, one))
	}
	// boundary values of the 256-bit number: powers of 62 and their neighbours, all ones
	seen[string(make([]byte, 32))], seen[string(one)] = true, true
	for i := 0; i < nrand; i++ {
		draw := make([]byte, 32)
		c.Rand.Read(draw)
		switch i % 8 {
		case 1: // a random number of leading zero bytes
			for j, k := 0, c.Rand.Intn(32); j < k; j++ {
				draw[j] = 0
			}
		case 2: // small values
			for j := 0; j < 30; j++ {
				draw[j] = 0
			}
		case 3:
			for j := range draw {
				draw[j] = 255
			}
			draw[c.Rand.Intn(32)] = byte(c.Rand.Intn(256))
		}
		if seen[string(draw)] {
			continue
		}
		seen[string(draw)] = true
		c.Emit(c39Id(c, "rand", nil, identifier.PrefixSynchronization, draw))
	}
	c.SetExtra("identifier_cases", n+1+9+nrand)
	// names
	m := 0
	var vs [5]int
	var rec func(i int)
	rec = func(i int) {
		if i == 5 {
			c.Emit(c39Name(c, "gram", vs[:], c39GramName(vs[:])))
			m++
			return
		}
		for v := 1; v <= 4; v++ {
			vs[i] = v
			rec(i + 1)
		}
	}
	rec(0)
	// a well-formed identifier used as a name (drawn from fixed bytes, so that the run is deterministic)
	fixed := make([]byte, 32)
	for i := range fixed {
		fixed[i] = byte(7*i + 3)
	}
	saved := rand.Reader
	rand.Reader = bytes.NewReader(fixed)
	id, _ := identifier.New(identifier.PrefixSynchronization)
	rand.Reader = saved
	for _, s := range []string{"defaults", "default", "defaultss", "Defaults", "", "a", "a-b", "a1", "1a", "-a", "a_b", id,
		"abcdef01-2345-6789-abcd-ef0123456789", "ABCDEF01-2345-6789-ABCD-EF0123456789", "abcdef0123456789abcdef0123456789",
		"urn:uuid:abcdef01-2345-6789-abcd-ef0123456789", "{abcdef01-2345-6789-abcd-ef0123456789}", "sync", "my-session", "web2"} {
		c.Emit(c39Name(c, "special", nil, s))
	}
	for _, s := range []string{"été", "名前-1", "a١", "١a", "naïve-name", "a b", "a\tb"} {
		c.Emit(c39Name(c, "raw", nil, s))
	}
	c.SetExtra("name_cases", m+27)
	c.SetExhaustive(true)
	return nil
}

func replayC39(c *vlib.Ctx, begin map[string]any) error {
	in, _ := begin["in"].(map[string]any)
	if in == nil || begin["ev"] != "Begin" {
		return fmt.Errorf("replay needs the Begin record of the run")
	}
	var seed int64
	var nrand int
	vlib.Decode(in["seed"], &seed)
	vlib.Decode(in["rand"], &nrand)
	if nrand < 0 || nrand > 1000000 {
		return fmt.Errorf("replay input out of range")
	}
	c.Rand = mrand.New(mrand.NewSource(seed))
	return c39Run(c, seed, nrand)
}
