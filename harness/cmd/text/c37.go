package main

// C37: accepted session configurations are valid for every endpoint. For every
// key of the factored domain of spec/text/Config.tla the driver builds the real
// session-wide and endpoint-specific configurations, asks the real acceptance
// functions (Session.EnsureValid; the synchronization service's Create with a
// paused session on a real Manager in a scratch data directory), merges with
// the real MergeConfigurations, asks what every endpoint runs on the merged
// configuration (Configuration.EnsureValid(false) as the remote endpoint does;
// local.NewEndpoint, shut down at once) and records all of it. It also records
// the text form and re-parse of every mode enumeration value.

import (
	"context"
	"encoding"
	"fmt"
	"os"
	"path/filepath"
	"time"

	"google.golang.org/protobuf/types/known/timestamppb"

	"github.com/mutagen-io/mutagen/pkg/filesystem"
	"github.com/mutagen-io/mutagen/pkg/filesystem/behavior"
	"github.com/mutagen-io/mutagen/pkg/identifier"
	"github.com/mutagen-io/mutagen/pkg/prompting"
	"github.com/mutagen-io/mutagen/pkg/selection"
	svc "github.com/mutagen-io/mutagen/pkg/service/synchronization"
	"github.com/mutagen-io/mutagen/pkg/synchronization"
	"github.com/mutagen-io/mutagen/pkg/synchronization/compression"
	"github.com/mutagen-io/mutagen/pkg/synchronization/core"
	"github.com/mutagen-io/mutagen/pkg/synchronization/core/ignore"
	"github.com/mutagen-io/mutagen/pkg/synchronization/endpoint/local"
	"github.com/mutagen-io/mutagen/pkg/synchronization/hashing"
	"github.com/mutagen-io/mutagen/pkg/url"

	"verif/harness/internal/vlib"
)

// field order and concrete values of spec/text/Config.tla (Fields, Conc)
var c37Fields = []string{"sync", "hash", "maxEntry", "maxStage", "probe", "scan", "stage", "symlink", "watch", "poll", "syntax",
	"defIgnores", "ignores", "vcs", "perm", "fmode", "dmode", "owner", "group", "compress"}

var c37Num = map[string][4]uint64{
	"sync": {0, 1, 4, 9}, "hash": {0, 1, 2, 9}, "maxEntry": {0, 1, 2, 1000000}, "maxStage": {0, 1, 2, 1000000},
	"probe": {0, 1, 2, 9}, "scan": {0, 1, 2, 9}, "stage": {0, 1, 2, 9}, "symlink": {0, 1, 3, 9}, "watch": {0, 2, 3, 9},
	"poll": {0, 1, 2, 60}, "syntax": {0, 1, 2, 9}, "vcs": {0, 1, 2, 9}, "perm": {0, 1, 2, 9},
	"fmode": {0, 0o644, 0o755, 0o1644}, "dmode": {0, 0o755, 0o700, 0o1755}, "compress": {0, 1, 2, 9},
}
var c37Str = map[string][4]string{"owner": {"", "id:1000", "root", "id:x1"}, "group": {"", "id:1001", "root", "id:x2"}}
var c37List = map[string][4][]string{
	"defIgnores": {{}, {"i1"}, {"i2", "i3"}, {"i4"}},
	"ignores":    {{}, {"j1"}, {"j2", "j3"}, {"j4"}},
}

// c37Config builds the real configuration in which the given fields take the
// value with the given index (0 = default) and all others are unset.
func c37Config(set map[string]int) *synchronization.Configuration {
	c := &synchronization.Configuration{}
	for f, i := range set {
		n := c37Num[f][i]
		switch f {
		case "sync":
			c.SynchronizationMode = core.SynchronizationMode(n)
		case "hash":
			c.HashingAlgorithm = hashing.Algorithm(n)
		case "maxEntry":
			c.MaximumEntryCount = n
		case "maxStage":
			c.MaximumStagingFileSize = n
		case "probe":
			c.ProbeMode = behavior.ProbeMode(n)
		case "scan":
			c.ScanMode = synchronization.ScanMode(n)
		case "stage":
			c.StageMode = synchronization.StageMode(n)
		case "symlink":
			c.SymbolicLinkMode = core.SymbolicLinkMode(n)
		case "watch":
			c.WatchMode = synchronization.WatchMode(n)
		case "poll":
			c.WatchPollingInterval = uint32(n)
		case "syntax":
			c.IgnoreSyntax = ignore.Syntax(n)
		case "defIgnores":
			c.DefaultIgnores = append([]string(nil), c37List[f][i]...)
		case "ignores":
			c.Ignores = append([]string(nil), c37List[f][i]...)
		case "vcs":
			c.IgnoreVCSMode = ignore.IgnoreVCSMode(n)
		case "perm":
			c.PermissionsMode = core.PermissionsMode(n)
		case "fmode":
			c.DefaultFileMode = uint32(n)
		case "dmode":
			c.DefaultDirectoryMode = uint32(n)
		case "owner":
			c.DefaultOwner = c37Str[f][i]
		case "group":
			c.DefaultGroup = c37Str[f][i]
		case "compress":
			c.CompressionAlgorithm = compression.Algorithm(n)
		}
	}
	return c
}

func strList(l []string) []any {
	out := make([]any, len(l))
	for i, s := range l {
		out[i] = s
	}
	return out
}

// encConfig renders a real configuration as the field map of Config.tla.
func encConfig(c *synchronization.Configuration) map[string]any {
	return map[string]any{
		"sync": int(c.SynchronizationMode), "hash": int(c.HashingAlgorithm), "maxEntry": int(c.MaximumEntryCount),
		"maxStage": int(c.MaximumStagingFileSize), "probe": int(c.ProbeMode), "scan": int(c.ScanMode), "stage": int(c.StageMode),
		"symlink": int(c.SymbolicLinkMode), "watch": int(c.WatchMode), "poll": int(c.WatchPollingInterval),
		"syntax": int(c.IgnoreSyntax), "defIgnores": strList(c.DefaultIgnores), "ignores": strList(c.Ignores),
		"vcs": int(c.IgnoreVCSMode), "perm": int(c.PermissionsMode), "fmode": int(c.DefaultFileMode),
		"dmode": int(c.DefaultDirectoryMode), "owner": c.DefaultOwner, "group": c.DefaultGroup,
		"compress": int(c.CompressionAlgorithm),
	}
}

type c37Env struct {
	manager      *synchronization.Manager
	server       *svc.Server
	prompter     string
	rootA, rootB string
	urlA, urlB   *url.URL
}

type nopPrompter struct{}

func (nopPrompter) Message(string) error          { return nil }
func (nopPrompter) Prompt(string) (string, error) { return "", nil }

func c37Setup(c *vlib.Ctx) *c37Env {
	base := c.TempDir("c37-")
	os.Setenv("MUTAGEN_DATA_DIRECTORY", filepath.Join(base, "data"))
	e := &c37Env{rootA: filepath.Join(base, "a"), rootB: filepath.Join(base, "b")}
	os.MkdirAll(e.rootA, 0o755)
	os.MkdirAll(e.rootB, 0o755)
	m, err := synchronization.NewManager(nil)
	if err != nil {
		vlib.Fatal("manager: %v", err)
	}
	e.manager = m
	e.server = svc.NewServer(m)
	if e.prompter, err = prompting.RegisterPrompter(nopPrompter{}); err != nil {
		vlib.Fatal("prompter: %v", err)
	}
	e.urlA = &url.URL{Kind: url.Kind_Synchronization, Protocol: url.Protocol_Local, Path: e.rootA}
	e.urlB = &url.URL{Kind: url.Kind_Synchronization, Protocol: url.Protocol_Local, Path: e.rootB}
	return e
}

// c37Triple turns a key of Config.tla (Keys1/2/3) into the three settings.
func c37Triple(k []int) (s, a, b map[string]int, err error) {
	s, a, b = map[string]int{}, map[string]int{}, map[string]int{}
	bad := fmt.Errorf("malformed key %v", k)
	in := func(v, lo, hi int) bool { return v >= lo && v <= hi }
	if len(k) == 0 {
		return nil, nil, nil, bad
	}
	switch k[0] {
	case 1:
		if len(k) != 5 || !in(k[1], 1, len(c37Fields)) || !in(k[2], 1, 4) || !in(k[3], 1, 4) || !in(k[4], 1, 4) {
			return nil, nil, nil, bad
		}
		f := c37Fields[k[1]-1]
		s[f], a[f], b[f] = k[2]-1, k[3]-1, k[4]-1
	case 2:
		if len(k) != 7 || !in(k[1], 1, 4) || !in(k[2], 1, 2) || !in(k[3], 1, 4) || !in(k[4], 1, 4) || !in(k[5], 1, 4) || !in(k[6], 1, 2) {
			return nil, nil, nil, bad
		}
		s["perm"], s["fmode"] = k[1]-1, k[3]-1
		a["perm"], a["fmode"], a["dmode"] = []int{0, 2}[k[2]-1], k[4]-1, []int{0, 1}[k[6]-1]
		b["fmode"] = k[5] - 1
	case 3:
		if len(k) != 5 || !in(k[1], 1, len(c37Fields)) || !in(k[2], 1, len(c37Fields)) || k[1] == k[2] || !in(k[3], 1, 3) || !in(k[4], 1, 3) {
			return nil, nil, nil, bad
		}
		s[c37Fields[k[1]-1]] = k[3]
		a[c37Fields[k[2]-1]] = k[4]
	default:
		return nil, nil, nil, bad
	}
	return
}

// tryLocal initialises a real local endpoint with the merged configuration and
// shuts it down again.
func tryLocal(root string, m *synchronization.Configuration, alpha bool) (result string) {
	defer func() {
		if r := recover(); r != nil {
			result = ascii(fmt.Sprintf("panic: %v", r))
		}
	}()
	id, err := identifier.New(identifier.PrefixSynchronization)
	if err != nil {
		return "err: " + ascii(err.Error())
	}
	ep, err := local.NewEndpoint(nil, root, id, synchronization.DefaultVersion, m, alpha)
	if err != nil {
		return "err: " + ascii(err.Error())
	}
	ep.Shutdown()
	return "ok"
}

func c37Case(c *vlib.Ctx, e *c37Env, key []int) map[string]any {
	ks := make([]any, len(key))
	for i, v := range key {
		ks[i] = v
	}
	s, a, b, err := c37Triple(key)
	if err != nil {
		vlib.Fatal("%v", err)
	}
	cfg, cfgA, cfgB := c37Config(s), c37Config(a), c37Config(b)
	rec := map[string]any{"ev": "Cfg", "in": map[string]any{"k": ks}, "c": encConfig(cfg), "ca": encConfig(cfgA), "cb": encConfig(cfgB)}
	rec["defaults"] = map[string]any{"perm": int(synchronization.DefaultVersion.DefaultPermissionsMode()),
		"fmode": int(synchronization.DefaultVersion.DefaultFileMode()), "portable": int(core.PermissionsMode_PermissionsModePortable)}

	// acceptance 1: a persisted session with these three parts
	id, _ := identifier.New(identifier.PrefixSynchronization)
	session := &synchronization.Session{Identifier: id, Version: synchronization.DefaultVersion, CreationTime: timestamppb.Now(),
		Alpha: e.urlA, Beta: e.urlB, Configuration: cfg, ConfigurationAlpha: cfgA, ConfigurationBeta: cfgB}
	serr := session.EnsureValid()
	rec["accSession"] = serr == nil
	rec["serr"] = ascii(errStr(serr))

	// acceptance 2: creation through the synchronization service (paused)
	ctx, cancel := context.WithTimeout(context.Background(), 60*time.Second)
	resp, cerr := e.server.Create(ctx, &svc.CreateRequest{Prompter: e.prompter, Specification: &svc.CreationSpecification{
		Alpha: e.urlA, Beta: e.urlB, Configuration: cfg, ConfigurationAlpha: cfgA, ConfigurationBeta: cfgB, Paused: true}})
	rec["accCreate"] = cerr == nil
	rec["cerr"] = ascii(errStr(cerr))
	if cerr == nil {
		if terr := e.manager.Terminate(ctx, &selection.Selection{Specifications: []string{resp.Session}}, ""); terr != nil {
			vlib.Fatal("terminate %s: %v", resp.Session, terr)
		}
	}
	cancel()

	// what each endpoint gets and says
	ma, mb := synchronization.MergeConfigurations(cfg, cfgA), synchronization.MergeConfigurations(cfg, cfgB)
	rec["ma"], rec["mb"] = encConfig(ma), encConfig(mb)
	ea, eb := ma.EnsureValid(false), mb.EnsureValid(false)
	rec["vma"], rec["vmb"] = ea == nil, eb == nil
	rec["vmaerr"], rec["vmberr"] = ascii(errStr(ea)), ascii(errStr(eb))
	rec["loca"], rec["locb"] = "skip", "skip"
	if serr == nil || cerr == nil {
		rec["loca"] = tryLocal(e.rootA, ma, true)
		rec["locb"] = tryLocal(e.rootB, mb, false)
		c.NonTrivial(fmt.Sprint(key))
	}
	c.Eval()
	return rec
}

// ---- frame scenarios: MergeConfigurations must yield a fresh value

// c37ListCfg builds a configuration whose two ignore lists are list number i
// of Config.tla. build 1: slices of exact size; 2: built by incremental
// appends into a slice with spare capacity; 3: the result of a previous merge
// (of a spare-capacity default with the list), as `mutagen project start` does.
func c37ListCfg(i, build int) *synchronization.Configuration {
	mk := func(list []string) []string {
		switch build {
		case 2, 3:
			out := make([]string, 0, len(list)+6)
			for _, s := range list {
				out = append(out, s)
			}
			return out
		}
		return append([]string(nil), list...)
	}
	c := &synchronization.Configuration{DefaultIgnores: mk(c37List["defIgnores"][i-1]), Ignores: mk(c37List["ignores"][i-1])}
	if build == 3 {
		empty := &synchronization.Configuration{DefaultIgnores: make([]string, 0, 8), Ignores: make([]string, 0, 8)}
		return synchronization.MergeConfigurations(empty, c)
	}
	return c
}

func encConfigs(cs []*synchronization.Configuration) []any {
	out := make([]any, len(cs))
	for i, c := range cs {
		out[i] = encConfig(c)
	}
	return out
}

// scribble overwrites every element of the configuration's lists in place and
// appends to them (which writes into spare capacity, if there is any).
func scribble(c *synchronization.Configuration, mark string) {
	for i := range c.DefaultIgnores {
		c.DefaultIgnores[i] = mark
	}
	for i := range c.Ignores {
		c.Ignores[i] = mark
	}
	c.DefaultIgnores = append(c.DefaultIgnores, mark+"+")
	c.Ignores = append(c.Ignores, mark+"+")
}

func c37Frame(c *vlib.Ctx, key []int) map[string]any {
	ks := make([]any, len(key))
	for i, v := range key {
		ks[i] = v
	}
	hs := []int{key[2], key[3]}
	if key[4] != 0 {
		hs = append(hs, key[4])
	}
	build := func() (*synchronization.Configuration, []*synchronization.Configuration) {
		lower := c37ListCfg(key[0], key[1])
		var highers []*synchronization.Configuration
		for _, h := range hs {
			highers = append(highers, c37ListCfg(h, 1))
		}
		return lower, highers
	}
	rec := map[string]any{"ev": "Frame", "in": map[string]any{"k": ks}}
	// part A: merge the same lower with every higher, keep all results, read everything again
	lower, highers := build()
	rec["lower"], rec["highers"] = encConfig(lower), encConfigs(highers)
	var results []*synchronization.Configuration
	first := []any{}
	for _, h := range highers {
		r := synchronization.MergeConfigurations(lower, h)
		results = append(results, r)
		first = append(first, encConfig(r))
	}
	rec["first"] = first
	rec["after"] = encConfigs(results)
	rec["lowerAfter"], rec["highersAfter"] = encConfig(lower), encConfigs(highers)
	// part B: a replica; the owner of result 1 overwrites it, then the owners of the operands overwrite them
	lower, highers = build()
	results = nil
	for _, h := range highers {
		results = append(results, synchronization.MergeConfigurations(lower, h))
	}
	rec["firstB"] = encConfigs(results)
	scribble(results[0], "R")
	rec["resMut"] = map[string]any{"lower": encConfig(lower), "highers": encConfigs(highers), "results": encConfigs(results[1:])}
	scribble(lower, "L")
	for _, h := range highers {
		scribble(h, "H")
	}
	rec["opMut"] = map[string]any{"results": encConfigs(results[1:])}
	c.Eval()
	c.NonTrivial(fmt.Sprint("frame", key))
	return rec
}

type textCodec struct {
	name  string
	max   int
	write func(v int) (string, error)
	read  func(s string) (int, error)
}

func tm[T any, P interface {
	*T
	encoding.TextUnmarshaler
}](name string, max int, conv func(int) T, back func(T) int) textCodec {
	return textCodec{name: name, max: max,
		write: func(v int) (string, error) {
			if m, ok := any(conv(v)).(encoding.TextMarshaler); ok {
				b, err := m.MarshalText()
				return string(b), err
			}
			if m, ok := any(conv(v)).(interface{ MarshalJSON() ([]byte, error) }); ok {
				b, err := m.MarshalJSON()
				return string(b), err
			}
			return "", fmt.Errorf("no text form")
		},
		read: func(s string) (int, error) {
			var t T
			err := P(&t).UnmarshalText([]byte(s))
			return back(t), err
		}}
}

func c37Codecs() []textCodec {
	return []textCodec{
		tm[core.SynchronizationMode]("sync", 4, func(v int) core.SynchronizationMode { return core.SynchronizationMode(v) }, func(t core.SynchronizationMode) int { return int(t) }),
		tm[hashing.Algorithm]("hash", 3, func(v int) hashing.Algorithm { return hashing.Algorithm(v) }, func(t hashing.Algorithm) int { return int(t) }),
		tm[behavior.ProbeMode]("probe", 2, func(v int) behavior.ProbeMode { return behavior.ProbeMode(v) }, func(t behavior.ProbeMode) int { return int(t) }),
		tm[synchronization.ScanMode]("scan", 2, func(v int) synchronization.ScanMode { return synchronization.ScanMode(v) }, func(t synchronization.ScanMode) int { return int(t) }),
		tm[synchronization.StageMode]("stage", 3, func(v int) synchronization.StageMode { return synchronization.StageMode(v) }, func(t synchronization.StageMode) int { return int(t) }),
		tm[core.SymbolicLinkMode]("symlink", 3, func(v int) core.SymbolicLinkMode { return core.SymbolicLinkMode(v) }, func(t core.SymbolicLinkMode) int { return int(t) }),
		tm[synchronization.WatchMode]("watch", 3, func(v int) synchronization.WatchMode { return synchronization.WatchMode(v) }, func(t synchronization.WatchMode) int { return int(t) }),
		tm[ignore.Syntax]("syntax", 2, func(v int) ignore.Syntax { return ignore.Syntax(v) }, func(t ignore.Syntax) int { return int(t) }),
		tm[ignore.IgnoreVCSMode]("vcs", 2, func(v int) ignore.IgnoreVCSMode { return ignore.IgnoreVCSMode(v) }, func(t ignore.IgnoreVCSMode) int { return int(t) }),
		tm[core.PermissionsMode]("perm", 2, func(v int) core.PermissionsMode { return core.PermissionsMode(v) }, func(t core.PermissionsMode) int { return int(t) }),
		tm[compression.Algorithm]("compress", 3, func(v int) compression.Algorithm { return compression.Algorithm(v) }, func(t compression.Algorithm) int { return int(t) }),
		tm[filesystem.Mode]("fsmode", -1, func(v int) filesystem.Mode { return filesystem.Mode(v) }, func(t filesystem.Mode) int { return int(t) }),
	}
}

var c37FsModes = []int{0, 0o1, 0o7, 0o70, 0o100, 0o400, 0o600, 0o644, 0o664, 0o700, 0o755, 0o777, 0o1000, 0o1644, 0o4755}

func c37Text(c *vlib.Ctx, t textCodec, v int) map[string]any {
	rec := map[string]any{"ev": "Text", "in": map[string]any{"type": t.name, "value": v}, "type": t.name, "value": v,
		"text": "", "werr": "", "ok": false, "back": -1, "rerr": ""}
	text, werr := t.write(v)
	rec["text"] = ascii(text)
	rec["werr"] = ascii(errStr(werr))
	if werr == nil {
		back, rerr := t.read(text)
		rec["ok"] = rerr == nil
		rec["rerr"] = ascii(errStr(rerr))
		if rerr == nil {
			rec["back"] = back
		}
	}
	c.Eval()
	return rec
}

func runC37(c *vlib.Ctx) error {
	e := c37Setup(c)
	defer e.manager.Shutdown()
	n := 0
	emit := func(k []int) {
		rec := c37Case(c, e, k)
		c.Emit(rec)
		if n%1777 == 5 {
			c.Sample(rec)
		}
		n++
	}
	nf := len(c37Fields)
	for f := 1; f <= nf; f++ {
		for s := 1; s <= 4; s++ {
			for a := 1; a <= 4; a++ {
				for b := 1; b <= 4; b++ {
					emit([]int{1, f, s, a, b})
				}
			}
		}
	}
	for ps := 1; ps <= 4; ps++ {
		for pa := 1; pa <= 2; pa++ {
			for fs := 1; fs <= 4; fs++ {
				for fa := 1; fa <= 4; fa++ {
					for fb := 1; fb <= 4; fb++ {
						for da := 1; da <= 2; da++ {
							emit([]int{2, ps, pa, fs, fa, fb, da})
						}
					}
				}
			}
		}
	}
	for f := 1; f <= nf; f++ {
		for g := 1; g <= nf; g++ {
			if f == g {
				continue
			}
			for s := 1; s <= 3; s++ {
				for a := 1; a <= 3; a++ {
					emit([]int{3, f, g, s, a})
				}
			}
		}
	}
	c.SetExtra("configuration_cases", n)
	nf0 := 0
	for lo := 1; lo <= 4; lo++ {
		for b := 1; b <= 3; b++ {
			for h1 := 1; h1 <= 4; h1++ {
				for h2 := 1; h2 <= 4; h2++ {
					for h3 := 0; h3 <= 4; h3++ {
						rec := c37Frame(c, []int{lo, b, h1, h2, h3})
						c.Emit(rec)
						if nf0 == 333 {
							c.Sample(rec)
						}
						nf0++
					}
				}
			}
		}
	}
	c.SetExtra("frame_scenarios", nf0)
	for _, t := range c37Codecs() {
		if t.max >= 0 {
			for v := 0; v <= t.max+1; v++ {
				c.Emit(c37Text(c, t, v))
			}
		} else {
			for _, v := range c37FsModes {
				c.Emit(c37Text(c, t, v))
			}
		}
	}
	c.SetExhaustive(true)
	return nil
}

func replayC37(c *vlib.Ctx, begin map[string]any) error {
	in, _ := begin["in"].(map[string]any)
	if in == nil {
		return fmt.Errorf("replay record has no input")
	}
	if begin["ev"] == "Text" {
		var v int
		vlib.Decode(in["value"], &v)
		name, _ := in["type"].(string)
		for _, t := range c37Codecs() {
			if t.name == name {
				c.Emit(c37Text(c, t, v))
				return nil
			}
		}
		return fmt.Errorf("unknown text type %q", name)
	}
	var key []int
	vlib.Decode(in["k"], &key)
	if begin["ev"] == "Frame" {
		if len(key) != 5 || key[0] < 1 || key[0] > 4 || key[1] < 1 || key[1] > 3 || key[2] < 1 || key[2] > 4 || key[3] < 1 || key[3] > 4 || key[4] < 0 || key[4] > 4 {
			return fmt.Errorf("malformed frame key %v", key)
		}
		c.Emit(c37Frame(c, key))
		return nil
	}
	if _, _, _, err := c37Triple(key); err != nil {
		return err
	}
	e := c37Setup(c)
	defer e.manager.Shutdown()
	c.Emit(c37Case(c, e, key))
	return nil
}
