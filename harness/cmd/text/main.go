// Driver "text": the six function-model properties of the text family
// (C36 argv, C37 configuration, C38 URL text, C39 identifiers, C40 selection,
// C44 log lines). It runs the real functions of /repo on every input of the
// bounded domains of spec/text/*.tla (+ seeded random inputs beyond the bound)
// and records what they returned. It contains no property predicate; the
// *_Trace modules of spec/text judge the records.
package main

import (
	"fmt"

	"verif/harness/internal/vlib"
)

func main() {
	vlib.Main(run, replay)
}

func run(c *vlib.Ctx) error {
	switch c.Prop {
	case "C36":
		return runC36(c)
	case "C37":
		return runC37(c)
	case "C38":
		return runC38(c)
	case "C39":
		return runC39(c)
	case "C40":
		return runC40(c)
	case "C44":
		return runC44(c)
	}
	return fmt.Errorf("driver text does not serve property %s", c.Prop)
}

func replay(c *vlib.Ctx) error {
	doc := c.LoadReplay()
	begin, _ := doc["begin"].(map[string]any)
	if begin == nil {
		return fmt.Errorf("replay file has no begin record")
	}
	switch c.Prop {
	case "C36":
		return replayC36(c, begin)
	case "C37":
		return replayC37(c, begin)
	case "C38":
		return replayC38(c, begin)
	case "C39":
		return replayC39(c, begin)
	case "C40":
		return replayC40(c, begin)
	case "C44":
		return replayC44(c, begin)
	}
	return fmt.Errorf("driver text does not serve property %s", c.Prop)
}

// argInt reads "name=value" from the driver arguments.
func argInt(c *vlib.Ctx, name string, def int) int {
	for _, a := range c.Args {
		var v int
		if n, _ := fmt.Sscanf(a, name+"=%d", &v); n == 1 {
			return v
		}
	}
	return def
}

func errStr(err error) string {
	if err == nil {
		return ""
	}
	return err.Error()
}

// ascii makes a string safe for TLC's Json module: anything outside printable
// ASCII is hex-escaped as a whole.
func ascii(s string) string {
	for i := 0; i < len(s); i++ {
		if s[i] < 0x20 || s[i] > 0x7e {
			return fmt.Sprintf("hex:%x", s)
		}
	}
	return s
}

// forEachSeq enumerates all sequences over n symbols of length 0..maxLen in
// length-then-lexicographic order.
func forEachSeq(n, maxLen int, f func(idx []int)) {
	for l := 0; l <= maxLen; l++ {
		idx := make([]int, l)
		for {
			f(idx)
			i := l - 1
			for i >= 0 {
				idx[i]++
				if idx[i] < n {
					break
				}
				idx[i] = 0
				i--
			}
			if i < 0 {
				break
			}
		}
	}
}
