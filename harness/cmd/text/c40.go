package main

// C40: session selection and listing are exact.
//  - selection and ordering: for every population of the bound a real
//    synchronization.Manager in a scratch MUTAGEN_DATA_DIRECTORY gets the
//    population's sessions (created paused) and answers every query of the
//    bound through Manager.List;
//  - depth-first order: fastpath.Less on every ordered pair of paths of the
//    bound, core.SortConflicts / core.SortProblems on seeded random lists;
//  - truncation: real running sessions between two local directories that
//    hold n conflicting files and n invalid symbolic links per side, listed
//    through Manager.List once the first cycle has reported them.

import (
	"context"
	"fmt"
	"os"
	"path/filepath"
	"strings"
	"time"

	"github.com/mutagen-io/mutagen/pkg/filesystem"
	"github.com/mutagen-io/mutagen/pkg/identifier"
	"github.com/mutagen-io/mutagen/pkg/selection"
	"github.com/mutagen-io/mutagen/pkg/synchronization"
	"github.com/mutagen-io/mutagen/pkg/synchronization/core"
	"github.com/mutagen-io/mutagen/pkg/synchronization/core/fastpath"
	_ "github.com/mutagen-io/mutagen/pkg/synchronization/protocols/local" // registers the local protocol handler
	"github.com/mutagen-io/mutagen/pkg/url"

	"verif/harness/internal/vlib"
)

// tables of spec/text/Selection.tla
var c40Names = []string{"", "na", "nb"}
var c40Labels = []map[string]string{{}, {"k": "v"}, {"k": "w"}, {"k": "v", "m": "v"}}
var c40SpecSyms = []string{"id1", "id2", "id3", "na", "nb", "zz", "pre1"}
var c40Selectors = []string{"k", "!k", "k=v", "k!=v", "k=w", "k,m=v", "k!=v,!m", "m", "k=v,k!=v", "k in (v,w)", "k notin (v)", "m=w"}
var c40PathNames = []string{"a", "a-b", "a.b", "a0", "b"}

func c40Manager(c *vlib.Ctx, tag string) (*synchronization.Manager, string) {
	base := c.TempDir(tag)
	os.Setenv("MUTAGEN_DATA_DIRECTORY", filepath.Join(base, "data"))
	m, err := synchronization.NewManager(nil)
	if err != nil {
		vlib.Fatal("manager: %v", err)
	}
	return m, base
}

func localURL(path string) *url.URL {
	return &url.URL{Kind: url.Kind_Synchronization, Protocol: url.Protocol_Local, Path: path}
}

type c40Session struct {
	id, name     string
	labels       map[string]string
	csec, cnanos int64
}

func (s c40Session) enc() map[string]any {
	lb := map[string]any{}
	for k, v := range s.labels {
		lb[k] = v
	}
	return map[string]any{"id": s.id, "name": s.name, "labels": lb, "csec": int(s.csec), "cnano": int(s.cnanos)}
}

// c40Query runs one query against the manager and records the listing.
func c40Query(c *vlib.Ctx, m *synchronization.Manager, pop [][2]int, sessions []c40Session, q map[string]any) map[string]any {
	sel := &selection.Selection{}
	specs := []any{}
	switch q["kind"] {
	case "all":
		sel.All = true
	case "labels":
		sel.LabelSelector = c40Selectors[q["sel"].(int)-1]
	case "specs":
		for _, si := range q["syms"].([]any) {
			sym := c40SpecSyms[si.(int)-1]
			str := sym
			switch sym {
			case "id1", "id2", "id3":
				i := int(sym[2] - '1')
				if i < len(sessions) {
					str = sessions[i].id
				} else {
					str = "sync_" + strings.Repeat("Z", 42) + sym[2:]
				}
			case "pre1":
				if len(sessions) > 0 {
					str = identifier.Truncated(sessions[0].id)
				} else {
					str = "sync_00000000"
				}
			}
			sel.Specifications = append(sel.Specifications, str)
			specs = append(specs, str)
		}
	}
	ctx, cancel := context.WithTimeout(context.Background(), 60*time.Second)
	_, states, err := m.List(ctx, sel, 0)
	cancel()
	out := []any{}
	for _, st := range states {
		out = append(out, map[string]any{"id": st.Session.Identifier, "csec": int(st.Session.CreationTime.Seconds), "cnano": int(st.Session.CreationTime.Nanos)})
	}
	ps := make([]any, len(pop))
	for i, t := range pop {
		ps[i] = []any{t[0], t[1]}
	}
	ss := make([]any, len(sessions))
	for i, s := range sessions {
		ss[i] = s.enc()
	}
	rec := map[string]any{"ev": "Select", "in": map[string]any{"pop": ps, "q": q}, "sessions": ss, "specs": specs,
		"selector": sel.LabelSelector, "err": ascii(errStr(err)), "out": out}
	c.Eval()
	if len(out) > 0 {
		c.NonTrivial(fmt.Sprint(pop, q))
	}
	return rec
}

// c40Populate creates the population's sessions (paused) in a fresh manager.
func c40Populate(c *vlib.Ctx, pop [][2]int) (*synchronization.Manager, string, []c40Session) {
	m, base := c40Manager(c, "c40s-")
	var sessions []c40Session
	for i, t := range pop {
		labels := map[string]string{}
		for k, v := range c40Labels[t[1]-1] {
			labels[k] = v
		}
		ctx, cancel := context.WithTimeout(context.Background(), 60*time.Second)
		id, err := m.Create(ctx, localURL(filepath.Join(base, fmt.Sprintf("a%d", i))), localURL(filepath.Join(base, fmt.Sprintf("b%d", i))),
			&synchronization.Configuration{}, &synchronization.Configuration{}, &synchronization.Configuration{},
			c40Names[t[0]-1], labels, true, "")
		cancel()
		if err != nil {
			vlib.Fatal("create session: %v", err)
		}
		sessions = append(sessions, c40Session{id: id})
	}
	ctx, cancel := context.WithTimeout(context.Background(), 60*time.Second)
	_, states, err := m.List(ctx, &selection.Selection{All: true}, 0)
	cancel()
	if err != nil {
		vlib.Fatal("list all: %v", err)
	}
	for _, st := range states {
		for i := range sessions {
			if sessions[i].id == st.Session.Identifier {
				sessions[i].name = st.Session.Name
				sessions[i].labels = st.Session.Labels
				sessions[i].csec = st.Session.CreationTime.Seconds
				sessions[i].cnanos = int64(st.Session.CreationTime.Nanos)
			}
		}
	}
	return m, base, sessions
}

func c40Queries() []map[string]any {
	qs := []map[string]any{{"kind": "all"}}
	for i := range c40Selectors {
		qs = append(qs, map[string]any{"kind": "labels", "sel": i + 1})
	}
	n := len(c40SpecSyms)
	for a := 1; a <= n; a++ {
		qs = append(qs, map[string]any{"kind": "specs", "syms": []any{a}})
	}
	for a := 1; a <= n; a++ {
		for b := 1; b <= n; b++ {
			qs = append(qs, map[string]any{"kind": "specs", "syms": []any{a, b}})
		}
	}
	return qs
}

func compsAny(p []string) []any {
	out := make([]any, len(p))
	for i, s := range p {
		out[i] = s
	}
	return out
}

func pathsAny(ps [][]string) []any {
	out := make([]any, len(ps))
	for i, p := range ps {
		out[i] = compsAny(p)
	}
	return out
}

func splitPath(s string) []string {
	if s == "" {
		return []string{}
	}
	return strings.Split(s, "/")
}

func c40AllPaths(depth int) [][]string {
	var out [][]string
	forEachSeq(len(c40PathNames), depth, func(idx []int) {
		p := make([]string, len(idx))
		for i, k := range idx {
			p[i] = c40PathNames[k]
		}
		out = append(out, p)
	})
	return out
}

func c40Less(c *vlib.Ctx, a, b []string) map[string]any {
	as, bs := strings.Join(a, "/"), strings.Join(b, "/")
	c.Eval()
	less := fastpath.Less(as, bs)
	if less {
		c.NonTrivial("lt|" + as + "|" + bs)
	}
	return map[string]any{"ev": "Less", "in": map[string]any{"a": compsAny(a), "b": compsAny(b)}, "a": compsAny(a), "b": compsAny(b),
		"as": as, "bs": bs, "less": less}
}

func c40Sort(c *vlib.Ctx, kind string, input [][]string) map[string]any {
	var out [][]string
	if kind == "conflicts" {
		l := make([]*core.Conflict, len(input))
		for i, p := range input {
			l[i] = &core.Conflict{Root: strings.Join(p, "/")}
		}
		core.SortConflicts(l)
		for _, x := range l {
			out = append(out, splitPath(x.Root))
		}
	} else {
		l := make([]*core.Problem, len(input))
		for i, p := range input {
			l[i] = &core.Problem{Path: strings.Join(p, "/"), Error: "e"}
		}
		core.SortProblems(l)
		for _, x := range l {
			out = append(out, splitPath(x.Path))
		}
	}
	c.Eval()
	if len(input) > 1 {
		c.NonTrivial(fmt.Sprint(kind, input))
	}
	return map[string]any{"ev": "Sort", "in": map[string]any{"kind": kind, "input": pathsAny(input)}, "kind": kind,
		"input": pathsAny(input), "out": pathsAny(out)}
}

// listing case: path sets for conflicts and for the invalid links of each side
type c40ListCase struct{ conf, probA, probB [][]string }

func c40ListingSets(c *vlib.Ctx, counts [][3]int) []c40ListCase {
	var confU, probU [][]string
	for _, p := range c40AllPaths(3) {
		if len(p) != 3 {
			continue
		}
		if p[0] == "a0" || p[0] == "b" {
			probU = append(probU, p)
		} else {
			confU = append(confU, p)
		}
	}
	pick := func(u [][]string, n int) [][]string {
		perm := c.Rand.Perm(len(u))
		out := make([][]string, n)
		for i := 0; i < n; i++ {
			out[i] = u[perm[i]]
		}
		return out
	}
	var cases []c40ListCase
	for _, k := range counts {
		cases = append(cases, c40ListCase{pick(confU, k[0]), pick(probU, k[1]), pick(probU, k[2])})
	}
	return cases
}

func writeTree(root string, files [][]string, content string, links [][]string) {
	os.MkdirAll(root, 0o755)
	for _, p := range files {
		full := filepath.Join(append([]string{root}, p...)...)
		os.MkdirAll(filepath.Dir(full), 0o755)
		if err := os.WriteFile(full, []byte(content), 0o644); err != nil {
			vlib.Fatal("write %s: %v", full, err)
		}
	}
	for _, p := range links {
		full := filepath.Join(append([]string{root}, p...)...)
		os.MkdirAll(filepath.Dir(full), 0o755)
		if err := os.Symlink("/verif-nonexistent-absolute-target", full); err != nil {
			vlib.Fatal("symlink %s: %v", full, err)
		}
	}
}

func problemPaths(ps []*core.Problem) [][]string {
	out := [][]string{}
	for _, p := range ps {
		out = append(out, splitPath(p.Path))
	}
	return out
}

// c40Listings runs the cases as real sessions of one manager and lists them.
func c40Listings(c *vlib.Ctx, cases []c40ListCase) []map[string]any {
	m, base := c40Manager(c, "c40l-")
	defer m.Shutdown()
	ids := make([]string, len(cases))
	for i, k := range cases {
		ra, rb := filepath.Join(base, fmt.Sprintf("alpha%d", i)), filepath.Join(base, fmt.Sprintf("beta%d", i))
		writeTree(ra, k.conf, fmt.Sprintf("alpha %d", i), k.probA)
		writeTree(rb, k.conf, fmt.Sprintf("beta-side %d", i), k.probB)
		ctx, cancel := context.WithTimeout(context.Background(), 120*time.Second)
		id, err := m.Create(ctx, localURL(ra), localURL(rb), &synchronization.Configuration{}, &synchronization.Configuration{},
			&synchronization.Configuration{}, "", nil, false, "")
		cancel()
		if err != nil {
			vlib.Fatal("create listing session: %v", err)
		}
		ids[i] = id
	}
	recs := make([]map[string]any, len(cases))
	deadline := time.Now().Add(150 * time.Second)
	var index uint64
	for {
		ctx, cancel := context.WithTimeout(context.Background(), 5*time.Second)
		ni, states, err := m.List(ctx, &selection.Selection{All: true}, index)
		cancel()
		if err == nil {
			index = ni
		} else {
			// no state change within the poll: look at the current state
			ctx2, cancel2 := context.WithTimeout(context.Background(), 5*time.Second)
			_, states, _ = m.List(ctx2, &selection.Selection{All: true}, 0)
			cancel2()
		}
		complete := 0
		for i, k := range cases {
			for _, st := range states {
				if st.Session.Identifier != ids[i] {
					continue
				}
				conf := [][]string{}
				for _, x := range st.Conflicts {
					conf = append(conf, splitPath(x.Root))
				}
				full := len(st.Conflicts)+int(st.ExcludedConflicts) == len(k.conf) &&
					len(st.AlphaState.ScanProblems)+int(st.AlphaState.ExcludedScanProblems) == len(k.probA) &&
					len(st.BetaState.ScanProblems)+int(st.BetaState.ExcludedScanProblems) == len(k.probB) &&
					(st.SuccessfulCycles > 0 || len(k.conf)+len(k.probA)+len(k.probB) > 0)
				timedOut := time.Now().After(deadline)
				if full || timedOut {
					if full {
						complete++
					}
					recs[i] = map[string]any{"ev": "Listing",
						"in": map[string]any{"conf": pathsAny(k.conf), "probA": pathsAny(k.probA), "probB": pathsAny(k.probB)},
						"out": map[string]any{"conf": pathsAny(conf), "exConf": int(st.ExcludedConflicts),
							"probA": pathsAny(problemPaths(st.AlphaState.ScanProblems)), "exA": int(st.AlphaState.ExcludedScanProblems),
							"probB": pathsAny(problemPaths(st.BetaState.ScanProblems)), "exB": int(st.BetaState.ExcludedScanProblems)},
						"timeout": !full, "status": st.Status.String(), "lastError": ascii(st.LastError), "cycles": int(st.SuccessfulCycles)}
				}
			}
		}
		if complete == len(cases) || time.Now().After(deadline) {
			break
		}
	}
	ctx, cancel := context.WithTimeout(context.Background(), 120*time.Second)
	m.Terminate(ctx, &selection.Selection{All: true}, "")
	cancel()
	for i := range recs {
		if recs[i] == nil {
			vlib.Fatal("listing session %d was never reported", i)
		}
		c.Eval()
		c.NonTrivial(fmt.Sprint("listing", i, cases[i]))
	}
	return recs
}

// ---- histories: selection on a manager whose registry has a history

type c40Op struct {
	kind     string // "term" | "pause"
	sel      string // "all" | "id" | "name" | "label"
	arg      int    // session index (id), name index (2 = na, 3 = nb), selector index (label)
	sabotage int    // session whose file is removed before the call (0 = none)
}

var c40Pops = [][][2]int{{{2, 2}, {2, 3}, {3, 4}}, {{1, 1}, {2, 2}, {3, 3}}}
var c40Histories = [][]c40Op{
	{},
	{{"term", "id", 1, 0}},
	{{"term", "name", 2, 0}},
	{{"term", "label", 3, 0}},
	{{"term", "all", 0, 0}},
	{{"term", "id", 2, 0}, {"term", "id", 2, 0}},
	{{"term", "label", 1, 1}},
	{{"term", "label", 1, 2}},
	{{"term", "label", 1, 3}},
	{{"term", "name", 2, 1}},
	{{"term", "name", 2, 2}},
	{{"pause", "all", 0, 0}, {"term", "id", 3, 0}},
	{{"term", "label", 3, 0}, {"term", "label", 1, 0}},
	{{"term", "all", 0, 2}, {"term", "all", 0, 0}},
	{{"term", "id", 1, 1}},
	{{"term", "all", 0, 1}, {"term", "id", 2, 0}, {"pause", "all", 0, 0}},
	{{"pause", "id", 1, 0}, {"term", "name", 3, 0}},
	{{"term", "label", 5, 0}, {"term", "label", 4, 0}},
	{{"term", "all", 0, 3}, {"term", "label", 1, 0}, {"term", "all", 0, 0}},
	{{"term", "id", 3, 0}, {"term", "id", 1, 0}, {"term", "id", 2, 0}},
	{{"term", "name", 3, 3}, {"term", "name", 3, 0}},
	{{"term", "label", 2, 0}},
}

func c40SessionFile(id string) string {
	p, err := filesystem.Mutagen(false, filesystem.MutagenSynchronizationSessionsDirectoryName, id)
	if err != nil {
		vlib.Fatal("session path: %v", err)
	}
	return p
}

func c40ArchiveFile(id string) string {
	p, err := filesystem.Mutagen(false, filesystem.MutagenSynchronizationArchivesDirectoryName, id)
	if err != nil {
		vlib.Fatal("archive path: %v", err)
	}
	return p
}

func c40History(c *vlib.Ctx, pi, hi int) map[string]any {
	pop := c40Pops[pi-1]
	m, base, sessions := c40Populate(c, pop)
	defer os.RemoveAll(base)
	defer m.Shutdown()
	ctx, cancel := context.WithTimeout(context.Background(), 120*time.Second)
	defer cancel()
	ops := []any{}
	sabotaged := make([]bool, len(sessions))
	for _, op := range c40Histories[hi-1] {
		sel := &selection.Selection{}
		switch op.sel {
		case "all":
			sel.All = true
		case "id":
			sel.Specifications = []string{sessions[op.arg-1].id}
		case "name":
			sel.Specifications = []string{c40Names[op.arg-1]}
		case "label":
			sel.LabelSelector = c40Selectors[op.arg-1]
		}
		// (the table's sabotaged session is among the selected ones for the first population only)
		if op.sabotage > 0 && pi == 1 {
			if os.Remove(c40SessionFile(sessions[op.sabotage-1].id)) == nil {
				sabotaged[op.sabotage-1] = true
			}
		}
		var err error
		if op.kind == "term" {
			err = m.Terminate(ctx, sel, "")
		} else {
			err = m.Pause(ctx, sel, "")
		}
		ops = append(ops, map[string]any{"op": op.kind, "sel": op.sel, "arg": op.arg, "sabotage": op.sabotage, "err": ascii(errStr(err))})
	}
	ss := []any{}
	for i, s := range sessions {
		e := s.enc()
		_, statErr := os.Stat(c40SessionFile(s.id))
		_, archErr := os.Stat(c40ArchiveFile(s.id))
		e["file"] = statErr == nil
		e["archive"] = archErr == nil
		e["sabotaged"] = sabotaged[i] // the driver itself removed the session file
		ss = append(ss, e)
	}
	var queries []any
	ask := func(q map[string]any, sel *selection.Selection, specs []any) {
		_, states, err := m.List(ctx, sel, 0)
		out := []any{}
		for _, st := range states {
			out = append(out, map[string]any{"id": st.Session.Identifier, "csec": int(st.Session.CreationTime.Seconds), "cnano": int(st.Session.CreationTime.Nanos)})
		}
		queries = append(queries, map[string]any{"q": q, "specs": specs, "err": ascii(errStr(err)), "out": out})
	}
	ask(map[string]any{"kind": "all"}, &selection.Selection{All: true}, []any{})
	for i, text := range c40Selectors {
		ask(map[string]any{"kind": "labels", "sel": i + 1}, &selection.Selection{LabelSelector: text}, []any{})
	}
	for _, s := range sessions {
		ask(map[string]any{"kind": "specs", "syms": []any{1}}, &selection.Selection{Specifications: []string{s.id}}, []any{s.id})
	}
	for _, name := range []string{"na", "nb"} {
		ask(map[string]any{"kind": "specs", "syms": []any{4}}, &selection.Selection{Specifications: []string{name}}, []any{name})
	}
	c.Eval()
	c.NonTrivial(fmt.Sprint("history", pi, hi))
	return map[string]any{"ev": "History", "in": map[string]any{"h": pi*100 + hi, "pop": pi, "hist": hi}, "sessions": ss, "ops": ops, "queries": queries}
}

func runC40(c *vlib.Ctx) error {
	maxPop := argInt(c, "pop", 2)
	depth := argInt(c, "depth", 2)
	nsort := argInt(c, "sorts", 300)
	// 1. selection and ordering
	var types [][2]int
	for n := 1; n <= 3; n++ {
		for lb := 1; lb <= 4; lb++ {
			types = append(types, [2]int{n, lb})
		}
	}
	queries := c40Queries()
	n := 0
	forEachSeq(len(types), maxPop, func(idx []int) {
		pop := make([][2]int, len(idx))
		for i, k := range idx {
			pop[i] = types[k]
		}
		m, base, sessions := c40Populate(c, pop)
		for _, q := range queries {
			rec := c40Query(c, m, pop, sessions, q)
			c.Emit(rec)
			if n%3001 == 17 {
				c.Sample(rec)
			}
			n++
		}
		m.Shutdown()
		os.RemoveAll(base)
	})
	c.SetExtra("select_cases", n)
	// 2. depth-first order
	paths := c40AllPaths(depth)
	for _, a := range paths {
		for _, b := range paths {
			c.Emit(c40Less(c, a, b))
		}
	}
	c.SetExtra("less_pairs", len(paths)*len(paths))
	deep := c40AllPaths(3)
	for i := 0; i < nsort; i++ {
		l := make([][]string, c.Rand.Intn(26))
		for j := range l {
			l[j] = deep[c.Rand.Intn(len(deep))]
		}
		rec := c40Sort(c, []string{"conflicts", "problems"}[i%2], l)
		c.Emit(rec)
		if i == 3 {
			c.Sample(rec)
		}
	}
	// 2b. selection after a history of lifecycle operations
	for pi := range c40Pops {
		for hi := range c40Histories {
			rec := c40History(c, pi+1, hi+1)
			c.Emit(rec)
			if pi == 0 && hi == 7 {
				c.Sample(rec)
			}
		}
	}
	c.SetExtra("histories", len(c40Pops)*len(c40Histories))
	// 3. truncation on real sessions
	cases := c40ListingSets(c, [][3]int{{0, 0, 0}, {9, 10, 11}, {10, 11, 9}, {11, 9, 10}, {25, 25, 25}, {1, 12, 0}})
	for _, rec := range c40Listings(c, cases) {
		c.Emit(rec)
		c.Sample(rec)
	}
	c.SetExhaustive(true)
	return nil
}

func replayC40(c *vlib.Ctx, begin map[string]any) error {
	in, _ := begin["in"].(map[string]any)
	if in == nil {
		return fmt.Errorf("replay record has no input")
	}
	switch begin["ev"] {
	case "Select":
		var pop [][2]int
		vlib.Decode(in["pop"], &pop)
		for _, t := range pop {
			if t[0] < 1 || t[0] > 3 || t[1] < 1 || t[1] > 4 {
				return fmt.Errorf("population out of range")
			}
		}
		q, _ := in["q"].(map[string]any)
		if q == nil {
			return fmt.Errorf("no query")
		}
		qq := map[string]any{"kind": q["kind"]}
		if q["kind"] == "labels" {
			var s int
			vlib.Decode(q["sel"], &s)
			if s < 1 || s > len(c40Selectors) {
				return fmt.Errorf("selector out of range")
			}
			qq["sel"] = s
		} else if q["kind"] == "specs" {
			var syms []int
			vlib.Decode(q["syms"], &syms)
			l := []any{}
			for _, s := range syms {
				if s < 1 || s > len(c40SpecSyms) {
					return fmt.Errorf("specification symbol out of range")
				}
				l = append(l, s)
			}
			qq["syms"] = l
		}
		m, _, sessions := c40Populate(c, pop)
		defer m.Shutdown()
		c.Emit(c40Query(c, m, pop, sessions, qq))
	case "History":
		var pi, hi int
		vlib.Decode(in["pop"], &pi)
		vlib.Decode(in["hist"], &hi)
		if pi < 1 || pi > len(c40Pops) || hi < 1 || hi > len(c40Histories) {
			return fmt.Errorf("history out of range")
		}
		c.Emit(c40History(c, pi, hi))
	case "Less":
		var a, b []string
		vlib.Decode(in["a"], &a)
		vlib.Decode(in["b"], &b)
		c.Emit(c40Less(c, a, b))
	case "Sort":
		var input [][]string
		vlib.Decode(in["input"], &input)
		kind, _ := in["kind"].(string)
		c.Emit(c40Sort(c, kind, input))
	case "Listing":
		var k c40ListCase
		vlib.Decode(in["conf"], &k.conf)
		vlib.Decode(in["probA"], &k.probA)
		vlib.Decode(in["probB"], &k.probB)
		for _, rec := range c40Listings(c, []c40ListCase{k}) {
			c.Emit(rec)
		}
	default:
		return fmt.Errorf("unknown record kind %v", begin["ev"])
	}
	return nil
}
