package main

// C36: URL components are never treated as command-line options. Every
// (user, host/container) token string pair of the bound is placed in an
// SCP-style SSH URL and in a docker:// URL and taken through the real
// url.Parse, EnsureValid and - if accepted - the real SSH and Docker agent
// transports. Recording fake ssh / scp / docker executables (a shell script
// first on the search paths) log the argument vectors they are started with;
// the *exec.Cmd returned by Transport.Command is recorded as well.

import (
	"fmt"
	"os"
	"path/filepath"
	"strconv"
	"strings"
	"time"

	"github.com/mutagen-io/mutagen/pkg/agent"
	dockertransport "github.com/mutagen-io/mutagen/pkg/agent/transport/docker"
	sshtransport "github.com/mutagen-io/mutagen/pkg/agent/transport/ssh"
	"github.com/mutagen-io/mutagen/pkg/url"

	"verif/harness/internal/vlib"
)

// canonical token order of spec/text/Argv_Trace.tla (TokOrder); TAB and LF
// are written by name in every recorded string and character sequence
var c36Tokens = []string{"-", "a", "@", "/", " ", "TAB", "LF", "o"} // quick uses the first 7

func c36Text(toks []string) string {
	var sb strings.Builder
	for _, t := range toks {
		switch t {
		case "TAB":
			sb.WriteByte('\t')
		case "LF":
			sb.WriteByte('\n')
		default:
			sb.WriteString(t)
		}
	}
	return sb.String()
}

// random components are sequences of these pieces (white space as its own piece, by name)
var c36Random = []string{" ", "TAB", "LF", " ", "-", "--", "-o", "-oProxyCommand=x", "ProxyCommand", "=", "a", "b", "root", "host", "example.com", "@", "-l",
	"-p", "22", "--help", "--user", "--privileged", "-it", "-v", "/", ".", "_", "c1", "-c", "-F", "-J", "x"}

const c36Fake = `#!/bin/sh
# recording fake ssh / scp / docker: one line per argument, then the answers the
# Docker transport's container probing needs
# (every argument as "A<length>" + newline + the argument + newline, so that arguments may contain newlines)
{ printf 'P%s\n' "$0"; for a in "$@"; do printf 'A%d\n%s\n' "${#a}" "$a"; done; printf 'E\n'; } >> "$VERIF_ARGV_LOG"
u=root; p=
for a in "$@"; do if [ "$p" = "--user" ]; then u=$a; fi; p=$a; done
case "$*" in
  *" env") echo "HOME=/root" ;;
  *" id -un") echo "$u" ;;
  *" id -gn") echo "root" ;;
esac
exit 0
`

const (
	c36Cmd    = ".mutagen/agents/0.0.0/mutagen-agent synchronizer"
	c36Remote = ".mutagen-agent-verif"
	c36Home   = "/root"
)

type c36Env struct {
	bin, log, local string
}

func c36Setup(c *vlib.Ctx) *c36Env {
	base := c.TempDir("c36-")
	e := &c36Env{bin: filepath.Join(base, "bin"), log: filepath.Join(base, "argv.log"), local: filepath.Join(base, "payload", "agent-bin")}
	os.MkdirAll(e.bin, 0o755)
	os.MkdirAll(filepath.Dir(e.local), 0o755)
	os.WriteFile(e.local, []byte("x"), 0o755)
	for _, n := range []string{"ssh", "scp", "docker"} {
		if err := os.WriteFile(filepath.Join(e.bin, n), []byte(c36Fake), 0o755); err != nil {
			vlib.Fatal("fake %s: %v", n, err)
		}
	}
	for _, kv := range os.Environ() {
		name := strings.SplitN(kv, "=", 2)[0]
		if strings.HasPrefix(name, "DOCKER_") || strings.HasPrefix(name, "MUTAGEN_") {
			os.Unsetenv(name)
		}
	}
	os.Setenv("PATH", e.bin+":"+os.Getenv("PATH"))
	os.Setenv("MUTAGEN_SSH_PATH", e.bin)
	os.Setenv("MUTAGEN_DOCKER_PATH", e.bin)
	os.Setenv("VERIF_ARGV_LOG", e.log)
	os.WriteFile(e.log, nil, 0o644)
	return e
}

// chars renders text character by character; TAB and LF by name.
func chars(s string) []any {
	out := make([]any, len(s))
	for i := 0; i < len(s); i++ {
		switch c := s[i]; {
		case c == '\t':
			out[i] = "TAB"
		case c == '\n':
			out[i] = "LF"
		case c >= 0x20 && c <= 0x7e:
			out[i] = string(rune(c))
		default:
			out[i] = fmt.Sprintf("x%02x", c)
		}
	}
	return out
}

// encStr is the string form of chars (the same naming of TAB and LF).
func encStr(s string) string {
	var sb strings.Builder
	for _, c := range chars(s) {
		sb.WriteString(c.(string))
	}
	return sb.String()
}

func encCmd(prog, via string, args []string) map[string]any {
	av := make([]any, len(args))
	ac := make([]any, len(args))
	for i, a := range args {
		av[i] = encStr(a)
		ac[i] = chars(a)
	}
	return map[string]any{"prog": prog, "via": via, "argv": av, "argvc": ac}
}

// drainLog returns the invocations the fakes appended since the last call.
func (e *c36Env) drainLog() []map[string]any {
	data, err := os.ReadFile(e.log)
	if err != nil {
		return nil
	}
	var out []map[string]any
	var prog string
	var args []string
	for pos := 0; pos < len(data); {
		nl := strings.IndexByte(string(data[pos:]), '\n')
		if nl < 0 {
			break
		}
		line := string(data[pos : pos+nl])
		pos += nl + 1
		switch {
		case strings.HasPrefix(line, "P"):
			prog = filepath.Base(line[1:])
			args = []string{}
		case strings.HasPrefix(line, "A"):
			n, err := strconv.Atoi(line[1:])
			if err != nil || pos+n > len(data) {
				vlib.Fatal("malformed fake log")
			}
			args = append(args, string(data[pos:pos+n]))
			pos += n + 1
		case line == "E":
			out = append(out, encCmd(prog, "fake", args))
		}
	}
	os.Truncate(e.log, 0)
	return out
}

func c36In(dom, route, form string, user, host []string, spawn bool) map[string]any {
	var sb strings.Builder
	if form == "docker" {
		sb.WriteString("docker://")
	}
	if len(user) > 0 {
		sb.WriteString(strings.Join(user, ""))
		sb.WriteString("@")
	}
	sb.WriteString(strings.Join(host, ""))
	if form == "docker" {
		sb.WriteString("/p")
	} else {
		sb.WriteString(":p")
	}
	u := make([]any, len(user))
	for i, t := range user {
		u[i] = t
	}
	h := make([]any, len(host))
	for i, t := range host {
		h[i] = t
	}
	// s: the URL string in the recorded naming (TAB, LF by name); only used on the parse route
	return map[string]any{"dom": dom, "route": route, "form": form, "user": u, "host": h, "s": sb.String(), "spawn": spawn}
}

// c36Message produces the URL message of the case: parsed from the URL string
// or built directly, as a client other than the mutagen command line could
// send it to the daemon.
func c36Message(in map[string]any) (*url.URL, error) {
	var user, host []string
	vlib.Decode(in["user"], &user)
	vlib.Decode(in["host"], &host)
	form, _ := in["form"].(string)
	if in["route"] == "raw" {
		u := &url.URL{Kind: url.Kind_Synchronization, Protocol: url.Protocol_SSH, User: c36Text(user), Host: c36Text(host), Path: "p"}
		if form == "docker" {
			u.Protocol, u.Path, u.Environment = url.Protocol_Docker, "/p", map[string]string{}
		}
		return u, nil
	}
	raw := c36Text(host) + ":p"
	if form == "docker" {
		raw = c36Text(host) + "/p"
	}
	if len(user) > 0 {
		raw = c36Text(user) + "@" + raw
	}
	if form == "docker" {
		raw = "docker://" + raw
	}
	return url.Parse(raw, url.Kind_Synchronization, true)
}

func c36Case(c *vlib.Ctx, e *c36Env, in map[string]any) map[string]any {
	s := fmt.Sprint(in["route"], "|", in["s"])
	spawn, _ := in["spawn"].(bool)
	rec := map[string]any{"ev": "Argv", "in": in, "accepted": false, "perr": "", "verr": "", "url": map[string]any{},
		"x": map[string]any{"cmd": c36Cmd, "words": toksAny(strings.Split(c36Cmd, " ")), "src": filepath.Base(e.local),
			"remote": c36Remote, "home": c36Home, "local": e.local}}
	cmds := []any{}
	errs := []any{}
	done := make(chan struct{})
	go func() {
		defer close(done)
		u, err := c36Message(in)
		if err != nil {
			rec["perr"] = ascii(err.Error())
			return
		}
		if verr := u.EnsureValid(); verr != nil {
			rec["verr"] = ascii(verr.Error())
			return
		}
		rec["accepted"] = true
		eu := encURL(u)
		eu["user"], eu["host"], eu["path"] = encStr(u.User), encStr(u.Host), encStr(u.Path)
		rec["url"] = eu
		var t agent.Transport
		switch u.Protocol {
		case url.Protocol_SSH:
			t, err = sshtransport.NewTransport(u.User, u.Host, uint16(u.Port), "")
		case url.Protocol_Docker:
			t, err = dockertransport.NewTransport(u.Host, u.User, u.Environment, u.Parameters, "")
		default:
			return
		}
		if err != nil {
			errs = append(errs, ascii("transport: "+err.Error()))
			return
		}
		cmd, err := t.Command(c36Cmd)
		if err != nil {
			errs = append(errs, ascii("command: "+err.Error()))
		} else {
			cmds = append(cmds, encCmd(filepath.Base(cmd.Path), "args", cmd.Args[1:]))
			if spawn {
				if err := cmd.Run(); err != nil {
					errs = append(errs, ascii("run: "+err.Error()))
				}
			}
		}
		if spawn {
			if err := t.Copy(e.local, c36Remote); err != nil {
				errs = append(errs, ascii("copy: "+err.Error()))
			}
		}
	}()
	select {
	case <-done:
	case <-time.After(180 * time.Second):
		vlib.Fatal("C36 case %q did not finish within the watchdog", s)
	}
	for _, k := range e.drainLog() {
		cmds = append(cmds, k)
	}
	rec["cmds"] = cmds
	rec["errs"] = errs
	c.Eval()
	if len(cmds) > 0 {
		c.NonTrivial(s)
	}
	return rec
}

func parseBox(c *vlib.Ctx, name string, def [4]int) [4]int {
	for _, a := range c.Args {
		if strings.HasPrefix(a, name+"=") {
			parts := strings.Split(a[len(name)+1:], ",")
			if len(parts) == 4 {
				var b [4]int
				for i, p := range parts {
					b[i], _ = strconv.Atoi(p)
				}
				return b
			}
		}
	}
	return def
}

func inBox(b [4]int, u, h int) bool {
	return h >= 1 && ((u <= b[0] && h <= b[1]) || (u <= b[2] && h <= b[3]))
}

func runC36(c *vlib.Ctx) error {
	e := c36Setup(c)
	boxes := map[string][4]int{"ssh": parseBox(c, "ssh", [4]int{1, 3, 3, 1}), "docker": parseBox(c, "docker", [4]int{1, 1, 0, 2})}
	sshSpawn := argInt(c, "sshspawn", 1)   // ssh: run the command and Copy when both components are at most this long
	dockerCopy := argInt(c, "dockercopy", 1) // docker: Copy when there is no user and the container is at most this long
	nrand := argInt(c, "rand", 60)
	toInts := func(b [4]int) []any { return []any{b[0], b[1], b[2], b[3]} }
	c.Emit(map[string]any{"ev": "Bound", "ssh": toInts(boxes["ssh"]), "docker": toInts(boxes["docker"])})
	n := 0
	c36Tokens := c36Tokens[:argInt(c, "ntok", 7)]
	for _, route := range []string{"parse", "raw"} {
		for _, form := range []string{"ssh", "docker"} {
			b := boxes[form]
			maxU, maxH := max(b[0], b[2]), max(b[1], b[3])
			forEachSeq(len(c36Tokens), maxU, func(ui []int) {
				user := make([]string, len(ui))
				for i, k := range ui {
					user[i] = c36Tokens[k]
				}
				forEachSeq(len(c36Tokens), maxH, func(hi []int) {
					if !inBox(b, len(ui), len(hi)) {
						return
					}
					host := make([]string, len(hi))
					for i, k := range hi {
						host[i] = c36Tokens[k]
					}
					spawn := false
					if form == "ssh" {
						spawn = len(ui) <= sshSpawn && len(hi) <= sshSpawn
					} else {
						spawn = len(ui) == 0 && len(hi) <= dockerCopy
					}
					rec := c36Case(c, e, c36In("box", route, form, user, host, spawn))
					c.Emit(rec)
					if n%4999 == 3 {
						c.Sample(rec)
					}
					n++
				})
			})
		}
	}
	c.SetExhaustive(true)
	c.SetExtra("domain_cases", n)
	for i := 0; i < nrand; i++ {
		form := []string{"ssh", "docker"}[c.Rand.Intn(2)]
		pick := func(max int) []string {
			k := c.Rand.Intn(max + 1)
			out := make([]string, k)
			for j := range out {
				out[j] = c36Random[c.Rand.Intn(len(c36Random))]
			}
			return out
		}
		host := pick(3)
		if len(host) == 0 {
			host = []string{"h"}
		}
		rec := c36Case(c, e, c36In("none", []string{"parse", "raw"}[c.Rand.Intn(2)], form, pick(3), host, true))
		c.Emit(rec)
		if i == 5 {
			c.Sample(rec)
		}
	}
	c.SetExtra("random_cases", nrand)
	return nil
}

func replayC36(c *vlib.Ctx, begin map[string]any) error {
	if begin["ev"] != "Argv" {
		return fmt.Errorf("nothing to replay for a %v record", begin["ev"])
	}
	in, _ := begin["in"].(map[string]any)
	if in == nil {
		return fmt.Errorf("replay record has no input")
	}
	if in["route"] != "parse" && in["route"] != "raw" {
		return fmt.Errorf("replay input has no route")
	}
	e := c36Setup(c)
	c.Emit(c36Case(c, e, in))
	return nil
}
