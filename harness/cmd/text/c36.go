package main

// C36: URL components are never treated as command-line options. Every
// (user, host/container) token string pair of the bound is placed in an
// SCP-style SSH URL and in a docker:// URL and taken through the real
// url.Parse, EnsureValid and - if accepted - the real SSH and Docker agent
// transports. Recording fake ssh / scp / docker executables (a shell script
// first on the search paths) log the argument vectors they are started with;
// the *exec.Cmd returned by Transport.Command is recorded as well.

import (
	"bufio"
	"fmt"
	"os"
	"path/filepath"
	"strconv"
	"strings"
	"time"

	"github.com/mutagen-io/mutagen/pkg/agent"
	dockertransport "github.com/mutagen-io/mutagen/pkg/agent/transport/docker"
	sshtransport "github.com/mutagen-io/mutagen/pkg/agent/transport/ssh"
	"github.com/mutagen-io/mutagen/pkg/url"

	"verif/harness/internal/vlib"
)

// canonical token order of spec/text/Argv_Trace.tla (TokOrder)
var c36Tokens = []string{"-", "a", "@", ":", "/", "o", "="}

var c36Random = []string{"-", "--", "-o", "-oProxyCommand=x", "ProxyCommand", "=", "a", "b", "root", "host", "example.com", "@", "-l",
	"-p", "22", "--help", "--user", "--privileged", "-it", "-v", "/", ".", "_", "c1", "-c", "-F", "-J", "x"}

const c36Fake = `#!/bin/sh
# recording fake ssh / scp / docker: one line per argument, then the answers the
# Docker transport's container probing needs
{ printf 'P%s\n' "$0"; for a in "$@"; do printf 'A%s\n' "$a"; done; printf 'E\n'; } >> "$VERIF_ARGV_LOG"
u=root; p=
for a in "$@"; do if [ "$p" = "--user" ]; then u=$a; fi; p=$a; done
case "$*" in
  *" env") echo "HOME=/root" ;;
  *" id -un") echo "$u" ;;
  *" id -gn") echo "root" ;;
esac
exit 0
`

const (
	c36Cmd    = ".mutagen/agents/0.0.0/mutagen-agent synchronizer"
	c36Remote = ".mutagen-agent-verif"
	c36Home   = "/root"
)

type c36Env struct {
	bin, log, local string
}

func c36Setup(c *vlib.Ctx) *c36Env {
	base := c.TempDir("c36-")
	e := &c36Env{bin: filepath.Join(base, "bin"), log: filepath.Join(base, "argv.log"), local: filepath.Join(base, "payload", "agent-bin")}
	os.MkdirAll(e.bin, 0o755)
	os.MkdirAll(filepath.Dir(e.local), 0o755)
	os.WriteFile(e.local, []byte("x"), 0o755)
	for _, n := range []string{"ssh", "scp", "docker"} {
		if err := os.WriteFile(filepath.Join(e.bin, n), []byte(c36Fake), 0o755); err != nil {
			vlib.Fatal("fake %s: %v", n, err)
		}
	}
	for _, kv := range os.Environ() {
		name := strings.SplitN(kv, "=", 2)[0]
		if strings.HasPrefix(name, "DOCKER_") || strings.HasPrefix(name, "MUTAGEN_") {
			os.Unsetenv(name)
		}
	}
	os.Setenv("PATH", e.bin+":"+os.Getenv("PATH"))
	os.Setenv("MUTAGEN_SSH_PATH", e.bin)
	os.Setenv("MUTAGEN_DOCKER_PATH", e.bin)
	os.Setenv("VERIF_ARGV_LOG", e.log)
	os.WriteFile(e.log, nil, 0o644)
	return e
}

func chars(s string) []any {
	out := make([]any, len(s))
	for i := 0; i < len(s); i++ {
		out[i] = string(s[i : i+1])
	}
	return out
}

func encCmd(prog, via string, args []string) map[string]any {
	av := make([]any, len(args))
	ac := make([]any, len(args))
	for i, a := range args {
		av[i] = a
		ac[i] = chars(a)
	}
	return map[string]any{"prog": prog, "via": via, "argv": av, "argvc": ac}
}

// drainLog returns the invocations the fakes appended since the last call.
func (e *c36Env) drainLog() []map[string]any {
	f, err := os.Open(e.log)
	if err != nil {
		return nil
	}
	var out []map[string]any
	var prog string
	var args []string
	sc := bufio.NewScanner(f)
	sc.Buffer(make([]byte, 1<<16), 1<<22)
	for sc.Scan() {
		line := sc.Text()
		switch {
		case strings.HasPrefix(line, "P"):
			prog = filepath.Base(line[1:])
			args = []string{}
		case strings.HasPrefix(line, "A"):
			args = append(args, line[1:])
		case line == "E":
			out = append(out, encCmd(prog, "fake", args))
		}
	}
	f.Close()
	os.Truncate(e.log, 0)
	return out
}

func c36In(dom, form string, user, host []string, spawn bool) map[string]any {
	var sb strings.Builder
	if form == "docker" {
		sb.WriteString("docker://")
	}
	if len(user) > 0 {
		sb.WriteString(strings.Join(user, ""))
		sb.WriteString("@")
	}
	sb.WriteString(strings.Join(host, ""))
	if form == "docker" {
		sb.WriteString("/p")
	} else {
		sb.WriteString(":p")
	}
	u := make([]any, len(user))
	for i, t := range user {
		u[i] = t
	}
	h := make([]any, len(host))
	for i, t := range host {
		h[i] = t
	}
	return map[string]any{"dom": dom, "form": form, "user": u, "host": h, "s": sb.String(), "spawn": spawn}
}

func c36Case(c *vlib.Ctx, e *c36Env, in map[string]any) map[string]any {
	s := in["s"].(string)
	spawn, _ := in["spawn"].(bool)
	rec := map[string]any{"ev": "Argv", "in": in, "accepted": false, "perr": "", "verr": "", "url": map[string]any{},
		"x": map[string]any{"cmd": c36Cmd, "src": filepath.Base(e.local), "remote": c36Remote, "home": c36Home, "local": e.local}}
	cmds := []any{}
	errs := []any{}
	done := make(chan struct{})
	go func() {
		defer close(done)
		u, err := url.Parse(s, url.Kind_Synchronization, true)
		if err != nil {
			rec["perr"] = ascii(err.Error())
			return
		}
		if verr := u.EnsureValid(); verr != nil {
			rec["verr"] = ascii(verr.Error())
			return
		}
		rec["accepted"] = true
		rec["url"] = encURL(u)
		var t agent.Transport
		switch u.Protocol {
		case url.Protocol_SSH:
			t, err = sshtransport.NewTransport(u.User, u.Host, uint16(u.Port), "")
		case url.Protocol_Docker:
			t, err = dockertransport.NewTransport(u.Host, u.User, u.Environment, u.Parameters, "")
		default:
			return
		}
		if err != nil {
			errs = append(errs, ascii("transport: "+err.Error()))
			return
		}
		cmd, err := t.Command(c36Cmd)
		if err != nil {
			errs = append(errs, ascii("command: "+err.Error()))
		} else {
			cmds = append(cmds, encCmd(filepath.Base(cmd.Path), "args", cmd.Args[1:]))
			if spawn {
				if err := cmd.Run(); err != nil {
					errs = append(errs, ascii("run: "+err.Error()))
				}
			}
		}
		if spawn {
			if err := t.Copy(e.local, c36Remote); err != nil {
				errs = append(errs, ascii("copy: "+err.Error()))
			}
		}
	}()
	select {
	case <-done:
	case <-time.After(180 * time.Second):
		vlib.Fatal("C36 case %q did not finish within the watchdog", s)
	}
	for _, k := range e.drainLog() {
		cmds = append(cmds, k)
	}
	rec["cmds"] = cmds
	rec["errs"] = errs
	c.Eval()
	if len(cmds) > 0 {
		c.NonTrivial(s)
	}
	return rec
}

func parseBox(c *vlib.Ctx, name string, def [4]int) [4]int {
	for _, a := range c.Args {
		if strings.HasPrefix(a, name+"=") {
			parts := strings.Split(a[len(name)+1:], ",")
			if len(parts) == 4 {
				var b [4]int
				for i, p := range parts {
					b[i], _ = strconv.Atoi(p)
				}
				return b
			}
		}
	}
	return def
}

func inBox(b [4]int, u, h int) bool {
	return h >= 1 && ((u <= b[0] && h <= b[1]) || (u <= b[2] && h <= b[3]))
}

func runC36(c *vlib.Ctx) error {
	e := c36Setup(c)
	boxes := map[string][4]int{"ssh": parseBox(c, "ssh", [4]int{1, 3, 3, 1}), "docker": parseBox(c, "docker", [4]int{1, 1, 0, 2})}
	sshSpawn := argInt(c, "sshspawn", 1)   // ssh: run the command and Copy when both components are at most this long
	dockerCopy := argInt(c, "dockercopy", 1) // docker: Copy when both components are at most this long
	nrand := argInt(c, "rand", 60)
	toInts := func(b [4]int) []any { return []any{b[0], b[1], b[2], b[3]} }
	c.Emit(map[string]any{"ev": "Bound", "ssh": toInts(boxes["ssh"]), "docker": toInts(boxes["docker"])})
	n := 0
	for _, form := range []string{"ssh", "docker"} {
		b := boxes[form]
		maxU, maxH := max(b[0], b[2]), max(b[1], b[3])
		forEachSeq(len(c36Tokens), maxU, func(ui []int) {
			user := make([]string, len(ui))
			for i, k := range ui {
				user[i] = c36Tokens[k]
			}
			forEachSeq(len(c36Tokens), maxH, func(hi []int) {
				if !inBox(b, len(ui), len(hi)) {
					return
				}
				host := make([]string, len(hi))
				for i, k := range hi {
					host[i] = c36Tokens[k]
				}
				spawn := false
				if form == "ssh" {
					spawn = len(ui) <= sshSpawn && len(hi) <= sshSpawn
				} else {
					spawn = len(ui) <= dockerCopy && len(hi) <= dockerCopy
				}
				rec := c36Case(c, e, c36In("box", form, user, host, spawn))
				c.Emit(rec)
				if n%1499 == 3 {
					c.Sample(rec)
				}
				n++
			})
		})
	}
	c.SetExhaustive(true)
	c.SetExtra("domain_cases", n)
	for i := 0; i < nrand; i++ {
		form := []string{"ssh", "docker"}[c.Rand.Intn(2)]
		pick := func(max int) []string {
			k := c.Rand.Intn(max + 1)
			out := make([]string, k)
			for j := range out {
				out[j] = c36Random[c.Rand.Intn(len(c36Random))]
			}
			return out
		}
		host := pick(2)
		if len(host) == 0 {
			host = []string{"h"}
		}
		rec := c36Case(c, e, c36In("none", form, pick(2), host, true))
		c.Emit(rec)
		if i == 5 {
			c.Sample(rec)
		}
	}
	c.SetExtra("random_cases", nrand)
	return nil
}

func replayC36(c *vlib.Ctx, begin map[string]any) error {
	if begin["ev"] != "Argv" {
		return fmt.Errorf("nothing to replay for a %v record", begin["ev"])
	}
	in, _ := begin["in"].(map[string]any)
	if in == nil {
		return fmt.Errorf("replay record has no input")
	}
	if _, ok := in["s"].(string); !ok {
		return fmt.Errorf("replay input has no URL string")
	}
	e := c36Setup(c)
	c.Emit(c36Case(c, e, in))
	return nil
}
