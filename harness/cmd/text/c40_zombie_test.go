package main

// Side finding outside the listed properties (not a C40 violation): after a
// Terminate whose halt disabled the controller but could not remove the session
// file, the session stays in the manager's map - listed and selectable, while
// every operation on it (including another Terminate) fails with "controller
// disabled" until the daemon restarts. This example documents the behaviour on
// the real code; it is skipped unless VERIF_ZOMBIE_EXAMPLE=1.
//
//	cd /verif/harness && VERIF_ZOMBIE_EXAMPLE=1 GOFLAGS=-mod=mod GOPROXY=off go test -tags verif -run TerminateZombie -v ./cmd/text

import (
	"context"
	"os"
	"path/filepath"
	"testing"

	"github.com/mutagen-io/mutagen/pkg/filesystem"
	"github.com/mutagen-io/mutagen/pkg/selection"
	"github.com/mutagen-io/mutagen/pkg/synchronization"
)

func TestTerminateZombieExample(t *testing.T) {
	if os.Getenv("VERIF_ZOMBIE_EXAMPLE") != "1" {
		t.Skip("documentation of a side finding; set VERIF_ZOMBIE_EXAMPLE=1 to run")
	}
	base := t.TempDir()
	os.Setenv("MUTAGEN_DATA_DIRECTORY", filepath.Join(base, "data"))
	m, err := synchronization.NewManager(nil)
	if err != nil {
		t.Fatal(err)
	}
	defer m.Shutdown()
	cfg := func() *synchronization.Configuration { return &synchronization.Configuration{} }
	ctx := context.Background()
	id, err := m.Create(ctx, localURL(filepath.Join(base, "a")), localURL(filepath.Join(base, "b")), cfg(), cfg(), cfg(), "victim", nil, true, "")
	if err != nil {
		t.Fatal(err)
	}
	path, _ := filesystem.Mutagen(false, filesystem.MutagenSynchronizationSessionsDirectoryName, id)
	if err := os.Remove(path); err != nil {
		t.Fatal(err)
	}
	byID := &selection.Selection{Specifications: []string{id}}
	t.Log("terminate:", m.Terminate(ctx, byID, ""))
	_, states, lerr := m.List(ctx, &selection.Selection{All: true}, 0)
	t.Log("list all:", len(states), "session(s)", lerr)
	t.Log("pause of the listed session:", m.Pause(ctx, byID, ""))
	t.Log("second terminate:", m.Terminate(ctx, byID, ""))
}
