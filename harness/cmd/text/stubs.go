package main

import (
	"fmt"

	"verif/harness/internal/vlib"
)

func runC39(c *vlib.Ctx) error                           { return fmt.Errorf("not built") }
func runC40(c *vlib.Ctx) error                           { return fmt.Errorf("not built") }
func runC44(c *vlib.Ctx) error                           { return fmt.Errorf("not built") }
func replayC39(c *vlib.Ctx, b map[string]any) error      { return fmt.Errorf("not built") }
func replayC40(c *vlib.Ctx, b map[string]any) error      { return fmt.Errorf("not built") }
func replayC44(c *vlib.Ctx, b map[string]any) error      { return fmt.Errorf("not built") }
