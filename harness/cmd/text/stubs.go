package main

import (
	"fmt"

	"verif/harness/internal/vlib"
)

func runC40(c *vlib.Ctx) error                           { return fmt.Errorf("not built") }
func replayC40(c *vlib.Ctx, b map[string]any) error      { return fmt.Errorf("not built") }
