package main

// C44: log output is one neutralized line per record. Every message of the
// bound goes through a level method of a real logging.Logger (root, sub- and
// sub-sub-logger, every logger level) that writes into a buffer; every stream
// of the bound is written, under every fragmentation at token boundaries, to
// the io.Writer returned by Logger.Writer. Inputs and outputs are recorded
// character by character.

import (
	"bytes"
	"fmt"
	"strings"

	"github.com/mutagen-io/mutagen/pkg/logging"

	"verif/harness/internal/vlib"
)

// canonical token order of spec/text/LogLine_Trace.tla (TokOrder)
var c44Tokens = []string{"a", "LF", "CR", "ESC", "PE", "PT"}

const c44Ts = "2024-01-01 00:00:00.000000"

var c44Bytes = map[string]string{"a": "a", "LF": "\n", "CR": "\r", "ESC": "\x1b", "PE": c44Ts + " [E] ", "PT": c44Ts + " [T] "}
var c44Scopes = [][]string{{}, {"s"}, {"s", "t"}}
var c44Random = []string{"a", "b", " ", "\n", "\r", "\r\n", "\x1b", "\x1b[31m", "\x1b]0;t\x07", "0", "9", "[", "]", "E", "[E] ", "[_] ", "[X] ",
	c44Ts + " [E] ", c44Ts + " [W] ", c44Ts + " [_] ", c44Ts + " [T] ", "2024-01-01 00:00:00.00000 [E] ", c44Ts, "%", "%s", "\t", "\x00", "\x7f"}

// encChars renders bytes as the character sequence of LogLine.tla.
func encChars(b []byte) []any {
	out := make([]any, len(b))
	for i, c := range b {
		switch {
		case c == '\n':
			out[i] = "LF"
		case c == '\r':
			out[i] = "CR"
		case c == 0x1b:
			out[i] = "ESC"
		case c >= 0x20 && c <= 0x7e:
			out[i] = string(rune(c))
		default:
			out[i] = fmt.Sprintf("x%02x", c)
		}
	}
	return out
}

func c44Logger(level int, sc int, buf *bytes.Buffer) *logging.Logger {
	l := logging.NewLogger(logging.Level(level), buf)
	for _, name := range c44Scopes[sc-1] {
		l = l.Sublogger(name)
	}
	return l
}

func c44ScopeChars(sc int) []any {
	return encChars([]byte(strings.Join(c44Scopes[sc-1], ".")))
}

func toksAny(toks []string) []any {
	out := make([]any, len(toks))
	for i, t := range toks {
		out[i] = t
	}
	return out
}

func c44Expand(toks []string) []byte {
	var b []byte
	for _, t := range toks {
		b = append(b, c44Bytes[t]...)
	}
	return b
}

// c44Log: one message through one level method.
func c44Log(c *vlib.Ctx, dom string, toks []string, data []byte, ll, lv, sc int, method string) map[string]any {
	var buf bytes.Buffer
	l := c44Logger(ll, sc, &buf)
	msg := string(data)
	ln := []func(...any){l.Error, l.Warn, l.Info, l.Debug, l.Trace}
	lf := []func(string, ...any){l.Errorf, l.Warnf, l.Infof, l.Debugf, l.Tracef}
	if method == "ln" {
		ln[lv-1](msg)
	} else {
		lf[lv-1]("%s", msg)
	}
	in := map[string]any{"dom": dom, "toks": toksAny(toks), "chars": encChars(data), "ll": ll, "lv": lv, "sc": sc,
		"scope": c44ScopeChars(sc), "method": method}
	c.Eval()
	if buf.Len() > 0 {
		c.NonTrivial(fmt.Sprintf("L%v|%x|%d|%d|%d", toks, data, ll, lv, sc))
	}
	return map[string]any{"ev": "Log", "in": in, "out": encChars(buf.Bytes())}
}

// c44Relay: one stream through Logger.Writer under the given fragmentations
// (each a list of fragment sizes).
func c44Relay(c *vlib.Ctx, dom string, toks []string, data []byte, ll, wl, sc int, frags [][]int) map[string]any {
	outs := []any{}
	fr := []any{}
	for _, f := range frags {
		var buf bytes.Buffer
		w := c44Logger(ll, sc, &buf).Writer(logging.Level(wl))
		pos := 0
		sizes := []any{}
		for _, n := range f {
			w.Write(data[pos : pos+n])
			pos += n
			sizes = append(sizes, n)
		}
		outs = append(outs, encChars(buf.Bytes()))
		fr = append(fr, sizes)
	}
	in := map[string]any{"dom": dom, "toks": toksAny(toks), "chars": encChars(data), "ll": ll, "wl": wl, "sc": sc,
		"scope": c44ScopeChars(sc), "frags": fr}
	c.Eval()
	if len(outs) > 0 && len(outs[0].([]any)) > 0 {
		c.NonTrivial(fmt.Sprintf("R%v|%x|%d|%d|%d", toks, data, ll, wl, sc))
	}
	return map[string]any{"ev": "Relay", "in": in, "outs": outs}
}

// tokenFrags lists every way of cutting the stream at token boundaries.
func tokenFrags(toks []string) [][]int {
	n := len(toks)
	if n == 0 {
		return [][]int{{}}
	}
	var out [][]int
	for mask := 0; mask < 1<<(n-1); mask++ {
		var f []int
		cur := 0
		for i, t := range toks {
			cur += len(c44Bytes[t])
			if i == n-1 || mask&(1<<i) != 0 {
				f = append(f, cur)
				cur = 0
			}
		}
		out = append(out, f)
	}
	return out
}

func runC44(c *vlib.Ctx) error {
	maxLen := argInt(c, "n", 3)
	nrand := argInt(c, "rand", 400)
	n := 0
	forEachSeq(len(c44Tokens), maxLen, func(idx []int) {
		toks := make([]string, len(idx))
		for i, k := range idx {
			toks[i] = c44Tokens[k]
		}
		data := c44Expand(toks)
		for _, ll := range []int{0, 1, 3, 5} {
			for lv := 1; lv <= 5; lv++ {
				for sc := 1; sc <= 3; sc++ {
					method := []string{"ln", "f"}[n%2]
					rec := c44Log(c, "box", toks, data, ll, lv, sc, method)
					c.Emit(rec)
					if n%7919 == 11 {
						c.Sample(rec)
					}
					n++
				}
			}
		}
	})
	c.SetExtra("log_cases", n)
	m := 0
	forEachSeq(len(c44Tokens), maxLen, func(idx []int) {
		toks := make([]string, len(idx))
		for i, k := range idx {
			toks[i] = c44Tokens[k]
		}
		data := c44Expand(toks)
		frags := tokenFrags(toks)
		for _, ll := range []int{0, 1, 3, 5} {
			for _, wl := range []int{1, 3} {
				for sc := 1; sc <= 2; sc++ {
					rec := c44Relay(c, "box", toks, data, ll, wl, sc, frags)
					c.Emit(rec)
					if m%1999 == 13 {
						c.Sample(rec)
					}
					m++
				}
			}
		}
	})
	c.SetExtra("relay_cases", m)
	c.SetExhaustive(true)
	// random byte-level messages and streams, random byte-level fragmentation
	for i := 0; i < nrand; i++ {
		var sb strings.Builder
		for j, k := 0, 1+c.Rand.Intn(8); j < k; j++ {
			sb.WriteString(c44Random[c.Rand.Intn(len(c44Random))])
		}
		data := []byte(sb.String())
		ll, sc := c.Rand.Intn(6), 1+c.Rand.Intn(3)
		if i%2 == 0 {
			c.Emit(c44Log(c, "none", nil, data, ll, 1+c.Rand.Intn(5), sc, []string{"ln", "f"}[c.Rand.Intn(2)]))
			continue
		}
		frags := [][]int{{len(data)}}
		for f := 0; f < 3; f++ {
			var sizes []int
			for rest := len(data); rest > 0; {
				k := 1 + c.Rand.Intn(rest)
				if c.Rand.Intn(2) == 0 && rest > 3 {
					k = 1 + c.Rand.Intn(3)
				}
				sizes = append(sizes, k)
				rest -= k
			}
			frags = append(frags, sizes)
		}
		c.Emit(c44Relay(c, "none", nil, data, ll, 1+c.Rand.Intn(5), sc, frags))
	}
	c.SetExtra("random_cases", nrand)
	return nil
}

// decChars inverts encChars.
func decChars(v any) []byte {
	var cs []string
	vlib.Decode(v, &cs)
	var b []byte
	for _, s := range cs {
		switch {
		case s == "LF":
			b = append(b, '\n')
		case s == "CR":
			b = append(b, '\r')
		case s == "ESC":
			b = append(b, 0x1b)
		case len(s) == 3 && s[0] == 'x':
			var x int
			fmt.Sscanf(s[1:], "%02x", &x)
			b = append(b, byte(x))
		default:
			b = append(b, s...)
		}
	}
	return b
}

func replayC44(c *vlib.Ctx, begin map[string]any) error {
	in, _ := begin["in"].(map[string]any)
	if in == nil {
		return fmt.Errorf("replay record has no input")
	}
	var toks []string
	vlib.Decode(in["toks"], &toks)
	var ll, sc int
	vlib.Decode(in["ll"], &ll)
	vlib.Decode(in["sc"], &sc)
	dom, _ := in["dom"].(string)
	data := decChars(in["chars"])
	if sc < 1 || sc > 3 || ll < 0 || ll > 5 {
		return fmt.Errorf("replay input out of range")
	}
	switch begin["ev"] {
	case "Log":
		var lv int
		vlib.Decode(in["lv"], &lv)
		method, _ := in["method"].(string)
		if lv < 1 || lv > 5 {
			return fmt.Errorf("replay level out of range")
		}
		c.Emit(c44Log(c, dom, toks, data, ll, lv, sc, method))
	case "Relay":
		var wl int
		vlib.Decode(in["wl"], &wl)
		var frags [][]int
		vlib.Decode(in["frags"], &frags)
		for _, f := range frags {
			sum := 0
			for _, k := range f {
				sum += k
			}
			if sum != len(data) {
				return fmt.Errorf("replay fragmentation does not cover the stream")
			}
		}
		c.Emit(c44Relay(c, dom, toks, data, ll, wl, sc, frags))
	default:
		return fmt.Errorf("unknown record kind %v", begin["ev"])
	}
	return nil
}
