package main

// Growth increment "daemon lifecycle": the real `mutagen daemon run` / `stop`
// (cmd/mutagen/daemon) as child processes in a scratch MUTAGEN_DATA_DIRECTORY.
//
// One episode: d1 is started and must come up (the IPC endpoint accepts a
// connection); d2 is started while d1 is up and must give up on the lock
// without disturbing d1's endpoint; d1 ends (SIGTERM, SIGINT, the Terminate
// request of `daemon stop`, or SIGKILL, which leaves a stale socket file
// behind); a probe takes the lock once; d3 must come up over whatever was left
// and is terminated. The parent records the events it observed; the trace
// module replays them on the observer rules of DaemonLifecycleProps
// (conformance) and judges only what C28 states (second daemon excluded, lock
// available after the end).

import (
	"fmt"
	"net"
	"os"
	"os/exec"
	"path/filepath"
	"strings"
	"syscall"
	"time"

	cmddaemon "github.com/mutagen-io/mutagen/cmd/mutagen/daemon"

	"verif/harness/internal/vlib"
)

// childDaemonCmd runs `mutagen daemon <args>` in this process.
func childDaemonCmd(args []string) int {
	cmddaemon.DaemonCommand.SetArgs(args)
	if err := cmddaemon.DaemonCommand.Execute(); err != nil {
		return 1
	}
	return 0
}

type daemonIn struct {
	Kind string `json:"kind"` // "daemon"
	End  string `json:"end"`  // term | int | stop | kill
	Seed int    `json:"seed"`
}

type daemonProc struct {
	cmd  *exec.Cmd
	done chan struct{}
}

func startDaemon(self, dataDir string, args ...string) *daemonProc {
	cmd := exec.Command(self, append([]string{"child", "daemoncmd"}, args...)...)
	cmd.Env = append(os.Environ(), "MUTAGEN_DATA_DIRECTORY="+dataDir, "HOME="+filepath.Dir(dataDir), "MUTAGEN_LOG_LEVEL=error")
	cmd.Stdout, cmd.Stderr = nil, nil
	must(cmd.Start())
	p := &daemonProc{cmd: cmd, done: make(chan struct{})}
	go func() { cmd.Wait(); close(p.done) }()
	return p
}

func (p *daemonProc) exited(d time.Duration) bool {
	select {
	case <-p.done:
		return true
	case <-time.After(d):
		return false
	}
}

func (p *daemonProc) destroy() {
	select {
	case <-p.done:
	default:
		p.cmd.Process.Kill()
		<-p.done
	}
}

func connectable(sock string) bool {
	c, err := net.DialTimeout("unix", sock, 2*time.Second)
	if err != nil {
		return false
	}
	c.Close()
	return true
}

// waitUp waits until the endpoint accepts a connection or the daemon has exited.
func waitUp(p *daemonProc, sock string, d time.Duration) bool {
	deadline := time.Now().Add(d)
	for time.Now().Before(deadline) {
		if connectable(sock) {
			return true
		}
		select {
		case <-p.done:
			return false
		case <-time.After(50 * time.Millisecond):
		}
	}
	return false
}

func runDaemonEpisode(c *vlib.Ctx, self string, cid int, in daemonIn) []map[string]any {
	root := c.TempDir("daemon")
	defer os.RemoveAll(root)
	dataDir := filepath.Join(root, "d")
	must(os.MkdirAll(dataDir, 0o700))
	sock := filepath.Join(dataDir, "daemon", "daemon.sock")
	events := []map[string]any{}
	ev := func(what, who string, present bool) {
		events = append(events, map[string]any{"what": what, "who": who, "present": present})
	}
	fileEv := func() {
		_, err := os.Lstat(sock)
		ev("file", "", err == nil)
	}
	out := map[string]any{"held": false, "second": false, "ended": false, "probe": false, "restart": false}
	var procs []*daemonProc
	defer func() {
		for _, p := range procs {
			p.destroy()
		}
	}()
	d1 := startDaemon(self, dataDir, "run")
	procs = append(procs, d1)
	if waitUp(d1, sock, 60*time.Second) {
		out["held"] = true
		ev("up", "d1", false)
		// a second daemon while the first is up
		d2 := startDaemon(self, dataDir, "run")
		procs = append(procs, d2)
		if d2.exited(60 * time.Second) {
			ev("refused", "d2", false)
		} else {
			out["second"] = true
			ev("up", "d2", false)
		}
		if connectable(sock) {
			ev("reach", "d1", false)
		} else {
			ev("noreach", "", false)
		}
		switch in.End {
		case "term":
			d1.cmd.Process.Signal(syscall.SIGTERM)
		case "int":
			d1.cmd.Process.Signal(syscall.SIGINT)
		case "stop":
			st := startDaemon(self, dataDir, "stop")
			procs = append(procs, st)
			st.exited(60 * time.Second)
		case "kill":
			d1.cmd.Process.Kill()
		}
		if d1.exited(60 * time.Second) {
			out["ended"] = true
			if in.End == "kill" {
				ev("kill", "d1", false)
			} else {
				ev("term", "d1", false)
			}
		}
		if out["second"] == true {
			procs[1].destroy()
		}
		fileEv()
		journal := filepath.Join(root, "journal")
		pr := startLocker(self, dataDir, "probe", 9, journal)
		res := pr.line(120 * time.Second)
		pr.in.Close()
		pr.wait(10 * time.Second)
		out["probe"] = res == "ok"
		// a new daemon over whatever was left behind
		d3 := startDaemon(self, dataDir, "run")
		procs = append(procs, d3)
		if waitUp(d3, sock, 60*time.Second) {
			out["restart"] = true
			ev("up", "d3", false)
			if connectable(sock) {
				ev("reach", "d3", false)
			} else {
				ev("noreach", "", false)
			}
			d3.cmd.Process.Signal(syscall.SIGTERM)
			if d3.exited(60 * time.Second) {
				ev("term", "d3", false)
			}
			fileEv()
		}
	}
	out["events"] = events
	return []map[string]any{{"ev": "Daemon", "cid": cid, "begin": true, "in": in, "out": out}}
}

func daemonEnds() []string { return []string{"term", "stop", "kill", "int"} }

func describeDaemonEvents(evs []map[string]any) string {
	var parts []string
	for _, e := range evs {
		parts = append(parts, fmt.Sprintf("%v %v %v", e["what"], e["who"], e["present"]))
	}
	return strings.Join(parts, "; ")
}
