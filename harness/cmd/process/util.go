package main

import (
	"bytes"
	"context"
	"crypto/sha256"
	"encoding/hex"
	"encoding/json"
	"fmt"
	"io"
	"math/rand"
	"os"
	"os/exec"
	"sync"
	"time"

	"verif/harness/internal/vlib"
)

// selfPath is the path of the running harness executable.
func selfPath() string {
	p, err := os.Executable()
	if err != nil {
		vlib.Fatal("os.Executable: %v", err)
	}
	return p
}

func must(err error) {
	if err != nil {
		vlib.Fatal("%v", err)
	}
}

func shaHex(b []byte) string {
	h := sha256.Sum256(b)
	return hex.EncodeToString(h[:])
}

// shaFile hashes the file at path without going through any mutagen code.
func shaFile(path string) (string, int, error) {
	f, err := os.Open(path)
	if err != nil {
		return "", 0, err
	}
	defer f.Close()
	h := sha256.New()
	n, err := io.Copy(h, f)
	if err != nil {
		return "", 0, err
	}
	return hex.EncodeToString(h.Sum(nil)), int(n), nil
}

// randBytes returns n reproducible pseudo-random bytes.
func randBytes(seed int64, n int) []byte {
	r := rand.New(rand.NewSource(seed))
	b := make([]byte, n)
	r.Read(b)
	return b
}

// linkOrCopy places the executable src at dst (hard link when possible: the
// kernel reports the path it was started through, so os.Executable in the child
// sees dst).
func linkOrCopy(src, dst string) {
	if err := os.Link(src, dst); err == nil {
		return
	}
	in, err := os.Open(src)
	must(err)
	defer in.Close()
	out, err := os.OpenFile(dst, os.O_WRONLY|os.O_CREATE|os.O_TRUNC, 0o755)
	must(err)
	_, err = io.Copy(out, in)
	must(err)
	must(out.Close())
}

// childResult is what runChild observed about a child process.
type childResult struct {
	Stdout   []byte
	Stderr   []byte
	ExitCode int  // -1 if killed by a signal
	Signaled bool // terminated by a signal
	TimedOut bool
}

// runChild starts exe with args and env additions, feeds stdin, and waits under a watchdog.
func runChild(exe string, args []string, env []string, stdin []byte, dir string, watchdog time.Duration) childResult {
	ctx, cancel := context.WithTimeout(context.Background(), watchdog)
	defer cancel()
	cmd := exec.CommandContext(ctx, exe, args...)
	cmd.Env = append(os.Environ(), env...)
	cmd.Dir = dir
	cmd.Stdin = bytes.NewReader(stdin)
	var so, se bytes.Buffer
	cmd.Stdout = &so
	cmd.Stderr = &se
	err := cmd.Run()
	res := childResult{Stdout: so.Bytes(), Stderr: se.Bytes()}
	if ctx.Err() != nil {
		res.TimedOut = true
	}
	if err != nil {
		if ee, ok := err.(*exec.ExitError); ok {
			res.ExitCode = ee.ExitCode()
			if res.ExitCode < 0 {
				res.Signaled = true
			}
		} else {
			res.ExitCode = 127
			res.Stderr = append(res.Stderr, []byte(err.Error())...)
		}
	}
	return res
}

// parallel runs f(i) for i in [0,n) on at most w goroutines.
func parallel(n, w int, f func(i int)) {
	if w < 1 {
		w = 1
	}
	var wg sync.WaitGroup
	ch := make(chan int)
	for k := 0; k < w; k++ {
		wg.Add(1)
		go func() {
			defer wg.Done()
			for i := range ch {
				f(i)
			}
		}()
	}
	for i := 0; i < n; i++ {
		ch <- i
	}
	close(ch)
	wg.Wait()
}

func jsonOf(v any) []byte {
	b, err := json.Marshal(v)
	must(err)
	return b
}

func errStr(err error) string {
	if err == nil {
		return ""
	}
	return asciiOnly(err.Error())
}

// asciiOnly keeps records ASCII (TLC's Json module convention).
func asciiOnly(s string) string {
	out := make([]byte, 0, len(s))
	for i := 0; i < len(s); i++ {
		c := s[i]
		if c >= 0x20 && c < 0x7f && c != '"' && c != '\\' {
			out = append(out, c)
		} else {
			out = append(out, '?')
		}
	}
	return string(out)
}

func argInt(c *vlib.Ctx, name string, def int) int {
	for _, a := range c.Args {
		var v int
		if n, _ := fmt.Sscanf(a, name+"=%d", &v); n == 1 {
			return v
		}
	}
	return def
}
