package main

// C35: transport.Stream.Close against fake agents.
//
// The fake agent is this executable started as "child fakeagent <kind>
// <delayMs> <log>":
//
//	self      exits by itself delayMs after start; ignores end of input and SIGTERM
//	eof       exits delayMs after its standard input reached end of file; ignores SIGTERM
//	term      exits delayMs after SIGTERM; ignores end of input
//	stubborn  ignores both (a safety timer ends it after 90 s so nothing leaks)
//
// It prints "ready" once its signal dispositions are in place and appends what
// it saw ("eof", "term") to the log. The parent wraps it in the real
// transport.NewStream, reads "ready" through the stream, sets the termination
// delay, calls the real Close under a watchdog and then asks the kernel whether
// the pid still exists.

import (
	"bufio"
	"fmt"
	"io"
	"os"
	"os/exec"
	"os/signal"
	"path/filepath"
	"strconv"
	"strings"
	"syscall"
	"time"

	"github.com/mutagen-io/mutagen/pkg/agent/transport"

	"verif/harness/internal/vlib"
)

func childFakeAgent(args []string) int {
	if len(args) < 3 {
		return 64
	}
	kind := args[0]
	delay, _ := strconv.Atoi(args[1])
	log := args[2]
	d := time.Duration(delay) * time.Millisecond
	terms := make(chan os.Signal, 4)
	signal.Notify(terms, syscall.SIGTERM) // handled, hence never deadly
	eof := make(chan struct{})
	go func() {
		io.Copy(io.Discard, os.Stdin)
		appendLine(log, "eof")
		close(eof)
	}()
	term := make(chan struct{})
	go func() {
		<-terms
		appendLine(log, "term")
		close(term)
	}()
	fmt.Println("ready")
	safety := time.After(90 * time.Second)
	switch kind {
	case "self":
		select {
		case <-time.After(d):
		case <-safety:
		}
	case "eof":
		select {
		case <-eof:
			time.Sleep(d)
		case <-safety:
		}
	case "term":
		select {
		case <-term:
			time.Sleep(d)
		case <-safety:
		}
	default:
		<-safety
	}
	return 0
}

type acIn struct {
	Kind     string `json:"kind"`
	Delay    int    `json:"delay"` // ms
	Td       int    `json:"td"`    // termination delay set on the stream, ms
	Stderr   bool   `json:"stderr"`
	Watchdog int    `json:"watchdog"` // ms
}

func pidExists(pid int) bool {
	err := syscall.Kill(pid, 0)
	return err == nil || err == syscall.EPERM
}

func runAgentCloseCase(c *vlib.Ctx, self string, in acIn) map[string]any {
	root := c.TempDir("agent")
	defer os.RemoveAll(root)
	log := filepath.Join(root, "log")
	cmd := exec.Command(self, "child", "fakeagent", in.Kind, strconv.Itoa(in.Delay), log)
	var errSink io.Writer
	if in.Stderr {
		errSink = io.Discard
	}
	stream, err := transport.NewStream(cmd, errSink)
	if err != nil {
		vlib.Fatal("NewStream: %v", err)
	}
	must(cmd.Start())
	pid := cmd.Process.Pid
	ready := make(chan string, 1)
	go func() {
		s, _ := bufio.NewReader(stream).ReadString('\n')
		ready <- strings.TrimSpace(s)
	}()
	select {
	case s := <-ready:
		if s != "ready" {
			cmd.Process.Kill()
			vlib.Fatal("fake agent said %q", s)
		}
	case <-time.After(180 * time.Second):
		cmd.Process.Kill()
		vlib.Fatal("fake agent did not start")
	}
	stream.SetTerminationDelay(time.Duration(in.Td) * time.Millisecond)
	done := make(chan error, 1)
	t0 := time.Now()
	go func() { done <- stream.Close() }()
	out := map[string]any{"returned": false, "ms": 0, "alive": false, "err": "", "saweof": false, "sawterm": false}
	select {
	case err := <-done:
		out["returned"] = true
		out["ms"] = int(time.Since(t0) / time.Millisecond)
		out["err"] = errStr(err)
		out["alive"] = pidExists(pid)
	case <-time.After(time.Duration(in.Watchdog) * time.Millisecond):
		out["ms"] = int(time.Since(t0) / time.Millisecond)
		out["alive"] = pidExists(pid)
		// clean up whatever is left, outside the observation
		syscall.Kill(pid, syscall.SIGKILL)
	}
	if data, err := os.ReadFile(log); err == nil {
		out["saweof"] = strings.Contains(string(data), "eof")
		out["sawterm"] = strings.Contains(string(data), "term")
	}
	return map[string]any{"ev": "AgentClose", "in": in, "out": out}
}

func runAgentClose(c *vlib.Ctx) error {
	self := selfPath()
	type agentSpec struct {
		Kind string `json:"kind"`
		At   int    `json:"at"`
		Slow bool   `json:"slow"`
	}
	var specs []agentSpec
	for _, b := range c.ReadBehaviours() {
		var s agentSpec
		vlib.Decode(b, &s)
		specs = append(specs, s)
	}
	if len(specs) == 0 {
		return fmt.Errorf("no agent behaviours exported by the model")
	}
	reps := argInt(c, "reps", 1)
	watchdog := argInt(c, "watchdog", 20000)
	var cases []acIn
	for rep := 0; rep < reps; rep++ {
		for _, td := range []int{0, 300, 1200} {
			for _, s := range specs {
				jitter := c.Rand.Intn(150)
				in := acIn{Kind: s.Kind, Td: td, Stderr: c.Rand.Intn(2) == 0, Watchdog: watchdog}
				switch s.Kind {
				case "self":
					// exit once phase `at` is under way: before the termination delay, during the
					// first / second one-second wait, after SIGKILL would have been sent, never
					switch s.At {
					case 1:
						in.Delay = jitter
						if td > 0 {
							in.Delay = c.Rand.Intn(td)
						}
					case 2:
						in.Delay = td + 200 + jitter*3
					case 3:
						in.Delay = td + 1200 + jitter*3
					case 4:
						in.Delay = td + 2300 + jitter*3
					default:
						in.Delay = 80000
					}
				case "eof", "term":
					in.Delay = jitter * 3
					if s.Slow {
						in.Delay = 1300 + jitter*3
					}
				}
				cases = append(cases, in)
			}
		}
	}
	recs := make([]map[string]any, len(cases))
	parallel(len(cases), 10, func(i int) { recs[i] = runAgentCloseCase(c, self, cases[i]) })
	for i, rec := range recs {
		c.Emit(rec)
		c.Eval()
		out := rec["out"].(map[string]any)
		in := cases[i]
		// non-trivial: the agent was really running when Close was called and Close had to do something
		// (wait, close the input, signal) - i.e. everything but an agent that was already gone
		if out["returned"] == true && (out["ms"].(int) > 20 || out["saweof"] == true) {
			c.NonTrivial(fmt.Sprintf("%s/%d/%d", in.Kind, in.Delay, in.Td))
		}
		if i%9 == 0 {
			c.Sample(rec)
		}
	}
	c.SetExtra("behaviours_from_model", len(specs))
	return nil
}

func replayAgentClose(c *vlib.Ctx) error {
	doc := c.LoadReplay()
	var rec struct {
		In acIn `json:"in"`
	}
	vlib.Decode(doc["begin"], &rec)
	c.Emit(runAgentCloseCase(c, selfPath(), rec.In))
	c.Eval()
	return nil
}
