package main

// C35: transport.Stream.Close against fake agents.
//
// The fake agent is this executable started as "child fakeagent <kind>
// <delayMs> <log>":
//
//	self      exits by itself delayMs after start; ignores end of input and SIGTERM
//	eof       exits delayMs after its standard input reached end of file; ignores SIGTERM
//	term      exits delayMs after SIGTERM; ignores end of input
//	stubborn  ignores both (a safety timer ends it after 90 s so nothing leaks)
//
// Process tree: the agent may first start a descendant ("child linger"), in its
// own process group, that
//
//	inherit   inherited the agent's standard error and outlives the agent
//	own       has its own standard error (/dev/null) and outlives the agent
//	dies      inherited standard error and exits as soon as the agent is gone
//	          (end of file on a pipe whose write end only the agent holds)
//
// The descendant ignores SIGTERM/SIGHUP, records nothing, and ends by itself
// when its leash (the case's scratch directory) disappears or after 300 s. Its
// pid is written to the log; the orchestrator - registered as child subreaper so
// that the orphan is re-parented to it - always kills and reaps it afterwards,
// on the watchdog path as well. Only the agent must be gone when Close returns.
//
// It prints "ready" once its signal dispositions are in place and appends what
// it saw ("eof", "term") to the log. The parent wraps it in the real
// transport.NewStream, reads "ready" through the stream, sets the termination
// delay, calls the real Close under a watchdog and then asks the kernel whether
// the pid still exists.

import (
	"bufio"
	"fmt"
	"io"
	"os"
	"os/exec"
	"os/signal"
	"path/filepath"
	"sort"
	"strconv"
	"strings"
	"sync/atomic"
	"syscall"
	"time"

	"golang.org/x/sys/unix"

	"github.com/mutagen-io/mutagen/pkg/agent/transport"

	"verif/harness/internal/vlib"
)

// childLinger: the descendant of the fake agent. args = mode leashDir
func childLinger(args []string) int {
	if len(args) < 2 {
		return 64
	}
	mode, leash := args[0], args[1]
	signal.Ignore(syscall.SIGTERM, syscall.SIGHUP, syscall.SIGPIPE)
	gone := make(chan struct{})
	if mode == "dies" {
		go func() {
			io.Copy(io.Discard, os.Stdin) // the agent holds the only write end
			close(gone)
		}()
	}
	deadline := time.After(300 * time.Second)
	tick := time.NewTicker(500 * time.Millisecond)
	for {
		select {
		case <-gone:
			return 0
		case <-deadline:
			return 0
		case <-tick.C:
			if _, err := os.Stat(leash); err != nil {
				return 0
			}
		}
	}
}

func childFakeAgent(args []string) int {
	if len(args) < 3 {
		return 64
	}
	kind := args[0]
	delay, _ := strconv.Atoi(args[1])
	log := args[2]
	if len(args) >= 5 && args[3] != "none" {
		self, _ := os.Executable()
		lc := exec.Command(self, "child", "linger", args[3], args[4])
		lc.SysProcAttr = &syscall.SysProcAttr{Setpgid: true}
		if args[3] != "own" {
			lc.Stderr = os.Stderr // inherited: one more holder of the standard error pipe
		}
		if args[3] == "dies" {
			if _, err := lc.StdinPipe(); err != nil { // never written, never closed: ends with this process
				return 71
			}
		}
		if err := lc.Start(); err != nil {
			fmt.Fprintln(os.Stderr, "linger:", err)
			return 71
		}
		appendLine(log, fmt.Sprintf("child %d", lc.Process.Pid))
	}
	d := time.Duration(delay) * time.Millisecond
	terms := make(chan os.Signal, 4)
	signal.Notify(terms, syscall.SIGTERM) // handled, hence never deadly
	noread := len(args) >= 6 && args[5] == "noread"
	eof := make(chan struct{})
	go func() {
		if noread {
			// never reads standard input: only notices that every writer has gone (POLLHUP), whatever is
			// still sitting unread in the pipe
			for {
				fds := []unix.PollFd{{Fd: 0, Events: 0}}
				if n, err := unix.Poll(fds, 50); err == nil && n > 0 && fds[0].Revents&(unix.POLLHUP|unix.POLLERR|unix.POLLNVAL) != 0 {
					break
				}
			}
		} else {
			io.Copy(io.Discard, os.Stdin)
		}
		appendLine(log, "eof")
		close(eof)
	}()
	term := make(chan struct{})
	go func() {
		<-terms
		appendLine(log, "term")
		close(term)
	}()
	fmt.Println("ready")
	safety := time.After(90 * time.Second)
	switch kind {
	case "self":
		select {
		case <-time.After(d):
		case <-safety:
		}
	case "eof":
		select {
		case <-eof:
			time.Sleep(d)
		case <-safety:
		}
	case "term":
		select {
		case <-term:
			time.Sleep(d)
		case <-safety:
		}
	default:
		<-safety
	}
	return 0
}

type acIn struct {
	Kind     string `json:"kind"`
	Delay    int    `json:"delay"`    // ms
	Td       int    `json:"td"`       // termination delay set on the stream, ms
	Recv     bool   `json:"recv"`     // a standard error receiver is handed to NewStream
	Child    string `json:"child"`    // none | inherit | own | dies
	Write    string `json:"write"`    // none | big | many | two: writers overfilling the standard input of an agent that never reads
	Watchdog int    `json:"watchdog"` // ms
}

// reapOrphan kills the lingering descendant (pid and process group) and reaps
// it (the orchestrator is its subreaper). Reports whether it is gone.
func reapOrphan(pid int) bool {
	if pid <= 1 {
		return true
	}
	syscall.Kill(-pid, syscall.SIGKILL)
	syscall.Kill(pid, syscall.SIGKILL)
	for i := 0; i < 200; i++ {
		var ws syscall.WaitStatus
		if wp, err := syscall.Wait4(pid, &ws, syscall.WNOHANG, nil); wp == pid || err == syscall.ECHILD {
			if err == syscall.ECHILD && pidExists(pid) {
				// not (yet) our child: re-parenting happens when the agent is reaped
				time.Sleep(25 * time.Millisecond)
				continue
			}
			return true
		}
		time.Sleep(25 * time.Millisecond)
	}
	return !pidExists(pid)
}

func pidExists(pid int) bool {
	err := syscall.Kill(pid, 0)
	return err == nil || err == syscall.EPERM
}

func runAgentCloseCase(c *vlib.Ctx, self string, in acIn) map[string]any {
	root := c.TempDir("agent")
	defer os.RemoveAll(root)
	log := filepath.Join(root, "log")
	if in.Child == "" {
		in.Child = "none"
	}
	if in.Write == "" {
		in.Write = "none"
	}
	reading := "read"
	if in.Write != "none" {
		reading = "noread"
	}
	cmd := exec.Command(self, "child", "fakeagent", in.Kind, strconv.Itoa(in.Delay), log, in.Child, root, reading)
	var errSink io.Writer
	if in.Recv {
		errSink = io.Discard
	}
	stream, err := transport.NewStream(cmd, errSink)
	if err != nil {
		vlib.Fatal("NewStream: %v", err)
	}
	must(cmd.Start())
	pid := cmd.Process.Pid
	childPid := 0
	defer func() {
		// whatever happened: neither the agent nor its descendant survives the case
		if pidExists(pid) {
			syscall.Kill(pid, syscall.SIGKILL)
		}
		if childPid == 0 {
			if data, err := os.ReadFile(log); err == nil {
				for _, ln := range strings.Split(string(data), "\n") {
					fmt.Sscanf(ln, "child %d", &childPid)
				}
			}
		}
		if childPid > 1 && !reapOrphan(childPid) {
			fmt.Fprintf(os.Stderr, "warning: descendant %d could not be removed\n", childPid)
		}
	}()
	ready := make(chan string, 1)
	go func() {
		s, _ := bufio.NewReader(stream).ReadString('\n')
		ready <- strings.TrimSpace(s)
	}()
	select {
	case s := <-ready:
		if s != "ready" {
			cmd.Process.Kill()
			vlib.Fatal("fake agent said %q", s)
		}
	case <-time.After(180 * time.Second):
		cmd.Process.Kill()
		vlib.Fatal("fake agent did not start")
	}
	if data, err := os.ReadFile(log); err == nil {
		for _, ln := range strings.Split(string(data), "\n") {
			fmt.Sscanf(ln, "child %d", &childPid)
		}
	}
	if in.Child != "none" && childPid == 0 {
		vlib.Fatal("fake agent reported no descendant")
	}
	stream.SetTerminationDelay(time.Duration(in.Td) * time.Millisecond)
	// writers that push more than the pipe holds at an agent that never reads
	var written atomic.Int64
	type wres struct{ err error }
	var wdone []chan wres
	startWriter := func(big bool) {
		ch := make(chan wres, 1)
		wdone = append(wdone, ch)
		go func() {
			if big {
				n, err := stream.Write(make([]byte, 1<<20))
				written.Add(int64(n))
				ch <- wres{err}
				return
			}
			chunk := make([]byte, 8<<10)
			for total := 0; total < 64<<20; total += len(chunk) {
				n, err := stream.Write(chunk)
				written.Add(int64(n))
				if err != nil {
					ch <- wres{err}
					return
				}
			}
			ch <- wres{nil}
		}()
	}
	switch in.Write {
	case "big":
		startWriter(true)
	case "many":
		startWriter(false)
	case "two":
		startWriter(false)
		startWriter(true)
	}
	stuck := false
	if len(wdone) > 0 {
		// gate: the byte counter has stopped growing and no writer has come back (bounded wait; a counter, not a verdict)
		last, since := int64(-1), time.Now()
		for dl := time.Now().Add(5 * time.Second); time.Now().Before(dl); time.Sleep(25 * time.Millisecond) {
			if cur := written.Load(); cur != last {
				last, since = cur, time.Now()
			} else if time.Since(since) > 300*time.Millisecond {
				break
			}
		}
		stuck = true
		for _, ch := range wdone {
			if len(ch) > 0 {
				stuck = false
			}
		}
	}
	done := make(chan error, 1)
	t0 := time.Now()
	go func() { done <- stream.Close() }()
	out := map[string]any{"returned": false, "ms": 0, "alive": false, "err": "", "saweof": false, "sawterm": false, "childalive": false,
		"stuck": stuck, "wreturned": true, "werr": true, "wbytes": 0, "close2": true}
	defer func() {
		// writers: after Close (or after the clean-up kill) they must come back
		for _, ch := range wdone {
			select {
			case r := <-ch:
				if r.err == nil {
					out["werr"] = false
				}
			case <-time.After(5 * time.Second):
				out["wreturned"], out["werr"] = false, false
			}
		}
		out["wbytes"] = int(written.Load())
	}()
	select {
	case err := <-done:
		out["returned"] = true
		out["ms"] = int(time.Since(t0) / time.Millisecond)
		out["err"] = errStr(err)
		out["alive"] = pidExists(pid)
		out["childalive"] = childPid > 1 && pidExists(childPid)
		if in.Write != "none" {
			// Close twice: the second call must come back as well
			again := make(chan error, 1)
			go func() { again <- stream.Close() }()
			select {
			case <-again:
			case <-time.After(10 * time.Second):
				out["close2"] = false
			}
		}
	case <-time.After(time.Duration(in.Watchdog) * time.Millisecond):
		out["ms"] = int(time.Since(t0) / time.Millisecond)
		out["alive"] = pidExists(pid)
		out["childalive"] = childPid > 1 && pidExists(childPid)
		// clean up whatever is left, outside the observation (the deferred cleanup does the rest)
		syscall.Kill(pid, syscall.SIGKILL)
	}
	if data, err := os.ReadFile(log); err == nil {
		out["saweof"] = strings.Contains(string(data), "eof")
		out["sawterm"] = strings.Contains(string(data), "term")
	}
	return map[string]any{"ev": "AgentClose", "in": in, "out": out}
}

func runAgentClose(c *vlib.Ctx) error {
	self := selfPath()
	type agentSpec struct {
		Kind  string `json:"kind"`
		At    int    `json:"at"`
		Slow  bool   `json:"slow"`
		Child string `json:"child"`
		Recv  bool   `json:"recv"`
		W     bool   `json:"w"`
	}
	var specs []agentSpec
	for _, b := range c.ReadBehaviours() {
		if b["m"] == "dial" {
			continue // behaviours of the AgentDial model, run below
		}
		var s agentSpec
		vlib.Decode(b, &s)
		specs = append(specs, s)
	}
	if len(specs) == 0 {
		return fmt.Errorf("no agent behaviours exported by the model")
	}
	sort.Slice(specs, func(i, j int) bool {
		return fmt.Sprint(specs[i].Child, specs[i].Recv, specs[i].Kind, specs[i].At, specs[i].Slow, specs[i].W) < fmt.Sprint(specs[j].Child, specs[j].Recv, specs[j].Kind, specs[j].At, specs[j].Slow, specs[j].W)
	})
	// orphaned descendants are re-parented to this process, which reaps them
	if err := unix.Prctl(unix.PR_SET_CHILD_SUBREAPER, 1, 0, 0, 0); err != nil {
		return fmt.Errorf("PR_SET_CHILD_SUBREAPER: %v", err)
	}
	reps := argInt(c, "reps", 1)
	alltd := argInt(c, "alltd", 0) // 1: every termination delay for every combination
	watchdog := argInt(c, "watchdog", 20000)
	var cases []acIn
	for rep := 0; rep < reps; rep++ {
		for _, td := range []int{0, 300, 1200} {
			for _, s := range specs {
				// quick: the full set of termination delays for single-process agents, one
				// (rotating) delay for each combination with a descendant
				if alltd == 0 && s.Child != "none" && td != []int{300, 0, 1200}[(len(s.Kind)+s.At+rep)%3] {
					continue
				}
				if alltd == 0 && !s.W && s.Child == "none" && s.Recv != (td == 300) && td != 0 {
					continue
				}
				if alltd == 0 && (s.Child == "own" || s.Child == "dies") && !s.Recv {
					continue // quick: these trees only with a receiver (the pipe is what they are about)
				}
				if s.W && alltd == 0 && td != 300 {
					continue
				}
				jitter := c.Rand.Intn(150)
				in := acIn{Kind: s.Kind, Td: td, Recv: s.Recv, Child: s.Child, Write: "none", Watchdog: watchdog}
				switch s.Kind {
				case "self":
					// exit once phase `at` is under way: before the termination delay, during the
					// first / second one-second wait, after SIGKILL would have been sent, never
					switch s.At {
					case 1:
						in.Delay = jitter
						if td > 0 {
							in.Delay = c.Rand.Intn(td)
						}
					case 2:
						in.Delay = td + 200 + jitter*3
					case 3:
						in.Delay = td + 1200 + jitter*3
					case 4:
						in.Delay = td + 2300 + jitter*3
					default:
						in.Delay = 80000
					}
				case "eof", "term":
					in.Delay = jitter * 3
					if s.Slow {
						in.Delay = 1300 + jitter*3
					}
				}
				if s.W {
					// an agent that never reads, against one big Write, many small ones, two writers at once
					for _, w := range []string{"big", "many", "two"} {
						in.Write = w
						cases = append(cases, in)
					}
					continue
				}
				cases = append(cases, in)
			}
		}
	}
	recs := make([]map[string]any, len(cases))
	parallel(len(cases), 12, func(i int) { recs[i] = runAgentCloseCase(c, self, cases[i]) })
	for i, rec := range recs {
		c.Emit(rec)
		c.Eval()
		out := rec["out"].(map[string]any)
		in := cases[i]
		// non-trivial: the agent was really running when Close was called and Close had to do something
		// (wait, close the input, signal) - i.e. everything but an agent that was already gone
		if out["returned"] == true && (out["ms"].(int) > 20 || out["saweof"] == true) {
			c.NonTrivial(fmt.Sprintf("%s/%d/%d/%s/%v/%s", in.Kind, in.Delay, in.Td, in.Child, in.Recv, in.Write))
		}
		if i%9 == 0 {
			c.Sample(rec)
		}
		if in.Write != "none" {
			c.AddExtra("cases_with_blocked_writer", 1)
		}
		if in.Child != "none" {
			c.AddExtra("cases_with_descendant", 1)
			if in.Recv && in.Child == "inherit" {
				c.AddExtra("cases_descendant_holds_stderr_pipe", 1)
			}
		}
	}
	c.SetExtra("behaviours_from_model", len(specs))
	// growth: dials that fail after at least one agent process was started - connect's
	// "handshake failure closes the stream" is Stream.Close's guarantee at work
	ndial := argInt(c, "dial", 8)
	stubborn := func(s dScript) bool { return hasStep(s, func(st dStep) bool { return st.Ans == "stubborn" }) }
	sel := pickDialScripts(c, 1+ndial/5, stubborn)
	sel = append(sel, pickDialScripts(c, ndial, func(s dScript) bool { return !stubborn(s) })...)
	runDialCases(c, sel)
	return nil
}

func replayAgentClose(c *vlib.Ctx) error {
	doc := c.LoadReplay()
	if b, ok := doc["begin"].(map[string]any); ok && b["ev"] == "Dial" {
		replayDial(c, doc["begin"])
		return nil
	}
	var rec struct {
		In acIn `json:"in"`
	}
	vlib.Decode(doc["begin"], &rec)
	if err := unix.Prctl(unix.PR_SET_CHILD_SUBREAPER, 1, 0, 0, 0); err != nil {
		return fmt.Errorf("PR_SET_CHILD_SUBREAPER: %v", err)
	}
	c.Emit(runAgentCloseCase(c, selfPath(), rec.In))
	c.Eval()
	return nil
}
