package main

// C46: agent.ExecutableForPlatform in scratch layouts.
//
// For every layout exported by TLC from spec/process/Bundle_MC (plus seeded
// random ones) the orchestrator creates
//
//	<root>/bin/agent-host      (or <root>/sbin/agent-host when the layout says
//	                            the executable is not inside a "bin" directory)
//	<root>/{bin|sbin}/mutagen-agents.tar.gz   absent | directory | archive
//	<root>/libexec/mutagen-agents.tar.gz      absent | directory | archive
//
// agent-host is a hard link to this very executable, started as
// "child bundle"; it calls the real agent.ExecutableForPlatform for each
// requested platform and reports the returned path and error. The orchestrator
// then hashes the file at the returned path itself.

import (
	"archive/tar"
	"bufio"
	"bytes"
	"compress/gzip"
	"encoding/json"
	"fmt"
	"hash/fnv"
	"io"
	"math/rand"
	"os"
	"os/exec"
	"path/filepath"
	"sort"
	"strings"
	"syscall"
	"time"

	"github.com/mutagen-io/mutagen/pkg/agent"

	"verif/harness/internal/vlib"
)

type bEntry struct {
	N  string `json:"n"`            // archive entry name
	B  string `json:"b"`            // content: model id on input ("e1"), sha-256 in records
	Z  int    `json:"z"`            // size in bytes
	ID string `json:"id,omitempty"` // the content id the bytes were generated from
}

type bLoc struct {
	K string   `json:"k"` // absent | dir | bundle
	E []bEntry `json:"e"`
}

type bIn struct {
	Inbin  bool   `json:"inbin"`
	Exe    bLoc   `json:"exe"`
	Lib    bLoc   `json:"lib"`
	Q      string `json:"q"`
	Om     string `json:"om"` // "path": explicit output path, "temp": let the code create a temporary file
	Goos   string `json:"goos"`
	Goarch string `json:"goarch"`
	Bs     int64  `json:"bs"` // seed of the generated contents
}

type bQuery struct {
	Goos   string `json:"goos"`
	Goarch string `json:"goarch"`
	Out    string `json:"out"`
	Tmp    string `json:"tmp"`
}

type bAnswer struct {
	Path string `json:"path"`
	Err  string `json:"err"`
	Exe  string `json:"exe"`
}

// childBundle: the role played inside the scratch layout. One request (a list
// of queries) per input line, one answer line each, until end of input.
func childBundle(args []string) int {
	exe, _ := os.Executable()
	dec := json.NewDecoder(os.Stdin)
	for {
		var qs []bQuery
		if err := dec.Decode(&qs); err != nil {
			if err == io.EOF {
				return 0
			}
			fmt.Fprintln(os.Stderr, "decode:", err)
			return 65
		}
		out := []bAnswer{}
		for _, q := range qs {
			if q.Tmp != "" {
				os.Setenv("TMPDIR", q.Tmp)
			}
			p, err := agent.ExecutableForPlatform(q.Goos, q.Goarch, q.Out)
			out = append(out, bAnswer{Path: p, Err: errStr(err), Exe: exe})
		}
		os.Stdout.Write(append(jsonOf(out), '\n'))
	}
}

// bHost is one scratch prefix with the harness executable installed twice: in
// <root>/bin (libexec is searched) and in <root>/sbin (it is not). Both copies
// run as long-lived children; layouts are swapped underneath them between calls.
type bHost struct {
	root  string
	procs map[bool]*bProc
	// unprivileged twins (uid/gid 65534), started on demand for layouts whose bundle the user may not read
	self     string
	unpriv   map[bool]*bProc
	noUnpriv bool
}

type bProc struct {
	path string
	cmd  *exec.Cmd
	in   io.WriteCloser
	out  *bufio.Reader
}

func newBHost(c *vlib.Ctx, self string) *bHost {
	h := &bHost{root: c.TempDir("bundle"), procs: map[bool]*bProc{}, unpriv: map[bool]*bProc{}, self: self}
	must(os.MkdirAll(filepath.Join(h.root, "libexec"), 0o755))
	for _, inbin := range []bool{true, false} {
		p, err := h.start(inbin, false)
		must(err)
		h.procs[inbin] = p
	}
	return h
}

// start launches the harness copy in <root>/bin or <root>/sbin, optionally as the unprivileged user.
func (h *bHost) start(inbin, unprivileged bool) (*bProc, error) {
	dir := filepath.Join(h.root, "sbin")
	if inbin {
		dir = filepath.Join(h.root, "bin")
	}
	must(os.MkdirAll(dir, 0o755))
	p := &bProc{path: filepath.Join(dir, "agent-host")}
	if _, err := os.Lstat(p.path); err != nil {
		linkOrCopy(h.self, p.path)
	}
	p.cmd = exec.Command(p.path, "child", "bundle")
	p.cmd.Env = append(os.Environ(), "HOME="+h.root)
	p.cmd.Dir = h.root
	p.cmd.Stderr = os.Stderr
	if unprivileged {
		// the scratch prefix must be traversable by that user
		for d := h.root; d != "/" && d != "."; d = filepath.Dir(d) {
			if st, err := os.Stat(d); err == nil && st.Mode().Perm()&0o005 != 0o005 {
				os.Chmod(d, st.Mode().Perm()|0o055)
			}
		}
		p.cmd.SysProcAttr = &syscall.SysProcAttr{Credential: &syscall.Credential{Uid: 65534, Gid: 65534}}
	}
	var err error
	p.in, err = p.cmd.StdinPipe()
	must(err)
	so, err := p.cmd.StdoutPipe()
	must(err)
	p.out = bufio.NewReaderSize(so, 1<<16)
	if err := p.cmd.Start(); err != nil {
		return nil, err
	}
	return p, nil
}

// unprivileged returns the twin running as uid 65534 (nil if that is not possible here).
func (h *bHost) unprivileged(inbin bool) *bProc {
	if h.noUnpriv || os.Geteuid() != 0 {
		h.noUnpriv = true
		return nil
	}
	if p := h.unpriv[inbin]; p != nil {
		return p
	}
	p, err := h.start(inbin, true)
	if err != nil {
		h.noUnpriv = true
		return nil
	}
	h.unpriv[inbin] = p
	return p
}

func (h *bHost) close() {
	all := []*bProc{}
	for _, p := range h.procs {
		all = append(all, p)
	}
	for _, p := range h.unpriv {
		all = append(all, p)
	}
	for _, p := range all {
		p.in.Close()
		done := make(chan struct{})
		go func() { p.cmd.Wait(); close(done) }()
		select {
		case <-done:
		case <-time.After(10 * time.Second):
			p.cmd.Process.Kill()
			<-done
		}
	}
	os.RemoveAll(h.root)
}

// ask sends one request and waits for the answer under a watchdog.
func (p *bProc) ask(qs []bQuery) []bAnswer {
	type res struct {
		line []byte
		err  error
	}
	ch := make(chan res, 1)
	go func() {
		if _, err := p.in.Write(append(jsonOf(qs), '\n')); err != nil {
			ch <- res{nil, err}
			return
		}
		line, err := p.out.ReadBytes('\n')
		ch <- res{line, err}
	}()
	select {
	case r := <-ch:
		var ans []bAnswer
		if r.err != nil || json.Unmarshal(r.line, &ans) != nil || len(ans) != len(qs) {
			vlib.Fatal("bundle child failed: %v %q", r.err, r.line)
		}
		return ans
	case <-time.After(180 * time.Second):
		p.cmd.Process.Kill()
		vlib.Fatal("bundle child did not answer within 180 s")
	}
	return nil
}

func splitPlatform(q string) (string, string) {
	if i := strings.IndexByte(q, '_'); i >= 0 {
		return q[:i], q[i+1:]
	}
	return q, ""
}

// blobBytes generates the content for a content id; sizes are drawn from the id
// and the seed (distinct ids give distinct bytes: the id is mixed into the data).
func blobBytes(seed int64, id string, size int) []byte {
	h := fnv.New64a()
	h.Write([]byte(id))
	s := seed ^ int64(h.Sum64())
	if size < 0 {
		r := rand.New(rand.NewSource(s))
		switch r.Intn(10) {
		case 0:
			size = 8 + r.Intn(200000)
		case 1:
			size = 8
			if id == "e1" {
				size = 0 // an empty agent, once per layout at most
			}
		default:
			size = 8 + r.Intn(3000)
		}
	}
	b := randBytes(s, size)
	copy(b, []byte(id)) // distinct ids never collide, however small
	return b
}

func writeArchive(path string, entries []bEntry, blobs map[string][]byte) {
	var buf bytes.Buffer
	gz := gzip.NewWriter(&buf)
	tw := tar.NewWriter(gz)
	for _, e := range entries {
		data := blobs[e.ID]
		must(tw.WriteHeader(&tar.Header{Name: e.N, Mode: 0o755, Size: int64(len(data)), Typeflag: tar.TypeReg, ModTime: time.Unix(1700000000, 0)}))
		_, err := tw.Write(data)
		must(err)
	}
	must(tw.Close())
	must(gz.Close())
	must(os.WriteFile(path, buf.Bytes(), 0o644))
}

// materialise fills in real digests/sizes for a location and writes it to disk.
func materialiseLoc(dir string, l *bLoc, seed int64, sized bool) {
	must(os.MkdirAll(dir, 0o755))
	p := filepath.Join(dir, agent.BundleName)
	switch l.K {
	case "absent":
	case "dir":
		must(os.MkdirAll(filepath.Join(p, "inner"), 0o755))
	case "dangling":
		must(os.Symlink("no-such-bundle-anywhere", p))
	case "loop":
		must(os.Symlink(agent.BundleName, p)) // points at itself: ELOOP
	case "noperm", "corrupt":
		// a perfectly good bundle holding every platform asked for ...
		id := "x-" + l.K + "-" + filepath.Base(dir)
		data := blobBytes(seed, id, 600)
		var es []bEntry
		for _, n := range []string{"linux_amd64", "windows_amd64", "plan9_mips"} {
			es = append(es, bEntry{N: n, ID: id})
		}
		writeArchive(p, es, map[string][]byte{id: data})
		if l.K == "noperm" {
			must(os.Chmod(p, 0)) // ... that the user may not read
		} else {
			must(os.Truncate(p, 24)) // ... cut off inside the compressed stream
		}
	case "bundle":
		blobs := map[string][]byte{}
		for i := range l.E {
			e := &l.E[i]
			if e.ID == "" {
				e.ID = e.B
			}
			if _, ok := blobs[e.ID]; !ok {
				size := -1
				if sized {
					size = e.Z
				}
				blobs[e.ID] = blobBytes(seed, e.ID, size)
			}
			e.B = shaHex(blobs[e.ID])
			e.Z = len(blobs[e.ID])
		}
		writeArchive(p, l.E, blobs)
	default:
		vlib.Fatal("bad location kind %q", l.K)
	}
	if l.E == nil {
		l.E = []bEntry{}
	}
}

type bLayout struct {
	inbin    bool
	exe, lib bLoc
	bs       int64
	src      string
	qs       []bIn // the queries (q, om, goos, goarch filled)
	sized    bool  // replay: sizes are given
}

// runLayout builds the layout, asks the child, observes, returns one record per query.
func runLayout(h *bHost, ly *bLayout) []map[string]any {
	root := h.root
	exeDir := filepath.Join(root, "sbin")
	if ly.inbin {
		exeDir = filepath.Join(root, "bin")
	}
	libDir := filepath.Join(root, "libexec")
	// clear what the previous layout left
	for _, d := range []string{filepath.Join(root, "bin"), filepath.Join(root, "sbin"), libDir} {
		must(os.RemoveAll(filepath.Join(d, agent.BundleName)))
	}
	work := filepath.Join(root, "work")
	must(os.RemoveAll(work))
	exe, lib := ly.exe, ly.lib
	exe.E = append([]bEntry(nil), exe.E...)
	lib.E = append([]bEntry(nil), lib.E...)
	materialiseLoc(exeDir, &exe, ly.bs, ly.sized)
	materialiseLoc(libDir, &lib, ly.bs, ly.sized)
	proc := h.procs[ly.inbin]
	unprivileged := false
	if exe.K == "noperm" || lib.K == "noperm" {
		// mode 0000 means nothing to root: ask the twin that runs as uid 65534
		if proc = h.unprivileged(ly.inbin); proc == nil {
			return nil // not possible here: skipped (counted by the caller)
		}
		unprivileged = true
	}
	host := proc.path

	var qs []bQuery
	for i, q := range ly.qs {
		bq := bQuery{Goos: q.Goos, Goarch: q.Goarch}
		tmp := filepath.Join(work, fmt.Sprintf("tmp%d", i))
		must(os.MkdirAll(tmp, 0o755))
		must(os.Chmod(tmp, 0o777))
		bq.Tmp = tmp
		if q.Om == "path" {
			od := filepath.Join(work, fmt.Sprintf("out%d", i))
			must(os.MkdirAll(od, 0o755))
			must(os.Chmod(od, 0o777))
			bq.Out = filepath.Join(od, "agent")
		}
		qs = append(qs, bq)
	}
	ans := proc.ask(qs)
	var recs []map[string]any
	for i, q := range ly.qs {
		a := ans[i]
		if a.Exe != host {
			vlib.Fatal("child saw executable %q, expected %q", a.Exe, host)
		}
		in := q
		in.Inbin, in.Exe, in.Lib, in.Bs = ly.inbin, exe, lib, ly.bs
		out := map[string]any{"ok": a.Err == "", "err": a.Err, "b": "", "z": 0, "exists": false, "mode": 0, "where": "", "unprivileged": unprivileged}
		// independent look at what was produced
		var produced []string
		if qs[i].Out != "" {
			if _, err := os.Lstat(qs[i].Out); err == nil {
				produced = append(produced, qs[i].Out)
			}
		}
		if ents, err := os.ReadDir(qs[i].Tmp); err == nil {
			for _, e := range ents {
				produced = append(produced, filepath.Join(qs[i].Tmp, e.Name()))
			}
		}
		out["exists"] = len(produced) > 0
		if a.Err == "" {
			if sha, n, err := shaFile(a.Path); err == nil {
				out["b"], out["z"] = sha, n
				if st, err := os.Stat(a.Path); err == nil {
					out["mode"] = int(st.Mode().Perm())
				}
			} else {
				out["exists"] = false
			}
			switch {
			case a.Path == qs[i].Out:
				out["where"] = "path"
			case filepath.Dir(a.Path) == qs[i].Tmp:
				out["where"] = "temp"
			default:
				out["where"] = "other"
			}
		}
		recs = append(recs, map[string]any{"ev": "Bundle", "src": ly.src, "in": in, "out": out})
	}
	return recs
}

func layoutKey(in *bIn) string {
	return string(jsonOf([]any{in.Inbin, in.Exe, in.Lib}))
}

var (
	rOS   = []string{"linux", "windows", "darwin", "plan9", "", "LINUX", "linux_amd64", "freebsd", "linux-", "..", "a/b"}
	rArch = []string{"amd64", "arm64", "386", "", "amd64_v2", "mips", "AMD64"}
)

func randName(r *rand.Rand) (string, string) {
	return rOS[r.Intn(len(rOS))], rArch[r.Intn(len(rArch))]
}

func randLoc(r *rand.Rand, prefix string) bLoc {
	switch r.Intn(9) {
	case 0:
		return bLoc{K: "absent"}
	case 1:
		return bLoc{K: "dir"}
	case 2:
		return bLoc{K: []string{"dangling", "loop", "noperm", "corrupt"}[r.Intn(4)]}
	}
	n := r.Intn(7)
	l := bLoc{K: "bundle"}
	for i := 0; i < n; i++ {
		o, a := randName(r)
		if r.Intn(2) == 0 {
			o, a = rOS[r.Intn(4)], rArch[r.Intn(3)]
		}
		l.E = append(l.E, bEntry{N: o + "_" + a, B: fmt.Sprintf("%s%d", prefix, r.Intn(4))})
	}
	return l
}

func runBundle(c *vlib.Ctx) error {
	self := selfPath()
	var layouts []*bLayout
	byKey := map[string]*bLayout{}
	for _, b := range c.ReadBehaviours() {
		if _, ok := b["inbin"]; !ok {
			continue // behaviours of another model (AgentDial)
		}
		var in bIn
		vlib.Decode(b, &in)
		in.Goos, in.Goarch = splitPlatform(in.Q)
		k := layoutKey(&in)
		ly := byKey[k]
		if ly == nil {
			ly = &bLayout{inbin: in.Inbin, exe: in.Exe, lib: in.Lib, src: "mc", bs: int64(c.Rand.Int31())}
			byKey[k] = ly
			layouts = append(layouts, ly)
		}
		ly.qs = append(ly.qs, in)
	}
	nmodel := len(layouts)
	if nmodel == 0 {
		return fmt.Errorf("no behaviours exported by the model")
	}
	// deterministic order whatever order TLC printed them in
	sort.SliceStable(layouts, func(i, j int) bool {
		return string(jsonOf([]any{layouts[i].inbin, layouts[i].exe, layouts[i].lib})) < string(jsonOf([]any{layouts[j].inbin, layouts[j].exe, layouts[j].lib}))
	})
	for _, ly := range layouts {
		sort.SliceStable(ly.qs, func(i, j int) bool { return ly.qs[i].Q+ly.qs[i].Om < ly.qs[j].Q+ly.qs[j].Om })
		ly.bs = int64(c.Rand.Int31())
	}
	nrand := argInt(c, "rand", 150)
	for i := 0; i < nrand; i++ {
		r := c.Rand
		ly := &bLayout{inbin: r.Intn(4) != 0, exe: randLoc(r, "e"), lib: randLoc(r, "l"), src: "rand", bs: int64(r.Int31())}
		nq := 1 + r.Intn(5)
		for k := 0; k < nq; k++ {
			var q bIn
			q.Goos, q.Goarch = randName(r)
			if r.Intn(2) == 0 {
				// ask for something that is there
				all := append(append([]bEntry{}, ly.exe.E...), ly.lib.E...)
				if len(all) > 0 {
					q.Goos, q.Goarch = splitPlatform(all[r.Intn(len(all))].N)
				}
			}
			q.Q = q.Goos + "_" + q.Goarch
			q.Om = []string{"path", "temp"}[r.Intn(2)]
			ly.qs = append(ly.qs, q)
		}
		layouts = append(layouts, ly)
	}
	results := make([][]map[string]any, len(layouts))
	const workers = 4
	hosts := make(chan *bHost, workers)
	for k := 0; k < workers; k++ {
		hosts <- newBHost(c, self)
	}
	parallel(len(layouts), workers, func(i int) {
		h := <-hosts
		results[i] = runLayout(h, layouts[i])
		hosts <- h
	})
	for k := 0; k < workers; k++ {
		(<-hosts).close()
	}
	for i, recs := range results {
		if recs == nil {
			c.AddExtra("layouts_noperm_skipped_no_unprivileged_user", 1)
		}
		for _, rec := range recs {
			c.Emit(rec)
			c.Eval()
			in := rec["in"].(bIn)
			// non-trivial: at least one searched location holds something
			if k := in.Exe.K; k == "loop" || k == "noperm" || k == "corrupt" || k == "dangling" {
				c.AddExtra("cases_first_location_"+k, 1)
			}
			if in.Exe.K != "absent" || (in.Inbin && in.Lib.K != "absent") {
				c.NonTrivial(jsonOf(in))
			}
			if i%97 == 0 {
				c.Sample(rec)
			}
		}
	}
	// growth: the dial/install machine, whose install step extracts from a bundle
	runDialCases(c, pickDialScripts(c, argInt(c, "dial", 20), nil))
	c.SetExtra("layouts_from_model", nmodel)
	c.SetExtra("layouts_random", nrand)
	c.SetExhaustive(true)
	return nil
}

func replayBundle(c *vlib.Ctx) error {
	doc := c.LoadReplay()
	if b, ok := doc["begin"].(map[string]any); ok && b["ev"] == "Dial" {
		replayDial(c, doc["begin"])
		return nil
	}
	var rec struct {
		Src string `json:"src"`
		In  bIn    `json:"in"`
	}
	vlib.Decode(doc["begin"], &rec)
	in := rec.In
	ly := &bLayout{inbin: in.Inbin, exe: in.Exe, lib: in.Lib, src: rec.Src, bs: in.Bs, sized: true, qs: []bIn{in}}
	h := newBHost(c, selfPath())
	defer h.close()
	for _, r := range runLayout(h, ly) {
		c.Emit(r)
		c.Eval()
	}
	return nil
}
