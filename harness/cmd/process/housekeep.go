package main

// C43: housekeeping.Housekeep on populated scratch data directories.
//
// The parent creates <root>/data (the MUTAGEN_DATA_DIRECTORY) and
// <root>/outside (link targets and a canary tree), sets access/modification
// times with os.Chtimes relative to one time base, runs a child process that
// calls the real housekeeping.Housekeep, and then looks with its own walker at
// which entries still exist and at a digest of everything outside.

import (
	"fmt"
	"io"
	"math/rand"
	"os"
	"os/exec"
	"path/filepath"
	"sort"
	"strings"
	"sync"
	"syscall"
	"time"

	"github.com/mutagen-io/extstat"

	"github.com/mutagen-io/mutagen/pkg/filesystem"
	"github.com/mutagen-io/mutagen/pkg/housekeeping"

	"verif/harness/internal/vlib"
)

type hkArt struct {
	ID   string `json:"id"`
	Kind string `json:"kind"` // agent | cache | staging | other
	Form string `json:"form"` // plain | linkout | nobinary | innerlink
	Age  int    `json:"age"`  // minutes
}

type hkIn struct {
	Sidecar bool    `json:"sidecar"`
	Arts    []hkArt `json:"arts"`
	Seed    int     `json:"seed"`
}

const agentBinaryName = "mutagen-agent" // platform.ExecutableName(agent.BaseName, "linux")

func childHousekeep(args []string) int {
	housekeeping.Housekeep()
	fmt.Println("done")
	return 0
}

func hkLimit(kind string) int {
	switch kind {
	case "agent":
		return 30 * 24 * 60
	case "cache", "staging":
		return 7 * 24 * 60
	}
	return 0
}

func writeFileAt(path string, data []byte, atime, mtime time.Time) {
	must(os.MkdirAll(filepath.Dir(path), 0o755))
	must(os.WriteFile(path, data, 0o644))
	must(os.Chtimes(path, atime, mtime))
}

// populate creates the artifact and returns the path whose existence decides "gone".
func populate(data, outside string, a hkArt, base time.Time, r *rand.Rand) string {
	when := base.Add(-time.Duration(a.Age) * time.Minute)
	other := base.Add(-time.Duration(r.Intn(400*24*60)) * time.Minute) // the timestamp that must not matter
	blob := randBytes(int64(r.Int31()), 10+r.Intn(200))
	switch a.Kind {
	case "agent":
		entry := filepath.Join(data, filesystem.MutagenAgentsDirectoryName, a.ID)
		switch a.Form {
		case "plain":
			writeFileAt(filepath.Join(entry, agentBinaryName), blob, when, other)
			must(os.Chtimes(entry, other, other))
		case "linkout":
			target := filepath.Join(outside, "agents", a.ID)
			writeFileAt(filepath.Join(target, agentBinaryName), blob, when, other)
			must(os.Chtimes(target, other, other))
			must(os.MkdirAll(filepath.Dir(entry), 0o755))
			must(os.Symlink(target, entry))
		case "nobinary":
			writeFileAt(filepath.Join(entry, "README"), blob, when, when)
			must(os.Chtimes(entry, when, when))
		}
		return entry
	case "cache":
		entry := filepath.Join(data, filesystem.MutagenSynchronizationCachesDirectoryName, a.ID)
		switch a.Form {
		case "plain":
			writeFileAt(entry, blob, other, when)
		case "linkout":
			target := filepath.Join(outside, "caches", a.ID)
			writeFileAt(target, blob, other, when)
			must(os.MkdirAll(filepath.Dir(entry), 0o755))
			must(os.Symlink(target, entry))
		}
		return entry
	case "staging":
		entry := filepath.Join(data, filesystem.MutagenSynchronizationStagingDirectoryName, a.ID)
		switch a.Form {
		case "plain":
			writeFileAt(filepath.Join(entry, "ab", "cdef"), blob, other, other)
			must(os.Chtimes(filepath.Join(entry, "ab"), other, other))
			must(os.Chtimes(entry, other, when))
		case "linkout":
			target := filepath.Join(outside, "staging", a.ID)
			writeFileAt(filepath.Join(target, "ab", "cdef"), blob, other, other)
			must(os.Chtimes(target, other, when))
			must(os.MkdirAll(filepath.Dir(entry), 0o755))
			must(os.Symlink(target, entry))
		case "innerlink":
			precious := filepath.Join(outside, "precious", a.ID)
			writeFileAt(filepath.Join(precious, "keep", "me"), blob, other, other)
			writeFileAt(filepath.Join(entry, "ab", "cdef"), blob, other, other)
			must(os.Symlink(precious, filepath.Join(entry, "escape")))
			must(os.Symlink(filepath.Join(precious, "keep", "me"), filepath.Join(entry, "ab", "escape-file")))
			must(os.Chtimes(entry, other, when))
		}
		return entry
	default:
		sub := []string{filesystem.MutagenSynchronizationSessionsDirectoryName, filesystem.MutagenSynchronizationArchivesDirectoryName,
			filesystem.MutagenDaemonDirectoryName, filesystem.MutagenForwardingDirectoryName, "unknown-subdirectory"}[r.Intn(5)]
		entry := filepath.Join(data, sub, a.ID)
		writeFileAt(entry, blob, when, when)
		return entry
	}
}

// treeDigest describes a tree (types, modes, sizes, modification times, link
// targets, contents; not access times) without disturbing access times.
func treeDigest(root string) string {
	var parts []string
	filepath.Walk(root, func(p string, info os.FileInfo, err error) error {
		if err != nil {
			parts = append(parts, p+":ERR")
			return nil
		}
		rel, _ := filepath.Rel(root, p)
		line := fmt.Sprintf("%s|%s|%d", rel, info.Mode().String(), info.ModTime().UnixNano())
		switch {
		case info.Mode()&os.ModeSymlink != 0:
			t, _ := os.Readlink(p)
			line += "|->" + t
		case info.Mode().IsRegular():
			line += fmt.Sprintf("|%d|%s", info.Size(), shaNoAtime(p))
		}
		parts = append(parts, line)
		return nil
	})
	sort.Strings(parts)
	return shaHex([]byte(strings.Join(parts, "\n")))
}

func shaNoAtime(path string) string {
	fd, err := syscall.Open(path, syscall.O_RDONLY|syscall.O_NOATIME|syscall.O_CLOEXEC, 0)
	if err != nil {
		return "unreadable"
	}
	f := os.NewFile(uintptr(fd), path)
	defer f.Close()
	b, _ := io.ReadAll(f)
	return shaHex(b)
}

func runHousekeepCase(c *vlib.Ctx, self string, in hkIn) map[string]any {
	root := c.TempDir("hk")
	defer os.RemoveAll(root)
	data := filepath.Join(root, "data")
	outside := filepath.Join(root, "outside")
	must(os.MkdirAll(data, 0o700))
	r := rand.New(rand.NewSource(int64(in.Seed)))
	// canary tree outside, old enough to be removed if anything looked at it
	old := time.Now().Add(-500 * 24 * time.Hour)
	writeFileAt(filepath.Join(outside, "canary", "agents", "v0", agentBinaryName), []byte("canary"), old, old)
	writeFileAt(filepath.Join(outside, "canary", "caches", "c0"), []byte("canary"), old, old)
	writeFileAt(filepath.Join(outside, "canary", "staging", "s0", "f"), []byte("canary"), old, old)
	must(os.Chtimes(filepath.Join(outside, "canary", "staging", "s0"), old, old))
	base := time.Now()
	entries := map[string]string{}
	for _, a := range in.Arts {
		entries[a.ID] = populate(data, outside, a, base, r)
	}
	before := treeDigest(outside)
	inside := map[string]string{}
	for id, e := range entries {
		inside[id] = treeDigest(e)
	}
	env := []string{"MUTAGEN_DATA_DIRECTORY=" + data, "HOME=" + root, "MUTAGEN_SIDECAR="}
	if in.Sidecar {
		env[2] = "MUTAGEN_SIDECAR=1"
	}
	res := runChild(self, []string{"child", "housekeep"}, env, nil, root, 300*time.Second)
	if res.TimedOut || res.ExitCode != 0 {
		vlib.Fatal("housekeep child failed: exit=%d timeout=%v %s", res.ExitCode, res.TimedOut, res.Stderr)
	}
	elapsed := time.Since(base)
	slack := int((elapsed + time.Minute - 1) / time.Minute)
	gone, changed := []string{}, []string{}
	for _, a := range in.Arts {
		e := entries[a.ID]
		if _, err := os.Lstat(e); err != nil {
			gone = append(gone, a.ID)
		} else if treeDigest(e) != inside[a.ID] {
			changed = append(changed, a.ID)
		}
	}
	out := map[string]any{"gone": gone, "changed": changed, "before": before, "after": treeDigest(outside), "slack": slack,
		"elapsed_ms": int(elapsed / time.Millisecond)}
	return map[string]any{"ev": "Housekeep", "in": in, "out": out}
}

var hkDeltas = []int{-1440, -60, -1, 1, 60, 1440}

func hkForms(kind string) []string {
	switch kind {
	case "agent":
		return []string{"plain", "linkout", "nobinary"}
	case "cache":
		return []string{"plain", "linkout"}
	case "staging":
		return []string{"plain", "linkout", "innerlink"}
	}
	return []string{"plain"}
}

func deltaName(d int) string {
	if d < 0 {
		return fmt.Sprintf("m%d", -d)
	}
	return fmt.Sprintf("p%d", d)
}

func runHousekeep(c *vlib.Ctx) error {
	self := selfPath()
	runs := argInt(c, "runs", 12)
	var cases []hkIn
	for k := 0; k < runs; k++ {
		in := hkIn{Sidecar: k%2 == 1, Seed: int(c.Rand.Int31())}
		n := 0
		for _, kind := range []string{"agent", "cache", "staging"} {
			for _, form := range hkForms(kind) {
				for _, d := range hkDeltas {
					// the first two runs hold every variant of the bounded space; later ones random subsets
					if k >= 2 && c.Rand.Intn(10) >= 7 {
						continue
					}
					n++
					in.Arts = append(in.Arts, hkArt{ID: fmt.Sprintf("%s-%s-%s-%d", kind, form, deltaName(d), n), Kind: kind, Form: form, Age: hkLimit(kind) + d})
				}
				// random ages anywhere between 0 and 60 days
				for x := 0; x < 2; x++ {
					n++
					in.Arts = append(in.Arts, hkArt{ID: fmt.Sprintf("%s-%s-rand-%d", kind, form, n), Kind: kind, Form: form, Age: c.Rand.Intn(60 * 24 * 60)})
				}
			}
		}
		for x := 0; x < 4; x++ {
			n++
			in.Arts = append(in.Arts, hkArt{ID: fmt.Sprintf("other-%d", n), Kind: "other", Form: "plain", Age: 100*24*60 + c.Rand.Intn(300*24*60)})
		}
		cases = append(cases, in)
	}
	recs := make([]map[string]any, len(cases))
	parallel(len(cases), 4, func(i int) { recs[i] = runHousekeepCase(c, self, cases[i]) })
	for i, rec := range recs {
		c.Emit(rec)
		c.Eval()
		gone := map[string]bool{}
		for _, id := range rec["out"].(map[string]any)["gone"].([]string) {
			gone[id] = true
		}
		for _, a := range cases[i].Arts {
			// non-trivial: an artifact near a threshold (within a day) that was decided either way
			if l := hkLimit(a.Kind); l > 0 && a.Age-l <= 1440 && l-a.Age <= 1440 {
				c.NonTrivial(fmt.Sprintf("%v/%s/%s/%d/%v", cases[i].Sidecar, a.Kind, a.Form, a.Age-l, gone[a.ID]))
			}
		}
		if i < 2 {
			o := rec["out"].(map[string]any)
			c.Sample(map[string]any{"sidecar": cases[i].Sidecar, "artifacts": len(cases[i].Arts), "gone": len(o["gone"].([]string)), "slack": o["slack"], "elapsed_ms": o["elapsed_ms"]})
		}
		c.AddExtra("artifacts", len(cases[i].Arts))
	}
	// growth: housekeeping while staging roots and agent installations are in use
	for k := 0; k < argInt(c, "live", 2); k++ {
		rec := runHousekeepLive(c, self, int(c.Rand.Int31()))
		c.Emit(rec)
		c.Eval()
		c.AddExtra("live_runs", 1)
		if k == 0 {
			c.Sample(map[string]any{"live": rec["out"].(map[string]any)["live"], "gone": rec["out"].(map[string]any)["gone"]})
		}
	}
	return nil
}

func replayHousekeep(c *vlib.Ctx) error {
	doc := c.LoadReplay()
	var rec struct {
		Src string `json:"src"`
		In  hkIn   `json:"in"`
	}
	vlib.Decode(doc["begin"], &rec)
	if rec.Src == "live" {
		c.Emit(runHousekeepLive(c, selfPath(), rec.In.Seed))
		c.Eval()
		return nil
	}
	c.Emit(runHousekeepCase(c, selfPath(), rec.In))
	c.Eval()
	return nil
}

// ---------------------------------------------------------------------------
// Growth increment "housekeeping while in use" (spec/process/HousekeepingLive.tla).
//
// The data directory is populated as above, plus live artifacts whose users keep
// going while the child runs the real Housekeep:
//
//	staging root, recent, a writer creating prefix directories and files
//	staging root, stale when created, refreshed (new prefix directory) by its
//	    writer before Housekeep starts, writer keeps going
//	staging root, stale by its own mtime, writer works only inside an existing
//	    prefix directory (never refreshes the root): conformance only
//	agent installation whose binary is being executed right now
//	agent installation whose process runs but whose access time is old
//	    (a long-running agent): conformance only
//
// The ages of the live artifacts that enter the verdict are the ones the parent
// observes (lstat) immediately before it starts Housekeep.
func runHousekeepLive(c *vlib.Ctx, self string, seed int) map[string]any {
	root := c.TempDir("hklive")
	defer os.RemoveAll(root)
	data := filepath.Join(root, "data")
	outside := filepath.Join(root, "outside")
	must(os.MkdirAll(data, 0o700))
	must(os.MkdirAll(outside, 0o755))
	r := rand.New(rand.NewSource(int64(seed)))
	base := time.Now()
	in := hkIn{Sidecar: false, Seed: seed}
	entries := map[string]string{}
	// a background population of ordinary artifacts around the thresholds
	n := 0
	for _, kind := range []string{"agent", "cache", "staging"} {
		for _, d := range []int{-1440, -60, 60, 1440} {
			n++
			a := hkArt{ID: fmt.Sprintf("%s-plain-%s-%d", kind, deltaName(d), n), Kind: kind, Form: "plain", Age: hkLimit(kind) + d}
			in.Arts = append(in.Arts, a)
			entries[a.ID] = populate(data, outside, a, base, r)
		}
	}
	stagingDir := filepath.Join(data, filesystem.MutagenSynchronizationStagingDirectoryName)
	agentsDir := filepath.Join(data, filesystem.MutagenAgentsDirectoryName)
	staleTime := base.Add(-time.Duration(hkLimit("staging")+1440) * time.Minute)
	mk := func(name string, when time.Time) string {
		p := filepath.Join(stagingDir, name)
		writeFileAt(filepath.Join(p, "00", "seed"), []byte("x"), when, when)
		must(os.Chtimes(filepath.Join(p, "00"), when, when))
		must(os.Chtimes(p, when, when))
		return p
	}
	liveRecent := mk("live-recent", base.Add(-10*time.Minute))
	liveRefreshed := mk("live-refreshed", staleTime)
	liveStale := mk("live-stale-inside", staleTime)
	// running agents: copies of this executable, started as lingering processes
	startAgent := func(name string) (*exec.Cmd, string) {
		dir := filepath.Join(agentsDir, name)
		must(os.MkdirAll(dir, 0o755))
		bin := filepath.Join(dir, agentBinaryName)
		// a copy, not a hard link: timestamps belong to the inode, and the housekeeping
		// child itself is executed from this executable's inode
		data, err := os.ReadFile(self)
		must(err)
		must(os.WriteFile(bin, data, 0o755))
		old := base.Add(-time.Duration(hkLimit("agent")+1440) * time.Minute)
		must(os.Chtimes(bin, old, old))
		cmd := exec.Command(bin, "child", "linger", "own", root)
		must(cmd.Start())
		return cmd, bin
	}
	runningCmd, runningBin := startAgent("v-running")
	oldCmd, oldBin := startAgent("v-running-old-atime")
	defer func() {
		for _, cm := range []*exec.Cmd{runningCmd, oldCmd} {
			cm.Process.Kill()
			cm.Wait()
		}
	}()
	// executing does or does not refresh the access time (mount options); the long-running one is made old again
	time.Sleep(50 * time.Millisecond)
	oldT := base.Add(-time.Duration(hkLimit("agent")+1440) * time.Minute)
	must(os.Chtimes(oldBin, oldT, oldT))
	// the refreshed root: a new prefix directory before Housekeep starts
	must(os.MkdirAll(filepath.Join(liveRefreshed, "7f"), 0o755))
	// writers
	stop := make(chan struct{})
	type wstat struct{ ops, errs int }
	stats := make([]wstat, 3)
	var wg sync.WaitGroup
	writer := func(idx int, rootDir string, refresh bool) {
		defer wg.Done()
		i := 0
		for {
			select {
			case <-stop:
				return
			default:
			}
			i++
			sub := "00"
			if refresh {
				sub = fmt.Sprintf("%02x", i%256)
			}
			stats[idx].ops++
			if err := os.MkdirAll(filepath.Join(rootDir, sub), 0o755); err != nil {
				stats[idx].errs++
			} else if err := os.WriteFile(filepath.Join(rootDir, sub, fmt.Sprintf("f%d", i)), []byte("data"), 0o644); err != nil {
				stats[idx].errs++
			}
			time.Sleep(200 * time.Microsecond)
		}
	}
	wg.Add(3)
	go writer(0, liveRecent, true)
	go writer(1, liveRefreshed, true)
	go writer(2, liveStale, false)
	// observed ages (minutes) immediately before the call
	observe := func(id, kind, entry, stamped string, atime bool) {
		age := 0
		if ex, err := extstat.NewFromFileName(stamped); err == nil {
			t := ex.ModTime
			if atime {
				t = ex.AccessTime
			}
			if d := base.Sub(t); d > 0 {
				age = int(d / time.Minute)
			}
		}
		in.Arts = append(in.Arts, hkArt{ID: id, Kind: kind, Form: "live", Age: age})
		entries[id] = entry
	}
	observe("live-recent", "staging", liveRecent, liveRecent, false)
	observe("live-refreshed", "staging", liveRefreshed, liveRefreshed, false)
	observe("v-running", "agent", filepath.Dir(runningBin), runningBin, true)
	before := treeDigest(outside)
	env := []string{"MUTAGEN_DATA_DIRECTORY=" + data, "HOME=" + root, "MUTAGEN_SIDECAR="}
	res := runChild(self, []string{"child", "housekeep"}, env, nil, root, 300*time.Second)
	close(stop)
	wg.Wait()
	if res.TimedOut || res.ExitCode != 0 {
		vlib.Fatal("housekeep child failed: exit=%d timeout=%v %s", res.ExitCode, res.TimedOut, res.Stderr)
	}
	elapsed := time.Since(base)
	slack := int((elapsed + time.Minute - 1) / time.Minute)
	gone := []string{}
	for _, a := range in.Arts {
		if _, err := os.Lstat(entries[a.ID]); err != nil {
			gone = append(gone, a.ID)
		}
	}
	exists := func(p string) bool { _, err := os.Lstat(p); return err == nil }
	live := map[string]any{
		"writer_ops":                  stats[0].ops + stats[1].ops + stats[2].ops,
		"errors_recent":               stats[0].errs,
		"errors_refreshed":            stats[1].errs,
		"errors_stale_inside":         stats[2].errs,
		"stale_inside_removed":        !exists(liveStale),
		"old_atime_agent_removed":     !exists(filepath.Dir(oldBin)),
		"old_atime_agent_process_up":  pidExists(oldCmd.Process.Pid),
		"running_agent_process_up":    pidExists(runningCmd.Process.Pid),
		"running_agent_atime_refresh": in.Arts[len(in.Arts)-1].Age < hkLimit("agent"),
	}
	out := map[string]any{"gone": gone, "changed": []string{}, "before": before, "after": treeDigest(outside), "slack": slack,
		"elapsed_ms": int(elapsed / time.Millisecond), "live": live}
	return map[string]any{"ev": "Housekeep", "src": "live", "in": in, "out": out}
}
