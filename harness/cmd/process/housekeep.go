package main

// C43: housekeeping.Housekeep on populated scratch data directories.
//
// The parent creates <root>/data (the MUTAGEN_DATA_DIRECTORY) and
// <root>/outside (link targets and a canary tree), sets access/modification
// times with os.Chtimes relative to one time base, runs a child process that
// calls the real housekeeping.Housekeep, and then looks with its own walker at
// which entries still exist and at a digest of everything outside.

import (
	"fmt"
	"io"
	"math/rand"
	"os"
	"path/filepath"
	"sort"
	"strings"
	"syscall"
	"time"

	"github.com/mutagen-io/mutagen/pkg/filesystem"
	"github.com/mutagen-io/mutagen/pkg/housekeeping"

	"verif/harness/internal/vlib"
)

type hkArt struct {
	ID   string `json:"id"`
	Kind string `json:"kind"` // agent | cache | staging | other
	Form string `json:"form"` // plain | linkout | nobinary | innerlink
	Age  int    `json:"age"`  // minutes
}

type hkIn struct {
	Sidecar bool    `json:"sidecar"`
	Arts    []hkArt `json:"arts"`
	Seed    int     `json:"seed"`
}

const agentBinaryName = "mutagen-agent" // platform.ExecutableName(agent.BaseName, "linux")

func childHousekeep(args []string) int {
	housekeeping.Housekeep()
	fmt.Println("done")
	return 0
}

func hkLimit(kind string) int {
	switch kind {
	case "agent":
		return 30 * 24 * 60
	case "cache", "staging":
		return 7 * 24 * 60
	}
	return 0
}

func writeFileAt(path string, data []byte, atime, mtime time.Time) {
	must(os.MkdirAll(filepath.Dir(path), 0o755))
	must(os.WriteFile(path, data, 0o644))
	must(os.Chtimes(path, atime, mtime))
}

// populate creates the artifact and returns the path whose existence decides "gone".
func populate(data, outside string, a hkArt, base time.Time, r *rand.Rand) string {
	when := base.Add(-time.Duration(a.Age) * time.Minute)
	other := base.Add(-time.Duration(r.Intn(400*24*60)) * time.Minute) // the timestamp that must not matter
	blob := randBytes(int64(r.Int31()), 10+r.Intn(200))
	switch a.Kind {
	case "agent":
		entry := filepath.Join(data, filesystem.MutagenAgentsDirectoryName, a.ID)
		switch a.Form {
		case "plain":
			writeFileAt(filepath.Join(entry, agentBinaryName), blob, when, other)
			must(os.Chtimes(entry, other, other))
		case "linkout":
			target := filepath.Join(outside, "agents", a.ID)
			writeFileAt(filepath.Join(target, agentBinaryName), blob, when, other)
			must(os.Chtimes(target, other, other))
			must(os.MkdirAll(filepath.Dir(entry), 0o755))
			must(os.Symlink(target, entry))
		case "nobinary":
			writeFileAt(filepath.Join(entry, "README"), blob, when, when)
			must(os.Chtimes(entry, when, when))
		}
		return entry
	case "cache":
		entry := filepath.Join(data, filesystem.MutagenSynchronizationCachesDirectoryName, a.ID)
		switch a.Form {
		case "plain":
			writeFileAt(entry, blob, other, when)
		case "linkout":
			target := filepath.Join(outside, "caches", a.ID)
			writeFileAt(target, blob, other, when)
			must(os.MkdirAll(filepath.Dir(entry), 0o755))
			must(os.Symlink(target, entry))
		}
		return entry
	case "staging":
		entry := filepath.Join(data, filesystem.MutagenSynchronizationStagingDirectoryName, a.ID)
		switch a.Form {
		case "plain":
			writeFileAt(filepath.Join(entry, "ab", "cdef"), blob, other, other)
			must(os.Chtimes(filepath.Join(entry, "ab"), other, other))
			must(os.Chtimes(entry, other, when))
		case "linkout":
			target := filepath.Join(outside, "staging", a.ID)
			writeFileAt(filepath.Join(target, "ab", "cdef"), blob, other, other)
			must(os.Chtimes(target, other, when))
			must(os.MkdirAll(filepath.Dir(entry), 0o755))
			must(os.Symlink(target, entry))
		case "innerlink":
			precious := filepath.Join(outside, "precious", a.ID)
			writeFileAt(filepath.Join(precious, "keep", "me"), blob, other, other)
			writeFileAt(filepath.Join(entry, "ab", "cdef"), blob, other, other)
			must(os.Symlink(precious, filepath.Join(entry, "escape")))
			must(os.Symlink(filepath.Join(precious, "keep", "me"), filepath.Join(entry, "ab", "escape-file")))
			must(os.Chtimes(entry, other, when))
		}
		return entry
	default:
		sub := []string{filesystem.MutagenSynchronizationSessionsDirectoryName, filesystem.MutagenSynchronizationArchivesDirectoryName,
			filesystem.MutagenDaemonDirectoryName, filesystem.MutagenForwardingDirectoryName, "unknown-subdirectory"}[r.Intn(5)]
		entry := filepath.Join(data, sub, a.ID)
		writeFileAt(entry, blob, when, when)
		return entry
	}
}

// treeDigest describes a tree (types, modes, sizes, modification times, link
// targets, contents; not access times) without disturbing access times.
func treeDigest(root string) string {
	var parts []string
	filepath.Walk(root, func(p string, info os.FileInfo, err error) error {
		if err != nil {
			parts = append(parts, p+":ERR")
			return nil
		}
		rel, _ := filepath.Rel(root, p)
		line := fmt.Sprintf("%s|%s|%d", rel, info.Mode().String(), info.ModTime().UnixNano())
		switch {
		case info.Mode()&os.ModeSymlink != 0:
			t, _ := os.Readlink(p)
			line += "|->" + t
		case info.Mode().IsRegular():
			line += fmt.Sprintf("|%d|%s", info.Size(), shaNoAtime(p))
		}
		parts = append(parts, line)
		return nil
	})
	sort.Strings(parts)
	return shaHex([]byte(strings.Join(parts, "\n")))
}

func shaNoAtime(path string) string {
	fd, err := syscall.Open(path, syscall.O_RDONLY|syscall.O_NOATIME|syscall.O_CLOEXEC, 0)
	if err != nil {
		return "unreadable"
	}
	f := os.NewFile(uintptr(fd), path)
	defer f.Close()
	b, _ := io.ReadAll(f)
	return shaHex(b)
}

func runHousekeepCase(c *vlib.Ctx, self string, in hkIn) map[string]any {
	root := c.TempDir("hk")
	defer os.RemoveAll(root)
	data := filepath.Join(root, "data")
	outside := filepath.Join(root, "outside")
	must(os.MkdirAll(data, 0o700))
	r := rand.New(rand.NewSource(int64(in.Seed)))
	// canary tree outside, old enough to be removed if anything looked at it
	old := time.Now().Add(-500 * 24 * time.Hour)
	writeFileAt(filepath.Join(outside, "canary", "agents", "v0", agentBinaryName), []byte("canary"), old, old)
	writeFileAt(filepath.Join(outside, "canary", "caches", "c0"), []byte("canary"), old, old)
	writeFileAt(filepath.Join(outside, "canary", "staging", "s0", "f"), []byte("canary"), old, old)
	must(os.Chtimes(filepath.Join(outside, "canary", "staging", "s0"), old, old))
	base := time.Now()
	entries := map[string]string{}
	for _, a := range in.Arts {
		entries[a.ID] = populate(data, outside, a, base, r)
	}
	before := treeDigest(outside)
	inside := map[string]string{}
	for id, e := range entries {
		inside[id] = treeDigest(e)
	}
	env := []string{"MUTAGEN_DATA_DIRECTORY=" + data, "HOME=" + root, "MUTAGEN_SIDECAR="}
	if in.Sidecar {
		env[2] = "MUTAGEN_SIDECAR=1"
	}
	res := runChild(self, []string{"child", "housekeep"}, env, nil, root, 300*time.Second)
	if res.TimedOut || res.ExitCode != 0 {
		vlib.Fatal("housekeep child failed: exit=%d timeout=%v %s", res.ExitCode, res.TimedOut, res.Stderr)
	}
	elapsed := time.Since(base)
	slack := int((elapsed + time.Minute - 1) / time.Minute)
	gone, changed := []string{}, []string{}
	for _, a := range in.Arts {
		e := entries[a.ID]
		if _, err := os.Lstat(e); err != nil {
			gone = append(gone, a.ID)
		} else if treeDigest(e) != inside[a.ID] {
			changed = append(changed, a.ID)
		}
	}
	out := map[string]any{"gone": gone, "changed": changed, "before": before, "after": treeDigest(outside), "slack": slack,
		"elapsed_ms": int(elapsed / time.Millisecond)}
	return map[string]any{"ev": "Housekeep", "in": in, "out": out}
}

var hkDeltas = []int{-1440, -60, -1, 1, 60, 1440}

func hkForms(kind string) []string {
	switch kind {
	case "agent":
		return []string{"plain", "linkout", "nobinary"}
	case "cache":
		return []string{"plain", "linkout"}
	case "staging":
		return []string{"plain", "linkout", "innerlink"}
	}
	return []string{"plain"}
}

func deltaName(d int) string {
	if d < 0 {
		return fmt.Sprintf("m%d", -d)
	}
	return fmt.Sprintf("p%d", d)
}

func runHousekeep(c *vlib.Ctx) error {
	self := selfPath()
	runs := argInt(c, "runs", 12)
	var cases []hkIn
	for k := 0; k < runs; k++ {
		in := hkIn{Sidecar: k%2 == 1, Seed: int(c.Rand.Int31())}
		n := 0
		for _, kind := range []string{"agent", "cache", "staging"} {
			for _, form := range hkForms(kind) {
				for _, d := range hkDeltas {
					// the first two runs hold every variant of the bounded space; later ones random subsets
					if k >= 2 && c.Rand.Intn(10) >= 7 {
						continue
					}
					n++
					in.Arts = append(in.Arts, hkArt{ID: fmt.Sprintf("%s-%s-%s-%d", kind, form, deltaName(d), n), Kind: kind, Form: form, Age: hkLimit(kind) + d})
				}
				// random ages anywhere between 0 and 60 days
				for x := 0; x < 2; x++ {
					n++
					in.Arts = append(in.Arts, hkArt{ID: fmt.Sprintf("%s-%s-rand-%d", kind, form, n), Kind: kind, Form: form, Age: c.Rand.Intn(60 * 24 * 60)})
				}
			}
		}
		for x := 0; x < 4; x++ {
			n++
			in.Arts = append(in.Arts, hkArt{ID: fmt.Sprintf("other-%d", n), Kind: "other", Form: "plain", Age: 100*24*60 + c.Rand.Intn(300*24*60)})
		}
		cases = append(cases, in)
	}
	recs := make([]map[string]any, len(cases))
	parallel(len(cases), 4, func(i int) { recs[i] = runHousekeepCase(c, self, cases[i]) })
	for i, rec := range recs {
		c.Emit(rec)
		c.Eval()
		gone := map[string]bool{}
		for _, id := range rec["out"].(map[string]any)["gone"].([]string) {
			gone[id] = true
		}
		for _, a := range cases[i].Arts {
			// non-trivial: an artifact near a threshold (within a day) that was decided either way
			if l := hkLimit(a.Kind); l > 0 && a.Age-l <= 1440 && l-a.Age <= 1440 {
				c.NonTrivial(fmt.Sprintf("%v/%s/%s/%d/%v", cases[i].Sidecar, a.Kind, a.Form, a.Age-l, gone[a.ID]))
			}
		}
		if i < 2 {
			o := rec["out"].(map[string]any)
			c.Sample(map[string]any{"sidecar": cases[i].Sidecar, "artifacts": len(cases[i].Arts), "gone": len(o["gone"].([]string)), "slack": o["slack"], "elapsed_ms": o["elapsed_ms"]})
		}
		c.AddExtra("artifacts", len(cases[i].Arts))
	}
	return nil
}

func replayHousekeep(c *vlib.Ctx) error {
	doc := c.LoadReplay()
	var rec struct {
		In hkIn `json:"in"`
	}
	vlib.Decode(doc["begin"], &rec)
	c.Emit(runHousekeepCase(c, selfPath(), rec.In))
	c.Eval()
	return nil
}
