package main

// C28: daemon.AcquireLock raced by several processes.
//
// Race case: n contender processes ("child locker contend") share one scratch
// MUTAGEN_DATA_DIRECTORY. Each loops: real daemon.AcquireLock (non-blocking);
// on success it appends "enter <i>" to the journal, holds for a moment, appends
// "exit <i>", calls Release. The parent appends "killing <i>" before it sends
// SIGKILL to a contender and "killed <i>" after it has reaped it, then starts a
// probe contender that must get the lock within a multi-second watchdog. The
// journal (O_APPEND, one write per line) is the trace.
//
// Availability case: one holder acquires and reports; a second process tries
// (must fail); the holder releases (staying alive) / exits without releasing /
// is killed / is terminated; a probe process then tries exactly once.

import (
	"bufio"
	"fmt"
	"io"
	"math/rand"
	"os"
	"os/exec"
	"path/filepath"
	"runtime"
	"runtime/debug"
	"strconv"
	"strings"
	"syscall"
	"time"

	"github.com/mutagen-io/mutagen/pkg/daemon"

	"verif/harness/internal/vlib"
)

func appendLine(path, line string) {
	f, err := os.OpenFile(path, os.O_WRONLY|os.O_APPEND|os.O_CREATE, 0o644)
	if err != nil {
		fmt.Fprintln(os.Stderr, "journal:", err)
		os.Exit(70)
	}
	if _, err := f.Write([]byte(line + "\n")); err != nil {
		fmt.Fprintln(os.Stderr, "journal:", err)
		os.Exit(70)
	}
	f.Close()
}

// childLocker: args = mode index journal [rounds seed holdMaxMs]
func childLocker(args []string) int {
	if len(args) < 3 {
		return 64
	}
	mode, idx, journal := args[0], args[1], args[2]
	in := bufio.NewReader(os.Stdin)
	switch mode {
	case "step":
		return childLockerStep()
	case "contend":
		rounds, _ := strconv.Atoi(args[3])
		seed, _ := strconv.Atoi(args[4])
		holdMax, _ := strconv.Atoi(args[5])
		r := rand.New(rand.NewSource(int64(seed)))
		fmt.Println("ready")
		in.ReadString('\n') // start signal
		acquired, failed := 0, 0
		start := time.Now()
		for acquired < rounds && time.Since(start) < 20*time.Second {
			lock, err := daemon.AcquireLock()
			if err != nil {
				failed++
				time.Sleep(time.Duration(r.Intn(1500)) * time.Microsecond)
				continue
			}
			appendLine(journal, "enter "+idx)
			if r.Intn(4) == 0 {
				// a collection while holding: finalizers of whatever earlier (refused) attempts left behind run now
				runtime.GC()
				time.Sleep(2 * time.Millisecond)
				runtime.GC()
				appendLine(journal, "gc "+idx)
			}
			if holdMax > 0 {
				time.Sleep(time.Duration(r.Intn(holdMax*1000)) * time.Microsecond)
			}
			appendLine(journal, "exit "+idx)
			if err := lock.Release(); err != nil {
				fmt.Printf("release-error %s\n", asciiOnly(err.Error()))
			}
			acquired++
			time.Sleep(time.Duration(r.Intn(1000)) * time.Microsecond)
		}
		fmt.Printf("done %d %d\n", acquired, failed)
		return 0
	case "hold":
		lock, err := daemon.AcquireLock()
		if err != nil {
			fmt.Printf("fail %s\n", asciiOnly(err.Error()))
			return 0
		}
		fmt.Println("held")
		for {
			cmd, err := in.ReadString('\n')
			switch strings.TrimSpace(cmd) {
			case "release":
				if err := lock.Release(); err != nil {
					fmt.Printf("release-error %s\n", asciiOnly(err.Error()))
				} else {
					fmt.Println("released")
				}
			case "exit":
				os.Exit(0) // without releasing
			}
			if err != nil {
				return 0
			}
		}
	case "probe":
		lock, err := daemon.AcquireLock()
		if err != nil {
			fmt.Printf("fail %s\n", asciiOnly(err.Error()))
			return 0
		}
		fmt.Println("ok")
		lock.Release()
		return 0
	}
	return 64
}

type lockProc struct {
	idx  int
	cmd  *exec.Cmd
	in   io.WriteCloser
	out  *bufio.Reader
	done chan struct{}
}

func startLocker(self, dataDir, mode string, idx int, journal string, extra ...string) *lockProc {
	args := append([]string{"child", "locker", mode, strconv.Itoa(idx), journal}, extra...)
	cmd := exec.Command(self, args...)
	cmd.Env = append(os.Environ(), "MUTAGEN_DATA_DIRECTORY="+dataDir, "HOME="+filepath.Dir(dataDir))
	cmd.Stderr = os.Stderr
	in, err := cmd.StdinPipe()
	must(err)
	so, err := cmd.StdoutPipe()
	must(err)
	must(cmd.Start())
	p := &lockProc{idx: idx, cmd: cmd, in: in, out: bufio.NewReader(so), done: make(chan struct{})}
	return p
}

// line reads one line from the child under a watchdog; "" on timeout / EOF.
func (p *lockProc) line(d time.Duration) string {
	ch := make(chan string, 1)
	go func() {
		s, _ := p.out.ReadString('\n')
		ch <- strings.TrimSpace(s)
	}()
	select {
	case s := <-ch:
		return s
	case <-time.After(d):
		return ""
	}
}

// wait reaps the child under a watchdog (kills it if it overstays).
func (p *lockProc) wait(d time.Duration) bool {
	ch := make(chan struct{})
	go func() { p.cmd.Wait(); close(ch) }()
	select {
	case <-ch:
		return true
	case <-time.After(d):
		p.cmd.Process.Kill()
		<-ch
		return false
	}
}

type raceIn struct {
	Kind   string `json:"kind"` // "race"
	N      int    `json:"n"`
	Rounds int    `json:"rounds"`
	Kills  int    `json:"kills"`
	HoldMs int    `json:"holdms"`
	Seed   int    `json:"seed"`
}

func runRace(c *vlib.Ctx, self string, cid int, in raceIn) []map[string]any {
	root := c.TempDir("lock")
	defer os.RemoveAll(root)
	dataDir := filepath.Join(root, "data")
	must(os.MkdirAll(dataDir, 0o700))
	journal := filepath.Join(root, "journal")
	must(os.WriteFile(journal, nil, 0o644))
	r := rand.New(rand.NewSource(int64(in.Seed)))
	procs := map[int]*lockProc{}
	for i := 1; i <= in.N; i++ {
		procs[i] = startLocker(self, dataDir, "contend", i, journal, strconv.Itoa(in.Rounds), strconv.Itoa(r.Intn(1<<30)), strconv.Itoa(in.HoldMs))
	}
	for i := 1; i <= in.N; i++ {
		if procs[i].line(120*time.Second) != "ready" {
			vlib.Fatal("contender %d did not start", i)
		}
	}
	for i := 1; i <= in.N; i++ {
		io.WriteString(procs[i].in, "go\n")
	}
	recs := []map[string]any{{"ev": "RaceBegin", "cid": cid, "begin": true, "in": in}}
	var probes []map[string]any
	alive := []int{}
	for i := 1; i <= in.N; i++ {
		alive = append(alive, i)
	}
	next := in.N + 1
	for k := 0; k < in.Kills && len(alive) > 1; k++ {
		time.Sleep(time.Duration(5+r.Intn(40)) * time.Millisecond)
		pick := r.Intn(len(alive))
		victim := alive[pick]
		alive = append(alive[:pick], alive[pick+1:]...)
		appendLine(journal, fmt.Sprintf("killing %d", victim))
		procs[victim].cmd.Process.Kill()
		procs[victim].cmd.Wait()
		appendLine(journal, fmt.Sprintf("killed %d", victim))
		delete(procs, victim)
		// a probe contender: one acquisition, must come through while the others keep racing
		t0 := time.Now()
		pr := startLocker(self, dataDir, "contend", next, journal, "1", strconv.Itoa(r.Intn(1<<30)), "0")
		pr.line(120 * time.Second)
		io.WriteString(pr.in, "go\n")
		res := pr.line(15 * time.Second)
		pr.in.Close()
		pr.wait(5 * time.Second)
		probes = append(probes, map[string]any{"ev": "Probe", "cid": cid, "who": next, "after": victim,
			"ok": strings.HasPrefix(res, "done 1 "), "ms": int(time.Since(t0) / time.Millisecond)})
		next++
	}
	stats := map[string]any{"acquired": 0, "failed": 0, "finished": 0, "overstayed": 0}
	for i, p := range procs {
		_ = i
		res := p.line(60 * time.Second)
		var a, f int
		if n, _ := fmt.Sscanf(res, "done %d %d", &a, &f); n == 2 {
			stats["acquired"] = stats["acquired"].(int) + a
			stats["failed"] = stats["failed"].(int) + f
			stats["finished"] = stats["finished"].(int) + 1
		}
		p.in.Close()
		if !p.wait(10 * time.Second) {
			stats["overstayed"] = stats["overstayed"].(int) + 1
		}
	}
	// the journal is the trace
	data, err := os.ReadFile(journal)
	must(err)
	for _, ln := range strings.Split(strings.TrimSpace(string(data)), "\n") {
		var what string
		var who int
		if n, _ := fmt.Sscanf(ln, "%s %d", &what, &who); n == 2 {
			recs = append(recs, map[string]any{"ev": "Lock", "cid": cid, "who": who, "what": what})
		} else if ln != "" {
			recs = append(recs, map[string]any{"ev": "Lock", "cid": cid, "who": 0, "what": "garbled"})
		}
	}
	recs = append(recs, probes...)
	recs = append(recs, map[string]any{"ev": "RaceEnd", "cid": cid, "stats": stats})
	return recs
}

type availIn struct {
	Kind string `json:"kind"` // "avail"
	End  string `json:"end"`  // release | exit | kill | term
	Seed int    `json:"seed"`
}

func runAvail(c *vlib.Ctx, self string, cid int, in availIn) []map[string]any {
	root := c.TempDir("lock")
	defer os.RemoveAll(root)
	dataDir := filepath.Join(root, "data")
	must(os.MkdirAll(dataDir, 0o700))
	journal := filepath.Join(root, "journal")
	out := map[string]any{"held": false, "second": false, "ended": false, "probe": false, "probe_err": "", "ms": 0}
	h := startLocker(self, dataDir, "hold", 1, journal)
	out["held"] = h.line(120*time.Second) == "held"
	probe := func() (bool, string) {
		p := startLocker(self, dataDir, "probe", 2, journal)
		res := p.line(120 * time.Second)
		p.in.Close()
		p.wait(10 * time.Second)
		return res == "ok", res
	}
	if out["held"] == true {
		out["second"], _ = probe()
	}
	t0 := time.Now()
	switch in.End {
	case "release":
		io.WriteString(h.in, "release\n")
		out["ended"] = h.line(30*time.Second) == "released"
	case "exit":
		io.WriteString(h.in, "exit\n")
		out["ended"] = h.wait(30 * time.Second)
	case "kill":
		h.cmd.Process.Kill()
		out["ended"] = h.wait(30 * time.Second)
	case "term":
		h.cmd.Process.Signal(syscall.SIGTERM)
		out["ended"] = h.wait(30 * time.Second)
	}
	ok, res := probe()
	out["probe"], out["probe_err"] = ok, res
	out["ms"] = int(time.Since(t0) / time.Millisecond)
	if in.End == "release" {
		h.in.Close()
		h.wait(10 * time.Second)
	}
	return []map[string]any{{"ev": "Avail", "cid": cid, "begin": true, "in": in, "out": out}}
}

func runLock(c *vlib.Ctx) error {
	self := selfPath()
	races := argInt(c, "races", 10)
	avails := argInt(c, "avails", 3)
	cid := 0
	emit := func(recs []map[string]any) {
		for _, r := range recs {
			c.Emit(r)
		}
		c.Eval()
		c.TraceDone()
	}
	for _, end := range []string{"release", "exit", "kill", "term"} {
		for k := 0; k < avails; k++ {
			cid++
			in := availIn{Kind: "avail", End: end, Seed: int(c.Rand.Int31())}
			recs := runAvail(c, self, cid, in)
			emit(recs)
			o := recs[0]["out"].(map[string]any)
			if o["held"] == true && o["ended"] == true {
				c.NonTrivial(fmt.Sprintf("avail/%s/%d", end, k))
			}
			if k == 0 {
				c.Sample(recs[0])
			}
		}
	}
	// a process that loses and lives on: lock-step scenarios (see runStepScenario)
	nstep := argInt(c, "steps", 3)
	for k := 0; k < nstep; k++ {
		cid++
		in := stepIn{Kind: "step", Variant: []string{"refused-hold-gc", "refused-exit", "never-refused", "refused-hold-gc"}[k%4],
			End: []string{"release", "kill"}[(k/4)%2], Refusals: 1 + c.Rand.Intn(4), Seed: int(c.Rand.Int31())}
		if k%4 == 3 {
			in.End = "kill"
		}
		recs := runStepScenario(c, self, cid, in)
		emit(recs)
		st := recs[len(recs)-1]["stats"].(map[string]any)
		if st["acquired"].(int) >= 2 && st["failed"].(int) >= 1 {
			c.NonTrivial(fmt.Sprintf("step/%s/%s/%d", in.Variant, in.End, in.Refusals))
		}
		c.AddExtra("step_scenarios", 1)
		if k == 0 {
			c.Sample(map[string]any{"in": in, "events": len(recs) - 2})
		}
	}
	// growth: the daemon lifecycle around the lock (real `daemon run` / `stop` processes)
	ndaemon := argInt(c, "daemons", 3)
	for k := 0; k < ndaemon; k++ {
		cid++
		in := daemonIn{Kind: "daemon", End: daemonEnds()[k%4], Seed: int(c.Rand.Int31())}
		recs := runDaemonEpisode(c, self, cid, in)
		emit(recs)
		c.AddExtra("daemon_episodes", 1)
		if k == 0 {
			c.Sample(map[string]any{"end": in.End, "events": describeDaemonEvents(recs[0]["out"].(map[string]any)["events"].([]map[string]any))})
		}
	}
	for k := 0; k < races; k++ {
		cid++
		in := raceIn{Kind: "race", N: 3 + c.Rand.Intn(4), Rounds: 10 + c.Rand.Intn(20), Kills: c.Rand.Intn(4), HoldMs: c.Rand.Intn(4), Seed: int(c.Rand.Int31())}
		recs := runRace(c, self, cid, in)
		emit(recs)
		st := recs[len(recs)-1]["stats"].(map[string]any)
		// non-trivial: the lock really was contended (some attempts failed) and changed hands
		if st["failed"].(int) > 0 && st["acquired"].(int) > in.N {
			c.NonTrivial(fmt.Sprintf("race/%d", in.Seed))
		}
		c.AddExtra("journal_lines", len(recs)-2)
		c.AddExtra("acquisitions", st["acquired"].(int))
		c.AddExtra("failed_attempts", st["failed"].(int))
		if k == 0 {
			c.Sample(map[string]any{"in": in, "stats": st, "first_lines": recs[1:min(len(recs), 6)]})
		}
	}
	return nil
}

func replayLock(c *vlib.Ctx) error {
	doc := c.LoadReplay()
	var rec struct {
		In map[string]any `json:"in"`
	}
	vlib.Decode(doc["begin"], &rec)
	var recs []map[string]any
	if rec.In["kind"] == "step" {
		var in stepIn
		vlib.Decode(rec.In, &in)
		recs = runStepScenario(c, selfPath(), 1, in)
	} else if rec.In["kind"] == "daemon" {
		var in daemonIn
		vlib.Decode(rec.In, &in)
		recs = runDaemonEpisode(c, selfPath(), 1, in)
	} else if rec.In["kind"] == "avail" {
		var in availIn
		vlib.Decode(rec.In, &in)
		recs = runAvail(c, selfPath(), 1, in)
	} else {
		var in raceIn
		vlib.Decode(rec.In, &in)
		recs = runRace(c, selfPath(), 1, in)
	}
	for _, r := range recs {
		c.Emit(r)
	}
	c.Eval()
	return nil
}

// ---------------------------------------------------------------------------
// Lock-step scenarios: a process that loses and lives on.
//
// "child locker step" obeys one command per input line - acquire (the real
// daemon.AcquireLock; answers acquired / refused), release, gc (two forced
// collections, debug.FreeOSMemory, an allocation storm, pauses for the
// finalizer goroutine, another collection), exit. The parent drives two or
// three such processes strictly one command at a time, so the order of the
// events it records is the order in which things happened (pipes, no clock):
//
//	refused-hold-gc  A holds; B is refused k times (C too); A releases or is
//	                 killed; B - the same process - acquires, collects garbage
//	                 while holding; C keeps trying and must be refused; B
//	                 collects again; B releases; C acquires
//	refused-exit     A holds; B is refused k times and exits; A collects; C is
//	                 refused; A releases; C acquires
//	never-refused    A holds from a fresh start, collects; C is refused; A
//	                 releases; C acquires
//
// On POSIX closing ANY descriptor of the lock file drops the process's fcntl
// lock, so a descriptor left open by a refused attempt and closed later by a
// finalizer would let C in while B believes it holds: "enter" of C with B inside.

func gcStorm() {
	runtime.GC()
	runtime.GC()
	debug.FreeOSMemory()
	var sink [][]byte
	for i := 0; i < 256; i++ {
		sink = append(sink, make([]byte, 32<<10))
		if i%32 == 31 {
			sink = nil
		}
	}
	_ = sink
	time.Sleep(20 * time.Millisecond) // let the finalizer / cleanup goroutine run
	runtime.GC()
	time.Sleep(20 * time.Millisecond)
	runtime.GC()
}

func childLockerStep() int {
	in := bufio.NewReader(os.Stdin)
	var held *daemon.Lock
	fmt.Println("ready")
	for {
		line, err := in.ReadString('\n')
		switch strings.TrimSpace(line) {
		case "acquire":
			if held != nil {
				fmt.Println("already")
				break
			}
			if l, err := daemon.AcquireLock(); err != nil {
				fmt.Println("refused")
			} else {
				held = l
				fmt.Println("acquired")
			}
		case "release":
			if held == nil {
				fmt.Println("notheld")
				break
			}
			if err := held.Release(); err != nil {
				fmt.Printf("release-error %s\n", asciiOnly(err.Error()))
			} else {
				fmt.Println("released")
			}
			held = nil
		case "gc":
			gcStorm()
			fmt.Println("gcdone")
		case "exit":
			return 0
		}
		if err != nil {
			return 0
		}
	}
}

type stepIn struct {
	Kind     string `json:"kind"`    // "step"
	Variant  string `json:"variant"` // refused-hold-gc | refused-exit | never-refused
	End      string `json:"end"`     // how the first holder ends: release | kill
	Refusals int    `json:"refusals"`
	Seed     int    `json:"seed"`
}

func runStepScenario(c *vlib.Ctx, self string, cid int, in stepIn) []map[string]any {
	root := c.TempDir("lockstep")
	defer os.RemoveAll(root)
	dataDir := filepath.Join(root, "data")
	must(os.MkdirAll(dataDir, 0o700))
	procs := map[int]*lockProc{}
	defer func() {
		for _, p := range procs {
			p.in.Close()
			p.wait(5 * time.Second)
		}
	}()
	start := func(i int) {
		p := startLocker(self, dataDir, "step", i, filepath.Join(root, "unused"))
		if p.line(120*time.Second) != "ready" {
			vlib.Fatal("step process %d did not start", i)
		}
		procs[i] = p
	}
	recs := []map[string]any{{"ev": "RaceBegin", "cid": cid, "begin": true, "in": in}}
	ev := func(who int, what string) {
		recs = append(recs, map[string]any{"ev": "Lock", "cid": cid, "who": who, "what": what})
	}
	ask := func(i int, cmd string) string {
		io.WriteString(procs[i].in, cmd+"\n")
		res := procs[i].line(120 * time.Second)
		if res == "" {
			vlib.Fatal("step process %d did not answer %q", i, cmd)
		}
		return res
	}
	acquired, refused := 0, 0
	holds := map[int]bool{} // who answered "acquired" and has not been asked to release
	acquire := func(i int) bool {
		if holds[i] {
			return true // already got in (possibly although somebody else believes to hold)
		}
		switch res := ask(i, "acquire"); res {
		case "acquired":
			ev(i, "enter")
			acquired++
			holds[i] = true
			return true
		case "refused":
			ev(i, "refused")
			refused++
			return false
		default:
			vlib.Fatal("step process %d: unexpected %q", i, res)
		}
		return false
	}
	release := func(i int) {
		// the journal discipline: "exit" is recorded before the lock is given up
		ev(i, "exit")
		holds[i] = false
		if res := ask(i, "release"); res != "released" && !strings.HasPrefix(res, "release-error") {
			vlib.Fatal("step process %d: release gave %q", i, res)
		}
	}
	gc := func(i int) {
		ask(i, "gc")
		ev(i, "gc")
	}
	tryAFew := func(i, n int) {
		for k := 0; k < n && !holds[i]; k++ {
			acquire(i)
			time.Sleep(5 * time.Millisecond)
		}
	}
	const A, B, C = 1, 2, 3
	start(A)
	start(C)
	aHolds := acquire(A)
	switch in.Variant {
	case "refused-hold-gc":
		start(B)
		for k := 0; k < in.Refusals; k++ {
			acquire(B)
			if k%2 == 0 {
				acquire(C)
			}
		}
		if aHolds && in.End == "kill" {
			ev(A, "killing")
			procs[A].cmd.Process.Kill()
			procs[A].cmd.Wait()
			delete(procs, A)
			ev(A, "killed")
		} else if aHolds {
			release(A)
		}
		if acquire(B) { // the same process that was refused before
			gc(B)
			tryAFew(C, 3)
			gc(B)
			tryAFew(C, 2)
			release(B)
		}
		if acquire(C) {
			gc(C)
			release(C)
		}
	case "refused-exit":
		start(B)
		for k := 0; k < in.Refusals; k++ {
			acquire(B)
		}
		ask(B, "gc")
		io.WriteString(procs[B].in, "exit\n")
		procs[B].wait(10 * time.Second)
		delete(procs, B)
		if aHolds {
			gc(A)
			tryAFew(C, 2)
			release(A)
		}
		if acquire(C) {
			release(C)
		}
	default: // never-refused
		if aHolds {
			gc(A)
			tryAFew(C, 3)
			gc(A)
			release(A)
		}
		if acquire(C) {
			release(C)
		}
	}
	recs = append(recs, map[string]any{"ev": "RaceEnd", "cid": cid, "stats": map[string]any{"acquired": acquired, "failed": refused, "finished": len(procs), "overstayed": 0}})
	return recs
}
