package main

// C27: filesystem.WriteFileAtomic / encoding.MarshalAndSaveProtobuf under a
// crash or a genuine failure at each step.
//
// A child process ("child atomic") installs the verifAtomicStep callback and
// calls the real function. Depending on the scenario the callback
//
//	crash      kills its own process with SIGKILL right before step k
//	           (k = 6: after the function has returned; "midwrite": lowers
//	           RLIMIT_FSIZE below the data size and leaves SIGXFSZ at its
//	           default, so the process dies inside the write with a partly
//	           written temporary on disk);
//	fail       makes the next real call fail: RLIMIT_NOFILE = 0 before the
//	           creation, the temporary's descriptor closed behind the file
//	           object's back before Write / Close, RLIMIT_FSIZE with SIGXFSZ
//	           ignored for a real short write, the temporary unlinked before
//	           Chmod / Rename.
//
// A target that is a non-empty directory (rename fails by itself) and a missing
// parent directory (creation fails by itself) need no hook. The parent lists
// the directory (and TMPDIR / the working directory) after the child is gone.

import (
	"encoding/json"
	"fmt"
	"os"
	"os/signal"
	"path/filepath"
	"sort"
	"strconv"
	"strings"
	"syscall"
	"time"
	"unsafe"

	"google.golang.org/protobuf/proto"
	"google.golang.org/protobuf/types/known/wrapperspb"

	"github.com/mutagen-io/mutagen/pkg/encoding"
	"github.com/mutagen-io/mutagen/pkg/filesystem"

	"verif/harness/internal/vlib"
)

type aContent struct {
	K string `json:"k"`
	B string `json:"b"`
	Z int    `json:"z"`
}

type aIn struct {
	API    string   `json:"api"`  // "write" | "proto"
	OldK   string   `json:"oldk"` // what the driver puts at the target beforehand: absent | file | dir
	Old    aContent `json:"old"`
	New    aContent `json:"new"`
	Parent bool     `json:"parent"` // the parent directory exists
	Perm   int      `json:"perm"`
	Mode   string   `json:"mode"` // none | crash | fail
	Step   string   `json:"step"` // create write midwrite close chmod rename ret none
	How    string   `json:"how"`  // realisation of the fault
	Seed   int      `json:"seed"`
	Oz     int      `json:"oz"`    // size of the old content
	Nz     int      `json:"nz"`    // size of the payload handed to the API
	Fsize  int      `json:"fsize"` // RLIMIT_FSIZE for the midwrite cases
}

type aEntry struct {
	N  string   `json:"n"`
	NC []string `json:"nc"`
	K  string   `json:"k"`
	B  string   `json:"b"`
	Z  int      `json:"z"`
	M  int      `json:"m"`
}

type aChildReq struct {
	API   string `json:"api"`
	Path  string `json:"path"`
	Data  string `json:"data"` // file holding the payload
	Perm  int    `json:"perm"`
	Mode  string `json:"mode"`
	Step  string `json:"step"`
	How   string `json:"how"`
	Fsize int    `json:"fsize"`
}

var stepNumber = map[string]int{"create": 1, "write": 2, "midwrite": 2, "close": 3, "chmod": 4, "rename": 5, "ret": 6}

func dieNow() {
	syscall.Kill(os.Getpid(), syscall.SIGKILL)
	select {}
}

// closeDescriptorOf closes, behind the os.File's back, the descriptor that refers to path.
func closeDescriptorOf(path string) bool {
	ents, err := os.ReadDir("/proc/self/fd")
	if err != nil {
		return false
	}
	for _, e := range ents {
		if t, err := os.Readlink("/proc/self/fd/" + e.Name()); err == nil && t == path {
			if fd, err := strconv.Atoi(e.Name()); err == nil {
				return syscall.Close(fd) == nil
			}
		}
	}
	return false
}

// defaultSIGXFSZ restores SIG_DFL for SIGXFSZ with a raw rt_sigaction (the Go
// runtime installs its own handler for every signal and ignores this one).
func defaultSIGXFSZ() {
	var sa [4]uint64 // struct kernel_sigaction: handler, flags, restorer, mask; all zero = SIG_DFL
	syscall.RawSyscall6(syscall.SYS_RT_SIGACTION, uintptr(syscall.SIGXFSZ), uintptr(unsafe.Pointer(&sa[0])), 0, 8, 0, 0)
}

// armFileSizeLimit lowers RLIMIT_FSIZE. deadly: the kernel's SIGXFSZ inside
// write(2) terminates the process (the Go runtime would swallow the signal, so
// the default action is restored first; core files are disabled). Otherwise the
// signal is ignored and write(2) returns a short count, then EFBIG.
func armFileSizeLimit(limit int, deadly bool) {
	if deadly {
		defaultSIGXFSZ()
		syscall.Setrlimit(syscall.RLIMIT_CORE, &syscall.Rlimit{})
	} else {
		signal.Ignore(syscall.SIGXFSZ)
	}
	lim := syscall.Rlimit{Cur: uint64(limit), Max: uint64(limit)}
	syscall.Setrlimit(syscall.RLIMIT_FSIZE, &lim)
}

func childAtomic(args []string) int {
	var rq aChildReq
	if err := json.NewDecoder(os.Stdin).Decode(&rq); err != nil {
		fmt.Fprintln(os.Stderr, "decode:", err)
		return 65
	}
	data, err := os.ReadFile(rq.Data)
	if err != nil {
		fmt.Fprintln(os.Stderr, "payload:", err)
		return 66
	}
	want := stepNumber[rq.Step]
	filesystem.VerifSetAtomicStep(func(step int, path string) {
		fmt.Fprintf(os.Stderr, "step %d\n", step)
		if rq.Mode == "none" || step != want {
			return
		}
		if rq.How == "prearmed" {
			return
		}
		if rq.Mode == "crash" {
			if rq.Step == "midwrite" {
				armFileSizeLimit(rq.Fsize, true)
				return
			}
			dieNow()
		}
		switch rq.How {
		case "nofile":
			var lim syscall.Rlimit
			syscall.Getrlimit(syscall.RLIMIT_NOFILE, &lim)
			lim.Cur = 0
			syscall.Setrlimit(syscall.RLIMIT_NOFILE, &lim)
		case "closefd":
			if !closeDescriptorOf(path) {
				fmt.Fprintln(os.Stderr, "sabotage failed: descriptor not found")
			}
		case "fsize":
			armFileSizeLimit(rq.Fsize, false)
		case "unlink":
			if err := syscall.Unlink(path); err != nil {
				fmt.Fprintln(os.Stderr, "sabotage failed:", err)
			}
		}
	})
	if rq.How == "prearmed" {
		// the limit is in force before the function is entered: whatever file it
		// writes first is the one that is cut short
		armFileSizeLimit(rq.Fsize, rq.Mode == "crash")
	}
	switch rq.API {
	case "write":
		err = filesystem.WriteFileAtomic(rq.Path, data, os.FileMode(rq.Perm))
	case "proto":
		err = encoding.MarshalAndSaveProtobuf(rq.Path, &wrapperspb.BytesValue{Value: data})
	default:
		return 67
	}
	if rq.Mode == "crash" && rq.Step == "ret" {
		dieNow()
	}
	os.Stdout.Write(jsonOf(map[string]any{"returned": true, "err": errStr(err)}))
	return 0
}

func chars(s string) []string {
	out := make([]string, 0, len(s))
	for i := 0; i < len(s); i++ {
		c := s[i]
		if c < 0x20 || c >= 0x7f || c == '"' || c == '\\' {
			out = append(out, fmt.Sprintf("x%02x", c))
		} else {
			out = append(out, string(c))
		}
	}
	return out
}

// describe lists path (not recursive for files; a directory's digest covers its subtree).
func describe(path, name string) aEntry {
	e := aEntry{N: asciiOnly(name), NC: chars(name)}
	st, err := os.Lstat(path)
	if err != nil {
		e.K = "gone"
		return e
	}
	e.M = int(st.Mode().Perm())
	switch {
	case st.Mode().IsRegular():
		e.K = "file"
		e.B, e.Z, _ = shaFile(path)
	case st.IsDir():
		e.K = "dir"
		var parts []string
		n := 0
		filepath.Walk(path, func(p string, info os.FileInfo, err error) error {
			if err != nil || p == path {
				return nil
			}
			rel, _ := filepath.Rel(path, p)
			d := ""
			if info.Mode().IsRegular() {
				d, _, _ = shaFile(p)
			}
			parts = append(parts, rel+":"+info.Mode().String()+":"+d)
			n++
			return nil
		})
		sort.Strings(parts)
		e.B = shaHex([]byte(strings.Join(parts, "\n")))
		e.Z = n
	default:
		e.K = "other"
	}
	return e
}

func listDir(dir string) []aEntry {
	out := []aEntry{}
	ents, err := os.ReadDir(dir)
	if err != nil {
		return out
	}
	for _, e := range ents {
		out = append(out, describe(filepath.Join(dir, e.Name()), e.Name()))
	}
	sort.Slice(out, func(i, j int) bool { return out[i].N < out[j].N })
	return out
}

const atomicTarget = "session_0123"

// runAtomicCase materialises one scenario, runs the child and observes.
func runAtomicCase(c *vlib.Ctx, self string, in aIn, src string) map[string]any {
	root := c.TempDir("atomic")
	defer os.RemoveAll(root)
	dir := filepath.Join(root, "data", "sessions")
	elsewhere := filepath.Join(root, "elsewhere")
	must(os.MkdirAll(elsewhere, 0o755))
	target := filepath.Join(dir, atomicTarget)
	oldBytes := randBytes(int64(in.Seed), in.Oz)
	payload := randBytes(int64(in.Seed)+1, in.Nz)
	newBytes := payload
	if in.API == "proto" {
		var err error
		newBytes, err = proto.Marshal(&wrapperspb.BytesValue{Value: payload})
		must(err)
		in.Perm = 0o600
	}
	in.New = aContent{K: "file", B: shaHex(newBytes), Z: len(newBytes)}
	in.Old = aContent{K: "absent"}
	if in.Parent {
		must(os.MkdirAll(dir, 0o755))
		must(os.WriteFile(filepath.Join(dir, "bystander"), randBytes(int64(in.Seed)+2, 100), 0o644))
		// a leftover of some earlier crash and an unrelated dot file
		must(os.WriteFile(filepath.Join(dir, ".mutagen-temporary-atomic-write000"), []byte("stale"), 0o600))
		must(os.WriteFile(filepath.Join(dir, ".hidden"), []byte("h"), 0o600))
		switch in.OldK {
		case "file":
			must(os.WriteFile(target, oldBytes, 0o600))
		case "dir":
			must(os.MkdirAll(target, 0o700))
			must(os.WriteFile(filepath.Join(target, "keep"), oldBytes, 0o600))
		}
	} else {
		must(os.MkdirAll(filepath.Dir(dir), 0o755))
	}
	pre := []aEntry{}
	for _, e := range listDir(dir) {
		if e.N == atomicTarget {
			in.Old = aContent{K: e.K, B: e.B, Z: e.Z}
		} else {
			pre = append(pre, e)
		}
	}
	dataFile := filepath.Join(root, "payload")
	must(os.WriteFile(dataFile, payload, 0o600))
	rq := aChildReq{API: in.API, Path: target, Data: dataFile, Perm: in.Perm, Mode: in.Mode, Step: in.Step, How: in.How, Fsize: in.Fsize}
	res := runChild(self, []string{"child", "atomic"}, []string{"TMPDIR=" + elsewhere, "HOME=" + root}, jsonOf(rq), elsewhere, 180*time.Second)
	if res.TimedOut {
		vlib.Fatal("atomic child timed out: %s", res.Stderr)
	}
	out := map[string]any{"returned": false, "err": false, "errtxt": "", "exit": res.ExitCode, "signaled": res.Signaled, "steps": strings.Count(string(res.Stderr), "step ")}
	var ans struct {
		Returned bool   `json:"returned"`
		Err      string `json:"err"`
	}
	if json.Unmarshal(res.Stdout, &ans) == nil && ans.Returned {
		out["returned"], out["err"], out["errtxt"] = true, ans.Err != "", ans.Err
	} else if res.ExitCode == 0 || (res.ExitCode > 2 && !res.Signaled) {
		vlib.Fatal("atomic child misbehaved: exit=%d out=%q err=%q", res.ExitCode, res.Stdout, res.Stderr)
	}
	if strings.Contains(string(res.Stderr), "sabotage failed") {
		vlib.Fatal("atomic child: %s", res.Stderr)
	}
	return map[string]any{"ev": "Atomic", "src": src, "in": in, "tn": chars(atomicTarget), "pre": pre, "out": out,
		"dir": listDir(dir), "else": listDir(elsewhere)}
}

// hows lists the realisations of a failing step.
func hows(mode, step string) []string {
	if step == "midwrite" {
		if mode == "crash" {
			return []string{"hook", "prearmed"}
		}
		return []string{"fsize", "prearmed"}
	}
	if mode != "fail" {
		return []string{""}
	}
	switch step {
	case "create":
		return []string{"nofile"}
	case "write":
		return []string{"closefd"}
	case "close":
		return []string{"closefd"}
	case "chmod", "rename":
		return []string{"unlink"}
	}
	return []string{""}
}

func drawSize(c *vlib.Ctx, min int) int {
	r := c.Rand
	var n int
	switch r.Intn(8) {
	case 0:
		n = 0
	case 1:
		n = 1 + r.Intn(16)
	case 2:
		n = 60000 + r.Intn(10000) // around the 64 KB pipe/page-cache granularity
	case 3:
		n = 200000 + r.Intn(848576) // up to 1 MB
	default:
		n = 1 + r.Intn(8000)
	}
	if n < min {
		n = min
	}
	return n
}

func runAtomic(c *vlib.Ctx) error {
	self := selfPath()
	type scen struct {
		Old  string `json:"old"`
		Mode string `json:"mode"`
		Step string `json:"step"`
	}
	var scens []scen
	for _, b := range c.ReadBehaviours() {
		var s scen
		vlib.Decode(b, &s)
		scens = append(scens, s)
	}
	if len(scens) == 0 {
		return fmt.Errorf("no scenarios exported by the model")
	}
	sort.Slice(scens, func(i, j int) bool {
		return scens[i].Old+scens[i].Mode+scens[i].Step < scens[j].Old+scens[j].Mode+scens[j].Step
	})
	reps := argInt(c, "reps", 2)
	perms := []int{0o600, 0o644, 0o640, 0o400, 0o666}
	var cases []aIn
	for rep := 0; rep < reps; rep++ {
		for _, s := range scens {
			for _, api := range []string{"write", "proto"} {
				for _, how := range hows(s.Mode, s.Step) {
					in := aIn{API: api, OldK: s.Old, Parent: s.Old != "noparent", Mode: s.Mode, Step: s.Step, How: how,
						Perm: perms[c.Rand.Intn(len(perms))], Seed: int(c.Rand.Int31())}
					if s.Old == "noparent" {
						in.OldK = "absent"
					}
					in.Oz = drawSize(c, 0)
					min := 0
					if s.Step == "midwrite" {
						min = 2
					}
					in.Nz = drawSize(c, min)
					if s.Step == "midwrite" {
						in.Fsize = 1 + c.Rand.Intn(in.Nz-1)
					}
					if rep == 0 && api == "write" {
						// first round: old and new of equal size, so that size alone never tells them apart
						in.Oz = in.Nz
					}
					cases = append(cases, in)
				}
			}
		}
	}
	recs := make([]map[string]any, len(cases))
	parallel(len(cases), 8, func(i int) { recs[i] = runAtomicCase(c, self, cases[i], "mc") })
	for i, rec := range recs {
		c.Emit(rec)
		c.Eval()
		in := rec["in"].(aIn)
		out := rec["out"].(map[string]any)
		fired := (in.Mode == "crash" && out["returned"] == false) || (in.Mode == "fail" && out["err"] == true) || in.Mode == "none"
		if fired {
			c.NonTrivial(fmt.Sprintf("%s/%s/%s/%s/%s/%d", in.API, in.OldK, in.Mode, in.Step, in.How, in.Seed))
		}
		if i%61 == 0 {
			c.Sample(map[string]any{"in": in, "out": out})
		}
	}
	c.SetExtra("scenarios_from_model", len(scens))
	c.SetExhaustive(true)
	return nil
}

func replayAtomic(c *vlib.Ctx) error {
	doc := c.LoadReplay()
	var rec struct {
		Src string `json:"src"`
		In  aIn    `json:"in"`
	}
	vlib.Decode(doc["begin"], &rec)
	c.Emit(runAtomicCase(c, selfPath(), rec.In, rec.Src))
	c.Eval()
	return nil
}
