package main

// Growth increment "agent dial": the real agent.Dial (connect / probe / install /
// redial) against a scripted transport.
//
// "child dial" runs inside a scratch <root>/bin layout that holds a bundle (so
// that install's ExecutableForPlatform finds one). For every script - a
// behaviour of spec/process/AgentDial.tla: the answer class the environment
// gives to each command - it calls the real agent.Dial with a transport whose
//
//	Command(c)      classifies c (agent invocation in "/" or "\" syntax, uname,
//	                cmd.exe /c set, "<name> install"), takes the scripted answer
//	                and returns a command that re-executes this binary as
//	                "child dialenv <kind> <answer>", which plays the remote side
//	                (real agent.ServerHandshake / mutagen.ServerVersionHandshake,
//	                or the error text and exit code of a shell that cannot find
//	                the command, ...);
//	Copy(l, r)      hashes the local file it is handed;
//	ClassifyError   is the real SSH transport's.
//
// It reports the commands it saw, the outcome, what was copied, and which of
// the processes it created still exist after Dial returned an error (or after
// the returned stream was closed).

import (
	"bufio"
	"encoding/binary"
	"encoding/json"
	"errors"
	"fmt"
	"io"
	"os"
	"os/exec"
	"os/signal"
	"path/filepath"
	"sort"
	"strings"
	"syscall"
	"time"

	"github.com/mutagen-io/mutagen/pkg/agent"
	"github.com/mutagen-io/mutagen/pkg/agent/transport/ssh"
	"github.com/mutagen-io/mutagen/pkg/logging"
	"github.com/mutagen-io/mutagen/pkg/mutagen"

	"verif/harness/internal/vlib"
)

type dStep struct {
	Cmd string `json:"cmd"`
	Ans string `json:"ans"`
}

type dScript struct {
	M     string  `json:"m"`
	Steps []dStep `json:"steps"`
	Ok    bool    `json:"ok"`
}

type stdio struct{}

func (stdio) Read(p []byte) (int, error)  { return os.Stdin.Read(p) }
func (stdio) Write(p []byte) (int, error) { return os.Stdout.Write(p) }
func (stdio) Close() error                { return nil }

// childDialEnv plays the remote end of one command. args = kind answer
func childDialEnv(args []string) int {
	if len(args) < 2 {
		return 64
	}
	kind, ans := args[0], args[1]
	untilEOF := func() { io.Copy(io.Discard, os.Stdin) }
	switch kind {
	case "connect_posix", "connect_cmd":
		switch ans {
		case "ok":
			if agent.ServerHandshake(stdio{}) != nil || mutagen.ServerVersionHandshake(stdio{}) != nil {
				return 1
			}
			untilEOF()
			return 0
		case "badversion":
			if agent.ServerHandshake(stdio{}) != nil {
				return 1
			}
			var v [12]byte
			binary.BigEndian.PutUint32(v[:4], mutagen.VersionMajor+1)
			binary.BigEndian.PutUint32(v[4:8], mutagen.VersionMinor)
			binary.BigEndian.PutUint32(v[8:], mutagen.VersionPatch)
			os.Stdout.Write(v[:])
			untilEOF()
			return 0
		case "nf_posix":
			fmt.Fprintln(os.Stderr, "sh: 1: .mutagen/agents/mutagen-agent: command not found")
			return 127
		case "inv_win":
			fmt.Fprint(os.Stderr, "'.mutagen' is not recognized as an internal or external command,\r\noperable program or batch file.\r\n")
			return 1
		case "nf_win":
			fmt.Fprint(os.Stderr, "The system cannot find the path specified.\r\n")
			return 1
		case "other":
			fmt.Fprintln(os.Stderr, "Permission denied (publickey).")
			return 255
		case "garbage":
			fmt.Println("Welcome to FooOS 1.0 (no agent here)")
			return 0
		case "stubborn":
			signal.Ignore(syscall.SIGTERM, syscall.SIGHUP, syscall.SIGPIPE)
			fmt.Println("Welcome to FooOS 1.0 (no agent here)")
			time.Sleep(90 * time.Second)
			return 0
		}
	case "uname":
		switch ans {
		case "posix_ok":
			fmt.Println("Linux x86_64")
		case "winposix_ok":
			fmt.Println("MINGW64_NT-10.0-19045 x86_64")
		case "nobundle":
			fmt.Println("FreeBSD amd64")
		case "unknown":
			fmt.Println("Plan9 x86_64")
		case "garbage":
			fmt.Println("Linux")
		default:
			fmt.Fprintln(os.Stderr, "'uname' is not recognized as an internal or external command")
			return 1
		}
		return 0
	case "cmdset":
		switch ans {
		case "win_ok":
			fmt.Print("ALLUSERSPROFILE=C:\\ProgramData\r\nOS=Windows_NT\r\nPROCESSOR_ARCHITECTURE=AMD64\r\n")
		case "unknown":
			fmt.Print("OS=OS2\r\nPROCESSOR_ARCHITECTURE=AMD64\r\n")
		default:
			fmt.Fprintln(os.Stderr, "sh: 1: cmd.exe: not found")
			return 127
		}
		return 0
	case "install_posix", "install_cmd":
		if ans == "ok" {
			return 0
		}
		fmt.Fprintln(os.Stderr, "unable to relocate agent executable")
		return 1
	}
	return 64
}

type dialTransport struct {
	self      string
	script    []dStep
	pos       int
	seen      []dStep
	cmds      []*exec.Cmd
	offscript bool
	copied    map[string]any
	real      agent.Transport
}

func classifyCommand(command string) string {
	switch {
	case strings.HasPrefix(command, "uname"):
		return "uname"
	case strings.HasPrefix(command, "cmd.exe /c set"):
		return "cmdset"
	case strings.HasPrefix(command, "chmod"):
		return "chmod"
	case strings.HasSuffix(command, " "+agent.CommandInstall):
		if strings.HasPrefix(command, "./") {
			return "install_posix"
		}
		return "install_cmd"
	case strings.Contains(command, agent.BaseName) && strings.Contains(command, "\\"):
		return "connect_cmd"
	case strings.Contains(command, agent.BaseName):
		return "connect_posix"
	}
	return "unknown"
}

func (t *dialTransport) next(kind string) string {
	ans := "fail"
	if t.pos < len(t.script) && t.script[t.pos].Cmd == kind {
		ans = t.script[t.pos].Ans
		t.pos++
	} else {
		t.offscript = true
		if strings.HasPrefix(kind, "connect") {
			ans = "other"
		}
	}
	t.seen = append(t.seen, dStep{Cmd: kind, Ans: ans})
	return ans
}

func (t *dialTransport) Command(command string) (*exec.Cmd, error) {
	kind := classifyCommand(command)
	cmd := exec.Command(t.self, "child", "dialenv", kind, t.next(kind))
	t.cmds = append(t.cmds, cmd)
	return cmd, nil
}

func (t *dialTransport) Copy(localPath, remoteName string) error {
	ans := t.next("copy")
	sha, n, err := shaFile(localPath)
	t.copied = map[string]any{"called": true, "b": sha, "z": n, "readable": err == nil, "local": localPath,
		"dot": strings.HasPrefix(remoteName, "."), "exe": strings.HasSuffix(remoteName, ".exe")}
	if ans != "ok" {
		return errors.New("scp: connection lost")
	}
	return nil
}

func (t *dialTransport) ClassifyError(state *os.ProcessState, errorOutput string) (bool, bool, error) {
	return t.real.ClassifyError(state, errorOutput)
}

// childDial: one script per input line, one report line each.
func childDial(args []string) int {
	self, _ := os.Executable()
	real, err := ssh.NewTransport("", "fake", 0, "")
	if err != nil {
		return 70
	}
	logger := logging.NewLogger(logging.LevelError, io.Discard)
	dec := json.NewDecoder(os.Stdin)
	for {
		var sc dScript
		if err := dec.Decode(&sc); err != nil {
			if err == io.EOF {
				return 0
			}
			return 65
		}
		t := &dialTransport{self: self, script: sc.Steps, real: real, copied: map[string]any{"called": false, "b": "", "z": 0}}
		type res struct {
			stream io.ReadWriteCloser
			err    error
		}
		done := make(chan res, 1)
		t0 := time.Now()
		go func() {
			s, err := agent.Dial(logger, t, agent.CommandSynchronizer, "")
			if err == nil {
				s.Close() // the caller's part: closing the returned stream ends the agent
			}
			done <- res{s, err}
		}()
		out := map[string]any{"returned": false, "ok": false, "err": "", "ms": 0}
		select {
		case r := <-done:
			out["returned"], out["ok"], out["err"] = true, r.err == nil, errStr(r.err)
		case <-time.After(40 * time.Second):
		}
		out["ms"] = int(time.Since(t0) / time.Millisecond)
		alive := 0
		for _, c := range t.cmds {
			if c.Process != nil && pidExists(c.Process.Pid) {
				alive++
				c.Process.Kill() // cleanup, after the observation
			}
		}
		out["alive"] = alive
		out["started"] = len(t.cmds)
		out["steps"] = t.seen
		if t.seen == nil {
			out["steps"] = []dStep{}
		}
		out["offscript"] = t.offscript
		templeft := false
		if l, ok := t.copied["local"].(string); ok {
			_, err := os.Lstat(l)
			templeft = err == nil
			delete(t.copied, "local")
		}
		out["copied"] = t.copied
		out["templeft"] = templeft
		os.Stdout.Write(append(jsonOf(out), '\n'))
	}
}

// dialHost is a scratch prefix with the harness in <root>/bin next to a bundle.
type dialHost struct {
	root   string
	cmd    *exec.Cmd
	in     io.WriteCloser
	out    *bufio.Reader
	bundle map[string]any
}

func newDialHost(c *vlib.Ctx, self string, seed int64) *dialHost {
	h := &dialHost{root: c.TempDir("dial")}
	bin := filepath.Join(h.root, "bin")
	must(os.MkdirAll(bin, 0o755))
	must(os.MkdirAll(filepath.Join(h.root, "tmp"), 0o755))
	loc := bLoc{K: "bundle", E: []bEntry{{N: "darwin_arm64", B: "d1"}, {N: "linux_amd64", B: "l1"}, {N: "windows_amd64", B: "w1"}}}
	materialiseLoc(bin, &loc, seed, false)
	h.bundle = map[string]any{}
	for _, e := range loc.E {
		h.bundle[e.N] = map[string]any{"b": e.B, "z": e.Z}
	}
	path := filepath.Join(bin, "agent-host")
	linkOrCopy(self, path)
	h.cmd = exec.Command(path, "child", "dial")
	h.cmd.Env = append(os.Environ(), "HOME="+h.root, "TMPDIR="+filepath.Join(h.root, "tmp"))
	h.cmd.Dir = h.root
	h.cmd.Stderr = os.Stderr
	var err error
	h.in, err = h.cmd.StdinPipe()
	must(err)
	so, err := h.cmd.StdoutPipe()
	must(err)
	h.out = bufio.NewReaderSize(so, 1<<16)
	must(h.cmd.Start())
	return h
}

func (h *dialHost) close() {
	h.in.Close()
	done := make(chan struct{})
	go func() { h.cmd.Wait(); close(done) }()
	select {
	case <-done:
	case <-time.After(10 * time.Second):
		h.cmd.Process.Kill()
		<-done
	}
	os.RemoveAll(h.root)
}

func (h *dialHost) run(sc dScript) map[string]any {
	type res struct {
		line []byte
		err  error
	}
	ch := make(chan res, 1)
	go func() {
		if _, err := h.in.Write(append(jsonOf(sc), '\n')); err != nil {
			ch <- res{nil, err}
			return
		}
		line, err := h.out.ReadBytes('\n')
		ch <- res{line, err}
	}()
	select {
	case r := <-ch:
		var out map[string]any
		dec := json.NewDecoder(strings.NewReader(string(r.line)))
		dec.UseNumber()
		if r.err != nil || dec.Decode(&out) != nil {
			vlib.Fatal("dial child failed: %v %q", r.err, r.line)
		}
		return map[string]any{"ev": "Dial", "in": map[string]any{"steps": sc.Steps, "ok": sc.Ok, "bundle": h.bundle}, "out": out}
	case <-time.After(180 * time.Second):
		h.cmd.Process.Kill()
		vlib.Fatal("dial child did not answer within 180 s")
	}
	return nil
}

// dialScripts returns the dial behaviours among the exported ones.
func dialScripts(c *vlib.Ctx) []dScript {
	var out []dScript
	for _, b := range c.ReadBehaviours() {
		if b["m"] == "dial" {
			var s dScript
			vlib.Decode(b, &s)
			out = append(out, s)
		}
	}
	sort.Slice(out, func(i, j int) bool { return string(jsonOf(out[i].Steps)) < string(jsonOf(out[j].Steps)) })
	return out
}

func hasStep(s dScript, pred func(dStep) bool) bool {
	for _, st := range s.Steps {
		if pred(st) {
			return true
		}
	}
	return false
}

// pickDialScripts returns up to n (all if n <= 0) of the exported scripts selected by keep.
func pickDialScripts(c *vlib.Ctx, n int, keep func(dScript) bool) []dScript {
	var sel []dScript
	for _, s := range dialScripts(c) {
		if keep == nil || keep(s) {
			sel = append(sel, s)
		}
	}
	if n > 0 && n < len(sel) {
		c.Rand.Shuffle(len(sel), func(i, j int) { sel[i], sel[j] = sel[j], sel[i] })
		sel = sel[:n]
	}
	return sel
}

// runDialCases runs the scripts and emits Dial records.
func runDialCases(c *vlib.Ctx, sel []dScript) {
	if len(sel) == 0 {
		return
	}
	const workers = 4
	self := selfPath()
	hosts := make(chan *dialHost, workers)
	for k := 0; k < workers; k++ {
		hosts <- newDialHost(c, self, int64(c.Rand.Int31()))
	}
	recs := make([]map[string]any, len(sel))
	parallel(len(sel), workers, func(i int) {
		h := <-hosts
		recs[i] = h.run(sel[i])
		hosts <- h
	})
	for k := 0; k < workers; k++ {
		(<-hosts).close()
	}
	for i, r := range recs {
		c.Emit(r)
		c.Eval()
		c.AddExtra("dial_cases", 1)
		if i == 0 {
			c.Sample(r)
		}
	}
}

func replayDial(c *vlib.Ctx, begin any) {
	var rec struct {
		In dScript `json:"in"`
	}
	vlib.Decode(begin, &rec)
	h := newDialHost(c, selfPath(), 7)
	defer h.close()
	c.Emit(h.run(rec.In))
	c.Eval()
}
