// Driver "process": properties whose subject is a whole process and its
// surroundings (files left behind after a crash, the daemon lock shared by
// several processes, an agent child process being shut down, the data directory
// being cleaned, the files lying next to the executable).
//
// The binary plays two roles. Started by bin/check ("run"/"replay") it is the
// orchestrator: it builds scratch layouts, starts copies of itself as child
// processes ("child <role> ..."), and records what those children returned and
// what an independent look at the disk / process table shows afterwards. As a
// child it calls the real mutagen code (filesystem.WriteFileAtomic,
// encoding.MarshalAndSaveProtobuf, daemon.AcquireLock, housekeeping.Housekeep,
// agent.ExecutableForPlatform) or plays a fake agent for transport.Stream.
//
// The driver contains no property predicate: the spec/process/*_Trace.tla
// modules judge the records.
package main

import (
	"fmt"
	"os"
	"path/filepath"

	"verif/harness/internal/vlib"
)

func main() {
	if len(os.Args) > 2 && os.Args[1] == "child" {
		os.Exit(childMain(os.Args[2], os.Args[3:]))
	}
	vlib.Main(run, replay)
}

func childMain(role string, args []string) int {
	switch role {
	case "bundle":
		return childBundle(args)
	case "atomic":
		return childAtomic(args)
	case "locker":
		return childLocker(args)
	case "housekeep":
		return childHousekeep(args)
	case "fakeagent":
		return childFakeAgent(args)
	case "linger":
		return childLinger(args)
	case "dial":
		return childDial(args)
	case "daemoncmd":
		return childDaemonCmd(args)
	case "dialenv":
		return childDialEnv(args)
	}
	fmt.Fprintf(os.Stderr, "unknown child role %q\n", role)
	return 64
}

func run(c *vlib.Ctx) error {
	absoluteScratch(c)
	switch c.Prop {
	case "C46":
		return runBundle(c)
	case "C27":
		return runAtomic(c)
	case "C28":
		return runLock(c)
	case "C43":
		return runHousekeep(c)
	case "C35":
		return runAgentClose(c)
	}
	return fmt.Errorf("driver process does not serve property %s", c.Prop)
}

// absoluteScratch: children run with other working directories.
func absoluteScratch(c *vlib.Ctx) {
	if abs, err := filepath.Abs(c.Scratch); err == nil {
		c.Scratch = abs
	}
}

func replay(c *vlib.Ctx) error {
	absoluteScratch(c)
	switch c.Prop {
	case "C46":
		return replayBundle(c)
	case "C27":
		return replayAtomic(c)
	case "C28":
		return replayLock(c)
	case "C43":
		return replayHousekeep(c)
	case "C35":
		return replayAgentClose(c)
	}
	return fmt.Errorf("driver process does not serve property %s", c.Prop)
}
